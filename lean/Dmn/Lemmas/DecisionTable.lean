import Dmn.Model.DecisionTable
import Dmn.Lemmas.DNum
import Dmn.Lemmas.DTValue

/-!
# Helper lemmas about the decision-table model (used by `Props/C03.lean`)
-/

namespace Dmn.DT

open Dmn DTValue

/-! ## Matching -/

theorem matchesLoop_eq (es : List Tri) (m : Bool) :
    matchesLoop es m = (m && es.all Tri.isTrue) := by
  induction es generalizing m with
  | nil => simp [matchesLoop]
  | cons e es ih =>
    simp only [matchesLoop, ih, List.all_cons]
    cases e.isTrue <;> cases m <;> simp

theorem isTrue_eq (e : Tri) : e.isTrue = decide (e = Tri.t) := by
  cases e <;> simp [Tri.isTrue]

theorem evalRule_matches (r : Rule) : (evalRule r).matches = Spec.ruleMatches r := by
  simp only [evalRule, matchesLoop_eq, Bool.true_and, Spec.ruleMatches]
  congr 1
  funext e
  exact isTrue_eq e

theorem matching_eq_filter (rs : List ERule) : matching rs = rs.filter (·.matches) := by
  induction rs with
  | nil => rfl
  | cons r rs ih =>
    simp only [matching, List.filter_cons, ih]

theorem matching_map_evalRule (rs : List Rule) :
    matching (rs.map evalRule) = (rs.filter Spec.ruleMatches).map evalRule := by
  induction rs with
  | nil => rfl
  | cons r rs ih =>
    simp only [List.map_cons, matching, List.filter_cons, evalRule_matches, ih]
    split <;> simp

theorem matching_evalTable (t : Table) :
    matching (evalTable t).rules = (Spec.matchingRules t).map evalRule := by
  simp [evalTable, Spec.matchingRules, matching_map_evalRule]

/-! ## Output values, positions and ranks -/

theorem evalTable_outputValues (t : Table) : (evalTable t).outputValues = Spec.outputValues t := rfl

theorem position_rank (ov : List DTValue) (v : DTValue) :
    (∀ i, position ov v = some i → Spec.rank ov v = i ∧ i < ov.length) ∧
    (position ov v = none → Spec.rank ov v = ov.length) := by
  induction ov with
  | nil => simp [position, Spec.rank]
  | cons o os ih =>
    simp only [position, Spec.rank, List.idxOf_cons, List.length_cons]
    by_cases h : o = v
    · subst h; simp
    · have hb : (o == v) = false := by simpa using h
      simp only [h, if_false, hb, cond_false]
      constructor
      · intro i hi
        cases hp : position os v with
        | none => simp [hp] at hi
        | some j =>
          simp [hp] at hi
          have := ih.1 j hp
          simp only [Spec.rank] at this
          omega
      · intro hn
        cases hp : position os v with
        | none =>
          have := ih.2 hp
          simp only [Spec.rank] at this
          omega
        | some j => simp [hp] at hn

/-- For entry lists of equal length the comparator closure orders by the lexicographic
order of the rank lists (each entry ranked among the output values of its own clause). -/
theorem compareOutputs_gt_iff :
    ∀ (ovs : List (List DTValue)) (xs ys : List DTValue), xs.length = ys.length →
      (compareOutputs ovs xs ys = .gt ↔
        Spec.lexLe (Spec.ranks ovs xs) (Spec.ranks ovs ys) = false)
  | [], _, _, _ => by simp [compareOutputs, Spec.ranks, Spec.lexLe]
  | _ :: _, [], [], _ => by simp [compareOutputs, Spec.ranks, Spec.lexLe]
  | _ :: _, [], _ :: _, h => by simp at h
  | _ :: _, _ :: _, [], h => by simp at h
  | ov :: ovs, x :: xs, y :: ys, h => by
    have ih := compareOutputs_gt_iff ovs xs ys (by simpa using h)
    have hx := position_rank ov x
    have hy := position_rank ov y
    simp only [compareOutputs, Spec.ranks, Spec.lexLe]
    cases hpx : position ov x with
    | none =>
      have rx := hx.2 hpx
      cases hpy : position ov y with
      | none =>
        have ry := hy.2 hpy
        simp only [rx, ry, ih]
        simp
      | some j =>
        have ry := hy.1 j hpy
        simp only [rx, ry.1]
        have : ¬ (ov.length < j) := by omega
        have h2 : ¬ (ov.length = j) := by omega
        simp [this, h2]
    | some i =>
      have rx := hx.1 i hpx
      cases hpy : position ov y with
      | none =>
        have ry := hy.2 hpy
        simp only [rx.1, ry]
        have : i < ov.length := rx.2
        simp [this]
      | some j =>
        have ry := hy.1 j hpy
        simp only [rx.1, ry.1]
        by_cases h1 : i < j
        · simp [h1]
        · by_cases h2 : i > j
          · have : ¬ i = j := by omega
            simp [h1, h2, this]
          · have : i = j := by omega
            subst this
            simp [ih]

/-! ## The order on keys is a total preorder -/

theorem lexLe_total : ∀ a b : List Nat, (Spec.lexLe a b || Spec.lexLe b a) = true
  | [], _ => by simp [Spec.lexLe]
  | _ :: _, [] => by simp [Spec.lexLe]
  | a :: as, b :: bs => by
    have ih := lexLe_total as bs
    simp only [Spec.lexLe]
    by_cases h1 : a < b
    · simp [h1]
    · by_cases h2 : b < a
      · simp [h2]
      · have : a = b := by omega
        subst this
        simpa using ih

theorem lexLe_trans : ∀ a b c : List Nat, Spec.lexLe a b = true → Spec.lexLe b c = true →
    Spec.lexLe a c = true
  | [], _, _, _, _ => by simp [Spec.lexLe]
  | _ :: _, [], _, h, _ => by simp [Spec.lexLe] at h
  | _ :: _, _ :: _, [], _, h => by simp [Spec.lexLe] at h
  | a :: as, b :: bs, c :: cs, h1, h2 => by
    simp only [Spec.lexLe, Bool.or_eq_true, decide_eq_true_eq, Bool.and_eq_true] at h1 h2 ⊢
    rcases h1 with h1 | ⟨h1, h1'⟩
    · rcases h2 with h2 | ⟨h2, _⟩
      · left; omega
      · left; omega
    · rcases h2 with h2 | ⟨h2, h2'⟩
      · left; omega
      · right; exact ⟨by omega, lexLe_trans as bs cs h1' h2'⟩

theorem lexLe_refl (a : List Nat) : Spec.lexLe a a = true := by
  have := lexLe_total a a
  simpa using this

/-! ## The stable insertion sort -/

/-- The comparator induced by a Boolean `≤`. -/
def ordOf {α : Type} (le : α → α → Bool) (x y : α) : Ordering := if le x y then .lt else .gt

theorem insertStable_perm {α : Type} (cmp : α → α → Ordering) (x : α) (ys : List α) :
    (insertStable cmp x ys).Perm (x :: ys) := by
  induction ys with
  | nil => simp [insertStable]
  | cons y ys ih =>
    simp only [insertStable]
    split
    · exact (List.Perm.cons y ih).trans (List.Perm.swap x y ys)
    · exact List.Perm.refl _

theorem sortStable_perm {α : Type} (cmp : α → α → Ordering) (l : List α) :
    (sortStable cmp l).Perm l := by
  induction l with
  | nil => simp [sortStable]
  | cons x xs ih =>
    simp only [sortStable]
    exact (insertStable_perm cmp x _).trans (List.Perm.cons x ih)

theorem insertStable_congr {α : Type} (cmp cmp' : α → α → Ordering) (x : α) (ys : List α)
    (h : ∀ y ∈ ys, (cmp x y = .gt ↔ cmp' x y = .gt)) :
    insertStable cmp x ys = insertStable cmp' x ys := by
  induction ys with
  | nil => rfl
  | cons y ys ih =>
    simp only [insertStable]
    have hy := h y (by simp)
    have ih' := ih (fun z hz => h z (by simp [hz]))
    by_cases hc : cmp x y = .gt
    · rw [if_pos hc, if_pos (hy.mp hc), ih']
    · rw [if_neg hc, if_neg (fun h' => hc (hy.mpr h'))]

theorem sortStable_congr {α : Type} (cmp cmp' : α → α → Ordering) (l : List α)
    (h : ∀ x ∈ l, ∀ y ∈ l, (cmp x y = .gt ↔ cmp' x y = .gt)) :
    sortStable cmp l = sortStable cmp' l := by
  induction l with
  | nil => rfl
  | cons x xs ih =>
    simp only [sortStable]
    rw [ih (fun a ha b hb => h a (by simp [ha]) b (by simp [hb]))]
    apply insertStable_congr
    intro y hy
    have : y ∈ xs := (sortStable_perm cmp' xs).mem_iff.mp hy
    exact h x (by simp) y (by simp [this])

theorem insertStable_append {α : Type} (cmp : α → α → Ordering) (x : α) (l₁ l₂ : List α)
    (h1 : ∀ b ∈ l₁, cmp x b = .gt) (h2 : ∀ b ∈ l₂, cmp x b ≠ .gt) :
    insertStable cmp x (l₁ ++ l₂) = l₁ ++ x :: l₂ := by
  induction l₁ with
  | nil =>
    cases l₂ with
    | nil => rfl
    | cons b l₂ =>
      simp only [List.nil_append, insertStable]
      rw [if_neg (h2 b (by simp))]
  | cons a l₁ ih =>
    simp only [List.cons_append, insertStable]
    rw [if_pos (h1 a (by simp)), ih (fun b hb => h1 b (by simp [hb]))]

/-- The insertion sort computes what the (stable) merge sort of core Lean computes. -/
theorem sortStable_eq_mergeSort {α : Type} (le : α → α → Bool)
    (trans : ∀ a b c, le a b → le b c → le a c) (total : ∀ a b, le a b || le b a)
    (l : List α) : sortStable (ordOf le) l = l.mergeSort le := by
  induction l with
  | nil => simp [sortStable]
  | cons a l ih =>
    obtain ⟨l₁, l₂, h₁, h₂, h₃⟩ := List.mergeSort_cons trans total a l
    have hs := List.pairwise_mergeSort trans total (a :: l)
    rw [h₁] at hs
    simp only [sortStable, ih, h₂, h₁]
    apply insertStable_append
    · intro b hb
      have := h₃ b hb
      simp only [Bool.not_eq_true'] at this
      simp [ordOf, this]
    · intro b hb
      have hp := (List.pairwise_append.mp hs).2.1
      have := List.rel_of_pairwise_cons hp hb
      simp [ordOf, this]

/-- The head of the sorted list is the first element that is `≤` every element. -/
theorem head_insertStable {α : Type} (cmp : α → α → Ordering) (x : α) (ys : List α) :
    (insertStable cmp x ys).head? =
      match ys.head? with
      | none => some x
      | some y => if cmp x y = .gt then some y else some x := by
  cases ys with
  | nil => rfl
  | cons y ys =>
    simp only [insertStable, List.head?_cons]
    split <;> rfl

theorem find?_congr' {α : Type} (p q : α → Bool) (l : List α) (h : ∀ x ∈ l, p x = q x) :
    l.find? p = l.find? q := by
  induction l with
  | nil => rfl
  | cons x xs ih =>
    simp only [List.find?_cons, h x (by simp), ih (fun y hy => h y (by simp [hy]))]

theorem head_sortStable {α : Type} (le : α → α → Bool)
    (trans : ∀ a b c, le a b → le b c → le a c) (total : ∀ a b, le a b || le b a)
    (l : List α) :
    (sortStable (ordOf le) l).head? = l.find? (fun r => l.all (fun r' => le r r')) := by
  induction l with
  | nil => rfl
  | cons x xs ih =>
    have refl : ∀ a, le a a = true := fun a => by simpa using total a a
    simp only [sortStable, head_insertStable]
    cases hs : (sortStable (ordOf le) xs).head? with
    | none =>
      have : sortStable (ordOf le) xs = [] := by simpa using hs
      have hx : xs = [] := by
        have := (sortStable_perm (ordOf le) xs).length_eq
        simpa [‹sortStable (ordOf le) xs = []›] using this.symm
      subst hx
      simp [refl]
    | some y =>
      rw [hs] at ih
      have hy := List.find?_some ih.symm
      have hmem : y ∈ xs := List.mem_of_find?_eq_some ih.symm
      simp only [List.all_eq_true] at hy
      by_cases hxy : le x y = true
      · have : ordOf le x y ≠ .gt := by simp [ordOf, hxy]
        simp only [this, if_false]
        rw [List.find?_cons_of_pos]
        simp only [List.all_cons, refl, Bool.true_and, List.all_eq_true]
        intro r' hr'
        exact trans x y r' hxy (hy r' hr')
      · have hgt : ordOf le x y = .gt := by simp [ordOf, hxy]
        simp only [hgt, if_true]
        have hyx : le y x = true := by
          have := total x y
          simp only [Bool.or_eq_true] at this
          rcases this with h | h
          · exact absurd h hxy
          · exact h
        rw [List.find?_cons_of_neg]
        · rw [ih]
          apply find?_congr'
          intro r hr
          simp only [List.all_cons]
          by_cases hP : (xs.all fun r' => le r r') = true
          · have : le r x = true := trans r y x (by simp only [List.all_eq_true] at hP; exact hP y hmem) hyx
            simp [this, hP]
          · simp [hP]
        · simp only [List.all_cons, Bool.and_eq_true, List.all_eq_true, not_and]
          intro _ hall
          exact hxy (hall y hmem)

/-! ## Results of rules -/

theorem buildCtx_eq (ns : List (List Char)) (vs : List DTValue) (acc : List (List Char × DTValue)) :
    buildCtx ns vs acc = (ns.zip vs).foldl (fun acc p => ctxInsert p.1 p.2 acc) acc := by
  induction ns generalizing vs acc with
  | nil => simp [buildCtx]
  | cons n ns ih =>
    cases vs with
    | nil => simp [buildCtx]
    | cons v vs => simp [buildCtx, ih]

theorem getResult_evalRule (t : Table) (r : Rule) (h : r.outputs ≠ []) :
    getResult (evalTable t) (evalRule r) = .ok (Spec.result t r) := by
  obtain ⟨ins, outs⟩ := r
  unfold getResult Spec.result
  simp only [evalRule, evalTable]
  simp only at h
  cases outs with
  | nil => exact absurd rfl h
  | cons v vs =>
    cases vs with
    | nil => simp
    | cons w ws =>
      simp only [List.length_cons, gt_iff_lt, Nat.lt_add_left_iff_pos, Nat.zero_lt_succ, if_true, ne_eq]
      by_cases hl : ws.length + 1 + 1 = t.componentNames.length
      · simp [hl, buildCtx_eq, Spec.ctxOfPairs]
      · simp [hl]

theorem getResults_map_evalRule (t : Table) (rs : List Rule) (h : ∀ r ∈ rs, r.outputs ≠ []) :
    getResults (evalTable t) (rs.map evalRule) = .ok (rs.map (Spec.result t)) := by
  induction rs with
  | nil => rfl
  | cons r rs ih =>
    simp only [List.map_cons, getResults, getResult_evalRule t r (h r (by simp)),
      ih (fun r' hr' => h r' (by simp [hr']))]

theorem anyLoop_map_evalRule (t : Table) (first : DTValue) (rs : List Rule)
    (h : ∀ r ∈ rs, r.outputs ≠ []) :
    anyLoop (evalTable t) first (rs.map evalRule) =
      .ok (if rs.all (fun r => Spec.result t r = first) then first else .null) := by
  induction rs with
  | nil => simp [anyLoop]
  | cons r rs ih =>
    simp only [List.map_cons, anyLoop, getResult_evalRule t r (h r (by simp)), List.all_cons]
    by_cases hv : Spec.result t r = first
    · simp [hv, ih (fun r' hr' => h r' (by simp [hr']))]
    · simp [hv]

theorem firstOutputs_map_evalRule (site : String) (rs : List Rule) (h : ∀ r ∈ rs, r.outputs ≠ []) :
    firstOutputs site (rs.map evalRule) = .ok (rs.map (fun r => r.outputs.headD .null)) := by
  induction rs with
  | nil => rfl
  | cons r rs ih =>
    have hr := h r (by simp)
    have := ih (fun r' hr' => h r' (by simp [hr']))
    obtain ⟨ins, outs⟩ := r
    simp only at hr
    cases outs with
    | nil => exact absurd rfl hr
    | cons v vs =>
      simp only [List.map_cons, firstOutputs, evalRule, this, List.headD_cons]

/-! ## Aggregates -/

theorem sumLoop_eq (acc : DNum) (vs : List DTValue) :
    sumLoop acc vs = match Spec.allNums vs with
      | some ns => .num (ns.foldl DNum.addR acc)
      | none => .null := by
  induction vs generalizing acc with
  | nil => simp [sumLoop, Spec.allNums]
  | cons v vs ih =>
    cases v <;> simp only [sumLoop, Spec.allNums]
    rw [ih]
    cases Spec.allNums vs <;> simp

theorem bifSum_eq (vs : List DTValue) : bifSum vs = Spec.sum vs := by
  cases vs with
  | nil => simp [bifSum, Spec.sum, Spec.allNums]
  | cons v vs =>
    cases v <;> simp only [bifSum, Spec.sum, Spec.allNums]
    rw [sumLoop_eq]
    cases Spec.allNums vs <;> simp

theorem minNumLoop_eq (m : DNum) (vs : List DTValue) :
    minNumLoop m vs = match Spec.allNums vs with
      | some ns => .num (Spec.minNum m ns)
      | none => .null := by
  induction vs generalizing m with
  | nil => simp [minNumLoop, Spec.allNums, Spec.minNum]
  | cons v vs ih =>
    cases v <;> simp only [minNumLoop, Spec.allNums]
    rw [ih]
    cases Spec.allNums vs <;> simp [Spec.minNum]

theorem minStrLoop_eq (m : List Char) (vs : List DTValue) :
    minStrLoop m vs = match Spec.allStrs vs with
      | some ss => .str (Spec.minStr m ss)
      | none => .null := by
  induction vs generalizing m with
  | nil => simp [minStrLoop, Spec.allStrs, Spec.minStr]
  | cons v vs ih =>
    cases v <;> simp only [minStrLoop, Spec.allStrs]
    rw [ih]
    cases Spec.allStrs vs <;> simp [Spec.minStr]

theorem bifMin_eq (vs : List DTValue) : bifMin vs = Spec.min vs := by
  cases vs with
  | nil => simp [bifMin, Spec.min, Spec.allNums, Spec.allStrs]
  | cons v vs =>
    cases v <;> simp only [bifMin, Spec.min, Spec.allNums, Spec.allStrs]
    · rw [minNumLoop_eq]
      cases Spec.allNums vs <;> simp
    · rw [minStrLoop_eq]
      cases Spec.allStrs vs <;> simp

theorem maxNumLoop_eq (m : DNum) (vs : List DTValue) :
    maxNumLoop m vs = match Spec.allNums vs with
      | some ns => .num (Spec.maxNum m ns)
      | none => .null := by
  induction vs generalizing m with
  | nil => simp [maxNumLoop, Spec.allNums, Spec.maxNum]
  | cons v vs ih =>
    cases v <;> simp only [maxNumLoop, Spec.allNums]
    rw [ih]
    cases Spec.allNums vs <;> simp [Spec.maxNum]

theorem maxStrLoop_eq (m : List Char) (vs : List DTValue) :
    maxStrLoop m vs = match Spec.allStrs vs with
      | some ss => .str (Spec.maxStr m ss)
      | none => .null := by
  induction vs generalizing m with
  | nil => simp [maxStrLoop, Spec.allStrs, Spec.maxStr]
  | cons v vs ih =>
    cases v <;> simp only [maxStrLoop, Spec.allStrs]
    rw [ih]
    cases Spec.allStrs vs <;> simp [Spec.maxStr]

theorem bifMax_eq (vs : List DTValue) : bifMax vs = Spec.max vs := by
  cases vs with
  | nil => simp [bifMax, Spec.max, Spec.allNums, Spec.allStrs]
  | cons v vs =>
    cases v <;> simp only [bifMax, Spec.max, Spec.allNums, Spec.allStrs]
    · rw [maxNumLoop_eq]
      cases Spec.allNums vs <;> simp
    · rw [maxStrLoop_eq]
      cases Spec.allStrs vs <;> simp

/-- `minNum` is the minimum: a member, and a lower bound. -/
theorem minNum_spec (n : DNum) (ns : List DNum) :
    Spec.minNum n ns ∈ n :: ns ∧ ∀ x ∈ n :: ns, Spec.minNum n ns ≤ x := by
  induction ns generalizing n with
  | nil => simpa [Spec.minNum] using DNum.le_refl' n
  | cons v vs ih =>
    simp only [Spec.minNum, List.foldl_cons]
    have hm0 : (if v < n then v else n) ≤ v ∧ (if v < n then v else n) ≤ n ∧
        ((if v < n then v else n) = v ∨ (if v < n then v else n) = n) := by
      split
      · rename_i h; exact ⟨DNum.le_refl' _, DNum.le_of_lt' h, Or.inl rfl⟩
      · rename_i h; exact ⟨DNum.not_lt'.mp h, DNum.le_refl' _, Or.inr rfl⟩
    generalize (if v < n then v else n) = m0 at hm0
    have := ih m0
    simp only [Spec.minNum] at this
    obtain ⟨hm, hb⟩ := this
    constructor
    · simp only [List.mem_cons] at hm ⊢
      rcases hm with hm | hm
      · rw [hm]; rcases hm0.2.2 with h | h <;> simp [h]
      · right; right; exact hm
    · intro x hx
      simp only [List.mem_cons] at hx
      have h0 := hb m0 (by simp)
      rcases hx with hx | hx | hx
      · subst hx; exact DNum.le_trans' h0 hm0.2.1
      · subst hx; exact DNum.le_trans' h0 hm0.1
      · exact hb x (by simp [hx])

theorem maxNum_spec (n : DNum) (ns : List DNum) :
    Spec.maxNum n ns ∈ n :: ns ∧ ∀ x ∈ n :: ns, x ≤ Spec.maxNum n ns := by
  induction ns generalizing n with
  | nil => simpa [Spec.maxNum] using DNum.le_refl' n
  | cons v vs ih =>
    simp only [Spec.maxNum, List.foldl_cons]
    have hm0 : v ≤ (if v > n then v else n) ∧ n ≤ (if v > n then v else n) ∧
        ((if v > n then v else n) = v ∨ (if v > n then v else n) = n) := by
      split
      · rename_i h; exact ⟨DNum.le_refl' _, DNum.le_of_lt' h, Or.inl rfl⟩
      · rename_i h; exact ⟨DNum.not_lt'.mp h, DNum.le_refl' _, Or.inr rfl⟩
    generalize (if v > n then v else n) = m0 at hm0
    have := ih m0
    simp only [Spec.maxNum] at this
    obtain ⟨hm, hb⟩ := this
    constructor
    · simp only [List.mem_cons] at hm ⊢
      rcases hm with hm | hm
      · rw [hm]; rcases hm0.2.2 with h | h <;> simp [h]
      · right; right; exact hm
    · intro x hx
      simp only [List.mem_cons] at hx
      have h0 := hb m0 (by simp)
      rcases hx with hx | hx | hx
      · subst hx; exact DNum.le_trans' hm0.2.1 h0
      · subst hx; exact DNum.le_trans' hm0.1 h0
      · exact hb x (by simp [hx])

/-! ## C< / C> over strings; the aggregators and the order of the rules -/

/-- "not greater": the order of strings `minStr` / `maxStr` compare with. -/
theorem strLe_trans {a b c : List Char} (h1 : strLt b a = false) (h2 : strLt c b = false) : strLt c a = false := by
  cases h : strLt c a with
  | false => rfl
  | true =>
    exfalso
    by_cases hab : a = b
    · subst hab; rw [h] at h2; cases h2
    · have hab' : strLt a b = true := strLt_trichotomy b a h1 (fun e => hab e.symm)
      have := strLt_trans c a b h hab'
      rw [this] at h2; cases h2

/-- `minStr` is the minimum: a member, and no member is less. -/
theorem minStr_spec (s : List Char) (ss : List (List Char)) :
    Spec.minStr s ss ∈ s :: ss ∧ ∀ x ∈ s :: ss, strLt x (Spec.minStr s ss) = false := by
  induction ss generalizing s with
  | nil => simpa [Spec.minStr] using strLt_irrefl s
  | cons v vs ih =>
    simp only [Spec.minStr, List.foldl_cons]
    have hm0 : strLt v (if strLt v s then v else s) = false ∧ strLt s (if strLt v s then v else s) = false ∧
        ((if strLt v s then v else s) = v ∨ (if strLt v s then v else s) = s) := by
      split
      · rename_i h; exact ⟨strLt_irrefl _, strLt_asymm _ _ h, Or.inl rfl⟩
      · rename_i h; exact ⟨by simpa using h, strLt_irrefl _, Or.inr rfl⟩
    generalize (if strLt v s then v else s) = m0 at hm0
    have := ih m0
    simp only [Spec.minStr] at this
    obtain ⟨hm, hb⟩ := this
    constructor
    · simp only [List.mem_cons] at hm ⊢
      rcases hm with hm | hm
      · rw [hm]; rcases hm0.2.2 with h | h <;> simp [h]
      · right; right; exact hm
    · intro x hx
      simp only [List.mem_cons] at hx
      have h0 := hb m0 (by simp)
      rcases hx with hx | hx | hx
      · subst hx; exact strLe_trans h0 hm0.2.1
      · subst hx; exact strLe_trans h0 hm0.1
      · exact hb x (by simp [hx])

/-- `maxStr` is the maximum: a member, and no member is greater. -/
theorem maxStr_spec (s : List Char) (ss : List (List Char)) :
    Spec.maxStr s ss ∈ s :: ss ∧ ∀ x ∈ s :: ss, strLt (Spec.maxStr s ss) x = false := by
  induction ss generalizing s with
  | nil => simpa [Spec.maxStr] using strLt_irrefl s
  | cons v vs ih =>
    simp only [Spec.maxStr, List.foldl_cons]
    have hm0 : strLt (if strLt s v then v else s) v = false ∧ strLt (if strLt s v then v else s) s = false ∧
        ((if strLt s v then v else s) = v ∨ (if strLt s v then v else s) = s) := by
      split
      · rename_i h; exact ⟨strLt_irrefl _, strLt_asymm _ _ h, Or.inl rfl⟩
      · rename_i h; exact ⟨by simpa using h, strLt_irrefl _, Or.inr rfl⟩
    generalize (if strLt s v then v else s) = m0 at hm0
    have := ih m0
    simp only [Spec.maxStr] at this
    obtain ⟨hm, hb⟩ := this
    constructor
    · simp only [List.mem_cons] at hm ⊢
      rcases hm with hm | hm
      · rw [hm]; rcases hm0.2.2 with h | h <;> simp [h]
      · right; right; exact hm
    · intro x hx
      simp only [List.mem_cons] at hx
      have h0 := hb m0 (by simp)
      rcases hx with hx | hx | hx
      · subst hx; exact strLe_trans hm0.2.1 h0
      · subst hx; exact strLe_trans hm0.1 h0
      · exact hb x (by simp [hx])

def isNum : DTValue → Bool
  | .num _ => true
  | _ => false

def isStr : DTValue → Bool
  | .str _ => true
  | _ => false

def numsOf (vs : List DTValue) : List DNum :=
  vs.filterMap (fun v => match v with | .num n => some n | _ => none)

def strsOf (vs : List DTValue) : List (List Char) :=
  vs.filterMap (fun v => match v with | .str s => some s | _ => none)

theorem allNums_closed (vs : List DTValue) :
    Spec.allNums vs = if vs.all isNum then some (numsOf vs) else none := by
  induction vs with
  | nil => rfl
  | cons v vs ih =>
    cases v <;> simp only [Spec.allNums, List.all_cons, isNum, Bool.false_and, Bool.true_and, Bool.false_eq_true, if_false]
    rw [ih]
    split <;> simp [numsOf, List.filterMap_cons]

theorem allStrs_closed (vs : List DTValue) :
    Spec.allStrs vs = if vs.all isStr then some (strsOf vs) else none := by
  induction vs with
  | nil => rfl
  | cons v vs ih =>
    cases v <;> simp only [Spec.allStrs, List.all_cons, isStr, Bool.false_and, Bool.true_and, Bool.false_eq_true, if_false]
    rw [ih]
    split <;> simp [strsOf, List.filterMap_cons]

/-- The minimum of a non-empty list of numbers does not depend on the order of the list. -/
theorem minNum_perm {n m : DNum} {ns ms : List DNum} (h : (n :: ns).Perm (m :: ms)) :
    Spec.minNum n ns = Spec.minNum m ms := by
  obtain ⟨h1, h2⟩ := minNum_spec n ns
  obtain ⟨h3, h4⟩ := minNum_spec m ms
  exact DNum.le_antisymm' (h2 _ (h.mem_iff.mpr h3)) (h4 _ (h.mem_iff.mp h1))

theorem maxNum_perm {n m : DNum} {ns ms : List DNum} (h : (n :: ns).Perm (m :: ms)) :
    Spec.maxNum n ns = Spec.maxNum m ms := by
  obtain ⟨h1, h2⟩ := maxNum_spec n ns
  obtain ⟨h3, h4⟩ := maxNum_spec m ms
  exact DNum.le_antisymm' (h4 _ (h.mem_iff.mp h1)) (h2 _ (h.mem_iff.mpr h3))

theorem minStr_perm {s r : List Char} {ss rs : List (List Char)} (h : (s :: ss).Perm (r :: rs)) :
    Spec.minStr s ss = Spec.minStr r rs := by
  obtain ⟨h1, h2⟩ := minStr_spec s ss
  obtain ⟨h3, h4⟩ := minStr_spec r rs
  have a := h2 _ (h.mem_iff.mpr h3)
  have b := h4 _ (h.mem_iff.mp h1)
  by_cases he : Spec.minStr s ss = Spec.minStr r rs
  · exact he
  · have := strLt_trichotomy _ _ b he
    rw [this] at a; cases a

theorem maxStr_perm {s r : List Char} {ss rs : List (List Char)} (h : (s :: ss).Perm (r :: rs)) :
    Spec.maxStr s ss = Spec.maxStr r rs := by
  obtain ⟨h1, h2⟩ := maxStr_spec s ss
  obtain ⟨h3, h4⟩ := maxStr_spec r rs
  have a := h2 _ (h.mem_iff.mpr h3)
  have b := h4 _ (h.mem_iff.mp h1)
  by_cases he : Spec.maxStr s ss = Spec.maxStr r rs
  · exact he
  · have := strLt_trichotomy _ _ a he
    rw [this] at b; cases b

/-- `Spec.min` / `Spec.max` do not depend on the order of the values. -/
theorem specMin_perm {vs ws : List DTValue} (h : vs.Perm ws) : Spec.min vs = Spec.min ws ∧ Spec.max vs = Spec.max ws := by
  have hn : vs.all isNum = ws.all isNum := h.all_eq
  have hs : vs.all isStr = ws.all isStr := h.all_eq
  have pn : (numsOf vs).Perm (numsOf ws) := h.filterMap _
  have ps : (strsOf vs).Perm (strsOf ws) := h.filterMap _
  simp only [Spec.min, Spec.max, allNums_closed, allStrs_closed, ← hn, ← hs]
  have key : ∀ {α : Type} {a b : List α}, a.Perm b → (a = [] ∧ b = []) ∨ ∃ x xs y ys, a = x :: xs ∧ b = y :: ys := by
    intro α a b hp
    cases a with
    | nil => left; exact ⟨rfl, hp.nil_eq.symm ▸ rfl⟩
    | cons x xs =>
      cases b with
      | nil => exact absurd hp.eq_nil (by simp)
      | cons y ys => right; exact ⟨x, xs, y, ys, rfl, rfl⟩
  cases hA : vs.all isNum <;> cases hB : vs.all isStr <;>
    (try simp only [Bool.false_eq_true, if_false, if_true]) <;>
    rcases key pn with ⟨e1, e2⟩ | ⟨x, xs, y, ys, e1, e2⟩ <;>
    rcases key ps with ⟨f1, f2⟩ | ⟨s, ss, r, rs, f1, f2⟩ <;>
    (try rw [e1, e2] at pn) <;> (try rw [f1, f2] at ps) <;>
    (try simp only [e1, e2, f1, f2]) <;>
    (try rw [minNum_perm pn, maxNum_perm pn]) <;>
    (try rw [minStr_perm ps, maxStr_perm ps]) <;>
    first | exact ⟨rfl, rfl⟩ | exact ⟨trivial, trivial⟩ | trivial

/-! ## Well-formed tables -/

theorem wf_len {t : Table} (wf : t.WF = true) {r : Rule} (hr : r ∈ t.rules) :
    r.outputs.length = t.outputValues.length := by
  simp only [Table.WF, Bool.and_eq_true, List.all_eq_true, decide_eq_true_eq] at wf
  exact wf.2 r hr

theorem wf_pos {t : Table} (wf : t.WF = true) : t.outputValues.length ≥ 1 := by
  simp only [Table.WF, Bool.and_eq_true, List.all_eq_true, decide_eq_true_eq] at wf
  exact wf.1.1

theorem wf_ne {t : Table} (wf : t.WF = true) {r : Rule} (hr : r ∈ t.rules) : r.outputs ≠ [] := by
  have h1 := wf_len wf hr
  have h2 := wf_pos wf
  intro h
  rw [h] at h1
  simp at h1
  omega

theorem mem_matchingRules {t : Table} {r : Rule} (h : r ∈ Spec.matchingRules t) : r ∈ t.rules :=
  (List.mem_filter.mp h).1

/-- On the rules of a well-formed table the comparator closure is the order of the keys. -/
theorem cmp_agrees {t : Table} (wf : t.WF = true) (x y : Rule) (hx : x ∈ t.rules) (hy : y ∈ t.rules) :
    (compareOutputs (evalTable t).outputValues (evalRule x).outputs (evalRule y).outputs = .gt ↔
      ordOf (fun a b : ERule => Spec.lexLe (Spec.ranks (Spec.outputValues t) a.outputs)
        (Spec.ranks (Spec.outputValues t) b.outputs)) (evalRule x) (evalRule y) = .gt) := by
  rw [evalTable_outputValues]
  have hl : (evalRule x).outputs.length = (evalRule y).outputs.length := by
    simp [evalRule, wf_len wf hx, wf_len wf hy]
  rw [compareOutputs_gt_iff _ _ _ hl]
  simp only [ordOf]
  by_cases hb : Spec.lexLe (Spec.ranks (Spec.outputValues t) (evalRule x).outputs)
      (Spec.ranks (Spec.outputValues t) (evalRule y).outputs) = true
  · simp [hb]
  · simp [hb]

/-- The order on evaluated rules induced by the keys. -/
def leE (t : Table) (a b : ERule) : Bool :=
  Spec.lexLe (Spec.ranks (Spec.outputValues t) a.outputs) (Spec.ranks (Spec.outputValues t) b.outputs)

theorem leE_trans (t : Table) : ∀ a b c, leE t a b → leE t b c → leE t a c :=
  fun _ _ _ h1 h2 => lexLe_trans _ _ _ h1 h2

theorem leE_total (t : Table) : ∀ a b, leE t a b || leE t b a :=
  fun _ _ => lexLe_total _ _

theorem prioLe_trans (t : Table) : ∀ a b c, Spec.prioLe t a b → Spec.prioLe t b c → Spec.prioLe t a c :=
  fun _ _ _ h1 h2 => lexLe_trans _ _ _ h1 h2

theorem prioLe_total (t : Table) : ∀ a b, Spec.prioLe t a b || Spec.prioLe t b a :=
  fun _ _ => lexLe_total _ _

theorem leE_evalRule (t : Table) (a b : Rule) : leE t (evalRule a) (evalRule b) = Spec.prioLe t a b := rfl

/-- The prioritised list of the model is the stable merge sort of the matching rules by key. -/
theorem prioritized_eq {t : Table} (wf : t.WF = true) :
    prioritized (evalTable t) = ((Spec.matchingRules t).mergeSort (Spec.prioLe t)).map evalRule := by
  unfold prioritized
  rw [matching_evalTable]
  rw [sortStable_congr _ (ordOf (leE t))]
  · rw [sortStable_eq_mergeSort (leE t) (leE_trans t) (leE_total t)]
    rw [List.map_mergeSort]
    intro a _ b _
    rfl
  · intro x hx y hy
    obtain ⟨a, ha, rfl⟩ := List.mem_map.mp hx
    obtain ⟨b, hb, rfl⟩ := List.mem_map.mp hy
    exact cmp_agrees wf a b (mem_matchingRules ha) (mem_matchingRules hb)

/-- The head of the prioritised list: the first matching rule whose key is minimal. -/
theorem prioritized_head {t : Table} (wf : t.WF = true) :
    (prioritized (evalTable t)).head? =
      ((Spec.matchingRules t).find? (fun r => (Spec.matchingRules t).all (fun r' => Spec.prioLe t r r'))).map evalRule := by
  unfold prioritized
  rw [matching_evalTable]
  rw [sortStable_congr _ (ordOf (leE t))]
  · rw [head_sortStable (leE t) (leE_trans t) (leE_total t)]
    rw [List.find?_map]
    congr 1
    apply find?_congr'
    intro r _
    simp only [Function.comp, List.all_map]
    rfl
  · intro x hx y hy
    obtain ⟨a, ha, rfl⟩ := List.mem_map.mp hx
    obtain ⟨b, hb, rfl⟩ := List.mem_map.mp hy
    exact cmp_agrees wf a b (mem_matchingRules ha) (mem_matchingRules hb)

/-! ## Contexts -/

theorem ctxInsert_keys (k : List Char) (v : DTValue) (es : List (List Char × DTValue)) (k' : List Char) :
    k' ∈ (ctxInsert k v es).map Prod.fst ↔ k' = k ∨ k' ∈ es.map Prod.fst := by
  induction es with
  | nil => simp [ctxInsert]
  | cons e es ih =>
    obtain ⟨k0, v0⟩ := e
    simp only [ctxInsert]
    split
    · simp
    · split
      · rename_i h; subst h; simp
      · simp only [List.map_cons, List.mem_cons, ih]
        constructor
        · rintro (h | h | h)
          · right; left; exact h
          · left; exact h
          · right; right; exact h
        · rintro (h | h | h)
          · right; left; exact h
          · left; exact h
          · right; right; exact h

theorem foldl_ctxInsert_keys (ps acc : List (List Char × DTValue)) (k' : List Char) :
    k' ∈ (ps.foldl (fun acc p => ctxInsert p.1 p.2 acc) acc).map Prod.fst ↔
      k' ∈ ps.map Prod.fst ∨ k' ∈ acc.map Prod.fst := by
  induction ps generalizing acc with
  | nil => simp
  | cons p ps ih =>
    simp only [List.foldl_cons, ih, ctxInsert_keys, List.map_cons, List.mem_cons]
    constructor
    · rintro (h | h | h)
      · left; right; exact h
      · left; left; exact h
      · right; exact h
    · rintro ((h | h) | h)
      · right; left; exact h
      · left; exact h
      · right; right; exact h

theorem ctxOfPairs_keys (ps : List (List Char × DTValue)) (k' : List Char) :
    k' ∈ (Spec.ctxOfPairs ps).map Prod.fst ↔ k' ∈ ps.map Prod.fst := by
  simp [Spec.ctxOfPairs, foldl_ctxInsert_keys]

/-! ## Default output -/

theorem defaultLoop_eq (ns : List (List Char)) (ds : List (Option DTValue)) (acc : List (List Char × DTValue)) :
    defaultLoop ns ds acc =
      (ns.zip (ds.map (·.getD .null))).foldl (fun acc p => ctxInsert p.1 p.2 acc) acc := by
  induction ns generalizing ds acc with
  | nil => simp [defaultLoop]
  | cons n ns ih =>
    cases ds with
    | nil => simp [defaultLoop]
    | cons d ds => simp [defaultLoop, ih]

/-- The default output of the code is the specified default, for every table. -/
theorem defaultOutput_eq' (names : List (List Char)) (ov : List (List DTValue)) (rs : List ERule) :
    ∀ ds : List (Option DTValue), defaultOutput ⟨names, ov, ds, rs⟩ = Spec.defaultOf names ds := by
  intro ds
  simp only [defaultOutput, Spec.defaultOf]
  have hall : (ds.all fun d => decide (d = none)) = ds.all (·.isNone) := by
    congr 1; funext d; cases d <;> simp
  match ds with
  | [] => simp
  | [d] => cases d <;> simp
  | d :: d' :: rest =>
    simp only [hall]
    by_cases hn : ((d :: d' :: rest).all (·.isNone)) = true
    · simp [hn]
    · simp only [hn, if_false, List.length_cons, gt_iff_lt, Nat.lt_add_left_iff_pos, Nat.zero_lt_succ,
        if_true, ne_eq]
      by_cases hl : rest.length + 1 + 1 = names.length
      · simp [hl, defaultLoop_eq, Spec.ctxOfPairs]
      · simp [hl]

theorem defaultOutput_eq (t : Table) : defaultOutput (evalTable t) = Spec.default t :=
  defaultOutput_eq' _ _ _ _

open Spec in
theorem ms_outputs_ne {t : Table} (wf : t.WF = true) :
    ∀ r ∈ matchingRules t, r.outputs ≠ [] :=
  fun _ hr => wf_ne wf (mem_matchingRules hr)


open Spec

/-- The first output entry of every matching rule, in rule order. -/
def firsts (t : Table) : List DTValue := (matchingRules t).map (fun r => r.outputs.headD .null)

theorem agg_spec (site : String) (agg : List DTValue → DTValue) (t : Table) (wf : t.WF = true)
    (hne : matchingRules t ≠ []) :
    hitCollectAgg site agg (evalTable t) =
      .ok (if t.componentNames.length > 1 then .null else agg (firsts t)) := by
  simp only [hitCollectAgg, matching_evalTable, firsts]
  have hn : (evalTable t).componentNames = t.componentNames := rfl
  rw [hn]
  by_cases hc : t.componentNames.length > 1
  · simp [hc]
  · simp only [hc, if_false]
    cases hm : matchingRules t with
    | nil => exact absurd hm hne
    | cons r rs =>
      have := firstOutputs_map_evalRule site (r :: rs) (by rw [← hm]; exact ms_outputs_ne wf)
      simp only [List.map_cons] at this
      simp only [List.map_cons, this]


end Dmn.DT
