import Dmn.Model.Eval
import Dmn.Lemmas.EvalM

/-!
# A relational induction principle over the evaluator

`EvalInd.lean` proves unary predicates of the closure built for every syntax tree.  Facts that
compare *two* evaluations of the same tree — with more fuel (`eval_fuel_mono`), or in another
scope with the same bindings (`eval_depends_on_bindings`) — have the same shape, one level up:
a relation between computations that holds between every primitive effect and itself, is a
congruence for sequencing, and survives the `push … pop` brackets.  `EvalRel` packages such a
relation (`R`), its companion for the computation inside a context literal, which writes into
the context pushed for it (`Q`), and what it needs of the one place where the evaluator looks at
the whole scope stack (`searchDeep`, the qualified name).  `r_evalStep` proves `R` between the
closures built for *every* syntax tree in two environments that differ in how function bodies
are evaluated (`env.call`), provided the two body evaluators are related.
-/

namespace Dmn.Eval
open EvalM

/-- The environment with another evaluator for function bodies. -/
abbrev _root_.Dmn.Env.withCall (env : Env) (call' : Ast → EvalM Value) : Env := { env with call := call' }

structure EvalRel where
  R : {α : Type} → EvalM α → EvalM α → Prop
  Q : {α : Type} → EvalM α → EvalM α → Prop
  pure : ∀ {α : Type} (a : α), R (Pure.pure a : EvalM α) (Pure.pure a)
  bind : ∀ {α β : Type} {m m' : EvalM α} {f f' : α → EvalM β},
    R m m' → (∀ a, R (f a) (f' a)) → R (m >>= f) (m' >>= f')
  lift : ∀ {α : Type} (o : Outcome α), R (EvalM.lift o) (EvalM.lift o)
  getEntry : ∀ k, R (EvalM.getEntry k) (EvalM.getEntry k)
  /-- `Scope::search_deep` (the only use of `getScope` in the evaluator) -/
  searchDeep : ∀ (names : List String),
    R (do let s ← EvalM.getScope; Pure.pure ((scopeSearchDeep s names).getD Value.null))
      (do let s ← EvalM.getScope; Pure.pure ((scopeSearchDeep s names).getD Value.null))
  qOfR : ∀ {α : Type} {m m' : EvalM α}, R m m' → Q m m'
  qPure : ∀ {α : Type} (a : α), Q (Pure.pure a : EvalM α) (Pure.pure a)
  qBind : ∀ {α β : Type} {m m' : EvalM α} {f f' : α → EvalM β},
    Q m m' → (∀ a, Q (f a) (f' a)) → Q (m >>= f) (m' >>= f')
  qSetEntry : ∀ k v, Q (EvalM.setEntry k v) (EvalM.setEntry k v)
  pushPop : ∀ {α β : Type} {m m' : EvalM α} (c : Ctx) (g : α → β), Q m m' →
    R (do EvalM.push c; let r ← m; EvalM.pop; Pure.pure (g r))
      (do EvalM.push c; let r ← m'; EvalM.pop; Pure.pure (g r))

variable (E : EvalRel)

theorem r_bracket {α : Type} (c : Ctx) {m m' : EvalM α} (hm : E.R m m') :
    E.R (bracket c m) (bracket c m') :=
  E.pushPop c id (E.qOfR hm)

theorem r_filterItem {pred pred' : EvalM Value} (hp : E.R pred pred') (v : Value) :
    E.R (filterItem pred v) (filterItem pred' v) := by
  have ht : E.R (do let r ← pred; Pure.pure (Value.isTrue r) : EvalM Bool)
      (do let r ← pred'; Pure.pure (Value.isTrue r) : EvalM Bool) :=
    E.bind hp (fun _ => E.pure _)
  unfold filterItem
  split
  · split
    · exact r_bracket E _ ht
    · exact r_bracket E _ (r_bracket E _ ht)
  · exact r_bracket E _ ht

theorem r_itemScoped {pred pred' : EvalM Value} (hp : E.R pred pred') (v : Value) :
    E.R (itemScoped pred v) (itemScoped pred' v) := by
  unfold itemScoped
  split
  · split
    · exact r_bracket E _ hp
    · exact r_bracket E _ (r_bracket E _ hp)
  · exact r_bracket E _ hp

theorem r_filterLoop {pred pred' : EvalM Value} (hp : E.R pred pred') (vs : List Value) :
    E.R (filterLoop pred vs) (filterLoop pred' vs) := by
  induction vs with
  | nil => exact E.pure _
  | cons v vs ih =>
    unfold filterLoop
    exact E.bind (r_filterItem E hp v) (fun _ => E.bind ih (fun _ => E.pure _))

theorem r_forLoop {body body' : EvalM Value} (hb : E.R body body') (cs : List Ctx) (results : List Value) :
    E.R (forLoop body cs results) (forLoop body' cs results) := by
  induction cs generalizing results with
  | nil => exact E.pure _
  | cons c cs ih =>
    unfold forLoop
    exact E.bind (r_bracket E _ hb) (fun _ => ih _)

theorem r_quantLoop {sat sat' : EvalM Value} (hs : E.R sat sat') (isSome : Bool) (cs : List Ctx) (acc : Bool × Bool) :
    E.R (quantLoop isSome sat cs acc) (quantLoop isSome sat' cs acc) := by
  induction cs generalizing acc with
  | nil => exact E.pure _
  | cons c cs ih =>
    unfold quantLoop
    exact E.bind (r_bracket E _ hs) (fun _ => ih _)

theorem r_callFunction (env : Env) (call' : Ast → EvalM Value) (hc : ∀ b, E.R (env.call b) (call' b))
    (args : Ctx) (body : Ast) (rt : FType) :
    E.R (callFunction env args body rt) (callFunction (env.withCall call') args body rt) := by
  unfold callFunction
  exact E.bind (r_bracket E _ (hc body)) (fun _ => E.pure _)

theorem r_invokePositional (env : Env) (call' : Ast → EvalM Value) (hc : ∀ b, E.R (env.call b) (call' b))
    (f : Value) (args : List Value) :
    E.R (invokePositional env f args) (invokePositional (env.withCall call') f args) := by
  unfold invokePositional
  split
  · exact E.lift _
  · split
    · exact E.pure _
    · split
      · exact r_callFunction E env call' hc _ _ _
      · exact E.pure _
  · exact E.pure _

theorem r_invokeNamed (env : Env) (call' : Ast → EvalM Value) (hc : ∀ b, E.R (env.call b) (call' b))
    (f : Value) (args : Value) :
    E.R (invokeNamed env f args) (invokeNamed (env.withCall call') f args) := by
  unfold invokeNamed
  split
  · split
    · exact E.lift _
    · exact E.pure _
  · split
    · split
      · exact E.pure _
      · split
        · exact r_callFunction E env call' hc _ _ _
        · exact E.pure _
    · exact r_callFunction E env call' hc _ _ _
  · exact E.pure _

/-- One proof step for a node: peel binds, close leaves, split matches. -/
local macro "r_step" : tactic =>
  `(tactic| first
    | exact EvalRel.pure _ _
    | exact EvalRel.getEntry _ _
    | assumption
    | apply EvalRel.bind
    | split
    | intro _)

mutual
/-- The closures built for any syntax tree in two environments whose function-body evaluators
are related are related. -/
theorem r_evalStep (E : EvalRel) (env : Env) (call' : Ast → EvalM Value)
    (hc : ∀ b, E.R (env.call b) (call' b)) : (a : Ast) → E.R (evalStep env a) (evalStep (env.withCall call') a)
  | .add a b | .and a b | .contextEntry a b | .contextTypeEntry a b | .div a b | .eq a b | .exp a b
  | .formalParameter a b | .functionDefinition a b | .functionType a b | .ge a b | .gt a b | .in a b
  | .instanceOf a b | .le a b | .lt a b | .mul a b | .nq a b | .or a b | .range a b | .sub a b => by
    have ha := r_evalStep E env call' hc a
    have hb := r_evalStep E env call' hc b
    simp only [evalStep]
    repeat r_step
  | .out a b => by
    have ha := r_evalStep E env call' hc a
    have hb := r_evalStep E env call' hc b
    simp only [evalStep]
    repeat r_step
  | .between a b c => by
    have ha := r_evalStep E env call' hc a
    have hb := r_evalStep E env call' hc b
    have hd := r_evalStep E env call' hc c
    simp only [evalStep]
    repeat r_step
  | .if a b c => by
    have ha := r_evalStep E env call' hc a
    have hb := r_evalStep E env call' hc b
    have hd := r_evalStep E env call' hc c
    simp only [evalStep]
    repeat r_step
  | .evaluatedExpression a => by simp only [evalStep]; exact r_evalStep E env call' hc a
  | .intervalEnd a _ | .intervalStart a _ | .listType a | .neg a | .rangeType a | .unaryGe a
  | .unaryGt a | .unaryLe a | .unaryLt a => by
    have ha := r_evalStep E env call' hc a
    simp only [evalStep]
    repeat r_step
  | .contextType xs | .expressionList xs | .formalParameters xs | .list xs | .namedParameters xs
  | .negatedList xs | .parameterTypes xs => by
    have hx := r_evalList E env call' hc xs
    simp only [evalStep]
    repeat r_step
  | .qualifiedName xs => by
    have hx := r_evalList E env call' hc xs
    simp only [evalStep]
    exact E.bind hx (fun _ => E.searchDeep _)
  | .context es => by
    simp only [evalStep]
    exact E.pushPop [] ctxResult (rq_evalContextEntries E env call' hc es [])
  | .filter a b => by
    have ha := r_evalStep E env call' hc a
    have hb := r_evalStep E env call' hc b
    have hf := fun vs => r_filterLoop E hb vs
    simp only [evalStep]
    apply E.bind ha
    intro l
    split
    · apply E.bind (hf _)
      intro _
      apply E.bind hb
      intro r
      split <;> exact E.pure _
    · split
      · exact E.bind (r_itemScoped E hb _) (fun _ => E.pure _)
      · exact E.pure _
  | .for (.iterationContexts items) body => by
    have hb := r_evalStep E env call' hc body
    simp only [evalStep]
    apply E.bind (r_evalIteration E env call' hc items 0)
    intro st
    split
    · exact E.pure _
    · exact E.pure _
    · exact E.bind (E.lift _) (fun _ => E.bind (r_forLoop E hb _ _) (fun _ => E.pure _))
  | .every (.quantifiedContexts items) (.satisfies body) => by
    have hb := r_evalStep E env call' hc body
    simp only [evalStep]
    apply E.bind (r_evalQuantified E env call' hc items 0)
    intro st
    split
    · exact E.pure _
    · exact E.pure _
    · exact E.bind (E.lift _) (fun _ => E.bind (r_quantLoop E hb _ _ _) (fun _ => E.pure _))
  | .some (.quantifiedContexts items) (.satisfies body) => by
    have hb := r_evalStep E env call' hc body
    simp only [evalStep]
    apply E.bind (r_evalQuantified E env call' hc items 0)
    intro st
    split
    · exact E.pure _
    · exact E.pure _
    · exact E.bind (E.lift _) (fun _ => E.bind (r_quantLoop E hb _ _ _) (fun _ => E.pure _))
  | .functionInvocation f (.positionalParameters xs) => by
    have hf := r_evalStep E env call' hc f
    simp only [evalStep]
    exact E.bind hf (fun _ => E.bind (r_evalList E env call' hc xs) (fun _ => r_invokePositional E env call' hc _ _))
  | .functionInvocation f (.namedParameters xs) => by
    have hf := r_evalStep E env call' hc f
    simp only [evalStep]
    exact E.bind hf (fun _ => E.bind (r_evalList E env call' hc xs) (fun _ => r_invokeNamed E env call' hc _ _))
  | .namedParameter (.parameterName name) v => by
    have hv := r_evalStep E env call' hc v
    simp only [evalStep]
    exact E.bind hv (fun _ => E.pure _)
  | .path a (.name n) => by
    have ha := r_evalStep E env call' hc a
    simp only [evalStep]
    exact E.bind ha (fun _ => E.pure _)
  | .functionBody body external => by
    simp only [evalStep]
    split <;> exact E.pure _
  | .name n => by
    simp only [evalStep]
    exact E.bind (E.getEntry _) (fun _ => E.pure _)
  | .at _ | .boolean _ | .contextEntryKey _ | .contextTypeEntryKey _ | .feelType _ | .irrelevant
  | .null | .numeric .. | .parameterName _ | .qualifiedNameSegment _ | .string _ => by
    simp only [evalStep]; exact E.pure _
  | .commaList _ | .iterationContexts _ | .iterationContextSingle .. | .iterationContextRange ..
  | .positionalParameters _ | .quantifiedContext .. | .quantifiedContexts _ | .satisfies _ => by
    simp only [evalStep]; exact E.pure _
  | .for ctxs body => by
    have hb := r_evalStep E env call' hc body
    unfold evalStep
    split
    · rename_i items _
      apply E.bind (r_evalIteration E env call' hc _ 0)
      intro st
      split
      · exact E.pure _
      · exact E.pure _
      · exact E.bind (E.lift _) (fun _ => E.bind (r_forLoop E hb _ _) (fun _ => E.pure _))
    · exact E.bind (E.lift _) (fun _ => E.bind (r_forLoop E hb _ _) (fun _ => E.pure _))
  | .every ctxs sat => by
    unfold evalStep
    split
    · rename_i items body
      exact E.bind (r_evalQuantified E env call' hc items 0) (fun st => by
        split
        · exact E.pure _
        · exact E.pure _
        · exact E.bind (E.lift _) (fun _ => E.bind (r_quantLoop E (r_evalStep E env call' hc body) _ _ _) (fun _ => E.pure _)))
    · exact E.pure _
  | .some ctxs sat => by
    unfold evalStep
    split
    · rename_i items body
      exact E.bind (r_evalQuantified E env call' hc items 0) (fun st => by
        split
        · exact E.pure _
        · exact E.pure _
        · exact E.bind (E.lift _) (fun _ => E.bind (r_quantLoop E (r_evalStep E env call' hc body) _ _ _) (fun _ => E.pure _)))
    · exact E.pure _
  | .functionInvocation f args => by
    unfold evalStep
    split
    · rename_i xs
      exact E.bind (r_evalStep E env call' hc f) (fun _ => E.bind (r_evalList E env call' hc xs) (fun _ => r_invokePositional E env call' hc _ _))
    · rename_i xs
      exact E.bind (r_evalStep E env call' hc f) (fun _ => E.bind (r_evalList E env call' hc xs) (fun _ => r_invokeNamed E env call' hc _ _))
    · exact E.pure _
  | .namedParameter n v => by
    unfold evalStep
    split
    · exact E.bind (r_evalStep E env call' hc v) (fun _ => E.pure _)
    · exact E.pure _
  | .path a b => by
    unfold evalStep
    split
    · exact E.bind (r_evalStep E env call' hc a) (fun _ => E.pure _)
    · exact E.pure _
theorem r_evalList (E : EvalRel) (env : Env) (call' : Ast → EvalM Value)
    (hc : ∀ b, E.R (env.call b) (call' b)) :
    (as : List Ast) → E.R (evalList env as) (evalList (env.withCall call') as)
  | [] => by simp only [evalList]; exact E.pure _
  | a :: as => by
    simp only [evalList]
    exact E.bind (r_evalStep E env call' hc a) (fun _ => E.bind (r_evalList E env call' hc as) (fun _ => E.pure _))
/-- The loop of a context literal writes into the context pushed for it and nowhere else. -/
theorem rq_evalContextEntries (E : EvalRel) (env : Env) (call' : Ast → EvalM Value)
    (hc : ∀ b, E.R (env.call b) (call' b)) :
    (es : List Ast) → (acc : Ctx) →
      E.Q (evalContextEntries env es acc) (evalContextEntries (env.withCall call') es acc)
  | [], acc => by simp only [evalContextEntries]; exact E.qPure _
  | e :: es, acc => by
    simp only [evalContextEntries]
    apply E.qBind (E.qOfR (r_evalStep E env call' hc e))
    intro v
    split
    · split
      · exact E.qPure _
      · exact E.qBind (E.qSetEntry _ _) (fun _ => rq_evalContextEntries E env call' hc es _)
    · exact rq_evalContextEntries E env call' hc es _
theorem r_evalQuantified (E : EvalRel) (env : Env) (call' : Ast → EvalM Value)
    (hc : ∀ b, E.R (env.call b) (call' b)) :
    (items : List Ast) → (pos : Nat) →
      E.R (evalQuantified env items pos) (evalQuantified (env.withCall call') items pos)
  | [], pos => by simp only [evalQuantified]; exact E.pure _
  | .quantifiedContext (.name n) e :: items, pos => by
    simp only [evalQuantified]
    apply E.bind (r_evalStep E env call' hc e)
    intro v
    split
    · exact E.pure _
    · exact E.pure _
    · exact E.bind (r_evalQuantified E env call' hc items _) (fun _ => E.pure _)
  | item :: items, pos => by
    have ih := r_evalQuantified E env call' hc items (pos + 1)
    unfold evalQuantified
    split
    · rename_i n e
      apply E.bind (r_evalStep E env call' hc e)
      intro v
      split
      · exact E.pure _
      · exact E.pure _
      · exact E.bind ih (fun _ => E.pure _)
    · exact ih
theorem r_evalIteration (E : EvalRel) (env : Env) (call' : Ast → EvalM Value)
    (hc : ∀ b, E.R (env.call b) (call' b)) :
    (items : List Ast) → (pos : Nat) →
      E.R (evalIteration env items pos) (evalIteration (env.withCall call') items pos)
  | [], pos => by simp only [evalIteration]; exact E.pure _
  | .iterationContextSingle (.name n) e :: items, pos => by
    simp only [evalIteration]
    apply E.bind (r_evalStep E env call' hc e)
    intro v
    split
    · exact E.pure _
    · exact E.pure _
    · exact E.bind (r_evalIteration E env call' hc items _) (fun _ => E.pure _)
  | .iterationContextRange (.name n) lo hi :: items, pos => by
    simp only [evalIteration]
    refine E.bind (r_evalStep E env call' hc lo) (fun _ => E.bind (r_evalStep E env call' hc hi) (fun _ => ?_))
    split
    · exact E.pure _
    · exact E.bind (r_evalIteration E env call' hc items _) (fun _ => E.pure _)
  | item :: items, pos => by
    have ih := r_evalIteration E env call' hc items (pos + 1)
    unfold evalIteration
    split
    · rename_i n e
      apply E.bind (r_evalStep E env call' hc e)
      intro v
      split
      · exact E.pure _
      · exact E.pure _
      · exact E.bind ih (fun _ => E.pure _)
    · rename_i n lo hi
      refine E.bind (r_evalStep E env call' hc lo) (fun _ => E.bind (r_evalStep E env call' hc hi) (fun _ => ?_))
      split
      · exact E.pure _
      · exact E.bind ih (fun _ => E.pure _)
    · exact ih
end

/-- `mkEnv` at two amounts of fuel differs in the evaluator of function bodies only. -/
theorem mkEnv_withCall (num : NumOps) (bp : String → List Value → Outcome Value)
    (bn : String → List (String × Value × Nat) → Outcome Value) (v : Variant) (n n' : Nat) :
    (mkEnv num bp bn v n).withCall (mkEnv num bp bn v n').call = mkEnv num bp bn v n' := by
  cases n <;> cases n' <;> rfl

end Dmn.Eval
