import Dmn.Model.Num
import Dmn.Lemmas.DecCmp

/-! The evaluator's `Dmn.Dec` (Num.lean) and the arithmetic model's `Dmn.D128` have the same
fields; their comparisons agree, so properties of `Dmn.Dec.cmp` (C09) may rest on
`Props/C02.cmp_correct` and the order lemmas of `D128.cmp`. -/

namespace Dmn
namespace D128

/-- the same triple, seen by the arithmetic model -/
def ofDec (d : Dmn.Dec) : D128 := ⟨d.neg, d.coeff, d.exp⟩

theorem sint_eq_scoeff_mul (d : Dmn.Dec) (k : Nat) :
    sint d.neg (d.coeff * 10 ^ k) = d.scoeff * (10 : Int) ^ k := by
  rw [sint_mul_pow]
  unfold sint Dmn.Dec.scoeff
  cases d.neg <;> simp [Int.natCast_pow]

/-- the two comparisons are the same function -/
theorem cmp_ofDec (a b : Dmn.Dec) : D128.cmp (ofDec a) (ofDec b) = Dmn.Dec.cmp a b := by
  unfold D128.cmp Dmn.Dec.cmp Dmn.Dec.align ofDec
  simp only []
  rw [sint_eq_scoeff_mul a, sint_eq_scoeff_mul b]

/-! ### order laws of the evaluator's comparison, through the bridge -/

theorem dec_cmp_swap (a b : Dmn.Dec) : Dmn.Dec.cmp a b = (Dmn.Dec.cmp b a).swap := by
  rw [← cmp_ofDec a b, ← cmp_ofDec b a,
    cmp_at_scale (ofDec a) (ofDec b) (min a.exp b.exp) (by show _ ≤ a.exp; omega) (by show _ ≤ b.exp; omega),
    cmp_at_scale (ofDec b) (ofDec a) (min a.exp b.exp) (by show _ ≤ b.exp; omega) (by show _ ≤ a.exp; omega)]
  exact compare_int_swap _ _

theorem dec_cmp_refl (a : Dmn.Dec) : Dmn.Dec.cmp a a = .eq := by
  rw [← cmp_ofDec a a, cmp_at_scale (ofDec a) (ofDec a) a.exp (Int.le_refl _) (Int.le_refl _), compare_int_eq]

theorem dec_cmp_lt_trans (a b c : Dmn.Dec) (h1 : Dmn.Dec.cmp a b = .lt) (h2 : Dmn.Dec.cmp b c = .lt) :
    Dmn.Dec.cmp a c = .lt := by
  rw [← cmp_ofDec] at h1 h2 ⊢
  have ha : min a.exp (min b.exp c.exp) ≤ (ofDec a).exp := by show _ ≤ a.exp; omega
  have hb : min a.exp (min b.exp c.exp) ≤ (ofDec b).exp := by show _ ≤ b.exp; omega
  have hc : min a.exp (min b.exp c.exp) ≤ (ofDec c).exp := by show _ ≤ c.exp; omega
  rw [cmp_at_scale _ _ _ ha hb, compare_int_lt] at h1
  rw [cmp_at_scale _ _ _ hb hc, compare_int_lt] at h2
  rw [cmp_at_scale _ _ _ ha hc, compare_int_lt]
  omega

theorem dec_cmp_eq_trans (a b c : Dmn.Dec) (h1 : Dmn.Dec.cmp a b = .eq) (h2 : Dmn.Dec.cmp b c = .eq) :
    Dmn.Dec.cmp a c = .eq := by
  rw [← cmp_ofDec] at h1 h2 ⊢
  have ha : min a.exp (min b.exp c.exp) ≤ (ofDec a).exp := by show _ ≤ a.exp; omega
  have hb : min a.exp (min b.exp c.exp) ≤ (ofDec b).exp := by show _ ≤ b.exp; omega
  have hc : min a.exp (min b.exp c.exp) ≤ (ofDec c).exp := by show _ ≤ c.exp; omega
  rw [cmp_at_scale _ _ _ ha hb, compare_int_eq] at h1
  rw [cmp_at_scale _ _ _ hb hc, compare_int_eq] at h2
  rw [cmp_at_scale _ _ _ ha hc, compare_int_eq]
  omega

end D128
end Dmn
