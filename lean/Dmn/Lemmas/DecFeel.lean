import Dmn.Model.DecFeel
import Dmn.Lemmas.DecCmp
import Dmn.Lemmas.DecRound

/-! Lemmas for the FEEL-level glue (`Model/DecFeel.lean`). -/

namespace Dmn
namespace D128

theorem sint_mul_zero_iff (n : Bool) (c p : Nat) (hp : 0 < p) : sint n (c * p) = 0 ↔ c = 0 := by
  have hm0 : c * p = 0 ↔ c = 0 := by
    constructor
    · intro h; rcases Nat.mul_eq_zero.mp h with h | h
      · exact h
      · omega
    · intro h; rw [h]; simp
  generalize c * p = m at hm0
  unfold sint
  cases n <;> simp <;> omega

theorem sint_mul_neg_iff (n : Bool) (c p : Nat) (hp : 0 < p) : sint n (c * p) < 0 ↔ (n = true ∧ c ≠ 0) := by
  have hm0 : c * p = 0 ↔ c = 0 := by
    constructor
    · intro h; rcases Nat.mul_eq_zero.mp h with h | h
      · exact h
      · omega
    · intro h; rw [h]; simp
  generalize c * p = m at hm0
  unfold sint
  cases n <;> simp <;> omega

theorem cmp_zero_eq (x : D128) : D128.cmp x ⟨false, 0, 0⟩ = .eq ↔ x.coeff = 0 := by
  unfold D128.cmp
  simp only []
  have h0 : sint false (0 * 10 ^ ((0 : Int) - min x.exp 0).toNat) = 0 := by simp [sint]
  rw [h0, compare_int_eq]
  exact sint_mul_zero_iff _ _ _ (pow10_pos _)

theorem cmp_zero_lt (x : D128) : D128.cmp x ⟨false, 0, 0⟩ = .lt ↔ (x.neg = true ∧ x.coeff ≠ 0) := by
  unfold D128.cmp
  simp only []
  have h0 : sint false (0 * 10 ^ ((0 : Int) - min x.exp 0).toNat) = 0 := by simp [sint]
  rw [h0, compare_int_lt]
  exact sint_mul_neg_iff _ _ _ (pow10_pos _)

end D128

namespace FeelNum
open D128

/-- the zero test of the division / modulo guards, on a finite operand -/
theorem isZeroNum_fin (b : D128) : isZeroNum (.fin b) = decide (b.coeff = 0) := by
  unfold isZeroNum FNum.eq FNum.abs D128R.abs zero D128R.cmp?
  simp only []
  have h := cmp_zero_eq (D128.abs b)
  have hc : (D128.abs b).coeff = b.coeff := rfl
  rw [hc] at h
  by_cases hb : b.coeff = 0
  · rw [h.mpr hb]; simp [hb]
  · have : D128.cmp (D128.abs b) ⟨false, 0, 0⟩ ≠ .eq := fun hh => hb (h.mp hh)
    simp [hb]
    intro hh
    exact this hh

/-- `v >= 0` on a finite operand: not (signed and non-zero) -/
theorem geZero_fin (a : D128) : geZero (.fin a) = !(a.neg && decide (a.coeff ≠ 0)) := by
  unfold geZero FNum.cmp zero D128R.cmp?
  simp only []
  have h := cmp_zero_lt a
  by_cases hn : a.neg = true ∧ a.coeff ≠ 0
  · rw [h.mpr hn]; simp [hn.1, hn.2]
  · have hne : D128.cmp a ⟨false, 0, 0⟩ ≠ .lt := fun hh => hn (h.mp hh)
    have hb : (a.neg && decide (a.coeff ≠ 0)) = false := by
      cases hneg : a.neg
      · simp
      · simp only [Bool.true_and, decide_eq_false_iff_not]
        intro hc; exact hn ⟨hneg, hc⟩
    rw [hb]
    cases hcmp : D128.cmp a ⟨false, 0, 0⟩
    · exact absurd hcmp hne
    · rfl
    · rfl

end FeelNum
end Dmn

namespace Dmn
namespace FeelNum
open D128

theorem trunc_exp_nonneg (s : D128) : 0 ≤ (D128.trunc s).exp := by
  unfold D128.trunc D128.toIntegral
  by_cases h : s.exp ≥ 0
  · rw [if_pos h]; exact h
  · rw [if_neg h]

/-- the truncated scale is an integer: its value at scale 0 -/
theorem toInt_trunc (s : D128) : toInt? (D128.trunc s) = some (scaled (D128.trunc s) 0) := by
  have h := trunc_exp_nonneg s
  unfold toInt? scaled
  rw [if_pos h]
  have : ((D128.trunc s).exp - 0).toNat = (D128.trunc s).exp.toNat := by omega
  rw [this]

/-- `n <= t` for an integer constant `n` and a number `t` of non-negative exponent -/
theorem leNum_const_left (n : Int) (t : D128) (ht : 0 ≤ t.exp) :
    leNum (.fin (ofInt n)) (.fin t) = decide (n ≤ scaled t 0) := by
  unfold leNum FNum.cmp D128R.cmp?
  simp only []
  have hc := cmp_at_scale (ofInt n) t 0 (by unfold ofInt; simp) ht
  have hn : scaled (ofInt n) 0 = n := by
    unfold scaled ofInt sint
    simp only []
    by_cases h : n < 0
    · simp [h]; omega
    · simp [h]; omega
  rw [hn] at hc
  rw [hc]
  by_cases hle : n ≤ scaled t 0
  · rcases Int.lt_or_eq_of_le hle with h | h
    · rw [compare_int_lt.mpr h]; simp [hle]
    · rw [compare_int_eq.mpr h]; simp [hle]
  · have : scaled t 0 < n := by omega
    rw [compare_int_gt.mpr this]; simp [hle]

theorem leNum_const_right (t : D128) (n : Int) (ht : 0 ≤ t.exp) :
    leNum (.fin t) (.fin (ofInt n)) = decide (scaled t 0 ≤ n) := by
  unfold leNum FNum.cmp D128R.cmp?
  simp only []
  have hc := cmp_at_scale t (ofInt n) 0 ht (by unfold ofInt; simp)
  have hn : scaled (ofInt n) 0 = n := by
    unfold scaled ofInt sint
    simp only []
    by_cases h : n < 0
    · simp [h]; omega
    · simp [h]; omega
  rw [hn] at hc
  rw [hc]
  by_cases hle : scaled t 0 ≤ n
  · rcases Int.lt_or_eq_of_le hle with h | h
    · rw [compare_int_lt.mpr h]; simp [hle]
    · rw [compare_int_eq.mpr h]; simp [hle]
  · have : n < scaled t 0 := by omega
    rw [compare_int_gt.mpr this]; simp [hle]

/-- `decimal` on finite operands: with `k` the scale truncated to an integer, `FeelNumber::round`
at `k` when `-6111 ≤ k ≤ 6176`, null otherwise -/
theorem decimal_fin (a s : D128) :
    decimal (.fin a) (.fin s) =
      if -6111 ≤ scaled (D128.trunc s) 0 ∧ scaled (D128.trunc s) 0 ≤ 6176
      then some (D128.rescale a (scaled (D128.trunc s) 0)) else none := by
  have hL := leNum_const_left (-6111) _ (trunc_exp_nonneg s)
  have hR := leNum_const_right _ 6176 (trunc_exp_nonneg s)
  have hT := toInt_trunc s
  unfold decimal
  simp only [FNum.trunc, D128R.map, hL, hR, hT]
  by_cases h1 : -6111 ≤ scaled (D128.trunc s) 0 <;> by_cases h2 : scaled (D128.trunc s) 0 ≤ 6176 <;>
    simp [h1, h2, FNum.round]

end FeelNum
end Dmn
