import Dmn.Lemmas.BifsNumber

/-! `number(from, grouping separator, decimal separator)` (C08): the separator handling of `core::number`
(`str::replace` of a one-character separator, model `Bif.replaceAllChars`) against the character-level
specification (`filter` / `map`), for every text and every separator. -/

namespace Dmn
namespace Bif

/-- `text.replace(g, "")` for a one-character `g` removes exactly the characters equal to `g` -/
theorem replaceAllLit_remove (g : Char) : ∀ (fuel : Nat) (cs : List Char), cs.length < fuel →
    replaceAllLit [g] [] fuel cs = cs.filter (fun c => c != g) := by
  intro fuel
  induction fuel with
  | zero => intro cs h; omega
  | succ n ih =>
    intro cs h
    cases cs with
    | nil => rfl
    | cons c cs =>
      simp only [List.length_cons] at h
      have ih' := ih cs (by omega)
      by_cases hc : g = c
      · subst hc
        simp [replaceAllLit, List.isPrefixOf, ih']
      · have hc' : ¬ c = g := fun h => hc h.symm
        simp [replaceAllLit, List.isPrefixOf, hc, hc', ih']

/-- `text.replace(d, r)` for one-character `d`, `r` rewrites exactly the characters equal to `d` -/
theorem replaceAllLit_map (d r : Char) : ∀ (fuel : Nat) (cs : List Char), cs.length < fuel →
    replaceAllLit [d] [r] fuel cs = cs.map (fun c => if c = d then r else c) := by
  intro fuel
  induction fuel with
  | zero => intro cs h; omega
  | succ n ih =>
    intro cs h
    cases cs with
    | nil => rfl
    | cons c cs =>
      simp only [List.length_cons] at h
      have ih' := ih cs (by omega)
      by_cases hc : d = c
      · subst hc
        simp [replaceAllLit, List.isPrefixOf, ih']
      · have hc' : ¬ c = d := fun h => hc h.symm
        simp [replaceAllLit, List.isPrefixOf, hc, hc', ih']

theorem replaceAllChars_remove (g : Char) (cs : List Char) :
    replaceAllChars [g] [] cs = cs.filter (fun c => c != g) :=
  replaceAllLit_remove g _ cs (Nat.lt_succ_self _)

theorem replaceAllChars_map (d r : Char) (cs : List Char) :
    replaceAllChars [d] [r] cs = cs.map (fun c => if c = d then r else c) :=
  replaceAllLit_map d r _ cs (Nat.lt_succ_self _)

end Bif

namespace Spec

/-- `Spec.numberV` with the reader of the final text as a parameter (`Spec.numberV` is
`numberWith Spec.parseFeelNumber`, by definition) -/
def numberWith (reader : List Char → Option Dec) (from_ grouping decimal : Value) : Value :=
  let sepOk (v : Value) (allowed : List String) : Option (Option String) :=
    match v with
    | .null => some none
    | .str s => if allowed.contains s then some (some s) else none
    | _ => none
  match from_, sepOk grouping [" ", ".", ","], sepOk decimal [".", ","] with
  | .str text, some g, some d =>
    if g.isSome && g == d then .null
    else
      let cs := text.toList
      let cs := match g with
        | some g => cs.filter (fun c => [c] != g.toList)
        | none => cs
      let cs := match d with
        | some d => cs.map (fun c => if [c] == d.toList then '.' else c)
        | none => cs
      match reader cs with
      | some n => .num n
      | none => .null
  | _, _, _ => .null

theorem numberV_eq_numberWith (a b c : Value) : numberV a b c = numberWith parseFeelNumber a b c := rfl

end Spec

namespace Bif

/-! ### `core::number` = the specification with the code's reader, on the whole argument space -/

theorem sep_cases (v : Value) (allowed : List String) :
    v = .null ∨ (∃ s, v = .str s ∧ s ∈ allowed) ∨ (∃ s, v = .str s ∧ s ∉ allowed) ∨
      ((∀ s, v ≠ .str s) ∧ v ≠ .null) := by
  cases v <;> simp
  rename_i s
  by_cases h : s ∈ allowed <;> simp [h]

theorem singleton_bne (c g : Char) : ([c] != [g]) = (c != g) := by
  by_cases h : c = g
  · subst h; simp
  · simp [bne, h]

local macro "number_close" : tactic =>
  `(tactic| (simp [numberValue, Spec.numberWith, replaceAllChars_map, replaceAllChars_remove, singleton_bne] <;> rfl))

theorem numberValue_eq (a b c : Value) : numberValue a b c = Spec.numberWith parseNumber a b c := by
  cases a with
  | str text =>
    rcases sep_cases c [".", ","] with rfl | ⟨d, rfl, hd⟩ | ⟨d, rfl, hd⟩ | ⟨hc1, hc2⟩
    · rcases sep_cases b [" ", ".", ","] with rfl | ⟨g, rfl, hg⟩ | ⟨g, rfl, hg⟩ | ⟨hb1, hb2⟩
      · number_close
      · simp only [List.mem_cons, List.mem_nil_iff, or_false] at hg
        rcases hg with rfl | rfl | rfl <;> number_close
      · simp only [List.mem_cons, List.mem_nil_iff, or_false, not_or] at hg
        simp [numberValue, Spec.numberWith, hg.1, hg.2.1, hg.2.2]
      · cases b <;> simp_all [numberValue, Spec.numberWith]
    · simp only [List.mem_cons, List.mem_nil_iff, or_false] at hd
      rcases sep_cases b [" ", ".", ","] with rfl | ⟨g, rfl, hg⟩ | ⟨g, rfl, hg⟩ | ⟨hb1, hb2⟩
      · rcases hd with rfl | rfl <;> number_close
      · simp only [List.mem_cons, List.mem_nil_iff, or_false] at hg
        rcases hd with rfl | rfl <;> rcases hg with rfl | rfl | rfl <;> number_close
      · simp only [List.mem_cons, List.mem_nil_iff, or_false, not_or] at hg
        simp [numberValue, Spec.numberWith, hg.1, hg.2.1, hg.2.2]
      · cases b <;> simp_all [numberValue, Spec.numberWith]
    · simp only [List.mem_cons, List.mem_nil_iff, or_false, not_or] at hd
      rcases sep_cases b [" ", ".", ","] with rfl | ⟨g, rfl, hg⟩ | ⟨g, rfl, hg⟩ | ⟨hb1, hb2⟩
      · simp [numberValue, Spec.numberWith, hd.1, hd.2]
      · simp only [List.mem_cons, List.mem_nil_iff, or_false] at hg
        rcases hg with rfl | rfl | rfl <;> simp [numberValue, Spec.numberWith, hd.1, hd.2]
      · simp only [List.mem_cons, List.mem_nil_iff, or_false, not_or] at hg
        simp [numberValue, Spec.numberWith, hg.1, hg.2.1, hg.2.2]
      · cases b <;> simp_all [numberValue, Spec.numberWith]
    · rcases sep_cases b [" ", ".", ","] with rfl | ⟨g, rfl, hg⟩ | ⟨g, rfl, hg⟩ | ⟨hb1, hb2⟩
      · cases c <;> simp_all [numberValue, Spec.numberWith]
      · simp only [List.mem_cons, List.mem_nil_iff, or_false] at hg
        rcases hg with rfl | rfl | rfl <;> cases c <;> simp_all [numberValue, Spec.numberWith]
      · simp only [List.mem_cons, List.mem_nil_iff, or_false, not_or] at hg
        simp [numberValue, Spec.numberWith, hg.1, hg.2.1, hg.2.2]
      · cases b <;> simp_all [numberValue, Spec.numberWith]
  | _ => rfl

/-- a reader that accepts more gives the same number wherever the stricter one gives one -/
theorem numberWith_mono (r1 r2 : List Char → Option Dec) (hr : ∀ cs d, r1 cs = some d → r2 cs = some d)
    (a b c : Value) (d : Dec) (h : Spec.numberWith r1 a b c = .num d) : Spec.numberWith r2 a b c = .num d := by
  unfold Spec.numberWith at h ⊢
  dsimp only at h ⊢
  split
  · rename_i text g dd hg hd
    simp only [hg, hd] at h
    split at h
    · cases h
    · rename_i hne
      rw [if_neg hne]
      split at h
      · rename_i n hn
        simp only [hr _ _ hn]
        exact h
      · cases h
  · rename_i hno
    split at h
    · rename_i text g dd hg hd
      exact absurd rfl (hno text g dd · hg hd) |> False.elim
    · cases h

end Bif
end Dmn
