import Dmn.Lemmas.DecCongr

/-! The mathematical modulo `a − b·⌊a/b⌋` has the sign of the divisor and is smaller than it;
characterisation of `Int.fdiv` by the unit interval. -/

namespace Dmn
namespace D128

/-- `⌊x / y⌋ = q` from `q·y ≤ x < (q+1)·y` (`y > 0`) -/
theorem fdiv_unique_pos (x y q : Int) (hy : 0 < y) (h1 : q * y ≤ x) (h2 : x < (q + 1) * y) : Int.fdiv x y = q := by
  rw [Int.fdiv_eq_ediv_of_nonneg x (Int.le_of_lt hy)]
  have a : q ≤ x / y := (Int.le_ediv_iff_mul_le hy).mpr h1
  have b : x / y < q + 1 := (Int.ediv_lt_iff_lt_mul hy).mpr h2
  omega

/-- `⌊x / y⌋ = q` from `(q+1)·y < x ≤ q·y` (`y < 0`) -/
theorem fdiv_unique_neg (x y q : Int) (hy : y < 0) (h1 : x ≤ q * y) (h2 : (q + 1) * y < x) : Int.fdiv x y = q := by
  rw [← Int.neg_fdiv_neg]
  apply fdiv_unique_pos (-x) (-y) q (by omega)
  · rw [Int.mul_neg]; omega
  · rw [Int.mul_neg]; omega

/-- the mathematical modulo lies between zero and the divisor -/
theorem fmod_bounds (x y : Int) :
    (0 < y → 0 ≤ x - y * Int.fdiv x y ∧ x - y * Int.fdiv x y < y) ∧
    (y < 0 → y < x - y * Int.fdiv x y ∧ x - y * Int.fdiv x y ≤ 0) := by
  constructor
  · intro hy
    rw [← Int.fmod_def]
    exact ⟨Int.fmod_nonneg_of_pos x hy, Int.fmod_lt_of_pos x hy⟩
  · intro hy
    have e : x - y * Int.fdiv x y = - ((-x) - (-y) * Int.fdiv (-x) (-y)) := by
      rw [Int.neg_fdiv_neg, Int.neg_mul]; omega
    rw [e, ← Int.fmod_def]
    have a := Int.fmod_nonneg_of_pos (-x) (show 0 < -y by omega)
    have b := Int.fmod_lt_of_pos (-x) (show 0 < -y by omega)
    omega

theorem reduce_neg (d : D128) : (D128.reduce d).neg = d.neg := by
  unfold D128.reduce
  split <;> rfl

theorem reduce_coeff_zero (d : D128) : (D128.reduce d).coeff = 0 ↔ d.coeff = 0 := by
  unfold D128.reduce
  by_cases h : d.coeff = 0
  · rw [if_pos h]; simp [h]
  · rw [if_neg h]
    have := (stripZeros_spec (eTop - d.exp).toNat d.coeff).2.2 h
    generalize stripZeros (eTop - d.exp).toNat d.coeff = p at this
    obtain ⟨m, k⟩ := p
    simp only [] at this ⊢
    constructor
    · intro x; exact absurd x this
    · intro x; exact absurd x h

end D128
end Dmn
