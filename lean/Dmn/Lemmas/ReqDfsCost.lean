import Dmn.Lemmas.ReqDfs

/-!
# Cost of the cycle check

* `dfsExpansions_le` — the repaired check (`Dmn.ReqDfs.dfs`) expands every key at most once: after the
  whole loop the number of expansions is the number of elements in `chain` and `checked` together, and
  these are different keys.
* `diamond_visits` — the check it replaced (`chainOk`, cost `chainVisits`) makes at least `2 ^ layers`
  calls on the diamond graph with `2 * layers` elements.
-/

namespace Dmn.ReqDfs

set_option linter.unusedSectionVars false

variable {ν : Type} [DecidableEq ν]

/-- The elements of `chain` and `checked` are different keys. -/
def Dist (keys : List ν) (s : St ν) : Prop :=
  (s.chain ++ s.checked).Nodup ∧ ∀ x ∈ s.chain ++ s.checked, x ∈ keys

/-- The accounting between the state before and after a call with answer `b`: every expansion adds one
element to `chain` or to `checked`. -/
def Acc (keys : List ν) (s s' : St ν) (b : Bool) : Prop :=
  s'.expansions + (s.chain.length + s.checked.length) = s.expansions + (s'.chain.length + s'.checked.length) ∧
  (Dist keys s → Dist keys s') ∧ (b = true → s'.chain = s.chain)

theorem Acc.refl (keys : List ν) (s : St ν) (b : Bool) : Acc keys s s b := ⟨rfl, id, fun _ => rfl⟩

theorem Acc.trans {keys : List ν} {s s1 s2 : St ν} {b : Bool} (h1 : Acc keys s s1 true) (h2 : Acc keys s1 s2 b) :
    Acc keys s s2 b := by
  obtain ⟨a1, d1, c1⟩ := h1
  obtain ⟨a2, d2, c2⟩ := h2
  refine ⟨by omega, fun h => d2 (d1 h), fun hb => (c2 hb).trans (c1 rfl)⟩

theorem foldReq_acc (keys : List ν) (step : ν → St ν → Option (Bool × St ν))
    (hstep : ∀ r s b s', step r s = some (b, s') → Acc keys s s' b) :
    ∀ (rs : List ν) (s : St ν) (b : Bool) (s' : St ν), foldReq step rs s = some (b, s') → Acc keys s s' b := by
  intro rs
  induction rs with
  | nil =>
    intro s b s' h
    rw [foldReq_nil] at h
    cases h
    exact Acc.refl keys _ _
  | cons r rs ih =>
    intro s b s' h
    cases hd : step r s with
    | none => rw [foldReq_cons_none hd] at h; cases h
    | some res =>
      obtain ⟨b1, s1⟩ := res
      cases b1 with
      | false =>
        rw [foldReq_cons_false hd] at h
        have hx := hstep r s false s1 hd
        cases h
        exact hx
      | true =>
        rw [foldReq_cons_true hd] at h
        exact Acc.trans (hstep r s true s1 hd) (ih s1 b s' h)

theorem dfs_acc (succ : ν → Option (List ν)) (keys : List ν) (hk : ∀ x, succ x ≠ none → x ∈ keys) :
    ∀ (f : Nat) (id : ν) (s : St ν) (b : Bool) (s' : St ν), dfs succ f id s = some (b, s') → Acc keys s s' b := by
  intro f
  induction f with
  | zero =>
    intro id s b s' h
    cases hs : succ id with
    | none => rw [dfs_no_entry hs] at h; cases h; exact Acc.refl keys _ _
    | some rs =>
      by_cases hck : id ∈ s.checked
      · rw [dfs_checked hs _ hck] at h; cases h; exact Acc.refl keys _ _
      · by_cases hch : id ∈ s.chain
        · rw [dfs_on_chain hs _ hck hch] at h; cases h; exact Acc.refl keys _ _
        · rw [dfs_zero hs hck hch] at h; cases h
  | succ f ih =>
    intro id s b s' h
    cases hs : succ id with
    | none => rw [dfs_no_entry hs] at h; cases h; exact Acc.refl keys _ _
    | some rs =>
      by_cases hck : id ∈ s.checked
      · rw [dfs_checked hs _ hck] at h; cases h; exact Acc.refl keys _ _
      · by_cases hch : id ∈ s.chain
        · rw [dfs_on_chain hs _ hck hch] at h; cases h; exact Acc.refl keys _ _
        · have hkey : id ∈ keys := hk _ (by rw [hs]; exact fun h => by cases h)
          have hdist0 : Dist keys s → Dist keys { s with chain := id :: s.chain, expansions := s.expansions + 1 } := by
            intro hd
            obtain ⟨hn, hm⟩ := hd
            constructor
            · show (id :: s.chain ++ s.checked).Nodup
              rw [List.cons_append, List.nodup_cons]
              exact ⟨by simp [hck, hch], hn⟩
            · intro x hx
              have hx' : x ∈ id :: (s.chain ++ s.checked) := by simpa using hx
              rcases List.mem_cons.mp hx' with rfl | hx'
              · exact hkey
              · exact hm x hx'
          cases hf : foldReq (dfs succ f) rs { s with chain := id :: s.chain, expansions := s.expansions + 1 } with
          | none => rw [dfs_succ_none hs hck hch hf] at h; cases h
          | some res =>
            obtain ⟨b1, s1⟩ := res
            have hacc := foldReq_acc keys (dfs succ f) (ih) rs _ b1 s1 hf
            obtain ⟨a1, d1, c1⟩ := hacc
            simp only [List.length_cons] at a1
            cases b1 with
            | false =>
              rw [dfs_succ_false hs hck hch hf] at h
              cases h
              exact ⟨by omega, fun hd => d1 (hdist0 hd), fun hb => by cases hb⟩
            | true =>
              rw [dfs_succ_true hs hck hch hf] at h
              cases h
              have hc1 : s1.chain = id :: s.chain := c1 rfl
              refine ⟨?_, ?_, fun _ => ?_⟩
              · show s1.expansions + (s.chain.length + s.checked.length)
                    = s.expansions + ((s1.chain.erase id).length + (id :: s1.checked).length)
                rw [hc1] at a1 ⊢
                simp only [List.erase_cons_head, List.length_cons] at a1 ⊢
                omega
              · intro hd
                obtain ⟨hn, hm⟩ := d1 (hdist0 hd)
                rw [hc1] at hn hm
                constructor
                · show (s1.chain.erase id ++ id :: s1.checked).Nodup
                  rw [hc1, List.erase_cons_head]
                  exact (List.perm_middle.nodup_iff).mpr (by simpa using hn)
                · intro x hx
                  have hx' : x ∈ s1.chain.erase id ++ id :: s1.checked := hx
                  rw [hc1, List.erase_cons_head] at hx'
                  apply hm x
                  simp only [List.mem_append, List.mem_cons] at hx' ⊢
                  rcases hx' with h1 | h1 | h1
                  · exact Or.inl (Or.inr h1)
                  · exact Or.inl (Or.inl h1)
                  · exact Or.inr h1
              · show s1.chain.erase id = s.chain
                rw [hc1, List.erase_cons_head]

theorem checkAll_acc (succ : ν → Option (List ν)) (keys : List ν) (hk : ∀ x, succ x ≠ none → x ∈ keys) (fuel : Nat) :
    ∀ (ks : List ν) (s : St ν) (b : Bool) (s' : St ν), s.chain = [] →
      foldReq (fun id s => dfs succ fuel id { s with chain := [] }) ks s = some (b, s') → Acc keys s s' b := by
  intro ks
  induction ks with
  | nil =>
    intro s b s' _ h
    rw [foldReq_nil] at h
    cases h
    exact Acc.refl keys _ _
  | cons k ks ih =>
    intro s b s' hs h
    have hreset : ({ s with chain := [] } : St ν) = s := by cases s; simp_all
    cases hd : dfs succ fuel k { s with chain := [] } with
    | none =>
      rw [foldReq_cons_none (step := fun id s => dfs succ fuel id { s with chain := [] }) hd] at h; cases h
    | some res =>
      obtain ⟨b1, s1⟩ := res
      have hacc := dfs_acc succ keys hk fuel k _ b1 s1 hd
      rw [hreset] at hacc
      cases b1 with
      | false =>
        rw [foldReq_cons_false (step := fun id s => dfs succ fuel id { s with chain := [] }) hd] at h
        cases h
        exact hacc
      | true =>
        rw [foldReq_cons_true (step := fun id s => dfs succ fuel id { s with chain := [] }) hd] at h
        have hs1 : s1.chain = [] := (hacc.2.2 rfl).trans hs
        exact Acc.trans hacc (ih s1 b s' hs1 h)

/-- **The repaired check expands every element at most once**: whatever the graph and whatever the answer,
the number of expansions (calls of `check_chain` that get past the tests of the two sets) is at most
the number of different keys (any `n` that bounds the length of a list of different keys; `keys.length`
is one). -/
theorem dfsExpansions_le (succ : ν → Option (List ν)) (keys : List ν) (hk : ∀ x, succ x ≠ none → x ∈ keys)
    (n : Nat) (hn : ∀ l : List ν, l.Nodup → (∀ x ∈ l, x ∈ keys) → l.length ≤ n) :
    dfsExpansions succ keys ≤ n := by
  unfold dfsExpansions checkAll
  cases hc : foldReq (fun id s => dfs succ keys.length id { s with chain := [] }) keys ⟨[], [], 0⟩ with
  | none => exact Nat.zero_le _
  | some res =>
    obtain ⟨b, s'⟩ := res
    obtain ⟨a, d, _⟩ := checkAll_acc succ keys hk keys.length keys ⟨[], [], 0⟩ b s' rfl hc
    obtain ⟨hnd, hmem⟩ := d ⟨by simp, by intro x hx; simp at hx⟩
    have := hn _ hnd hmem
    simp only [List.length_append, List.length_nil] at a this
    show s'.expansions ≤ n
    omega

theorem length_le_keys (keys : List ν) : ∀ l : List ν, l.Nodup → (∀ x ∈ l, x ∈ keys) → l.length ≤ keys.length :=
  fun _ hnd hsub => hnd.length_le_of_subset hsub

/-! ## The diamond: the old check walks every path -/

theorem chainVisits_pos (succ : ν → Option (List ν)) (b : Nat) (id : ν) : 1 ≤ chainVisits succ b id := by
  rw [chainVisits]
  cases succ id with
  | none => simp
  | some rs => cases b <;> simp <;> omega

theorem diamond_node_visits : ∀ (k layers id b : Nat), id < 2 * layers → layers - id / 2 = k + 1 → k ≤ b →
    2 ^ k ≤ chainVisits (diamond layers) b id := by
  intro k
  induction k with
  | zero => intro layers id b _ _ _; simpa using chainVisits_pos (diamond layers) b id
  | succ k ih =>
    intro layers id b hid hk hb
    obtain ⟨b', rfl⟩ : ∃ b', b = b' + 1 := ⟨b - 1, by omega⟩
    have hs : diamond layers id = some [2 * (id / 2 + 1), 2 * (id / 2 + 1) + 1] := by
      unfold diamond
      rw [if_pos hid, if_pos (by omega)]
    rw [chainVisits]
    simp only [hs, List.map_cons, List.map_nil, List.sum_cons, List.sum_nil]
    have h1 := ih layers (2 * (id / 2 + 1)) b' (by omega) (by omega) (by omega)
    have h2 := ih layers (2 * (id / 2 + 1) + 1) b' (by omega) (by omega) (by omega)
    rw [Nat.pow_succ]
    omega

/-- **The check before the repair is exponential on the diamond**: with `layers` layers of two elements
(`2 * layers` keys, the budget the old code used, or any budget from `layers - 1` on) it makes at least
`2 ^ layers` calls of `check_chain`. -/
theorem diamond_visits (layers : Nat) (hl : 1 ≤ layers) (n : Nat) (hn : layers ≤ n + 1) :
    2 ^ layers ≤ checkVisits (diamond layers) (diamondKeys layers) n := by
  obtain ⟨m, rfl⟩ : ∃ m, layers = m + 1 := ⟨layers - 1, by omega⟩
  have h0 := diamond_node_visits m (m + 1) 0 n (by omega) (by omega) (by omega)
  have h1 := diamond_node_visits m (m + 1) 1 n (by omega) (by omega) (by omega)
  unfold checkVisits diamondKeys
  have hr : List.range (2 * (m + 1)) = 0 :: 1 :: List.range' 2 (2 * m) := by
    rw [List.range_eq_range', show 2 * (m + 1) = (2 * m + 1) + 1 by omega, List.range'_succ, List.range'_succ]
  rw [hr]
  simp only [List.map_cons, List.sum_cons]
  rw [Nat.pow_succ]
  omega

end Dmn.ReqDfs
