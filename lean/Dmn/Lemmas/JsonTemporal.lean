import Dmn.Model.Json
import Dmn.Model.Dto
import Dmn.Lemmas.Json
import Dmn.Lemmas.Dto
import Dmn.Lemmas.TemporalGrammar
import Dmn.Lemmas.TemporalDur

/-!
# Temporal values through JSON and through TCK DTOs (C18 on top of C14)

`Value::jsonify` writes a date, a time, a date and time or a duration as the JSON string of its
`Display` text (`values.rs`: `_ => format!("\"{}\"", json_escape(&self.to_string()))`), and
`ValueDto` carries the same text (`dto.rs`: `SimpleDto::some("xsd:…", &v.to_string())`).  The
printers and readers are C14's model (`Dmn/Model/Temporal.lean`); here they are composed with the
JSON renderer / decoder and the DTO conversion of C18.

* `FV`: evaluated values with the temporal kinds as values (not as texts); `FV.toJV` is what
  `jsonify` sees of them; `FT` is the kind skeleton of a value and `readAt` reads a JSON document
  at a skeleton (strings through C14's readers `parseDate`, `parseTime`, `parseDateTime`,
  `bifDuration`).
* `parseYmDur_printDtDur`: the text of a days-and-time duration is never read as a
  years-and-months duration (`duration("…")` and `try_from_xsd_duration` try that form first).
-/

namespace Dmn.Temporal
open Dmn.Cal

/-- The alphabet of a years-and-months duration text. -/
theorem YmText.mem {cs : List Char} {neg : Bool} {ys ms : Option (List Char)} (h : YmText cs neg ys ms)
    (c : Char) (hc : c ∈ cs) : c = '-' ∨ c = 'P' ∨ c = 'Y' ∨ c = 'M' ∨ isDigit c = true := by
  obtain ⟨e, hy, hm⟩ := h
  subst e
  have hcomp : ∀ (o : Option (List Char)) (x : Char), CompOk o → c ∈ compText o x → c = x ∨ isDigit c = true := by
    intro o x ho hcx
    cases o with
    | none => simp [compText] at hcx
    | some d =>
      simp only [compText, List.mem_append, List.mem_singleton] at hcx
      rcases hcx with hcx | hcx
      · exact Or.inr ((ho d rfl).1 c hcx)
      · exact Or.inl hcx
  simp only [List.mem_append, List.mem_cons] at hc
  rcases hc with hc | hc | hc | hc
  · cases neg
    · simp at hc
    · simp at hc; exact Or.inl hc
  · exact Or.inr (Or.inl hc)
  · rcases hcomp ys 'Y' hy hc with h | h
    · exact Or.inr (Or.inr (Or.inl h))
    · exact Or.inr (Or.inr (Or.inr (Or.inr h)))
  · rcases hcomp ms 'M' hm hc with h | h
    · exact Or.inr (Or.inr (Or.inr (Or.inl h)))
    · exact Or.inr (Or.inr (Or.inr (Or.inr h)))

/-- The text of a days-and-time duration has a `T` or a `D`. -/
theorem printDtDur_has_T_or_D (n : Int) : 'T' ∈ printDtDur n ∨ 'D' ∈ printDtDur n := by
  unfold printDtDur
  simp only []
  by_cases hz : n.natAbs = 0
  · rw [if_pos hz]; left; simp
  · rw [if_neg hz]
    by_cases hd : n.natAbs / 86400000000000 > 0
    · right
      simp [compStr, hd]
    · left
      have ht : (n.natAbs % 86400000000000) / 3600000000000 > 0 ∨ (n.natAbs % 3600000000000) / 60000000000 > 0 ∨
          (n.natAbs % 60000000000) / 1000000000 > 0 ∨ n.natAbs % 1000000000 > 0 := by
        generalize n.natAbs = a at hz hd ⊢
        omega
      rw [if_pos ht]
      simp

/-- The text of a days-and-time duration is not a years-and-months duration, for every value: the
reader that is tried first rejects it. -/
theorem parseYmDur_printDtDur (n : Int) : parseYmDur (printDtDur n) = .reject := by
  cases h : parseYmDur (printDtDur n) with
  | reject => rfl
  | panic => exact absurd h (parseYmDur_range _).1
  | ok m =>
    exfalso
    obtain ⟨neg, ys, ms, ht, _⟩ := (parseYmDur_iff _ m).1 h
    rcases printDtDur_has_T_or_D n with hc | hc
    · rcases ht.mem _ hc with h | h | h | h | h <;> revert h <;> decide
    · rcases ht.mem _ hc with h | h | h | h | h <;> revert h <;> decide

/-- `duration("…")` of the text of a days-and-time duration is that duration. -/
theorem bifDuration_printDtDur (n : Int) (hfit : n.natAbs / 86400000000000 ≤ u64Max) :
    bifDuration (printDtDur n) = .dtDur n := by
  unfold bifDuration
  rw [parseYmDur_printDtDur, parseDtDur_printDtDur n hfit]

/-- `duration("…")` of the text of a years-and-months duration is that duration. -/
theorem bifDuration_printYmDur (n : Int) (h0 : i64Min < n) (h1 : n ≤ i64Max) :
    bifDuration (printYmDur n) = .ymDur n := by
  unfold bifDuration
  rw [parseYmDur_printYmDur n h0 h1]

end Dmn.Temporal

namespace Dmn.Server
open Dmn.Json Dmn.Temporal Dmn.Cal

/-- Evaluated values as the service renders them: the kinds JSON has, and the temporal kinds as
values of C14's model. -/
inductive FV where
  | null
  | bool (b : Bool)
  | num (text : List Char)
  | str (s : List Char)
  | date (d : Date)
  | time (t : Time)
  | dateTime (dt : DateTime)
  | ymDur (months : Int)
  | dtDur (nanos : Int)
  | list (xs : List FV)
  | ctx (es : List (List Char × FV))

/-- The kind skeleton of a value: what a reader of the answer has to know to read it back. -/
inductive FT where
  | null | bool | num | str | date | time | dateTime | ymDur | dtDur
  | list (ts : List FT)
  | ctx (ts : List FT)

mutual
/-- What `jsonify` distinguishes of a value: the temporal kinds are `other` with their `Display` text. -/
def FV.toJV : FV → JV
  | .null => .null
  | .bool b => .bool b
  | .num t => .num t
  | .str s => .str s
  | .date d => .other (printDate d)
  | .time t => .other (printTime t)
  | .dateTime dt => .other (printDateTime dt)
  | .ymDur n => .other (printYmDur n)
  | .dtDur n => .other (printDtDur n)
  | .list xs => .list (FV.toJVList xs)
  | .ctx es => .ctx (FV.toJVEntries es)
def FV.toJVList : List FV → List JV
  | [] => []
  | x :: xs => FV.toJV x :: FV.toJVList xs
def FV.toJVEntries : List (List Char × FV) → List (List Char × JV)
  | [] => []
  | (k, v) :: es => (k, FV.toJV v) :: FV.toJVEntries es
end

mutual
def FV.typeOf : FV → FT
  | .null => .null
  | .bool _ => .bool
  | .num _ => .num
  | .str _ => .str
  | .date _ => .date
  | .time _ => .time
  | .dateTime _ => .dateTime
  | .ymDur _ => .ymDur
  | .dtDur _ => .dtDur
  | .list xs => .list (FV.typeOfList xs)
  | .ctx es => .ctx (FV.typeOfEntries es)
def FV.typeOfList : List FV → List FT
  | [] => []
  | x :: xs => FV.typeOf x :: FV.typeOfList xs
def FV.typeOfEntries : List (List Char × FV) → List FT
  | [] => []
  | (_, v) :: es => FV.typeOf v :: FV.typeOfEntries es
end

mutual
/-- Reading a JSON document at a kind skeleton: strings at a temporal kind go through the readers
of C14's model (`date("…")`, `time("…")`, `date and time("…")`, `duration("…")`). -/
def readAt (zk : List Char → Bool) : FT → Json → Option FV
  | .null, j => match j with | .null => some .null | _ => none
  | .bool, j => match j with | .bool b => some (.bool b) | _ => none
  | .num, j => match j with | .num t => some (.num t) | _ => none
  | .str, j => match j with | .str s => some (.str s) | _ => none
  | .date, j => match j with | .str s => (parseDate s).map .date | _ => none
  | .time, j => match j with | .str s => (parseTime zk s).map .time | _ => none
  | .dateTime, j => match j with | .str s => (parseDateTime zk s).map .dateTime | _ => none
  | .ymDur, j =>
    match j with
    | .str s => (match bifDuration s with | .ymDur n => some (.ymDur n) | _ => none)
    | _ => none
  | .dtDur, j =>
    match j with
    | .str s => (match bifDuration s with | .dtDur n => some (.dtDur n) | _ => none)
    | _ => none
  | .list ts, j => match j with | .arr js => (readList zk ts js).map .list | _ => none
  | .ctx ts, j => match j with | .obj ms => (readEntries zk ts ms).map .ctx | _ => none
def readList (zk : List Char → Bool) : List FT → List Json → Option (List FV)
  | [], js => match js with | [] => some [] | _ => none
  | t :: ts, js =>
    match js with
    | j :: js =>
      (match readAt zk t j with
       | some v => (readList zk ts js).map (v :: ·)
       | none => none)
    | [] => none
def readEntries (zk : List Char → Bool) : List FT → List (List Char × Json) → Option (List (List Char × FV))
  | [], ms => match ms with | [] => some [] | _ => none
  | t :: ts, ms =>
    match ms with
    | (k, j) :: ms =>
      (match readAt zk t j with
       | some v => (readEntries zk ts ms).map ((k, v) :: ·)
       | none => none)
    | [] => none
end

mutual
/-- The temporal values inside are values of the kinds' domains: a date of the calendar, a time of
the day with a fraction below a second and a zone the reader knows, a duration within the range
its literals denote. -/
def FV.WF (zk : List Char → Bool) : FV → Prop
  | .date d => isValidDate d.y d.m d.d = true
  | .time t => isValidTime t.h t.mi t.s = true ∧ t.ns < 1000000000 ∧ ZoneReadable zk t.z
  | .dateTime dt => isValidDate dt.date.y dt.date.m dt.date.d = true ∧ isValidTime dt.time.h dt.time.mi dt.time.s = true ∧
      dt.time.ns < 1000000000 ∧ ZoneReadable zk dt.time.z
  | .ymDur n => i64Min < n ∧ n ≤ i64Max
  | .dtDur n => n.natAbs / 86400000000000 ≤ u64Max
  | .list xs => FV.WFList zk xs
  | .ctx es => FV.WFEntries zk es
  | _ => True
def FV.WFList (zk : List Char → Bool) : List FV → Prop
  | [] => True
  | x :: xs => FV.WF zk x ∧ FV.WFList zk xs
def FV.WFEntries (zk : List Char → Bool) : List (List Char × FV) → Prop
  | [] => True
  | (_, v) :: es => FV.WF zk v ∧ FV.WFEntries zk es
end

/-- The JSON document a value stands for, read at the value's kind skeleton, is the value. -/
theorem readAt_toJson (zk : List Char → Bool) (v : FV) : FV.WF zk v → readAt zk v.typeOf (toJson v.toJV) = some v := by
  refine FV.rec
    (motive_1 := fun v => FV.WF zk v → readAt zk v.typeOf (toJson v.toJV) = some v)
    (motive_2 := fun xs => FV.WFList zk xs → readList zk (FV.typeOfList xs) (toJsonList (FV.toJVList xs)) = some xs)
    (motive_3 := fun es => FV.WFEntries zk es →
      readEntries zk (FV.typeOfEntries es) (toJsonEntries (FV.toJVEntries es)) = some es)
    (motive_4 := fun e => FV.WF zk e.2 → readAt zk e.2.typeOf (toJson e.2.toJV) = some e.2)
    ?null ?bool ?num ?str ?date ?time ?dateTime ?ymDur ?dtDur ?list ?ctx ?nil ?cons ?enil ?econs ?pair v
  case null => intro _; simp [FV.typeOf, FV.toJV, toJson, readAt]
  case bool => intro b _; simp [FV.typeOf, FV.toJV, toJson, readAt]
  case num => intro t _; simp [FV.typeOf, FV.toJV, toJson, readAt]
  case str => intro s _; simp [FV.typeOf, FV.toJV, toJson, readAt]
  case date =>
    intro d h
    simp only [FV.WF] at h
    simp [FV.typeOf, FV.toJV, toJson, readAt, parseDate_printDate d h]
  case time =>
    intro t h
    simp only [FV.WF] at h
    simp [FV.typeOf, FV.toJV, toJson, readAt, parseTime_printTime zk t h.1 h.2.1 h.2.2]
  case dateTime =>
    intro dt h
    simp only [FV.WF] at h
    simp [FV.typeOf, FV.toJV, toJson, readAt, parseDateTime_printDateTime zk dt h.1 h.2.1 h.2.2.1 h.2.2.2]
  case ymDur =>
    intro n h
    simp only [FV.WF] at h
    simp [FV.typeOf, FV.toJV, toJson, readAt, bifDuration_printYmDur n h.1 h.2]
  case dtDur =>
    intro n h
    simp only [FV.WF] at h
    simp [FV.typeOf, FV.toJV, toJson, readAt, bifDuration_printDtDur n h]
  case list =>
    intro xs ih h
    simp only [FV.WF] at h
    simp [FV.typeOf, FV.toJV, toJson, readAt, ih h]
  case ctx =>
    intro es ih h
    simp only [FV.WF] at h
    simp [FV.typeOf, FV.toJV, toJson, readAt, ih h]
  case nil => intro _; simp [FV.typeOfList, FV.toJVList, toJsonList, readList]
  case cons =>
    intro x xs ihx ihxs h
    simp only [FV.WFList] at h
    simp [FV.typeOfList, FV.toJVList, toJsonList, readList, ihx h.1, ihxs h.2]
  case enil => intro _; simp [FV.typeOfEntries, FV.toJVEntries, toJsonEntries, readEntries]
  case econs =>
    intro e es ihe ihes h
    obtain ⟨k, v⟩ := e
    simp only [FV.WFEntries] at h
    simp [FV.typeOfEntries, FV.toJVEntries, toJsonEntries, readEntries, ihe h.1, ihes h.2]
  case pair => intro k v ih; exact ih

mutual
/-- The number texts of a value (the hypothesis of `jsonify_decodes`) are those of its rendering. -/
def FV.numbersOk : FV → Bool
  | .num t => isNumber t
  | .list xs => FV.numbersOkList xs
  | .ctx es => FV.numbersOkEntries es
  | _ => true
def FV.numbersOkList : List FV → Bool
  | [] => true
  | x :: xs => FV.numbersOk x && FV.numbersOkList xs
def FV.numbersOkEntries : List (List Char × FV) → Bool
  | [] => true
  | (_, v) :: es => FV.numbersOk v && FV.numbersOkEntries es
end

theorem numbersOk_toJV (v : FV) : Json.numbersOk v.toJV = v.numbersOk := by
  refine FV.rec
    (motive_1 := fun v => Json.numbersOk v.toJV = v.numbersOk)
    (motive_2 := fun xs => Json.numbersOkList (FV.toJVList xs) = FV.numbersOkList xs)
    (motive_3 := fun es => Json.numbersOkEntries (FV.toJVEntries es) = FV.numbersOkEntries es)
    (motive_4 := fun e => Json.numbersOk e.2.toJV = e.2.numbersOk)
    ?null ?bool ?num ?str ?date ?time ?dateTime ?ymDur ?dtDur ?list ?ctx ?nil ?cons ?enil ?econs ?pair v
  case null => rfl
  case bool => intro _; rfl
  case num => intro _; rfl
  case str => intro _; rfl
  case date => intro _; rfl
  case time => intro _; rfl
  case dateTime => intro _; rfl
  case ymDur => intro _; rfl
  case dtDur => intro _; rfl
  case list => intro xs ih; simp [FV.toJV, Json.numbersOk, FV.numbersOk, ih]
  case ctx => intro es ih; simp [FV.toJV, Json.numbersOk, FV.numbersOk, ih]
  case nil => rfl
  case cons => intro x xs ihx ihxs; simp [FV.toJVList, Json.numbersOkList, FV.numbersOkList, ihx, ihxs]
  case enil => rfl
  case econs =>
    intro e es ihe ihes
    obtain ⟨k, v⟩ := e
    simp [FV.toJVEntries, Json.numbersOkEntries, FV.numbersOkEntries, ihe, ihes]
  case pair => intro k v ih; exact ih

end Dmn.Server

namespace Dmn.Dto
open Dmn.Temporal Dmn.Cal

/-- The text readers of `dto.rs` for the temporal types, as C14 models them: `try_from_xsd_date`
… `try_from_xsd_duration` (years-and-months first) followed by `to_string()`. The readers of
number texts and of component names stay parameters (C07, C10). -/
def temporalReaders (zk : List Char → Bool) (number name : List Char → Option (List Char)) : Readers where
  number := number
  date := fun t => (parseDate t).map printDate
  time := fun t => (parseTime zk t).map printTime
  dateTime := fun t => (parseDateTime zk t).map printDateTime
  ymDuration := fun t => match parseYmDur t with | .ok n => some (printYmDur n) | _ => none
  dtDuration := fun t => match parseDtDur t with | .ok n => some (printDtDur n) | _ => none
  name := name

open Dmn.Server in
mutual
/-- The typed (TCK) form of a value: a temporal value is its kind and its `Display` text. -/
def ofFV : FV → TV
  | .null => .null
  | .bool b => .bool b
  | .num t => .scalar .number t
  | .str s => .str s
  | .date d => .scalar .date (printDate d)
  | .time t => .scalar .time (printTime t)
  | .dateTime dt => .scalar .dateTime (printDateTime dt)
  | .ymDur n => .scalar .ymDuration (printYmDur n)
  | .dtDur n => .scalar .dtDuration (printDtDur n)
  | .list xs => .list (ofFVList xs)
  | .ctx es => .ctx (ofFVEntries es)
def ofFVList : List FV → List TV
  | [] => []
  | x :: xs => ofFV x :: ofFVList xs
def ofFVEntries : List (List Char × FV) → List (List Char × TV)
  | [] => []
  | (k, v) :: es => (k, ofFV v) :: ofFVEntries es
end

open Dmn.Server in
mutual
/-- What is left to the parameters: number texts the number reader reads as themselves, component
names the name reader reads as themselves, pairwise distinct within a context. -/
def plainOk (number name : List Char → Option (List Char)) : FV → Bool
  | .num t => number t == some t
  | .list xs => plainOkList number name xs
  | .ctx es => plainOkEntries number name es
  | _ => true
def plainOkList (number name : List Char → Option (List Char)) : List FV → Bool
  | [] => true
  | x :: xs => plainOk number name x && plainOkList number name xs
def plainOkEntries (number name : List Char → Option (List Char)) : List (List Char × FV) → Bool
  | [] => true
  | (k, v) :: es => name k == some k && !(es.any (fun e => e.1 == k)) && plainOk number name v && plainOkEntries number name es
end

open Dmn.Server in
theorem any_key_ofFVEntries (es : List (List Char × FV)) (k : List Char) :
    (ofFVEntries es).any (fun e => e.1 == k) = es.any (fun e => e.1 == k) := by
  induction es with
  | nil => rfl
  | cons e es ih => obtain ⟨k', v⟩ := e; simp [ofFVEntries, ih]

open Dmn.Server in
/-- The typed form of every value whose temporal parts are values of their kinds is canonical for
C14's readers: each temporal text is read, by the reader of its type, as the value it was printed
from — and a days-and-time duration is not taken for a years-and-months duration. -/
theorem canonical_ofFV (zk : List Char → Bool) (number name : List Char → Option (List Char)) (v : FV) :
    FV.WF zk v → plainOk number name v = true → canonical (temporalReaders zk number name) (ofFV v) = true := by
  refine FV.rec
    (motive_1 := fun v => FV.WF zk v → plainOk number name v = true →
      canonical (temporalReaders zk number name) (ofFV v) = true)
    (motive_2 := fun xs => FV.WFList zk xs → plainOkList number name xs = true →
      canonicalList (temporalReaders zk number name) (ofFVList xs) = true)
    (motive_3 := fun es => FV.WFEntries zk es → plainOkEntries number name es = true →
      canonicalEntries (temporalReaders zk number name) (ofFVEntries es) = true)
    (motive_4 := fun e => FV.WF zk e.2 → plainOk number name e.2 = true →
      canonical (temporalReaders zk number name) (ofFV e.2) = true)
    ?null ?bool ?num ?str ?date ?time ?dateTime ?ymDur ?dtDur ?list ?ctx ?nil ?cons ?enil ?econs ?pair v
  case null => intro _ _; rfl
  case bool => intro _ _ _; rfl
  case num => intro t _ h; simpa [ofFV, canonical, temporalReaders, plainOk] using h
  case str => intro _ _ _; rfl
  case date =>
    intro d h _
    simp only [FV.WF] at h
    simp [ofFV, canonical, temporalReaders, parseDate_printDate d h]
  case time =>
    intro t h _
    simp only [FV.WF] at h
    simp [ofFV, canonical, temporalReaders, parseTime_printTime zk t h.1 h.2.1 h.2.2]
  case dateTime =>
    intro dt h _
    simp only [FV.WF] at h
    simp [ofFV, canonical, temporalReaders, parseDateTime_printDateTime zk dt h.1 h.2.1 h.2.2.1 h.2.2.2]
  case ymDur =>
    intro n h _
    simp only [FV.WF] at h
    simp [ofFV, canonical, temporalReaders, parseYmDur_printYmDur n h.1 h.2]
  case dtDur =>
    intro n h _
    simp only [FV.WF] at h
    simp [ofFV, canonical, temporalReaders, parseYmDur_printDtDur n, parseDtDur_printDtDur n h]
  case list =>
    intro xs ih h hp
    simp only [FV.WF] at h
    simp only [plainOk] at hp
    simp [ofFV, canonical, ih h hp]
  case ctx =>
    intro es ih h hp
    simp only [FV.WF] at h
    simp only [plainOk] at hp
    simp [ofFV, canonical, ih h hp]
  case nil => intro _ _; rfl
  case cons =>
    intro x xs ihx ihxs h hp
    simp only [FV.WFList] at h
    simp only [plainOkList, Bool.and_eq_true] at hp
    simp [ofFVList, canonicalList, ihx h.1 hp.1, ihxs h.2 hp.2]
  case enil => intro _ _; rfl
  case econs =>
    intro e es ihe ihes h hp
    obtain ⟨k, v⟩ := e
    simp only [FV.WFEntries] at h
    simp only [plainOkEntries, Bool.and_eq_true] at hp
    obtain ⟨⟨⟨hname, hfresh⟩, hv⟩, hes⟩ := hp
    simp only [ofFVEntries, canonicalEntries, Bool.and_eq_true]
    refine ⟨⟨⟨?_, ?_⟩, ihe h.1 hv⟩, ihes h.2 hes⟩
    · simpa [temporalReaders] using hname
    · rw [any_key_ofFVEntries]; exact hfresh
  case pair => intro k v ih; exact ih

end Dmn.Dto
