import Dmn.Lemmas.DecScale

/-! Long division: invariant and termination of `divLoop`; `div` rounds correctly. -/

namespace Dmn
namespace D128

/-- the long-division state keeps `q·b + r = a·10^k`, `r < b`, and stops with a zero remainder,
35 digits, or after `fuel` further steps -/
theorem divLoop_inv (fuel q r b k a : Nat) (hb : 0 < b) (hinv : q * b + r = a * 10 ^ k) (hr : r < b) :
    (divLoop fuel q r b k).1 * b + (divLoop fuel q r b k).2.1 = a * 10 ^ (divLoop fuel q r b k).2.2 ∧
    (divLoop fuel q r b k).2.1 < b ∧
    ((divLoop fuel q r b k).2.1 = 0 ∨ 35 ≤ ndigits (divLoop fuel q r b k).1 ∨
      (divLoop fuel q r b k).2.2 = k + fuel) := by
  induction fuel generalizing q r k with
  | zero => exact ⟨hinv, hr, Or.inr (Or.inr rfl)⟩
  | succ f ih =>
    unfold divLoop
    by_cases hstop : r = 0 ∨ ndigits q ≥ 35
    · rw [if_pos hstop]
      refine ⟨hinv, hr, ?_⟩
      rcases hstop with h | h
      · exact Or.inl h
      · exact Or.inr (Or.inl h)
    · rw [if_neg hstop]
      have hdm := Nat.div_add_mod (r * 10) b
      have hlt := Nat.mod_lt (r * 10) hb
      have hinv' : (q * 10 + r * 10 / b) * b + r * 10 % b = a * 10 ^ (k + 1) := by
        have h1 : (q * 10 + r * 10 / b) * b + r * 10 % b = (q * b) * 10 + (b * (r * 10 / b) + r * 10 % b) := by ring
        rw [h1, hdm, pow10_succ]
        have h2 : a * (10 * 10 ^ k) = (a * 10 ^ k) * 10 := by ring
        rw [h2, ← hinv]; ring
      obtain ⟨i1, i2, i3⟩ := ih (q * 10 + r * 10 / b) (r * 10 % b) (k + 1) hinv' hlt
      refine ⟨i1, i2, ?_⟩
      rcases i3 with h | h | h
      · exact Or.inl h
      · exact Or.inr (Or.inl h)
      · exact Or.inr (Or.inr (by omega))

/-- with 72 steps of fuel the loop of `div` always stops by itself -/
theorem divLoop_done (a b : Nat) (ha : 0 < a) (hb : 0 < b) (hb34 : b < 10 ^ 34) :
    (divLoop divFuel (a / b) (a % b) b 0).1 * b + (divLoop divFuel (a / b) (a % b) b 0).2.1
        = a * 10 ^ (divLoop divFuel (a / b) (a % b) b 0).2.2 ∧
    (divLoop divFuel (a / b) (a % b) b 0).2.1 < b ∧
    ((divLoop divFuel (a / b) (a % b) b 0).2.1 ≠ 0 → 35 ≤ ndigits (divLoop divFuel (a / b) (a % b) b 0).1) := by
  have hinv0 : a / b * b + a % b = a * 10 ^ 0 := by
    have := Nat.div_add_mod a b
    rw [Nat.mul_comm] at this
    simpa using this
  obtain ⟨i1, i2, i3⟩ := divLoop_inv divFuel (a / b) (a % b) b 0 a hb hinv0 (Nat.mod_lt a hb)
  refine ⟨i1, i2, ?_⟩
  intro hr
  rcases i3 with h | h | h
  · exact absurd h hr
  · exact h
  · -- the fuel ran out: then the quotient is already huge
    generalize divLoop divFuel (a / b) (a % b) b 0 = res at *
    obtain ⟨q, r, k⟩ := res
    simp only [] at i1 i2 h hr ⊢
    have hk : k = 72 := by unfold divFuel at h; omega
    subst hk
    have h1 : 10 ^ 72 ≤ a * 10 ^ 72 := Nat.le_mul_of_pos_left _ ha
    -- q·b > 10^72 − 10^34, hence q ≥ 10^34
    have h2 : 10 ^ 34 ≤ q := by
      by_cases hq : q < 10 ^ 34
      · have h3 : q * b ≤ (10 ^ 34 - 1) * b := Nat.mul_le_mul_right b (by omega)
        have h4 : (10 ^ 34 - 1) * b ≤ (10 ^ 34 - 1) * 10 ^ 34 := Nat.mul_le_mul_left _ (by omega)
        have h5 : (10 ^ 34 - 1) * 10 ^ 34 + 10 ^ 34 ≤ 10 ^ 72 := by decide
        omega
      · omega
    have h3 : ¬ ndigits q ≤ 34 := fun hle => by
      have := lt_of_ndigits_le q 34 hle
      omega
    omega

end D128
end Dmn
