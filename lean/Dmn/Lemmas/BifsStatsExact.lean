import Mathlib.Tactic.Ring
import Mathlib.Tactic.Linarith
import Dmn.Model.BifSpec

/-!
# Exact integer arithmetic inside the rounded operations (`+`, `-`, `*`)

`Rep d z`: the number `d` is the integer `z`, written with a non-negative exponent (`10`, `1E+1`
and `10.` all are 10).  While the exact result stays below `10^34` the rounded operations of
`FeelNumber` (`Dec.addR`, `Dec.subR`, `Dec.mulR`: exact result, rounding to 34 digits, reduction)
do not round: they return the exact integer.
-/

namespace Dmn
namespace Bif

/-- `d` is the integer `z`, written with a non-negative exponent -/
def Rep (d : Dec) (z : Int) : Prop := 0 ≤ d.exp ∧ d.scoeff * 10 ^ d.exp.toNat = z

theorem scoeff_natAbs (d : Dec) : d.scoeff.natAbs = d.coeff := by
  unfold Dec.scoeff; split <;> simp

theorem scoeff_ofSigned (s e : Int) : (Dec.ofSigned s e).scoeff = s := by
  unfold Dec.ofSigned Dec.scoeff
  by_cases h : s < 0
  · simp only [h, decide_true, if_true]
    rw [Int.ofNat_natAbs_of_nonpos (le_of_lt h)]; ring
  · simp only [h, decide_false, Bool.false_eq_true, if_false]
    exact Int.natAbs_of_nonneg (by omega)

theorem rep_ofInt (z : Int) : Rep (Dec.ofInt z) z := by
  refine ⟨Int.le_refl _, ?_⟩
  have : (Dec.ofInt z).scoeff = z := scoeff_ofSigned z 0
  show (Dec.ofInt z).scoeff * 10 ^ (0 : Int).toNat = z
  rw [this]; simp

theorem rep_ofNat (n : Nat) : Rep (Dec.ofNat n) n := by
  refine ⟨Int.le_refl _, ?_⟩
  show (Dec.ofNat n).scoeff * 10 ^ (0 : Int).toNat = n
  simp [Dec.ofNat, Dec.scoeff]

theorem rep_zero : Rep Dec.zero 0 := rep_ofNat 0
theorem rep_one : Rep Dec.one 1 := rep_ofNat 1

/-- the coefficient of a representation is not larger than the number -/
theorem rep_coeff_le {d : Dec} {z : Int} (h : Rep d z) : d.coeff ≤ z.natAbs := by
  obtain ⟨_, hv⟩ := h
  rw [← hv, Int.natAbs_mul, scoeff_natAbs, Int.natAbs_pow]
  exact Nat.le_mul_of_pos_right _ (Nat.pow_pos (by decide))

/-! ## reduce -/

theorem stripZeros_spec (fuel c : Nat) (e : Int) :
    ∃ t : Nat, c = (Dec.stripZeros fuel c e).1 * 10 ^ t ∧ (Dec.stripZeros fuel c e).2 = e + t := by
  induction fuel generalizing c e with
  | zero => exact ⟨0, by simp [Dec.stripZeros]⟩
  | succ f ih =>
    unfold Dec.stripZeros
    split
    · rename_i h
      obtain ⟨t, h1, h2⟩ := ih (c / 10) (e + 1)
      refine ⟨t + 1, ?_, ?_⟩
      · have hm : c % 10 = 0 := by
          simp only [Bool.and_eq_true, bne_iff_ne, ne_eq, beq_iff_eq] at h; exact h.2
        have hc : c = c / 10 * 10 := by omega
        calc c = c / 10 * 10 := hc
          _ = (Dec.stripZeros f (c / 10) (e + 1)).1 * 10 ^ t * 10 := by rw [← h1]
          _ = _ := by rw [Nat.pow_succ, Nat.mul_assoc]
      · rw [h2]; push_cast; ring
    · exact ⟨0, by simp⟩

theorem reduce_rep {d : Dec} {z : Int} (h : Rep d z) : Rep (Dec.reduce d) z := by
  obtain ⟨he, hv⟩ := h
  unfold Dec.reduce
  by_cases hc : (d.coeff == 0) = true
  · rw [if_pos hc]
    have hc0 : d.coeff = 0 := by simpa using hc
    refine ⟨Int.le_refl _, ?_⟩
    have : d.scoeff = 0 := by unfold Dec.scoeff; rw [hc0]; simp
    rw [this] at hv
    rw [← hv]
    unfold Dec.scoeff; simp
  · rw [if_neg hc]
    obtain ⟨t, h1, h2⟩ := stripZeros_spec 120 d.coeff d.exp
    generalize Dec.stripZeros 120 d.coeff d.exp = r at h1 h2
    obtain ⟨c', e'⟩ := r
    simp only at h1 h2 ⊢
    refine ⟨by show 0 ≤ e'; omega, ?_⟩
    show (Dec.scoeff ⟨d.neg, c', e'⟩) * 10 ^ e'.toNat = z
    have het : e'.toNat = d.exp.toNat + t := by omega
    rw [het, ← hv]
    unfold Dec.scoeff
    simp only
    rw [h1]
    split <;> (push_cast; ring)

/-! ## rounding does nothing below `10^34` -/

theorem digits_le_34 {c : Nat} (h : c < 10 ^ 34) : Dec.digits c ≤ 34 :=
  (Nat.length_toDigits_le_iff (by decide) (by decide)).mpr h

theorem round34_small (neg : Bool) (c : Nat) (e : Int) (h : c < 10 ^ 34) : Dec.round34 neg c e = ⟨neg, c, e⟩ := by
  unfold Dec.round34
  simp only
  rw [if_pos (digits_le_34 h)]

theorem round34_rep {d : Dec} {z : Int} (h : Rep d z) (hz : z.natAbs < 10 ^ 34) :
    Rep (Dec.round34 d.neg d.coeff d.exp) z := by
  rw [round34_small _ _ _ (Nat.lt_of_le_of_lt (rep_coeff_le h) hz)]
  exact h

/-! ## the exact operations -/

theorem pow_toNat_split {a e : Int} (he : e ≤ a) (h0 : 0 ≤ e) :
    (10 : Int) ^ (a - e).toNat * 10 ^ e.toNat = 10 ^ a.toNat := by
  rw [← pow_add]
  congr 1
  omega

theorem addExact_rep {a b : Dec} {x y : Int} (ha : Rep a x) (hb : Rep b y) : Rep (Dec.addExact a b) (x + y) := by
  obtain ⟨hae, hav⟩ := ha
  obtain ⟨hbe, hbv⟩ := hb
  unfold Dec.addExact Dec.align
  simp only
  have hmin0 : 0 ≤ min a.exp b.exp := by omega
  have key : (a.scoeff * 10 ^ (a.exp - min a.exp b.exp).toNat + b.scoeff * 10 ^ (b.exp - min a.exp b.exp).toNat)
      * 10 ^ (min a.exp b.exp).toNat = x + y := by
    rw [add_mul, mul_assoc, mul_assoc, pow_toNat_split (by omega) hmin0, pow_toNat_split (by omega) hmin0, hav, hbv]
  split
  · rename_i hs
    have hs0 : a.scoeff * 10 ^ (a.exp - min a.exp b.exp).toNat + b.scoeff * 10 ^ (b.exp - min a.exp b.exp).toNat = 0 := by
      simpa using hs
    refine ⟨hmin0, ?_⟩
    rw [hs0] at key
    rw [← key]
    simp [Dec.scoeff]
  · refine ⟨hmin0, ?_⟩
    show (Dec.ofSigned _ _).scoeff * 10 ^ (min a.exp b.exp).toNat = x + y
    rw [scoeff_ofSigned]
    exact key

theorem flip_rep {b : Dec} {y : Int} (hb : Rep b y) : Rep { b with neg := !b.neg } (-y) := by
  obtain ⟨hbe, hbv⟩ := hb
  refine ⟨hbe, ?_⟩
  show (Dec.scoeff { b with neg := !b.neg }) * 10 ^ b.exp.toNat = -y
  rw [← hbv]
  unfold Dec.scoeff
  cases b.neg <;> simp

theorem mulExact_rep {a b : Dec} {x y : Int} (ha : Rep a x) (hb : Rep b y) : Rep (Dec.mulExact a b) (x * y) := by
  obtain ⟨hae, hav⟩ := ha
  obtain ⟨hbe, hbv⟩ := hb
  unfold Dec.mulExact
  refine ⟨by show 0 ≤ a.exp + b.exp; omega, ?_⟩
  show Dec.scoeff ⟨a.neg != b.neg, a.coeff * b.coeff, a.exp + b.exp⟩ * 10 ^ (a.exp + b.exp).toNat = x * y
  have : (a.exp + b.exp).toNat = a.exp.toNat + b.exp.toNat := by omega
  rw [this, ← hav, ← hbv, pow_add]
  unfold Dec.scoeff
  cases a.neg <;> cases b.neg <;> simp <;> ring

/-! ## the rounded operations are exact on integers below `10^34` -/

theorem eta (d : Dec) : (⟨d.neg, d.coeff, d.exp⟩ : Dec) = d := by cases d; rfl

theorem addR_rep {a b : Dec} {x y : Int} (ha : Rep a x) (hb : Rep b y) (h : (x + y).natAbs < 10 ^ 34) :
    Rep (Dec.addR a b) (x + y) := by
  unfold Dec.addR
  exact reduce_rep (round34_rep (addExact_rep ha hb) h)

theorem subR_rep {a b : Dec} {x y : Int} (ha : Rep a x) (hb : Rep b y) (h : (x - y).natAbs < 10 ^ 34) :
    Rep (Dec.subR a b) (x - y) := by
  unfold Dec.subR
  have := addR_rep ha (flip_rep hb) (by rw [← sub_eq_add_neg]; exact h)
  rwa [← sub_eq_add_neg] at this

theorem mulR_rep {a b : Dec} {x y : Int} (ha : Rep a x) (hb : Rep b y) (h : (x * y).natAbs < 10 ^ 34) :
    Rep (Dec.mulR a b) (x * y) := by
  unfold Dec.mulR
  exact reduce_rep (round34_rep (mulExact_rep ha hb) h)

end Bif
end Dmn
