import Dmn.Lemmas.PlanePivot
import Dmn.Lemmas.PlaneBuild

/-!
# Orientation, hit policy and rule numbers of the planes of drawn tables
-/

namespace Dmn.Recog
open Outcome (ok error)

/-- What the decoration of a drawing must satisfy. -/
structure Decor.Ok (d : Decor) (t : TableSpec) : Prop where
  hp : hitPolicyOfText d.hp = some t.hitPolicy
  ruleNos_len : d.ruleNos.length = t.rules.length
  ruleNos : ∀ i (h : i < d.ruleNos.length), parseUsize (trim d.ruleNos[i]) = some (i + 1)
  blanks : d.split = true → d.annBlanks.length = t.annotations.length
  inBlanks : ∀ b ∈ d.inBlanks, (trim b).isEmpty = true
  outBlanks : ∀ b ∈ d.outBlanks, (trim b).isEmpty = true

/-! ## Generic list facts -/

theorem map_drop_zipWith : ∀ (A : List Cell) (B : List (List Cell)), A.length = B.length →
    (List.zipWith (· :: ·) A B).map (·.drop 1) = B
  | [], [], _ => rfl
  | [], _ :: _, h => by simp at h
  | _ :: _, [], h => by simp at h
  | a :: A, b :: B, h => by
    have := map_drop_zipWith A B (by simpa using h)
    simp only [List.zipWith_cons_cons, List.map_cons, this]
    simp

theorem map_head?_zipWith : ∀ (A : List Cell) (B : List (List Cell)), A.length = B.length →
    (List.zipWith (· :: ·) A B).map (·.head?) = A.map some
  | [], [], _ => rfl
  | [], _ :: _, h => by simp at h
  | _ :: _, [], h => by simp at h
  | a :: A, b :: B, h => by
    have := map_head?_zipWith A B (by simpa using h)
    simp only [List.zipWith_cons_cons, List.map_cons, this]
    simp

theorem mem_zipWith_cons : ∀ {A : List Cell} {B : List (List Cell)} {row : List Cell},
    row ∈ List.zipWith (· :: ·) A B → ∃ a b, a ∈ A ∧ b ∈ B ∧ row = a :: b
  | [], _, _, h => by simp at h
  | _ :: _, [], _, h => by simp at h
  | a :: A, b :: B, row, h => by
    simp only [List.zipWith_cons_cons, List.mem_cons] at h
    rcases h with h | h
    · exact ⟨a, b, by simp, by simp, h⟩
    · obtain ⟨a', b', ha, hb, hr⟩ := mem_zipWith_cons h
      exact ⟨a', b', by simp [ha], by simp [hb], hr⟩

/-! ## The numbering loop -/

theorem scanNumbers_regs (f : Nat → Nat) : ∀ (ts : List Text) (s mx : Nat),
    (∀ i (h : i < ts.length), parseUsize (trim ts[i]) = some (mx + i + 1)) →
    scanNumbers ((regsFrom f s ts).map some) mx =
      ok (if mx + ts.length > 0 then some (mx + ts.length) else none)
  | [], _, mx, _ => by simp [regsFrom, scanNumbers]
  | x :: ts, s, mx, h => by
    have h0 := h 0 (by simp)
    simp only [List.getElem_cons_zero, Nat.add_zero] at h0
    have ih := scanNumbers_regs f ts (s + 1) (mx + 1) (fun i hi => by
      have := h (i + 1) (by simp; omega)
      simp only [List.getElem_cons_succ] at this
      rw [this]; congr 1; omega)
    simp only [regsFrom, List.map_cons, scanNumbers, h0, ne_eq, not_true_eq_false, if_false, ih,
      List.length_cons]
    have : mx + 1 + ts.length = mx + (ts.length + 1) := by omega
    rw [this]

theorem scanNumbers_ruleNos {d : Decor} {t : TableSpec} (hd : d.Ok t) (hr : 0 < t.rules.length)
    (f : Nat → Nat) :
    scanNumbers ((regsFrom f 0 d.ruleNos).map some) 0 = ok (some t.rules.length) := by
  rw [scanNumbers_regs f d.ruleNos 0 0 (fun i hi => by rw [hd.ruleNos i hi]; simp)]
  have := hd.ruleNos_len
  simp [this, hr]

/-! ## Skipping to the double line -/

theorem skipToHOut_at : ∀ (rows : List (List Cell)) (i : Nat),
    (∀ j, j < i → ∃ c cs, rows[j]? = some (c :: cs) ∧ c.isHOut = false) →
    (∃ cs, rows[i]? = some (Cell.hOut :: cs)) →
    skipToHOut rows = ok (rows.drop (i + 1))
  | [], _, _, ⟨_, h⟩ => by simp at h
  | row :: rows, 0, _, ⟨cs, h⟩ => by
    simp only [List.getElem?_cons_zero, Option.some.injEq] at h
    subst h
    simp [skipToHOut, Cell.isHOut]
  | row :: rows, i + 1, hlt, ⟨cs, h⟩ => by
    obtain ⟨c, cs', h0, hc⟩ := hlt 0 (by omega)
    simp only [List.getElem?_cons_zero, Option.some.injEq] at h0
    subst h0
    simp only [skipToHOut, hc, Bool.false_eq_true, if_false]
    rw [skipToHOut_at rows i (fun j hj => by
      obtain ⟨c', cs'', h1, h2⟩ := hlt (j + 1) (by omega)
      exact ⟨c', cs'', by simpa using h1, h2⟩) ⟨cs, by simpa using h⟩]
    simp

theorem skipToVOut_skip : ∀ (A : List Cell) (N : List Cell), (∀ c ∈ A, c.isVOut = false) →
    skipToVOut (A ++ Cell.vOut :: N) = ok N
  | [], _, _ => by simp [skipToVOut, Cell.isVOut]
  | a :: A, N, h => by
    have ha : a.isVOut = false := h a (by simp)
    simp only [List.cons_append, skipToVOut, ha, Bool.false_eq_true, if_false]
    exact skipToVOut_skip A N (fun c hc => h c (by simp [hc]))

/-- a hit policy marker is not a number -/
theorem marker_not_number {x : Text} {h : HitPolicy} (hx : hitPolicyOfText x = some h) :
    parseUsize (trim x) = none := by
  unfold hitPolicyOfText at hx
  split at hx <;> first | (rename_i heq; rw [heq]; decide) | cases hx

/-- The numbering loop over cells that end with a cell that is not a number never finds rule
numbers: it stops with "not present" or with an invalid rule number. -/
theorem scanNumbers_stops : ∀ (cells : List (Option Cell)) (mx n : Nat) (x : Text)
    (rest : List (Option Cell)), (∀ c ∈ cells, c ≠ none) → parseUsize (trim x) = none →
    scanNumbers (cells ++ some (.region n x) :: rest) mx = ok none ∨
      ∃ e, scanNumbers (cells ++ some (.region n x) :: rest) mx = error e
  | [], mx, n, x, rest, _, hx => by simp [scanNumbers, hx]
  | none :: _, _, _, _, _, h, _ => absurd rfl (h none (by simp))
  | some c :: cells, mx, n, x, rest, h, hx => by
    cases c with
    | region k t =>
      simp only [List.cons_append, scanNumbers]
      split
      · split
        · exact Or.inr ⟨_, rfl⟩
        · exact scanNumbers_stops cells _ n x rest (fun c hc => h c (by simp [hc])) hx
      · exact Or.inl rfl
    | _ => simp [scanNumbers]

/-! ## The hit policy lane -/

section Lane
variable (ids : Ids) (d : Decor) (t : TableSpec)

theorem hpLane_eq : ∃ tl, hpLane ids d t = .region ids.hp d.hp :: tl := by
  unfold hpLane
  rw [List.replicate_succ]
  exact ⟨_, rfl⟩

theorem length_hpLane : (hpLane ids d t).length = (headerOf ids d t).length := by
  unfold hpLane headerOf
  cases t.hasLabelRow <;> cases t.hasValues <;> simp

theorem hpLane_regions : ∀ c ∈ hpLane ids d t, ∃ n x, c = .region n x := by
  intro c hc
  unfold hpLane at hc
  simp only [List.mem_append, List.mem_replicate] at hc
  rcases hc with hc | hc
  · exact ⟨_, _, hc.2⟩
  · split at hc
    · simp only [List.mem_singleton] at hc
      split at hc <;> exact ⟨_, _, hc⟩
    · simp at hc

theorem length_bodyH : (bodyH ids d t).length = (headerOf ids d t).length + 1 + t.rules.length := by
  simp [bodyH]; omega

end Lane


theorem skipToHOut_zip : ∀ (A : List Cell) (B1 : List (List Cell)) (N : List Cell) (b : List Cell)
    (B2 : List (List Cell)), A.length = B1.length → (∀ c ∈ A, c.isHOut = false) →
    skipToHOut (List.zipWith (· :: ·) (A ++ Cell.hOut :: N) (B1 ++ b :: B2)) =
      ok (List.zipWith (· :: ·) N B2)
  | [], [], N, b, B2, _, _ => by simp [skipToHOut, Cell.isHOut]
  | [], _ :: _, _, _, _, h, _ => by simp at h
  | _ :: _, [], _, _, _, h, _ => by simp at h
  | a :: A, b1 :: B1, N, b, B2, h, hA => by
    have ha : a.isHOut = false := hA a (by simp)
    simp only [List.cons_append, List.zipWith_cons_cons, skipToHOut, ha, Bool.false_eq_true, if_false]
    exact skipToHOut_zip A B1 N b B2 (by simpa using h) (fun c hc => hA c (by simp [hc]))

/-! ## Cells of the body -/

section BodyCells
variable (ids : Ids) (d : Decor) (t : TableSpec)

/-- cells of the double row -/
def Cell.dbl : Cell → Bool
  | .hOut => true
  | .mainX => true
  | .horzX => true
  | _ => false

theorem doubleRow_dbl : ∀ c ∈ doubleRow t, c.dbl = true := by
  intro c hc
  unfold doubleRow at hc
  simp only [List.mem_append, List.mem_cons, List.mem_replicate] at hc
  rcases hc with hc | hc | hc | hc
  · rw [hc.2]; rfl
  · rw [hc]; rfl
  · rw [hc.2]; rfl
  · split at hc
    · simp at hc
    · simp only [List.mem_cons, List.mem_replicate] at hc
      rcases hc with hc | hc
      · rw [hc]; rfl
      · rw [hc.2]; rfl

theorem bodyH_cells : ∀ row ∈ bodyH ids d t, ∀ c ∈ row, c.plain = true ∨ c.dbl = true := by
  intro row hr c hc
  unfold bodyH at hr
  simp only [List.mem_append, List.mem_cons] at hr
  rcases hr with hr | hr | hr
  · exact Or.inl ((headerOk ids d t).plain row hr c hc)
  · rw [hr] at hc; exact Or.inr (doubleRow_dbl t c hc)
  · exact Or.inl (plain_entryRowsFrom row hr c hc)

theorem bodyH_no_vertX : ∀ row ∈ bodyH ids d t, ∀ c ∈ row, c.isVertX = false := by
  intro row hr c hc
  rcases bodyH_cells ids d t row hr c hc with h | h
  · exact plain_not_vertX h
  · cases c <;> simp_all [Cell.dbl, Cell.isVertX]

end BodyCells

/-! ## Rules as rows -/

section Rows
variable (ids : Ids) (d : Decor) (t : TableSpec) (nm : Option Text)
  (hw : t.Wf) (hids : ids.Ok t.inputs.length t.outputs.length) (hd : d.Ok t)

include hd in
theorem planeRows_drop :
    (⟨nm, planeRows ids d t⟩ : Plane).removeFirstColumn = ⟨nm, bodyH ids d t⟩ := by
  unfold Plane.removeFirstColumn planeRows
  simp only
  rw [map_drop_zipWith]
  simp [length_hpLane, length_bodyH, hd.ruleNos_len]; omega

theorem planeRows_first : ∃ x y, planeRows ids d t = (Cell.region ids.hp d.hp :: x) :: y := by
  obtain ⟨tl, htl⟩ := hpLane_eq ids d t
  have hb : ∃ r0 rest, bodyH ids d t = r0 :: rest := by
    unfold bodyH headerOf
    cases t.hasLabelRow <;> exact ⟨_, _, by simp; exact ⟨rfl, rfl⟩⟩
  obtain ⟨r0, rest, hb⟩ := hb
  unfold planeRows
  rw [htl, hb]
  exact ⟨_, _, rfl⟩

include hw hd in
theorem rows_rn :
    recognizeRuleNumbersPlacement ⟨nm, planeRows ids d t⟩ = ok (.leftBelow t.rules.length) := by
  have hskip : skipToHOut (planeRows ids d t) =
      ok (List.zipWith (· :: ·) (regsFrom ids.ruleNo 0 d.ruleNos)
        (entryRowsFrom ids t.annotations.length 0 t.rules)) := by
    unfold planeRows bodyH
    apply skipToHOut_zip
    · exact length_hpLane ids d t
    · intro c hc
      obtain ⟨n, x, rfl⟩ := hpLane_regions ids d t c hc
      rfl
  have hheads : (List.zipWith (· :: ·) (regsFrom ids.ruleNo 0 d.ruleNos)
      (entryRowsFrom ids t.annotations.length 0 t.rules)).map (·.head?) =
      (regsFrom ids.ruleNo 0 d.ruleNos).map some :=
    map_head?_zipWith _ _ (by simp [hd.ruleNos_len])
  obtain ⟨x, y, hf⟩ := planeRows_first ids d t
  have hne : (planeRows ids d t).isEmpty = false := by rw [hf]; rfl
  have h1 : recognizeHorizontalRuleNumbers ⟨nm, planeRows ids d t⟩ = ok (.leftBelow t.rules.length) := by
    simp only [recognizeHorizontalRuleNumbers, hne, Bool.false_eq_true, if_false, hskip, hheads,
      scanNumbers_ruleNos hd hw.rules_pos ids.ruleNo]
  simp only [recognizeRuleNumbersPlacement, h1]

include hw hd in
theorem rows_hp : recognizeHitPolicyPlacement ⟨nm, planeRows ids d t⟩ = ok (.topLeft t.hitPolicy) := by
  obtain ⟨x, y, h⟩ := planeRows_first ids d t
  have hrn := rows_rn ids d t nm hw hd
  unfold recognizeHitPolicyPlacement
  rw [hrn]
  simp [h, hpOfCell, hd.hp]

theorem rows_no_vertX : (⟨nm, planeRows ids d t⟩ : Plane).verticalDoubleCrossing = none := by
  unfold Plane.verticalDoubleCrossing
  apply findCell_none
  intro row hr c hc
  obtain ⟨a, b, ha, hb, rfl⟩ := mem_zipWith_cons hr
  simp only [List.mem_cons] at hc
  rcases hc with hc | hc
  · subst hc
    simp only [List.mem_append, List.mem_cons] at ha
    rcases ha with ha | ha | ha
    · obtain ⟨n, x, rfl⟩ := hpLane_regions ids d t c ha; rfl
    · rw [ha]; rfl
    · obtain ⟨n, x, rfl⟩ := mem_regsFrom ha; rfl
  · exact bodyH_no_vertX ids d t b hb c hc

include hw hd in
theorem rows_orientation :
    recognizeOrientation ⟨nm, planeRows ids d t⟩ = ok ⟨t.hitPolicy, .ruleAsRow, t.rules.length⟩ := by
  simp only [recognizeOrientation, rows_hp ids d t nm hw hd, rows_rn ids d t nm hw hd,
    rows_no_vertX ids d t nm]
  cases (Plane.horizontalDoubleCrossing ⟨nm, planeRows ids d t⟩).isSome <;> simp

include hw hids hd in
/-- Round trip, rules as rows. -/
theorem recognizePlane_rows (ho : t.orientation = .ruleAsRow) (hnm : nm = t.infoName) :
    recognizePlane ⟨nm, planeRows ids d t⟩ = ok t := by
  subst hnm
  have h1 := rows_orientation ids d t t.infoName hw hd
  have h2 := planeRows_drop ids d t t.infoName hd
  have h3 := horz_bodyH ids d t t.infoName hw hids
  have h4 := buildTable_horzOf d t hw hd.inBlanks hd.outBlanks ⟨t.infoName, bodyH ids d t⟩
  rw [ho] at h4
  simp only [recognizePlane, recognizeComponents, h1, Outcome.ok_bind, h2, h3]
  exact h4

end Rows


/-! ## Rules as columns -/

theorem headD_drop : ∀ (l : List Cell) (j : Nat) (dflt : Cell), (l.drop j).headD dflt = (l[j]?).getD dflt
  | [], j, _ => by simp
  | _ :: _, 0, _ => by simp
  | _ :: l, j + 1, dflt => by simp

theorem getElem?_trPure : ∀ (w : Nat) (rows : List (List Cell)) (i : Nat), i < w →
    (trPure w rows)[i]? = some (rows.map (fun r => pivotCell ((r[i]?).getD .mainX)))
  | 0, _, _, h => by omega
  | w + 1, rows, 0, _ => by
    simp only [trPure, List.getElem?_cons_zero, Option.some.injEq]
    apply List.map_congr_left
    intro r _
    cases r <;> simp
  | w + 1, rows, i + 1, h => by
    simp only [trPure, List.getElem?_cons_succ]
    rw [getElem?_trPure w (rows.map List.tail) i (by omega)]
    simp only [List.map_map, Option.some.injEq]
    apply List.map_congr_left
    intro r _
    cases r <;> simp

theorem mem_trPure : ∀ (w : Nat) (rows : List (List Cell)), ∀ row ∈ trPure w rows, ∀ c ∈ row,
    c = Cell.mainX ∨ ∃ r ∈ rows, ∃ c' ∈ r, c = pivotCell c'
  | 0, _, row, h, _, _ => by simp [trPure] at h
  | w + 1, rows, row, h, c, hc => by
    simp only [trPure, List.mem_cons] at h
    rcases h with h | h
    · subst h
      simp only [List.mem_map] at hc
      obtain ⟨r, hr, rfl⟩ := hc
      cases r with
      | nil => left; rfl
      | cons x xs => right; exact ⟨x :: xs, hr, x, by simp, rfl⟩
    · rcases mem_trPure w (rows.map List.tail) row h c hc with h' | ⟨r, hr, c', hc', rfl⟩
      · exact Or.inl h'
      · simp only [List.mem_map] at hr
        obtain ⟨r0, hr0, rfl⟩ := hr
        exact Or.inr ⟨r0, hr0, c', List.mem_of_mem_tail hc', rfl⟩

section Cols
variable (ids : Ids) (d : Decor) (t : TableSpec) (nm : Option Text)
  (hw : t.Wf) (hids : ids.Ok t.inputs.length t.outputs.length) (hd : d.Ok t)

include hw hd in
theorem rect_bodyH : Rectangular (bodyWidth t) (bodyH ids d t) := by
  intro row hr
  unfold bodyH headerOf at hr
  simp only [List.mem_append, List.mem_cons] at hr
  unfold bodyWidth
  rcases hr with (hr | hr | hr) | hr | hr
  · split at hr
    · simp only [List.mem_singleton] at hr
      subst hr
      simp [labelRow, len_exprs]
    · simp at hr
  · subst hr
    unfold nameRow
    by_cases h1 : t.outputs.length = 1
    · simp [h1, len_exprs]
    · simp [h1, len_exprs, len_names]
  · split at hr
    · simp only [List.mem_singleton] at hr
      subst hr
      unfold valuesRow
      by_cases hs : d.split = true
      · simp [hs, len_ivals, len_ovals, hd.blanks hs]
      · simp [hs, len_ivals, len_ovals]
    · simp at hr
  · subst hr
    unfold doubleRow
    split <;> simp <;> omega
  · have : ∀ (s : Nat) (rs : List Rule), (∀ r ∈ rs, r ∈ t.rules) →
        ∀ row ∈ entryRowsFrom ids t.annotations.length s rs, row.length =
          t.inputs.length + 1 + t.outputs.length +
            (if t.annotations.length = 0 then 0 else 1 + t.annotations.length) := by
      intro s rs
      induction rs generalizing s with
      | nil => intro _ row h; simp [entryRowsFrom] at h
      | cons r rs ih =>
        intro hsub row h
        simp only [entryRowsFrom, List.mem_cons] at h
        rcases h with h | h
        · subst h
          have hr := hsub r (by simp)
          simp [hw.rule_ins r hr, hw.rule_outs r hr, hw.rule_anns r hr]
        · exact ih (s + 1) (fun r' hr' => hsub r' (by simp [hr'])) row h
    exact this 0 t.rules (fun _ h => h) row hr

theorem bodyWidth_pos : 0 < bodyWidth t := by unfold bodyWidth; omega

/-- the first row of the body: input expressions ‖ the first output lane ‖ annotations -/
theorem bodyH_row0 (hm : 0 < t.outputs.length) : ∃ X rest, X.length = t.outputs.length ∧
    bodyH ids d t = mkRow t.annotations.length (regsFrom ids.expr 0 t.exprs) X
      (regsFrom ids.ann 0 t.annotations) :: rest ∧
    (∃ n, X[0]? = some (.region n
      (if t.outputs.length = 1 ∨ t.hasLabelRow = true then t.labelText else t.names.headD []))) := by
  unfold bodyH headerOf
  cases hL : t.hasLabelRow
  · by_cases h1 : t.outputs.length = 1
    · exact ⟨[.region ids.label t.labelText], (if t.hasValues = true then [valuesRow ids d t] else []) ++
        doubleRow t :: entryRowsFrom ids t.annotations.length 0 t.rules, by simp [h1],
        by simp [nameRow, h1], ids.label, by simp [h1]⟩
    · have hn : 0 < t.names.length := by rw [len_names]; exact hm
      refine ⟨regsFrom ids.comp 0 t.names, (if t.hasValues = true then [valuesRow ids d t] else []) ++
        doubleRow t :: entryRowsFrom ids t.annotations.length 0 t.rules, by simp [len_names],
        by simp [nameRow, h1], ids.comp 0, ?_⟩
      cases hq : t.names with
      | nil => rw [hq] at hn; simp at hn
      | cons x xs => simp [regsFrom, h1]
  · exact ⟨List.replicate t.outputs.length (.region ids.label t.labelText),
      nameRow ids t :: ((if t.hasValues = true then [valuesRow ids d t] else []) ++
        doubleRow t :: entryRowsFrom ids t.annotations.length 0 t.rules), by simp,
      by simp [labelRow], ids.label, by simp [hm]⟩

include hw in
theorem planeCols_first : ∃ x y, planeCols ids d t =
    (Cell.region (ids.expr 0) (t.exprs.headD []) :: x) :: y := by
  obtain ⟨X, rest, _, hb, _⟩ := bodyH_row0 ids d t hw.outputs_pos
  obtain ⟨w, hw'⟩ : ∃ w, bodyWidth t = w + 1 := ⟨bodyWidth t - 1, by have := bodyWidth_pos t; omega⟩
  have hx : 0 < t.exprs.length := by rw [len_exprs]; exact hw.inputs_pos
  cases he : t.exprs with
  | nil => rw [he] at hx; simp at hx
  | cons e es =>
    unfold planeCols
    rw [hw', hb, he]
    simp only [trPure, mkRow, regsFrom, List.map_cons, List.cons_append, List.headD_cons, pivotCell]
    exact ⟨_, _, rfl⟩

theorem planeCols_last : (planeCols ids d t).getLast? =
    some (hpLane ids d t ++ Cell.vOut :: regsFrom ids.ruleNo 0 d.ruleNos) := by
  simp [planeCols]

theorem trPure_rows_nonempty : ∀ (w : Nat) (rows : List (List Cell)), rows ≠ [] →
    ∀ row ∈ trPure w rows, row ≠ [] := by
  intro w rows hne row hr h
  have := rectangular_trPure w rows row hr
  rw [h] at this
  exact hne (List.eq_nil_of_length_eq_zero this.symm)

include hw hd in
theorem cols_rn :
    recognizeRuleNumbersPlacement ⟨nm, planeCols ids d t⟩ = ok (.rightAfter t.rules.length) := by
  obtain ⟨X, rest, hX, hb, n0, hX0⟩ := bodyH_row0 ids d t hw.outputs_pos
  have hwd : t.inputs.length + 1 + 1 ≤ bodyWidth t := by
    unfold bodyWidth; have := hw.outputs_pos; omega
  -- the first cells of the rows of the plane are the pivoted cells of the first body row
  have hrow : ∀ j, j < bodyWidth t → ∃ cs, (planeCols ids d t)[j]? =
      some (pivotCell (((mkRow t.annotations.length (regsFrom ids.expr 0 t.exprs) X
        (regsFrom ids.ann 0 t.annotations))[j]?).getD .mainX) :: cs) := by
    intro j hj
    unfold planeCols
    rw [List.getElem?_append_left (by simpa using hj), getElem?_trPure _ _ _ hj, hb]
    exact ⟨_, rfl⟩
  have hskip : skipToHOut (planeCols ids d t) = ok ((planeCols ids d t).drop (t.inputs.length + 1)) := by
    apply skipToHOut_at
    · intro j hj
      obtain ⟨cs, h⟩ := hrow j (by omega)
      have hj' : j < t.exprs.length := by rw [len_exprs]; exact hj
      rw [mkRow_in _ _ _ _ _ (by simpa using hj'), getElem?_regsFrom_lt _ _ _ _ hj'] at h
      exact ⟨_, cs, h, rfl⟩
    · obtain ⟨cs, h⟩ := hrow t.inputs.length (by omega)
      have := mkRow_sep t.annotations.length (regsFrom ids.expr 0 t.exprs) X
        (regsFrom ids.ann 0 t.annotations)
      rw [length_regsFrom, len_exprs] at this
      rw [this] at h
      exact ⟨cs, h⟩
  -- the first column below the double line ends with the hit policy cell
  obtain ⟨tl, htl⟩ := hpLane_eq ids d t
  have hbne : bodyH ids d t ≠ [] := by rw [hb]; simp
  have hdrop : (planeCols ids d t).drop (t.inputs.length + 1) =
      (trPure (bodyWidth t) (bodyH ids d t)).drop (t.inputs.length + 1) ++
        [Cell.region ids.hp d.hp :: (tl ++ Cell.vOut :: regsFrom ids.ruleNo 0 d.ruleNos)] := by
    unfold planeCols
    rw [List.drop_append_of_le_length (by simp; omega), htl]
    rfl
  have hheads : ((planeCols ids d t).drop (t.inputs.length + 1)).map (·.head?) =
      ((trPure (bodyWidth t) (bodyH ids d t)).drop (t.inputs.length + 1)).map (·.head?) ++
        some (Cell.region ids.hp d.hp) :: [] := by
    rw [hdrop]; simp
  have hsome : ∀ c ∈ ((trPure (bodyWidth t) (bodyH ids d t)).drop (t.inputs.length + 1)).map (·.head?),
      c ≠ none := by
    intro c hc
    simp only [List.mem_map] at hc
    obtain ⟨row, hrow', rfl⟩ := hc
    have := trPure_rows_nonempty _ _ hbne row (List.mem_of_mem_drop hrow')
    cases row with
    | nil => exact absurd rfl this
    | cons a as => simp
  have hne : (planeCols ids d t).isEmpty = false := by simp [planeCols]
  have h1 : recognizeHorizontalRuleNumbers ⟨nm, planeCols ids d t⟩ = ok .notPresent ∨
      ∃ e, recognizeHorizontalRuleNumbers ⟨nm, planeCols ids d t⟩ = error e := by
    simp only [recognizeHorizontalRuleNumbers, hne, Bool.false_eq_true, if_false, hskip, hheads]
    rcases scanNumbers_stops _ 0 ids.hp d.hp [] hsome (marker_not_number hd.hp) with h | ⟨e, h⟩
    · left; rw [h]
    · right; exact ⟨e, by rw [h]⟩
  have h2 : recognizeVerticalRuleNumbers ⟨nm, planeCols ids d t⟩ = ok (.rightAfter t.rules.length) := by
    have hsk : skipToVOut (hpLane ids d t ++ Cell.vOut :: regsFrom ids.ruleNo 0 d.ruleNos) =
        ok (regsFrom ids.ruleNo 0 d.ruleNos) := by
      apply skipToVOut_skip
      intro c hc
      obtain ⟨n, x, rfl⟩ := hpLane_regions ids d t c hc
      rfl
    simp only [recognizeVerticalRuleNumbers, planeCols_last, hsk,
      scanNumbers_ruleNos hd hw.rules_pos ids.ruleNo]
  rcases h1 with h1 | ⟨e, h1⟩
  · simp only [recognizeRuleNumbersPlacement, h1, h2]
  · simp only [recognizeRuleNumbersPlacement, h1, h2]

include hw hd in
theorem cols_hp :
    recognizeHitPolicyPlacement ⟨nm, planeCols ids d t⟩ = ok (.bottomLeft t.hitPolicy) := by
  obtain ⟨x, y, h⟩ := planeCols_first ids d t hw
  obtain ⟨tl, htl⟩ := hpLane_eq ids d t
  have hlast := planeCols_last ids d t
  rw [h, htl] at hlast
  have hrn := cols_rn ids d t nm hw hd
  unfold recognizeHitPolicyPlacement
  rw [hrn]
  simp only [h, if_true, hlast]
  simp [hpOfCell, hd.hp]

theorem cols_no_horzX : (⟨nm, planeCols ids d t⟩ : Plane).horizontalDoubleCrossing = none := by
  unfold Plane.horizontalDoubleCrossing
  apply findCell_none
  intro row hr c hc
  unfold planeCols at hr
  simp only [List.mem_append, List.mem_singleton] at hr
  rcases hr with hr | hr
  · rcases mem_trPure _ _ row hr c hc with h | ⟨r, hr', c', hc', rfl⟩
    · rw [h]; rfl
    · rcases bodyH_cells ids d t r hr' c' hc' with h | h
      · cases c' <;> simp_all [Cell.plain, Cell.isHorzX, pivotCell]
      · cases c' <;> simp_all [Cell.dbl, Cell.isHorzX, pivotCell]
  · subst hr
    simp only [List.mem_append, List.mem_cons] at hc
    rcases hc with hc | hc | hc
    · obtain ⟨n, x, rfl⟩ := hpLane_regions ids d t c hc; rfl
    · rw [hc]; rfl
    · obtain ⟨n, x, rfl⟩ := mem_regsFrom hc; rfl

include hw hd in
theorem cols_orientation :
    recognizeOrientation ⟨nm, planeCols ids d t⟩ =
      ok ⟨t.hitPolicy, .ruleAsColumn, t.rules.length⟩ := by
  simp only [recognizeOrientation, cols_hp ids d t nm hw hd, cols_rn ids d t nm hw hd,
    cols_no_horzX ids d t nm]
  cases (Plane.verticalDoubleCrossing ⟨nm, planeCols ids d t⟩).isSome <;> simp

include hw hd in
theorem planeCols_pivot :
    (⟨nm, planeCols ids d t⟩ : Plane).removeLastRow.pivot = ok ⟨nm, bodyH ids d t⟩ := by
  simp only [Plane.removeLastRow, Plane.pivot, planeCols, List.dropLast_concat,
    pivotRows_trPure (rect_bodyH ids d t hw hd) (bodyWidth_pos t)]

include hw hids hd in
/-- Round trip, rules as columns. -/
theorem recognizePlane_cols (ho : t.orientation = .ruleAsColumn) (hnm : nm = t.infoName) :
    recognizePlane ⟨nm, planeCols ids d t⟩ = ok t := by
  subst hnm
  have h1 := cols_orientation ids d t t.infoName hw hd
  have h2 := planeCols_pivot ids d t t.infoName hw hd
  have h3 := horz_bodyH ids d t t.infoName hw hids
  have h4 := buildTable_horzOf d t hw hd.inBlanks hd.outBlanks ⟨t.infoName, bodyH ids d t⟩
  rw [ho] at h4
  simp only [recognizePlane, recognizeComponents, h1, Outcome.ok_bind, h2, h3]
  exact h4

end Cols


/-! ## The scanning-order region numbers satisfy `Ids.Ok` -/

theorem idsRows_ok (d : Decor) (t : TableSpec) (hw : t.Wf) :
    (idsRows d t).Ok t.inputs.length t.outputs.length := by
  have hn := hw.inputs_pos
  have hm := hw.outputs_pos
  constructor
  · intro j _
    simp only [idsRows]
    cases t.hasLabelRow <;> cases t.hasValues <;> simp <;> omega
  · intro _
    simp only [idsRows]
    cases t.hasLabelRow <;> cases t.hasValues <;> simp <;> omega
  · intro _
    simp only [idsRows]
    cases t.hasLabelRow <;> simp
  · intro _ j _
    simp only [idsRows]
    cases t.hasLabelRow <;> cases t.hasValues <;> simp <;> omega

theorem idsCols_ok (d : Decor) (t : TableSpec) :
    (idsCols d t).Ok t.inputs.length t.outputs.length := by
  constructor
  · intro j _
    simp only [idsCols]
    omega
  · intro _
    simp only [idsCols]
    omega
  · intro _
    simp only [idsCols]
    omega
  · intro _ j _
    simp only [idsCols]
    omega

end Dmn.Recog
