import Dmn.Lemmas.CanvasMarksA

/-!
# The marks of a drawn sheet, part B: the double lines; crossings and body rectangle
-/

namespace Dmn.Recog
open Scan (ok error)

section
variable {s : Sheet} {name : Option Text} {boxRight : Nat} {bc0 br0 : Nat} {bc1 br1 : Option Nat}

/-- along a double row, strictly between the borders: a vertex of the row, or `═` -/
theorem row_dbl (hf : SheetFits s name boxRight) (g : DoubleGrid s bc0 br0 bc1 br1) {br : Nat}
    (hh : s.hDbl br = true) (x' : Nat) (h0 : 0 < x') (h1 : x' < s.xPos s.ncols) :
    (∃ bc, 0 < bc ∧ bc < s.ncols ∧ x' = s.xPos bc ∧
      T s name boxRight (boxLines name + s.yPos br) x' = s.vch br bc) ∨
    T s name boxRight (boxLines name + s.yPos br) x' = '═' := by
  have hb := g.hDbl_pos hh
  rcases s.line_locate x' (by omega) with ⟨bc, hbc, rfl⟩ | ⟨c, i, hc, hi, rfl⟩
  · left
    refine ⟨bc, ?_, ?_, rfl, sheetCanvas_vertex s name boxRight hf br bc hb.1 (by omega) hbc⟩
    · cases bc with
      | zero => simp [xPos_zero] at h0
      | succ b => omega
    · by_cases he : bc = s.ncols
      · subst he; omega
      · omega
  · right
    have := (sheetCanvas_hseg s name boxRight hf br c i hb.1 (by omega) hc hi).1 (g.hline br hh c)
    rw [hh] at this
    exact this

/-- along a double column, strictly between the borders: a vertex of the column, or `║` -/
theorem col_dbl (hf : SheetFits s name boxRight) (g : DoubleGrid s bc0 br0 bc1 br1) {bc : Nat}
    (hv : s.vDbl bc = true) (j : Nat) (h0 : 0 < j) (h1 : j < s.yPos s.nrows) :
    (∃ br, 0 < br ∧ br < s.nrows ∧ j = s.yPos br ∧
      T s name boxRight (boxLines name + j) (s.xPos bc) = s.vch br bc) ∨
    T s name boxRight (boxLines name + j) (s.xPos bc) = '║' := by
  have hb := g.vDbl_pos hv
  rcases s.render_locate j (by omega) with ⟨br, hbr, rfl⟩ | ⟨r, l, hr, hl, rfl⟩
  · left
    have hbr0 : 0 < br := by
      cases br with
      | zero => simp [yPos_zero] at h0
      | succ b => omega
    refine ⟨br, hbr0, ?_, rfl, sheetCanvas_vertex s name boxRight hf br bc hbr0 hbr (by omega)⟩
    by_cases he : br = s.nrows
    · subst he; omega
    · omega
  · right
    have := (sheetCanvas_sep s name boxRight hf r l bc hr hl (by omega)).1 (Or.inr (g.vline bc hv r))
    rw [hv] at this
    exact this

theorem of_mem4 {a b c d ch : Char} (h : [a, b, c, d].contains ch = true) :
    ch = a ∨ ch = b ∨ ch = c ∨ ch = d := by simpa using h

/-- where a `╬` stands -/
theorem cross_only (hf : SheetFits s name boxRight) (g : DoubleGrid s bc0 br0 bc1 br1) (y x : Nat)
    (hy : y < boxLines name + s.yPos s.nrows + 2) (hx : x < s.xPos s.ncols + 1)
    (h : T s name boxRight y x = '╬') :
    ∃ br bc, s.hDbl br = true ∧ s.vDbl bc = true ∧ y = boxLines name + s.yPos br ∧ x = s.xPos bc := by
  obtain ⟨br, bc, _, _, hy', hx', hv⟩ := special_at_vertex s name boxRight hf '╬' special_cross y x hy hx h
  obtain ⟨h1, h2⟩ := g.of_vch_cross hf.texts hv
  exact ⟨br, bc, h2, h1, hy', hx'⟩

theorem not_cross (ch : Char) (h : ch ≠ '╬') : ['╬'].contains ch = false := contains_one_false _ _ h

theorem vDbl_ge (g : DoubleGrid s bc0 br0 bc1 br1) {b : Nat} (h : s.vDbl b = true) : bc0 ≤ b := by
  rcases (g.vdbl b).mp h with rfl | h1
  · exact Nat.le_refl _
  · have := g.hbc1 b h1; omega

theorem hDbl_ge (g : DoubleGrid s bc0 br0 bc1 br1) {b : Nat} (h : s.hDbl b = true) : br0 ≤ b := by
  rcases (g.hdbl b).mp h with rfl | h1
  · exact Nat.le_refl _
  · have := g.hbr1 b h1; omega

theorem vDbl_bc0 (g : DoubleGrid s bc0 br0 bc1 br1) : s.vDbl bc0 = true := (g.vdbl bc0).mpr (Or.inl rfl)
theorem hDbl_br0 (g : DoubleGrid s bc0 br0 bc1 br1) : s.hDbl br0 = true := (g.hdbl br0).mpr (Or.inl rfl)

theorem cross_at (hf : SheetFits s name boxRight) (g : DoubleGrid s bc0 br0 bc1 br1) {br bc : Nat}
    (hh : s.hDbl br = true) (hv : s.vDbl bc = true) :
    T s name boxRight (boxLines name + s.yPos br) (s.xPos bc) = '╬' := by
  have h1 := g.hDbl_pos hh
  have h2 := g.vDbl_pos hv
  rw [show T s name boxRight _ _ = _ from
    sheetCanvas_vertex s name boxRight hf br bc h1.1 (by omega) (by omega)]
  exact g.vch_cross hv hh

/-- the bounds of the main crossing inside the canvas -/
theorem cross_bounds (g : DoubleGrid s bc0 br0 bc1 br1) :
    boxLines name + s.yPos br0 < boxLines name + s.yPos s.nrows + 2 ∧
    s.xPos bc0 < s.xPos s.ncols + 1 := by
  have := yPos_le s (show br0 ≤ s.nrows by have := g.hbr0; omega)
  have := xPos_le s (show bc0 ≤ s.ncols by have := g.hbc0; omega)
  omega

/-- **the first `╬` in reading order is where the main double lines cross** -/
theorem search_cross (hf : SheetFits s name boxRight) (g : DoubleGrid s bc0 br0 bc1 br1) :
    search (sheetCanvas s name boxRight) ⟨0, 0⟩ .text ['╬'] =
      ok ('╬', ⟨s.xPos bc0, boxLines name + s.yPos br0⟩) := by
  have sh := sheetCanvas_shape s name boxRight hf
  obtain ⟨hyb, hxb⟩ := cross_bounds (name := name) g
  have hat := cross_at hf g (hDbl_br0 g) (vDbl_bc0 g)
  have := search_first sh .text ['╬'] (s.xPos bc0) (boxLines name + s.yPos br0) hyb hxb
    (by rw [show chOf _ _ _ _ = _ from hat]; decide)
    (by
      intro x' hx'
      apply not_cross
      intro hc
      obtain ⟨br, bc, hh, hv, hy, hx⟩ := cross_only hf g _ x' hyb (by omega) hc
      subst hx
      have hle : s.xPos bc0 ≤ s.xPos bc := by
        rw [Sheet.xPos_eq, Sheet.xPos_eq]; exact sumTo_mono _ (vDbl_ge g hv)
      omega)
    (by
      intro y' x' hy' hx'
      apply not_cross
      intro hc
      obtain ⟨br, bc, hh, hv, hy, hx⟩ := cross_only hf g y' x' (by omega) hx' hc
      have hle : s.yPos br0 ≤ s.yPos br := by
        rw [Sheet.yPos_eq, Sheet.yPos_eq]; exact sumTo_mono _ (hDbl_ge g hh)
      omega)
  rw [this, show chOf _ _ _ _ = _ from hat]

end

end Dmn.Recog
