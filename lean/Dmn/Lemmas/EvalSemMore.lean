import Dmn.Model.Eval
import Dmn.Lemmas.EvalM
import Dmn.Lemmas.EvalSemLoops

/-!
# More closed forms: prefixes of the result of a `for`, lists of items, formal parameters, segments

Helper lemmas for `Props/C01.lean` (the value of `partial` in iteration k; list-like nodes; function
definitions; qualified names).
-/

namespace Dmn.Eval
open EvalM Value

/-! ## the results of a `for`, by prefixes -/

theorem forFold_append (bv : Ctx → List Value → Value) (cs1 cs2 : List Ctx) (results : List Value) :
    forFold bv (cs1 ++ cs2) results = forFold bv cs2 (forFold bv cs1 results) := by
  induction cs1 generalizing results with
  | nil => rfl
  | cons c cs ih => simp only [List.cons_append, forFold, ih]

theorem forFold_prefix (bv : Ctx → List Value → Value) (cs : List Ctx) (results : List Value) :
    results <+: forFold bv cs results := by
  induction cs generalizing results with
  | nil => exact List.prefix_refl _
  | cons c cs ih =>
    simp only [forFold]
    exact List.IsPrefix.trans (List.prefix_append _ _) (ih _)

theorem forFold_take (bv : Ctx → List Value → Value) (pre post : List Ctx) :
    (forFold bv (pre ++ post) []).take pre.length = forFold bv pre [] := by
  rw [forFold_append]
  have h := forFold_prefix bv post (forFold bv pre [])
  have hl : (forFold bv pre []).length = pre.length := by rw [forFold_length]; simp
  rw [List.prefix_iff_eq_take] at h
  rw [hl] at h
  exact h.symm

theorem forFold_item (bv : Ctx → List Value → Value) (pre : List Ctx) (c : Ctx) (post : List Ctx) :
    (forFold bv (pre ++ c :: post) [])[pre.length]? = some (bv c (forFold bv pre [])) := by
  rw [forFold_append]
  simp only [forFold]
  have h := forFold_prefix bv post (forFold bv pre [] ++ [bv c (forFold bv pre [])])
  obtain ⟨t, ht⟩ := h
  have hl : (forFold bv pre []).length = pre.length := by rw [forFold_length]; simp
  rw [← ht, List.append_assoc, List.getElem?_append_right (by omega), hl]
  simp

/-! ## list-like nodes -/

variable (env : Env)

/-- the items of a list-like node are evaluated left to right, each in the scope of the node -/
theorem evalList_map (xs : List Ast) (s : Scope) (f : Ast → Value)
    (h : ∀ x ∈ xs, evalStep env x s = .ok (f x, s)) : evalList env xs s = .ok (xs.map f, s) := by
  induction xs with
  | nil => rfl
  | cons x xs ih =>
    have h1 := h x List.mem_cons_self
    have h2 := ih (fun y hy => h y (List.mem_cons_of_mem _ hy))
    simp only [evalList, bind_def, h1, h2, pure_def, List.map_cons]

/-- the syntax of a formal parameter `n : t` -/
def paramAst (p : String × FType) : Ast := .formalParameter (.parameterName p.1) (.feelType p.2)

theorem evalList_params (ps : List (String × FType)) (s : Scope) :
    evalList env (ps.map paramAst) s = .ok (ps.map (fun p => Value.formalParam p.1 p.2), s) := by
  induction ps with
  | nil => rfl
  | cons p ps ih =>
    have h1 : evalStep env (paramAst p) s = .ok (Value.formalParam p.1 p.2, s) := by
      simp only [paramAst, evalStep, bind_def, pure_def]
    simp only [List.map_cons, evalList, bind_def, h1, ih, pure_def]

theorem evalList_segments (segs : List String) (s : Scope) :
    evalList env (segs.map Ast.qualifiedNameSegment) s = .ok (segs.map Value.qnSegment, s) := by
  induction segs with
  | nil => rfl
  | cons n segs ih => simp only [List.map_cons, evalList, bind_def, evalStep, pure_def, ih]

end Dmn.Eval
