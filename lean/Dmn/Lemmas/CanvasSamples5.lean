import Dmn.Lemmas.CanvasSamples
import Dmn.Lemmas.CanvasGridDefs

/-! # `fitsExactB` on the sample tables: the layouts `autoLayout` computes satisfy it, a layout one
position wider does not -/

namespace Dmn.Recog

theorem sample_fits_exact :
    (let l := laidOut tinyDecor (tinyNamed .ruleAsRow); fitsExactB l.1 l.2.2 l.2.1 = true) ∧
    (let l := laidOut tinyDecor (tinyNamed .ruleAsColumn); fitsExactB l.1 l.2.2 l.2.1 = true) := by
  decide +kernel

theorem sample_wider_not_exact :
    let l := laidOut tinyDecor (tinyNamed .ruleAsRow)
    let L' : Layout := { l.2.2 with colW := l.2.2.colW.map (· + 1) }
    fitsB l.1 L' l.2.1 = true ∧ fitsExactB l.1 L' l.2.1 = false := by
  decide +kernel

/-- the sheet of one cell, one position wide and high -/
def oneCellSheet : Sheet := ⟨1, 1, fun _ _ => .hp, fun _ => ['x'], [1], [1], fun _ => false, fun _ => false⟩

/-- the 3 × 3 box with the text `x` in the text layer only -/
def gridSample : Content :=
  let px (ch : Char) : Px := ⟨ch, ch, ch, ch⟩
  #[#[px '┌', px '─', px '┐'], #[px '│', ⟨'x', ' ', ' ', ' '⟩, px '│'], #[px '└', px '─', px '┘']]

end Dmn.Recog
