import Dmn.Model.RefParser

/-!
# Flat sequences: the token list of a list / argument list of atoms, written out

Helpers of `wide_sequences_flat` (`Props/C06.lean`).
-/

namespace Dmn.C06
open Dmn.Ref

/-- `a , b , c …` -/
def commaToks : List Atom → List Tok
  | [] => []
  | [a] => [atomTok a]
  | a :: b :: as => atomTok a :: .comma :: commaToks (b :: as)

def atomArgs : List Atom → Args
  | [] => .nil
  | a :: as => .cons (.atom a) (atomArgs as)

theorem prArgsTail_atoms (m : Mode) (close : Tok) : ∀ as : List Atom,
    prArgsTail m close (atomArgs as) = (as.flatMap (fun a => [Tok.comma, atomTok a])) ++ [close] := by
  intro as
  induction as with
  | nil => simp [atomArgs, prArgsTail]
  | cons a as ih => simp [atomArgs, prArgsTail, pr, needs, wrapped, isAtom, par, ih]

theorem commaToks_cons (a : Atom) : ∀ as : List Atom,
    commaToks (a :: as) = atomTok a :: as.flatMap (fun a => [Tok.comma, atomTok a]) := by
  intro as
  induction as generalizing a with
  | nil => rfl
  | cons b bs ih => simp [commaToks, ih b]

theorem prArgs_atoms (m : Mode) (close : Tok) (as : List Atom) :
    prArgs m close (atomArgs as) = commaToks as ++ [close] := by
  cases as with
  | nil => simp [atomArgs, prArgs, commaToks]
  | cons a as => simp [atomArgs, prArgs, pr, needs, wrapped, isAtom, par, prArgsTail_atoms, commaToks_cons]

end Dmn.C06
