import Dmn.Lemmas.CanvasBasic

/-!
# The scanner model never reaches a panic site — `scan`

The content `scan` builds from any text is a rectangle with at least one row; every later step
of `scan` keeps the shape and stays inside it.
-/

namespace Dmn.Recog
open Scan (ok error)

/-! ## The content of the canvas -/

/-- the invariant of the loop over the lines: one more row than `height`, no row longer than
`width` -/
structure LInv (st : ScanState) : Prop where
  rows : st.content.size = st.height + 1
  cols : ∀ (y : Nat) (row : Array Px), st.content[y]? = some row → row.size ≤ st.width
  wide : st.height = 0 → st.width = 0
  /-- the line is written into the last row, which is still empty -/
  last : ∀ (row : Array Px), st.content[st.height]? = some row → row.size = 0

theorem pushLine_ok (height : Nat) : ∀ (line : List Char) (content : Content),
    height - 1 < content.size →
    ∃ c', pushLine content height line = ok c' ∧ c'.size = content.size ∧
      ∀ (y : Nat) (row' : Array Px), c'[y]? = some row' → ∃ row, content[y]? = some row ∧
        row'.size = row.size + (if y = height - 1 then line.length else 0)
  | [], content, _ => ⟨content, rfl, rfl, fun y row' h => ⟨row', h, by simp⟩⟩
  | ch :: rest, content, hlt => by
    simp only [pushLine, hlt, if_true]
    obtain ⟨c', hc', hsz, hrows⟩ := pushLine_ok height rest
      (content.modify (height - 1) (fun r => r.push ⟨ch, charWhite, charWhite, charWhite⟩))
      (by rw [Array.size_modify]; exact hlt)
    refine ⟨c', hc', by rw [hsz, Array.size_modify], ?_⟩
    intro y row' hy
    obtain ⟨row1, h1, h2⟩ := hrows y row' hy
    rw [Array.getElem?_modify] at h1
    by_cases hyy : height - 1 = y
    · rw [if_pos hyy] at h1
      cases hq : content[y]? with
      | none => rw [hq] at h1; cases h1
      | some row =>
        rw [hq] at h1
        simp only [Option.map_some, Option.some.injEq] at h1
        refine ⟨row, rfl, ?_⟩
        rw [h2, ← h1, Array.size_push, if_pos hyy.symm, if_pos hyy.symm, List.length_cons]
        omega
    · rw [if_neg hyy] at h1
      refine ⟨row1, h1, ?_⟩
      rw [h2, if_neg (fun h => hyy h.symm), if_neg (fun h => hyy h.symm)]

theorem Safe_addLine (st : ScanState) (line : Text) (b : Bool) (hinv : LInv st) :
    Safe (if b then
        match pushLine (st.content.push #[]) (st.height + 1) line with
        | ok content =>
          ok { st with content := content, height := st.height + 1,
                       width := if line.length > st.width then line.length else st.width }
        | error e => error e
        | .panic s => .panic s
      else ok st) LInv := by
  split
  · have hlt : st.height + 1 - 1 < (st.content.push #[]).size := by
      rw [Array.size_push, hinv.rows]; omega
    obtain ⟨c', hc', hsz, hrows⟩ := pushLine_ok (st.height + 1) line (st.content.push #[]) hlt
    simp only [hc']
    have hsub : st.height + 1 - 1 = st.height := by omega
    rw [hsub] at hrows
    refine Safe_ok ⟨?_, ?_, fun h => absurd h (Nat.succ_ne_zero _), ?_⟩
    · show c'.size = st.height + 1 + 1
      rw [hsz, Array.size_push, hinv.rows]
    · intro y row' hy
      show row'.size ≤ if line.length > st.width then line.length else st.width
      obtain ⟨row, h1, h2⟩ := hrows y row' hy
      rw [Array.getElem?_push] at h1
      by_cases hyy : y = st.content.size
      · rw [if_pos hyy] at h1
        cases h1
        have hne : ¬ y = st.height := by rw [hyy, hinv.rows]; omega
        rw [h2, if_neg hne]
        simp
      · rw [if_neg hyy] at h1
        have hle := hinv.cols y row h1
        by_cases hyh : y = st.height
        · have h0 := hinv.last row (hyh ▸ h1)
          rw [h2, if_pos hyh, h0]
          split <;> omega
        · rw [h2, if_neg hyh]
          split <;> omega
    · intro row' hy
      change c'[st.height + 1]? = some row' at hy
      obtain ⟨row, h1, h2⟩ := hrows _ row' hy
      rw [Array.getElem?_push, if_pos (by rw [hinv.rows])] at h1
      cases h1
      rw [h2, if_neg (by omega)]
      simp
  · exact Safe_ok hinv

theorem Safe_scanLine (st : ScanState) (raw : Text) (hinv : LInv st) :
    Safe (scanLine st raw) LInv := by
  unfold scanLine
  simp only
  split
  · exact Safe_ok hinv
  · have hadd := Safe_addLine st (trim raw)
      ((st.startAdding || (trim raw).head? == some '┌' && !st.startAdding && !st.endAdding) && !st.endAdding) hinv
    split
    · rename_i st' heq
      have h' := hadd.2 _ heq
      exact Safe_ok ⟨h'.rows, h'.cols, h'.wide, h'.last⟩
    · exact Safe_error
    · rename_i s heq
      exact absurd heq (hadd.1 s)

theorem Safe_scanLines : ∀ (ls : List Text) (st : ScanState), LInv st → Safe (scanLines st ls) LInv
  | [], st, h => Safe_ok h
  | l :: ls, st, h => by
    simp only [scanLines]
    have h1 := Safe_scanLine st l h
    cases hx : scanLine st l with
    | ok st' => exact Safe_scanLines ls st' (h1.2 _ hx)
    | error e => exact Safe_error
    | panic s => exact absurd hx (h1.1 s)

/-- The content built from any text is a rectangle with at least one row. -/
theorem Safe_buildContent (text : Text) :
    Safe (buildContent text) (fun c => ∃ R W, 0 < R ∧ Shape c R W) := by
  unfold buildContent
  have h0 : LInv ⟨0, 0, #[#[]], false, false⟩ := by
    refine ⟨rfl, ?_, fun _ => rfl, ?_⟩
    · intro y row hy
      match y with
      | 0 => simp at hy; subst hy; simp
      | y + 1 => simp at hy
    · intro row hy
      simp at hy; subst hy; simp
  have h1 := Safe_scanLines (splitLines text) _ h0
  cases hx : scanLines ⟨0, 0, #[#[]], false, false⟩ (splitLines text) with
  | ok st =>
    have hinv := h1.2 _ hx
    simp only
    split
    · refine Safe_ok ⟨st.height + 1, st.width, by omega, ?_, ?_⟩
      · rw [Array.size_map]; exact hinv.rows
      · intro y row hy
        rw [Array.getElem?_map] at hy
        cases hq : st.content[y]? with
        | none => rw [hq] at hy; cases hy
        | some r0 =>
          rw [hq] at hy
          simp only [Option.map_some, Option.some.injEq] at hy
          have := hinv.cols y r0 hq
          rw [← hy, Array.size_append, Array.size_replicate]
          omega
    · rename_i hcond
      have hw : st.width = 0 := by
        simp only [Bool.and_eq_true, decide_eq_true_eq, not_and] at hcond
        by_cases hh : st.height = 0
        · exact hinv.wide hh
        · have := hcond (by omega); omega
      refine Safe_ok ⟨st.height + 1, 0, by omega, hinv.rows, ?_⟩
      intro y row hy
      have := hinv.cols y row hy
      omega
  | error e => exact Safe_error
  | panic s => exact absurd hx (h1.1 s)

/-! ## The recognition steps of `scan` -/

theorem SNP_recognizeInformationItemName {c : Content} {R W : Nat} (h : Shape c R W) (hR : 0 < R) :
    SNP (recognizeInformationItemName c) := by
  unfold recognizeInformationItemName
  refine (Safe_bind (q := fun _ => True) (Safe_moveTo h hR Point.zero) ?_).1
  intro cur hcur
  refine Safe_bind (Safe_search h hcur.1 .text ['┌']) ?_
  intro r1 h1
  obtain ⟨ch1, topLeft⟩ := r1
  refine Safe_bind (Safe_search h h1.1 .text ['╥']) ?_
  intro r2 h2
  obtain ⟨ch2, topEdge⟩ := r2
  have hW : 0 < W := by have := h1.2; omega
  simp only
  split
  · refine Safe_bind (Safe_walkRectangle h hR hW .text topLeft _ _ _ _ _ _ _ _) ?_
    intro rect hrect
    refine Safe_bind (SNP_textFromRect h .text hrect).safe ?_
    intro t _
    exact Safe_ok trivial
  · exact Safe_ok trivial

theorem SNP_okPoint {r : Scan (Char × Point)} (h : SNP r) : SNP (okPoint r) := by
  unfold okPoint
  split
  · exact SNP_ok _
  · exact SNP_ok _
  · rename_i s; exact absurd rfl (h s)

theorem SNP_recognizeCrossings {c : Content} {R W : Nat} (h : Shape c R W) (hR : 0 < R) :
    SNP (recognizeCrossings c) := by
  unfold recognizeCrossings
  refine (Safe_bind (q := fun _ => True) (Safe_moveTo h hR Point.zero) ?_).1
  intro cur hcur
  refine Safe_bind (Safe_search h hcur.1 .text ['╬']) ?_
  intro r1 h1
  obtain ⟨ch1, point⟩ := r1
  have hW : 0 < W := by have := h1.2; omega
  refine Safe_bind (Safe_moveTo h hR point) ?_
  intro cur2 hcur2
  refine Safe_bind (SNP_okPoint (Safe_searchRight h ⟨hcur2.1, hcur2.2 hW⟩ .text _ _).1).safe ?_
  intro ch _
  refine Safe_bind (Safe_moveTo h hR point) ?_
  intro cur3 hcur3
  refine Safe_bind (SNP_okPoint (Safe_searchDown h ⟨hcur3.1, hcur3.2 hW⟩ .text _ _).1).safe ?_
  intro cv _
  exact Safe_ok trivial

/-- the body rectangle lies inside the content -/
def Rect.Inside (r : Rect) (R W : Nat) : Prop := r.top < R ∧ r.bottom ≤ R ∧ r.right ≤ W

theorem Safe_recognizeBodyRect {c : Content} {R W : Nat} (h : Shape c R W) (hR : 0 < R) :
    Safe (recognizeBodyRect c) (fun r => r.Inside R W) := by
  unfold recognizeBodyRect
  refine Safe_bind (Safe_moveTo h hR Point.zero) ?_
  intro cur hcur
  refine Safe_bind (Safe_search h hcur.1 .text ['╬']) ?_
  intro r1 h1
  obtain ⟨ch1, crossPoint⟩ := r1
  have hW : 0 < W := by have := h1.2; omega
  refine Safe_bind (Safe_searchUp h h1 .text _ _) ?_
  intro r2 h2
  obtain ⟨ch2, topPoint⟩ := r2
  refine Safe_bind (Safe_searchDown h h2.1 .text _ _) ?_
  intro r3 h3
  obtain ⟨ch3, bottomPoint⟩ := r3
  refine Safe_bind (Safe_moveTo h hR crossPoint) ?_
  intro cur2 hcur2
  refine Safe_bind (Safe_searchLeft h ⟨hcur2.1, hcur2.2 hW⟩ .text _ _) ?_
  intro r4 h4
  obtain ⟨ch4, leftPoint⟩ := r4
  refine Safe_bind (Safe_searchRight h h4.1 .text _ _) ?_
  intro r5 h5
  obtain ⟨ch5, rightPoint⟩ := r5
  dsimp only at h2 h3 h5
  refine Safe_ok ⟨?_, ?_, ?_⟩
  · exact h2.1.1
  · have := h3.1.1; show bottomPoint.y + 1 ≤ R; omega
  · have := h5.1.2; show rightPoint.x + 1 ≤ W; omega

/-! ## The layer operations of `scan` -/

theorem Shape_prepareRegions {c : Content} {R W : Nat} (h : Shape c R W) (src dst : Layer) :
    Shape (prepareRegions c src dst) R W := h.map _

theorem Shape_copyLayer {c : Content} {R W : Nat} (h : Shape c R W) (src dst : Layer) :
    Shape (copyLayer c src dst) R W := h.map _

theorem Safe_foldlM_setAt {R W : Nat} {y x : Nat} (hy : y < R) (hx : x < W) (ch : Char) :
    ∀ (layers : List Layer) (c : Content), Shape c R W →
      Safe (layers.foldlM (fun c layer => setAt c y x layer ch) c) (fun c' => Shape c' R W)
  | [], c, h => by rw [List.foldlM_nil]; exact Safe_ok h
  | l :: ls, c, h => by
    rw [List.foldlM_cons]
    exact Safe_bind (Safe_setAt h hy hx l ch) (fun c' hc' => Safe_foldlM_setAt hy hx ch ls c' hc')

/-- `let ch ← chAt …; setAt … (f ch)` inside the content -/
theorem Safe_readWrite {c : Content} {R W : Nat} (h : Shape c R W) {y x : Nat} (hy : y < R) (hx : x < W)
    (src dst : Layer) (f : Char → Char) :
    Safe (chAt c y x src >>= fun ch => setAt c y x dst (f ch)) (fun c' => Shape c' R W) := by
  obtain ⟨ch, hc⟩ := chAt_ok h hy hx src
  rw [hc]
  exact Safe_setAt h hy hx dst _

theorem Safe_removeInformationItemRegion {c : Content} {R W : Nat} (h : Shape c R W) {b : Rect}
    (hb : b.Inside R W) (src dst : Layer) :
    Safe (removeInformationItemRegion c b src dst) (fun c' => Shape c' R W) := by
  obtain ⟨htop, hbot, hright⟩ := hb
  unfold removeInformationItemRegion
  simp only
  refine Safe_bind (p := fun c' => Shape c' R W) ?_ ?_
  · unfold clearAbove
    split
    · refine Safe_forRange _ _ _ h ?_
      intro y c1 _ hy h1
      refine Safe_forRange _ _ _ h1 ?_
      intro x c2 hx1 hx2 h2
      exact Safe_foldlM_setAt (by omega) (by omega) _ _ c2 h2
    · exact Safe_ok h
  · intro c1 h1
    refine Safe_bind (p := fun c' => Shape c' R W) ?_ ?_
    · refine Safe_forRange _ _ _ h1 ?_
      intro x c2 hx1 hx2 h2
      exact Safe_readWrite h2 htop (by omega) src dst _
    · intro c2 h2
      refine Safe_forRange _ _ _ h2 ?_
      intro y c3 hy1 hy2 h3
      refine Safe_forRange _ _ _ h3 ?_
      intro x c4 hx1 hx2 h4
      exact Safe_readWrite h4 (by omega) (by omega) src dst id

/-- `let ch ← chAt …; match g ch with | some ch' => setAt … ch' | none => ok c` -/
theorem Safe_readRewrite {c : Content} {R W : Nat} (h : Shape c R W) {y x : Nat} (hy : y < R) (hx : x < W)
    (dst : Layer) (g : Char → Option Char) :
    Safe (chAt c y x dst >>= fun ch =>
        match g ch with
        | some ch' => setAt c y x dst ch'
        | none => ok c) (fun c' => Shape c' R W) := by
  obtain ⟨ch, hc⟩ := chAt_ok h hy hx dst
  rw [hc]
  simp only [Scan.ok_bind]
  split
  · exact Safe_setAt h hy hx dst _
  · exact Safe_ok h

theorem Safe_makeGrid {c : Content} {R W : Nat} (h : Shape c R W) {b : Rect}
    (hb : b.Inside R W) (src dst : Layer) :
    Safe (makeGrid c b src dst) (fun c' => Shape c' R W) := by
  obtain ⟨htop, hbot, hright⟩ := hb
  unfold makeGrid
  simp only
  have h0 := Shape_copyLayer h src dst
  refine Safe_bind (p := fun c' => Shape c' R W) ?_ ?_
  · refine Safe_forRange _ _ _ h0 ?_
    intro y c1 hy1 hy2 h1
    refine Safe_bind (p := fun _ => True) (SNP.safe ?_) ?_
    · refine SNP_anyRange _ _ ?_
      intro x hx1 hx2
      exact SNP_bind (SNP_chAt h1 (by omega) (by omega) dst) (fun _ _ => SNP_ok _)
    · intro has _
      split
      · refine Safe_forRange _ _ _ h1 ?_
        intro x c2 hx1 hx2 h2
        exact Safe_readRewrite h2 (by omega) (by omega) dst _
      · exact Safe_ok h1
  · intro c1 h1
    refine Safe_forRange _ _ _ h1 ?_
    intro x c2 hx1 hx2 h2
    refine Safe_bind (p := fun _ => True) (SNP.safe ?_) ?_
    · refine SNP_anyRange _ _ ?_
      intro y hy1 hy2
      exact SNP_bind (SNP_chAt h2 (by omega) (by omega) dst) (fun _ _ => SNP_ok _)
    · intro has _
      split
      · refine Safe_forRange _ _ _ h2 ?_
        intro y c3 hy1 hy2 h3
        exact Safe_readRewrite h3 (by omega) (by omega) dst _
      · exact Safe_ok h2

/-- `scan` never panics, whatever the text; the canvas it returns is a rectangle. -/
theorem Safe_scan (text : Text) :
    Safe (scan text) (fun cv => ∃ R W, 0 < R ∧ Shape cv.content R W) := by
  unfold scan
  refine Safe_bind (Safe_buildContent text) ?_
  intro c ⟨R, W, hR, h⟩
  refine Safe_bind (SNP_recognizeInformationItemName h hR).safe ?_
  intro name _
  refine Safe_bind (SNP_recognizeCrossings h hR).safe ?_
  intro cr _
  obtain ⟨cross, crossHorz, crossVert⟩ := cr
  refine Safe_bind (Safe_recognizeBodyRect h hR) ?_
  intro b hb
  refine Safe_bind (Safe_removeInformationItemRegion (Shape_prepareRegions h .text .thin) hb .thin .body) ?_
  intro c2 h2
  refine Safe_bind (Safe_makeGrid h2 hb .body .grid) ?_
  intro c3 h3
  exact Safe_ok ⟨R, W, hR, h3⟩

end Dmn.Recog
