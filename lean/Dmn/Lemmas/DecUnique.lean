import Dmn.Lemmas.DecScale
import Dmn.Lemmas.DecCohort

/-! Uniqueness of the correctly rounded result: two triples that both meet `RoundsHalfEven` for one
exact value have the same value (the tie rule, the power-of-ten boundary and the overflow edge
included), hence one reduced triple.  And: `RoundsHalfEven` depends on the exact value only, however
it is written as `N/D·10^e`. -/

namespace Dmn
namespace D128

theorem p34 : (10 : Nat) ^ 34 = 10000000000000000000000000000000000 := by decide
theorem p33 : (10 : Nat) ^ 33 = 1000000000000000000000000000000000 := by decide

/-- two coefficients at one exponent, both within half a unit of `X`, ties even: equal -/
theorem half_unique_same (X u c c' : Nat) (hu : 0 < u)
    (h1 : 2 * absDiff X (c * u) ≤ u) (t1 : 2 * absDiff X (c * u) = u → c % 2 = 0)
    (h2 : 2 * absDiff X (c' * u) ≤ u) (t2 : 2 * absDiff X (c' * u) = u → c' % 2 = 0) : c = c' := by
  rw [absDiff_le_iff] at h1 h2
  rw [absDiff_eq_iff] at t1 t2
  rcases Nat.lt_trichotomy c c' with h | h | h
  · exfalso
    have hm : (c + 1) * u ≤ c' * u := Nat.mul_le_mul_right u h
    rw [Nat.add_mul, Nat.one_mul] at hm
    have hB : c' * u = (c + 1) * u := by rw [Nat.add_mul, Nat.one_mul]; omega
    have hc : c' = c + 1 := Nat.eq_of_mul_eq_mul_right hu hB
    have e1 := t1 (Or.inr ⟨by omega, by omega⟩)
    have e2 := t2 (Or.inl ⟨by omega, by omega⟩)
    omega
  · exact h
  · exfalso
    have hm : (c' + 1) * u ≤ c * u := Nat.mul_le_mul_right u h
    rw [Nat.add_mul, Nat.one_mul] at hm
    have hB : c * u = (c' + 1) * u := by rw [Nat.add_mul, Nat.one_mul]; omega
    have hc : c = c' + 1 := Nat.eq_of_mul_eq_mul_right hu hB
    have e1 := t2 (Or.inr ⟨by omega, by omega⟩)
    have e2 := t1 (Or.inl ⟨by omega, by omega⟩)
    omega

/-- a multiple of `u` within half of `u` of another multiple of `u` is that multiple -/
theorem half_exact (u c m : Nat) (hu : 0 < u) (h1 : 2 * absDiff (m * u) (c * u) ≤ u) : c = m := by
  rw [absDiff_le_iff] at h1
  rcases Nat.lt_trichotomy c m with h | h | h
  · exfalso
    have hm : (c + 1) * u ≤ m * u := Nat.mul_le_mul_right u h
    rw [Nat.add_mul, Nat.one_mul] at hm
    omega
  · exact h
  · exfalso
    have hm : (m + 1) * u ≤ c * u := Nat.mul_le_mul_right u h
    rw [Nat.add_mul, Nat.one_mul] at hm
    omega

/-- the result with the smaller exponent (`c`, unit `u`) and the result with the larger exponent
(`c'`, unit `10^k·u`, `k ≥ 1`): the second is exact and the first is the same value written with
`k` more zeros; a 34-digit second result is impossible (boundary clause of `NECore`, tie rule) -/
theorem half_unique_diff (X u c c' k : Nat) (hu : 0 < u) (hk : 1 ≤ k) (hc : c < 10 ^ 34)
    (h1 : 2 * absDiff X (c * u) ≤ u) (t1 : 2 * absDiff X (c * u) = u → c % 2 = 0)
    (h2 : 2 * absDiff X (c' * (10 ^ k * u)) ≤ 10 ^ k * u)
    (p2 : X = c' * (10 ^ k * u) ∨ 10 ^ 33 ≤ c')
    (b2 : c' = 10 ^ 33 ∧ X < c' * (10 ^ k * u) → 20 * (c' * (10 ^ k * u) - X) ≤ 10 ^ k * u) :
    c = c' * 10 ^ k := by
  rcases p2 with hx | hbig
  · have hX : X = (c' * 10 ^ k) * u := by rw [hx, Nat.mul_assoc]
    rw [hX] at h1
    exact half_exact u c _ hu h1
  · exfalso
    obtain ⟨j, rfl⟩ : ∃ j, k = j + 1 := ⟨k - 1, by omega⟩
    rw [p34] at hc
    rw [p33] at hbig b2
    rw [pow10_succ j, Nat.mul_assoc] at h2 b2
    rw [absDiff_le_iff] at h1 h2
    rw [absDiff_eq_iff] at t1
    have hcu : c * u ≤ 9999999999999999999999999999999999 * u := Nat.mul_le_mul_right u (by omega)
    have hW : u ≤ 10 ^ j * u := Nat.le_mul_of_pos_left u (pow10_pos j)
    have hbW : 1000000000000000000000000000000000 * (10 * (10 ^ j * u)) ≤ c' * (10 * (10 ^ j * u)) :=
      Nat.mul_le_mul_right _ hbig
    cases j with
    | succ i =>
      have : 10 * u ≤ 10 ^ (i + 1) * u := by
        rw [pow10_succ, Nat.mul_assoc]
        exact Nat.mul_le_mul_left 10 (Nat.le_mul_of_pos_left u (pow10_pos i))
      generalize 10 ^ (i + 1) * u = W at *
      generalize c' * (10 * W) = B at *
      omega
    | zero =>
      rw [Nat.pow_zero, Nat.one_mul] at h2 b2 hbW
      have hc' : c' = 1000000000000000000000000000000000 := by
        rcases Nat.lt_or_ge 1000000000000000000000000000000000 c' with hgt | hle
        · exfalso
          have : (1000000000000000000000000000000000 + 1) * (10 * u) ≤ c' * (10 * u) :=
            Nat.mul_le_mul_right _ hgt
          omega
        · omega
      subst hc'
      have hb := b2 ⟨rfl, by omega⟩
      have hcu2 : c * u = 9999999999999999999999999999999999 * u := by omega
      have hcv : c = 9999999999999999999999999999999999 := Nat.eq_of_mul_eq_mul_right hu hcu2
      have e1 := t1 (Or.inr ⟨by omega, by omega⟩)
      omega

/-- two correct roundings of one exact value: the one with the smaller exponent is the other one
written with more zeros -/
theorem nearestEven_unique_le (N D : Nat) (e : Int) (hD : 0 < D) (d d' : D128) (hd : WF d) (hd' : WF d')
    (hle : d.exp ≤ d'.exp) (h : NearestEven N D e d) (h' : NearestEven N D e d') :
    d.coeff = d'.coeff * 10 ^ (d'.exp - d.exp).toNat := by
  have hk0 : d'.exp = d.exp → (d'.exp - d.exp).toNat = 0 := by omega
  have hk1 : d'.exp ≠ d.exp → 1 ≤ (d'.exp - d.exp).toNat := by omega
  have hne : d'.exp ≠ d.exp → d'.exp ≠ eTiny := by
    have := hd.2.1
    unfold eTiny; omega
  have hsplit : (d'.exp - min e d.exp).toNat = (d'.exp - d.exp).toNat + (d.exp - min e d.exp).toNat := by omega
  rw [nearestEven_at N D e d (min e d.exp) (by omega) (by omega)] at h
  rw [nearestEven_at N D e d' (min e d.exp) (by omega) (by omega)] at h'
  rw [hsplit, pow10_add, Nat.mul_assoc] at h'
  have hu : 0 < 10 ^ (d.exp - min e d.exp).toNat * D := Nat.mul_pos (pow10_pos _) hD
  generalize 10 ^ (d.exp - min e d.exp).toNat * D = u at h h' hu
  generalize N * 10 ^ (e - min e d.exp).toNat = X at h h'
  generalize (d'.exp - d.exp).toNat = k at h' hk0 hk1 ⊢
  unfold NECore at h h'
  obtain ⟨a1, a2, _, _⟩ := h
  obtain ⟨b1, b2, b3, b4⟩ := h'
  by_cases hk : d'.exp = d.exp
  · rw [hk0 hk, Nat.pow_zero, Nat.one_mul] at b1 b2
    rw [hk0 hk, Nat.pow_zero, Nat.mul_one]
    exact half_unique_same X u _ _ hu a1 a2 b1 b2
  · refine half_unique_diff X u d.coeff d'.coeff k hu (hk1 hk) hd.1 a1 a2 b1 ?_ ?_
    · rcases b3 with x | x | x
      · exact Or.inl x
      · exact Or.inr x
      · exact absurd x (hne hk)
    · intro hh
      exact b4 ⟨hh.1, hh.2, hne hk⟩

/-- two correct roundings of one exact value (same sign) have the same value -/
theorem nearestEven_sameValue (N D : Nat) (e : Int) (hD : 0 < D) (d d' : D128) (hd : WF d) (hd' : WF d')
    (hn : d.neg = d'.neg) (h : NearestEven N D e d) (h' : NearestEven N D e d') : SameValue d d' := by
  unfold SameValue scaled
  rw [hn]
  congr 1
  by_cases hle : d.exp ≤ d'.exp
  · have e1 : min d.exp d'.exp = d.exp := by omega
    have e2 : (d.exp - d.exp).toNat = 0 := by omega
    rw [e1, e2, Nat.pow_zero, Nat.mul_one]
    exact nearestEven_unique_le N D e hD d d' hd hd' hle h h'
  · have e1 : min d.exp d'.exp = d'.exp := by omega
    have e2 : (d'.exp - d'.exp).toNat = 0 := by omega
    rw [e1, e2, Nat.pow_zero, Nat.mul_one]
    exact (nearestEven_unique_le N D e hD d' d hd' hd (by omega) h' h).symm

/-- a representable correct rounding exists only when the exact value does not overflow
(`10^34 − 1` is odd: the tie at the edge goes up) -/
theorem nearestEven_not_overflows (N D : Nat) (e : Int) (hD : 0 < D) (d : D128) (hd : WF d)
    (h : NearestEven N D e d) : ¬ Overflows N D e := by
  intro ho
  obtain ⟨hc, hlo, hhi⟩ := hd
  rw [nearestEven_at N D e d (min e d.exp) (by omega) (by omega)] at h
  rw [overflows_at N D e (min e d.exp) (by omega) (by unfold eTop; omega)] at ho
  have hsplit : (eTop - min e d.exp).toNat = (eTop - d.exp).toNat + (d.exp - min e d.exp).toNat := by
    unfold eTop; omega
  rw [hsplit, pow10_add] at ho
  have e1 : (2 * 10 ^ 34 - 1) * (10 ^ (eTop - d.exp).toNat * 10 ^ (d.exp - min e d.exp).toNat) * D
      = 19999999999999999999999999999999999 * (10 ^ (eTop - d.exp).toNat * (10 ^ (d.exp - min e d.exp).toNat * D)) := by
    rw [p34]; ring
  rw [e1] at ho
  have hu : 0 < 10 ^ (d.exp - min e d.exp).toNat * D := Nat.mul_pos (pow10_pos _) hD
  generalize 10 ^ (d.exp - min e d.exp).toNat * D = u at h ho hu
  have e2 : 2 * N * 10 ^ (e - min e d.exp).toNat = 2 * (N * 10 ^ (e - min e d.exp).toNat) := by ring
  rw [e2] at ho
  generalize N * 10 ^ (e - min e d.exp).toNat = X at h ho
  unfold NECore at h
  obtain ⟨a1, a2, _, _⟩ := h
  rw [absDiff_le_iff] at a1
  rw [absDiff_eq_iff] at a2
  rw [p34] at hc
  have hcu : d.coeff * u ≤ 9999999999999999999999999999999999 * u := Nat.mul_le_mul_right u (by omega)
  have hT : u ≤ 10 ^ (eTop - d.exp).toNat * u := Nat.le_mul_of_pos_left u (pow10_pos _)
  have hcu2 : d.coeff * u = 9999999999999999999999999999999999 * u := by omega
  have hcv : d.coeff = 9999999999999999999999999999999999 := Nat.eq_of_mul_eq_mul_right hu hcu2
  have e3 := a2 (Or.inr ⟨by omega, by omega⟩)
  omega

/-- **Uniqueness of the correctly rounded result.**  Two results that both meet `RoundsHalfEven`
for one exact value `(-1)^neg·(N/D)·10^e` are both finite with the same sign and value, or both
the same infinity: after `reduce` they are one and the same `FeelNumber`. -/
theorem roundsHalfEven_unique (neg : Bool) (N D : Nat) (e : Int) (hD : 0 < D) (r r' : D128R)
    (h : RoundsHalfEven neg N D e r) (h' : RoundsHalfEven neg N D e r') : r.reduce = r'.reduce := by
  cases r with
  | nan => exact absurd h (by simp [RoundsHalfEven])
  | inf s =>
    cases r' with
    | nan => exact absurd h' (by simp [RoundsHalfEven])
    | inf s' =>
      have a : s = neg := h.1
      have b : s' = neg := h'.1
      rw [a, b]
    | fin d' =>
      exact absurd h.2 (nearestEven_not_overflows N D e hD d' h'.2.1 h'.2.2)
  | fin d =>
    cases r' with
    | nan => exact absurd h' (by simp [RoundsHalfEven])
    | inf s' => exact absurd h'.2 (nearestEven_not_overflows N D e hD d h.2.1 h.2.2)
    | fin d' =>
      obtain ⟨n1, w1, v1⟩ := h
      obtain ⟨n2, w2, v2⟩ := h'
      have hn : d.neg = d'.neg := by rw [n1, n2]
      show D128R.fin (D128.reduce d) = D128R.fin (D128.reduce d')
      rw [D128.reduce_congr d d' w1 w2 (nearestEven_sameValue N D e hD d d' w1 w2 hn v1 v2) hn]

/-- `RoundsHalfEven` depends on the exact value only: `N/D·10^e = N'/D'·10^e'`, written without
fractions at a scale `s` below both exponents -/
theorem roundsHalfEven_value_congr (neg : Bool) (N D N' D' : Nat) (e e' s : Int) (hD : 0 < D) (hD' : 0 < D')
    (hs : s ≤ e) (hs' : s ≤ e') (hv : N * D' * 10 ^ (e - s).toNat = N' * D * 10 ^ (e' - s).toNat) (r : D128R) :
    RoundsHalfEven neg N D e r ↔ RoundsHalfEven neg N' D' e' r := by
  unfold RoundsHalfEven
  cases r with
  | nan => exact Iff.rfl
  | inf t =>
    simp only []
    have hσ1 : min s eTop ≤ s := by omega
    rw [overflows_at N D e (min s eTop) (by omega) (by omega), overflows_at N' D' e' (min s eTop) (by omega) (by omega)]
    have h1 : (e - min s eTop).toNat = (e - s).toNat + (s - min s eTop).toNat := by omega
    have h2 : (e' - min s eTop).toNat = (e' - s).toNat + (s - min s eTop).toNat := by omega
    rw [h1, h2, pow10_add, pow10_add]
    generalize 10 ^ (s - min s eTop).toNat = t at *
    generalize (2 * 10 ^ 34 - 1) * 10 ^ (eTop - min s eTop).toNat = K
    have a1 : 2 * N * (10 ^ (e - s).toNat * t) ≥ K * D ↔ 2 * N * (10 ^ (e - s).toNat * t) * D' ≥ K * D * D' :=
      (Nat.mul_le_mul_right_iff hD').symm
    have a2 : 2 * N' * (10 ^ (e' - s).toNat * t) ≥ K * D' ↔ 2 * N' * (10 ^ (e' - s).toNat * t) * D ≥ K * D' * D :=
      (Nat.mul_le_mul_right_iff hD).symm
    rw [a1, a2]
    have e1 : 2 * N * (10 ^ (e - s).toNat * t) * D' = 2 * t * (N * D' * 10 ^ (e - s).toNat) := by ring
    have e2 : 2 * N' * (10 ^ (e' - s).toNat * t) * D = 2 * t * (N' * D * 10 ^ (e' - s).toNat) := by ring
    have e3 : K * D' * D = K * D * D' := by ring
    rw [e1, e2, e3, hv]
  | fin d =>
    simp only []
    rw [nearestEven_at N D e d (min s d.exp) (by omega) (by omega),
      nearestEven_at N' D' e' d (min s d.exp) (by omega) (by omega)]
    have h1 : (e - min s d.exp).toNat = (e - s).toNat + (s - min s d.exp).toNat := by omega
    have h2 : (e' - min s d.exp).toNat = (e' - s).toNat + (s - min s d.exp).toNat := by omega
    rw [h1, h2, pow10_add, pow10_add]
    generalize 10 ^ (s - min s d.exp).toNat = t at *
    generalize 10 ^ (d.exp - min s d.exp).toNat = B
    rw [← necore_scale (N * (10 ^ (e - s).toNat * t)) _ _ D' d hD',
      ← necore_scale (N' * (10 ^ (e' - s).toNat * t)) _ _ D d hD]
    have e1 : N * (10 ^ (e - s).toNat * t) * D' = t * (N * D' * 10 ^ (e - s).toNat) := by ring
    have e2 : N' * (10 ^ (e' - s).toNat * t) * D = t * (N' * D * 10 ^ (e' - s).toNat) := by ring
    have e3 : d.coeff * (B * D') * D = d.coeff * (B * D) * D' := by ring
    have e4 : B * D' * D = B * D * D' := by ring
    rw [e1, e2, e3, e4, hv]

end D128
end Dmn
