import Dmn.Lemmas.TemporalMachine

/-!
# Per-operation lemmas for the machine-integer layer of the temporal code

For every operation: with operands of the Rust types (and, for the unchecked `i128` operations,
an exact result that fits) the outcome is `ok` of the value computed on unbounded `Int` — in both
integer modes.  Without overflow checks every operation returns (`IsOk`).
-/

namespace Dmn.TemporalMachine
open Dmn Dmn.Cal Dmn.Temporal

/-! ## wrapping mode: everything returns -/

macro "isok" : tactic =>
  `(tactic| repeat (first
      | exact isOk_ok _
      | exact isOk_arith _ _ _
      | apply isOk_map
      | apply isOk_bind
      | intro _
      | dsimp only
      | split))

theorem dtStep_isOk (acc : Int) (c : Option Int) (unit : Int) : IsOk (dtStep .wrapping acc c unit) := by
  unfold dtStep
  isok

theorem ymCombine_isOk (y mo : Option Int) (neg : Bool) : IsOk (ymCombine .wrapping y mo neg) := by
  unfold ymCombine
  isok

theorem ymPrint_isOk (n : Int) : IsOk (ymPrint .wrapping n) := by
  unfold ymPrint
  isok

theorem dtCombine_isOk (d h mi s f : Option Int) (neg : Bool) : IsOk (dtCombine .wrapping d h mi s f neg) := by
  unfold dtCombine
  apply isOk_bind (dtStep_isOk _ _ _); intro _
  apply isOk_bind (dtStep_isOk _ _ _); intro _
  apply isOk_bind (dtStep_isOk _ _ _); intro _
  apply isOk_bind (dtStep_isOk _ _ _); intro _
  isok

theorem dtdGet_isOk (n : Int) :
    IsOk (dtdGetDays .wrapping n) ∧ IsOk (dtdGetHours .wrapping n) ∧ IsOk (dtdGetMinutes .wrapping n) ∧
      IsOk (dtdGetSeconds .wrapping n) := by
  unfold dtdGetDays dtdGetHours dtdGetMinutes dtdGetSeconds i128Abs
  refine ⟨?_, ?_, ?_, ?_⟩ <;> isok

theorem dtdRound_isOk (ns unit : Int) : IsOk (dtdRound .wrapping ns unit) := by
  unfold dtdRound
  isok

theorem dtdPrint_isOk (n : Int) : IsOk (dtdPrint .wrapping n) := by
  unfold dtdPrint i128Abs
  apply isOk_bind (isOk_arith _ _ _); intro _
  apply isOk_bind (dtdRound_isOk _ _); intro _
  apply isOk_bind (dtdRound_isOk _ _); intro _
  apply isOk_bind (dtdRound_isOk _ _); intro _
  apply isOk_bind (dtdRound_isOk _ _); intro _
  exact isOk_ok _

theorem dateYmDuration_isOk (a b : Date) : IsOk (dateYmDuration .wrapping a b) := by
  unfold dateYmDuration
  isok

theorem isOk_bind_arith {β : Type} (t : IntTy) (x : Int) (s : String) (f : Int → Outcome β)
    (hf : ∀ a, IsOk (f a)) : IsOk ((t.arith .wrapping x s).bind f) := isOk_bind (isOk_arith t x s) hf

theorem dateWeekdayFallback_isOk (d : Date) : IsOk (dateWeekdayFallback .wrapping d) := by
  unfold dateWeekdayFallback
  dsimp only
  apply isOk_bind
  · split
    · exact isOk_arith _ _ _
    · exact isOk_ok _
  intro year
  apply isOk_bind
  · split <;> exact isOk_arith _ _ _
  intro mp
  iterate 13 (apply isOk_bind_arith; intro _)
  exact isOk_ok _

theorem zoneOffset_isOk (neg : Bool) (h mi : Int) (s : Option Int) : IsOk (zoneOffset .wrapping neg h mi s) := by
  unfold zoneOffset
  isok

theorem fractionToNanos_go_isOk (k : Nat) (ds : List Nat) (acc : Int) :
    IsOk (fractionToNanos.go .wrapping k ds acc) := by
  induction k generalizing ds acc with
  | zero => exact isOk_ok _
  | succ k ih =>
    unfold fractionToNanos.go
    apply isOk_bind (isOk_arith _ _ _)
    intro p
    apply isOk_bind (isOk_arith _ _ _)
    intro q
    exact ih _ _

theorem run_wrapping_isOk (op : Op) : IsOk (run .wrapping op) := by
  cases op <;> unfold run
  case ymAdd a b => exact isOk_map _ (isOk_ok _)
  case ymSub a b => exact isOk_map _ (isOk_ok _)
  case ymNeg a => exact isOk_map _ (isOk_ok _)
  case ymYears a => exact isOk_map _ (isOk_ok _)
  case ymMonths a => exact isOk_map _ (isOk_ok _)
  case ymPrint a => exact isOk_map _ (ymPrint_isOk a)
  case dtdAdd a b => exact isOk_map _ (isOk_arith _ _ _)
  case dtdSub a b => exact isOk_map _ (isOk_arith _ _ _)
  case dtdNeg a => exact isOk_map _ (isOk_arith _ _ _)
  case dtdDays a => exact isOk_map _ (dtdGet_isOk a).1
  case dtdHours a => exact isOk_map _ (dtdGet_isOk a).2.1
  case dtdMinutes a => exact isOk_map _ (dtdGet_isOk a).2.2.1
  case dtdSeconds a => exact isOk_map _ (dtdGet_isOk a).2.2.2
  case dtdPrint a => exact isOk_map _ (dtdPrint_isOk a)
  case time4Offset a => exact isOk_ok _
  case ymLit y mo neg => exact isOk_map _ (ymCombine_isOk y mo neg)
  case dtLit d h mi s f neg => exact isOk_map _ (dtCombine_isOk d h mi s f neg)
  case dateYm a b => exact isOk_map _ (dateYmDuration_isOk a b)
  case dateWeekday d => exact isOk_map _ (dateWeekdayFallback_isOk d)

/-! ## years and months durations -/

/-- What a years and months duration literal with these components denotes: the months, or
nothing when they exceed `i64::MAX`. -/
def ymLitIdeal (y mo : Option Int) (neg : Bool) : Option Int :=
  let t := y.getD 0 * 12 + mo.getD 0
  if t ≤ i64Max then some (if neg then -t else t) else none

theorem checkedOp_i64_some (x : Int) (h1 : -9223372036854775808 ≤ x) (h2 : x ≤ 9223372036854775807) :
    tI64.checkedOp x = some x := by
  unfold IntTy.checkedOp
  rw [if_pos ⟨h1, h2⟩]

theorem checkedOp_i64_none (x : Int) (h : 9223372036854775807 < x ∨ x < -9223372036854775808) :
    tI64.checkedOp x = none := by
  unfold IntTy.checkedOp
  rw [if_neg]
  intro hh
  have h1 : -9223372036854775808 ≤ x := hh.1
  have h2 : x ≤ 9223372036854775807 := hh.2
  omega

theorem ymNegStep (m : IntMode) (neg : Bool) (t : Int) (h0 : 0 ≤ t) (h1 : t ≤ 9223372036854775807) :
    (if neg = true then (tI64.arith m (-t) sYm).map some else Outcome.ok (some t)) =
      .ok (some (if neg = true then -t else t)) := by
  cases neg
  · simp
  · simp (disch := omega) only [arith_i64, map_ok, if_true]

theorem ymCombine_eq (m : IntMode) (y mo : Option Int) (neg : Bool)
    (hy : ∀ v, y = some v → 0 ≤ v ∧ v ≤ i64Max) (hm : ∀ v, mo = some v → 0 ≤ v ∧ v ≤ i64Max) :
    ymCombine m y mo neg = .ok (ymLitIdeal y mo neg) := by
  unfold ymCombine ymLitIdeal
  simp only [i64Max] at *
  cases y with
  | none =>
    cases mo with
    | none =>
      simp only [Option.getD_none]
      have c : (0 : Int) * 12 + 0 ≤ 9223372036854775807 := by omega
      rw [if_pos c]
      simp (disch := omega) only [ymNegStep]
      rfl
    | some b =>
      have hb := hm b rfl
      simp only [Option.getD_none, Option.getD_some]
      have c : (0 : Int) * 12 + b ≤ 9223372036854775807 := by omega
      rw [if_pos c]
      simp (disch := omega) only [checkedOp_i64_some, ymNegStep]
      have e : (0 : Int) * 12 + b = 0 + b := by omega
      rw [e]
  | some a =>
    have ha := hy a rfl
    cases mo with
    | none =>
      simp only [Option.getD_none, Option.getD_some]
      by_cases h : a * 12 ≤ 9223372036854775807
      · have c : a * 12 + 0 ≤ 9223372036854775807 := by omega
        rw [if_pos c]
        simp (disch := omega) only [checkedOp_i64_some, ymNegStep]
        have e : a * 12 + 0 = a * 12 := by omega
        rw [e]
      · have c : ¬ a * 12 + 0 ≤ 9223372036854775807 := by omega
        rw [if_neg c]
        simp (disch := omega) only [checkedOp_i64_none]
    | some b =>
      have hb := hm b rfl
      simp only [Option.getD_some]
      by_cases h : a * 12 ≤ 9223372036854775807
      · by_cases h' : a * 12 + b ≤ 9223372036854775807
        · rw [if_pos h']
          simp (disch := omega) only [checkedOp_i64_some, ymNegStep]
        · rw [if_neg h']
          simp (disch := omega) only [checkedOp_i64_some, checkedOp_i64_none]
      · have c : ¬ a * 12 + b ≤ 9223372036854775807 := by omega
        rw [if_neg c]
        simp (disch := omega) only [checkedOp_i64_none]

theorem ymPrint_eq (m : IntMode) (n : Int) (h1 : i64Min ≤ n) (h2 : n ≤ i64Max) :
    ymPrint m n = .ok (printYmDur n) := by
  unfold ymPrint printYmDur
  simp only [i64Min, i64Max] at h1 h2
  simp (disch := omega) only [arith_u64, bind_ok]
  have e1 : ((n.natAbs : Int) / 12).toNat = n.natAbs / 12 := by omega
  have e2 : ((n.natAbs : Int) - (n.natAbs : Int) / 12 * 12).toNat = n.natAbs % 12 := by omega
  have c1 : ((n.natAbs : Int) / 12 = 0) ↔ (n.natAbs / 12 = 0) := by omega
  have c2 : ((n.natAbs : Int) - (n.natAbs : Int) / 12 * 12 = 0) ↔ (n.natAbs % 12 = 0) := by omega
  rw [e1, e2]
  simp only [c1, c2]

/-! ## days and time durations -/

theorem dtStep_eq (m : IntMode) (acc : Int) (c : Option Int) (unit : Int)
    (hp : ∀ v, c = some v → -1000000000000000000000000000000000000 ≤ v * unit ∧
      v * unit ≤ 1000000000000000000000000000000000000)
    (ha : -100000000000000000000000000000000000000 ≤ acc ∧ acc ≤ 100000000000000000000000000000000000000) :
    dtStep m acc c unit = .ok (acc + c.getD 0 * unit) := by
  unfold dtStep
  cases c with
  | none => simp
  | some v =>
    have h := hp v rfl
    simp only [Option.getD_some]
    generalize v * unit = p at h ⊢
    simp (disch := omega) only [arith_i128, bind_ok]

theorem getD_bound (c : Option Int) (k : Int) (h : ∀ v, c = some v → 0 ≤ v ∧ v ≤ k) (hk : 0 ≤ k) :
    0 ≤ c.getD 0 ∧ c.getD 0 ≤ k := by
  cases c with
  | none => simp only [Option.getD_none]; omega
  | some v => simpa using h v rfl

theorem dtCombine_eq (m : IntMode) (d h mi s f : Option Int) (neg : Bool)
    (hd : ∀ v, d = some v → 0 ≤ v ∧ v ≤ 18446744073709551615)
    (hh : ∀ v, h = some v → 0 ≤ v ∧ v ≤ 18446744073709551615)
    (hmi : ∀ v, mi = some v → 0 ≤ v ∧ v ≤ 18446744073709551615)
    (hs : ∀ v, s = some v → 0 ≤ v ∧ v ≤ 18446744073709551615)
    (hf : ∀ v, f = some v → 0 ≤ v ∧ v ≤ 999999999) :
    dtCombine m d h mi s f neg =
      .ok (let n := d.getD 0 * nsPerDay + h.getD 0 * nsPerHour + mi.getD 0 * nsPerMinute + s.getD 0 * nsPerSecond +
              f.getD 0
           if neg then -n else n) := by
  unfold dtCombine
  simp only [nsPerDay, nsPerHour, nsPerMinute, nsPerSecond]
  have bd := getD_bound d _ hd (by omega)
  have bh := getD_bound h _ hh (by omega)
  have bmi := getD_bound mi _ hmi (by omega)
  have bs := getD_bound s _ hs (by omega)
  have bf := getD_bound f _ hf (by omega)
  have s1 : dtStep m 0 d (24 * (60 * (60 * 1000000000))) = .ok (0 + d.getD 0 * (24 * (60 * (60 * 1000000000)))) :=
    dtStep_eq m 0 d _ (by intro v hv; have := hd v hv; omega) (by omega)
  rw [s1]
  simp only [bind_ok]
  have s2 : dtStep m (0 + d.getD 0 * (24 * (60 * (60 * 1000000000)))) h (60 * (60 * 1000000000)) = .ok _ :=
    dtStep_eq m _ h _ (by intro v hv; have := hh v hv; omega) (by omega)
  rw [s2]
  simp only [bind_ok]
  have s3 : dtStep m (0 + d.getD 0 * (24 * (60 * (60 * 1000000000))) + h.getD 0 * (60 * (60 * 1000000000))) mi
      (60 * 1000000000) = .ok _ :=
    dtStep_eq m _ mi _ (by intro v hv; have := hmi v hv; omega) (by omega)
  rw [s3]
  simp only [bind_ok]
  have s4 : dtStep m (0 + d.getD 0 * (24 * (60 * (60 * 1000000000))) + h.getD 0 * (60 * (60 * 1000000000)) +
      mi.getD 0 * (60 * 1000000000)) s 1000000000 = .ok _ :=
    dtStep_eq m _ s _ (by intro v hv; have := hs v hv; omega) (by omega)
  rw [s4]
  simp only [bind_ok]
  cases f with
  | none =>
    simp only [bind_ok, Option.getD_none]
    cases neg
    · simp
    · simp (disch := omega) only [arith_i128, if_true]
      congr 1
      omega
  | some v =>
    have hv := hf v rfl
    simp only [Option.getD_some] at bf ⊢
    simp (disch := omega) only [arith_i128, bind_ok]
    cases neg
    · simp
    · simp (disch := omega) only [arith_i128, if_true]
      congr 1
      omega

theorem dtd_arith_eq (m : IntMode) (x : Int) (h : tI128.fits x = true) : tI128.arith m x sDt = .ok x := by
  unfold IntTy.fits at h
  simp only [Bool.and_eq_true, decide_eq_true_eq] at h
  exact arith_ok _ m x _ h.1 h.2

theorem fits_i128 (x : Int) (h : tI128.fits x = true) :
    -170141183460469231731687303715884105728 ≤ x ∧ x ≤ 170141183460469231731687303715884105727 := by
  unfold IntTy.fits at h
  simp only [Bool.and_eq_true, decide_eq_true_eq] at h
  exact h

theorem fits_i64 (x : Int) (h : tI64.fits x = true) : -9223372036854775808 ≤ x ∧ x ≤ 9223372036854775807 := by
  unfold IntTy.fits at h
  simp only [Bool.and_eq_true, decide_eq_true_eq] at h
  exact h

theorem fits_i32 (x : Int) (h : tI32.fits x = true) : -2147483648 ≤ x ∧ x ≤ 2147483647 := by
  unfold IntTy.fits at h
  simp only [Bool.and_eq_true, decide_eq_true_eq] at h
  exact h

theorem fits_u64 (x : Int) (h : tU64.fits x = true) : 0 ≤ x ∧ x ≤ 18446744073709551615 := by
  unfold IntTy.fits at h
  simp only [Bool.and_eq_true, decide_eq_true_eq] at h
  exact h

theorem i128Abs_eq (m : IntMode) (n : Int) (h : tI128.fits n = true) (hn : n ≠ tI128.lo) :
    i128Abs m n = .ok (n.natAbs : Int) := by
  have hb := fits_i128 n h
  have hn' : n ≠ -170141183460469231731687303715884105728 := hn
  unfold i128Abs
  by_cases h0 : n < 0
  · rw [if_pos h0]
    simp (disch := omega) only [arith_i128]
    congr 1
    omega
  · rw [if_neg h0]
    simp (disch := omega) only [arith_i128]
    congr 1
    omega

theorem usize_wrap_eq (x : Int) (h : 0 ≤ x) : tUsize.wrap x = Temporal.usize x := by
  show wrapTo 18446744073709551615 18446744073709551616 x = x % 18446744073709551616
  unfold wrapTo
  have c : ¬ x % 18446744073709551616 > 18446744073709551615 := by omega
  simp only [c, if_false]

theorem dtdGetDays_eq (m : IntMode) (n : Int) (h : tI128.fits n = true) (hn : n ≠ tI128.lo) :
    dtdGetDays m n = .ok (Temporal.dtdDays n) := by
  unfold dtdGetDays Temporal.dtdDays
  rw [i128Abs_eq m n h hn]
  simp only [bind_ok, nsPerDay, nsPerHour, nsPerMinute, nsPerSecond]
  simp (disch := omega) only [Int.tdiv_eq_ediv_of_nonneg, usize_wrap_eq]

theorem dtdGetHours_eq (m : IntMode) (n : Int) (h : tI128.fits n = true) (hn : n ≠ tI128.lo) :
    dtdGetHours m n = .ok (Temporal.dtdHours n) := by
  unfold dtdGetHours Temporal.dtdHours
  rw [i128Abs_eq m n h hn]
  simp only [bind_ok, nsPerDay, nsPerHour, nsPerMinute, nsPerSecond]
  simp (disch := omega) only [Int.tdiv_eq_ediv_of_nonneg, Int.tmod_eq_emod_of_nonneg, usize_wrap_eq]

theorem dtdGetMinutes_eq (m : IntMode) (n : Int) (h : tI128.fits n = true) (hn : n ≠ tI128.lo) :
    dtdGetMinutes m n = .ok (Temporal.dtdMinutes n) := by
  unfold dtdGetMinutes Temporal.dtdMinutes
  rw [i128Abs_eq m n h hn]
  simp only [bind_ok, nsPerDay, nsPerHour, nsPerMinute, nsPerSecond]
  simp (disch := omega) only [Int.tdiv_eq_ediv_of_nonneg, Int.tmod_eq_emod_of_nonneg, usize_wrap_eq]

theorem dtdGetSeconds_eq (m : IntMode) (n : Int) (h : tI128.fits n = true) (hn : n ≠ tI128.lo) :
    dtdGetSeconds m n = .ok (Temporal.dtdSeconds n) := by
  unfold dtdGetSeconds Temporal.dtdSeconds
  rw [i128Abs_eq m n h hn]
  simp only [bind_ok, nsPerDay, nsPerHour, nsPerMinute, nsPerSecond]
  simp (disch := omega) only [Int.tdiv_eq_ediv_of_nonneg, Int.tmod_eq_emod_of_nonneg, usize_wrap_eq]

theorem dtdRound_eq (m : IntMode) (ns unit : Int) (h0 : 0 ≤ ns)
    (h1 : ns ≤ 170141183460469231731687303715884105727) (hu : 0 < unit) :
    dtdRound m ns unit = .ok (ns / unit, ns % unit) := by
  unfold dtdRound
  rw [Int.tdiv_eq_ediv_of_nonneg h0]
  have hm := Int.emod_nonneg ns (Int.ne_of_gt hu)
  have hl := Int.emod_lt_of_pos ns hu
  have hd := Int.mul_ediv_add_emod ns unit
  have hp : ns / unit * unit = ns - ns % unit := by
    rw [Int.mul_comm]; omega
  have hq : 0 ≤ ns / unit * unit := Int.mul_nonneg (Int.ediv_nonneg h0 (Int.le_of_lt hu)) (Int.le_of_lt hu)
  dsimp only
  rw [hp]
  have a1 : tI128.arith m (ns - ns % unit) sDt = .ok (ns - ns % unit) := arith_i128 m _ _ (by omega) (by omega)
  rw [a1, bind_ok]
  have a2 : tI128.arith m (ns - (ns - ns % unit)) sDt = .ok (ns - (ns - ns % unit)) :=
    arith_i128 m _ _ (by omega) (by omega)
  rw [a2, bind_ok]
  congr 2
  omega

set_option maxHeartbeats 400000 in
theorem dtd_components (a : Nat) :
    (((a : Int) / 86400000000000).toNat = a / 86400000000000) ∧
    (((a : Int) % 86400000000000 / 3600000000000).toNat = a % 86400000000000 / 3600000000000) ∧
    (((a : Int) % 86400000000000 % 3600000000000 / 60000000000).toNat = a % 3600000000000 / 60000000000) ∧
    (((a : Int) % 86400000000000 % 3600000000000 % 60000000000 / 1000000000).toNat = a % 60000000000 / 1000000000) ∧
    (((a : Int) % 86400000000000 % 3600000000000 % 60000000000 % 1000000000).toNat = a % 1000000000) := by
  refine ⟨by omega, by omega, by omega, by omega, by omega⟩

theorem dtd_zero (a : Nat) : (a / 86400000000000 = 0 ∧ a % 86400000000000 / 3600000000000 = 0 ∧
      a % 3600000000000 / 60000000000 = 0 ∧ a % 60000000000 / 1000000000 = 0 ∧
      a % 1000000000 = 0) ↔ a = 0 := by omega

theorem dtdPrint_eq (m : IntMode) (n : Int) (h : tI128.fits n = true) (hn : n ≠ tI128.lo) :
    dtdPrint m n = .ok (printDtDur n) := by
  have hb := fits_i128 n h
  have hn' : n ≠ -170141183460469231731687303715884105728 := hn
  unfold dtdPrint printDtDur
  rw [i128Abs_eq m n h hn]
  have u1 : nsPerDay = 86400000000000 := by decide
  have u2 : nsPerHour = 3600000000000 := by decide
  have u3 : nsPerMinute = 60000000000 := by decide
  have u4 : nsPerSecond = 1000000000 := by decide
  rw [u1, u2, u3, u4]
  have hA : (0 : Int) ≤ n.natAbs ∧ (n.natAbs : Int) ≤ 170141183460469231731687303715884105727 := by omega
  generalize n.natAbs = a at hA ⊢
  have r1 : dtdRound m (a : Int) 86400000000000 = .ok _ := dtdRound_eq m _ _ hA.1 hA.2 (by omega)
  rw [bind_ok, r1, bind_ok]
  have r2 : dtdRound m ((a : Int) % 86400000000000) 3600000000000 = .ok _ :=
    dtdRound_eq m _ _ (by omega) (by omega) (by omega)
  dsimp only
  rw [r2, bind_ok]
  have r3 : dtdRound m ((a : Int) % 86400000000000 % 3600000000000) 60000000000 = .ok _ :=
    dtdRound_eq m _ _ (by omega) (by omega) (by omega)
  dsimp only
  rw [r3, bind_ok]
  have r4 : dtdRound m ((a : Int) % 86400000000000 % 3600000000000 % 60000000000) 1000000000 = .ok _ :=
    dtdRound_eq m _ _ (by omega) (by omega) (by omega)
  dsimp only
  rw [r4, bind_ok]
  dsimp only
  obtain ⟨e1, e2, e3, e4, e5⟩ := dtd_components a
  rw [e1, e2, e3, e4, e5]
  simp only [dtd_zero a]

/-- Below 2⁶⁴ ns the narrowed `Display` (the mutant `dtdPrintU64`) prints what `Display` prints. -/
theorem dtdPrintU64_eq (n : Int) (h : n.natAbs < 18446744073709551616) : dtdPrintU64 n = printDtDur n := by
  unfold dtdPrintU64 printDtDur
  rw [wrap_u64_id (n.natAbs : Int) (by omega) (by omega)]
  simp only [Int.toNat_natCast]
  generalize n.natAbs = a
  have hz := dtd_zero a
  by_cases ha : a = 0
  · subst ha; simp
  · have : ¬ (a / 86400000000000 = 0 ∧ a % 86400000000000 / 3600000000000 = 0 ∧
      a % 3600000000000 / 60000000000 = 0 ∧ a % 60000000000 / 1000000000 = 0 ∧ a % 1000000000 = 0) :=
      fun hc => ha (hz.1 hc)
    rw [if_neg this, if_neg ha]

/-- Inside `i64` seconds the offset of `time_4` is the one computed on unbounded integers
(`Dmn.Temporal.timeFromNumbers`). -/
theorem time4Offset_eq (n : Int) (h : tI64.fits (Int.tdiv n nsPerSecond) = true) :
    time4Offset n =
      (if -53999 ≤ Int.tdiv n 1000000000 ∧ Int.tdiv n 1000000000 ≤ 53999 then some (Int.tdiv n 1000000000) else none) := by
  have hb := fits_i64 _ h
  unfold time4Offset dtdAsSeconds
  have e : tIsize.wrap (Int.tdiv n nsPerSecond) = Int.tdiv n 1000000000 := wrap_i64_id _ hb.1 hb.2
  simp only [e]
  by_cases hg : -53999 ≤ Int.tdiv n 1000000000 ∧ Int.tdiv n 1000000000 ≤ 53999
  · rw [if_pos hg, if_pos hg, wrap_i32_id _ (by omega) (by omega)]
  · rw [if_neg hg, if_neg hg]

/-! ## dates -/

theorem dateYmDuration_eq (m : IntMode) (a b : Date) (ha : tI32.fits a.y = true) (hb : tI32.fits b.y = true)
    (ham : a.m < 256) (hbm : b.m < 256) : dateYmDuration m a b = .ok (a.ymDuration b) := by
  have ha' := fits_i32 _ ha
  have hb' := fits_i32 _ hb
  unfold dateYmDuration Date.ymDuration
  by_cases hc : a.compare b = .lt
  · rw [if_pos hc, if_pos hc]
    by_cases hd : a.d > b.d
    · simp (disch := omega) only [arith_i64, bind_ok, hd, decide_true, if_true]
    · simp (disch := omega) only [arith_i64, bind_ok, hd, decide_false, if_false, Bool.false_eq_true]
  · rw [if_neg hc, if_neg hc]
    by_cases hd : b.d > a.d
    · simp (disch := omega) only [arith_i64, bind_ok, hd, decide_true, if_true]
    · simp (disch := omega) only [arith_i64, bind_ok, hd, decide_false, if_false, Bool.false_eq_true]

macro "arith64" : tactic =>
  `(tactic| (rw [arith_i64 _ _ _ ?_ ?_, bind_ok] <;> try omega))

theorem dateWeekdayFallback_eq (m : IntMode) (d : Date) (hy : tI32.fits d.y = true) (hm : d.m < 256)
    (hd : d.d < 256) : dateWeekdayFallback m d = .ok (Cal.weekday (daysFromCivil d.y d.m d.d)) := by
  have hy' := fits_i32 _ hy
  unfold dateWeekdayFallback Cal.weekday daysFromCivil
  by_cases h2 : (d.m : Int) ≤ 2
  · have h2' : ¬ (d.m : Int) > 2 := by omega
    simp only [h2, h2', if_true, if_false]
    simp (disch := omega) only [Int.tdiv_eq_ediv_of_nonneg]
    iterate 4 arith64
    rw [Int.tdiv_eq_ediv_of_nonneg (by omega)]
    iterate 11 arith64
    rw [wrap_u32_id _ (by omega) (by omega)]
    refine congrArg Outcome.ok (congrArg (· + 1) (congrArg (· % 7) ?_))
    omega
  · have h2' : (d.m : Int) > 2 := by omega
    simp only [h2, h2', if_true, if_false, bind_ok]
    simp (disch := omega) only [Int.tdiv_eq_ediv_of_nonneg]
    iterate 3 arith64
    rw [Int.tdiv_eq_ediv_of_nonneg (by omega)]
    iterate 11 arith64
    rw [wrap_u32_id _ (by omega) (by omega)]
    refine congrArg Outcome.ok (congrArg (· + 1) (congrArg (· % 7) ?_))
    omega

end Dmn.TemporalMachine
