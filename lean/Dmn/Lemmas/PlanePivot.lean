import Dmn.Lemmas.PlaneBasic

/-!
# `pivot` on rectangular planes is the (cell-translating) transposition, and an involution
-/

namespace Dmn.Recog
open Outcome (ok error)

/-- all rows have length `w` -/
def Rectangular (w : Nat) (rows : List (List Cell)) : Prop := ∀ r ∈ rows, r.length = w

theorem Rectangular.tail {w : Nat} {r : List Cell} {rs : List (List Cell)}
    (h : Rectangular w (r :: rs)) : Rectangular w rs :=
  fun x hx => h x (by simp [hx])

theorem Rectangular.tails {w : Nat} {rows : List (List Cell)} (h : Rectangular (w + 1) rows) :
    Rectangular w (rows.map List.tail) := by
  intro r hr
  simp only [List.mem_map] at hr
  obtain ⟨r', hr', rfl⟩ := hr
  have := h r' hr'
  simp [this]

@[simp] theorem pivotCell_pivotCell (c : Cell) : pivotCell (pivotCell c) = c := by
  cases c <;> rfl

theorem takeHeads_rect {w : Nat} : ∀ {rows : List (List Cell)}, Rectangular (w + 1) rows →
    takeHeads rows = ok (rows.map (fun r => pivotCell (r.headD .mainX)), rows.map List.tail)
  | [], _ => rfl
  | [] :: rest, h => by
    have := h [] (by simp)
    simp at this
  | (c :: cs) :: rest, h => by
    have ih := takeHeads_rect (w := w) (rows := rest) (Rectangular.tail h)
    simp [takeHeads, ih]

theorem pivotLoop_rect : ∀ {w : Nat} {rows : List (List Cell)}, Rectangular w rows →
    pivotLoop w rows = ok (trPure w rows)
  | 0, _, _ => rfl
  | w + 1, rows, h => by
    simp only [pivotLoop, takeHeads_rect h, pivotLoop_rect (Rectangular.tails h), trPure]

theorem trPure_nil : ∀ (w : Nat), trPure w [] = List.replicate w []
  | 0 => rfl
  | w + 1 => by simp [trPure, trPure_nil w, List.replicate_succ]

@[simp] theorem length_trPure : ∀ (w : Nat) (rows : List (List Cell)), (trPure w rows).length = w
  | 0, _ => rfl
  | w + 1, rows => by simp [trPure, length_trPure w]

theorem trPure_cons : ∀ {w : Nat} {r : List Cell} {rs : List (List Cell)}, r.length = w →
    Rectangular w rs →
    trPure w (r :: rs) = List.zipWith (· :: ·) (r.map pivotCell) (trPure w rs)
  | 0, r, rs, hr, _ => by
    have : r = [] := List.eq_nil_of_length_eq_zero hr
    subst this; simp [trPure]
  | w + 1, [], rs, hr, _ => by simp at hr
  | w + 1, c :: cs, rs, hr, h => by
    have hcs : cs.length = w := by simpa using hr
    have ih := trPure_cons (w := w) (r := cs) (rs := rs.map List.tail) hcs (Rectangular.tails h)
    simp only [trPure, List.map_cons, List.tail_cons, List.headD_cons, ih, List.zipWith_cons_cons]

theorem rectangular_trPure : ∀ (w : Nat) (rows : List (List Cell)),
    Rectangular rows.length (trPure w rows)
  | 0, _ => by intro r hr; simp [trPure] at hr
  | w + 1, rows => by
    intro r hr
    simp only [trPure, List.mem_cons] at hr
    rcases hr with hr | hr
    · subst hr; simp
    · have := rectangular_trPure w (rows.map List.tail) r hr
      simpa using this

theorem map_head_zipWith : ∀ (a : List Cell) (B : List (List Cell)), a.length = B.length →
    (List.zipWith (· :: ·) a B).map (fun r => pivotCell (r.headD .mainX)) = a.map pivotCell
  | [], [], _ => rfl
  | [], _ :: _, h => by simp at h
  | _ :: _, [], h => by simp at h
  | x :: a, b :: B, h => by
    have := map_head_zipWith a B (by simpa using h)
    simp only [List.zipWith_cons_cons, List.map_cons, List.headD_cons, this]

theorem map_tail_zipWith : ∀ (a : List Cell) (B : List (List Cell)), a.length = B.length →
    (List.zipWith (· :: ·) a B).map List.tail = B
  | [], [], _ => rfl
  | [], _ :: _, h => by simp at h
  | _ :: _, [], h => by simp at h
  | x :: a, b :: B, h => by
    have := map_tail_zipWith a B (by simpa using h)
    simp only [List.zipWith_cons_cons, List.map_cons, List.tail_cons, this]

/-- Transposing twice gives the plane back. -/
theorem trPure_trPure {w : Nat} : ∀ {rows : List (List Cell)}, Rectangular w rows →
    trPure rows.length (trPure w rows) = rows
  | [], _ => rfl
  | r :: rs, h => by
    have hr : r.length = w := h r (by simp)
    have ih := trPure_trPure (Rectangular.tail h)
    rw [trPure_cons hr (Rectangular.tail h)]
    have hl : (r.map pivotCell).length = (trPure w rs).length := by simp [hr]
    simp only [List.length_cons, trPure, map_head_zipWith _ _ hl, map_tail_zipWith _ _ hl, ih]
    simp [Function.comp_def]

/-- `pivot` of a rectangular plane with at least one row. -/
theorem pivotRows_rect {w : Nat} {rows : List (List Cell)} (h : Rectangular w rows)
    (hne : rows ≠ []) : pivotRows rows = ok (trPure w rows) := by
  cases rows with
  | nil => exact absurd rfl hne
  | cons r rs =>
    have hr : r.length = w := h r (by simp)
    simp only [pivotRows, hr, pivotLoop_rect h]

/-- `pivot` undoes the transposition (used for the rules-as-columns orientation). -/
theorem pivotRows_trPure {w : Nat} {rows : List (List Cell)} (h : Rectangular w rows)
    (hw : 0 < w) : pivotRows (trPure w rows) = ok rows := by
  have hne : trPure w rows ≠ [] := by
    intro he
    have := length_trPure w rows
    rw [he] at this
    simp at this; omega
  rw [pivotRows_rect (rectangular_trPure w rows) hne, trPure_trPure h]

end Dmn.Recog
