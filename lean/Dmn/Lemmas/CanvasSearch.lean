import Dmn.Lemmas.CanvasBasic

/-!
# What the searches of the scanner find

Exact results (not only panic freedom) of the cursor searches of `canvas.rs` on ANY content:
`search` finds the first occurrence in reading order, `search_right` / `search_down` /
`search_left` / `search_up` find the next searched character when only allowed characters lie
between; the walk around a rectangle (`recognize_region`, `recognize_rectangle`, the information
item box) returns the rectangle whose border it walked; `text_from_rect` cuts out the interior.
These are the geometric building blocks of the round trip `scanText (drawText t) = planeOf t`.
-/

namespace Dmn.Recog
open Scan (ok error)

/-- the character of a layer at a position (a blank outside the content) -/
def chOf (c : Content) (l : Layer) (y x : Nat) : Char :=
  match c[y]? with
  | some row =>
    match row[x]? with
    | some p => p.get l
    | none => ' '
  | none => ' '

theorem chAt_eq {c : Content} {R W : Nat} (h : Shape c R W) {y x : Nat} (hy : y < R) (hx : x < W)
    (l : Layer) : chAt c y x l = ok (chOf c l y x) := by
  obtain ⟨row, hr, hw⟩ := h.row hy
  have hx' : x < row.size := by rw [hw]; exact hx
  simp [chAt, pxAt, chOf, hr, Array.getElem?_eq_getElem hx']

/-- the searched character is not at the position, and the character there may be stepped over -/
def Passes (searched allowed : List Char) (ch : Char) : Prop :=
  searched.contains ch = false ∧ allowed.contains ch = true

theorem stepOf_found {s a : List Char} {ch : Char} (h : s.contains ch = true) :
    stepOf s a ch = .found := by
  unfold stepOf
  rw [if_pos h]

theorem stepOf_go {s a : List Char} {ch : Char} (h : Passes s a ch) : stepOf s a ch = .go := by
  unfold stepOf
  rw [if_neg (by rw [h.1]; decide), if_neg (by rw [h.2]; decide)]

/-! ## The four directed searches -/

theorem searchRightLoop_spec {c : Content} {R W : Nat} (h : Shape c R W) {y : Nat} (hy : y < R)
    (l : Layer) (s a : List Char) (xt : Nat) (hxt : xt < W)
    (hfound : s.contains (chOf c l y xt) = true) :
    ∀ (n x : Nat), x < xt → xt ≤ x + n →
      (∀ x', x < x' → x' < xt → Passes s a (chOf c l y x')) →
      searchRightLoop c y l s a n x = ok (chOf c l y xt, ⟨xt, y⟩)
  | 0, x, h1, h2, _ => by omega
  | n + 1, x, h1, h2, hgo => by
    have hx1 : x + 1 < W := by omega
    simp only [searchRightLoop, chAt_eq h hy hx1]
    by_cases he : x + 1 = xt
    · subst he
      rw [stepOf_found hfound]
    · rw [stepOf_go (hgo (x + 1) (by omega) (by omega))]
      exact searchRightLoop_spec h hy l s a xt hxt hfound n (x + 1) (by omega) (by omega)
        (fun x' h3 h4 => hgo x' (by omega) h4)

theorem searchDownLoop_spec {c : Content} {R W : Nat} (h : Shape c R W) {x : Nat} (hx : x < W)
    (l : Layer) (s a : List Char) (yt : Nat) (hyt : yt < R)
    (hfound : s.contains (chOf c l yt x) = true) :
    ∀ (n y : Nat), y < yt → yt ≤ y + n →
      (∀ y', y < y' → y' < yt → Passes s a (chOf c l y' x)) →
      searchDownLoop c x l s a n y = ok (chOf c l yt x, ⟨x, yt⟩)
  | 0, y, h1, h2, _ => by omega
  | n + 1, y, h1, h2, hgo => by
    have hy1 : y + 1 < R := by omega
    simp only [searchDownLoop, chAt_eq h hy1 hx]
    by_cases he : y + 1 = yt
    · subst he
      rw [stepOf_found hfound]
    · rw [stepOf_go (hgo (y + 1) (by omega) (by omega))]
      exact searchDownLoop_spec h hx l s a yt hyt hfound n (y + 1) (by omega) (by omega)
        (fun y' h3 h4 => hgo y' (by omega) h4)

theorem searchLeftLoop_spec {c : Content} {R W : Nat} (h : Shape c R W) {y : Nat} (hy : y < R)
    (l : Layer) (s a : List Char) (xt : Nat)
    (hfound : s.contains (chOf c l y xt) = true) :
    ∀ (x : Nat), xt < x → x ≤ W →
      (∀ x', xt < x' → x' < x → Passes s a (chOf c l y x')) →
      searchLeftLoop c y l s a x = ok (chOf c l y xt, ⟨xt, y⟩)
  | 0, h1, _, _ => by omega
  | x + 1, h1, h2, hgo => by
    have hx1 : x < W := by omega
    simp only [searchLeftLoop, chAt_eq h hy hx1]
    by_cases he : x = xt
    · subst he
      rw [stepOf_found hfound]
    · rw [stepOf_go (hgo x (by omega) (by omega))]
      exact searchLeftLoop_spec h hy l s a xt hfound x (by omega) (by omega)
        (fun x' h3 h4 => hgo x' h3 (by omega))

theorem searchUpLoop_spec {c : Content} {R W : Nat} (h : Shape c R W) {x : Nat} (hx : x < W)
    (l : Layer) (s a : List Char) (yt : Nat)
    (hfound : s.contains (chOf c l yt x) = true) :
    ∀ (y : Nat), yt < y → y ≤ R →
      (∀ y', yt < y' → y' < y → Passes s a (chOf c l y' x)) →
      searchUpLoop c x l s a y = ok (chOf c l yt x, ⟨x, yt⟩)
  | 0, h1, _, _ => by omega
  | y + 1, h1, h2, hgo => by
    have hy1 : y < R := by omega
    simp only [searchUpLoop, chAt_eq h hy1 hx]
    by_cases he : y = yt
    · subst he
      rw [stepOf_found hfound]
    · rw [stepOf_go (hgo y (by omega) (by omega))]
      exact searchUpLoop_spec h hx l s a yt hfound y (by omega) (by omega)
        (fun y' h3 h4 => hgo y' h3 (by omega))

/-- `search_right`: from `(x, y)`, the next searched character at `(xt, y)`, only allowed
characters between. -/
theorem searchRight_spec {c : Content} {R W : Nat} (h : Shape c R W) {x y xt : Nat} (hy : y < R)
    (hx : x < xt) (hxt : xt < W) (l : Layer) (s a : List Char)
    (hfound : s.contains (chOf c l y xt) = true)
    (hgo : ∀ x', x < x' → x' < xt → Passes s a (chOf c l y x')) :
    searchRight c ⟨x, y⟩ l s a = ok (chOf c l y xt, ⟨xt, y⟩) := by
  obtain ⟨row, hrow, hw⟩ := h.row hy
  have hne : ¬ row.size = 0 := by omega
  simp only [searchRight, hrow, hne, if_false]
  exact searchRightLoop_spec h hy l s a xt hxt hfound _ x hx (by omega) hgo

theorem searchDown_spec {c : Content} {R W : Nat} (h : Shape c R W) {x y yt : Nat} (hx : x < W)
    (hy : y < yt) (hyt : yt < R) (l : Layer) (s a : List Char)
    (hfound : s.contains (chOf c l yt x) = true)
    (hgo : ∀ y', y < y' → y' < yt → Passes s a (chOf c l y' x)) :
    searchDown c ⟨x, y⟩ l s a = ok (chOf c l yt x, ⟨x, yt⟩) := by
  have hs := h.rows
  have hne : ¬ c.size = 0 := by omega
  simp only [searchDown, hne, if_false]
  exact searchDownLoop_spec h hx l s a yt hyt hfound _ y hy (by omega) hgo

theorem searchLeft_spec {c : Content} {R W : Nat} (h : Shape c R W) {x y xt : Nat} (hy : y < R)
    (hx : xt < x) (hxW : x ≤ W) (l : Layer) (s a : List Char)
    (hfound : s.contains (chOf c l y xt) = true)
    (hgo : ∀ x', xt < x' → x' < x → Passes s a (chOf c l y x')) :
    searchLeft c ⟨x, y⟩ l s a = ok (chOf c l y xt, ⟨xt, y⟩) :=
  searchLeftLoop_spec h hy l s a xt hfound x hx hxW hgo

theorem searchUp_spec {c : Content} {R W : Nat} (h : Shape c R W) {x y yt : Nat} (hx : x < W)
    (hy : yt < y) (hyR : y ≤ R) (l : Layer) (s a : List Char)
    (hfound : s.contains (chOf c l yt x) = true)
    (hgo : ∀ y', yt < y' → y' < y → Passes s a (chOf c l y' x)) :
    searchUp c ⟨x, y⟩ l s a = ok (chOf c l yt x, ⟨x, yt⟩) :=
  searchUpLoop_spec h hx l s a yt hfound y hy hyR hgo

theorem moveTo_in {c : Content} {R W : Nat} (h : Shape c R W) {x y : Nat} (hy : y < R) (hx : x < W) :
    moveTo c ⟨x, y⟩ = ok ⟨x, y⟩ := by
  obtain ⟨row, hrow, hw⟩ := h.row hy
  have hy' : y < c.size := by rw [h.rows]; exact hy
  have hx' : x < row.size := by rw [hw]; exact hx
  simp only [moveTo, hy', if_true, hrow, hx']

/-! ## `search`: the first occurrence in reading order -/

theorem searchInRow_none (row : Array Px) (l : Layer) (s : List Char) :
    ∀ (n x : Nat), x + n ≤ row.size →
      (∀ x', x ≤ x' → x' < x + n → ∀ p, row[x']? = some p → s.contains (p.get l) = false) →
      searchInRow row l s n x = ok none
  | 0, _, _, _ => rfl
  | n + 1, x, hn, hno => by
    have hlt : x < row.size := by omega
    have hx := hno x (Nat.le_refl _) (by omega) _ (Array.getElem?_eq_getElem hlt)
    simp only [searchInRow, Array.getElem?_eq_getElem hlt, hx, Bool.false_eq_true, if_false]
    exact searchInRow_none row l s n (x + 1) (by omega) (fun x' h1 h2 => hno x' (by omega) (by omega))

theorem searchInRow_found (row : Array Px) (l : Layer) (s : List Char) (xt : Nat) (p : Px)
    (hp : row[xt]? = some p) (hs : s.contains (p.get l) = true) :
    ∀ (n x : Nat), x ≤ xt → xt < x + n →
      (∀ x', x ≤ x' → x' < xt → ∀ q, row[x']? = some q → s.contains (q.get l) = false) →
      searchInRow row l s n x = ok (some (p.get l, xt))
  | 0, x, h1, h2, _ => by omega
  | n + 1, x, h1, h2, hno => by
    by_cases he : x = xt
    · subst he
      simp only [searchInRow, hp, hs, if_true]
    · have hlt : x < row.size := by
        obtain ⟨hlt, _⟩ := Array.getElem?_eq_some_iff.mp hp
        omega
      have hx := hno x (Nat.le_refl _) (by omega) _ (Array.getElem?_eq_getElem hlt)
      simp only [searchInRow, Array.getElem?_eq_getElem hlt, hx, Bool.false_eq_true, if_false]
      exact searchInRow_found row l s xt p hp hs n (x + 1) (by omega) (by omega)
        (fun x' h3 h4 => hno x' (by omega) h4)

theorem searchRows_found {c : Content} {R W : Nat} (h : Shape c R W) (l : Layer) (s : List Char)
    (xt yt : Nat) (hyt : yt < R) (hxt : xt < W) (hs : s.contains (chOf c l yt xt) = true)
    (hrow : ∀ x', x' < xt → s.contains (chOf c l yt x') = false) :
    ∀ (n r : Nat), r ≤ yt → yt < r + n →
      (∀ y' x', r ≤ y' → y' < yt → x' < W → s.contains (chOf c l y' x') = false) →
      searchRows c l s n r = ok (some (chOf c l yt xt, ⟨xt, yt⟩))
  | 0, r, h1, h2, _ => by omega
  | n + 1, r, h1, h2, hno => by
    have hr : r < R := by omega
    obtain ⟨row, hrw, hw⟩ := h.row hr
    simp only [searchRows, hrw]
    by_cases he : r = yt
    · subst he
      have hx' : xt < row.size := by omega
      have hp : row[xt]? = some row[xt] := Array.getElem?_eq_getElem hx'
      have hch : ∀ x', x' < row.size → chOf c l r x' = (row[x']?.map (fun p => p.get l)).getD ' ' := by
        intro x' hx''
        simp [chOf, hrw, Array.getElem?_eq_getElem hx'']
      have hs' : s.contains (row[xt].get l) = true := by
        have := hch xt hx'
        rw [Array.getElem?_eq_getElem hx'] at this
        simp only [Option.map_some, Option.getD_some] at this
        rw [← this]; exact hs
      have hfound := searchInRow_found row l s xt row[xt] hp hs' row.size 0 (by omega) (by omega)
        (by
          intro x' _ h4 q hq
          obtain ⟨hlt, hq'⟩ := Array.getElem?_eq_some_iff.mp hq
          have := hch x' hlt
          rw [hq] at this
          simp only [Option.map_some, Option.getD_some] at this
          rw [← this]; exact hrow x' h4)
      rw [hfound]
      have := hch xt hx'
      rw [Array.getElem?_eq_getElem hx'] at this
      simp only [Option.map_some, Option.getD_some] at this
      simp only [this]
    · have hnone := searchInRow_none row l s row.size 0 (by omega) (by
        intro x' _ h4 p hp
        obtain ⟨hlt, _⟩ := Array.getElem?_eq_some_iff.mp hp
        have := hno r x' (Nat.le_refl _) (by omega) (by omega)
        simp only [chOf, hrw, hp] at this
        exact this)
      rw [hnone]
      exact searchRows_found h l s xt yt hyt hxt hs hrow n (r + 1) (by omega) (by omega)
        (fun y' x' h3 h4 h5 => hno y' x' (by omega) h4 h5)

/-- `search` from the origin: the first position in reading order (row by row, left to right)
that holds a searched character. -/
theorem search_first {c : Content} {R W : Nat} (h : Shape c R W) (l : Layer) (s : List Char)
    (xt yt : Nat) (hyt : yt < R) (hxt : xt < W) (hs : s.contains (chOf c l yt xt) = true)
    (hrow : ∀ x', x' < xt → s.contains (chOf c l yt x') = false)
    (habove : ∀ y' x', y' < yt → x' < W → s.contains (chOf c l y' x') = false) :
    search c ⟨0, 0⟩ l s = ok (chOf c l yt xt, ⟨xt, yt⟩) := by
  have hR : 0 < R := by omega
  obtain ⟨row, hrw, hw⟩ := h.row hR
  simp only [search, hrw]
  by_cases h0 : yt = 0
  · subst h0
    have hx' : xt < row.size := by omega
    have hch : ∀ x', x' < row.size → chOf c l 0 x' = row[x']!.get l := by
      intro x' hx''
      simp [chOf, hrw, Array.getElem?_eq_getElem hx'', getElem!_pos row x' hx'']
    have hfound := searchInRow_found row l s xt row[xt] (Array.getElem?_eq_getElem hx')
      (by have := hch xt hx'; rw [getElem!_pos row xt hx'] at this; rw [← this]; exact hs)
      (row.size - 0) 0 (by omega) (by omega)
      (by
        intro x' _ h4 q hq
        obtain ⟨hlt, hq'⟩ := Array.getElem?_eq_some_iff.mp hq
        have := hch x' hlt
        rw [getElem!_pos row x' hlt, hq'] at this
        rw [← this]; exact hrow x' h4)
    rw [hfound]
    have := hch xt hx'
    rw [getElem!_pos row xt hx'] at this
    simp only [this]
  · have hnone := searchInRow_none row l s (row.size - 0) 0 (by omega) (by
      intro x' _ h4 p hp
      have := habove 0 x' (by omega) (by omega)
      simp only [chOf, hrw, hp] at this
      exact this)
    rw [hnone]
    have := searchRows_found h l s xt yt hyt hxt hs hrow (c.size - (0 + 1)) (0 + 1) (by omega)
      (by have := h.rows; omega) (fun y' x' _ h4 h5 => habove y' x' h4 h5)
    rw [this]

/-! ## The walk around a rectangle -/

/-- The border of the rectangle with corners `(l, t)` and `(r, b)` on a layer, as the walk of
`recognize_region` / `recognize_rectangle` / the information item box needs it: the four corners
hold the searched characters of the four searches, the positions between them on the four sides
hold characters the searches step over. -/
structure BoxOn (c : Content) (layer : Layer) (l t r b : Nat)
    (sr ar sd ad sl al su au : List Char) : Prop where
  top : ∀ x, l < x → x < r → Passes sr ar (chOf c layer t x)
  topRight : sr.contains (chOf c layer t r) = true
  right : ∀ y, t < y → y < b → Passes sd ad (chOf c layer y r)
  bottomRight : sd.contains (chOf c layer b r) = true
  bottom : ∀ x, l < x → x < r → Passes sl al (chOf c layer b x)
  bottomLeft : sl.contains (chOf c layer b l) = true
  left : ∀ y, t < y → y < b → Passes su au (chOf c layer y l)
  topLeft : su.contains (chOf c layer t l) = true

/-- **The walk returns the rectangle it walked around** — on any content, any layer, for the
searched / allowed characters of any of the three users of the walk. -/
theorem walkRectangle_box {c : Content} {R W : Nat} (h : Shape c R W) {layer : Layer}
    {l t r b : Nat} {sr ar sd ad sl al su au : List Char}
    (hlr : l < r) (hr : r < W) (htb : t < b) (hb : b < R)
    (box : BoxOn c layer l t r b sr ar sd ad sl al su au) :
    walkRectangle c layer ⟨l, t⟩ sr ar sd ad sl al su au = ok ⟨l, t, r + 1, b + 1⟩ := by
  unfold walkRectangle
  rw [moveTo_in h (by omega) (by omega)]
  simp only [Scan.ok_bind]
  rw [searchRight_spec h (by omega) hlr hr layer sr ar box.topRight box.top]
  simp only [Scan.ok_bind]
  rw [searchDown_spec h hr htb hb layer sd ad box.bottomRight box.right]
  simp only [Scan.ok_bind]
  rw [searchLeft_spec h hb hlr (by omega) layer sl al box.bottomLeft box.bottom]
  simp only [Scan.ok_bind]
  rw [searchUp_spec h (by omega) htb (by omega) layer su au box.topLeft box.left]
  simp only [Scan.ok_bind]
  simp [closeRectangle]

/-- the closed box of a region in the thin layer (`recognize_region`, canvas.rs:378) -/
abbrev RegionBox (c : Content) (layer : Layer) (l t r b : Nat) : Prop :=
  BoxOn c layer l t r b cornersTopRight ['─', '┴'] cornersBottomRight ['│', '├']
    cornersBottomLeft ['─', '┬'] cornersTopLeft ['│', '┤']

/-- the closed box of a grid rectangle in the grid layer (`recognize_rectangle`, canvas.rs:396) -/
abbrev GridBox (c : Content) (layer : Layer) (l t r b : Nat) : Prop :=
  BoxOn c layer l t r b ['┼', '┬', '┤', '┐'] ['─'] ['┼', '┴', '┤', '┘'] ['│']
    ['┼', '└', '├', '┴'] ['─'] ['┼', '┬', '├', '┌'] ['│']

theorem recognizeRegion_box {c : Content} {R W : Nat} (h : Shape c R W) {layer : Layer}
    {l t r b : Nat} (hlr : l < r) (hr : r < W) (htb : t < b) (hb : b < R)
    (box : RegionBox c layer l t r b) :
    recognizeRegion c layer ⟨l, t⟩ = ok ⟨l, t, r + 1, b + 1⟩ :=
  walkRectangle_box h hlr hr htb hb box

theorem recognizeRectangle_box {c : Content} {R W : Nat} (h : Shape c R W) {layer : Layer}
    {l t r b : Nat} (hlr : l < r) (hr : r < W) (htb : t < b) (hb : b < R)
    (box : GridBox c layer l t r b) :
    recognizeRectangle c layer ⟨l, t⟩ = ok ⟨l, t, r + 1, b + 1⟩ :=
  walkRectangle_box h hlr hr htb hb box

/-! ## A sample content (non-vacuity of the box theorems) -/

/-- a 3 × 3 content with one closed box in the thin and grid layers -/
def boxContent : Content :=
  let px (ch : Char) : Px := ⟨ch, ch, ch, ch⟩
  #[#[px '┌', px '─', px '┐'], #[px '│', px 'x', px '│'], #[px '└', px '─', px '┘']]

theorem boxContent_shape : Shape boxContent 3 3 := by
  refine ⟨rfl, ?_⟩
  intro y row hr
  have hy : y < 3 := by
    obtain ⟨hlt, _⟩ := Array.getElem?_eq_some_iff.mp hr
    exact hlt
  match y, hy with
  | 0, _ => cases hr; rfl
  | 1, _ => cases hr; rfl
  | 2, _ => cases hr; rfl

theorem boxContent_box (layer : Layer) : RegionBox boxContent layer 0 0 2 2 ∧
    GridBox boxContent layer 0 0 2 2 := by
  have one : ∀ x, 0 < x → x < 2 → x = 1 := by intro x h1 h2; omega
  cases layer <;>
  exact ⟨⟨fun x h1 h2 => by rw [one x h1 h2]; exact ⟨by decide, by decide⟩, by decide,
      fun x h1 h2 => by rw [one x h1 h2]; exact ⟨by decide, by decide⟩, by decide,
      fun x h1 h2 => by rw [one x h1 h2]; exact ⟨by decide, by decide⟩, by decide,
      fun x h1 h2 => by rw [one x h1 h2]; exact ⟨by decide, by decide⟩, by decide⟩,
    ⟨fun x h1 h2 => by rw [one x h1 h2]; exact ⟨by decide, by decide⟩, by decide,
      fun x h1 h2 => by rw [one x h1 h2]; exact ⟨by decide, by decide⟩, by decide,
      fun x h1 h2 => by rw [one x h1 h2]; exact ⟨by decide, by decide⟩, by decide,
      fun x h1 h2 => by rw [one x h1 h2]; exact ⟨by decide, by decide⟩, by decide⟩⟩

end Dmn.Recog
