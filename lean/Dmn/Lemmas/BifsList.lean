import Dmn.Lemmas.Bifs

/-!
# Lemmas about the built-in function models: loops, duplicate removal, sorting, search,
name binding

Helper lemmas for `Dmn/Props/C08.lean`: each Rust loop computes the fold / filter the
specification is written with.
-/

namespace Dmn
namespace Bif

/-- the length Rust's `usize` has to hold -/
def lenOf (v : Value) : Nat :=
  match v with
  | .list xs => xs.length
  | .str s => s.toList.length
  | _ => 0

theorem listResult_ok (o : Option (List Value)) : listResult (.ok o) = .ok (Spec.optV .list o) := by
  cases o <;> rfl

theorem concatLoop_spec (vs acc : List Value) :
    concatLoop vs acc = (Spec.itemsOfLists vs).map (acc ++ ·) := by
  induction vs generalizing acc with
  | nil => simp [concatLoop, Spec.itemsOfLists]
  | cons v vs ih =>
    cases v <;> simp [concatLoop, Spec.itemsOfLists, ih]
    case list xs =>
      cases Spec.itemsOfLists vs <;> simp

theorem indexOfLoop_spec (e : Value) (xs : List Value) (k : Nat) :
    indexOfLoop e xs k =
      (xs.zipIdx k).filterMap (fun p => if Spec.feq p.1 e then some (numOfNat (p.2 + 1)) else none) := by
  induction xs generalizing k with
  | nil => simp [indexOfLoop]
  | cons x xs ih =>
    simp only [indexOfLoop, List.zipIdx_cons, List.filterMap_cons, ih]
    by_cases h : eqB x e = true
    · have h' : Spec.feq x e = true := h
      simp [h, h']
    · have h' : ¬ Spec.feq x e = true := h
      simp [h, h']

/-- one step of duplicate removal -/
def dedupStep (acc : List Value) (x : Value) : List Value :=
  if acc.any (fun v => Spec.feq v x) then acc else acc ++ [x]

theorem dedup_eq (xs : List Value) : Spec.dedup xs = xs.foldl dedupStep [] := rfl

theorem dedupStep_pos {acc : List Value} {x : Value} (h : acc.any (fun v => Spec.feq v x) = true) :
    dedupStep acc x = acc := by unfold dedupStep; rw [if_pos h]

theorem dedupStep_neg {acc : List Value} {x : Value} (h : ¬ acc.any (fun v => Spec.feq v x) = true) :
    dedupStep acc x = acc ++ [x] := by unfold dedupStep; rw [if_neg h]

theorem dedupFold_sublist (acc xs : List Value) :
    ∃ ys, xs.foldl dedupStep acc = acc ++ ys ∧ ys.Sublist xs := by
  induction xs generalizing acc with
  | nil => exact ⟨[], by simp, List.Sublist.refl _⟩
  | cons x xs ih =>
    simp only [List.foldl_cons]
    by_cases h : acc.any (fun v => Spec.feq v x) = true
    · rw [dedupStep_pos h]
      obtain ⟨ys, h1, h2⟩ := ih acc
      exact ⟨ys, h1, h2.cons x⟩
    · rw [dedupStep_neg h]
      obtain ⟨ys, h1, h2⟩ := ih (acc ++ [x])
      exact ⟨x :: ys, by rw [h1]; simp, h2.cons_cons x⟩

theorem dedupFold_pairwise (acc xs : List Value)
    (h : acc.Pairwise (fun a b => Spec.feq a b = false)) :
    (xs.foldl dedupStep acc).Pairwise (fun a b => Spec.feq a b = false) := by
  induction xs generalizing acc with
  | nil => exact h
  | cons x xs ih =>
    simp only [List.foldl_cons]
    apply ih
    by_cases hany : acc.any (fun v => Spec.feq v x) = true
    · rw [dedupStep_pos hany]; exact h
    · rw [dedupStep_neg hany, List.pairwise_append]
      refine ⟨h, by simp, ?_⟩
      intro a ha b hb
      simp only [List.mem_singleton] at hb
      subst hb
      simp only [List.any_eq_true, not_exists, not_and, Bool.not_eq_true] at hany
      exact hany a ha

theorem dedupFold_covers (acc xs : List Value) :
    (∀ a ∈ acc, a ∈ xs.foldl dedupStep acc) ∧
    ∀ x ∈ xs, ∃ v ∈ xs.foldl dedupStep acc, v = x ∨ Spec.feq v x = true := by
  induction xs generalizing acc with
  | nil => simp
  | cons x xs ih =>
    simp only [List.foldl_cons]
    obtain ⟨ih1, ih2⟩ := ih (dedupStep acc x)
    have hsub : ∀ a ∈ acc, a ∈ dedupStep acc x := by
      intro a ha
      by_cases hany : acc.any (fun v => Spec.feq v x) = true
      · rw [dedupStep_pos hany]; exact ha
      · rw [dedupStep_neg hany]; exact List.mem_append_left _ ha
    refine ⟨fun a ha => ih1 a (hsub a ha), ?_⟩
    intro y hy
    rcases List.mem_cons.mp hy with rfl | hy
    · by_cases hany : acc.any (fun v => Spec.feq v y) = true
      · have hany' := hany
        simp only [List.any_eq_true] at hany'
        obtain ⟨v, hv, hf⟩ := hany'
        exact ⟨v, ih1 v (hsub v hv), Or.inr hf⟩
      · refine ⟨y, ih1 y ?_, Or.inl rfl⟩
        rw [dedupStep_neg hany]; simp
    · exact ih2 y hy

theorem distinctInto_eq (result items : List Value) :
    distinctInto result items = items.foldl dedupStep result := by
  induction items generalizing result with
  | nil => rfl
  | cons x xs ih =>
    simp only [distinctInto, List.foldl_cons]
    by_cases h : result.any (fun v => Spec.feq v x) = true
    · have : ¬ (result.all (fun v => !eqB v x) = true) := by
        simp only [List.all_eq_true, Bool.not_eq_true']
        have h' := h
        simp only [List.any_eq_true] at h'
        obtain ⟨v, hv, hf⟩ := h'
        intro hall
        have := hall v hv
        simp [Spec.feq] at hf
        simp [hf] at this
      rw [if_neg this, dedupStep_pos h, ih]
    · have : result.all (fun v => !eqB v x) = true := by
        simp only [List.all_eq_true, Bool.not_eq_true']
        intro v hv
        simp only [List.any_eq_true, not_exists, not_and] at h
        simpa [Spec.feq] using h v hv
      rw [if_pos this, dedupStep_neg h, ih]

theorem unionLoop_spec (ls result : List Value) :
    unionLoop ls result = (Spec.itemsOfLists ls).map (fun items => items.foldl dedupStep result) := by
  induction ls generalizing result with
  | nil => simp [unionLoop, Spec.itemsOfLists]
  | cons l ls ih =>
    cases l <;> simp [unionLoop, Spec.itemsOfLists, ih]
    case list xs =>
      rw [distinctInto_eq]
      cases Spec.itemsOfLists ls <;> simp [List.foldl_append]

theorem findSub_spec (pat cs : List Char) : findSub pat cs = Spec.firstOccurrence pat cs := by
  unfold Spec.firstOccurrence
  induction cs with
  | nil =>
    cases pat <;> simp [findSub, Spec.occursAt, List.range_succ_eq_map]
  | cons c cs ih =>
    rw [findSub, List.length_cons, List.range_succ_eq_map, List.find?_cons]
    have h0 : Spec.occursAt pat (c :: cs) 0 = pat.isPrefixOf (c :: cs) := by simp [Spec.occursAt]
    have hf : (Spec.occursAt pat (c :: cs)) ∘ Nat.succ = Spec.occursAt pat cs := by
      funext i; simp [Spec.occursAt]
    rw [h0]
    by_cases h : pat.isPrefixOf (c :: cs) = true
    · simp [h]
    · simp only [h, if_false, Bool.false_eq_true]
      rw [ih, List.find?_map, hf]

theorem isSuffixOf_eq (p s : List Char) :
    p.isSuffixOf s = (decide (p.length ≤ s.length) && p.isPrefixOf (s.drop (s.length - p.length))) := by
  rw [Bool.eq_iff_iff]
  simp only [List.isSuffixOf_iff_suffix, Bool.and_eq_true, decide_eq_true_eq, List.isPrefixOf_iff_prefix]
  constructor
  · rintro ⟨t, rfl⟩
    refine ⟨by simp, ?_⟩
    have : (t ++ p).length - p.length = t.length := by simp
    rw [this, List.drop_left]
    exact List.prefix_refl p
  · rintro ⟨hle, q, hq⟩
    have hlen : (s.drop (s.length - p.length)).length = p.length := by
      rw [List.length_drop]; omega
    have : q = [] := by
      have := congrArg List.length hq
      rw [List.length_append, hlen] at this
      exact List.eq_nil_of_length_eq_zero (by omega)
    subst this
    rw [List.append_nil] at hq
    have := List.take_append_drop (s.length - p.length) s
    rw [← hq] at this
    exact ⟨_, this⟩

/-- every item is a Boolean -/
def AllBool (xs : List Value) : Prop := ∀ v ∈ xs, ∃ b, v = .bool b

theorem allLoop_spec (xs : List Value) (h : AllBool xs) : allLoop xs = Spec.all3 xs := by
  induction xs with
  | nil => rfl
  | cons x xs ih =>
    obtain ⟨b, rfl⟩ := h x (by simp)
    have ih := ih (fun v hv => h v (List.mem_cons_of_mem _ hv))
    cases b with
    | false => simp [allLoop, Spec.all3, Spec.isFalseV]
    | true =>
      simp only [allLoop, Bool.not_true, Bool.false_eq_true, if_false, ih]
      simp [Spec.all3, Spec.isFalseV, Spec.isTrueV]

theorem anyLoop_spec (xs : List Value) (h : AllBool xs) (t : Bool) :
    anyLoop xs t true = some (t || xs.any Spec.isTrueV, true) := by
  induction xs generalizing t with
  | nil => simp [anyLoop]
  | cons x xs ih =>
    obtain ⟨b, rfl⟩ := h x (by simp)
    have ih := ih (fun v hv => h v (List.mem_cons_of_mem _ hv))
    cases b <;> simp [anyLoop, ih, Spec.isTrueV]

theorem allBool_no_true (xs : List Value) (h : AllBool xs)
    (hn : xs.any Spec.isTrueV = false) :
    xs.all Spec.isFalseV = true := by
  simp only [List.all_eq_true]
  intro v hv
  obtain ⟨b, rfl⟩ := h v hv
  cases b with
  | false => rfl
  | true =>
    have : xs.any Spec.isTrueV = true :=
      List.any_eq_true.mpr ⟨_, hv, rfl⟩
    rw [hn] at this
    exact absurd this (by simp)

theorem numbersOf_eq (xs : List Value) : numbersOf xs = Spec.allNums xs := by
  induction xs with
  | nil => rfl
  | cons x xs ih => cases x <;> simp [numbersOf, Spec.allNums, ih]

theorem minNumLoop_spec (xs : List Value) (mn : Dec) :
    minNumLoop xs mn = (Spec.allNums xs).map (fun ds => ds.foldl (fun a b => if Dec.cmp b a == .lt then b else a) mn) := by
  induction xs generalizing mn with
  | nil => rfl
  | cons x xs ih =>
    cases x <;> simp [minNumLoop, Spec.allNums, ih]
    case num d => cases Spec.allNums xs <;> simp

theorem minStrLoop_spec (xs : List Value) (mn : String) :
    minStrLoop xs mn = (Spec.allStrs xs).map (fun ds => ds.foldl (fun a b => if compare b a == .lt then b else a) mn) := by
  induction xs generalizing mn with
  | nil => rfl
  | cons x xs ih =>
    cases x <;> simp [minStrLoop, Spec.allStrs, ih]
    case str d => cases Spec.allStrs xs <;> simp

theorem maxNumLoop_spec (xs : List Value) (mx : Dec) :
    maxNumLoop xs mx = (Spec.allNums xs).map (fun ds => ds.foldl (fun a b => if Dec.cmp b a == .gt then b else a) mx) := by
  induction xs generalizing mx with
  | nil => rfl
  | cons x xs ih =>
    cases x <;> simp [maxNumLoop, Spec.allNums, ih]
    case num d => cases Spec.allNums xs <;> simp

theorem maxStrLoop_spec (xs : List Value) (mx : String) :
    maxStrLoop xs mx = (Spec.allStrs xs).map (fun ds => ds.foldl (fun a b => if compare b a == .gt then b else a) mx) := by
  induction xs generalizing mx with
  | nil => rfl
  | cons x xs ih =>
    cases x <;> simp [maxStrLoop, Spec.allStrs, ih]
    case str d => cases Spec.allStrs xs <;> simp

theorem insertBy_length {α : Type} (cmp : α → α → Ordering) (x : α) (xs : List α) :
    (insertBy cmp x xs).length = xs.length + 1 := by
  induction xs with
  | nil => rfl
  | cons y ys ih =>
    unfold insertBy
    split <;> simp [ih]

theorem sortBy_length {α : Type} (cmp : α → α → Ordering) (xs : List α) :
    (sortBy cmp xs).length = xs.length := by
  induction xs with
  | nil => rfl
  | cons x xs ih => simp [sortBy, insertBy_length, ih]

theorem insertBy_perm {α : Type} (cmp : α → α → Ordering) (x : α) (xs : List α) :
    (insertBy cmp x xs).Perm (x :: xs) := by
  induction xs with
  | nil => exact List.Perm.refl _
  | cons y ys ih =>
    unfold insertBy
    split
    · exact List.Perm.refl _
    · exact (List.Perm.cons y ih).trans (List.Perm.swap x y ys)

theorem allNums_length {xs : List Value} {ds : List Dec} (h : Spec.allNums xs = some ds) :
    ds.length = xs.length := by
  induction xs generalizing ds with
  | nil => simp [Spec.allNums] at h; subst h; rfl
  | cons x xs ih =>
    cases x <;> simp [Spec.allNums] at h
    case num d =>
      obtain ⟨ds', h1, rfl⟩ := h
      simp [ih h1]

theorem modeRuns_ne_nil (xs : List Dec) (acc : List (Nat × Dec)) (h : xs ≠ [] ∨ acc ≠ []) :
    modeRuns xs acc ≠ [] := by
  induction xs generalizing acc with
  | nil => simpa [modeRuns] using h
  | cons x xs ih =>
    cases acc with
    | nil => rw [modeRuns]; exact ih _ (Or.inr (by simp))
    | cons a as =>
      rw [modeRuns]
      split
      · split <;> exact ih _ (Or.inr (by simp))
      · exact ih _ (Or.inr (by simp))

theorem namedGet_not_mem (names : List String) (args : List Value) (k : String) (h : k ∉ names) :
    NamedArgs.get (names.zip args) k = none := by
  induction names generalizing args with
  | nil => rfl
  | cons n ns ih =>
    cases args with
    | nil => rfl
    | cons a as =>
      simp only [List.zip_cons_cons, NamedArgs.get]
      rw [ih as (fun hk => h (List.mem_cons_of_mem _ hk))]
      have : n ≠ k := fun e => h (e ▸ List.mem_cons_self)
      simp [this]

/-- binding the i-th argument to the i-th name and looking a name up gives the argument at
the name's position -/
theorem namedGet_bind (names : List String) (args : List Value) (hnd : names.Nodup)
    (hlen : args.length ≤ names.length) (k : String) :
    NamedArgs.get (bindNames names args) k = args[names.idxOf k]? := by
  unfold bindNames
  induction names generalizing args with
  | nil =>
    cases args with
    | nil => simp [NamedArgs.get]
    | cons a as => simp at hlen
  | cons n ns ih =>
    have hn : n ∉ ns := (List.nodup_cons.mp hnd).1
    have hns : ns.Nodup := (List.nodup_cons.mp hnd).2
    cases args with
    | nil => simp [NamedArgs.get]
    | cons a as =>
      simp only [List.zip_cons_cons, NamedArgs.get]
      by_cases hk : n = k
      · subst hk
        rw [namedGet_not_mem ns as n hn]
        simp
      · rw [ih as hns (by simpa using hlen)]
        have hb : (n == k) = false := by simp [hk]
        simp only [List.idxOf_cons, hb, cond_false, List.getElem?_cons_succ]
        cases as[ns.idxOf k]? <;> simp [hk]

theorem inst_toPos (names : List String) (args : List Value) (hnd : names.Nodup)
    (hlen : args.length ≤ names.length) (a : NArg) :
    PArg.inst args (NArg.toPos names a) = NArg.inst (bindNames names args) a := by
  cases a with
  | var name => simp [NArg.toPos, PArg.inst, NArg.inst, namedGet_bind names args hnd hlen]
  | itemsOf name => simp [NArg.toPos, PArg.inst, NArg.inst, namedGet_bind names args hnd hlen]
  | single name => simp [NArg.toPos, PArg.inst, NArg.inst, namedGet_bind names args hnd hlen]
  | nullLit => rfl

/-- normalising `parameters` to "the slice of the one parameter" does not change its value -/
theorem inst_norm (args : List Value) (a : PArg) : PArg.inst args (PArg.norm args.length a) = PArg.inst args a := by
  unfold PArg.norm
  split
  · split
    · rename_i h1
      match args, h1 with
      | [x], _ => simp [PArg.inst]
    · rfl
  · rfl

theorem mapM_inst_norm (args : List Value) (as : List PArg) :
    (as.map (PArg.norm args.length)).mapM (PArg.inst args) = as.mapM (PArg.inst args) := by
  induction as with
  | nil => rfl
  | cons a as ih => simp only [List.map_cons, List.mapM_cons, inst_norm, ih]

theorem mapM_inst_toPos (names : List String) (args : List Value) (hnd : names.Nodup)
    (hlen : args.length ≤ names.length) (as : List NArg) :
    (as.map (NArg.toPos names)).mapM (PArg.inst args) = as.mapM (NArg.inst (bindNames names args)) := by
  induction as with
  | nil => rfl
  | cons a as ih =>
    simp only [List.map_cons, List.mapM_cons, inst_toPos names args hnd hlen a, ih]

theorem mem_shapes (l : List Bool) : l ∈ shapes l.length := by
  induction l with
  | nil => simp [shapes]
  | cons b l ih =>
    simp only [List.length_cons, shapes, List.mem_flatMap]
    refine ⟨l, ih, ?_⟩
    cases b <;> simp

theorem Arity.accepts_ge {a : Arity} {n : Nat} (h : a.accepts n = true) : a.atLeastN ≤ n := by
  cases a <;> simp [Arity.accepts, Arity.atLeastN] at h ⊢ <;> omega

theorem PArg.inst_safe (args : List Value) (n : Nat) (lists : List Nat) (hn : n ≤ args.length)
    (hl : ∀ i ∈ lists, ∃ xs, args[i]? = some (.list xs)) (a : PArg) (h : a.safe n lists = true) :
    (PArg.inst args a).isSome = true := by
  cases a with
  | param i =>
    simp only [PArg.safe, decide_eq_true_eq] at h
    have : i < args.length := by omega
    simp [PArg.inst, List.getElem?_eq_getElem this]
  | nullLit => rfl
  | slice start =>
    simp only [PArg.safe, decide_eq_true_eq] at h
    simp only [PArg.inst]
    rw [if_pos (by omega)]; rfl
  | itemsOf i =>
    simp only [PArg.safe, List.contains_iff_mem] at h
    obtain ⟨xs, hxs⟩ := hl i h
    simp [PArg.inst, hxs]
  | single i =>
    simp only [PArg.safe, decide_eq_true_eq] at h
    have : i < args.length := by omega
    simp [PArg.inst, List.getElem?_eq_getElem this]

theorem mapM_isSome {α β : Type} (f : α → Option β) (l : List α) (h : ∀ a ∈ l, (f a).isSome = true) :
    (l.mapM f).isSome = true := by
  induction l with
  | nil => rfl
  | cons a l ih =>
    have ha := h a (by simp)
    have ih := ih (fun b hb => h b (List.mem_cons_of_mem _ hb))
    rw [List.mapM_cons]
    cases hfa : f a with
    | none => simp [hfa] at ha
    | some b =>
      cases hl : l.mapM f with
      | none => simp [hl] at ih
      | some bs => rfl

theorem PBody.resolve_safe (args : List Value) (n : Nat) (hn : n ≤ args.length) (body : PBody) (lists : List Nat)
    (hl : ∀ i ∈ lists, ∃ xs, args[i]? = some (.list xs)) (hs : body.safe n lists = true)
    (c : PCall) (hc : body.resolve (args.map isList) = some c) :
    (c.args.mapM (PArg.inst args)).isSome = true := by
  induction body generalizing lists with
  | call c' =>
    simp only [PBody.resolve] at hc
    injection hc with hc; subst hc
    simp only [PBody.safe, List.all_eq_true] at hs
    exact mapM_isSome _ _ (fun a ha => PArg.inst_safe args n lists hn hl a (hs a ha))
  | null => simp [PBody.resolve] at hc
  | ifList i t e iht ihe =>
    simp only [PBody.safe, Bool.and_eq_true] at hs
    simp only [PBody.resolve] at hc
    split at hc
    · rename_i hshape
      apply iht (i :: lists) ?_ hs.1 hc
      intro j hj
      rcases List.mem_cons.mp hj with rfl | hj
      · -- shape says parameter j is a list
        simp only [List.getD_eq_getElem?_getD, List.getElem?_map] at hshape
        cases hj : args[j]? with
        | none => simp [hj] at hshape
        | some v =>
          simp only [hj, Option.map_some, Option.getD_some] at hshape
          cases v <;> simp [isList] at hshape
          exact ⟨_, rfl⟩
      · exact hl j hj
    · exact ihe lists hl hs.2 hc

theorem insertBy_sorted {α : Type} (cmp : α → α → Ordering)
    (htot : ∀ a b, cmp a b = .gt → cmp b a ≠ .gt)
    (htrans : ∀ a b c, cmp a b ≠ .gt → cmp b c ≠ .gt → cmp a c ≠ .gt)
    (x : α) (xs : List α) (h : xs.Pairwise (fun a b => cmp a b ≠ .gt)) :
    (insertBy cmp x xs).Pairwise (fun a b => cmp a b ≠ .gt) := by
  induction xs with
  | nil => simp [insertBy]
  | cons y ys ih =>
    rw [List.pairwise_cons] at h
    unfold insertBy
    by_cases hxy : cmp x y = .gt
    · have hne : ¬ ((cmp x y != .gt) = true) := by simp [hxy]
      rw [if_neg hne, List.pairwise_cons]
      refine ⟨?_, ih h.2⟩
      intro z hz
      have hz' := (insertBy_perm cmp x ys).subset hz
      rcases List.mem_cons.mp hz' with rfl | hz'
      · exact htot _ _ hxy
      · exact h.1 z hz'
    · have hne : (cmp x y != .gt) = true := by simp [hxy]
      rw [if_pos hne, List.pairwise_cons]
      refine ⟨?_, List.pairwise_cons.mpr h⟩
      intro z hz
      rcases List.mem_cons.mp hz with rfl | hz
      · exact hxy
      · exact htrans _ _ _ hxy (h.1 z hz)

end Bif
end Dmn
