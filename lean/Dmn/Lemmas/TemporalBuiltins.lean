import Dmn.Lemmas.TemporalImpl

/-!
# Calendar built-ins of the specification: day of year, ISO-8601 week, Zeller's congruence

About `Dmn.Cal.dayOfYear`, `Dmn.Cal.isoWeekOfDay`, `Dmn.Cal.zeller` (`Dmn/Model/Calendar.lean`), for all
`Int` years.  Used by `Props/C15.lean`.
-/

namespace Dmn.Cal

/-- Within a month the day number is linear in the day of the month. -/
theorem daysFromCivil_add_day (y m d k : Int) :
    daysFromCivil y m (d + k) = daysFromCivil y m d + k := by
  rw [daysFromCivil_closed, daysFromCivil_closed]; omega

/-- The first of January of the next year is one year length away. -/
theorem jan1_succ (y : Int) :
    daysFromCivil (y + 1) 1 1 = daysFromCivil y 1 1 + (if isLeap y then 366 else 365) := by
  rw [daysFromCivil_closed, daysFromCivil_closed]
  have e1 : ypOf (y + 1) 1 = y := by unfold ypOf; simp
  have e2 : ypOf y 1 = y - 1 := by unfold ypOf; simp
  rw [e1, e2]
  have h := yearStart_succ (y - 1)
  have e3 : y - 1 + 1 = y := by omega
  rw [e3] at h
  rw [h]; split <;> omega

/-- Day of the year of a calendar date: offset of its month start plus the day. -/
theorem dayOfYear_bounds (y m d : Int) (hv : validDate y m d = true) :
    1 ≤ dayOfYear y m d ∧ dayOfYear y m d ≤ (if isLeap y then 366 else 365) := by
  rw [validDate_iff] at hv
  obtain ⟨h1, h2, h3, h4⟩ := hv
  have hs := yearStart_succ (y - 1)
  have e3 : y - 1 + 1 = y := by omega
  rw [e3] at hs
  unfold dayOfYear
  rw [daysFromCivil_closed, daysFromCivil_closed]
  have hm : m = 1 ∨ m = 2 ∨ m = 3 ∨ m = 4 ∨ m = 5 ∨ m = 6 ∨ m = 7 ∨ m = 8 ∨ m = 9 ∨ m = 10 ∨
      m = 11 ∨ m = 12 := by omega
  cases hl : isLeap y <;> simp only [hl, if_true, if_false, Bool.false_eq_true] at hs ⊢ <;>
    rcases hm with h | h | h | h | h | h | h | h | h | h | h | h <;> subst h <;>
    simp [ypOf, mpOf, monthStart, daysInMonth, hl] at h4 ⊢ <;> omega

/-- The year that holds day number `z` is the one whose first of January is not after `z` and
whose successor's first of January is. -/
theorem year_of_day (y z : Int) (h0 : daysFromCivil y 1 1 ≤ z) (h1 : z < daysFromCivil (y + 1) 1 1) :
    (civilFromDays z).1 = y := by
  obtain ⟨hz, hv⟩ := daysFromCivil_civilFromDays z
  generalize (civilFromDays z).1 = y' at *
  generalize (civilFromDays z).2.1 = m' at *
  generalize (civilFromDays z).2.2 = d' at *
  have v1 : validDate y 1 1 = true := by rw [validDate_iff]; simp [daysInMonth]
  have v2 : validDate (y + 1) 1 1 = true := by rw [validDate_iff]; simp [daysInMonth]
  have hv' := (validDate_iff y' m' d').1 hv
  rcases Int.lt_trichotomy y' y with hlt | heq | hgt
  · have hd : dateLt y' m' d' y 1 1 = true := by rw [dateLt_iff]; omega
    have := daysFromCivil_lt_of_dateLt _ _ _ _ _ _ hv v1 hd
    omega
  · exact heq
  · by_cases hjan : y' = y + 1 ∧ m' = 1 ∧ d' = 1
    · obtain ⟨a, b, c⟩ := hjan; subst a; subst b; subst c; omega
    · have hd : dateLt (y + 1) 1 1 y' m' d' = true := by rw [dateLt_iff]; omega
      have := daysFromCivil_lt_of_dateLt _ _ _ _ _ _ v2 hv hd
      omega

/-- The Thursday of the week of `z` is a Thursday, at most three days away. -/
theorem isoThursday_facts (z : Int) :
    weekday (isoThursday z) = 4 ∧ z - 3 ≤ isoThursday z ∧ isoThursday z ≤ z + 3 := by
  unfold isoThursday weekday; omega

theorem isoThursday_same_week (z k : Int) (hk0 : 0 ≤ k) (hk : k ≤ 6) (hmon : weekday z = 1) :
    isoThursday (z + k) = isoThursday z := by
  unfold isoThursday weekday at *; omega

theorem isoThursday_next_week (z : Int) : isoThursday (z + 7) = isoThursday z + 7 := by
  unfold isoThursday weekday; omega

/-- Day `z` lies inside the year that `civilFromDays` gives it. -/
theorem day_in_its_year (z : Int) :
    daysFromCivil (civilFromDays z).1 1 1 ≤ z ∧ z < daysFromCivil ((civilFromDays z).1 + 1) 1 1 := by
  obtain ⟨hz, hv⟩ := daysFromCivil_civilFromDays z
  have hb := dayOfYear_bounds _ _ _ hv
  have hn := jan1_succ (civilFromDays z).1
  unfold dayOfYear at hb
  rw [hz] at hb
  split at hb <;> rename_i hl <;> simp only [hl, if_true, if_false, Bool.false_eq_true] at hn <;> omega

/-- First days of January are ordered like their years. -/
theorem jan1_mono {y1 y2 : Int} (h : y1 ≤ y2) : daysFromCivil y1 1 1 ≤ daysFromCivil y2 1 1 := by
  have v1 : validDate y1 1 1 = true := by rw [validDate_iff]; simp [daysInMonth]
  have v2 : validDate y2 1 1 = true := by rw [validDate_iff]; simp [daysInMonth]
  rcases Int.lt_trichotomy y1 y2 with hlt | hge | hgt
  · have hd : dateLt y1 1 1 y2 1 1 = true := by rw [dateLt_iff]; omega
    exact Int.le_of_lt (daysFromCivil_lt_of_dateLt _ _ _ _ _ _ v1 v2 hd)
  · subst hge; exact Int.le_refl _
  · omega

end Dmn.Cal
