import Dmn.Model.DtoJson
import Dmn.Lemmas.Json
import Dmn.Lemmas.Dto

/-! Helper lemmas for C18 (ii): the DTOs on the wire — `serde_json`'s writer against the RFC decoder, the derived
`Deserialize` against the derived `Serialize`. -/

namespace Dmn.Json

theorem elems_cons' {t body : List Char} {j : Json} {js : List Json} (h : Renders t j) (hb : ElemsOk body js) :
    ElemsOk (t ++ ',' :: body) (j :: js) := by
  obtain ⟨⟨c, t', rfl, hws, hbr⟩, hv⟩ := h
  obtain ⟨⟨d, b', rfl, hws', hbr'⟩, hp⟩ := hb
  refine ⟨⟨c, _, rfl, hws, hbr⟩, ?_⟩
  intro f rest hf
  cases f with
  | zero => simp at hf
  | succ f =>
    simp only [List.length_append, List.length_cons] at hf
    have hv := hv f (',' :: (d :: b' ++ ']' :: rest)) (by simp [delim]) (by simp; omega)
    have hp := hp f rest (by simp; omega)
    rw [parseElems.eq_def]
    simp only [List.append_assoc, List.cons_append] at hv hp ⊢
    simp [hv, skipWs_head (c := ',') (by decide), skipWs_head hws', hp]

/-- `serde_json`'s compact writer writes a rendering of the document, for every document whose number lexemes are
numbers of the grammar. -/
theorem render_renders (j : Json) : lexemesOk j = true → Renders (render j) j := by
  refine Json.rec
    (motive_1 := fun j => lexemesOk j = true → Renders (render j) j)
    (motive_2 := fun xs => lexemesOkList xs = true →
      (∀ t j, Renders t j → ElemsOk (t ++ renderMore xs) (j :: xs)) ∧
      (xs ≠ [] → ElemsOk (renderElems xs) xs))
    (motive_3 := fun ms => lexemesOkMembers ms = true →
      (∀ kt k t j, KeyOk kt k → Renders t j →
        MembersOk ('"' :: (kt ++ ':' :: (t ++ renderMoreMembers ms))) ((k, j) :: ms)) ∧
      (ms ≠ [] → MembersOk (renderMembers ms) ms))
    (motive_4 := fun e => lexemesOk e.2 = true → Renders (render e.2) e.2)
    ?null ?bool ?num ?str ?arr ?obj ?nil ?cons ?enil ?econs ?pair j
  case null => intro _; exact renders_null
  case bool => intro b _; cases b; exact renders_false; exact renders_true
  case num => intro t h; simp only [lexemesOk] at h; exact renders_num h
  case str => intro s _; exact renders_quote s
  case arr =>
    intro xs ih h2
    simp only [lexemesOk] at h2
    cases xs with
    | nil => exact renders_arr_nil
    | cons x xs => exact renders_arr ((ih h2).2 (by simp))
  case obj =>
    intro ms ih h2
    simp only [lexemesOk] at h2
    cases ms with
    | nil => exact renders_obj_nil
    | cons e es => exact renders_obj ((ih h2).2 (by simp))
  case nil =>
    intro _
    refine ⟨?_, fun h => absurd rfl h⟩
    intro t j h; simpa [renderMore] using elems_one h
  case cons =>
    intro x xs ihx ihxs h2
    simp only [lexemesOkList, Bool.and_eq_true] at h2
    have hx := ihx h2.1
    have hxs := (ihxs h2.2).1
    refine ⟨?_, fun _ => ?_⟩
    · intro t j h
      simp only [renderMore]
      exact elems_cons' h (hxs _ _ hx)
    · simp only [renderElems]
      exact hxs _ _ hx
  case enil =>
    intro _
    refine ⟨?_, fun h => absurd rfl h⟩
    intro kt k t j hk h
    simpa [renderMoreMembers] using members_one' hk h
  case econs =>
    intro e es ihe ihes h2
    obtain ⟨k', v'⟩ := e
    simp only [lexemesOkMembers, Bool.and_eq_true] at h2
    have hv := ihe h2.1
    have hes := (ihes h2.2).1
    have hk' : KeyOk (escape k' ++ ['"']) k' := keyOk_escape k'
    refine ⟨?_, fun _ => ?_⟩
    · intro kt k t j hk h
      simp only [renderMoreMembers, quote]
      have := members_cons' hk h (hes _ _ _ _ hk' hv)
      simpa [List.append_assoc] using this
    · simp only [renderMembers, quote]
      have := hes _ _ _ _ hk' hv
      simpa [List.append_assoc] using this
  case pair => intro k v ih; exact ih

end Dmn.Json

namespace Dmn.Dto
open Dmn.Json

/-! ## No number lexemes in a DTO document -/

theorem lexemesOk_optStr (t : Option (List Char)) : lexemesOk (optStr t) = true := by
  cases t <;> rfl

theorem lexemesOk_dto (d : Dto) : lexemesOk d.json = true := by
  refine Dto.rec
    (motive_1 := fun d => lexemesOk d.json = true)
    (motive_2 := fun cs => lexemesOkList cs.json = true)
    (motive_3 := fun xs => lexemesOkList xs.json = true)
    ?simple ?components ?list ?empty ?missing ?cnil ?ccons ?lnil ?lcons d
  case simple => intro typ text isNil; simp [Dto.json, lexemesOk, lexemesOkMembers, lexemesOk_optStr]
  case components => intro cs ih; simp [Dto.json, lexemesOk, lexemesOkMembers, ih]
  case list => intro items isNil ih; simp [Dto.json, lexemesOk, lexemesOkMembers, ih]
  case empty => simp [Dto.json, lexemesOk, lexemesOkMembers]
  case missing => simp [Dto.json, lexemesOk]
  case cnil => simp [DtoComps.json, lexemesOkList]
  case ccons =>
    intro name value isNil rest ihv ihr
    simp [DtoComps.json, lexemesOkList, lexemesOk, lexemesOkMembers, lexemesOk_optStr, ihv, ihr]
  case lnil => simp [DtoList.json, lexemesOkList]
  case lcons => intro d rest ihd ihr; simp [DtoList.json, lexemesOkList, ihd, ihr]

theorem lexemesOk_optDto (o : Option Dto) : lexemesOk (optDtoJson o) = true := by
  cases o with
  | none => rfl
  | some d => exact lexemesOk_dto d

theorem lexemesOk_tck (o : OutputNode) : lexemesOk (tckJson o) = true := by
  simp [tckJson, outJson, lexemesOk, lexemesOkMembers, lexemesOk_optDto]

/-! ## Field names are pairwise distinct -/

theorem kComponents_ne_kSimple : (kComponents = kSimple) = False := by decide
theorem kList_ne_kSimple : (kList = kSimple) = False := by decide
theorem kList_ne_kComponents : (kList = kComponents) = False := by decide
theorem kText_ne_kType : (kText = kType) = False := by decide
theorem kIsNil_ne_kType : (kIsNil = kType) = False := by decide
theorem kIsNil_ne_kText : (kIsNil = kText) = False := by decide
theorem kValue_ne_kName : (kValue = kName) = False := by decide
theorem kIsNil_ne_kName : (kIsNil = kName) = False := by decide
theorem kIsNil_ne_kValue : (kIsNil = kValue) = False := by decide
theorem kIsNil_ne_kItems : (kIsNil = kItems) = False := by decide
theorem kInvocable_ne_kModel : (kInvocable = kModel) = False := by decide
theorem kInput_ne_kModel : (kInput = kModel) = False := by decide
theorem kInput_ne_kInvocable : (kInput = kInvocable) = False := by decide

/-! ## `Deserialize` after `Serialize` -/

theorem xsdOfName_name (t : XsdType) (h : ∀ n, t ≠ .other n) : xsdOfName t.name = t := by
  cases t with
  | other n => exact absurd rfl (h n)
  | _ => decide

theorem readOptString_optStr (t : Option (List Char)) : readOptString (optStr t) = .ok t := by
  cases t <;> rfl

/-- a simple value whose type is one of the nine is read as it was written -/
theorem readValue_simple (typ : Option XsdType) (text : Option (List Char)) (isNil : Bool)
    (h : ∀ t, typ = some t → ∀ n, t ≠ .other n) :
    readValue (Dto.json (.simple typ text isNil)) = .ok (.simple typ text isNil) := by
  have ht : (typ.map XsdType.name).map xsdOfName = typ := by
    cases typ with
    | none => rfl
    | some t => simp [xsdOfName_name t (h t rfl)]
  simp [Dto.json, readValue, readValueMembers, readOptSimple, readSimpleMembers, readOptString_optStr, readBool,
    readOptComps, readOptList, finishValue, view, kComponents_ne_kSimple, kList_ne_kSimple, kList_ne_kComponents,
    kText_ne_kType, kIsNil_ne_kType, kIsNil_ne_kText, ht]

theorem readOptValue_of_readValue {j : Json} {d : Dto} (h : readValue j = .ok d) : readOptValue j = .ok (some d) := by
  cases j with
  | obj ms =>
    simp only [readValue] at h
    simp [readOptValue, h]
  | null => simp [readValue] at h
  | bool b => simp [readValue] at h
  | num t => simp [readValue] at h
  | str s => simp [readValue] at h
  | arr xs => simp [readValue] at h

theorem xsdOf_not_other (k : Kind) (n : List Char) : xsdOf k ≠ .other n := by
  cases k <;> simp [xsdOf]

/-- The DTO of every value, written by `Serialize`, is read by `Deserialize` as the same DTO. -/
theorem readValue_toDto (v : TV) : readValue (toDto v).json = .ok (toDto v) := by
  refine TV.rec
    (motive_1 := fun v => readValue (toDto v).json = .ok (toDto v))
    (motive_2 := fun xs => readItems (toDtoList xs).json = .ok (toDtoList xs))
    (motive_3 := fun es => readComps (toDtoComps es).json = .ok (toDtoComps es))
    (motive_4 := fun e => readValue (toDto e.2).json = .ok (toDto e.2))
    ?null ?str ?bool ?scalar ?list ?ctx ?other ?nil ?cons ?enil ?econs ?pair v
  case null => exact readValue_simple _ _ _ (by intro t h; cases h)
  case str => intro s; exact readValue_simple _ _ _ (by intro t h; cases h; intro n hn; cases hn)
  case bool => intro b; exact readValue_simple _ _ _ (by intro t h; cases h; intro n hn; cases hn)
  case scalar =>
    intro k t
    exact readValue_simple _ _ _ (by intro t h; cases h; exact xsdOf_not_other k)
  case list =>
    intro xs ih
    simp [toDto, Dto.json, readValue, readValueMembers, readOptSimple, readOptComps, readOptList, readListMembers,
      readItemsJson, readBool, finishList, finishValue, view, ih, kComponents_ne_kSimple, kList_ne_kSimple,
      kList_ne_kComponents, kIsNil_ne_kItems]
  case ctx =>
    intro es ih
    simp [toDto, Dto.json, readValue, readValueMembers, readOptSimple, readOptComps, readOptList, finishValue, view, ih,
      kComponents_ne_kSimple, kList_ne_kSimple, kList_ne_kComponents]
  case other =>
    intro d
    simp [toDto, Dto.json, readValue, readValueMembers, readOptSimple, readOptComps, readOptList, finishValue, view,
      kComponents_ne_kSimple, kList_ne_kSimple, kList_ne_kComponents]
  case nil => simp [toDtoList, DtoList.json, readItems]
  case cons => intro x xs ihx ihxs; simp [toDtoList, DtoList.json, readItems, ihx, ihxs]
  case enil => simp [toDtoComps, DtoComps.json, readComps]
  case econs =>
    intro e es ihe ihes
    obtain ⟨k, v⟩ := e
    simp [toDtoComps, DtoComps.json, readComps, readComp, readCompMembers, readOptString, optStr,
      readOptValue_of_readValue ihe, readBool, finishComp, ihes, kValue_ne_kName, kIsNil_ne_kName, kIsNil_ne_kValue]
  case pair => intro k v ih; exact ih

theorem readOutput_toOutput (v : TV) : readOutput (outJson (toOutput v)) = .ok (toOutput v) := by
  cases v with
  | other d => simp [toOutput, outJson, optDtoJson, readOutput, readOutputMembers, readOptValue]
  | _ =>
    simp only [toOutput, outJson, optDtoJson, readOutput, readOutputMembers, if_true,
      readOptValue_of_readValue (readValue_toDto _)]
    rfl

/-! ## The request side -/

/-- the input nodes a client writes for the entries of a context -/
def inputsOf (es : List (List Char × TV)) : List (List Char × Option Dto) :=
  es.map (fun e => (e.1, some (toDto e.2)))

theorem readInputs_inputsOf (es : List (List Char × TV)) :
    readInputs ((inputsOf es).map inputJson) = .ok (inputsOf es) := by
  induction es with
  | nil => rfl
  | cons e es ih =>
    obtain ⟨k, v⟩ := e
    simp only [inputsOf, List.map_cons, List.map_map] at ih ⊢
    simp [readInputs, readInput, inputJson, readInputMembers, readString, optDtoJson,
      readOptValue_of_readValue (readValue_toDto v), kValue_ne_kName, ih]

theorem readParams_paramsJson (m i : List Char) (es : List (List Char × TV)) :
    readParams (paramsJson m i (inputsOf es)) = .ok ⟨some m, some i, some (inputsOf es)⟩ := by
  simp [paramsJson, readParams, readParamsMembers, readOptString, readOptInputs, readInputs_inputsOf,
    kInvocable_ne_kModel, kInput_ne_kModel, kInput_ne_kInvocable]

theorem fromInputs_eq_fromComps (rd : Readers) (es : List (List Char × TV)) (acc : List (List Char × TV)) :
    fromInputs rd (inputsOf es) acc = fromComps rd (toDtoComps es) acc := by
  induction es generalizing acc with
  | nil => rfl
  | cons e es ih =>
    obtain ⟨k, v⟩ := e
    simp only [inputsOf, List.map_cons] at ih ⊢
    simp only [fromInputs, toDtoComps, fromComps, Bool.false_eq_true, if_false]
    cases hn : rd.name k with
    | none => cases fromDto rd (toDto v) <;> rfl
    | some key =>
      cases hv : fromDto rd (toDto v) with
      | none => rfl
      | some w => exact ih _

theorem inputContext_inputsOf (rd : Readers) (es : List (List Char × TV)) (h : canonical rd (.ctx es) = true) :
    inputContext rd (inputsOf es) = some (.ctx es) := by
  have := roundtrip rd (.ctx es) h
  simp only [toDto, fromDto] at this
  simp only [inputContext, fromInputs_eq_fromComps]
  exact this

end Dmn.Dto
