import Dmn.Lemmas.CanvasScan
import Dmn.Lemmas.CanvasSearch
import Dmn.Model.CanvasStages

/-!
# The layer operations of `scan` succeed and leave the text and thin layers alone

`Yields o post`: the computation returns `ok a` with `post a` (stronger than `Safe`: no error
either).  `chOf_setAt`: what a write changes.  `scanLayers_keeps`: on a rectangular content with
the body rectangle inside it, `prepare_regions`, `remove_information_item_region` and `make_grid`
succeed; the result has the same shape, the same text layer, and its thin layer is the text layer
translated character by character (`thinOf`).
-/

namespace Dmn.Recog
open Scan (ok error)

/-- the computation succeeds with a result satisfying `post` -/
def Yields {α : Type} (o : Scan α) (post : α → Prop) : Prop := ∃ a, o = ok a ∧ post a

theorem Yields_ok {α : Type} {a : α} {post : α → Prop} (h : post a) : Yields (ok a) post :=
  ⟨a, rfl, h⟩

theorem Yields_bind {α β : Type} {x : Scan α} {f : α → Scan β} {p : α → Prop} {q : β → Prop}
    (hx : Yields x p) (hf : ∀ a, p a → Yields (f a) q) : Yields (x >>= f) q := by
  obtain ⟨a, rfl, ha⟩ := hx
  exact hf a ha

theorem Yields.mono {α : Type} {o : Scan α} {p q : α → Prop} (h : Yields o p)
    (hpq : ∀ a, p a → q a) : Yields o q := by
  obtain ⟨a, ha, hp⟩ := h
  exact ⟨a, ha, hpq a hp⟩

/-- a `for` loop with an invariant that may depend on the index -/
theorem Yields_forRange {σ : Type} {f : Nat → σ → Scan σ} {inv : Nat → σ → Prop} :
    ∀ (n lo : Nat) (s : σ), inv lo s →
      (∀ i s, lo ≤ i → i < lo + n → inv i s → Yields (f i s) (inv (i + 1))) →
      Yields (Scan.forRange f n lo s) (inv (lo + n))
  | 0, _, s, h, _ => ⟨s, rfl, h⟩
  | n + 1, lo, s, h, step => by
    obtain ⟨s', hs', hinv⟩ := step lo s (Nat.le_refl _) (by omega) h
    simp only [Scan.forRange, hs']
    have := Yields_forRange n (lo + 1) s' hinv (fun i s hi1 hi2 => step i s (by omega) (by omega))
    rw [show lo + (n + 1) = lo + 1 + n by omega]
    exact this

/-- a `for` loop with a fixed invariant -/
theorem Yields_forRange' {σ : Type} {f : Nat → σ → Scan σ} {inv : σ → Prop} (n lo : Nat) (s : σ)
    (h : inv s) (step : ∀ i s, lo ≤ i → i < lo + n → inv s → Yields (f i s) inv) :
    Yields (Scan.forRange f n lo s) inv :=
  Yields_forRange (inv := fun _ => inv) n lo s h step

/-- the `any` loop evaluates its test on the range -/
theorem anyRange_eq {p : Nat → Scan Bool} {q : Nat → Bool} : ∀ (n lo : Nat),
    (∀ i, lo ≤ i → i < lo + n → p i = ok (q i)) →
    Scan.anyRange p n lo = ok ((List.range' lo n).any q)
  | 0, _, _ => rfl
  | n + 1, lo, h => by
    simp only [Scan.anyRange, h lo (Nat.le_refl _) (by omega), List.range'_succ, List.any_cons]
    cases hq : q lo with
    | true => rfl
    | false =>
      simp only [Bool.false_or]
      exact anyRange_eq n (lo + 1) (fun i h1 h2 => h i (by omega) (by omega))

/-! ## What a write changes -/

theorem Px.get_set (p : Px) (l l' : Layer) (ch : Char) :
    (p.set l ch).get l' = if l' = l then ch else p.get l' := by
  cases l <;> cases l' <;> rfl

theorem chOf_setAt {c : Content} {R W : Nat} (h : Shape c R W) {y x : Nat} (hy : y < R) (hx : x < W)
    (l : Layer) (ch : Char) :
    ∃ c', setAt c y x l ch = ok c' ∧ Shape c' R W ∧
      ∀ l' y' x', chOf c' l' y' x' = if y' = y ∧ x' = x ∧ l' = l then ch else chOf c l' y' x' := by
  obtain ⟨row, hr, hw⟩ := h.row hy
  have hx' : x < row.size := by rw [hw]; exact hx
  refine ⟨c.modify y (fun r => r.modify x (fun p => p.set l ch)),
    by simp only [setAt, hr, hx', if_true], h.modify y _ (fun r => Array.size_modify), ?_⟩
  intro l' y' x'
  unfold chOf
  rw [Array.getElem?_modify]
  by_cases hyy : y = y'
  · subst hyy
    rw [if_pos rfl, hr]
    simp only [Option.map_some, Array.getElem?_modify]
    by_cases hxx : x = x'
    · subst hxx
      rw [if_pos rfl, Array.getElem?_eq_getElem hx']
      simp only [Option.map_some, Px.get_set, true_and]
    · rw [if_neg hxx]
      have : ¬ (True ∧ x' = x ∧ l' = l) := fun hh => hxx hh.2.1.symm
      rw [if_neg this]
  · rw [if_neg hyy]
    have : ¬ (y' = y ∧ x' = x ∧ l' = l) := fun hh => hyy hh.1.symm
    rw [if_neg this]

/-- the layers `ls` are left alone -/
def SameOn (ls : List Layer) (c0 c : Content) : Prop := ∀ l ∈ ls, ∀ y x, chOf c l y x = chOf c0 l y x

theorem SameOn.refl (ls : List Layer) (c : Content) : SameOn ls c c := fun _ _ _ _ => rfl

theorem SameOn.trans {ls : List Layer} {a b c : Content} (h1 : SameOn ls a b) (h2 : SameOn ls b c) :
    SameOn ls a c := fun l hl y x => by rw [h2 l hl, h1 l hl]

/-- the state of a pass: the shape is kept, the layers `ls` are those of `c0` -/
def Keeps (ls : List Layer) (R W : Nat) (c0 c : Content) : Prop := Shape c R W ∧ SameOn ls c0 c

theorem Yields_setAt_keeps {ls : List Layer} {R W : Nat} {c0 c : Content} (h : Keeps ls R W c0 c)
    {y x : Nat} (hy : y < R) (hx : x < W) (l : Layer) (hl : l ∉ ls) (ch : Char) :
    Yields (setAt c y x l ch) (Keeps ls R W c0) := by
  obtain ⟨c', hc', hs, hch⟩ := chOf_setAt h.1 hy hx l ch
  refine ⟨c', hc', hs, ?_⟩
  intro l' hl' y' x'
  have hne : ¬ (y' = y ∧ x' = x ∧ l' = l) := fun hh => hl (hh.2.2 ▸ hl')
  rw [hch, if_neg hne]
  exact h.2 l' hl' y' x'

theorem Yields_foldlM_setAt_keeps {ls : List Layer} {R W : Nat} {c0 : Content} {y x : Nat}
    (hy : y < R) (hx : x < W) (ch : Char) :
    ∀ (layers : List Layer) (c : Content), (∀ l ∈ layers, l ∉ ls) → Keeps ls R W c0 c →
      Yields (layers.foldlM (fun c layer => setAt c y x layer ch) c) (Keeps ls R W c0)
  | [], c, _, h => by rw [List.foldlM_nil]; exact Yields_ok h
  | l :: rest, c, hl, h => by
    rw [List.foldlM_cons]
    exact Yields_bind (Yields_setAt_keeps h hy hx l (hl l (by simp)) ch)
      (fun c' hc' => Yields_foldlM_setAt_keeps hy hx ch rest c' (fun l' hl' => hl l' (by simp [hl'])) hc')

theorem Yields_readWrite_keeps {ls : List Layer} {R W : Nat} {c0 c : Content} (h : Keeps ls R W c0 c)
    {y x : Nat} (hy : y < R) (hx : x < W) (src dst : Layer) (hl : dst ∉ ls) (f : Char → Char) :
    Yields (chAt c y x src >>= fun ch => setAt c y x dst (f ch)) (Keeps ls R W c0) := by
  rw [chAt_eq h.1 hy hx]
  exact Yields_setAt_keeps h hy hx dst hl _

theorem Yields_readRewrite_keeps {ls : List Layer} {R W : Nat} {c0 c : Content} (h : Keeps ls R W c0 c)
    {y x : Nat} (hy : y < R) (hx : x < W) (dst : Layer) (hl : dst ∉ ls) (g : Char → Option Char) :
    Yields (chAt c y x dst >>= fun ch =>
        match g ch with
        | some ch' => setAt c y x dst ch'
        | none => ok c) (Keeps ls R W c0) := by
  rw [chAt_eq h.1 hy hx]
  simp only [Scan.ok_bind]
  split
  · exact Yields_setAt_keeps h hy hx dst hl _
  · exact Yields_ok h

/-! ## The three layer operations -/

theorem removeInformationItemRegion_keeps {c : Content} {R W : Nat} (h : Shape c R W) {b : Rect}
    (hb : b.Inside R W) :
    Yields (removeInformationItemRegion c b .thin .body) (Keeps [.text, .thin] R W c) := by
  obtain ⟨htop, hbot, hright⟩ := hb
  have h0 : Keeps [.text, .thin] R W c c := ⟨h, SameOn.refl _ _⟩
  unfold removeInformationItemRegion
  simp only
  refine Yields_bind (p := Keeps [.text, .thin] R W c) ?_ ?_
  · unfold clearAbove
    split
    · refine Yields_forRange' _ _ _ h0 ?_
      intro y c1 _ hy h1
      refine Yields_forRange' _ _ _ h1 ?_
      intro x c2 hx1 hx2 h2
      refine Yields_foldlM_setAt_keeps (by omega) (by omega) _ _ c2 ?_ h2
      intro l hl
      simp only [layersFrom, List.mem_cons, List.mem_nil_iff, or_false] at hl
      rcases hl with rfl | rfl <;> simp
    · exact Yields_ok h0
  · intro c1 h1
    refine Yields_bind (p := Keeps [.text, .thin] R W c) ?_ ?_
    · refine Yields_forRange' _ _ _ h1 ?_
      intro x c2 hx1 hx2 h2
      exact Yields_readWrite_keeps h2 htop (by omega) .thin .body (by simp) _
    · intro c2 h2
      refine Yields_forRange' _ _ _ h2 ?_
      intro y c3 hy1 hy2 h3
      refine Yields_forRange' _ _ _ h3 ?_
      intro x c4 hx1 hx2 h4
      exact Yields_readWrite_keeps h4 (by omega) (by omega) .thin .body (by simp) id

theorem chOf_map {c : Content} (f : Px → Px) (l : Layer) (y x : Nat) :
    chOf (c.map (fun row => row.map f)) l y x =
      match c[y]? with
      | some row =>
        match row[x]? with
        | some p => (f p).get l
        | none => ' '
      | none => ' ' := by
  unfold chOf
  rw [Array.getElem?_map]
  cases c[y]? with
  | none => rfl
  | some row =>
    simp only [Option.map_some, Array.getElem?_map]
    cases row[x]? <;> rfl

theorem copyLayer_keeps {c : Content} {R W : Nat} (h : Shape c R W) :
    Keeps [.text, .thin] R W c (copyLayer c .body .grid) := by
  refine ⟨Shape_copyLayer h _ _, ?_⟩
  intro l hl y x
  unfold copyLayer
  rw [chOf_map]
  unfold chOf
  cases c[y]? with
  | none => rfl
  | some row =>
    dsimp only
    cases row[x]? with
    | none => rfl
    | some p =>
      dsimp only
      simp only [Px.get_set]
      simp only [List.mem_cons, List.mem_nil_iff, or_false] at hl
      rcases hl with rfl | rfl <;> simp

theorem makeGrid_keeps {c : Content} {R W : Nat} (h : Shape c R W) {b : Rect} (hb : b.Inside R W) :
    Yields (makeGrid c b .body .grid) (Keeps [.text, .thin] R W c) := by
  obtain ⟨htop, hbot, hright⟩ := hb
  unfold makeGrid
  simp only
  have h0 := copyLayer_keeps h
  refine Yields_bind (p := Keeps [.text, .thin] R W c) ?_ ?_
  · refine Yields_forRange' _ _ _ h0 ?_
    intro y c1 hy1 hy2 h1
    refine Yields_bind (p := fun _ => True) ?_ ?_
    · exact ⟨_, anyRange_eq (q := fun x => chOf c1 .grid y x == '─') _ _ (fun x hx1 hx2 => by
        rw [chAt_eq h1.1 (by omega) (by omega)]; rfl), trivial⟩
    · intro has _
      split
      · refine Yields_forRange' _ _ _ h1 ?_
        intro x c2 hx1 hx2 h2
        exact Yields_readRewrite_keeps h2 (by omega) (by omega) .grid (by simp) _
      · exact Yields_ok h1
  · intro c1 h1
    refine Yields_forRange' _ _ _ h1 ?_
    intro x c2 hx1 hx2 h2
    refine Yields_bind (p := fun _ => True) ?_ ?_
    · exact ⟨_, anyRange_eq (q := fun y => chOf c2 .grid y x == '│') _ _ (fun y hy1 hy2 => by
        rw [chAt_eq h2.1 (by omega) (by omega)]; rfl), trivial⟩
    · intro has _
      split
      · refine Yields_forRange' _ _ _ h2 ?_
        intro y c3 hy1 hy2 h3
        exact Yields_readRewrite_keeps h3 (by omega) (by omega) .grid (by simp) _
      · exact Yields_ok h2

/-! ## `prepare_regions` on the canvas of a drawing -/

/-- the translation of a character of the text layer into the thin layer (`prepare_regions`,
canvas.rs:173-183) -/
def thinOf (ch : Char) : Char :=
  if ['┌', '┐', '└', '┘', '┬', '┴', '─', '│', '├', '┼', '┤', ' ', charOuter].contains ch then ch
  else if ch = '╥' ∨ ch = '╤' then '┬'
  else if ch = '║' then '│'
  else if ch = '╨' ∨ ch = '╧' then '┴'
  else if ch = '═' then '─'
  else if ch = '╞' ∨ ch = '╟' then '├'
  else if ch = '╡' ∨ ch = '╢' then '┤'
  else if ch = '╫' ∨ ch = '╪' ∨ ch = '╬' then '┼'
  else charWhite

theorem preparePx_eq (p : Px) : preparePx .text .thin p = p.set .thin (thinOf p.text) := by
  unfold preparePx thinOf
  simp only [Px.get, apply_ite (Px.set p Layer.thin)]
  rfl

theorem preparePx_thin (p : Px) : (preparePx .text .thin p).get .thin = thinOf p.text := by
  rw [preparePx_eq, Px.get_set]; rfl

theorem preparePx_text (p : Px) : (preparePx .text .thin p).get .text = p.text := by
  rw [preparePx_eq, Px.get_set]; rfl

/-- the text layer is kept, the thin layer is its translation -/
theorem prepareRegions_layers {c : Content} {R W : Nat} (h : Shape c R W) {y x : Nat} (hy : y < R)
    (hx : x < W) :
    chOf (prepareRegions c .text .thin) .text y x = chOf c .text y x ∧
    chOf (prepareRegions c .text .thin) .thin y x = thinOf (chOf c .text y x) := by
  obtain ⟨row, hr, hw⟩ := h.row hy
  have hx' : x < row.size := by rw [hw]; exact hx
  unfold prepareRegions
  rw [chOf_map, chOf_map]
  unfold chOf
  simp only [hr, Array.getElem?_eq_getElem hx', preparePx_thin, preparePx_text]
  exact ⟨rfl, rfl⟩

/-- **The layers are computed**: on a rectangular content with the body rectangle inside it
`prepare_regions`, `remove_information_item_region` and `make_grid` succeed; the result has the
same shape and text layer, and its thin layer is the translated text layer. -/
theorem scanLayers_keeps {c : Content} {R W : Nat} (h : Shape c R W) {b : Rect} (hb : b.Inside R W) :
    Yields (scanLayers c b) (fun c' => Shape c' R W ∧
      ∀ y x, y < R → x < W → chOf c' .text y x = chOf c .text y x ∧
        chOf c' .thin y x = thinOf (chOf c .text y x)) := by
  unfold scanLayers
  have h1 := Shape_prepareRegions h .text .thin
  obtain ⟨c2, hc2, hs2, hk2⟩ := removeInformationItemRegion_keeps h1 hb
  obtain ⟨c3, hc3, hs3, hk3⟩ := makeGrid_keeps hs2 hb
  refine ⟨c3, by simp only [hc2, hc3, Scan.ok_bind], hs3, ?_⟩
  intro y x hy hx
  have hp := prepareRegions_layers h hy hx
  constructor
  · rw [hk3 .text (by simp), hk2 .text (by simp)]; exact hp.1
  · rw [hk3 .thin (by simp), hk2 .thin (by simp)]; exact hp.2

end Dmn.Recog
