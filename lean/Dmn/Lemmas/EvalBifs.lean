import Dmn.Model.Eval
import Dmn.Model.BifEval
import Dmn.Lemmas.BifsList
import Dmn.Lemmas.BifsNoPanic
import Dmn.Props.C08

/-! C05: the evaluator model with the *modelled* positional built-ins in place of the parameter `bifPos`:
the regenerated dispatch table of `positional.rs` (`Dmn.Gen.BifDispatch`) over the `core::` functions of
`Dmn/Model/Bifs.lean` (property C08). -/

namespace Dmn.Eval
open Dmn.Bif

/-- a `Vec` / `String` has at most `usize::MAX` items (a longer one cannot be allocated; allocation failure is
outside the property) -/
def fitsUsize : Value → Bool
  | .list xs => decide (xs.length < Usz.modulus)
  | .str s => decide (s.toList.length < Usz.modulus)
  | _ => true

/-- `positional::evaluate_bif` of the evaluator model: the dispatch row of the built-in and the modelled
`core::` function; `rest` answers only where the model has nothing (`callPositional … = none`: the name is no
built-in, or the `core::` function / argument shape is not modelled).  Arguments that no `Vec` can hold make the
model give up (`diverge`). -/
def bifPosModel (m : IntMode) (rest : String → List Value → Outcome Value) (name : String) (args : List Value) :
    Outcome Value :=
  if args.all fitsUsize then
    match callPositional (core m) name args with
    | some o => o
    | none => rest name args
  else .diverge

theorem inst_lenOk (args : List Value) (hfit : args.all fitsUsize = true) (a : PArg) (x : CoreArg)
    (h : PArg.inst args a = some x) : CoreArg.lenOk x := by
  have hall : ∀ v ∈ args, fitsUsize v = true := by simpa using hfit
  cases a with
  | param i =>
    simp only [PArg.inst] at h
    cases hv : args[i]? with
    | none => simp [hv] at h
    | some v =>
      simp only [hv, Option.map_some, Option.some.injEq] at h
      subst h
      have hf := hall v (List.mem_of_getElem? hv)
      cases v <;> simp_all [CoreArg.lenOk, fitsUsize]
  | nullLit => simp only [PArg.inst, Option.some.injEq] at h; subst h; trivial
  | slice s =>
    simp only [PArg.inst] at h
    split at h
    · simp only [Option.some.injEq] at h; subst h; trivial
    · cases h
  | itemsOf i =>
    simp only [PArg.inst] at h
    split at h
    · simp only [Option.some.injEq] at h; subst h; trivial
    · cases h
  | single i =>
    simp only [PArg.inst] at h
    cases hv : args[i]? with
    | none => simp [hv] at h
    | some v => simp only [hv, Option.map_some, Option.some.injEq] at h; subst h; trivial

theorem mapM_inst_lenOk (args : List Value) (hfit : args.all fitsUsize = true) (as : List PArg) (xs : List CoreArg)
    (h : as.mapM (PArg.inst args) = some xs) : ∀ x ∈ xs, CoreArg.lenOk x := by
  induction as generalizing xs with
  | nil => simp at h; subst h; intro x hx; cases hx
  | cons a as ih =>
    rw [List.mapM_cons] at h
    cases ha : PArg.inst args a with
    | none => simp [ha] at h
    | some y =>
      cases hr : as.mapM (PArg.inst args) with
      | none => simp [ha, hr] at h
      | some ys =>
        simp [ha, hr] at h
        subst h
        intro x hx
        rcases List.mem_cons.mp hx with rfl | hx
        · exact inst_lenOk args hfit a _ ha
        · exact ih ys hr x hx

theorem posRowOf_safe (v : String) (p : PosRow) (h : posRowOf v = some p) : p.safe = true := by
  have hmem : p ∈ Dmn.Gen.BifDispatch.positional := List.mem_of_find?_eq_some h
  exact List.all_eq_true.mp positional_index_safe_pinned p hmem

/-- The modelled positional built-ins never panic: the dispatch indexes within the arguments
(`positional_index_safe_pinned`, over the regenerated table) and no modelled `core::` function panics in either
integer mode (`bif_no_panic`, C08). -/
theorem bifPosModel_no_panic (m : IntMode) (rest : String → List Value → Outcome Value)
    (hrest : ∀ n a p, rest n a ≠ .panic p) (name : String) (args : List Value) (site : String) :
    bifPosModel m rest name args ≠ .panic site := by
  unfold bifPosModel
  by_cases hfit : args.all fitsUsize = true
  · rw [if_pos hfit]
    cases hc : callPositional (core m) name args with
    | none => exact hrest name args site
    | some o =>
      simp only
      intro ho
      subst ho
      unfold callPositional at hc
      cases hrow : rowsOf name with
      | none => simp [hrow] at hc
      | some pn =>
        obtain ⟨prow, nrow⟩ := pn
        simp only [hrow] at hc
        have hsafe : prow.safe = true := by
          unfold rowsOf at hrow
          cases hv : variantOf name with
          | none => simp [hv] at hrow
          | some v =>
            simp only [hv] at hrow
            cases hp : posRowOf v with
            | none => simp [hp] at hrow
            | some p' =>
              cases hn : namedRowOf v with
              | none => simp [hp, hn] at hrow
              | some n' =>
                simp only [hp, hn, Option.some.injEq, Prod.mk.injEq] at hrow
                rw [← hrow.1]
                exact posRowOf_safe v p' hp
        unfold evalPositional at hc
        cases hres : prow.resolve (args.map isList) with
        | none => simp [hres, nullR] at hc
        | some c =>
          simp only [hres] at hc
          have hres' := hres
          unfold PosRow.resolve at hres'
          simp only [List.length_map] at hres'
          cases hfind : prow.arms.find? (fun a => a.1.accepts args.length) with
          | none => simp [hfind] at hres'
          | some arm =>
            obtain ⟨ar, body⟩ := arm
            simp only [hfind] at hres'
            have hmem := List.mem_of_find?_eq_some hfind
            have hacc := List.find?_some hfind
            simp only at hacc
            unfold PosRow.safe at hsafe
            simp only [List.all_eq_true] at hsafe
            have hs := hsafe _ hmem
            have hsome := PBody.resolve_safe args ar.atLeastN (Arity.accepts_ge hacc) body [] (by simp) hs c hres'
            cases hm : c.args.mapM (PArg.inst args) with
            | none => simp [hm] at hsome
            | some cargs =>
              simp only [hm] at hc
              exact bif_no_panic m c.fn cargs (mapM_inst_lenOk args hfit c.args cargs hm) site hc
  · rw [if_neg hfit]
    exact fun h => by cases h

/-- the `core::` functions the dispatch table calls that have no model (`Dmn.Bif.coreTable`): for the built-ins
that reach them the answer is still the parameter `rest` -/
def unmodelledCore : List String :=
  ((Dmn.Gen.BifDispatch.positional.flatMap (fun r => r.arms.flatMap (fun a => bodyCalls a.2))).filter
    (fun f => (coreTable.lookup f).isNone)).eraseDups
where
  bodyCalls : PBody → List String
    | .call c => [c.fn]
    | .null => []
    | .ifList _ t e => bodyCalls t ++ bodyCalls e

/-- the built-ins (FEEL names) one of whose arms calls an unmodelled `core::` function -/
def unmodelledBuiltins : List String :=
  (Dmn.Gen.BifDispatch.bifNames.filter (fun e =>
    match posRowOf e.2 with
    | some r => (r.arms.flatMap (fun a => unmodelledCore.bodyCalls a.2)).any (fun f => (coreTable.lookup f).isNone)
    | none => true)).map (·.1)

end Dmn.Eval
