import Dmn.Lemmas.DecModSign
import Dmn.Lemmas.DecParity

/-! A simple sufficient condition for `modExact`: both operands, written at their common exponent,
have at most 33 digits.  Then the floor of the *rounded* quotient is the floor of the exact
quotient (a 34-digit rounding cannot reach the next integer: the distance to it is at least `1/B`),
and the product `b·⌊a/b⌋` has at most 34 digits. -/

namespace Dmn
namespace D128

/-- rounding `A/B` (`A, B < 10^33`) at a negative exponent (`P = 10^(−E)`, coefficient `c`):
the integer part of the rounded value is `⌊A/B⌋`, and the rounded value is an integer only when
`A/B` is one -/
theorem quot_floor_core (A B c P : Nat) (tiny : Prop) (hB : 0 < B) (hA : A < 10 ^ 33) (hB33 : B < 10 ^ 33)
    (hP : 0 < P) (htiny : tiny → 10 ^ 33 ≤ P)
    (h1 : 2 * absDiff (A * P) (c * B) ≤ B)
    (h3 : A * P = c * B ∨ 10 ^ 33 ≤ c ∨ tiny) :
    (A / B) * P ≤ c ∧ c < (A / B + 1) * P ∧ (c = (A / B) * P ↔ A % B = 0) := by
  rw [p33] at *
  have hdm := Nat.div_add_mod A B
  have hρ := Nat.mod_lt A hB
  generalize A / B = n at *
  generalize A % B = ρ at *
  rw [absDiff_le_iff] at h1
  have hAP : A * P = (n * P) * B + ρ * P := by rw [← hdm]; ring
  have hρP : ρ * P + P ≤ B * P := by
    have : (ρ + 1) * P ≤ B * P := Nat.mul_le_mul_right P hρ
    rw [Nat.add_mul, Nat.one_mul] at this; exact this
  have hAle : A * P ≤ 999999999999999999999999999999999 * P := Nat.mul_le_mul_right P (by omega)
  have hα : n * P ≤ c := by
    by_contra hlt
    have : (c + 1) * B ≤ (n * P) * B := Nat.mul_le_mul_right B (by omega)
    rw [Nat.add_mul, Nat.one_mul] at this
    omega
  have hβ : c < (n + 1) * P := by
    by_contra hge
    have hge' : (n + 1) * P ≤ c := by omega
    have hm : ((n + 1) * P) * B ≤ c * B := Nat.mul_le_mul_right B hge'
    have e : ((n + 1) * P) * B = (n * P) * B + B * P := by ring
    rw [e] at hm
    rcases h3 with x | x | x
    · omega
    · have : 1000000000000000000000000000000000 * B ≤ c * B := Nat.mul_le_mul_right B x
      omega
    · have := htiny x
      omega
  refine ⟨hα, hβ, ?_⟩
  constructor
  · intro hc
    by_contra hne
    have hρ1 : P ≤ ρ * P := Nat.le_mul_of_pos_left P (by omega)
    rw [hc] at h1 h3
    rcases h3 with x | x | x
    · omega
    · have : 1000000000000000000000000000000000 * B ≤ (n * P) * B := Nat.mul_le_mul_right B x
      omega
    · have := htiny x
      omega
  · intro h0
    rw [h0, Nat.zero_mul, Nat.add_zero] at hAP
    rw [hAP] at h1
    exact half_exact B c (n * P) hB (by rw [absDiff_le_iff]; exact h1)

/-- rounding `A < 10^33` to a multiple of `W`: a result that is not exact would need 34 digits -/
theorem quot_exact_core (A c W : Nat) (hW : 0 < W) (hA : A < 10 ^ 33)
    (h1 : 2 * absDiff A (c * W) ≤ W) (h3 : A = c * W ∨ 10 ^ 33 ≤ c) : A = c * W := by
  rcases h3 with x | x
  · exact x
  · rw [p33] at *
    rw [absDiff_le_iff] at h1
    have : 1000000000000000000000000000000000 * W ≤ c * W := Nat.mul_le_mul_right W x
    have hW1 : W = 1 := by omega
    subst hW1
    rw [Nat.mul_one] at *
    omega

/-- the magnitude `V/P` of a correct rounding `d` of `A/B` (`A, B < 10^33`), written at the scale
`min d.exp 0`: its integer part is `⌊A/B⌋`, and it is an integer exactly when `A/B` is -/
theorem quot_floor_facts (A B : Nat) (hB : 0 < B) (hA : A < 10 ^ 33) (hB33 : B < 10 ^ 33) (d : D128)
    (h : NearestEven A B 0 d) :
    (A / B) * 10 ^ (-(min d.exp 0)).toNat ≤ d.coeff * 10 ^ (d.exp - min d.exp 0).toNat ∧
    d.coeff * 10 ^ (d.exp - min d.exp 0).toNat < (A / B + 1) * 10 ^ (-(min d.exp 0)).toNat ∧
    (d.coeff * 10 ^ (d.exp - min d.exp 0).toNat = (A / B) * 10 ^ (-(min d.exp 0)).toNat ↔ A % B = 0) := by
  by_cases hE : d.exp < 0
  · have e1 : min d.exp 0 = d.exp := by omega
    have e2 : (d.exp - d.exp).toNat = 0 := by omega
    have e3 : ((0 : Int) - d.exp).toNat = (-d.exp).toNat := by omega
    rw [nearestEven_at A B 0 d d.exp (by omega) (Int.le_refl _)] at h
    rw [e1, e2, Nat.pow_zero, Nat.mul_one]
    rw [e2, e3, Nat.pow_zero, Nat.one_mul] at h
    unfold NECore at h
    obtain ⟨h1, _, h3, _⟩ := h
    refine quot_floor_core A B d.coeff _ (d.exp = eTiny) hB hA hB33 (pow10_pos _) ?_ h1 h3
    intro ht
    rw [ht]
    exact pow10_le (by decide)
  · have e1 : min d.exp 0 = 0 := by omega
    have e2 : (-(0 : Int)).toNat = 0 := by decide
    have e3 : ((0 : Int) - 0).toNat = 0 := by decide
    rw [nearestEven_at A B 0 d 0 (Int.le_refl _) (by omega)] at h
    rw [e1, e2, Nat.pow_zero, Nat.mul_one]
    rw [e3, Nat.pow_zero, Nat.mul_one] at h
    unfold NECore at h
    obtain ⟨h1, _, h3, _⟩ := h
    have hW : 0 < 10 ^ (d.exp - 0).toNat * B := Nat.mul_pos (pow10_pos _) hB
    have hx : A = d.coeff * (10 ^ (d.exp - 0).toNat * B) := by
      refine quot_exact_core A d.coeff _ hW hA h1 ?_
      rcases h3 with x | x | x
      · exact Or.inl x
      · exact Or.inr x
      · exfalso; unfold eTiny at x; omega
    have hx' : A = B * (d.coeff * 10 ^ (d.exp - 0).toNat) := by rw [hx]; ring
    have hn : A / B = d.coeff * 10 ^ (d.exp - 0).toNat := by
      rw [hx']; exact Nat.mul_div_cancel_left _ hB
    have hm : A % B = 0 := by rw [hx']; exact Nat.mul_mod_right _ _
    rw [hn, hm]
    exact ⟨Nat.le_refl _, by omega, by simp⟩

/-! ### the signed floors -/

theorem fdiv_nat_pos (n ρ A B : Nat) (hdm : B * n + ρ = A) (hρ : ρ < B) : Int.fdiv (A : Int) (B : Int) = n := by
  have hAi : (A : Int) = (B : Int) * n + ρ := by exact_mod_cast hdm.symm
  apply fdiv_unique_pos _ _ _ (by omega)
  · rw [Int.mul_comm]; omega
  · rw [Int.add_mul, Int.one_mul, Int.mul_comm]; omega

theorem fdiv_nat_neg (n ρ A B : Nat) (hdm : B * n + ρ = A) (hρ : ρ < B) :
    Int.fdiv (-(A : Int)) (B : Int) = if ρ = 0 then -(n : Int) else -(n : Int) - 1 := by
  have hAi : (A : Int) = (B : Int) * n + ρ := by exact_mod_cast hdm.symm
  by_cases h0 : ρ = 0
  · rw [if_pos h0]
    subst h0
    apply fdiv_unique_pos _ _ _ (by omega)
    · rw [Int.neg_mul, Int.mul_comm]; omega
    · rw [Int.add_mul, Int.one_mul, Int.neg_mul, Int.mul_comm]; omega
  · rw [if_neg h0]
    apply fdiv_unique_pos _ _ _ (by omega)
    · rw [Int.sub_mul, Int.one_mul, Int.neg_mul, Int.mul_comm]; omega
    · have : -(n : Int) - 1 + 1 = -(n : Int) := by omega
      rw [this, Int.neg_mul, Int.mul_comm]; omega

theorem signed_floor_pos (n P V : Nat) (F : Int) (hP : 0 < P)
    (hα : n * P ≤ V) (hβ : V < (n + 1) * P)
    (hF1 : F * (P : Int) ≤ (V : Int)) (hF2 : (V : Int) < (F + 1) * (P : Int)) : F = n := by
  have hαi : (n : Int) * P ≤ V := by exact_mod_cast hα
  have hβi : (V : Int) < ((n : Int) + 1) * P := by exact_mod_cast hβ
  exact int_floor_unique F n V P (by omega) hF1 hF2 hαi hβi

theorem signed_floor_neg (n ρ P V : Nat) (F : Int) (hP : 0 < P)
    (hα : n * P ≤ V) (hβ : V < (n + 1) * P) (hγ : V = n * P ↔ ρ = 0)
    (hF1 : F * (P : Int) ≤ -(V : Int)) (hF2 : -(V : Int) < (F + 1) * (P : Int)) :
    F = if ρ = 0 then -(n : Int) else -(n : Int) - 1 := by
  have hαi : (n : Int) * P ≤ V := by exact_mod_cast hα
  have hβi : (V : Int) < ((n : Int) + 1) * P := by exact_mod_cast hβ
  have hPi : (0 : Int) < P := by omega
  rw [Int.add_mul, Int.one_mul] at hβi
  by_cases h0 : ρ = 0
  · rw [if_pos h0]
    have hV : (V : Int) = (n : Int) * P := by exact_mod_cast hγ.mpr h0
    refine int_floor_unique F (-(n : Int)) (-(V : Int)) P hPi hF1 hF2 ?_ ?_
    · rw [Int.neg_mul]; omega
    · rw [Int.add_mul, Int.one_mul, Int.neg_mul]; omega
  · rw [if_neg h0]
    have hne : V ≠ n * P := fun x => h0 (hγ.mp x)
    have hlt : (n : Int) * P < V := by
      have : n * P < V := by omega
      exact_mod_cast this
    refine int_floor_unique F (-(n : Int) - 1) (-(V : Int)) P hPi hF1 hF2 ?_ ?_
    · rw [Int.sub_mul, Int.one_mul, Int.neg_mul]; omega
    · have : -(n : Int) - 1 + 1 = -(n : Int) := by omega
      rw [this, Int.neg_mul]; omega

theorem sint_mul_sint (s t : Bool) (x y : Nat) : sint (s != t) (x * y) = sint s x * sint t y := by
  unfold sint
  cases s <;> cases t <;> simp [Int.natCast_mul]

theorem sint_natAbs (s : Bool) (x : Nat) : (sint s x).natAbs = x := by
  unfold sint
  cases s <;> simp

/-- **the floor of the rounded quotient is the floor of the exact quotient** when both operands,
written at the common exponent, have at most 33 digits; `r` is any result meeting `DivSpec` -/
theorem floorQuot_of_small (a b : D128) (hb0 : b.coeff ≠ 0)
    (hA : a.coeff * 10 ^ (a.exp - min a.exp b.exp).toNat < 10 ^ 33)
    (hB : b.coeff * 10 ^ (b.exp - min a.exp b.exp).toNat < 10 ^ 33)
    (r : D128R) (hr : DivSpec a b r) :
    ∃ d, r = .fin d ∧ WF d ∧ 0 ≤ (D128.floor d).exp ∧ scaled (D128.floor d) 0 = floorQuot a b ∧
      (floorQuot a b).natAbs * (b.coeff * 10 ^ (b.exp - min a.exp b.exp).toNat)
        ≤ a.coeff * 10 ^ (a.exp - min a.exp b.exp).toNat + b.coeff * 10 ^ (b.exp - min a.exp b.exp).toNat := by
  have hBpos : 0 < b.coeff * 10 ^ (b.exp - min a.exp b.exp).toNat := Nat.mul_pos (by omega) (pow10_pos _)
  have hfq : floorQuot a b = Int.fdiv (sint a.neg (a.coeff * 10 ^ (a.exp - min a.exp b.exp).toNat))
      (sint b.neg (b.coeff * 10 ^ (b.exp - min a.exp b.exp).toNat)) := rfl
  unfold DivSpec at hr
  rw [if_neg hb0] at hr
  by_cases ha0 : a.coeff = 0
  · rw [if_pos ha0] at hr
    cases r with
    | nan => exact absurd hr (by simp [IsZeroWith])
    | inf s => exact absurd hr (by simp [IsZeroWith])
    | fin d =>
      obtain ⟨c0, _, wd⟩ := hr
      obtain ⟨f0, f1, f2⟩ := floor_value_at d (min d.exp 0) (by omega) (by omega)
      have hz : scaled d (min d.exp 0) = 0 := (scaled_zero_iff d _).mpr c0
      rw [hz] at f1 f2
      have hF : scaled (D128.floor d) 0 = 0 :=
        int_floor_unique _ 0 0 _ (pow10_cast_pos _) f1 f2 (by omega) (by have := pow10_cast_pos (-(min d.exp 0)).toNat; omega)
      have hq0 : floorQuot a b = 0 := by
        rw [hfq, ha0, Nat.zero_mul]
        have : sint a.neg 0 = 0 := by unfold sint; cases a.neg <;> rfl
        rw [this, Int.zero_fdiv]
      refine ⟨d, rfl, wd, f0, by rw [hF, hq0], ?_⟩
      rw [hq0]
      simp
  · rw [if_neg ha0] at hr
    have hv : a.coeff * (b.coeff * 10 ^ (b.exp - min a.exp b.exp).toNat)
          * 10 ^ (a.exp - b.exp - min (a.exp - b.exp) 0).toNat
        = a.coeff * 10 ^ (a.exp - min a.exp b.exp).toNat * b.coeff * 10 ^ ((0 : Int) - min (a.exp - b.exp) 0).toNat := by
      have e : (b.exp - min a.exp b.exp).toNat + (a.exp - b.exp - min (a.exp - b.exp) 0).toNat
          = (a.exp - min a.exp b.exp).toNat + ((0 : Int) - min (a.exp - b.exp) 0).toNat := by omega
      calc a.coeff * (b.coeff * 10 ^ (b.exp - min a.exp b.exp).toNat) * 10 ^ (a.exp - b.exp - min (a.exp - b.exp) 0).toNat
          = a.coeff * b.coeff * (10 ^ (b.exp - min a.exp b.exp).toNat * 10 ^ (a.exp - b.exp - min (a.exp - b.exp) 0).toNat) := by
            ring
        _ = a.coeff * b.coeff * (10 ^ (a.exp - min a.exp b.exp).toNat * 10 ^ ((0 : Int) - min (a.exp - b.exp) 0).toNat) := by
            rw [← pow10_add, ← pow10_add, e]
        _ = _ := by ring
    have hr2 := (roundsHalfEven_value_congr (a.neg != b.neg) a.coeff b.coeff _ _ (a.exp - b.exp) 0
      (min (a.exp - b.exp) 0) (by omega) hBpos (by omega) (by omega) hv r).mp hr
    generalize hAdef : a.coeff * 10 ^ (a.exp - min a.exp b.exp).toNat = A at *
    generalize hBdef : b.coeff * 10 ^ (b.exp - min a.exp b.exp).toNat = B at *
    cases r with
    | nan => exact absurd hr2 (by simp [RoundsHalfEven])
    | inf s =>
      exfalso
      have ho : Overflows A B 0 := hr2.2
      unfold Overflows at ho
      simp only [] at ho
      have e1 : min (0 : Int) eTop = 0 := by decide
      rw [e1] at ho
      have e2 : ((0 : Int) - 0).toNat = 0 := by decide
      rw [e2, Nat.pow_zero, Nat.mul_one] at ho
      have hT := pow10_pos (eTop - 0).toNat
      generalize 10 ^ (eTop - 0).toNat = T at ho hT
      have e3 : (2 * 10 ^ 34 - 1) = 19999999999999999999999999999999999 := by decide
      rw [e3] at ho
      have h1 : 19999999999999999999999999999999999 * 1 ≤ 19999999999999999999999999999999999 * T :=
        Nat.mul_le_mul_left _ hT
      have h2 : 19999999999999999999999999999999999 * T * 1 ≤ 19999999999999999999999999999999999 * T * B :=
        Nat.mul_le_mul_left _ hBpos
      rw [p33] at hA
      omega
    | fin d =>
      obtain ⟨hn, wd, hne⟩ := hr2
      obtain ⟨g1, g2, g3⟩ := quot_floor_facts A B hBpos hA hB d hne
      obtain ⟨f0, f1, f2⟩ := floor_value_at d (min d.exp 0) (by omega) (by omega)
      have hsc : scaled d (min d.exp 0) = sint d.neg (d.coeff * 10 ^ (d.exp - min d.exp 0).toNat) := rfl
      rw [hsc, hn] at f1 f2
      have hdm := Nat.div_add_mod A B
      have hρ := Nat.mod_lt A hBpos
      have hP := pow10_pos (-(min d.exp 0)).toNat
      generalize 10 ^ (-(min d.exp 0)).toNat = P at *
      generalize d.coeff * 10 ^ (d.exp - min d.exp 0).toNat = V at *
      generalize A / B = n at *
      generalize A % B = ρ at *
      have hnB : (n + 1) * B ≤ A + B := by
        rw [Nat.add_mul, Nat.one_mul, Nat.mul_comm]; omega
      refine ⟨d, rfl, wd, f0, ?_, ?_⟩
      · rw [hfq]
        cases hna : a.neg <;> cases hnb : b.neg <;> rw [hna, hnb] at f1 f2
        · have hF := signed_floor_pos n P V _ hP g1 g2 f1 f2
          rw [hF]
          exact (fdiv_nat_pos n ρ A B hdm hρ).symm
        · have hF := signed_floor_neg n ρ P V _ hP g1 g2 g3 f1 f2
          rw [hF]
          show _ = Int.fdiv (A : Int) (-(B : Int))
          have := fdiv_nat_neg n ρ A B hdm hρ
          rw [← Int.neg_fdiv_neg, Int.neg_neg] at this
          exact this.symm
        · have hF := signed_floor_neg n ρ P V _ hP g1 g2 g3 f1 f2
          rw [hF]
          exact (fdiv_nat_neg n ρ A B hdm hρ).symm
        · have hF := signed_floor_pos n P V _ hP g1 g2 f1 f2
          rw [hF]
          show _ = Int.fdiv (-(A : Int)) (-(B : Int))
          rw [Int.neg_fdiv_neg]
          exact (fdiv_nat_pos n ρ A B hdm hρ).symm
      · have hq : (floorQuot a b).natAbs ≤ n + 1 := by
          rw [hfq]
          cases hna : a.neg <;> cases hnb : b.neg
          · show (Int.fdiv (A : Int) (B : Int)).natAbs ≤ n + 1
            rw [fdiv_nat_pos n ρ A B hdm hρ]; omega
          · show (Int.fdiv (A : Int) (-(B : Int))).natAbs ≤ n + 1
            have := fdiv_nat_neg n ρ A B hdm hρ
            rw [← Int.neg_fdiv_neg, Int.neg_neg] at this
            rw [this]
            split <;> omega
          · show (Int.fdiv (-(A : Int)) (B : Int)).natAbs ≤ n + 1
            rw [fdiv_nat_neg n ρ A B hdm hρ]
            split <;> omega
          · show (Int.fdiv (-(A : Int)) (-(B : Int))).natAbs ≤ n + 1
            rw [Int.neg_fdiv_neg, fdiv_nat_pos n ρ A B hdm hρ]; omega
        exact Nat.le_trans (Nat.mul_le_mul_right B hq) hnB

/-- `reduce` keeps the value and the sign and stays representable (as `reduce_val`, `Props/C02.lean`) -/
theorem reduce_val' (a : D128) (hwf : WF a) :
    SameValue (reduce a) a ∧ (reduce a).neg = a.neg ∧ WF (reduce a) := by
  obtain ⟨hc, hlo, hhi⟩ := hwf
  unfold reduce
  by_cases h0 : a.coeff = 0
  · rw [if_pos h0]
    refine ⟨?_, rfl, ⟨by show (0 : Nat) < 10 ^ 34; decide, by show (-6176 : Int) ≤ 0; decide,
      by show (0 : Int) ≤ 6111; decide⟩⟩
    unfold SameValue scaled sint
    simp [h0]
  · rw [if_neg h0]
    obtain ⟨h1, h2, h3⟩ := stripZeros_spec (eTop - a.exp).toNat a.coeff
    generalize hsz : stripZeros (eTop - a.exp).toNat a.coeff = p at h1 h2 h3
    obtain ⟨m, k⟩ := p
    simp only [] at h1 h2 h3 ⊢
    have hk : (k : Int) ≤ eTop - a.exp := by unfold eTop at *; omega
    refine ⟨?_, trivial, ⟨?_, ?_, ?_⟩⟩
    rotate_left
    · show m < 10 ^ 34
      have : m ≤ a.coeff := by
        rw [h1]
        exact Nat.le_mul_of_pos_right m (pow10_pos k)
      omega
    · show -6176 ≤ a.exp + (k : Int)
      omega
    · show a.exp + (k : Int) ≤ 6111
      unfold eTop at hk; omega
    · unfold SameValue scaled
      simp only []
      have e1 : min (a.exp + (k : Int)) a.exp = a.exp := by omega
      rw [e1]
      have e2 : (a.exp + (k : Int) - a.exp).toNat = k := by omega
      have e3 : (a.exp - a.exp).toNat = 0 := by omega
      rw [e2, e3, ← h1]
      simp

theorem reduce_exp_nonneg (x : D128) (h : 0 ≤ x.exp) : 0 ≤ (D128.reduce x).exp := by
  unfold D128.reduce
  by_cases h0 : x.coeff = 0
  · rw [if_pos h0]
  · rw [if_neg h0]
    generalize stripZeros (eTop - x.exp).toNat x.coeff = p
    obtain ⟨m, k⟩ := p
    show 0 ≤ x.exp + (k : Int)
    omega

theorem reduce_exp_of_zero (x : D128) (h : (D128.reduce x).coeff = 0) : (D128.reduce x).exp = 0 := by
  have h0 := (reduce_coeff_zero x).mp h
  unfold D128.reduce
  rw [if_pos h0]

theorem toInt_of_exp_nonneg (f : D128) (h : 0 ≤ f.exp) : toInt? f = some (scaled f 0) := by
  unfold toInt? scaled
  rw [if_pos h]
  have : (f.exp - 0).toNat = f.exp.toNat := by omega
  rw [this]

/-- **a simple sufficient condition for `modExact`**: both operands, written at their common
exponent `min a.exp b.exp`, have at most 33 digits (and the exponent of the divisor is at most 6078,
so that the exponent of the product stays in range).  `hdiv` is `div_correct`. -/
theorem modExact_of_small_aux (a b : D128) (wb : WF b) (hb0 : b.coeff ≠ 0)
    (hA : a.coeff * 10 ^ (a.exp - min a.exp b.exp).toNat < 10 ^ 33)
    (hB : b.coeff * 10 ^ (b.exp - min a.exp b.exp).toNat < 10 ^ 33)
    (hbe : b.exp ≤ 6078) (hdiv : DivSpec a b (D128.div a b)) : modExact a b = true := by
  obtain ⟨d, hd, wd, _, hq, hbound⟩ := floorQuot_of_small a b hb0 hA hB _ hdiv
  obtain ⟨rv1, _, rv3⟩ := reduce_val' d wd
  have w1 : WF (D128.floor (D128.reduce d)) := floor_wf _ rv3
  obtain ⟨rw1, _, _⟩ := reduce_val' (D128.floor (D128.reduce d)) w1
  have sv : SameValue (D128.floor (D128.reduce d)) (D128.floor d) := floor_sameValue _ _ rv1
  have x1 : 0 ≤ (D128.floor (D128.reduce d)).exp :=
    (floor_value_at (D128.reduce d) (min (D128.reduce d).exp 0) (by omega) (by omega)).1
  have x0 : 0 ≤ (D128.floor d).exp := (floor_value_at d (min d.exp 0) (by omega) (by omega)).1
  have x2 : 0 ≤ (D128.reduce (D128.floor (D128.reduce d))).exp := reduce_exp_nonneg _ x1
  generalize hf : D128.reduce (D128.floor (D128.reduce d)) = f at *
  have hfq : scaled f 0 = floorQuot a b := by
    rw [sameValue_at f _ rw1 0 (by omega), sameValue_at _ _ sv 0 (by omega), hq]
  have hti := toInt_of_exp_nonneg f x2
  -- the size of the product
  have hfabs : f.coeff * 10 ^ f.exp.toNat = (floorQuot a b).natAbs := by
    rw [← hfq]
    unfold scaled
    have : (f.exp - 0).toNat = f.exp.toNat := by omega
    rw [this, sint_natAbs]
  have hBpos : 0 < b.coeff * 10 ^ (b.exp - min a.exp b.exp).toNat := Nat.mul_pos (by omega) (pow10_pos _)
  have hsum : (floorQuot a b).natAbs * (b.coeff * 10 ^ (b.exp - min a.exp b.exp).toNat) < 2 * 10 ^ 33 := by omega
  have hbc : b.coeff ≤ b.coeff * 10 ^ (b.exp - min a.exp b.exp).toNat := Nat.le_mul_of_pos_right _ (pow10_pos _)
  have hfc : f.coeff ≤ (floorQuot a b).natAbs := by
    rw [← hfabs]; exact Nat.le_mul_of_pos_right _ (pow10_pos _)
  have hm : b.coeff * f.coeff < 10 ^ 34 := by
    have h1 : b.coeff * f.coeff ≤ (b.coeff * 10 ^ (b.exp - min a.exp b.exp).toNat) * (floorQuot a b).natAbs :=
      Nat.mul_le_mul hbc hfc
    rw [Nat.mul_comm (b.coeff * 10 ^ (b.exp - min a.exp b.exp).toNat)] at h1
    rw [p33] at hsum
    rw [p34]
    omega
  have hfe : f.exp ≤ 33 := by
    by_cases hc0 : f.coeff = 0
    · have := reduce_exp_of_zero (D128.floor (D128.reduce d)) (by rw [hf]; exact hc0)
      rw [hf] at this
      omega
    · have h1 : 10 ^ f.exp.toNat ≤ f.coeff * 10 ^ f.exp.toNat := Nat.le_mul_of_pos_left _ (by omega)
      have h2 : (floorQuot a b).natAbs ≤ (floorQuot a b).natAbs * (b.coeff * 10 ^ (b.exp - min a.exp b.exp).toNat) :=
        Nat.le_mul_of_pos_right _ hBpos
      have h3 : 10 ^ f.exp.toNat < 10 ^ 34 := by
        rw [p34]; rw [p33] at hsum; omega
      have := pow10_lt_iff.mp h3
      omega
  have hmul : D128.mul b f = .fin ⟨b.neg != f.neg, b.coeff * f.coeff, b.exp + f.exp⟩ := by
    unfold D128.mul
    have hlo : -6176 ≤ b.exp + f.exp := by have := wb.2.1; omega
    have hhi : b.exp + f.exp ≤ 6111 := by omega
    by_cases hm0 : b.coeff * f.coeff = 0
    · rw [hm0, finalize_zero, clampExp_id _ hlo hhi]
    · exact finalize_exact _ _ _ hm hm0 hlo hhi
  generalize hp0 : (⟨b.neg != f.neg, b.coeff * f.coeff, b.exp + f.exp⟩ : D128) = p0 at hmul
  have wp0 : WF p0 := by
    rw [← hp0]
    exact ⟨hm, by show -6176 ≤ b.exp + f.exp; have := wb.2.1; omega, by show b.exp + f.exp ≤ 6111; omega⟩
  obtain ⟨rp1, _, _⟩ := reduce_val' p0 wp0
  have hFm : FNum.mul (.fin b) (.fin f) = .fin (D128.reduce p0) := by
    show (D128.mul b f).reduce = _
    rw [hmul]; rfl
  have hFf : FNum.floor (FNum.div (.fin a) (.fin b)) = .fin f := by
    show (D128R.map D128.floor (D128R.reduce (D128.div a b))).reduce = _
    rw [hd, ← hf]; rfl
  unfold modExact
  rw [hFf]
  simp only []
  rw [hFm, hti]
  simp only [Bool.and_eq_true, decide_eq_true_eq]
  refine ⟨hfq, ?_⟩
  -- the product, at the scale σ0 below everything
  have hp0e : p0.exp = b.exp + f.exp := by rw [← hp0]
  have hp0c : p0.coeff = b.coeff * f.coeff := by rw [← hp0]
  have hp0n : p0.neg = (b.neg != f.neg) := by rw [← hp0]
  obtain ⟨σ0, hσ⟩ : ∃ σ0, σ0 = min (min (D128.reduce p0).exp p0.exp) b.exp := ⟨_, rfl⟩
  have hs0 : σ0 ≤ min (D128.reduce p0).exp b.exp := by omega
  have e1 := scaled_shift (D128.reduce p0) σ0 (min (D128.reduce p0).exp b.exp) hs0 (by omega)
  have e2 := scaled_shift b σ0 (min (D128.reduce p0).exp b.exp) hs0 (by omega)
  have e3 := sameValue_at (D128.reduce p0) p0 rp1 σ0 (by omega)
  have e4 : scaled p0 σ0 = scaled b σ0 * scaled f 0 := by
    unfold scaled
    rw [hp0n, hp0c, hp0e]
    have hsp : (b.exp + f.exp - σ0).toNat = (b.exp - σ0).toNat + (f.exp - 0).toNat := by omega
    rw [hsp, pow10_add, ← sint_mul_sint]
    congr 1
    ring
  rw [e1, e4, e2] at e3
  have hT := pow10_cast_pos (min (D128.reduce p0).exp b.exp - σ0).toNat
  generalize ((10 ^ (min (D128.reduce p0).exp b.exp - σ0).toNat : Nat) : Int) = T at e3 hT
  have e5 : scaled b (min (D128.reduce p0).exp b.exp) * T * scaled f 0
      = (scaled b (min (D128.reduce p0).exp b.exp) * scaled f 0) * T := by ring
  rw [e5] at e3
  exact Int.eq_of_mul_eq_mul_right (by omega) e3

end D128
end Dmn
