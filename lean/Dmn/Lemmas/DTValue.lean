import Dmn.Model.ItemDef

/-!
# Lemmas about the value type: string order, contexts as sorted association lists,
`type_of` laws needed by `coerced`
-/

namespace Dmn.DTValue

open Dmn

/-! ## `strLt` is a strict total order -/

theorem strLt_irrefl : ∀ a : List Char, strLt a a = false
  | [] => rfl
  | c :: cs => by simp [strLt, strLt_irrefl cs]

theorem strLt_trans : ∀ a b c : List Char, strLt a b = true → strLt b c = true → strLt a c = true
  | [], [], _, h, _ => by simp [strLt] at h
  | [], _ :: _, [], _, h => by simp [strLt] at h
  | [], _ :: _, _ :: _, _, _ => by simp [strLt]
  | _ :: _, [], _, h, _ => by simp [strLt] at h
  | _ :: _, _ :: _, [], _, h => by simp [strLt] at h
  | x :: xs, y :: ys, z :: zs, h1, h2 => by
    simp only [strLt] at h1 h2 ⊢
    by_cases hxy : x.toNat < y.toNat
    · by_cases hyz : y.toNat < z.toNat
      · have : x.toNat < z.toNat := by omega
        simp [this]
      · simp only [hyz, if_false] at h2
        by_cases hzy : z.toNat < y.toNat
        · simp [hzy] at h2
        · have : x.toNat < z.toNat := by omega
          simp [this]
    · simp only [hxy, if_false] at h1
      by_cases hyx : y.toNat < x.toNat
      · simp [hyx] at h1
      · simp only [hyx, if_false] at h1
        have hxy' : x.toNat = y.toNat := by omega
        by_cases hyz : y.toNat < z.toNat
        · have : x.toNat < z.toNat := by omega
          simp [this]
        · simp only [hyz, if_false] at h2
          by_cases hzy : z.toNat < y.toNat
          · simp [hzy] at h2
          · simp only [hzy, if_false] at h2
            have h3 : ¬ x.toNat < z.toNat := by omega
            have h4 : ¬ z.toNat < x.toNat := by omega
            simp only [h3, h4, if_false]
            exact strLt_trans xs ys zs h1 h2

theorem strLt_trichotomy : ∀ a b : List Char, strLt a b = false → a ≠ b → strLt b a = true
  | [], [], _, h => absurd rfl h
  | [], _ :: _, h, _ => by simp [strLt] at h
  | _ :: _, [], _, _ => by simp [strLt]
  | x :: xs, y :: ys, h, hne => by
    simp only [strLt] at h ⊢
    by_cases hxy : x.toNat < y.toNat
    · simp [hxy] at h
    · simp only [hxy, if_false] at h
      by_cases hyx : y.toNat < x.toNat
      · simp [hyx]
      · simp only [hyx, if_false] at h ⊢
        have hxy' : x = y := Char.toNat_inj.mp (by omega)
        subst hxy'
        simp only [Nat.lt_irrefl, if_false]
        exact strLt_trichotomy xs ys h (fun e => hne (by rw [e]))

theorem strLt_asymm (a b : List Char) (h : strLt a b = true) : strLt b a = false := by
  cases hb : strLt b a with
  | false => rfl
  | true =>
    have := strLt_trans a b a h hb
    rw [strLt_irrefl] at this
    exact absurd this (by simp)

theorem strLt_ne (a b : List Char) (h : strLt a b = true) : a ≠ b := by
  intro e; subst e; rw [strLt_irrefl] at h; exact absurd h (by simp)

/-! ## Contexts -/

/-- All keys of `es` are greater than `a`. -/
def allGt (a : List Char) (es : List (List Char × DTValue)) : Prop := ∀ e ∈ es, strLt a e.1 = true

/-- Strictly increasing keys. -/
def Sorted : List (List Char × DTValue) → Prop
  | [] => True
  | (a, _) :: es => allGt a es ∧ Sorted es

theorem sortedKeys_iff : ∀ es : List (List Char × DTValue), ID.Spec.sortedKeys es = true ↔ Sorted es
  | [] => by simp [ID.Spec.sortedKeys, Sorted]
  | [(a, x)] => by simp [ID.Spec.sortedKeys, Sorted, allGt]
  | (a, x) :: (b, y) :: rest => by
    have ih := sortedKeys_iff ((b, y) :: rest)
    simp only [ID.Spec.sortedKeys, Bool.and_eq_true, ih, Sorted, allGt]
    constructor
    · rintro ⟨hab, hgt, hs⟩
      refine ⟨?_, hgt, hs⟩
      intro e he
      simp only [List.mem_cons] at he
      rcases he with rfl | he
      · exact hab
      · exact strLt_trans _ _ _ hab (hgt e he)
    · rintro ⟨h1, hgt, hs⟩
      exact ⟨h1 (b, y) (by simp), hgt, hs⟩

theorem ctxGet_insert (k : List Char) (v : DTValue) (es : List (List Char × DTValue)) (k' : List Char) :
    ctxGet k' (ctxInsert k v es) = if k' = k then some v else ctxGet k' es := by
  induction es with
  | nil => simp [ctxInsert, ctxGet]
  | cons e es ih =>
    obtain ⟨k0, v0⟩ := e
    simp only [ctxInsert]
    split
    · simp [ctxGet]
    · split
      · rename_i h; subst h
        simp only [ctxGet]
        by_cases hk : k' = k <;> simp [hk]
      · rename_i hlt hne
        simp only [ctxGet, ih]
        by_cases hk0 : k' = k0
        · subst hk0
          have : ¬ k' = k := fun e => hne e.symm
          simp [this]
        · simp [hk0]

theorem allGt_get_none {a : List Char} {es : List (List Char × DTValue)} (h : allGt a es) :
    ctxGet a es = none := by
  induction es with
  | nil => rfl
  | cons e es ih =>
    obtain ⟨k0, v0⟩ := e
    have h0 := h (k0, v0) (by simp)
    have hne : a ≠ k0 := strLt_ne _ _ h0
    simp only [ctxGet, hne, if_false]
    exact ih (fun e he => h e (by simp [he]))

theorem get_some_mem {k : List Char} {es : List (List Char × DTValue)} {v : DTValue}
    (h : ctxGet k es = some v) : (k, v) ∈ es := by
  induction es with
  | nil => simp [ctxGet] at h
  | cons e es ih =>
    obtain ⟨k0, v0⟩ := e
    simp only [ctxGet] at h
    split at h
    · rename_i hk; cases h; subst hk; simp
    · exact List.mem_cons_of_mem _ (ih h)

/-- Two sorted association lists with the same lookups are equal. -/
theorem sorted_ext : ∀ (es fs : List (List Char × DTValue)), Sorted es → Sorted fs →
    (∀ k, ctxGet k es = ctxGet k fs) → es = fs
  | [], [], _, _, _ => rfl
  | [], (b, y) :: fs, _, _, h => by
    have := h b
    simp [ctxGet] at this
  | (a, x) :: es, [], _, _, h => by
    have := h a
    simp [ctxGet] at this
  | (a, x) :: es, (b, y) :: fs, hs, hf, h => by
    obtain ⟨hga, hse⟩ := hs
    obtain ⟨hgb, hsf⟩ := hf
    have hab : a = b := by
      by_cases hab : a = b
      · exact hab
      · exfalso
        have h1 := h a
        simp only [ctxGet, if_true] at h1
        have hab' : ¬ a = b := hab
        simp only [hab', if_false] at h1
        have m1 := get_some_mem h1.symm
        have l1 := hgb _ m1
        have h2 := h b
        simp only [ctxGet, if_true] at h2
        have hba' : ¬ b = a := fun e => hab e.symm
        simp only [hba', if_false] at h2
        have m2 := get_some_mem h2
        have l2 := hga _ m2
        have := strLt_asymm _ _ l1
        simp only at l2
        rw [l2] at this
        exact absurd this (by simp)
    subst hab
    have hxy : x = y := by
      have := h a
      simpa [ctxGet] using this
    subst hxy
    have : es = fs := by
      apply sorted_ext es fs hse hsf
      intro k
      by_cases hk : k = a
      · subst hk
        rw [allGt_get_none hga, allGt_get_none hgb]
      · have := h k
        simpa [ctxGet, hk] using this
    rw [this]

theorem allGt_insert {a k : List Char} {v : DTValue} {es : List (List Char × DTValue)}
    (h : allGt a es) (hk : strLt a k = true) : allGt a (ctxInsert k v es) := by
  induction es with
  | nil =>
    intro e he
    simp only [ctxInsert, List.mem_singleton] at he
    subst he; exact hk
  | cons e0 es ih =>
    obtain ⟨k0, v0⟩ := e0
    simp only [ctxInsert]
    split
    · intro e he
      simp only [List.mem_cons] at he
      rcases he with rfl | rfl | he
      · exact hk
      · exact h _ (by simp)
      · exact h _ (by simp [he])
    · split
      · intro e he
        simp only [List.mem_cons] at he
        rcases he with rfl | he
        · exact hk
        · exact h _ (by simp [he])
      · intro e he
        simp only [List.mem_cons] at he
        rcases he with rfl | he
        · exact h _ (by simp)
        · exact ih (fun e he => h e (by simp [he])) e he

theorem sorted_insert (k : List Char) (v : DTValue) : ∀ es : List (List Char × DTValue),
    Sorted es → Sorted (ctxInsert k v es)
  | [], _ => by simp [ctxInsert, Sorted, allGt]
  | (k0, v0) :: es, hs => by
    obtain ⟨hg, hse⟩ := hs
    simp only [ctxInsert]
    split
    · rename_i hlt
      refine ⟨?_, hg, hse⟩
      intro e he
      simp only [List.mem_cons] at he
      rcases he with rfl | he
      · exact hlt
      · exact strLt_trans _ _ _ hlt (hg e he)
    · split
      · rename_i h; subst h
        exact ⟨hg, hse⟩
      · rename_i hlt hne
        have hgt : strLt k0 k = true := strLt_trichotomy k k0 (by simpa using hlt) hne
        exact ⟨allGt_insert hg hgt, sorted_insert k v es hse⟩

theorem sorted_foldl_insert (ps : List (List Char × DTValue)) :
    ∀ acc, Sorted acc → Sorted (ps.foldl (fun acc p => ctxInsert p.1 p.2 acc) acc) := by
  induction ps with
  | nil => intro acc h; exact h
  | cons p ps ih => intro acc h; exact ih _ (sorted_insert _ _ _ h)

/-! ## `type_of` laws (for `coerced`) -/

theorem ops_laws : ValOps.Laws DTValue.ops where
  typeOf_null := by simp [ops, typeOf]
  typeOf_singleton := by intro v; simp [ops, typeOf, allSame]
  typeOf_asList_singleton := by
    intro v x h
    cases v with
    | list vs =>
      simp only [ops, Option.some.injEq] at h
      subst h
      simp [ops, typeOf, allSame]
    | _ => simp [ops] at h

end Dmn.DTValue
