import Dmn.Lemmas.BifsNoPanic

/-!
# Lemmas: how the code and the specification read positions and lengths

`to_usize` / `to_isize` against the integer a number denotes, for numbers written without
fraction digits; the `length` argument of `substring`.
-/

namespace Dmn
namespace Bif

/-- a number written without fraction digits that `to_usize` rejects is negative or ≥ 2^64
(`-0` does not occur: FEEL negation of 0 is 0) -/
theorem toUsize_none_plain {d : Dec} (hexp : 0 ≤ d.exp) (hz : d.coeff = 0 → d.neg = false)
    (h : d.toUsize? = none) : ∃ v, d.toInt? = some v ∧ (v < 0 ∨ (Usz.modulus : Int) ≤ v) := by
  obtain ⟨neg, c, e⟩ := d
  simp only at hexp hz
  refine ⟨Dec.scoeff ⟨neg, c, e⟩ * 10 ^ e.toNat, ?_, ?_⟩
  · unfold Dec.toInt?; rw [if_pos (by simpa using hexp)]
  · unfold Dec.toUsize? at h
    simp only at h
    have hnlt : ¬ e < 0 := by omega
    cases neg with
    | true =>
      left
      have hc : c ≠ 0 := fun hc => by simpa using hz hc
      simp only [Dec.scoeff, if_true]
      have hp : (0 : Int) < (c : Int) * 10 ^ e.toNat :=
        Int.mul_pos (by omega) (Int.pow_pos (by decide))
      rw [Int.neg_mul]; omega
    | false =>
      right
      simp [hnlt] at h
      simp only [Dec.scoeff, Bool.false_eq_true, if_false]
      unfold Usz.modulus
      have : ((c * 10 ^ e.toNat : Nat) : Int) = (c : Int) * 10 ^ e.toNat := by push_cast; rfl
      omega

/-- not the number `-0` -/
def NotNegZero (v : Value) : Prop :=
  match v with
  | .num d => d.coeff = 0 → d.neg = false
  | _ => True

/-- a number written without fraction digits, and not `-0` -/
def PlainNat (v : Value) : Prop :=
  match v with
  | .num d => 0 ≤ d.exp ∧ (d.coeff = 0 → d.neg = false)
  | _ => True

theorem bind_none_right {α β : Type} (o : Option α) : (o.bind fun _ => (none : Option β)) = none := by
  cases o <;> rfl

theorem none_bind' {α β : Type} (f : α → Option β) : (none : Option α).bind f = none := rfl

theorem toIsize_toInt {d : Dec} {i : Int} (h : d.toIsize? = some i) : d.toInt? = some i := by
  unfold Dec.toIsize? at h
  split at h
  · exact absurd h (by simp)
  · rename_i hexp
    simp only at h
    split at h
    · injection h with h
      unfold Dec.toInt?
      rw [if_pos (by omega), h]
    · exact absurd h (by simp)

theorem toIsize_none_plain {d : Dec} (hexp : 0 ≤ d.exp) (h : d.toIsize? = none) :
    ∃ v, d.toInt? = some v ∧ (v < -(2 : Int) ^ 63 ∨ (2 : Int) ^ 63 ≤ v) := by
  refine ⟨d.scoeff * 10 ^ d.exp.toNat, ?_, ?_⟩
  · unfold Dec.toInt?; rw [if_pos (by omega)]
  · unfold Dec.toIsize? at h
    rw [if_neg (by omega)] at h
    simp only at h
    split at h
    · exact absurd h (by simp)
    · rename_i hr
      omega

theorem integralForm_plain {d : Dec} (h : 0 ≤ d.exp) : d.integralForm = d := by
  unfold Dec.integralForm Dec.isIntegral Dec.trunc
  have : d.exp ≥ 0 := h
  simp [this]

theorem toUsizeV_plain {d : Dec} (h : 0 ≤ d.exp) : d.toUsizeV? = d.toUsize? := by
  unfold Dec.toUsizeV?; rw [integralForm_plain h]

theorem toIsizeV_plain {d : Dec} (h : 0 ≤ d.exp) : d.toIsizeV? = d.toIsize? := by
  unfold Dec.toIsizeV?; rw [integralForm_plain h]

/-- what `to_usize` accepts is the integer the number denotes -/
theorem toUsizeV_some {d : Dec} {i : Nat} (h : d.toUsizeV? = some i) :
    d.toInt? = some (i : Int) ∧ i < Usz.modulus := by
  cases hi : d.isIntegral with
  | false => rw [(decodePos_nonintegral hi).2.2.1] at h; cases h
  | true =>
    obtain ⟨_, h2, _, _, _⟩ := decodePos_integral hi
    unfold Dec.toUsizeV? at h
    obtain ⟨a, b, _, _⟩ := toUsize_toInt h
    rw [h2] at a
    exact ⟨a, b⟩

/-- what `to_usize` rejects has a fraction, is negative or at least `2^64` (`-0` aside) -/
theorem toUsizeV_none {d : Dec} (hz : d.coeff = 0 → d.neg = false) (h : d.toUsizeV? = none) :
    d.toInt? = none ∨ ∃ v, d.toInt? = some v ∧ (v < 0 ∨ (Usz.modulus : Int) ≤ v) := by
  cases hi : d.isIntegral with
  | false => exact Or.inl (decodePos_nonintegral hi).2.1
  | true =>
    obtain ⟨_, h2, h3, h4, h5⟩ := decodePos_integral hi
    unfold Dec.toUsizeV? at h
    have := toUsize_none_plain h3 (by intro hc; rw [h4]; exact hz (h5.mp hc)) h
    rw [h2] at this
    exact Or.inr this

theorem toIsizeV_some {d : Dec} {i : Int} (h : d.toIsizeV? = some i) : d.toInt? = some i := by
  cases hi : d.isIntegral with
  | false => rw [(decodePos_nonintegral hi).2.2.2] at h; cases h
  | true =>
    obtain ⟨_, h2, _, _, _⟩ := decodePos_integral hi
    unfold Dec.toIsizeV? at h
    have := toIsize_toInt h
    rw [h2] at this
    exact this

theorem toIsizeV_none {d : Dec} (h : d.toIsizeV? = none) :
    d.toInt? = none ∨ ∃ v, d.toInt? = some v ∧ (v < -(2 : Int) ^ 63 ∨ (2 : Int) ^ 63 ≤ v) := by
  cases hi : d.isIntegral with
  | false => exact Or.inl (decodePos_nonintegral hi).2.1
  | true =>
    obtain ⟨_, h2, h3, _, _⟩ := decodePos_integral hi
    unfold Dec.toIsizeV? at h
    have := toIsize_none_plain h3 h
    rw [h2] at this
    exact Or.inr this

theorem startIndex_isize_out {len : Nat} {v : Int} (hL : (len : Int) < (2 : Int) ^ 63)
    (h : v < -(2 : Int) ^ 63 ∨ (2 : Int) ^ 63 ≤ v) : Spec.startIndex len v = none := by
  apply startIndex_none <;> omega

/-- the value of a number written without fraction digits -/
theorem toInt_plain {d : Dec} (hexp : 0 ≤ d.exp) : d.toInt? = some (d.scoeff * 10 ^ d.exp.toNat) := by
  unfold Dec.toInt?; rw [if_pos (by omega)]

theorem lt_one_plain {d : Dec} (hexp : 0 ≤ d.exp) :
    Dec.lt d Dec.one = decide (d.scoeff * 10 ^ d.exp.toNat < 1) := by
  unfold Dec.lt Dec.cmp Dec.align Dec.one
  have hmin : min d.exp 0 = 0 := by omega
  simp only [hmin, Int.sub_zero, Dec.scoeff, Bool.false_eq_true, if_false, Int.sub_self, Int.toNat_zero,
    Int.pow_zero, Int.mul_one]
  by_cases h : (if d.neg = true then -(d.coeff : Int) else d.coeff) * 10 ^ d.exp.toNat < 1
  · simp [h, Int.compare_eq_lt.mpr h]
  · simp only [h, decide_false]
    cases hc : compare ((if d.neg = true then -(d.coeff : Int) else d.coeff) * 10 ^ d.exp.toNat) (1 : Int) with
    | lt => exact absurd (Int.compare_eq_lt.mp hc) h
    | eq => rfl
    | gt => rfl

theorem trunc_plain {d : Dec} (hexp : 0 ≤ d.exp) : Dec.trunc d = d := by
  unfold Dec.trunc; rw [if_pos (by omega)]

/-- how the code and the specification read a length written without fraction digits:
`v` is its value -/
theorem substringCount_plain {d : Dec} (hexp : 0 ≤ d.exp) (hz : d.coeff = 0 → d.neg = false) (v : Int)
    (hv : v = d.scoeff * 10 ^ d.exp.toNat) :
    (v < 1 → substringCount d = none ∧ (Spec.natOf (.num d) = none ∨ Spec.natOf (.num d) = some 0)) ∧
    (1 ≤ v → Spec.natOf (.num d) = some v.toNat ∧
      ((substringCount d = some v.toNat ∧ v.toNat < Usz.modulus) ∨ (substringCount d = none ∧ Usz.modulus ≤ v.toNat))) := by
  obtain ⟨neg, c, e⟩ := d
  simp only at hexp hz
  have hnn : (0 : Int) ≤ (c : Int) * 10 ^ e.toNat := Int.mul_nonneg (by omega) (Int.pow_nonneg (by decide))
  have hcast : ((c * 10 ^ e.toNat : Nat) : Int) = (c : Int) * 10 ^ e.toNat := by push_cast; rfl
  have ht := fun n => trunc_plain (d := ⟨n, c, e⟩) hexp
  have hi := fun n => toInt_plain (d := ⟨n, c, e⟩) hexp
  have hl := fun n => lt_one_plain (d := ⟨n, c, e⟩) hexp
  constructor
  · intro hlt
    refine ⟨?_, ?_⟩
    · unfold substringCount
      rw [hl, ← hv]
      simp [hlt]
    · unfold Spec.natOf
      simp only [ht, hi, ← hv]
      cases neg with
      | true =>
        by_cases hc : c = 0
        · simp [hz hc] at *
        · left; simp [hc]
      | false =>
        right
        simp only [Dec.scoeff, Bool.false_eq_true, if_false] at hv
        simp only [Bool.false_and, Bool.false_eq_true, if_false]
        have : v = 0 := by omega
        subst this; rfl
  · intro hge
    cases neg with
    | true =>
      simp only [Dec.scoeff, if_true, Int.neg_mul] at hv
      omega
    | false =>
      simp only [Dec.scoeff, Bool.false_eq_true, if_false] at hv
      refine ⟨?_, ?_⟩
      · unfold Spec.natOf
        simp only [ht, hi, Dec.scoeff, Bool.false_and, Bool.false_eq_true, if_false, ← hv]
      · unfold substringCount
        rw [hl]
        simp only [Dec.scoeff, Bool.false_eq_true, if_false, ← hv]
        rw [if_neg (by simp; omega)]
        simp only [ht, toUsizeV_plain (d := ⟨false, c, e⟩) hexp, Dec.toUsize?, Bool.false_eq_true, if_false]
        rw [if_neg (by omega)]
        have hvn : v.toNat = c * 10 ^ e.toNat := by omega
        by_cases hlt : c * 10 ^ e.toNat < 2 ^ 64
        · left
          simp only [hlt, if_true, hvn]
          exact ⟨trivial, by unfold Usz.modulus; exact hlt⟩
        · right
          simp only [hlt, if_false, hvn]
          exact ⟨trivial, by unfold Usz.modulus; omega⟩

theorem strResult_ok (o : Option (List Char)) : strResult (.ok o) = .ok (Spec.optV Spec.strV o) := by
  cases o <;> rfl

theorem substringChars_none_start {cs : List Char} {p : Int} (h : Spec.startIndex cs.length p = none)
    (n : Option Nat) : Spec.substringChars cs p n = none := by
  unfold Spec.substringChars; rw [h]

theorem substringChars_big {cs : List Char} {p : Int} {k : Nat} (h : cs.length < k) :
    Spec.substringChars cs p (some k) = none := by
  unfold Spec.substringChars
  cases Spec.startIndex cs.length p with
  | none => rfl
  | some st => simp only; rw [if_neg (by omega)]

theorem substringChars_zero {cs : List Char} {p : Int} : Spec.substringChars cs p (some 0) = none := by
  unfold Spec.substringChars
  cases Spec.startIndex cs.length p with
  | none => rfl
  | some st => simp only; rw [if_neg (by omega)]

end Bif
end Dmn
