import Dmn.Model.BifSpec
import Batteries.Data.List.Basic

/-! Helper lemmas for `string(from)` (C08): the item and entry recursions of `ToFeelString` as relations. -/

namespace Dmn
namespace Bif

theorem joinSep_eq_intercalate (sep : List Char) : ∀ xs : List (List Char), joinSep sep xs = List.intercalate sep xs
  | [] => rfl
  | [x] => by simp [joinSep, List.intercalate]
  | x :: y :: rest => by
    have ih := joinSep_eq_intercalate sep (y :: rest)
    simp [joinSep, ih, List.intercalate, List.intersperse]

theorem feelStringItems_iff : ∀ (vs : List Value) (xs : List (List Char)),
    feelStringItems vs = some xs ↔ List.Forall₂ (fun v x => feelString v = some x) vs xs
  | [], xs => by
    cases xs with
    | nil => simp [feelStringItems]
    | cons x xs =>
      simp only [feelStringItems]
      constructor
      · intro h; cases h
      · intro h; cases h
  | v :: vs, xs => by
    have ih := feelStringItems_iff vs
    simp only [feelStringItems]
    cases h1 : feelString v with
    | none =>
      simp only []
      constructor
      · intro h; cases h
      · intro h; cases h with | cons hx _ => rw [h1] at hx; cases hx
    | some x =>
      cases h2 : feelStringItems vs with
      | none =>
        simp only []
        constructor
        · intro h; cases h
        · intro h
          cases h with
          | cons hx hr => rw [(ih _).mpr hr] at h2; cases h2
      | some ys =>
        simp only [Option.some.injEq]
        constructor
        · intro h; subst h
          exact List.Forall₂.cons h1 ((ih _).mp h2)
        · intro h
          cases h with
          | cons hx hr =>
            rw [h1] at hx; cases hx
            rw [(ih _).mpr hr] at h2; cases h2; rfl

theorem feelStringEntries_iff : ∀ (es : List (String × Value)) (xs : List (List Char)),
    feelStringEntries es = some xs ↔
      List.Forall₂ (fun e x => ∃ t, feelString e.2 = some t ∧ x = feelKey e.1 ++ [':', ' '] ++ t) es xs
  | [], xs => by
    cases xs with
    | nil => simp [feelStringEntries]
    | cons x xs =>
      simp only [feelStringEntries]
      constructor
      · intro h; cases h
      · intro h; cases h
  | (k, v) :: es, xs => by
    have ih := feelStringEntries_iff es
    simp only [feelStringEntries]
    cases h1 : feelString v with
    | none =>
      simp only []
      constructor
      · intro h; cases h
      · intro h; cases h with | cons hx _ => obtain ⟨t, ht, _⟩ := hx; simp only [] at ht; rw [h1] at ht; cases ht
    | some x =>
      cases h2 : feelStringEntries es with
      | none =>
        simp only []
        constructor
        · intro h; cases h
        · intro h
          cases h with
          | cons hx hr => rw [(ih _).mpr hr] at h2; cases h2
      | some ys =>
        simp only [Option.some.injEq]
        constructor
        · intro h; subst h
          exact List.Forall₂.cons ⟨x, h1, rfl⟩ ((ih _).mp h2)
        · intro h
          cases h with
          | cons hx hr =>
            obtain ⟨t, ht, hxe⟩ := hx
            simp only [] at ht
            rw [h1] at ht; cases ht
            rw [(ih _).mpr hr] at h2; cases h2; rw [hxe]

end Bif
end Dmn
