import Dmn.Model.RefParserLayout

/-! # C06 — skipping a gap ends at the next token, whatever the gap looks like -/

namespace Dmn.GapLayout

theorem skipWs_append (g rest : List Nat) (h : allWs g = true) : skipWs (g ++ rest) = skipWs rest := by
  induction g with
  | nil => rfl
  | cons c cs ih =>
    simp [allWs] at h
    simp only [List.cons_append, skipWs, h.1, if_true]
    exact ih (by simpa [allWs] using h.2)

theorem skipWs_token (rest : List Nat) (h : startsToken rest = true) : skipWs rest = rest := by
  cases rest with
  | nil => rfl
  | cons c cs =>
    simp [startsToken] at h
    simp [skipWs, h.1]

theorem skipLine_body (body rest : List Nat) (h : noLf body = true) :
    skipLine (body ++ 0x0A :: rest) = 0x0A :: rest := by
  induction body with
  | nil => simp [skipLine]
  | cons c cs ih =>
    simp [noLf] at h
    simp only [List.cons_append, skipLine]
    rw [if_neg (by simpa using h.1)]
    exact ih (by simpa [noLf] using h.2)

theorem skipBlock_body (body rest : List Nat) (h : noClose body = true) :
    skipBlock (body ++ 0x2A :: 0x2F :: rest) = rest := by
  induction body with
  | nil => simp [skipBlock]
  | cons c cs ih =>
    simp only [noClose, Bool.and_eq_true] at h
    have ih := ih h.2
    simp only [List.cons_append, skipBlock]
    by_cases hc : (c == 0x2A) = true
    · rw [if_pos hc]
      cases cs with
      | nil => simp [skipBlock]
      | cons d ds =>
        have hd : (d == 0x2F) = false := by
          have := h.1
          simp [hc] at this
          simpa using this
        simp only [List.cons_append, hd]
        exact ih
    · rw [if_neg hc]
      exact ih

theorem skipComment_token (rest : List Nat) (h : startsToken rest = true) : skipComment rest = rest := by
  cases rest with
  | nil => rfl
  | cons c cs =>
    simp only [startsToken, Bool.and_eq_true, Bool.not_eq_true'] at h
    simp only [skipComment]
    by_cases hc : (c == 0x2F) = true
    · rw [if_pos hc]
      cases cs with
      | nil => rfl
      | cons d ds =>
        have := h.2
        simp [hc] at this
        simp [this.1, this.2]
    · rw [if_neg hc]

theorem isWhitespace_lf : isWhitespace 0x0A = true := by decide

/-- White space, one comment, white space: the lexer resumes exactly at the next token. -/
theorem skipGap_gap (g : Gap) (rest : List Nat) (hg : g.ok = true) (hr : startsToken rest = true) :
    skipGap (g.text ++ rest) = rest := by
  obtain ⟨before, comment, after⟩ := g
  simp only [Gap.ok, Bool.and_eq_true] at hg
  obtain ⟨⟨hb, ha⟩, hc⟩ := hg
  simp only [Gap.text, skipGap, List.append_assoc]
  rw [skipWs_append _ _ hb]
  cases comment with
  | none =>
    simp only [List.nil_append]
    rw [skipWs_append _ _ ha, skipWs_token _ hr, skipComment_token _ hr, skipWs_token _ hr]
  | some c =>
    cases c with
    | line body =>
      simp only [Comment.ok] at hc
      simp only [Comment.text, List.cons_append, List.append_assoc, List.nil_append]
      have h1 : skipWs (0x2F :: 0x2F :: (body ++ 0x0A :: (after ++ rest))) =
          0x2F :: 0x2F :: (body ++ 0x0A :: (after ++ rest)) := by
        simp [skipWs, isWhitespace, isVerticalSpace]
      rw [h1]
      simp only [skipComment]
      simp only [beq_self_eq_true, if_true]
      rw [skipLine_body _ _ hc]
      simp only [skipWs, isWhitespace_lf, if_true]
      rw [skipWs_append _ _ ha, skipWs_token _ hr]
    | block body =>
      simp only [Comment.ok] at hc
      simp only [Comment.text, List.cons_append, List.append_assoc, List.nil_append]
      have h1 : skipWs (0x2F :: 0x2A :: (body ++ 0x2A :: 0x2F :: (after ++ rest))) =
          0x2F :: 0x2A :: (body ++ 0x2A :: 0x2F :: (after ++ rest)) := by
        simp [skipWs, isWhitespace, isVerticalSpace]
      rw [h1]
      simp only [skipComment]
      have h2 : ((0x2A : Nat) == 0x2F) = false := by decide
      simp only [beq_self_eq_true, if_true, h2, Bool.false_eq_true, if_false]
      rw [skipBlock_body _ _ hc, skipWs_append _ _ ha, skipWs_token _ hr]

end Dmn.GapLayout
