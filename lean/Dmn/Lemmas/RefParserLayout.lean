import Dmn.Model.RefParserLayout

/-! # C06 — skipping a gap ends at the next token, whatever the gap looks like -/

namespace Dmn.GapLayout

/-! ## Each skipper returns a suffix of its input -/

def IsSuffix (s cs : List Nat) : Prop := ∃ p, cs = p ++ s

theorem IsSuffix.refl (cs : List Nat) : IsSuffix cs cs := ⟨[], rfl⟩

theorem IsSuffix.cons {s cs : List Nat} (c : Nat) (h : IsSuffix s cs) : IsSuffix s (c :: cs) := by
  obtain ⟨p, hp⟩ := h
  exact ⟨c :: p, by rw [hp]; rfl⟩

theorem IsSuffix.trans {a b c : List Nat} (h1 : IsSuffix a b) (h2 : IsSuffix b c) : IsSuffix a c := by
  obtain ⟨p, hp⟩ := h1
  obtain ⟨q, hq⟩ := h2
  exact ⟨q ++ p, by rw [hq, hp, List.append_assoc]⟩

theorem IsSuffix.length_le {s cs : List Nat} (h : IsSuffix s cs) : s.length ≤ cs.length := by
  obtain ⟨p, hp⟩ := h
  rw [hp, List.length_append]; omega

theorem IsSuffix.eq_of_length {s cs : List Nat} (h : IsSuffix s cs) (hl : cs.length ≤ s.length) : s = cs := by
  obtain ⟨p, hp⟩ := h
  have : p.length = 0 := by
    have := congrArg List.length hp
    rw [List.length_append] at this
    omega
  have : p = [] := List.eq_nil_of_length_eq_zero this
  rw [hp, this]; rfl

theorem skipWs_suffix : ∀ cs : List Nat, IsSuffix (skipWs cs) cs
  | [] => IsSuffix.refl _
  | c :: cs => by
    unfold skipWs
    split
    · exact (skipWs_suffix cs).cons c
    · exact IsSuffix.refl _

theorem skipLine_suffix : ∀ cs : List Nat, IsSuffix (skipLine cs) cs
  | [] => IsSuffix.refl _
  | c :: cs => by
    unfold skipLine
    split
    · exact IsSuffix.refl _
    · exact (skipLine_suffix cs).cons c

theorem skipBlock_suffix : ∀ cs : List Nat, IsSuffix (skipBlock cs) cs
  | [] => IsSuffix.refl _
  | [c] => by
    simp only [skipBlock]
    split
    · exact ⟨[c], rfl⟩
    · exact ⟨[c], rfl⟩
  | c :: d :: ds => by
    simp only [skipBlock]
    split
    · split
      · exact ((IsSuffix.refl ds).cons d).cons c
      · exact (skipBlock_suffix (d :: ds)).cons c
    · exact (skipBlock_suffix (d :: ds)).cons c

theorem skipComment_suffix : ∀ cs : List Nat, IsSuffix (skipComment cs) cs
  | [] => IsSuffix.refl _
  | [c] => by
    simp only [skipComment]
    split <;> exact IsSuffix.refl _
  | c :: d :: ds => by
    simp only [skipComment]
    split
    · split
      · exact ((skipLine_suffix ds).cons d).cons c
      · split
        · exact ((skipBlock_suffix ds).cons d).cons c
        · exact IsSuffix.refl _
    · exact IsSuffix.refl _

theorem skipStep_suffix (cs : List Nat) : IsSuffix (skipStep cs) cs :=
  (skipComment_suffix _).trans (skipWs_suffix cs)

/-! ## White space, comments, tokens -/

theorem skipWs_append (g rest : List Nat) (h : allWs g = true) : skipWs (g ++ rest) = skipWs rest := by
  induction g with
  | nil => rfl
  | cons c cs ih =>
    simp [allWs] at h
    simp only [List.cons_append, skipWs, h.1, if_true]
    exact ih (by simpa [allWs] using h.2)

theorem skipWs_token (rest : List Nat) (h : startsToken rest = true) : skipWs rest = rest := by
  cases rest with
  | nil => rfl
  | cons c cs =>
    simp [startsToken] at h
    simp [skipWs, h.1]

theorem skipLine_body (body rest : List Nat) (eol : Nat) (h : noVertical body = true)
    (he : isVerticalSpace eol = true) : skipLine (body ++ eol :: rest) = eol :: rest := by
  induction body with
  | nil => simp [skipLine, he]
  | cons c cs ih =>
    simp only [noVertical, List.all_cons, Bool.and_eq_true, Bool.not_eq_true'] at h
    simp only [List.cons_append, skipLine]
    rw [if_neg (by simp [h.1])]
    exact ih (by simpa [noVertical] using h.2)

/-- A line comment that runs to the end of the input is skipped whole. -/
theorem skipLine_eof (body : List Nat) (h : noVertical body = true) : skipLine body = [] := by
  induction body with
  | nil => rfl
  | cons c cs ih =>
    simp only [noVertical, List.all_cons, Bool.and_eq_true, Bool.not_eq_true'] at h
    simp only [skipLine]
    rw [if_neg (by simp [h.1])]
    exact ih (by simpa [noVertical] using h.2)

theorem isWhitespace_of_vertical {c : Nat} (h : isVerticalSpace c = true) : isWhitespace c = true := by
  simp [isWhitespace, h]

theorem skipBlock_body (body rest : List Nat) (h : noClose body = true) :
    skipBlock (body ++ 0x2A :: 0x2F :: rest) = rest := by
  induction body with
  | nil => simp [skipBlock]
  | cons c cs ih =>
    simp only [noClose, Bool.and_eq_true] at h
    have ih := ih h.2
    simp only [List.cons_append, skipBlock]
    by_cases hc : (c == 0x2A) = true
    · rw [if_pos hc]
      cases cs with
      | nil => simp [skipBlock]
      | cons d ds =>
        have hd : (d == 0x2F) = false := by
          have := h.1
          simp [hc] at this
          simpa using this
        simp only [List.cons_append, hd]
        exact ih
    · rw [if_neg hc]
      exact ih

theorem skipComment_token (rest : List Nat) (h : startsToken rest = true) : skipComment rest = rest := by
  cases rest with
  | nil => rfl
  | cons c cs =>
    simp only [startsToken, Bool.and_eq_true, Bool.not_eq_true'] at h
    simp only [skipComment]
    by_cases hc : (c == 0x2F) = true
    · rw [if_pos hc]
      cases cs with
      | nil => rfl
      | cons d ds =>
        have := h.2
        simp [hc] at this
        simp [this.1, this.2]
    · rw [if_neg hc]

theorem isWhitespace_lf : isWhitespace 0x0A = true := by decide

/-! ## The loop -/

theorem skipGap_token (rest : List Nat) (h : startsToken rest = true) : skipGap rest = rest := by
  rw [skipGap.eq_def, skipStep, skipWs_token _ h, skipComment_token _ h]
  simp

/-- White space in front changes nothing. -/
theorem skipGap_ws (w X : List Nat) (h : allWs w = true) : skipGap (w ++ X) = skipGap X := by
  cases w with
  | nil => rfl
  | cons c w' =>
    have hstep : skipStep ((c :: w') ++ X) = skipStep X := by
      simp only [skipStep]; rw [skipWs_append _ _ h]
    have hle := (skipStep_suffix X).length_le
    rw [skipGap.eq_def, hstep]
    rw [dif_pos (by simp only [List.cons_append, List.length_cons, List.length_append]; omega)]
    by_cases hp : (skipStep X).length < X.length
    · conv => rhs; rw [skipGap.eq_def, dif_pos hp]
    · have : skipStep X = X := (skipStep_suffix X).eq_of_length (by omega)
      rw [this]

/-- A comment in front changes nothing. -/
theorem skipGap_comment (c : Comment) (X : List Nat) (h : c.ok = true) : skipGap (c.text ++ X) = skipGap X := by
  cases c with
  | line body eol =>
    simp only [Comment.ok, Bool.and_eq_true] at h
    have hstep : skipStep (Comment.text (.line body eol) ++ X) = eol :: X := by
      simp only [skipStep, Comment.text, List.cons_append, List.append_assoc, List.nil_append]
      have h1 : skipWs (0x2F :: 0x2F :: (body ++ eol :: X)) = 0x2F :: 0x2F :: (body ++ eol :: X) := by
        simp [skipWs, isWhitespace, isVerticalSpace]
      rw [h1]
      simp only [skipComment, beq_self_eq_true, if_true]
      exact skipLine_body _ _ _ h.1 h.2
    rw [skipGap.eq_def, hstep]
    rw [dif_pos (by simp [Comment.text]; omega)]
    exact skipGap_ws [eol] X (by simp [allWs, isWhitespace_of_vertical h.2])
  | block body =>
    simp only [Comment.ok] at h
    have hstep : skipStep (Comment.text (.block body) ++ X) = X := by
      simp only [skipStep, Comment.text, List.cons_append, List.append_assoc, List.nil_append]
      have h1 : skipWs (0x2F :: 0x2A :: (body ++ 0x2A :: 0x2F :: X)) =
          0x2F :: 0x2A :: (body ++ 0x2A :: 0x2F :: X) := by
        simp [skipWs, isWhitespace, isVerticalSpace]
      rw [h1]
      have h2 : ((0x2A : Nat) == 0x2F) = false := by decide
      simp only [skipComment, beq_self_eq_true, if_true, h2, Bool.false_eq_true, if_false]
      exact skipBlock_body _ _ h
    rw [skipGap.eq_def, hstep]
    rw [dif_pos (by simp [Comment.text]; omega)]

/-- Any sequence of white space and comments: the lexer resumes exactly at the next token. -/
theorem skipGap_gap : ∀ (g : Gap) (rest : List Nat), gapOk g = true → startsToken rest = true →
    skipGap (gapText g ++ rest) = rest
  | [], rest, _, hr => by simpa [gapText] using skipGap_token rest hr
  | p :: ps, rest, hg, hr => by
    simp only [gapOk, List.all_cons, Bool.and_eq_true] at hg
    have ih := skipGap_gap ps rest (by simpa [gapOk] using hg.2) hr
    simp only [gapText, List.append_assoc]
    cases p with
    | ws cs => rw [Piece.text, skipGap_ws _ _ (by simpa [Piece.ok] using hg.1), ih]
    | comment c => rw [Piece.text, skipGap_comment _ _ (by simpa [Piece.ok] using hg.1), ih]

/-- Any sequence of white space and comments in front of ANY text changes nothing. -/
theorem skipGap_gap_any : ∀ (g : Gap) (X : List Nat), gapOk g = true → skipGap (gapText g ++ X) = skipGap X
  | [], X, _ => by simp [gapText]
  | p :: ps, X, hg => by
    simp only [gapOk, List.all_cons, Bool.and_eq_true] at hg
    have ih := skipGap_gap_any ps X (by simpa [gapOk] using hg.2)
    simp only [gapText, List.append_assoc]
    cases p with
    | ws cs => rw [Piece.text, skipGap_ws _ _ (by simpa [Piece.ok] using hg.1), ih]
    | comment c => rw [Piece.text, skipGap_comment _ _ (by simpa [Piece.ok] using hg.1), ih]

/-- A line comment that is not closed runs to the end of the input: nothing is left. -/
theorem skipGap_open_line (body : List Nat) (h : noVertical body = true) :
    skipGap (0x2F :: 0x2F :: body) = [] := by
  have hstep : skipStep (0x2F :: 0x2F :: body) = [] := by
    have h1 : skipWs (0x2F :: 0x2F :: body) = 0x2F :: 0x2F :: body := by
      simp [skipWs, isWhitespace, isVerticalSpace]
    simp only [skipStep, h1, skipComment, beq_self_eq_true, if_true]
    exact skipLine_eof body h
  rw [skipGap.eq_def, hstep]
  rw [dif_pos (by simp)]
  rw [skipGap.eq_def]
  simp [skipStep, skipWs, skipComment]

/-! ## `is_next_character`: the gap after `function`, `list`, `range`, `context` -/

theorem skipComment_lt_of_starts : ∀ (cs : List Nat), startsComment cs = true →
    (skipComment cs).length < cs.length := by
  intro cs h
  match cs, h with
  | c :: d :: ds, h =>
    simp only [startsComment, Bool.and_eq_true, Bool.or_eq_true] at h
    simp only [skipComment, h.1, if_true]
    rcases h.2 with hd | hd
    · simp only [hd, if_true]
      have := (skipLine_suffix ds).length_le
      simp only [List.length_cons]; omega
    · by_cases h2 : (d == 0x2F) = true
      · simp only [h2, if_true]
        have := (skipLine_suffix ds).length_le
        simp only [List.length_cons]; omega
      · simp only [h2, hd, if_true, Bool.false_eq_true, if_false]
        have := (skipBlock_suffix ds).length_le
        simp only [List.length_cons]; omega

/-- The budget of `nextIs` is never exhausted: any larger one gives the same answer. -/
theorem nextIsLoop_fuel (chars : List Nat) : ∀ (f1 f2 : Nat) (cs : List Nat),
    cs.length < f1 → cs.length < f2 → nextIsLoop chars f1 cs = nextIsLoop chars f2 cs := by
  intro f1
  induction f1 with
  | zero => intro f2 cs h; omega
  | succ n ih =>
    intro f2 cs h1 h2
    cases f2 with
    | zero => omega
    | succ m =>
      cases cs with
      | nil => simp [nextIsLoop]
      | cons c t =>
        simp only [nextIsLoop]
        simp only [List.length_cons] at h1 h2
        split
        · rename_i hs
          have := skipComment_lt_of_starts _ hs
          simp only [List.length_cons] at this
          exact ih m _ (by omega) (by omega)
        · split
          · rfl
          · split
            · rfl
            · exact ih m t (by omega) (by omega)

theorem nextIsLoop_eq_nextIs (chars : List Nat) (f : Nat) (cs : List Nat) (h : cs.length < f) :
    nextIsLoop chars f cs = nextIs chars cs :=
  nextIsLoop_fuel chars f (cs.length + 1) cs h (by omega)

theorem plain_not_ws {chars : List Nat} (hp : plainChars chars = true) {c : Nat}
    (hc : isWhitespace c = true) : chars.contains c = false := by
  cases hcc : chars.contains c with
  | false => rfl
  | true =>
    have hmem : c ∈ chars := by simpa using hcc
    have := List.all_eq_true.mp hp c hmem
    simp [hc] at this

theorem ws_not_slash {c : Nat} (hc : isWhitespace c = true) : (c == 0x2F) = false := by
  cases h : c == 0x2F with
  | false => rfl
  | true =>
    have : c = 0x2F := by simpa using h
    subst this
    exact absurd hc (by decide)

/-- White space in front changes nothing. -/
theorem nextIs_ws (chars : List Nat) (hp : plainChars chars = true) (w X : List Nat) (h : allWs w = true) :
    nextIs chars (w ++ X) = nextIs chars X := by
  induction w with
  | nil => rfl
  | cons c w ih =>
    simp only [allWs, List.all_cons, Bool.and_eq_true] at h
    have hs : startsComment (c :: (w ++ X)) = false := by
      cases hwx : w ++ X with
      | nil => rfl
      | cons d ds => simp [startsComment, ws_not_slash h.1]
    have : nextIs chars (c :: (w ++ X)) = nextIs chars (w ++ X) := by
      simp only [nextIs, List.length_cons, nextIsLoop, hs, plain_not_ws hp h.1, h.1,
        Bool.false_eq_true, if_false, Bool.not_true]
    rw [List.cons_append, this]
    exact ih (by simpa [allWs] using h.2)

/-- At a comment opener `is_next_character` goes on after the comment. -/
theorem nextIs_starts (chars : List Nat) (cs : List Nat) (hs : startsComment cs = true) :
    nextIs chars cs = nextIs chars (skipComment cs) := by
  have hlt := skipComment_lt_of_starts cs hs
  cases cs with
  | nil => simp [startsComment] at hs
  | cons c t =>
    have : nextIs chars (c :: t) = nextIsLoop chars (t.length + 1) (skipComment (c :: t)) := by
      show nextIsLoop chars ((c :: t).length + 1) (c :: t) = _
      simp only [List.length_cons]
      rw [nextIsLoop]
      simp only [hs, if_true]
    rw [this]
    exact nextIsLoop_eq_nextIs chars _ _ (by simpa using hlt)

/-- A comment in front changes nothing. -/
theorem nextIs_comment (chars : List Nat) (hp : plainChars chars = true) (c : Comment) (X : List Nat)
    (h : c.ok = true) : nextIs chars (c.text ++ X) = nextIs chars X := by
  cases c with
  | line body eol =>
    simp only [Comment.ok, Bool.and_eq_true] at h
    have hsk : skipComment (Comment.text (.line body eol) ++ X) = eol :: X := by
      simp only [Comment.text, List.cons_append, List.append_assoc, List.nil_append, skipComment,
        beq_self_eq_true, if_true]
      exact skipLine_body _ _ _ h.1 h.2
    have hs : startsComment (Comment.text (.line body eol) ++ X) = true := by
      simp [Comment.text, startsComment]
    rw [nextIs_starts chars _ hs, hsk]
    exact nextIs_ws chars hp [eol] X (by simp [allWs, isWhitespace_of_vertical h.2])
  | block body =>
    simp only [Comment.ok] at h
    have hsk : skipComment (Comment.text (.block body) ++ X) = X := by
      have h2 : ((0x2A : Nat) == 0x2F) = false := by decide
      simp only [Comment.text, List.cons_append, List.append_assoc, List.nil_append, skipComment,
        beq_self_eq_true, if_true, h2, Bool.false_eq_true, if_false]
      exact skipBlock_body _ _ h
    have hs : startsComment (Comment.text (.block body) ++ X) = true := by
      simp [Comment.text, startsComment]
    rw [nextIs_starts chars _ hs, hsk]

/-- At a token start the first character decides. -/
theorem nextIs_token (chars : List Nat) (rest : List Nat) (h : startsToken rest = true) :
    nextIs chars rest = headIn chars rest := by
  cases rest with
  | nil => rfl
  | cons c cs =>
    simp only [startsToken, Bool.and_eq_true, Bool.not_eq_true'] at h
    have hs : startsComment (c :: cs) = false := by
      cases cs with
      | nil => rfl
      | cons d ds => simpa [startsComment] using h.2
    simp only [nextIs, List.length_cons, nextIsLoop, hs, Bool.false_eq_true, if_false, headIn, h.1,
      Bool.not_false, if_true]
    split <;> simp_all

/-- Whatever gap stands between the keyword and the next token, `is_next_character` answers by
the first character of that token. -/
theorem nextIs_gap (chars : List Nat) (hp : plainChars chars = true) : ∀ (g : Gap) (rest : List Nat),
    gapOk g = true → startsToken rest = true → nextIs chars (gapText g ++ rest) = headIn chars rest
  | [], rest, _, hr => by simpa [gapText] using nextIs_token chars rest hr
  | p :: ps, rest, hg, hr => by
    simp only [gapOk, List.all_cons, Bool.and_eq_true] at hg
    have ih := nextIs_gap chars hp ps rest (by simpa [gapOk] using hg.2) hr
    simp only [gapText, List.append_assoc]
    cases p with
    | ws cs => rw [Piece.text, nextIs_ws chars hp _ _ (by simpa [Piece.ok] using hg.1), ih]
    | comment c => rw [Piece.text, nextIs_comment chars hp _ _ (by simpa [Piece.ok] using hg.1), ih]

end Dmn.GapLayout
