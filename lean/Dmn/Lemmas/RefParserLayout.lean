import Dmn.Model.RefParserLayout

/-! # C06 — skipping a gap ends at the next token, whatever the gap looks like -/

namespace Dmn.GapLayout

/-! ## Each skipper returns a suffix of its input -/

def IsSuffix (s cs : List Nat) : Prop := ∃ p, cs = p ++ s

theorem IsSuffix.refl (cs : List Nat) : IsSuffix cs cs := ⟨[], rfl⟩

theorem IsSuffix.cons {s cs : List Nat} (c : Nat) (h : IsSuffix s cs) : IsSuffix s (c :: cs) := by
  obtain ⟨p, hp⟩ := h
  exact ⟨c :: p, by rw [hp]; rfl⟩

theorem IsSuffix.trans {a b c : List Nat} (h1 : IsSuffix a b) (h2 : IsSuffix b c) : IsSuffix a c := by
  obtain ⟨p, hp⟩ := h1
  obtain ⟨q, hq⟩ := h2
  exact ⟨q ++ p, by rw [hq, hp, List.append_assoc]⟩

theorem IsSuffix.length_le {s cs : List Nat} (h : IsSuffix s cs) : s.length ≤ cs.length := by
  obtain ⟨p, hp⟩ := h
  rw [hp, List.length_append]; omega

theorem IsSuffix.eq_of_length {s cs : List Nat} (h : IsSuffix s cs) (hl : cs.length ≤ s.length) : s = cs := by
  obtain ⟨p, hp⟩ := h
  have : p.length = 0 := by
    have := congrArg List.length hp
    rw [List.length_append] at this
    omega
  have : p = [] := List.eq_nil_of_length_eq_zero this
  rw [hp, this]; rfl

theorem skipWs_suffix : ∀ cs : List Nat, IsSuffix (skipWs cs) cs
  | [] => IsSuffix.refl _
  | c :: cs => by
    unfold skipWs
    split
    · exact (skipWs_suffix cs).cons c
    · exact IsSuffix.refl _

theorem skipLine_suffix : ∀ cs : List Nat, IsSuffix (skipLine cs) cs
  | [] => IsSuffix.refl _
  | c :: cs => by
    unfold skipLine
    split
    · exact IsSuffix.refl _
    · exact (skipLine_suffix cs).cons c

theorem skipBlock_suffix : ∀ cs : List Nat, IsSuffix (skipBlock cs) cs
  | [] => IsSuffix.refl _
  | [c] => by
    simp only [skipBlock]
    split
    · exact ⟨[c], rfl⟩
    · exact ⟨[c], rfl⟩
  | c :: d :: ds => by
    simp only [skipBlock]
    split
    · split
      · exact ((IsSuffix.refl ds).cons d).cons c
      · exact (skipBlock_suffix (d :: ds)).cons c
    · exact (skipBlock_suffix (d :: ds)).cons c

theorem skipComment_suffix : ∀ cs : List Nat, IsSuffix (skipComment cs) cs
  | [] => IsSuffix.refl _
  | [c] => by
    simp only [skipComment]
    split <;> exact IsSuffix.refl _
  | c :: d :: ds => by
    simp only [skipComment]
    split
    · split
      · exact ((skipLine_suffix ds).cons d).cons c
      · split
        · exact ((skipBlock_suffix ds).cons d).cons c
        · exact IsSuffix.refl _
    · exact IsSuffix.refl _

theorem skipStep_suffix (cs : List Nat) : IsSuffix (skipStep cs) cs :=
  (skipComment_suffix _).trans (skipWs_suffix cs)

/-! ## White space, comments, tokens -/

theorem skipWs_append (g rest : List Nat) (h : allWs g = true) : skipWs (g ++ rest) = skipWs rest := by
  induction g with
  | nil => rfl
  | cons c cs ih =>
    simp [allWs] at h
    simp only [List.cons_append, skipWs, h.1, if_true]
    exact ih (by simpa [allWs] using h.2)

theorem skipWs_token (rest : List Nat) (h : startsToken rest = true) : skipWs rest = rest := by
  cases rest with
  | nil => rfl
  | cons c cs =>
    simp [startsToken] at h
    simp [skipWs, h.1]

theorem skipLine_body (body rest : List Nat) (h : noLf body = true) :
    skipLine (body ++ 0x0A :: rest) = 0x0A :: rest := by
  induction body with
  | nil => simp [skipLine]
  | cons c cs ih =>
    simp [noLf] at h
    simp only [List.cons_append, skipLine]
    rw [if_neg (by simpa using h.1)]
    exact ih (by simpa [noLf] using h.2)

theorem skipBlock_body (body rest : List Nat) (h : noClose body = true) :
    skipBlock (body ++ 0x2A :: 0x2F :: rest) = rest := by
  induction body with
  | nil => simp [skipBlock]
  | cons c cs ih =>
    simp only [noClose, Bool.and_eq_true] at h
    have ih := ih h.2
    simp only [List.cons_append, skipBlock]
    by_cases hc : (c == 0x2A) = true
    · rw [if_pos hc]
      cases cs with
      | nil => simp [skipBlock]
      | cons d ds =>
        have hd : (d == 0x2F) = false := by
          have := h.1
          simp [hc] at this
          simpa using this
        simp only [List.cons_append, hd]
        exact ih
    · rw [if_neg hc]
      exact ih

theorem skipComment_token (rest : List Nat) (h : startsToken rest = true) : skipComment rest = rest := by
  cases rest with
  | nil => rfl
  | cons c cs =>
    simp only [startsToken, Bool.and_eq_true, Bool.not_eq_true'] at h
    simp only [skipComment]
    by_cases hc : (c == 0x2F) = true
    · rw [if_pos hc]
      cases cs with
      | nil => rfl
      | cons d ds =>
        have := h.2
        simp [hc] at this
        simp [this.1, this.2]
    · rw [if_neg hc]

theorem isWhitespace_lf : isWhitespace 0x0A = true := by decide

/-! ## The loop -/

theorem skipGap_token (rest : List Nat) (h : startsToken rest = true) : skipGap rest = rest := by
  rw [skipGap.eq_def, skipStep, skipWs_token _ h, skipComment_token _ h]
  simp

/-- White space in front changes nothing. -/
theorem skipGap_ws (w X : List Nat) (h : allWs w = true) : skipGap (w ++ X) = skipGap X := by
  cases w with
  | nil => rfl
  | cons c w' =>
    have hstep : skipStep ((c :: w') ++ X) = skipStep X := by
      simp only [skipStep]; rw [skipWs_append _ _ h]
    have hle := (skipStep_suffix X).length_le
    rw [skipGap.eq_def, hstep]
    rw [dif_pos (by simp only [List.cons_append, List.length_cons, List.length_append]; omega)]
    by_cases hp : (skipStep X).length < X.length
    · conv => rhs; rw [skipGap.eq_def, dif_pos hp]
    · have : skipStep X = X := (skipStep_suffix X).eq_of_length (by omega)
      rw [this]

/-- A comment in front changes nothing. -/
theorem skipGap_comment (c : Comment) (X : List Nat) (h : c.ok = true) : skipGap (c.text ++ X) = skipGap X := by
  cases c with
  | line body =>
    simp only [Comment.ok] at h
    have hstep : skipStep (Comment.text (.line body) ++ X) = 0x0A :: X := by
      simp only [skipStep, Comment.text, List.cons_append, List.append_assoc, List.nil_append]
      have h1 : skipWs (0x2F :: 0x2F :: (body ++ 0x0A :: X)) = 0x2F :: 0x2F :: (body ++ 0x0A :: X) := by
        simp [skipWs, isWhitespace, isVerticalSpace]
      rw [h1]
      simp only [skipComment, beq_self_eq_true, if_true]
      exact skipLine_body _ _ h
    rw [skipGap.eq_def, hstep]
    rw [dif_pos (by simp [Comment.text]; omega)]
    exact skipGap_ws [0x0A] X (by decide)
  | block body =>
    simp only [Comment.ok] at h
    have hstep : skipStep (Comment.text (.block body) ++ X) = X := by
      simp only [skipStep, Comment.text, List.cons_append, List.append_assoc, List.nil_append]
      have h1 : skipWs (0x2F :: 0x2A :: (body ++ 0x2A :: 0x2F :: X)) =
          0x2F :: 0x2A :: (body ++ 0x2A :: 0x2F :: X) := by
        simp [skipWs, isWhitespace, isVerticalSpace]
      rw [h1]
      have h2 : ((0x2A : Nat) == 0x2F) = false := by decide
      simp only [skipComment, beq_self_eq_true, if_true, h2, Bool.false_eq_true, if_false]
      exact skipBlock_body _ _ h
    rw [skipGap.eq_def, hstep]
    rw [dif_pos (by simp [Comment.text]; omega)]

/-- Any sequence of white space and comments: the lexer resumes exactly at the next token. -/
theorem skipGap_gap : ∀ (g : Gap) (rest : List Nat), gapOk g = true → startsToken rest = true →
    skipGap (gapText g ++ rest) = rest
  | [], rest, _, hr => by simpa [gapText] using skipGap_token rest hr
  | p :: ps, rest, hg, hr => by
    simp only [gapOk, List.all_cons, Bool.and_eq_true] at hg
    have ih := skipGap_gap ps rest (by simpa [gapOk] using hg.2) hr
    simp only [gapText, List.append_assoc]
    cases p with
    | ws cs => rw [Piece.text, skipGap_ws _ _ (by simpa [Piece.ok] using hg.1), ih]
    | comment c => rw [Piece.text, skipGap_comment _ _ (by simpa [Piece.ok] using hg.1), ih]

end Dmn.GapLayout
