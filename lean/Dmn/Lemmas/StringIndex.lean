import Dmn.Model.StringIndex
import Dmn.Model.BifSpec
import Dmn.Lemmas.TemporalMachine

/-!
# Lemmas about `Dmn/Model/StringIndex.lean` (C05): the machine-integer index arithmetic of the string
built-ins returns, and returns what the computation on unbounded integers returns.
-/

namespace Dmn.StringIndex
open Dmn Dmn.TemporalMachine

/-! ## machine integers -/

theorem arith_ok (t : IntTy) (m : IntMode) (x : Int) (s : String) (h1 : t.lo ≤ x) (h2 : x ≤ t.hi) :
    t.arith m x s = .ok x := by
  simp only [IntTy.arith, h1, h2, and_self, if_true]

theorem isize_arith_ok (m : IntMode) (x : Int) (s : String) (h1 : -9223372036854775808 ≤ x)
    (h2 : x ≤ 9223372036854775807) : tIsize.arith m x s = .ok x := arith_ok _ m x s h1 h2

theorem usize_arith_ok (m : IntMode) (x : Int) (s : String) (h1 : 0 ≤ x)
    (h2 : x ≤ 18446744073709551615) : tUsize.arith m x s = .ok x := arith_ok _ m x s h1 h2

theorem usize_wrap_id (x : Int) (h1 : 0 ≤ x) (h2 : x ≤ 18446744073709551615) : tUsize.wrap x = x :=
  wrap_u64_id x h1 h2

theorem isize_wrap_id (x : Int) (h1 : 0 ≤ x) (h2 : x ≤ 9223372036854775807) : tIsize.wrap x = x :=
  wrap_i64_id x (by omega) h2

theorem usize_checked (x : Int) :
    tUsize.checkedOp x = if 0 ≤ x ∧ x ≤ 18446744073709551615 then some x else none := rfl

theorem fits_isize {x : Int} (h : tIsize.fits x = true) : -9223372036854775808 ≤ x ∧ x ≤ 9223372036854775807 := by
  simp only [IntTy.fits, tIsize, tI64, Bool.and_eq_true] at h
  exact ⟨of_decide_eq_true h.1, of_decide_eq_true h.2⟩

theorem fits_usize {x : Int} (h : tUsize.fits x = true) : 0 ≤ x ∧ x ≤ 18446744073709551615 := by
  simp only [IntTy.fits, tUsize, tU64, Bool.and_eq_true] at h
  exact ⟨of_decide_eq_true h.1, of_decide_eq_true h.2⟩

/-! ## `substring` -/

/-- `substring` on unbounded integers: what the statements of `core.rs:1138-1165` compute when no
integer type has an end. -/
def substringIdeal {α : Type} (cs : List α) (st : Int) (count : Option Int) : Option (List α) :=
  let n : Int := cs.length
  if 0 < st then
    match count with
    | some c => if st - 1 < n ∧ st - 1 + c ≤ n then some ((cs.drop (st - 1).toNat).take c.toNat) else none
    | none => if st - 1 < n then some (cs.drop (st - 1).toNat) else none
  else if st < 0 then
    match count with
    | some c => if 0 ≤ n + st ∧ n + st + c ≤ n then some ((cs.drop (n + st).toNat).take c.toNat) else none
    | none => if 0 ≤ n + st then some (cs.drop (n + st).toNat) else none
  else none

theorem substringAt_eq_ideal {α : Type} (m : IntMode) (cs : List α) (st : Int) (count : Option Int)
    (hst : tIsize.fits st = true) (hc : ∀ c, count = some c → tUsize.fits c = true)
    (hn : (cs.length : Int) ≤ 9223372036854775807) :
    substringAt m cs st count = .ok (substringIdeal cs st count) := by
  obtain ⟨hs1, hs2⟩ := fits_isize hst
  have hn0 : (0 : Int) ≤ cs.length := Int.natCast_nonneg _
  generalize hnn : (cs.length : Int) = n at hn hn0
  by_cases hpos : 0 < st
  · -- `start > 0`
    have hw : tUsize.wrap (st - 1) = st - 1 := usize_wrap_id _ (by omega) (by omega)
    cases count with
    | none =>
      simp only [substringAt, substrFromStart, substrFromEnd, substringIdeal, hnn, gt_iff_lt, hpos, if_true,
        isize_arith_ok m (st - 1) site (by omega) (by omega), Outcome.bind, hw]
      by_cases h1 : st - 1 < n
      · simp only [h1, if_true]
      · simp only [h1, if_false, show ¬ st < 0 by omega]
    | some c =>
      obtain ⟨hc1, hc2⟩ := fits_usize (hc c rfl)
      simp only [substringAt, substrFromStart, substrFromEnd, substringIdeal, hnn, gt_iff_lt, hpos, if_true,
        isize_arith_ok m (st - 1) site (by omega) (by omega), Outcome.bind, hw, usize_checked]
      by_cases h1 : st - 1 < n
      · by_cases h2 : st - 1 + c ≤ 18446744073709551615
        · have h3 : 0 ≤ st - 1 + c := by omega
          simp only [h1, if_true, h2, h3, and_self, true_and]
          by_cases h4 : st - 1 + c ≤ n
          · simp only [h4, if_true]
          · simp only [h4, if_false, show ¬ st < 0 by omega]
        · have h4 : ¬ st - 1 + c ≤ n := by omega
          simp only [h1, if_true, h2, and_false, if_false, h4, show ¬ st < 0 by omega]
      · simp only [h1, if_false, false_and, show ¬ st < 0 by omega]
  · by_cases hneg : st < 0
    · have hwl : tIsize.wrap n = n := isize_wrap_id _ hn0 hn
      have ha : tIsize.arith m (n + st) site = .ok (n + st) := isize_arith_ok m _ site (by omega) (by omega)
      cases count with
      | none =>
        simp only [substringAt, substrFromStart, substrFromEnd, substringIdeal, hnn, gt_iff_lt, hpos, if_false,
          Outcome.bind, hneg, if_true, hwl, ha, ge_iff_le]
        by_cases h1 : 0 ≤ n + st
        · simp only [h1, if_true, usize_wrap_id _ h1 (by omega)]
        · simp only [h1, if_false]
      | some c =>
        obtain ⟨hc1, hc2⟩ := fits_usize (hc c rfl)
        simp only [substringAt, substrFromStart, substrFromEnd, substringIdeal, hnn, gt_iff_lt, hpos, if_false,
          Outcome.bind, hneg, if_true, hwl, ha, ge_iff_le, usize_checked]
        by_cases h1 : 0 ≤ n + st
        · simp only [h1, if_true, usize_wrap_id _ h1 (by omega), true_and]
          by_cases h2 : n + st + c ≤ 18446744073709551615
          · have h3 : 0 ≤ n + st + c := by omega
            simp only [h2, h3, and_self, if_true]
            by_cases h4 : n + st + c ≤ n
            · simp only [h4, if_true]
            · simp only [h4, if_false]
          · have h4 : ¬ n + st + c ≤ n := by omega
            simp only [h2, and_false, if_false, h4]
        · simp only [h1, if_false, false_and]
    · have h0 : st = 0 := by omega
      subst h0
      cases count <;>
        simp [substringAt, substrFromStart, substrFromEnd, substringIdeal, Outcome.bind]

/-! ## UTF-8: leading bytes, continuation bytes, character boundaries -/

/-- the length of an encoded character, from its first byte -/
def leadLen (b : Nat) : Nat := if b < 128 then 1 else if b < 224 then 2 else if b < 240 then 3 else 4

/-- The encoding of any code point: a first byte that is not a continuation byte and says how long
the encoding is, then continuation bytes only. -/
theorem enc_shape (c : Nat) :
    ∃ h t, enc c = h :: t ∧ isCont h = false ∧ (∀ b ∈ t, isCont b = true) ∧ (enc c).length = leadLen h := by
  unfold enc
  split
  · refine ⟨_, _, rfl, ?_, ?_, ?_⟩
    · simp only [isCont, Bool.and_eq_false_imp, decide_eq_true_eq, decide_eq_false_iff_not]; omega
    · intro b hb; cases hb
    · simp only [leadLen, List.length_cons, List.length_nil]; split <;> omega
  · split
    · refine ⟨_, _, rfl, ?_, ?_, ?_⟩
      · simp only [isCont, Bool.and_eq_false_imp, decide_eq_true_eq, decide_eq_false_iff_not]; omega
      · intro b hb
        simp only [List.mem_cons, List.not_mem_nil, or_false] at hb
        subst hb
        simp only [isCont, Bool.and_eq_true, decide_eq_true_eq]; omega
      · simp only [leadLen, List.length_cons, List.length_nil]; split <;> (try split) <;> omega
    · split
      · refine ⟨_, _, rfl, ?_, ?_, ?_⟩
        · simp only [isCont, Bool.and_eq_false_imp, decide_eq_true_eq, decide_eq_false_iff_not]; omega
        · intro b hb
          simp only [List.mem_cons, List.not_mem_nil, or_false] at hb
          rcases hb with rfl | rfl <;> (simp only [isCont, Bool.and_eq_true, decide_eq_true_eq]; omega)
        · simp only [leadLen, List.length_cons, List.length_nil]
          split <;> (try split) <;> (try split) <;> omega
      · refine ⟨_, _, rfl, ?_, ?_, ?_⟩
        · simp only [isCont, Bool.and_eq_false_imp, decide_eq_true_eq, decide_eq_false_iff_not]; omega
        · intro b hb
          simp only [List.mem_cons, List.not_mem_nil, or_false] at hb
          rcases hb with rfl | rfl | rfl <;> (simp only [isCont, Bool.and_eq_true, decide_eq_true_eq]; omega)
        · simp only [leadLen, List.length_cons, List.length_nil]
          split <;> (try split) <;> (try split) <;> omega

theorem enc_length_pos (c : Nat) : 0 < (enc c).length := by
  obtain ⟨h, t, he, -, -, -⟩ := enc_shape c
  rw [he]; exact Nat.succ_pos _

theorem bytes_cons (c : Nat) (cs : List Nat) : bytes (c :: cs) = enc c ++ bytes cs := rfl

theorem isOff_zero (cs : List Nat) : isOff cs 0 = true := by cases cs <;> rfl

theorem isOff_cons_succ (c : Nat) (cs : List Nat) (i : Nat) :
    isOff (c :: cs) (i + 1) = (decide ((enc c).length ≤ i + 1) && isOff cs (i + 1 - (enc c).length)) := rfl

theorem isOff_cons_add (c : Nat) (cs : List Nat) (x : Nat) : isOff (c :: cs) ((enc c).length + x) = isOff cs x := by
  have hp := enc_length_pos c
  obtain ⟨k, hk⟩ : ∃ k, (enc c).length + x = k + 1 := ⟨(enc c).length + x - 1, by omega⟩
  rw [hk, isOff_cons_succ, ← hk]
  have : (enc c).length + x - (enc c).length = x := by omega
  rw [this]
  simp

theorem isOff_cons_of_ge (c : Nat) (cs : List Nat) (i : Nat) (h0 : 0 < i) (h : isOff (c :: cs) i = true) :
    (enc c).length ≤ i ∧ isOff cs (i - (enc c).length) = true := by
  obtain ⟨k, rfl⟩ : ∃ k, i = k + 1 := ⟨i - 1, by omega⟩
  rw [isOff_cons_succ] at h
  simp only [Bool.and_eq_true, decide_eq_true_eq] at h
  exact h

/-- an offset is the end of the bytes, or the place of a byte that is not a continuation byte -/
theorem isOff_byte (cs : List Nat) (i : Nat) (h : isOff cs i = true) :
    i = (bytes cs).length ∨ ∃ b, (bytes cs)[i]? = some b ∧ isCont b = false := by
  induction cs generalizing i with
  | nil =>
    cases i with
    | zero => left; rfl
    | succ i => cases h
  | cons c cs ih =>
    by_cases h0 : i = 0
    · subst h0
      right
      obtain ⟨hd, t, he, hnc, -, -⟩ := enc_shape c
      exact ⟨hd, by rw [bytes_cons, he]; rfl, hnc⟩
    · obtain ⟨h1, h2⟩ := isOff_cons_of_ge c cs i (by omega) h
      rcases ih _ h2 with h3 | ⟨b, hb, hnc⟩
      · left
        rw [bytes_cons, List.length_append]; omega
      · right
        refine ⟨b, ?_, hnc⟩
        rw [bytes_cons, List.getElem?_append_right h1]
        exact hb

theorem isOff_le (cs : List Nat) (i : Nat) (h : isOff cs i = true) : i ≤ (bytes cs).length := by
  rcases isOff_byte cs i h with h1 | ⟨b, hb, -⟩
  · omega
  · have := (List.getElem?_eq_some_iff.mp hb).1
    omega

theorem isOff_length (cs : List Nat) : isOff cs (bytes cs).length = true := by
  induction cs with
  | nil => rfl
  | cons c cs ih => rw [bytes_cons, List.length_append, isOff_cons_add]; exact ih

/-- every offset is a character boundary of `core::str` -/
theorem isOff_boundary (cs : List Nat) (i : Nat) (h : isOff cs i = true) : isCharBoundary (bytes cs) i = true := by
  unfold isCharBoundary
  by_cases h0 : i = 0
  · rw [if_pos h0]
  · rw [if_neg h0]
    rcases isOff_byte cs i h with h1 | ⟨b, hb, hnc⟩
    · rw [if_pos (by omega)]; simp [h1]
    · have hlt := (List.getElem?_eq_some_iff.mp hb).1
      rw [if_neg (by omega), hb]
      simp [hnc]

/-- a byte that is not a continuation byte stands at an offset -/
theorem byte_isOff (cs : List Nat) (i : Nat) (b : Nat) (hb : (bytes cs)[i]? = some b) (hnc : isCont b = false) :
    isOff cs i = true := by
  induction cs generalizing i with
  | nil => simp [bytes] at hb
  | cons c cs ih =>
    by_cases h0 : i = 0
    · subst h0; rfl
    · obtain ⟨k, rfl⟩ : ∃ k, i = k + 1 := ⟨i - 1, by omega⟩
      rw [isOff_cons_succ]
      rw [bytes_cons] at hb
      by_cases hlt : k + 1 < (enc c).length
      · -- inside the encoding of `c`: a continuation byte
        exfalso
        obtain ⟨hd, t, he, -, hcont, -⟩ := enc_shape c
        rw [List.getElem?_append_left hlt, he, List.getElem?_cons_succ] at hb
        have hm : b ∈ t := List.mem_of_getElem? hb
        rw [hcont b hm] at hnc
        cases hnc
      · have hge : (enc c).length ≤ k + 1 := by omega
        rw [List.getElem?_append_right hge] at hb
        simp only [Bool.and_eq_true, decide_eq_true_eq]
        exact ⟨hge, ih _ hb⟩

/-- the bytes of a string at the front of the bytes of another end at an offset of that one -/
theorem prefix_isOff (pat cs : List Nat) (h : bytes pat <+: bytes cs) : isOff cs (bytes pat).length = true := by
  induction pat generalizing cs with
  | nil => exact isOff_zero cs
  | cons a p ih =>
    cases cs with
    | nil =>
      exfalso
      have h1 := h.length_le
      rw [bytes_cons, List.length_append] at h1
      have h2 := enc_length_pos a
      have h3 : (bytes ([] : List Nat)).length = 0 := rfl
      omega
    | cons c cs =>
      rw [bytes_cons, bytes_cons] at h
      obtain ⟨ha, ta, hea, -, -, hla⟩ := enc_shape a
      obtain ⟨hc, tc, hec, -, -, hlc⟩ := enc_shape c
      obtain ⟨r, hr⟩ := h
      have hhead : ha = hc := by
        rw [hea, hec] at hr
        simp only [List.cons_append, List.cons.injEq] at hr
        exact hr.1
      have hlen : (enc a).length = (enc c).length := by rw [hla, hlc, hhead]
      rw [List.append_assoc] at hr
      have := List.append_inj hr hlen
      have hp : bytes p <+: bytes cs := ⟨r, this.2⟩
      rw [bytes_cons, List.length_append, hlen, isOff_cons_add]
      exact ih cs hp

theorem drop_bytes_cons (c : Nat) (cs : List Nat) (i : Nat) (h : (enc c).length ≤ i) :
    (bytes (c :: cs)).drop i = (bytes cs).drop (i - (enc c).length) := by
  rw [bytes_cons, List.drop_append, List.drop_eq_nil_of_le h, List.nil_append]

/-- … and the same from any offset -/
theorem isOff_add_prefix (pat cs : List Nat) (i : Nat) (hi : isOff cs i = true)
    (h : bytes pat <+: (bytes cs).drop i) : isOff cs (i + (bytes pat).length) = true := by
  induction cs generalizing i with
  | nil =>
    cases i with
    | zero => rw [Nat.zero_add]; exact prefix_isOff pat [] (by simpa using h)
    | succ i => cases hi
  | cons c cs ih =>
    by_cases h0 : i = 0
    · subst h0
      rw [Nat.zero_add]
      exact prefix_isOff pat (c :: cs) (by simpa using h)
    · obtain ⟨h1, h2⟩ := isOff_cons_of_ge c cs i (by omega) hi
      rw [drop_bytes_cons c cs i h1] at h
      have := ih _ h2 h
      have he : i + (bytes pat).length = (enc c).length + (i - (enc c).length + (bytes pat).length) := by omega
      rw [he, isOff_cons_add]
      exact this

/-! ## `str::find` -/

theorem findBytes_some (p bs : List Nat) (i : Nat) (h : findBytes p bs = some i) : p <+: bs.drop i := by
  induction bs generalizing i with
  | nil =>
    simp only [findBytes] at h
    split at h
    · cases h
      rename_i hp
      simp only [List.isEmpty_iff] at hp
      subst hp
      exact List.nil_prefix
    · cases h
  | cons b bs ih =>
    simp only [findBytes] at h
    split at h
    · cases h
      rename_i hp
      exact List.isPrefixOf_iff_prefix.mp hp
    · cases hf : findBytes p bs with
      | none => rw [hf] at h; cases h
      | some j =>
        rw [hf] at h
        simp only [Option.map_some, Option.some.injEq] at h
        subst h
        exact ih j hf

theorem findBytes_bound (p bs : List Nat) (i : Nat) (h : findBytes p bs = some i) : i + p.length ≤ bs.length := by
  have h1 := (findBytes_some p bs i h).length_le
  rw [List.length_drop] at h1
  by_cases hp : p.length = 0
  · -- the empty needle is found at 0
    have : p = [] := List.length_eq_zero_iff.mp hp
    subst this
    cases bs with
    | nil => simp [findBytes] at h; omega
    | cons b bs => simp [findBytes] at h; omega
  · omega

/-- where the bytes of a string are found in the bytes of a string, a character starts -/
theorem find_isOff (pat cs : List Nat) (i : Nat) (h : findBytes (bytes pat) (bytes cs) = some i) :
    isOff cs i = true ∧ isOff cs (i + (bytes pat).length) = true := by
  have hpre := findBytes_some _ _ _ h
  have hstart : isOff cs i = true := by
    cases pat with
    | nil =>
      have := findBytes_bound _ _ _ h
      cases hb : bytes cs with
      | nil => rw [hb] at h; simp [findBytes, bytes] at h; subst h; exact isOff_zero cs
      | cons b bs => rw [hb] at h; simp [findBytes, bytes] at h; subst h; exact isOff_zero cs
    | cons a p =>
      obtain ⟨hd, t, he, hnc, -, -⟩ := enc_shape a
      obtain ⟨r, hr⟩ := hpre
      rw [bytes_cons, he] at hr
      have : (bytes cs)[i]? = some hd := by
        have h2 : ((bytes cs).drop i)[0]? = some hd := by rw [← hr]; rfl
        rw [List.getElem?_drop] at h2
        simpa using h2
      exact byte_isOff cs i hd this hnc
  exact ⟨hstart, isOff_add_prefix pat cs i hstart hpre⟩

/-- the bytes before / after an offset are the bytes of the characters before / after it -/
theorem isOff_split (cs : List Nat) (i : Nat) (h : isOff cs i = true) :
    ∃ k, (bytes cs).take i = bytes (cs.take k) ∧ (bytes cs).drop i = bytes (cs.drop k) := by
  induction cs generalizing i with
  | nil =>
    cases i with
    | zero => exact ⟨0, rfl, rfl⟩
    | succ i => cases h
  | cons c cs ih =>
    by_cases h0 : i = 0
    · subst h0; exact ⟨0, rfl, rfl⟩
    · obtain ⟨h1, h2⟩ := isOff_cons_of_ge c cs i (by omega) h
      obtain ⟨k, hk1, hk2⟩ := ih _ h2
      refine ⟨k + 1, ?_, ?_⟩
      · rw [bytes_cons, List.take_append, List.take_of_length_le h1, hk1]; rfl
      · rw [drop_bytes_cons c cs i h1, hk2]; rfl

/-! ## the operations -/

theorem strTo_ok (cs : List Nat) (i : Nat) (h : isOff cs i = true) : strTo (bytes cs) i = .ok ((bytes cs).take i) := by
  unfold strTo; rw [if_pos (isOff_boundary cs i h)]

theorem strFrom_ok (cs : List Nat) (i : Nat) (h : isOff cs i = true) : strFrom (bytes cs) i = .ok ((bytes cs).drop i) := by
  unfold strFrom; rw [if_pos (isOff_boundary cs i h)]

theorem strRange_ok (cs : List Nat) (a b : Nat) (hab : a ≤ b) (ha : isOff cs a = true) (hb : isOff cs b = true) :
    strRange (bytes cs) a b = .ok (((bytes cs).drop a).take (b - a)) := by
  unfold strRange; rw [if_pos ⟨hab, isOff_boundary cs a ha, isOff_boundary cs b hb⟩]

theorem substringBefore_ok (cs pat : List Nat) :
    ∃ k, substringBefore cs pat = .ok (bytes (cs.take k)) := by
  cases hf : findBytes (bytes pat) (bytes cs) with
  | none => exact ⟨0, by simp only [substringBefore, hf]; rfl⟩
  | some i =>
    obtain ⟨h1, -⟩ := find_isOff pat cs i hf
    obtain ⟨k, hk, -⟩ := isOff_split cs i h1
    exact ⟨k, by simp only [substringBefore, hf, strTo_ok cs i h1, hk]⟩

theorem substringAfter_ok (m : IntMode) (cs pat : List Nat) (hlen : ((bytes cs).length : Int) ≤ 9223372036854775807) :
    ∃ k, substringAfter m cs pat = .ok (bytes (cs.drop k)) := by
  cases hf : findBytes (bytes pat) (bytes cs) with
  | none => exact ⟨cs.length, by simp [substringAfter, hf, bytes]⟩
  | some i =>
    obtain ⟨-, h2⟩ := find_isOff pat cs i hf
    have hb := findBytes_bound _ _ _ hf
    obtain ⟨k, -, hk⟩ := isOff_split cs _ h2
    refine ⟨k, ?_⟩
    have ha : tUsize.arith m (((bytes pat).length : Int) + (i : Int)) site = .ok (((bytes pat).length : Int) + (i : Int)) :=
      usize_arith_ok m _ site (by omega) (by omega)
    have hn : (((bytes pat).length : Int) + (i : Int)).toNat = i + (bytes pat).length := by omega
    simp only [substringAfter, hf, ha, Outcome.bind, hn, strFrom_ok cs _ h2, hk]

theorem splitSlices_ok (cs : List Nat) (ms : List Match) (last : Nat) (h : matchesOk cs last ms = true) :
    ∃ r, splitSlices (bytes cs) last ms = .ok r := by
  induction ms generalizing last with
  | nil =>
    simp only [matchesOk] at h
    simp only [splitSlices, strRange_ok cs last _ (isOff_le cs last h) h (isOff_length cs), Outcome.map]
    exact ⟨_, rfl⟩
  | cons me ms ih =>
    obtain ⟨s, e⟩ := me
    simp only [matchesOk, Bool.and_eq_true, decide_eq_true_eq] at h
    obtain ⟨⟨⟨⟨h1, h2⟩, h3⟩, _⟩, h5⟩ := h
    obtain ⟨r, hr⟩ := ih e h5
    simp only [splitSlices, strRange_ok cs last s h2 h1 h3, Outcome.bind, hr, Outcome.map]
    exact ⟨_, rfl⟩

theorem matchesOk_last (cs : List Nat) (ms : List Match) (last : Nat) (h : matchesOk cs last ms = true) :
    isOff cs last = true := by
  cases ms with
  | nil => exact h
  | cons me ms =>
    obtain ⟨s, e⟩ := me
    simp only [matchesOk, Bool.and_eq_true, decide_eq_true_eq] at h
    exact h.1.1.1.1

theorem replaceSlices_ok (cs : List Nat) (ms : List Match) (last : Nat) (reps : List (List Nat))
    (h : matchesOk cs last ms = true) : ∃ r, replaceSlices (bytes cs) last ms reps = .ok r := by
  induction ms generalizing last reps with
  | nil =>
    simp only [matchesOk] at h
    simp only [replaceSlices, strFrom_ok cs last h]
    exact ⟨_, rfl⟩
  | cons me ms ih =>
    obtain ⟨s, e⟩ := me
    simp only [matchesOk, Bool.and_eq_true, decide_eq_true_eq] at h
    obtain ⟨⟨⟨⟨h1, h2⟩, h3⟩, _⟩, h5⟩ := h
    obtain ⟨r, hr⟩ := ih e reps.tail h5
    simp only [replaceSlices, strRange_ok cs last s h2 h1 h3, Outcome.bind, hr, Outcome.map]
    exact ⟨_, rfl⟩

/-- the occurrences of a literal pattern are matches as `matchesOk` wants them -/
theorem litMatches_ok (pat cs : List Nat) (fuel off : Nat) (hoff : isOff cs off = true) :
    matchesOk cs off (litMatches (bytes pat) fuel off ((bytes cs).drop off)) = true := by
  induction fuel generalizing off with
  | zero => exact hoff
  | succ fuel ih =>
    simp only [litMatches]
    cases hf : findBytes (bytes pat) ((bytes cs).drop off) with
    | none => exact hoff
    | some i =>
      -- the occurrence, seen from the start of the string
      have hpre := findBytes_some _ _ _ hf
      rw [List.drop_drop] at hpre
      have hstart : isOff cs (off + i) = true := by
        cases pat with
        | nil =>
          have hi : i = 0 := by
            cases hb : (bytes cs).drop off with
            | nil => rw [hb] at hf; simp [findBytes, bytes] at hf; omega
            | cons b bs => rw [hb] at hf; simp [findBytes, bytes] at hf; omega
          subst hi; exact hoff
        | cons a p =>
          obtain ⟨hd, t, he, hnc, -, -⟩ := enc_shape a
          obtain ⟨r, hr⟩ := hpre
          rw [bytes_cons, he] at hr
          have : (bytes cs)[off + i]? = some hd := by
            have h2 : ((bytes cs).drop (off + i))[0]? = some hd := by rw [← hr]; rfl
            rw [List.getElem?_drop] at h2
            simpa using h2
          exact byte_isOff cs _ hd this hnc
      have hend := isOff_add_prefix pat cs (off + i) hstart hpre
      have hrec := ih (off + i + (bytes pat).length) hend
      simp only [matchesOk, Bool.and_eq_true, decide_eq_true_eq]
      refine ⟨⟨⟨⟨hoff, by omega⟩, hstart⟩, by omega⟩, ?_⟩
      rw [List.drop_drop]
      have : off + (i + (bytes pat).length) = off + i + (bytes pat).length := by omega
      rw [this]
      exact hrec

theorem splitLiteral_ok (cs pat : List Nat) : ∃ r, splitLiteral cs pat = .ok r := by
  unfold splitLiteral
  simp only
  split
  · exact ⟨_, rfl⟩
  · have h := litMatches_ok pat cs ((bytes cs).length + 1) 0 (isOff_zero cs)
    rw [List.drop_zero] at h
    obtain ⟨r, hr⟩ := splitSlices_ok cs _ 0 h
    exact ⟨some r, by rw [hr]; rfl⟩

theorem emptyMatches_ok (cs rest : List Nat) (off : Nat) (hoff : isOff cs off = true)
    (hrest : (bytes cs).drop off = bytes rest) : matchesOk cs off (emptyMatches off rest) = true := by
  induction rest generalizing off with
  | nil => simp only [emptyMatches, matchesOk, hoff, Nat.le_refl, decide_true, Bool.and_self]
  | cons c rest ih =>
    have hnext : isOff cs (off + (enc c).length) = true := by
      have := isOff_add_prefix [c] cs off hoff (by rw [hrest]; exact ⟨bytes rest, by simp [bytes]⟩)
      simpa [bytes] using this
    have hdrop : (bytes cs).drop (off + (enc c).length) = bytes rest := by
      rw [← List.drop_drop, hrest, bytes_cons, List.drop_left]
    have hrec := ih _ hnext hdrop
    have hm : matchesOk cs off (emptyMatches (off + (enc c).length) rest) = true := by
      cases rest with
      | nil =>
        simp only [emptyMatches, matchesOk, Bool.and_eq_true, decide_eq_true_eq] at hrec ⊢
        exact ⟨⟨⟨⟨hoff, by omega⟩, hnext⟩, by omega⟩, hnext⟩
      | cons d rest =>
        simp only [emptyMatches, matchesOk, Bool.and_eq_true, decide_eq_true_eq] at hrec ⊢
        exact ⟨⟨⟨⟨hoff, by omega⟩, hnext⟩, by omega⟩, hrec.2⟩
    simp only [emptyMatches, matchesOk, Bool.and_eq_true, decide_eq_true_eq]
    exact ⟨⟨⟨⟨hoff, Nat.le_refl _⟩, hoff⟩, Nat.le_refl _⟩, hm⟩

theorem replaceLiteral_ok (cs pat rep : List Nat) : ∃ r, replaceLiteral cs pat rep = .ok r := by
  unfold replaceLiteral
  simp only
  split
  · exact replaceSlices_ok cs _ 0 _ (emptyMatches_ok cs cs 0 (isOff_zero cs) (by rw [List.drop_zero]))
  · have h := litMatches_ok pat cs ((bytes cs).length + 1) 0 (isOff_zero cs)
    rw [List.drop_zero] at h
    exact replaceSlices_ok cs _ 0 _ h

/-! ## every operation returns -/

theorem substring_ok {α : Type} (m : IntMode) (cs : List α) (start : Option Int) (len : LenArg)
    (hstart : ∀ s, start = some s → tIsize.fits s = true)
    (hlen : ∀ c, len = .count (some c) → tUsize.fits c = true)
    (hn : (cs.length : Int) ≤ 9223372036854775807) : ∃ r, substring m cs start len = .ok r := by
  unfold substring
  cases start with
  | none => exact ⟨_, rfl⟩
  | some st =>
    cases len with
    | toEnd => exact ⟨_, substringAt_eq_ideal m cs st none (hstart st rfl) (by intro c hc; cases hc) hn⟩
    | below1 => exact ⟨_, rfl⟩
    | other => exact ⟨_, rfl⟩
    | count c =>
      cases c with
      | none => exact ⟨_, rfl⟩
      | some c =>
        exact ⟨_, substringAt_eq_ideal m cs st (some c) (hstart st rfl)
          (by intro c' hc; cases hc; exact hlen c rfl) hn⟩

theorem run_ok (m : IntMode) (op : Op) (hw : op.wellTyped = true) : ∃ r, run m op = .ok r := by
  cases op with
  | substring cs start len =>
    simp only [Op.wellTyped, Bool.and_eq_true, decide_eq_true_eq, allocMax] at hw
    obtain ⟨⟨h1, h2⟩, h3⟩ := hw
    obtain ⟨r, hr⟩ := substring_ok m cs start len
      (by intro s hs; subst hs; exact h1) (by intro c hc; subst hc; exact h2) (of_decide_eq_true h3)
    exact ⟨_, by simp only [run, hr]; rfl⟩
  | before cs pat =>
    obtain ⟨k, hk⟩ := substringBefore_ok cs pat
    exact ⟨_, by simp only [run, hk]; rfl⟩
  | after cs pat =>
    simp only [Op.wellTyped, decide_eq_true_eq, allocMax] at hw
    obtain ⟨k, hk⟩ := substringAfter_ok m cs pat (of_decide_eq_true hw)
    exact ⟨_, by simp only [run, hk]; rfl⟩
  | split cs pat =>
    obtain ⟨r, hr⟩ := splitLiteral_ok cs pat
    exact ⟨_, by simp only [run, hr]; rfl⟩
  | replace cs pat rep =>
    obtain ⟨r, hr⟩ := replaceLiteral_ok cs pat rep
    exact ⟨_, by simp only [run, hr]; rfl⟩
  | splitAt cs ms =>
    obtain ⟨r, hr⟩ := splitSlices_ok cs ms 0 hw
    exact ⟨_, by simp only [run, hr]; rfl⟩
  | replaceAt cs ms reps =>
    obtain ⟨r, hr⟩ := replaceSlices_ok cs ms 0 reps hw
    exact ⟨_, by simp only [run, hr]; rfl⟩

/-! ## `substring` against the specification of C08 -/

theorem substringIdeal_eq_spec (cs : List Char) (st : Int) (count : Option Int)
    (hc : ∀ c, count = some c → 1 ≤ c) :
    substringIdeal cs st count = Spec.substringChars cs st (count.map Int.toNat) := by
  -- the zero-based index of the specification
  have hidx : Spec.startIndex cs.length st =
      if 0 < st then (if st - 1 < (cs.length : Int) then some (st - 1).toNat else none)
      else if st < 0 then (if 0 ≤ (cs.length : Int) + st then some ((cs.length : Int) + st).toNat else none)
      else none := by
    unfold Spec.startIndex
    generalize cs.length = n
    by_cases h1 : 0 < st
    · by_cases h2 : st - 1 < (n : Int)
      · rw [if_pos h1, if_pos h2, if_pos ⟨by omega, by omega⟩]
      · rw [if_pos h1, if_neg h2, if_neg (by omega), if_neg (by omega)]
    · by_cases h3 : st < 0
      · by_cases h4 : 0 ≤ (n : Int) + st
        · rw [if_neg h1, if_pos h3, if_pos h4, if_neg (by omega), if_pos ⟨by omega, by omega⟩]
        · rw [if_neg h1, if_pos h3, if_neg h4, if_neg (by omega), if_neg (by omega)]
      · rw [if_neg h1, if_neg h3, if_neg (by omega), if_neg (by omega)]
  unfold Spec.substringChars
  rw [hidx]
  unfold substringIdeal
  generalize cs.length = n
  cases count with
  | none =>
    simp only [Option.map_none]
    by_cases h1 : 0 < st
    · by_cases h2 : st - 1 < (n : Int)
      · simp only [h1, h2, if_true]
      · simp only [h1, h2, if_true, if_false]
    · by_cases h3 : st < 0
      · by_cases h4 : 0 ≤ (n : Int) + st
        · simp only [h1, h3, h4, if_true, if_false]
        · simp only [h1, h3, h4, if_true, if_false]
      · simp only [h1, h3, if_false]
  | some c =>
    have hc1 := hc c rfl
    simp only [Option.map_some]
    by_cases h1 : 0 < st
    · by_cases h2 : st - 1 < (n : Int)
      · simp only [h1, h2, if_true, true_and]
        by_cases h5 : st - 1 + c ≤ (n : Int)
        · have h6 : 1 ≤ c.toNat ∧ (st - 1).toNat + c.toNat ≤ n := ⟨by omega, by omega⟩
          simp only [h5, h6, and_self, if_true]
        · have h6 : ¬ (1 ≤ c.toNat ∧ (st - 1).toNat + c.toNat ≤ n) := by omega
          simp only [h5, h6, if_false]
      · simp only [h1, h2, if_true, if_false, false_and]
    · by_cases h3 : st < 0
      · by_cases h4 : 0 ≤ (n : Int) + st
        · simp only [h1, h3, h4, if_true, if_false, true_and]
          by_cases h5 : (n : Int) + st + c ≤ (n : Int)
          · have h6 : 1 ≤ c.toNat ∧ ((n : Int) + st).toNat + c.toNat ≤ n := ⟨by omega, by omega⟩
            simp only [h5, h6, and_self, if_true]
          · have h6 : ¬ (1 ≤ c.toNat ∧ ((n : Int) + st).toNat + c.toNat ≤ n) := by omega
            simp only [h5, h6, if_false]
        · simp only [h1, h3, h4, if_true, if_false, false_and]
      · simp only [h1, h3, if_false]

end Dmn.StringIndex
