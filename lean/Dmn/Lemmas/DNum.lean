import Dmn.Model.DNum
import Mathlib.Tactic.Linarith
import Mathlib.Tactic.Ring
import Mathlib.Tactic.FieldSimp
import Mathlib.Algebra.Order.Field.Rat
import Mathlib.Data.Rat.Cast.Order

/-!
# Lemmas about the decimals of the model layer (`Model/DNum.lean`)

`val : DNum → ℚ` is the rational value `coeff / 10^scale`.  The order and the sum of `DNum` are
the order and the sum of the values (`lt_iff_val`, `le_iff_val`, `val_add`), `val` is injective on
the normal forms (`val_injective`: structural equality is numeric equality), and the numbers of
the evaluator model (`Dec`, which carry a representation) map onto them respecting
`FeelNumber`'s equality and order (`ofDec_eq_iff`, `ofDec_lt_iff`).
-/

namespace Dmn.DNum

/-- The rational value of a decimal. -/
def val (a : DNum) : ℚ := (a.coeff : ℚ) / (10 : ℚ) ^ a.scale

theorem ten_pow_pos (k : Nat) : (0 : Int) < 10 ^ k := by positivity

theorem normPair_val (c : Int) (s : Nat) :
    (normPair c s).1 * 10 ^ s = c * 10 ^ (normPair c s).2 := by
  induction s generalizing c with
  | zero => simp [normPair]
  | succ s ih =>
    unfold normPair
    split
    · rename_i h
      have h10 : c / 10 * 10 = c := by omega
      have := ih (c / 10)
      calc (normPair (c / 10) s).1 * 10 ^ (s + 1) = (normPair (c / 10) s).1 * 10 ^ s * 10 := by ring
        _ = c / 10 * 10 ^ (normPair (c / 10) s).2 * 10 := by rw [this]
        _ = (c / 10 * 10) * 10 ^ (normPair (c / 10) s).2 := by ring
        _ = c * 10 ^ (normPair (c / 10) s).2 := by rw [h10]
    · rfl

theorem val_norm (c : Int) (s : Nat) : val (norm c s) = (c : ℚ) / (10 : ℚ) ^ s := by
  have h := normPair_val c s
  have hq : ((normPair c s).1 : ℚ) * 10 ^ s = (c : ℚ) * 10 ^ (normPair c s).2 := by exact_mod_cast h
  unfold val norm
  simp only
  rw [div_eq_div_iff (by positivity) (by positivity)]
  exact hq

theorem val_ofInt (n : Int) : val (ofInt n) = n := by simp [val, ofInt]

theorem val_add (a b : DNum) : val (a + b) = val a + val b := by
  show val (add a b) = _
  unfold add
  rw [val_norm]
  unfold val
  push_cast
  field_simp
  ring

theorem lt_iff_val (a b : DNum) : a < b ↔ val a < val b := by
  rw [lt_def]
  unfold val
  rw [div_lt_div_iff₀ (by positivity) (by positivity)]
  constructor
  · intro h; exact_mod_cast h
  · intro h; exact_mod_cast h

theorem le_iff_val (a b : DNum) : a ≤ b ↔ val a ≤ val b := by
  rw [le_def]
  unfold val
  rw [div_le_div_iff₀ (by positivity) (by positivity)]
  constructor
  · intro h; exact_mod_cast h
  · intro h; exact_mod_cast h

/-- Numeric equality of two normal forms is structural equality. -/
theorem eq_of_cross {a b : DNum} (h : a.coeff * 10 ^ b.scale = b.coeff * 10 ^ a.scale) : a = b := by
  obtain ⟨ac, as, anf⟩ := a
  obtain ⟨bc, bs, bnf⟩ := b
  simp only at h
  have key : ∀ (c d : Int) (s k : Nat), c * 10 ^ (s + (k + 1)) = d * 10 ^ s → d % 10 = 0 := by
    intro c d s k hh
    have h1 : c * 10 ^ (s + (k + 1)) = (c * 10 ^ k * 10) * 10 ^ s := by ring
    rw [h1] at hh
    have := mul_right_cancel₀ (ne_of_gt (ten_pow_pos s)) hh
    omega
  rcases Nat.lt_trichotomy as bs with hlt | heq | hgt
  · obtain ⟨k, rfl⟩ : ∃ k, bs = as + (k + 1) := ⟨bs - as - 1, by omega⟩
    have := key ac bc as k h
    rcases bnf with h0 | h0
    · omega
    · exact absurd this h0
  · subst heq
    have := mul_right_cancel₀ (ne_of_gt (ten_pow_pos as)) h
    subst this
    rfl
  · obtain ⟨k, rfl⟩ : ∃ k, as = bs + (k + 1) := ⟨as - bs - 1, by omega⟩
    have := key bc ac bs k h.symm
    rcases anf with h0 | h0
    · omega
    · exact absurd this h0

theorem val_injective {a b : DNum} (h : val a = val b) : a = b := by
  apply eq_of_cross
  unfold val at h
  rw [div_eq_div_iff (by positivity) (by positivity)] at h
  exact_mod_cast h



/-! ## The order is a linear order -/

theorem le_refl' (a : DNum) : a ≤ a := (le_iff_val a a).mpr (le_refl _)

theorem le_trans' {a b c : DNum} (h1 : a ≤ b) (h2 : b ≤ c) : a ≤ c :=
  (le_iff_val a c).mpr (le_trans ((le_iff_val a b).mp h1) ((le_iff_val b c).mp h2))

theorem le_total' (a b : DNum) : a ≤ b ∨ b ≤ a := by
  rw [le_iff_val, le_iff_val]; exact le_total _ _

theorem le_antisymm' {a b : DNum} (h1 : a ≤ b) (h2 : b ≤ a) : a = b :=
  val_injective (le_antisymm ((le_iff_val a b).mp h1) ((le_iff_val b a).mp h2))

theorem not_lt' {a b : DNum} : ¬ a < b ↔ b ≤ a := by
  rw [lt_iff_val, le_iff_val]; exact not_lt

theorem le_of_lt' {a b : DNum} (h : a < b) : a ≤ b :=
  (le_iff_val a b).mpr (le_of_lt ((lt_iff_val a b).mp h))

theorem lt_irrefl' (a : DNum) : ¬ a < a := by
  rw [lt_iff_val]; exact lt_irrefl _

/-- The exact sum of a list is the sum of the values. -/
theorem val_foldl_add (n : DNum) (ns : List DNum) :
    val (ns.foldl (· + ·) n) = val n + (ns.map val).sum := by
  induction ns generalizing n with
  | nil => simp
  | cons v vs ih => rw [List.foldl_cons, ih, val_add, List.map_cons, List.sum_cons]; ring

/-! ## The bridge to the numbers of the evaluator model (`Dec`, representation-carrying) -/

/-- The rational value of a `Dec`: `(-1)^neg · coeff · 10^exp`. -/
def decVal (d : Dec) : ℚ := (d.scoeff : ℚ) * (10 : ℚ) ^ d.exp

theorem val_ofDec (d : Dec) : val (ofDec d) = decVal d := by
  unfold ofDec decVal
  split
  · rename_i h
    obtain ⟨n, hn⟩ : ∃ n : Nat, d.exp = n := ⟨d.exp.toNat, by omega⟩
    rw [val_ofInt, hn]
    simp
  · rename_i h
    obtain ⟨n, hn⟩ : ∃ n : Nat, d.exp = -(n : Int) := ⟨(-d.exp).toNat, by omega⟩
    rw [val_norm, hn]
    simp [div_eq_mul_inv]

theorem align_val (a b : Dec) :
    (((Dec.align a b).1 : Int) : ℚ) = decVal a * (10 : ℚ) ^ (-(min a.exp b.exp)) ∧
    (((Dec.align a b).2.1 : Int) : ℚ) = decVal b * (10 : ℚ) ^ (-(min a.exp b.exp)) := by
  have h10 : (10 : ℚ) ≠ 0 := by norm_num
  constructor
  · unfold Dec.align decVal
    simp only
    obtain ⟨n, hn⟩ : ∃ n : Nat, a.exp - min a.exp b.exp = n := ⟨(a.exp - min a.exp b.exp).toNat, by omega⟩
    rw [hn]
    push_cast
    rw [mul_assoc, ← zpow_add₀ h10, Int.toNat_natCast, ← zpow_natCast, ← hn]
    congr 2
  · unfold Dec.align decVal
    simp only
    obtain ⟨n, hn⟩ : ∃ n : Nat, b.exp - min a.exp b.exp = n := ⟨(b.exp - min a.exp b.exp).toNat, by omega⟩
    rw [hn]
    push_cast
    rw [mul_assoc, ← zpow_add₀ h10, Int.toNat_natCast, ← zpow_natCast, ← hn]
    congr 2

/-- `FeelNumber: PartialEq` (`Dec.beq`, `decQuadCompare` = 0) is equality of the model's numbers. -/
theorem ofDec_eq_iff (a b : Dec) : ofDec a = ofDec b ↔ Dec.beq a b = true := by
  have hp : (0 : ℚ) < (10 : ℚ) ^ (-(min a.exp b.exp)) := zpow_pos (by norm_num) _
  obtain ⟨h1, h2⟩ := align_val a b
  have hcmp : Dec.beq a b = true ↔ (Dec.align a b).1 = (Dec.align a b).2.1 := by
    unfold Dec.beq Dec.cmp
    rcases hx : Dec.align a b with ⟨x, y, e⟩
    simp only [beq_iff_eq, Int.compare_eq_eq]
  rw [hcmp]
  constructor
  · intro h
    have hv : decVal a = decVal b := by rw [← val_ofDec, ← val_ofDec, h]
    have : (((Dec.align a b).1 : Int) : ℚ) = ((Dec.align a b).2.1 : Int) := by rw [h1, h2, hv]
    exact_mod_cast this
  · intro h
    apply val_injective
    rw [val_ofDec, val_ofDec]
    have : decVal a * (10 : ℚ) ^ (-(min a.exp b.exp)) = decVal b * (10 : ℚ) ^ (-(min a.exp b.exp)) := by
      rw [← h1, ← h2, h]
    exact mul_right_cancel₀ (ne_of_gt hp) this

/-- `FeelNumber: PartialOrd` (`Dec.lt`, `decQuadCompare` < 0) is the order of the model's numbers. -/
theorem ofDec_lt_iff (a b : Dec) : ofDec a < ofDec b ↔ Dec.lt a b = true := by
  have hp : (0 : ℚ) < (10 : ℚ) ^ (-(min a.exp b.exp)) := zpow_pos (by norm_num) _
  obtain ⟨h1, h2⟩ := align_val a b
  have hcmp : Dec.lt a b = true ↔ (Dec.align a b).1 < (Dec.align a b).2.1 := by
    unfold Dec.lt Dec.cmp
    rcases hx : Dec.align a b with ⟨x, y, e⟩
    simp only [beq_iff_eq, Int.compare_eq_lt]
  rw [hcmp, lt_iff_val, val_ofDec, val_ofDec]
  have : ((Dec.align a b).1 < (Dec.align a b).2.1) ↔
      ((((Dec.align a b).1 : Int) : ℚ) < ((Dec.align a b).2.1 : Int)) := by
    constructor
    · intro h; exact_mod_cast h
    · intro h; exact_mod_cast h
  rw [this, h1, h2]
  constructor
  · intro h; exact mul_lt_mul_of_pos_right h hp
  · intro h; exact lt_of_mul_lt_mul_right h hp.le

end Dmn.DNum
