import Dmn.Lemmas.BifsStatsExactSqrt

/-!
# `stddev` of integers with an integer mean and a perfect-square variance is exact
-/

namespace Dmn
namespace Bif

theorem rep_cmp_eq {d : Dec} {r : Nat} (h : Rep d (r : Int)) : Dec.cmp d (Dec.ofNat r) = .eq := by
  obtain ⟨he, hv⟩ := h
  unfold Dec.cmp Dec.align
  have hmin : min d.exp (Dec.ofNat r).exp = 0 := by
    show min d.exp 0 = 0; omega
  simp only [hmin]
  have h1 : (d.exp - 0).toNat = d.exp.toNat := by simp
  have h2 : (Dec.ofNat r).scoeff = r := by simp [Dec.ofNat, Dec.scoeff]
  have h3 : ((Dec.ofNat r).exp - 0).toNat = 0 := by show ((0 : Int) - 0).toNat = 0; simp
  rw [h1, hv, h2, h3]
  simp

theorem abs_sum_le (l : List Int) (M : Nat) (h : ∀ z ∈ l, z.natAbs ≤ M) : l.sum.natAbs ≤ l.length * M := by
  induction l with
  | nil => simp
  | cons z t ih =>
    rw [List.sum_cons, List.length_cons]
    have h1 := h z List.mem_cons_self
    have h2 := ih (fun w hw => h w (List.mem_cons_of_mem _ hw))
    have := Int.natAbs_add_le z t.sum
    rw [Nat.add_mul]
    omega

theorem abs_take_sum_le (l : List Int) (M : Nat) (h : ∀ z ∈ l, z.natAbs ≤ M) (k : Nat) :
    (l.take k).sum.natAbs ≤ l.length * M := by
  have h1 := abs_sum_le (l.take k) M (fun z hz => h z (List.mem_of_mem_take hz))
  have h2 : (l.take k).length ≤ l.length := by rw [List.length_take]; omega
  exact Nat.le_trans h1 (Nat.mul_le_mul_right _ h2)

theorem forall2_rep_map {f : Int → Dec} {g : Int → Int} (zs : List Int) (h : ∀ z ∈ zs, Rep (f z) (g z)) :
    List.Forall₂ Rep (zs.map f) (zs.map g) := by
  induction zs with
  | nil => exact List.Forall₂.nil
  | cons z t ih =>
    exact List.Forall₂.cons (h z List.mem_cons_self) (ih (fun w hw => h w (List.mem_cons_of_mem _ hw)))

/-- Integer items of magnitude at most `M ≥ 1` (with `n · 4M² < 10^34`), whose mean is the integer `m`
and whose sum of squared deviations is `r² · (n − 1)`: no operation of `Spec.stddev` rounds, the
result is the integer `r`. -/
theorem stddev_exact_rep (zs : List Int) (m : Int) (r M : Nat) (hn : 2 ≤ zs.length)
    (hM1 : 1 ≤ M) (hM : ∀ z ∈ zs, z.natAbs ≤ M) (hsize : zs.length * (4 * M * M) < 10 ^ 34)
    (hmean : zs.sum = m * zs.length)
    (hvar : (zs.map (fun z => (z - m) * (z - m))).sum = ((r * r : Nat) : Int) * ((zs.length : Int) - 1)) :
    Rep (Spec.stddev (zs.map Dec.ofInt)) (r : Int) := by
  have hnpos : 0 < zs.length := by omega
  -- M = 0: all items are 0, but then everything is small anyway; M ≥ 1 in the interesting case
  have hsumbound : ∀ k, (zs.take k).sum.natAbs ≤ zs.length * M := abs_take_sum_le zs M hM
  have hMle : zs.length * M ≤ zs.length * (4 * M * M) := by
    apply Nat.mul_le_mul_left
    rcases Nat.eq_zero_or_pos M with h | h
    · rw [h]
    · calc M = 1 * M := by omega
        _ ≤ 4 * M * M := Nat.mul_le_mul_right _ (by omega)
  -- |m| ≤ M
  have hmM : m.natAbs ≤ M := by
    have h1 := abs_sum_le zs M hM
    rw [hmean, Int.natAbs_mul, Int.natAbs_natCast, Nat.mul_comm] at h1
    exact Nat.le_of_mul_le_mul_left h1 hnpos
  have hdev : ∀ z ∈ zs, ((z - m) * (z - m)).natAbs ≤ 4 * M * M := by
    intro z hz
    have h1 := hM z hz
    have h2 : (z - m).natAbs ≤ 2 * M := by
      have := Int.natAbs_sub_le z m
      omega
    rw [Int.natAbs_mul]
    calc (z - m).natAbs * (z - m).natAbs ≤ (2 * M) * (2 * M) := Nat.mul_le_mul h2 h2
      _ = 4 * M * M := by ring
  have hone : 4 * M * M ≤ zs.length * (4 * M * M) := Nat.le_mul_of_pos_left _ hnpos
  unfold Spec.stddev Spec.meanR
  simp only [List.length_map]
  -- Σ xᵢ
  have hS : Rep (Spec.sumR (zs.map Dec.ofInt)) zs.sum := by
    apply sumR_rep
    · have := forall2_rep_map (f := Dec.ofInt) (g := id) zs (fun z _ => rep_ofInt z)
      simpa using this
    · intro k _
      have := hsumbound k
      omega
  have hN : Rep (Dec.ofNat zs.length) (zs.length : Int) := rep_ofNat _
  -- the mean
  have hnz : ((zs.length : Nat) : Int) ≠ 0 := by exact_mod_cast (Nat.pos_iff_ne_zero.mp hnpos)
  have hmeanR : Rep (Dec.divR (Spec.sumR (zs.map Dec.ofInt)) (Dec.ofNat zs.length)) m := by
    have := divR_rep hS hN hnz (Dvd.intro_left m hmean.symm) (by have := hsumbound zs.length; rw [List.take_length] at this; omega)
    rwa [hmean, Int.mul_ediv_cancel _ hnz] at this
  generalize Dec.divR (Spec.sumR (zs.map Dec.ofInt)) (Dec.ofNat zs.length) = mean at hmeanR
  -- the squares
  rw [List.map_map]
  have hsq : List.Forall₂ Rep (zs.map ((fun x => Spec.squareR (Dec.subR x mean)) ∘ Dec.ofInt))
      (zs.map (fun z => (z - m) * (z - m))) := by
    apply forall2_rep_map
    intro z hz
    have h1 := hM z hz
    have hd : Rep (Dec.subR (Dec.ofInt z) mean) (z - m) := by
      apply subR_rep (rep_ofInt z) hmeanR
      have := Int.natAbs_sub_le z m
      have h4 : 2 * M ≤ 4 * M * M ∨ M = 0 := by
        rcases Nat.eq_zero_or_pos M with h | h
        · right; exact h
        · left
          calc 2 * M = 2 * 1 * M := by omega
            _ ≤ 4 * M * M := Nat.mul_le_mul_right _ (Nat.mul_le_mul (by omega) h)
      rcases h4 with h4 | h4
      · omega
      · rw [h4] at h1 hmM; omega
    show Rep (Dec.mulR _ _) _
    apply mulR_rep hd hd
    have := hdev z hz
    omega
  have hV : Rep (Spec.sumR (zs.map ((fun x => Spec.squareR (Dec.subR x mean)) ∘ Dec.ofInt)))
      (zs.map (fun z => (z - m) * (z - m))).sum := by
    apply sumR_rep _ _ hsq
    intro k _
    have h1 := abs_take_sum_le (zs.map (fun z => (z - m) * (z - m))) (4 * M * M)
      (by intro w hw; obtain ⟨z, hz, rfl⟩ := List.mem_map.mp hw; exact hdev z hz) k
    rw [List.length_map] at h1
    omega
  -- n − 1
  have hD : Rep (Dec.subR (Dec.ofNat zs.length) Dec.one) ((zs.length : Int) - 1) := by
    apply subR_rep hN rep_one
    have : zs.length < 10 ^ 34 := by
      have h : 0 < M := hM1
      · have : zs.length * 1 ≤ zs.length * (4 * M * M) := Nat.mul_le_mul_left _ (Nat.mul_pos (by omega) h)
        omega
    omega
  have hD0 : ((zs.length : Int) - 1) ≠ 0 := by omega
  have hQ : Rep (Dec.divR (Spec.sumR (zs.map ((fun x => Spec.squareR (Dec.subR x mean)) ∘ Dec.ofInt)))
      (Dec.subR (Dec.ofNat zs.length) Dec.one)) ((r * r : Nat) : Int) := by
    have hVb : (zs.map (fun z => (z - m) * (z - m))).sum.natAbs < 10 ^ 34 := by
      have h1 := abs_sum_le (zs.map (fun z => (z - m) * (z - m))) (4 * M * M)
        (by intro w hw; obtain ⟨z, hz, rfl⟩ := List.mem_map.mp hw; exact hdev z hz)
      rw [List.length_map] at h1
      omega
    have := divR_rep hV hD hD0 (Dvd.intro_left _ hvar.symm) hVb
    rwa [hvar, Int.mul_ediv_cancel _ hD0] at this
  apply sqrtR_rep hQ
  -- r² ≤ Σ (xᵢ − m)² < 10^34
  have h1 := abs_sum_le (zs.map (fun z => (z - m) * (z - m))) (4 * M * M)
    (by intro w hw; obtain ⟨z, hz, rfl⟩ := List.mem_map.mp hw; exact hdev z hz)
  rw [List.length_map, hvar, Int.natAbs_mul, Int.natAbs_natCast] at h1
  have h2 : 1 ≤ ((zs.length : Int) - 1).natAbs := by omega
  have h3 : r * r ≤ r * r * ((zs.length : Int) - 1).natAbs := Nat.le_mul_of_pos_right _ h2
  omega

end Bif
end Dmn
