import Dmn.Model.StringLit

/-!
# The lexer model reads every spelling of every string as that string

`stringLoop_pieces`: by induction on the list of pieces, for any position of the literal in
any input.  `consumeString_literal` / `consumeString_quote` are the corollaries used by
`Props/C06.lean`.
-/

namespace Dmn.StringLit
open Dmn.Lexer

/-! ## Reading the input through `drop` -/

theorem get_of_drop {inp : List Nat} {pos : Nat} {c : Nat} {t : List Nat} (h : inp.drop pos = c :: t) :
    inp[pos]? = some c := by
  have := congrArg (fun l => l[0]?) h
  simpa [List.getElem?_drop] using this

theorem drop_succ_of_drop {inp : List Nat} {pos : Nat} {c : Nat} {t : List Nat} (h : inp.drop pos = c :: t) :
    inp.drop (pos + 1) = t := by
  have : inp.drop (pos + 1) = (inp.drop pos).drop 1 := by rw [List.drop_drop]
  rw [this, h]; rfl

theorem drop_add_of_drop {inp : List Nat} {pos : Nat} : ∀ (a t : List Nat), inp.drop pos = a ++ t →
    inp.drop (pos + a.length) = t := by
  intro a t h
  have : inp.drop (pos + a.length) = (inp.drop pos).drop a.length := by rw [List.drop_drop]
  rw [this, h, List.drop_left]

/-! ## Hexadecimal digits -/

theorem hexChar_isHex (u : Bool) (d : Nat) (h : d < 16) : isHexDigit (hexChar u d) = true := by
  unfold hexChar isHexDigit
  split
  · simp; omega
  · cases u <;> simp <;> omega

theorem hexChar_val (u : Bool) (d : Nat) (h : d < 16) : hexVal (hexChar u d) = d := by
  unfold hexChar hexVal
  split
  · rw [if_pos (by simp; omega)]; omega
  · cases u
    · simp only [Bool.false_eq_true, if_false]
      rw [if_neg (by simp; omega), if_pos (by simp; omega)]; omega
    · simp only [if_true]
      rw [if_neg (by simp; omega), if_neg (by simp; omega)]; omega

/-- `hexDigits` reads the `k` digits of `hexText` and accumulates their value. -/
theorem hexDigits_hexText (inp : List Nat) : ∀ (k v mask i pos acc : Nat) (t : List Nat),
    inp.drop pos = hexText k v mask i ++ t →
    hexDigits inp k pos acc = .ok (acc * 16 ^ k + v % 16 ^ k, pos + k) := by
  intro k
  induction k with
  | zero => intro v mask i pos acc t _; simp [hexDigits, Nat.mod_one]
  | succ k ih =>
    intro v mask i pos acc t h
    simp only [hexText, List.cons_append] at h
    rw [hexDigits, get_of_drop h]
    have hd : v / 16 ^ k % 16 < 16 := Nat.mod_lt _ (by omega)
    simp only [hexChar_isHex _ _ hd, if_true, hexChar_val _ _ hd]
    rw [ih v mask (i + 1) (pos + 1) _ t (drop_succ_of_drop h)]
    congr 2
    · have e1 : v % 16 ^ (k + 1) = v % 16 ^ k + 16 ^ k * (v / 16 ^ k % 16) := by
        rw [Nat.pow_succ, Nat.mod_mul]
      rw [e1, Nat.pow_succ]
      generalize 16 ^ k = P
      generalize v / P % 16 = D
      generalize v % P = M
      rw [Nat.add_mul, Nat.mul_assoc, Nat.mul_comm 16 P, Nat.mul_comm D P]
      omega
    · omega

theorem hexText_length : ∀ (k v mask i : Nat), (hexText k v mask i).length = k := by
  intro k; induction k with
  | zero => intros; rfl
  | succ k ih => intro v mask i; simp [hexText, ih]

/-- `\uXXXX` spelling `v < 65536`. -/
theorem literal_u4 (inp : List Nat) (pos v mask i : Nat) (t : List Nat) (hv : v < 65536)
    (h : inp.drop pos = 92 :: 117 :: hexText 4 v mask i ++ t) :
    consumeUnicodeLiteral inp pos = .ok (v, pos + 6) := by
  unfold consumeUnicodeLiteral
  have h1 := drop_succ_of_drop h
  rw [get_of_drop h, get_of_drop h1]
  simp only [bne_self_eq_false, Bool.false_eq_true, if_false]
  rw [if_neg (by decide), if_pos (by decide)]
  rw [hexDigits_hexText inp 4 v mask i (pos + 2) 0 t (drop_succ_of_drop h1)]
  have : v % 16 ^ 4 = v := Nat.mod_eq_of_lt (by omega)
  simp [this]

/-- `\UXXXXXX` spelling `v < 16777216`. -/
theorem literal_u6 (inp : List Nat) (pos v mask i : Nat) (t : List Nat) (hv : v < 16777216)
    (h : inp.drop pos = 92 :: 85 :: hexText 6 v mask i ++ t) :
    consumeUnicodeLiteral inp pos = .ok (v, pos + 8) := by
  unfold consumeUnicodeLiteral
  have h1 := drop_succ_of_drop h
  rw [get_of_drop h, get_of_drop h1]
  simp only [bne_self_eq_false, Bool.false_eq_true, if_false]
  rw [if_pos (by decide)]
  rw [hexDigits_hexText inp 6 v mask i (pos + 2) 0 t (drop_succ_of_drop h1)]
  have : v % 16 ^ 6 = v := Nat.mod_eq_of_lt (by omega)
  simp [this]

/-! ## Single rounds of the loop -/

/-- A character other than `\`, `"` and vertical space is pushed. -/
theorem stringLoop_push (inp : List Nat) (fuel pos : Nat) (acc : List Nat) (c : Nat) (h0 : inp[pos]? = some c)
    (h92 : c ≠ 92) (h34 : c ≠ 34) (hv : isVerticalSpace c = false) :
    stringLoop inp (fuel + 1) pos acc = stringLoop inp fuel (pos + 1) (acc ++ [c]) := by
  rw [stringLoop, h0]
  simp [h92, h34, hv]

/-- A backslash before a character that begins no escape sequence is pushed. -/
theorem stringLoop_backslash (inp : List Nat) (fuel pos : Nat) (acc : List Nat) (c : Nat)
    (h0 : inp[pos]? = some 92) (h1 : inp[pos + 1]? = some c)
    (n39 : c ≠ 39) (n34 : c ≠ 34) (n92 : c ≠ 92) (n110 : c ≠ 110) (n114 : c ≠ 114) (n116 : c ≠ 116)
    (n117 : c ≠ 117) (n85 : c ≠ 85) :
    stringLoop inp (fuel + 1) pos acc = stringLoop inp fuel (pos + 1) (acc ++ [92]) := by
  have v92 : isVerticalSpace 92 = false := by decide
  rw [stringLoop, h0]
  simp [h1, n39, n34, n92, n110, n114, n116, n117, n85, v92]

/-! ## One piece -/

/-- Rounds of the loop a piece takes: one, except `\c` with an ordinary `c` (the backslash and
`c` are pushed in two rounds). -/
def Piece.rounds : Piece → Nat
  | .bs _ => 2
  | _ => 1

theorem rounds_le_text (p : Piece) : p.rounds ≤ p.text.length := by
  cases p <;> simp [Piece.rounds, Piece.text]

/-- The effect of the loop on one allowed piece: after `p.text` the loop continues with the
accumulator extended by `p.den`. -/
theorem stringLoop_piece (inp : List Nat) (p : Piece) (hp : p.ok = true) (pos : Nat) (acc t : List Nat)
    (h : inp.drop pos = p.text ++ t) (fuel : Nat) :
    stringLoop inp (fuel + p.rounds) pos acc = stringLoop inp fuel (pos + p.text.length) (acc ++ p.den) := by
  cases p with
  | raw c =>
    simp only [Piece.ok, Bool.and_eq_true, bne_iff_ne, ne_eq, Bool.not_eq_true'] at hp
    obtain ⟨⟨h34, h92⟩, hv⟩ := hp
    simp only [Piece.text, List.cons_append, List.nil_append] at h
    simp only [Piece.text, Piece.den, Piece.rounds, List.length_singleton]
    exact stringLoop_push inp fuel pos acc c (get_of_drop h) h92 h34 hv
  | simple l =>
    simp only [Piece.ok, isSimpleLetter] at hp
    simp only [Piece.text, List.cons_append, List.nil_append] at h
    have h1 := drop_succ_of_drop h
    simp only [Piece.text, Piece.den, Piece.rounds, List.length_cons, List.length_nil]
    rw [stringLoop, get_of_drop h, get_of_drop h1]
    have hl : l = 39 ∨ l = 34 ∨ l = 92 ∨ l = 110 ∨ l = 114 ∨ l = 116 := by
      simpa [or_assoc] using hp
    rcases hl with rfl | rfl | rfl | rfl | rfl | rfl <;> simp [simpleDen]
  | bs c =>
    simp only [Piece.ok, isSimpleLetter, Bool.and_eq_true, bne_iff_ne, ne_eq, Bool.not_eq_true'] at hp
    obtain ⟨⟨⟨hs, hu⟩, hU⟩, hv⟩ := hp
    have hs' : c ≠ 39 ∧ c ≠ 34 ∧ c ≠ 92 ∧ c ≠ 110 ∧ c ≠ 114 ∧ c ≠ 116 := by
      simpa [not_or, and_assoc] using hs
    obtain ⟨n39, n34, n92, n110, n114, n116⟩ := hs'
    simp only [Piece.text, List.cons_append, List.nil_append] at h
    have h1 := drop_succ_of_drop h
    simp only [Piece.text, Piece.den, Piece.rounds, List.length_cons, List.length_nil]
    show stringLoop inp (fuel + 1 + 1) pos acc = _
    rw [stringLoop_backslash inp (fuel + 1) pos acc c (get_of_drop h) (get_of_drop h1) n39 n34 n92 n110 n114 n116 hu hU]
    rw [stringLoop_push inp fuel (pos + 1) _ c (get_of_drop h1) n92 n34 hv]
    simp [List.append_assoc]
  | u4 c m =>
    simp only [Piece.ok, Bool.and_eq_true, decide_eq_true_eq] at hp
    obtain ⟨hlt, hsc⟩ := hp
    simp only [Piece.text, List.cons_append] at h
    have h1 := drop_succ_of_drop h
    simp only [Piece.text, Piece.den, Piece.rounds, List.length_cons, hexText_length]
    rw [stringLoop, get_of_drop h, get_of_drop h1]
    have hlit := literal_u4 inp pos c m 0 t (by omega) h
    have hrange : (decide (c ≤ 0xD7FF) || (decide (0xE000 ≤ c) && decide (c ≤ 0xFFFF)) ||
        (decide (0x10000 ≤ c) && decide (c ≤ 0x10FFFF))) = true := by
      simp [isScalar] at hsc; simp; omega
    simp [consumeUnicode, hlit, hrange]
  | u6 c m =>
    simp only [Piece.ok] at hp
    simp only [Piece.text, List.cons_append] at h
    have h1 := drop_succ_of_drop h
    simp only [Piece.text, Piece.den, Piece.rounds, List.length_cons, hexText_length]
    rw [stringLoop, get_of_drop h, get_of_drop h1]
    have hc : c < 16777216 := by simp [isScalar] at hp; omega
    have hlit := literal_u6 inp pos c m 0 t hc h
    have hrange : (decide (c ≤ 0xD7FF) || (decide (0xE000 ≤ c) && decide (c ≤ 0xFFFF)) ||
        (decide (0x10000 ≤ c) && decide (c ≤ 0x10FFFF))) = true := by
      simp [isScalar] at hp; simp; omega
    simp [consumeUnicode, hlit, hrange]
  | sur c m =>
    simp only [Piece.ok, Bool.and_eq_true, decide_eq_true_eq] at hp
    obtain ⟨hlo, hhi⟩ := hp
    simp only [Piece.text, List.cons_append, List.append_assoc] at h
    have h1 := drop_succ_of_drop h
    simp only [Piece.text, Piece.den, Piece.rounds, List.length_cons, List.length_append, hexText_length]
    rw [stringLoop, get_of_drop h, get_of_drop h1]
    have hH : hiSur c < 65536 := by simp only [hiSur]; omega
    have hL : loSur c < 65536 := by simp only [loSur]; omega
    have hlit1 := literal_u4 inp pos (hiSur c) m 0 _ hH h
    have h6 : inp.drop (pos + 6) = 92 :: 117 :: hexText 4 (loSur c) m 4 ++ t := by
      have := drop_add_of_drop (inp := inp) (pos := pos) (92 :: 117 :: hexText 4 (hiSur c) m 0) _ (by simpa using h)
      simpa [hexText_length] using this
    have hlit2 := literal_u4 inp (pos + 6) (loSur c) m 4 t hL h6
    have a1 : ¬ (hiSur c ≤ 0xD7FF) := by simp only [hiSur]; omega
    have a2 : ¬ (0xE000 ≤ hiSur c) := by simp only [hiSur]; omega
    have a3 : ¬ (0x10000 ≤ hiSur c) := by simp only [hiSur]; omega
    have a4 : 0xD800 ≤ hiSur c := by simp only [hiSur]; omega
    have a5 : hiSur c ≤ 0xDBFF := by simp only [hiSur]; omega
    have a6 : 0xDC00 ≤ loSur c := by simp only [loSur]; omega
    have a7 : loSur c ≤ 0xDFFF := by simp only [loSur]; omega
    have cp : 0x10000 + (hiSur c - 0xD800) * 0x400 + (loSur c - 0xDC00) = c := by
      simp only [hiSur, loSur]; omega
    simp [consumeUnicode, hlit1, hlit2, a1, a2, a3, a4, a5, a6, a7, cp]

/-! ## The whole body -/

def roundsAll : List Piece → Nat
  | [] => 0
  | p :: ps => p.rounds + roundsAll ps

theorem roundsAll_le : ∀ ps : List Piece, roundsAll ps ≤ (render ps).length := by
  intro ps; induction ps with
  | nil => simp [roundsAll, render]
  | cons p ps ih =>
    simp only [roundsAll, render, List.length_append]
    have := rounds_le_text p; omega

theorem stringLoop_pieces (inp : List Nat) : ∀ (ps : List Piece) (fuel pos : Nat) (acc rest : List Nat),
    ps.all Piece.ok = true → inp.drop pos = render ps ++ 34 :: rest →
    stringLoop inp (fuel + roundsAll ps + 1) pos acc =
      .ok (⟨.string, .string (acc ++ denote ps)⟩, pos + (render ps).length + 1) := by
  intro ps
  induction ps with
  | nil =>
    intro fuel pos acc rest _ h
    simp only [render, List.nil_append] at h
    simp only [roundsAll, render, denote, List.length_nil, List.append_nil, Nat.add_zero]
    rw [stringLoop, get_of_drop h]
    simp
  | cons p ps ih =>
    intro fuel pos acc rest hall h
    simp only [List.all_cons, Bool.and_eq_true] at hall
    simp only [render, List.append_assoc] at h
    have e : fuel + roundsAll (p :: ps) + 1 = (fuel + roundsAll ps + 1) + p.rounds := by
      simp only [roundsAll]; omega
    rw [e, stringLoop_piece inp p hall.1 pos acc _ h]
    rw [ih fuel (pos + p.text.length) (acc ++ p.den) rest hall.2 (drop_add_of_drop _ _ h)]
    simp only [render, denote, List.length_append, List.append_assoc]
    congr 2
    omega

/-- The lexer model reads the literal made of the pieces `ps` — wherever it stands, whatever
follows — as the string `denote ps`, and stops just after the closing quote. -/
theorem consumeString_literal (pre rest : List Nat) (ps : List Piece) (h : ps.all Piece.ok = true) :
    consumeString (pre ++ literal ps ++ rest) pre.length =
      .ok (⟨.string, .string (denote ps)⟩, pre.length + (literal ps).length) := by
  unfold consumeString
  have hd : (pre ++ literal ps ++ rest).drop (pre.length + 1) = render ps ++ 34 :: rest := by
    simp [literal, List.append_assoc, List.drop_append]
  have hr := roundsAll_le ps
  have hlen : (pre ++ literal ps ++ rest).length - pre.length + 1 =
      ((render ps).length - roundsAll ps + rest.length + 2) + roundsAll ps + 1 := by
    simp only [literal, List.length_append, List.length_cons, List.length_nil]; omega
  rw [hlen, stringLoop_pieces _ ps _ (pre.length + 1) [] rest h hd]
  simp only [literal, List.nil_append, List.length_cons, List.length_append, List.length_nil]
  congr 2
  omega

/-! ## The canonical spelling -/

theorem quotePiece_ok (c : Nat) : (quotePiece c).ok = true := by
  unfold quotePiece
  split
  · rename_i h
    simp only [Bool.or_eq_true, beq_iff_eq] at h
    rcases h with rfl | rfl <;> decide
  · split
    · decide
    · split
      · decide
      · split
        · rename_i h
          simp only [Bool.or_eq_true, beq_iff_eq] at h
          rcases h with rfl | rfl <;> decide
        · rename_i h1 h2 h3 h4
          simp only [Bool.or_eq_true, beq_iff_eq, not_or] at h1 h4
          simp only [beq_iff_eq] at h2 h3
          simp only [Piece.ok, isVerticalSpace, Bool.and_eq_true, bne_iff_ne, ne_eq, Bool.not_eq_true',
            Bool.and_eq_false_iff, decide_eq_false_iff_not]
          refine ⟨⟨h1.1, h1.2⟩, ?_⟩
          omega

theorem quotePiece_den (c : Nat) : (quotePiece c).den = [c] := by
  unfold quotePiece
  split
  · rename_i h
    simp only [Bool.or_eq_true, beq_iff_eq] at h
    rcases h with rfl | rfl <;> rfl
  · split
    · rename_i h; simp only [beq_iff_eq] at h; subst h; rfl
    · split
      · rename_i h; simp only [beq_iff_eq] at h; subst h; rfl
      · split <;> rfl

theorem quote_ok (s : List Nat) : (quote s).all Piece.ok = true := by
  simp [quote, List.all_map, quotePiece_ok]

theorem denote_quote (s : List Nat) : denote (quote s) = s := by
  induction s with
  | nil => rfl
  | cons c s ih =>
    show (quotePiece c).den ++ denote (quote s) = c :: s
    rw [quotePiece_den, ih]; rfl

/-! ## The token -/

theorem skipBlanks_at_quote (inp : List Nat) (pos : Nat) (t : List Nat) (h : inp.drop pos = 34 :: t) :
    skipBlanks inp pos = pos := by
  unfold skipBlanks
  have hw : consumeWhitespace inp pos = pos := by
    simp [consumeWhitespace, h, countWhile, isWhitespace, isVerticalSpace]
  have hc : consumeComment inp pos = pos := by
    simp [consumeComment, get_of_drop h]
  show skipLoop inp (inp.length - pos + 1) pos = pos
  rw [skipLoop, hw, hc]
  simp

theorem bufCell_at_quote (inp : List Nat) (pos : Nat) (t : List Nat) (h : inp.drop pos = 34 :: t) :
    bufCell inp pos 0 = 34 := by
  have h0 : inp[pos + 0]? = some 34 := by simpa using get_of_drop h
  have hq : inp[pos]? = some 34 := get_of_drop h
  simp [bufCell, h0, isWhitespace, isVerticalSpace, isCommentStart, hq]

/-- `read_next_token` with the cursor on the opening quote of a literal: the string token, the
cursor just after the closing quote, the flags untouched. -/
theorem readNextToken_literal (l : Lx) (pre rest : List Nat) (ps : List Piece)
    (hinp : l.input = pre ++ literal ps ++ rest) (hpos : l.pos = pre.length) (h : ps.all Piece.ok = true) :
    readNextToken l = .ok (⟨.string, .string (denote ps)⟩, { l with pos := pre.length + (literal ps).length }) := by
  have hd : l.input.drop l.pos = 34 :: (render ps ++ 34 :: rest) := by
    rw [hinp, hpos]; simp [literal, List.append_assoc]
  have hskip := skipBlanks_at_quote l.input l.pos _ hd
  have hcell := bufCell_at_quote l.input l.pos _ hd
  have hbuf : readBuf l.input l.pos = 34 :: ((List.range 11).map (fun i => bufCell l.input l.pos (i + 1))) := by
    unfold readBuf
    have : List.range 12 = 0 :: (List.range 11).map (· + 1) := by decide
    rw [this]
    simp [hcell, List.map_map, Function.comp_def]
  have hcs := consumeString_literal pre rest ps h
  rw [← hinp, ← hpos] at hcs
  unfold readNextToken
  simp only [hskip, hbuf, kw, startsWith, List.getD_cons_zero]
  rw [hcs]
  simp [hpos]

end Dmn.StringLit
