import Dmn.Lemmas.CanvasVertex

/-!
# The top border of the body and the information item box in the canvas of a drawn sheet
-/

namespace Dmn.Recog
open Scan (ok error)

/-- what the information item box does to a character of the top border at position `x` -/
def topFix (name : Option Text) (boxRight x : Nat) (ch : Char) : Char :=
  match name with
  | none => ch
  | some _ =>
    if x = boxRight then addUpArm (if x = 0 then '├' else ch) else if x = 0 then '├' else ch

theorem firstLine_getD (s : Sheet) (name : Option Text) (boxRight x : Nat)
    (hx : x < s.xPos s.ncols + 1) :
    (firstLine s name boxRight).getD x charOuter =
      topFix name boxRight x ((s.borderLine 0).getD x charOuter) := by
  have hlen := s.borderLine_length 0
  cases name with
  | none => rfl
  | some nm =>
    simp only [firstLine, topFix, List.getD_eq_getElem?_getD, List.getElem?_modify,
      List.getElem?_set]
    have hx' : x < (s.borderLine 0).length := by omega
    rw [List.getElem?_eq_getElem hx']
    by_cases h0 : x = 0
    · subst h0
      by_cases hb : boxRight = 0
      · subst hb; simp [hx']
      · have hb' : ¬ 0 = boxRight := fun e => hb e.symm
        simp [hx', hb, hb']
    · have h0' : ¬ 0 = x := fun e => h0 e.symm
      by_cases hb : boxRight = x
      · subst hb; simp [h0, h0']
      · have hb' : ¬ x = boxRight := fun e => hb e.symm
        simp [h0, h0', hb, hb']

theorem addUpArm_eq_of (c t : Char) (ht : t ≠ '┴' ∧ t ≠ '┼' ∧ t ≠ '┤') (h : addUpArm c = t) : c = t := by
  unfold addUpArm at h
  split at h
  · exact absurd h.symm ht.1
  · split at h
    · exact absurd h.symm ht.2.1
    · split at h
      · exact absurd h.symm ht.2.2
      · exact h

/-- a character of the top border that the box does not produce was there before -/
theorem topFix_eq_of (name : Option Text) (boxRight x : Nat) (c t : Char)
    (ht : t ≠ '┴' ∧ t ≠ '┼' ∧ t ≠ '┤' ∧ t ≠ '├') (h : topFix name boxRight x c = t) : c = t := by
  cases name with
  | none => exact h
  | some nm =>
    simp only [topFix] at h
    split at h
    · have := addUpArm_eq_of _ t ⟨ht.1, ht.2.1, ht.2.2.1⟩ h
      split at this
      · exact absurd this.symm ht.2.2.2
      · exact this
    · split at h
      · exact absurd h.symm ht.2.2.2
      · exact h

section
variable (s : Sheet) (name : Option Text) (boxRight : Nat)

/-- the text layer of the canvas of the drawn sheet -/
abbrev T (y x : Nat) : Char := chOf (sheetCanvas s name boxRight) .text y x

/-- **the top border of the body**: the vertex / segment of the rendered sheet, changed by the box -/
theorem top_vertex (hf : SheetFits s name boxRight) (bc : Nat) (hbc : bc ≤ s.ncols) :
    T s name boxRight (boxLines name) (s.xPos bc) = topFix name boxRight (s.xPos bc) (s.vch 0 bc) := by
  have hx : s.xPos bc < s.xPos s.ncols + 1 := by have := xPos_le s hbc; omega
  show chOf _ _ _ _ = _
  rw [sheetCanvas_first s name boxRight hf _ hx, firstLine_getD s name boxRight _ hx]
  congr 1
  rw [List.getD_eq_getElem?_getD, s.borderLine_vertex 0 bc hbc, s.vertex_eq]
  rfl

theorem top_seg (hf : SheetFits s name boxRight) (c i : Nat) (hc : c < s.ncols) (hi : i < s.w c) :
    T s name boxRight (boxLines name) (s.xPos c + (1 + i)) =
      topFix name boxRight (s.xPos c + (1 + i)) (if s.hDbl 0 then '═' else '─') := by
  have hx : s.xPos c + (1 + i) < s.xPos s.ncols + 1 := by
    have := xPos_le s (show c + 1 ≤ s.ncols from hc)
    have := xPos_lt s (show c < c + 1 by omega)
    omega
  show chOf _ _ _ _ = _
  rw [sheetCanvas_first s name boxRight hf _ hx, firstLine_getD s name boxRight _ hx]
  congr 1
  rw [List.getD_eq_getElem?_getD, s.borderLine_seg 0 c i hc hi]
  have : s.hSeg 0 c = true := by simp [Sheet.hSeg]
  rw [if_pos this]
  rfl

/-! ## The information item box -/

theorem box_top (hf : SheetFits s name boxRight) (nm : Text) (hn : name = some nm) (x : Nat)
    (hx : x < s.xPos s.ncols + 1) :
    T s name boxRight 0 x =
      (if x = 0 then '┌' else if x < boxRight then '─' else if x = boxRight then '┐' else charOuter) := by
  subst hn
  obtain ⟨_, h2, h3, _⟩ := hf.box nm rfl
  show chOf _ _ _ _ = _
  unfold sheetCanvas
  rw [canvasOf_text _ _ _ (by rw [drawSheet_length]; simp [boxLines])
    (by rw [maxLen_drawSheet s _ boxRight hf]; exact hx)]
  unfold lineCh
  rw [List.getD_eq_getElem?_getD (l := drawSheet s (some nm) boxRight), drawSheet_top]
  simp only [Option.getD_some, List.getD_eq_getElem?_getD]
  by_cases h0 : x = 0
  · subst h0; simp
  · obtain ⟨x', rfl⟩ : ∃ x', x = x' + 1 := ⟨x - 1, by omega⟩
    rw [List.getElem?_cons_succ, if_neg h0]
    by_cases h1 : x' + 1 < boxRight
    · rw [List.getElem?_append_left (by simp; omega), if_pos h1]
      rw [List.getElem?_replicate, if_pos (by omega)]
      rfl
    · rw [List.getElem?_append_right (by simp; omega), if_neg h1]
      by_cases h2 : x' + 1 = boxRight
      · rw [if_pos h2]
        have : x' - (List.replicate (boxRight - 1) '─').length = 0 := by simp; omega
        rw [this]; rfl
      · rw [if_neg h2]
        have : x' - (List.replicate (boxRight - 1) '─').length = (x' - (boxRight - 1) - 1) + 1 := by
          simp; omega
        rw [this]; rfl

theorem box_text (hf : SheetFits s name boxRight) (nm : Text) (hn : name = some nm) (i x : Nat)
    (hi : i < (splitLines nm).length) (hx : x < s.xPos s.ncols + 1) :
    T s name boxRight (1 + i) x =
      (if x = 0 then '│'
       else if x < boxRight then (padTo (boxRight - 1) ((splitLines nm).getD i [])).getD (x - 1) ' '
       else if x = boxRight then '│' else charOuter) := by
  subst hn
  obtain ⟨_, h2, h3, _⟩ := hf.box nm rfl
  show chOf _ _ _ _ = _
  unfold sheetCanvas
  rw [canvasOf_text _ _ _ (by rw [drawSheet_length]; simp [boxLines]; omega)
    (by rw [maxLen_drawSheet s _ boxRight hf]; exact hx)]
  unfold lineCh
  rw [List.getD_eq_getElem?_getD (l := drawSheet s (some nm) boxRight), drawSheet_boxText s nm boxRight i hi]
  have hpl := padTo_length (boxRight - 1) ((splitLines nm).getD i [])
  generalize padTo (boxRight - 1) ((splitLines nm).getD i []) = pl at hpl ⊢
  simp only [Option.getD_some, List.getD_eq_getElem?_getD]
  by_cases h0 : x = 0
  · subst h0; simp
  · obtain ⟨x', rfl⟩ : ∃ x', x = x' + 1 := ⟨x - 1, by omega⟩
    rw [List.getElem?_cons_succ, if_neg h0]
    by_cases h1 : x' + 1 < boxRight
    · rw [List.getElem?_append_left (by rw [hpl]; omega), if_pos h1]
      rw [Nat.add_sub_cancel, List.getElem?_eq_getElem (by rw [hpl]; omega)]
      rfl
    · rw [List.getElem?_append_right (by rw [hpl]; omega), if_neg h1, hpl]
      by_cases h2 : x' + 1 = boxRight
      · rw [if_pos h2]
        have : x' - (boxRight - 1) = 0 := by omega
        rw [this]; rfl
      · rw [if_neg h2]
        have : x' - (boxRight - 1) = (x' - (boxRight - 1) - 1) + 1 := by omega
        rw [this]; rfl

/-- the characters of the box's text lines are not box-drawing characters -/
theorem box_text_plain (hf : SheetFits s name boxRight) (nm : Text) (hn : name = some nm) (i x : Nat)
    (hi : i < (splitLines nm).length) (hx0 : 0 < x) (hx : x < boxRight) :
    plain ((padTo (boxRight - 1) ((splitLines nm).getD i [])).getD (x - 1) ' ') = true := by
  obtain ⟨h1, _, _, _⟩ := hf.box nm hn
  have hpl := padTo_length (boxRight - 1) ((splitLines nm).getD i [])
  rw [List.getD_eq_getElem?_getD, List.getElem?_eq_getElem (by rw [hpl]; omega)]
  simp only [Option.getD_some]
  have hm := List.getElem_mem (l := padTo (boxRight - 1) ((splitLines nm).getD i []))
    (show x - 1 < _ by rw [hpl]; omega)
  generalize (padTo (boxRight - 1) ((splitLines nm).getD i []))[x - 1] = ch at hm
  unfold padTo at hm
  rcases List.mem_append.mp hm with hm | hm
  · have := List.mem_of_mem_take hm
    rw [List.getD_eq_getElem?_getD, List.getElem?_eq_getElem hi] at this
    exact h1 ch (splitLines_mem nm _ (List.getElem_mem _) ch this)
  · rw [List.eq_of_mem_replicate hm]; decide

end

end Dmn.Recog
