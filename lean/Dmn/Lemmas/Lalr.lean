import Dmn.Model.LalrDriver

/-!
# Index safety of the LALR driver loop from the linear table conditions
-/

namespace Dmn.Lalr

theorem idx_some_of_lt {t : List Int} {i : Int} (h0 : 0 ≤ i) (h1 : i < t.length) :
    ∃ v, idx t i = some v := by
  unfold idx
  have : ¬ i < 0 := by omega
  rw [if_neg this]
  have hlt : i.toNat < t.length := by omega
  exact ⟨t[i.toNat], by simp [List.getElem?_eq_getElem hlt]⟩

theorem idx_mem {t : List Int} {i v : Int} (h : idx t i = some v) : v ∈ t := by
  unfold idx at h
  split at h
  · cases h
  · exact List.mem_of_getElem? h

theorem idx_nonneg {t : List Int} {i v : Int} (h : idx t i = some v) : 0 ≤ i ∧ i < t.length := by
  unfold idx at h
  split at h
  · cases h
  · rename_i hi
    have := (List.getElem?_eq_some_iff.mp h).1
    omega

theorem all_idx {t : List Int} {p : Int → Bool} (h : t.all p = true) {i v : Int}
    (hi : idx t i = some v) : p v = true :=
  List.all_eq_true.mp h v (idx_mem hi)

theorem allIdx2_spec (p : Nat → Int → Int → Bool) :
    ∀ (ts cs : List Int) (i0 : Nat), allIdx2 p i0 ts cs = true →
      ∀ (k : Nat) (t c : Int), ts[k]? = some t → cs[k]? = some c → p (i0 + k) t c = true := by
  intro ts
  induction ts with
  | nil => intro cs i0 _ k t c ht; simp at ht
  | cons t0 ts ih =>
    intro cs i0 h k t c ht hc
    cases cs with
    | nil => simp at hc
    | cons c0 cs =>
      simp only [allIdx2, Bool.and_eq_true] at h
      cases k with
      | zero =>
        simp at ht hc
        subst ht; subst hc
        simpa using h.1
      | succ k =>
        simp at ht hc
        have := ih cs (i0 + 1) h.2 k t c ht hc
        have e : i0 + 1 + k = i0 + (k + 1) := by omega
        rw [e] at this
        exact this

/-- The content of `tablesOk` as propositions. -/
structure TablesOK (T : Tables) : Prop where
  lenDefAct : T.defAct.length = T.pact.length
  lenCheck : T.check.length = T.table.length
  lenLast : T.last + 1 = (T.table.length : Int)
  lenR2 : T.r2.length = T.r1.length
  lenDefGoto : T.defGoto.length = T.pGoto.length
  nStatesSmall : nStates T ≤ 16383
  nTokens0 : 0 ≤ T.nTokens
  nTokensSmall : T.nTokens ≤ 16383
  pact : ∀ i v, idx T.pact i = some v → -16384 ≤ v ∧ v ≤ 16383
  pGoto : ∀ i v, idx T.pGoto i = some v → -16384 ≤ v ∧ v ≤ 16383
  entry : ∀ i t c, idx T.table i = some t → idx T.check i = some c → entryOk T i.toNat t c = true
  defAct : ∀ i v, idx T.defAct i = some v → 0 ≤ v ∧ v < nRules T
  defGoto : ∀ i v, idx T.defGoto i = some v → 0 ≤ v ∧ v < nStates T
  r1 : ∀ i v, 1 ≤ i → idx T.r1 i = some v → T.nTokens ≤ v ∧ v - T.nTokens < nNterms T
  translate : ∀ i v, idx T.translate i = some v → 0 ≤ v ∧ v < T.nTokens
  ttEof : T.ttEof = 0
  skEof : T.skEof = 0
  ttEmpty : T.ttEmpty < 0
  skUndef : 0 ≤ T.skUndef ∧ T.skUndef < T.nTokens
  ttError : 0 ≤ T.ttError
  final : 0 ≤ T.final
  ttUndef : T.ttUndef < (T.translate.length : Int)

theorem tablesOK_of (T : Tables) (h : tablesOk T = true) : TablesOK T := by
  simp only [tablesOk, Bool.and_eq_true, decide_eq_true_eq] at h
  obtain ⟨⟨⟨⟨⟨⟨⟨⟨⟨⟨⟨⟨⟨⟨⟨⟨⟨⟨⟨⟨⟨⟨h1, h2⟩, h3⟩, h4⟩, h5⟩, h6⟩, h7⟩, h8⟩, h9⟩, h10⟩, h11⟩, h12⟩, h13⟩, h14⟩, h15⟩,
    h16⟩, h17⟩, h18⟩, h19⟩, h20⟩, h21⟩, h22⟩, h23⟩ := h
  refine { lenDefAct := h1, lenCheck := h2, lenLast := h3, lenR2 := h4, lenDefGoto := h5,
           nStatesSmall := h6, nTokens0 := h7, nTokensSmall := h8, ttEof := h16, skEof := h17,
           ttEmpty := h18, skUndef := ⟨h19, h20⟩, ttError := h21, final := h22, ttUndef := h23,
           pact := ?_, pGoto := ?_, entry := ?_, defAct := ?_, defGoto := ?_, r1 := ?_, translate := ?_ }
  · intro i v hi
    have := all_idx h9 hi
    simpa using this
  · intro i v hi
    have := all_idx h10 hi
    simpa using this
  · intro i t c ht hc
    have hi := idx_nonneg ht
    unfold idx at ht hc
    have hn : ¬ i < 0 := by omega
    rw [if_neg hn] at ht hc
    have := allIdx2_spec (entryOk T) T.table T.check 0 h11 i.toNat t c ht hc
    simpa using this
  · intro i v hi
    have := all_idx h12 hi
    simpa using this
  · intro i v hi
    have := all_idx h13 hi
    simpa using this
  · intro i v h1i hi
    have hb := idx_nonneg hi
    unfold idx at hi
    have hn : ¬ i < 0 := by omega
    rw [if_neg hn] at hi
    have hmem : v ∈ T.r1.drop 1 := by
      have hk : i.toNat = 1 + (i.toNat - 1) := by omega
      rw [hk] at hi
      rw [← List.getElem?_drop] at hi
      exact List.mem_of_getElem? hi
    have := List.all_eq_true.mp h14 v hmem
    simpa using this
  · intro i v hi
    have := all_idx h15 hi
    simpa using this


/-! ## The invariant of the loop -/

/-- A look-ahead code that is safe to translate: end of input or an index of `YY_TRANSLATE`. -/
def CharOk (T : Tables) (c : Int) : Prop := c ≤ 0 ∨ c < (T.translate.length : Int)

structure Base (T : Tables) (p : P) : Prop where
  state : 0 ≤ p.state ∧ p.state < nStates T
  stack : ∀ s ∈ p.stack, 0 ≤ s ∧ s < nStates T
  char : CharOk T p.char
  toks : ∀ c, LexRes.tok c ∈ p.toks → CharOk T c

/-- The current state and every stacked state are state numbers; a pending shift targets a
state number; a pending reduction names a rule `1 ≤ r < nRules`. -/
def Inv (T : Tables) (p : P) (a : Action) : Prop :=
  Base T p ∧ (a = .shift → 0 < p.n ∧ p.n < nStates T) ∧ (a = .reduce → 1 ≤ p.n ∧ p.n < nRules T)

theorem i16_some {x : Int} (h : -32768 ≤ x ∧ x ≤ 32767) : i16? x = some x := by
  unfold i16?; rw [if_pos h]

theorem entry_facts {T : Tables} {i : Nat} {t c : Int} (h : entryOk T i t c = true) (hc : 0 ≤ c) :
    t ≠ 0 ∧ (0 < t → t < nStates T) ∧ (t < 0 → t = T.tableNInf ∨ (1 ≤ -t ∧ -t < nRules T)) ∧
    (t < 0 → ∀ g ∈ T.pGoto, g + c ≠ (i : Int)) := by
  simp only [entryOk, Bool.and_eq_true, Bool.or_eq_true, decide_eq_true_eq, List.all_eq_true] at h
  obtain ⟨⟨⟨h1, h2⟩, h3⟩, h4⟩ := h
  refine ⟨?_, ?_, ?_, ?_⟩
  · rcases h3 with h3 | h3
    · exact h3
    · omega
  · intro ht
    rcases h1 with h1 | h1
    · omega
    · exact h1
  · intro ht
    rcases h2 with (h2 | h2) | h2
    · omega
    · exact Or.inl h2
    · exact Or.inr h2
  · intro ht g hg
    rcases h4 with (h4 | h4) | h4
    · omega
    · omega
    · exact h4 g hg

theorem finish_safe {T : Tables} (hT : TablesOK T) (p : P) (hb : Base T p) (n tk : Int)
    (hn : -16384 ≤ n ∧ n ≤ 16383) (htk : 0 ≤ tk ∧ tk < T.nTokens) :
    (∀ s, lookup.finish T p n tk ≠ .done (.panic s)) ∧
    (∀ p' a', lookup.finish T p n tk = .next p' a' → Inv T p' a') := by
  have hsmall := hT.nTokensSmall
  have h16 : i16? (n + tk) = some (n + tk) := i16_some (by omega)
  unfold lookup.finish
  simp only [h16]
  by_cases hr : n + tk < 0 ∨ T.last < n + tk
  · rw [if_pos hr]
    refine ⟨(fun s h => by cases h), ?_⟩
    intro p' a' h
    cases h
    exact ⟨⟨hb.state, hb.stack, hb.char, hb.toks⟩, (fun h => by cases h), (fun h => by cases h)⟩
  · rw [if_neg hr]
    have hlast := hT.lenLast
    have hlenc := hT.lenCheck
    obtain ⟨c, hc⟩ := idx_some_of_lt (t := T.check) (i := n + tk) (by omega) (by omega)
    obtain ⟨v, hv⟩ := idx_some_of_lt (t := T.table) (i := n + tk) (by omega) (by omega)
    simp only [hc, hv]
    by_cases hct : c ≠ tk
    · rw [if_pos hct]
      refine ⟨(fun s h => by cases h), ?_⟩
      intro p' a' h
      cases h
      exact ⟨⟨hb.state, hb.stack, hb.char, hb.toks⟩, (fun h => by cases h), (fun h => by cases h)⟩
    · rw [if_neg hct]
      have hceq : c = tk := by
        by_cases h : c = tk
        · exact h
        · exact absurd h hct
      have hf := entry_facts (hT.entry (n + tk) v c hv hc) (by omega)
      by_cases hv0 : v ≤ 0
      · rw [if_pos hv0]
        by_cases hinf : v = T.tableNInf
        · rw [if_pos hinf]
          refine ⟨(fun s h => by cases h), ?_⟩
          intro p' a' h
          cases h
          exact ⟨⟨hb.state, hb.stack, hb.char, hb.toks⟩, (fun h => by cases h), (fun h => by cases h)⟩
        · rw [if_neg hinf]
          refine ⟨(fun s h => by cases h), ?_⟩
          intro p' a' h
          cases h
          refine ⟨⟨hb.state, hb.stack, hb.char, hb.toks⟩, (fun h => by cases h), fun _ => ?_⟩
          have hneg : v < 0 := by
            have := hf.1
            omega
          rcases hf.2.2.1 hneg with h | h
          · exact absurd h hinf
          · exact h
      · rw [if_neg hv0]
        refine ⟨(fun s h => by cases h), ?_⟩
        intro p' a' h
        cases h
        refine ⟨⟨hb.state, hb.stack, hb.char, hb.toks⟩, fun _ => ?_, (fun h => by cases h)⟩
        exact ⟨show 0 < v by omega, hf.2.1 (by omega)⟩

theorem lookup_safe {T : Tables} (hT : TablesOK T) (p : P) (hb : Base T p) (n ch : Int)
    (toks : List LexRes) (hn : -16384 ≤ n ∧ n ≤ 16383) (hch : CharOk T ch)
    (htoks : ∀ c, LexRes.tok c ∈ toks → CharOk T c) :
    (∀ s, lookup T p n ch toks ≠ .done (.panic s)) ∧
    (∀ p' a', lookup T p n ch toks = .next p' a' → Inv T p' a') := by
  unfold lookup
  have hpos : 0 < T.nTokens := by
    have := hT.skUndef
    omega
  by_cases h1 : ch ≤ T.ttEof
  · rw [if_pos h1]
    have hb' : Base T { p with char := T.ttEof, token := T.skEof, toks := toks } :=
      ⟨hb.state, hb.stack, Or.inl (by rw [hT.ttEof]; exact Int.le_refl 0), htoks⟩
    exact finish_safe hT _ hb' n T.skEof hn (by rw [hT.skEof]; omega)
  · rw [if_neg h1]
    by_cases h2 : ch = T.ttError
    · rw [if_pos h2]
      refine ⟨(fun s h => by cases h), ?_⟩
      intro p' a' h
      cases h
      exact ⟨⟨hb.state, hb.stack, Or.inr hT.ttUndef, htoks⟩, (fun h => by cases h), (fun h => by cases h)⟩
    · rw [if_neg h2]
      have hch0 : 0 < ch := by
        have := hT.ttEof
        omega
      have hlt : ch < (T.translate.length : Int) := by
        rcases hch with h | h
        · omega
        · exact h
      obtain ⟨tk, htk⟩ := idx_some_of_lt (t := T.translate) (i := ch) (by omega) hlt
      simp only [htk]
      have hb' : Base T { p with char := ch, token := tk, toks := toks } :=
        ⟨hb.state, hb.stack, Or.inr hlt, htoks⟩
      exact finish_safe hT _ hb' n tk hn (hT.translate ch tk htk)

/-- One iteration of the loop from a state satisfying the invariant: a panic can only be the
empty-stack access of `yy_state_stack[len - 1]`, and the invariant is preserved. -/
theorem step_safe {T : Tables} (hT : TablesOK T) (act : Nat → Int → Bool) (p : P) (a : Action)
    (hinv : Inv T p a) :
    (∀ s, step T act p a = .done (.panic s) → s = .stackTop) ∧
    (∀ p' a', step T act p a = .next p' a' → Inv T p' a') := by
  obtain ⟨hb, hshift, hreduce⟩ := hinv
  cases a with
  | accept => exact ⟨(fun s h => by cases h), (fun p' a' h => by cases h)⟩
  | error => exact ⟨(fun s h => by cases h), (fun p' a' h => by cases h)⟩
  | error1 => exact ⟨(fun s h => by cases h), (fun p' a' h => by cases h)⟩
  | shift =>
    have hs := hshift rfl
    refine ⟨(fun s h => by cases h), ?_⟩
    intro p' a' h
    simp only [step] at h
    cases h
    refine ⟨⟨⟨show 0 ≤ p.n by omega, hs.2⟩, ?_, Or.inl (show T.ttEmpty ≤ 0 by have := hT.ttEmpty; omega), hb.toks⟩,
      (fun h => by cases h), (fun h => by cases h)⟩
    intro s hs'
    rcases List.mem_cons.mp hs' with h | h
    · subst h; exact ⟨by omega, hs.2⟩
    · exact hb.stack s h
  | default =>
    have hlen := hT.lenDefAct
    obtain ⟨n, hn⟩ := idx_some_of_lt (t := T.defAct) (i := p.state) hb.state.1
      (by have := hb.state.2; unfold nStates at this; omega)
    simp only [step, hn]
    have hr := hT.defAct p.state n hn
    by_cases h0 : n = 0
    · rw [if_pos h0]
      refine ⟨(fun s h => by cases h), ?_⟩
      intro p' a' h
      cases h
      exact ⟨⟨hb.state, hb.stack, hb.char, hb.toks⟩, (fun h => by cases h), (fun h => by cases h)⟩
    · rw [if_neg h0]
      refine ⟨(fun s h => by cases h), ?_⟩
      intro p' a' h
      cases h
      exact ⟨⟨hb.state, hb.stack, hb.char, hb.toks⟩, (fun h => by cases h), fun _ => ⟨show 1 ≤ n by omega, hr.2⟩⟩
  | newState =>
    simp only [step]
    by_cases hfin : p.state = T.final
    · rw [if_pos hfin]
      refine ⟨(fun s h => by cases h), ?_⟩
      intro p' a' h
      cases h
      exact ⟨hb, (fun h => by cases h), (fun h => by cases h)⟩
    · rw [if_neg hfin]
      obtain ⟨n, hn⟩ := idx_some_of_lt (t := T.pact) (i := p.state) hb.state.1
        (by have := hb.state.2; unfold nStates at this; omega)
      simp only [hn]
      have hnb := hT.pact p.state n hn
      by_cases hinf : n = T.pactNInf
      · rw [if_pos hinf]
        refine ⟨(fun s h => by cases h), ?_⟩
        intro p' a' h
        cases h
        exact ⟨⟨hb.state, hb.stack, hb.char, hb.toks⟩, (fun h => by cases h), (fun h => by cases h)⟩
      · rw [if_neg hinf]
        by_cases hemp : p.char = T.ttEmpty
        · rw [if_pos hemp]
          cases htk : p.toks with
          | nil =>
            simp only
            have := lookup_safe hT p hb n T.ttEof [] hnb (Or.inl (by rw [hT.ttEof]; exact Int.le_refl 0))
              (fun c h => by cases h)
            exact ⟨fun s h => absurd h (this.1 s), this.2⟩
          | cons t ts =>
            cases t with
            | tok c =>
              simp only
              have hc : CharOk T c := hb.toks c (by rw [htk]; exact List.mem_cons_self)
              have := lookup_safe hT p hb n c ts hnb hc
                (fun c' h => hb.toks c' (by rw [htk]; exact List.mem_cons_of_mem _ h))
              exact ⟨fun s h => absurd h (this.1 s), this.2⟩
            | err =>
              simp only
              exact ⟨(fun s h => by cases h), (fun p' a' h => by cases h)⟩
        · rw [if_neg hemp]
          have := lookup_safe hT p hb n p.char p.toks hnb hb.char hb.toks
          exact ⟨fun s h => absurd h (this.1 s), this.2⟩
  | reduce =>
    have hr := hreduce rfl
    have hlen2 := hT.lenR2
    obtain ⟨len, hlen⟩ := idx_some_of_lt (t := T.r2) (i := p.n) (by omega)
      (by have := hr.2; unfold nRules at this; omega)
    obtain ⟨sym, hsym⟩ := idx_some_of_lt (t := T.r1) (i := p.n) (by omega)
      (by have := hr.2; unfold nRules at this; omega)
    have hs := hT.r1 p.n sym hr.1 hsym
    simp only [step, hlen, hsym]
    by_cases hact : act p.reductions p.n = false
    · rw [if_pos hact]
      exact ⟨(fun s h => by cases h), (fun p' a' h => by cases h)⟩
    · rw [if_neg hact]
      have hsub : ¬ sym - T.nTokens < 0 := by omega
      rw [if_neg hsub]
      have hstack : ∀ s ∈ p.stack.drop len.toNat, 0 ≤ s ∧ s < nStates T :=
        fun s h => hb.stack s (List.mem_of_mem_drop h)
      cases hst : p.stack.drop len.toNat with
      | nil =>
        simp only
        exact ⟨(fun s h => by cases h; rfl), (fun p' a' h => by cases h)⟩
      | cons top rest =>
        simp only
        have htop : 0 ≤ top ∧ top < nStates T := hstack top (by rw [hst]; exact List.mem_cons_self)
        have hrest : ∀ s ∈ top :: rest, 0 ≤ s ∧ s < nStates T := by
          intro s h; exact hstack s (by rw [hst]; exact h)
        obtain ⟨g, hg⟩ := idx_some_of_lt (t := T.pGoto) (i := sym - T.nTokens) (by omega)
          (by have := hs.2; unfold nNterms at this; omega)
        have hgb := hT.pGoto _ g hg
        have hsmall := hT.nStatesSmall
        have h16 : i16? (g + top) = some (g + top) := i16_some (by omega)
        obtain ⟨dg, hdg⟩ := idx_some_of_lt (t := T.defGoto) (i := sym - T.nTokens) (by omega)
          (by have := hs.2; have := hT.lenDefGoto; unfold nNterms at *; omega)
        have hdgb := hT.defGoto _ dg hdg
        simp only [hg, h16, hdg]
        have mk : ∀ s, 0 ≤ s ∧ s < nStates T →
            Inv T { p with state := s, stack := s :: top :: rest, reductions := p.reductions + 1 } .newState := by
          intro s hs'
          refine ⟨⟨hs', ?_, hb.char, hb.toks⟩, (fun h => by cases h), (fun h => by cases h)⟩
          intro x hx
          rcases List.mem_cons.mp hx with h | h
          · subst h; exact hs'
          · exact hrest x h
        by_cases hrange : 0 ≤ g + top ∧ g + top ≤ T.last
        · rw [if_pos hrange]
          have hlast := hT.lenLast
          have hlenc := hT.lenCheck
          obtain ⟨c, hc⟩ := idx_some_of_lt (t := T.check) (i := g + top) (by omega) (by omega)
          obtain ⟨v, hv⟩ := idx_some_of_lt (t := T.table) (i := g + top) (by omega) (by omega)
          simp only [hc, hv]
          by_cases hct : c = top
          · rw [if_pos hct]
            refine ⟨(fun s h => by cases h), ?_⟩
            intro p' a' h
            cases h
            have hf := entry_facts (hT.entry (g + top) v c hv hc) (by omega)
            have hvpos : 0 < v := by
              by_cases hneg : v < 0
              · exfalso
                have := hf.2.2.2 hneg g (idx_mem hg)
                apply this
                rw [hct, Int.toNat_of_nonneg hrange.1]
              · have := hf.1
                omega
            exact mk v ⟨by omega, hf.2.1 hvpos⟩
          · rw [if_neg hct]
            refine ⟨(fun s h => by cases h), ?_⟩
            intro p' a' h
            cases h
            exact mk dg hdgb
        · rw [if_neg hrange]
          refine ⟨(fun s h => by cases h), ?_⟩
          intro p' a' h
          cases h
          exact mk dg hdgb

/-- The invariant holds initially (`Parser::new`), for any lexer whose codes are safe. -/
theorem inv_init {T : Tables} (hT : TablesOK T) (toks : List LexRes)
    (h : ∀ c, LexRes.tok c ∈ toks → CharOk T c) (hne : 0 < nStates T) :
    Inv T (init T toks) .newState := by
  refine ⟨⟨⟨Int.le_refl 0, hne⟩, ?_, Or.inl (by have := hT.ttEmpty; show T.ttEmpty ≤ 0; omega), h⟩,
    (fun h => by cases h), (fun h => by cases h)⟩
  intro s hs
  simp only [init, List.mem_singleton] at hs
  subst hs
  exact ⟨Int.le_refl 0, hne⟩

/-- No run of the loop, of any length, ends in an out-of-bounds table access. -/
theorem run_safe {T : Tables} (hT : TablesOK T) (act : Nat → Int → Bool) :
    ∀ (fuel : Nat) (p : P) (a : Action), Inv T p a →
      ∀ s, run T act fuel p a = .panic s → s = .stackTop := by
  intro fuel
  induction fuel with
  | zero => intro p a _ s h; cases h
  | succ n ih =>
    intro p a hinv s h
    have hs := step_safe hT act p a hinv
    rw [run] at h
    split at h
    · rename_i r hr
      subst h
      exact hs.1 s hr
    · rename_i p' a' hr
      exact ih p' a' (hs.2 p' a' hr) s h

end Dmn.Lalr
