import Dmn.Lemmas.BifsStatsMode
import Dmn.Lemmas.BifsNoPanic

/-!
# `stddev` and `median`: the loops compute the declarative expressions

`core::stddev` accumulates the squares in a loop; `Spec.stddev` is the same expression tree
written with `map` and a sum (`core_stddev_eq`).  `median_closed_form`: the value `core::median`
returns, read off the stable ascending arrangement of the numbers.
-/

namespace Dmn
namespace Bif

theorem allNums_map_num (ds : List Dec) : Spec.allNums (ds.map .num) = some ds := by
  induction ds with
  | nil => rfl
  | cons d ds ih => simp [Spec.allNums, ih]

theorem core_stddev_eq (xs : List Value) : core_stddev xs = .ok (Spec.stddevV xs) := by
  unfold core_stddev Spec.stddevV
  by_cases h : xs.length < 2
  · rw [if_pos h, if_pos h]
  · rw [if_neg h, if_neg h, numbersOf_eq]
    cases Spec.allNums xs with
    | none => rfl
    | some ds =>
      simp only [Spec.stddev, Spec.sumR, Spec.meanR, Spec.squareR, List.foldl_map]

/-- the value of `median` for a non-empty list of numbers: the middle item of the stable
ascending arrangement `s`, or the (rounded) mean of the two middle items -/
theorem median_closed_form (ds : List Dec) (hne : ds ≠ []) :
    ∃ s : List Dec, s.Perm ds ∧ s.Pairwise (fun a b => Dec.cmp a b ≠ .gt) ∧
      (∀ d, s.filter (fun x => Spec.numEq x d) = ds.filter (fun x => Spec.numEq x d)) ∧
      (ds.length % 2 = 1 → ∃ m, s[ds.length / 2]? = some m ∧ core_median (ds.map .num) = .ok (.num m)) ∧
      (ds.length % 2 = 0 → ∃ a b, s[ds.length / 2 - 1]? = some a ∧ s[ds.length / 2]? = some b ∧
        core_median (ds.map .num) = .ok (.num (Dec.divR (Dec.addR a b) ⟨false, 2, 0⟩))) := by
  refine ⟨sortBy Dec.cmp ds, sortBy_perm_l _ _, ?_, fun d => sortBy_filter d ds, ?_, ?_⟩
  · exact (sortBy_sorted_isLE (cmp := Dec.cmp) ds).imp (fun h => (isLE_iff_ne_gt _).mp h)
  · intro hodd
    have hlen := sortBy_length Dec.cmp ds
    have hpos : 0 < ds.length := List.length_pos_iff.mpr hne
    have i2 : ds.length / 2 < (sortBy Dec.cmp ds).length := by omega
    refine ⟨(sortBy Dec.cmp ds)[ds.length / 2], List.getElem?_eq_getElem i2, ?_⟩
    rw [core_median_eq, Spec.medianV, allNums_map_num]
    cases ds with
    | nil => exact absurd rfl hne
    | cons d t =>
      simp only [hlen]
      have h2 : (((d :: t).length % 2 == 1) = true) := by
        simp only [List.length_cons] at hodd ⊢; simp [hodd]
      rw [if_pos h2, List.getElem?_eq_getElem i2]
  · intro hev
    have hlen := sortBy_length Dec.cmp ds
    have hpos : 0 < ds.length := List.length_pos_iff.mpr hne
    have i1 : ds.length / 2 - 1 < (sortBy Dec.cmp ds).length := by omega
    have i2 : ds.length / 2 < (sortBy Dec.cmp ds).length := by omega
    refine ⟨(sortBy Dec.cmp ds)[ds.length / 2 - 1], (sortBy Dec.cmp ds)[ds.length / 2],
      List.getElem?_eq_getElem i1, List.getElem?_eq_getElem i2, ?_⟩
    rw [core_median_eq, Spec.medianV, allNums_map_num]
    cases ds with
    | nil => exact absurd rfl hne
    | cons d t =>
      simp only [hlen]
      have h2 : ¬ (((d :: t).length % 2 == 1) = true) := by
        simp only [List.length_cons] at hev ⊢; simp [hev]
      rw [if_neg h2, List.getElem?_eq_getElem i1, List.getElem?_eq_getElem i2]

end Bif
end Dmn
