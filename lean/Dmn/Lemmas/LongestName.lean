import Dmn.Model.LongestName
import Dmn.Lemmas.LexerSafe
import Dmn.Lemmas.LexerTotal

/-! Lemmas for `Dmn/Model/LongestName.lean` (C05). -/

namespace Dmn.LongestName
open Dmn Dmn.Lexer Dmn.Lalr

theorem nextToken_no_panic (l : Lx) (s : PanicSite) : nextToken l ≠ .panic s := by
  intro h
  unfold nextToken at h
  split at h
  · simp only at h
    split at h <;> cases h
  · split at h
    · cases h
    · cases h
    · rename_i s' hh
      exact readNextToken_no_panic l s' hh
    · cases h

/-- every discriminant the lexer model can answer with is one of `enum TokenType` -/
theorem code_mem (tt : TT) : tt.code ∈ Dmn.Gen.Lalr.TOKEN_TYPE_CODES := by
  cases tt <;> decide

theorem answers_some (fb : Nat → Option Flags) (limit i : Nat) (l : Lx) :
    ∃ ts, answers fb limit i l = some ts ∧ ∀ c, LexRes.tok c ∈ ts → c ∈ Dmn.Gen.Lalr.TOKEN_TYPE_CODES := by
  induction limit generalizing i l with
  | zero => exact ⟨[], rfl, by intro c hc; cases hc⟩
  | succ limit ih =>
    unfold answers
    cases hn : nextToken (setFlags l (fb i)) with
    | ok r =>
      obtain ⟨t, l'⟩ := r
      simp only
      by_cases he : t.tt = .yyEof
      · rw [if_pos he]
        refine ⟨_, rfl, ?_⟩
        intro c hc
        simp only [List.mem_singleton, LexRes.tok.injEq] at hc
        subst hc
        exact code_mem _
      · rw [if_neg he]
        obtain ⟨ts, hts, hmem⟩ := ih (i + 1) l'
        refine ⟨_, by rw [hts]; rfl, ?_⟩
        intro c hc
        simp only [List.mem_cons, LexRes.tok.injEq] at hc
        rcases hc with hc | hc
        · subst hc; exact code_mem _
        · exact hmem c hc
    | error e p => exact ⟨[.err], rfl, by intro c hc; simp at hc⟩
    | panic s => exact absurd hn (nextToken_no_panic _ s)
    | fuelOut => exact absurd hn (nextToken_total _)

end Dmn.LongestName
