import Dmn.Lemmas.TemporalCalendar
import Dmn.Model.Temporal

/-!
# The implementation model (`Dmn/Model/Temporal.lean`) against the calendar
-/

namespace Dmn.Temporal
open Dmn.Cal

/-! ## Order of day numbers -/

theorem days_le_of_not_dateLt (y1 m1 d1 y2 m2 d2 : Int)
    (v1 : validDate y1 m1 d1 = true) (v2 : validDate y2 m2 d2 = true)
    (h : dateLt y2 m2 d2 y1 m1 d1 = false) :
    daysFromCivil y1 m1 d1 ≤ daysFromCivil y2 m2 d2 := by
  rcases dateLt_trichotomy y1 m1 d1 y2 m2 d2 with hl | ⟨rfl, rfl, rfl⟩ | hg
  · exact Int.le_of_lt (daysFromCivil_lt_of_dateLt _ _ _ _ _ _ v1 v2 hl)
  · exact Int.le_refl _
  · rw [hg] at h; cases h

theorem validDate_min : validDate chronoMinYear 1 1 = true := by decide
theorem validDate_max : validDate chronoMaxYear 12 31 = true := by decide

/-- A date chrono accepts lies between chrono's first and last day. -/
theorem chrono_day_range (y : Int) (m d : Nat) (h : chronoDateOk y m d = true) :
    chronoMinDay ≤ daysFromCivil y m d ∧ daysFromCivil y m d ≤ chronoMaxDay := by
  simp only [chronoDateOk, Bool.and_eq_true, decide_eq_true_eq] at h
  obtain ⟨⟨h1, h2⟩, hv⟩ := h
  have hv' := (validDate_iff _ _ _).1 hv
  have dm : daysInMonth y m ≤ 31 := by unfold daysInMonth; split <;> (try split) <;> (try split) <;> (try split) <;> omega
  constructor
  · apply days_le_of_not_dateLt _ _ _ _ _ _ validDate_min hv
    cases hlt : dateLt y m d chronoMinYear 1 1
    · rfl
    · rw [dateLt_iff] at hlt; omega
  · apply days_le_of_not_dateLt _ _ _ _ _ _ hv validDate_max
    cases hlt : dateLt chronoMaxYear 12 31 y m d
    · rfl
    · rw [dateLt_iff] at hlt; omega

/-! ## `date_time_offset` -/

/-- The instant of a `DateTime<FixedOffset>` on the UTC line, in nanoseconds. -/
def Instant.nanos (i : Instant) : Int := (i.utcDay * 86400 + i.secs) * 1000000000 + i.frac

theorem u32_small {n : Nat} (h : n < 1000000000) : u32 n = n := by
  unfold u32; omega

theorem dateTimeOffset_some {d : Date} {h mi s ns : Nat} {off : Int} {i : Instant}
    (hns : ns < 1000000000)
    (hd : dateTimeOffset d h mi s ns off = .some i) :
    i.nanos = instant d.y d.m d.d h mi s ns off ∧ 0 ≤ i.secs ∧ i.secs < 86400 ∧
      0 ≤ i.frac ∧ i.frac < 1000000000 ∧ i.localDay = daysFromCivil d.y d.m d.d := by
  unfold dateTimeOffset at hd
  split at hd
  · cases hd
  · split at hd
    · simp only at hd
      split at hd
      · injection hd with hd
        subst hd
        simp only [Instant.nanos, instant, nsPerDay, nsPerHour, nsPerMinute, nsPerSecond, u32_small hns]
        generalize daysFromCivil d.y d.m d.d = ld
        generalize hq : ((h : Int) * 3600 + (mi : Int) * 60 + (s : Int) - off) / 86400 = q
        refine ⟨by omega, by omega, by omega, by omega, by omega, trivial⟩
      · cases hd
    · cases hd

/-- Where `date_time_offset` yields a value: chrono's date and time checks pass, the offset is
less than a day, and the UTC day stays inside chrono's range. -/
def chronoOk (d : Date) (h mi s ns : Nat) (off : Int) : Bool :=
  match dateTimeOffset d h mi s ns off with
  | .some _ => true
  | _ => false

theorem chronoOk_iff {d : Date} {h mi s ns : Nat} {off : Int} :
    chronoOk d h mi s ns off = true ↔ ∃ i, dateTimeOffset d h mi s ns off = .some i := by
  unfold chronoOk
  cases hd : dateTimeOffset d h mi s ns off <;> simp

def ord3 (a b : Int) : Ord3 := if a < b then .lt else if b < a then .gt else .eq

theorem Instant.cmp_nanos (i j : Instant) (hi0 : 0 ≤ i.secs) (hi1 : i.secs < 86400)
    (hj0 : 0 ≤ j.secs) (hj1 : j.secs < 86400) (fi0 : 0 ≤ i.frac) (fi1 : i.frac < 1000000000)
    (fj0 : 0 ≤ j.frac) (fj1 : j.frac < 1000000000) :
    i.cmp j = ord3 i.nanos j.nanos := by
  unfold Instant.cmp ord3 Instant.nanos
  repeat' split
  all_goals first | rfl | omega

theorem Instant.diff_nanos (i j : Instant) (fi1 : i.frac < 1000000000) (fj1 : j.frac < 1000000000) :
    i.diffNanos j = i.nanos - j.nanos := by
  unfold Instant.diffNanos Instant.nanos
  simp only
  repeat' split
  all_goals omega

/-! ## Validity -/

theorem toChrono_midnight (y : Int) (m d : Nat) :
    toChrono (midnightUtc ⟨y, m, d⟩) none =
      if chronoDateOk y m d then
        .some ⟨daysFromCivil y m d, 0, 0, daysFromCivil y m d⟩
      else .none := by
  unfold toChrono midnightUtc resolveOffset dateTimeOffset
  simp only
  by_cases hc : chronoDateOk y m d = true
  · have hr := chrono_day_range y m d hc
    have ht : chronoTimeOk 0 0 0 0 = true := by decide
    have hu : u32 0 = 0 := by decide
    simp [hc, ht, hr.1, hr.2, hu]
  · simp [hc]

theorem isLeapYear_eq (y : Int) : isLeapYear y = isLeap y := rfl

theorem lastDay_valid_pos (y : Int) (m d : Nat) (hd : 1 ≤ d) :
    (match lastDayOfMonth y m with
      | some l => decide (d ≤ l)
      | none => false) = validDate y m d := by
  unfold lastDayOfMonth validDate daysInMonth
  rw [isLeapYear_eq]
  have hd' : (1 : Int) ≤ (d : Int) := by omega
  by_cases c1 : m = 1 ∨ m = 3 ∨ m = 5 ∨ m = 7 ∨ m = 8 ∨ m = 10 ∨ m = 12
  · have c1' : (m : Int) = 1 ∨ (m : Int) = 3 ∨ (m : Int) = 5 ∨ (m : Int) = 7 ∨ (m : Int) = 8 ∨
        (m : Int) = 10 ∨ (m : Int) = 12 := by omega
    have r1 : (1 : Int) ≤ m := by omega
    have r2 : (m : Int) ≤ 12 := by omega
    simp only [if_pos c1, if_pos c1', r1, r2, hd', decide_true, Bool.true_and]
    congr 1; apply propext; omega
  · have c1' : ¬ ((m : Int) = 1 ∨ (m : Int) = 3 ∨ (m : Int) = 5 ∨ (m : Int) = 7 ∨ (m : Int) = 8 ∨
        (m : Int) = 10 ∨ (m : Int) = 12) := by omega
    simp only [if_neg c1, if_neg c1']
    by_cases c2 : m = 4 ∨ m = 6 ∨ m = 9 ∨ m = 11
    · have c2' : (m : Int) = 4 ∨ (m : Int) = 6 ∨ (m : Int) = 9 ∨ (m : Int) = 11 := by omega
      have r1 : (1 : Int) ≤ m := by omega
      have r2 : (m : Int) ≤ 12 := by omega
      simp only [if_pos c2, if_pos c2', r1, r2, hd', decide_true, Bool.true_and]
      congr 1; apply propext; omega
    · have c2' : ¬ ((m : Int) = 4 ∨ (m : Int) = 6 ∨ (m : Int) = 9 ∨ (m : Int) = 11) := by omega
      simp only [if_neg c2, if_neg c2']
      by_cases c3 : m = 2
      · have c3' : (m : Int) = 2 := by omega
        have r1 : (1 : Int) ≤ m := by omega
        have r2 : (m : Int) ≤ 12 := by omega
        simp only [if_pos c3, if_pos c3', r1, r2, hd', decide_true, Bool.true_and]
        cases isLeap y <;> simp <;> omega
      · have c3' : ¬ (m : Int) = 2 := by omega
        simp only [if_neg c3, if_neg c3']
        have : ¬ ((1 : Int) ≤ m ∧ (m : Int) ≤ 12) := by omega
        by_cases r1 : (1 : Int) ≤ m <;> by_cases r2 : (m : Int) ≤ 12 <;> simp [r1, r2] <;> omega

theorem validDate_day_zero (y : Int) (m : Nat) : validDate y m (0 : Nat) = false := by
  cases h : validDate y m (0 : Nat)
  · rfl
  · rw [validDate_iff] at h; omega

theorem lastDay_valid (y : Int) (m d : Nat) :
    (match lastDayOfMonth y m with
      | some l => decide (1 ≤ d) && decide (d ≤ l)
      | none => false) = validDate y m d := by
  by_cases hd : 1 ≤ d
  · rw [← lastDay_valid_pos y m d hd]
    cases lastDayOfMonth y m <;> simp [hd]
  · have h0 : d = 0 := by omega
    subst h0
    rw [validDate_day_zero]
    cases lastDayOfMonth y m <;> simp

/-- `is_valid_date` is calendar validity for every representable year. -/
theorem isValidDate_eq (y : Int) (m d : Nat) (hy0 : -999999999 ≤ y) (hy1 : y ≤ 999999999) :
    isValidDate y m d = validDate y m d := by
  unfold isValidDate
  rw [toChrono_midnight]
  by_cases hc : chronoDateOk y m d = true
  · simp only [hc, if_true]
    simp only [chronoDateOk, Bool.and_eq_true] at hc
    exact hc.2.symm
  · simp only [hc]
    have hr : -999999999 ≤ y ∧ y ≤ 999999999 := ⟨hy0, hy1⟩
    simp only [if_pos hr]
    exact lastDay_valid y m d

/-! ## Durations -/

theorem ymd_sum (n : Int) :
    ymdYears n * 12 + ymdMonths n = n ∧ -12 < ymdMonths n ∧ ymdMonths n < 12 ∧
    (0 ≤ n → 0 ≤ ymdMonths n ∧ 0 ≤ ymdYears n) ∧ (n ≤ 0 → ymdMonths n ≤ 0 ∧ ymdYears n ≤ 0) := by
  unfold ymdYears ymdMonths
  by_cases h : 0 ≤ n
  · rw [Int.tdiv_eq_ediv_of_nonneg h, Int.tmod_eq_emod_of_nonneg h]; omega
  · have hk : n = -(-n) := by omega
    rw [hk, Int.neg_tdiv, Int.neg_tmod, Int.tdiv_eq_ediv_of_nonneg (by omega),
      Int.tmod_eq_emod_of_nonneg (by omega)]
    omega

end Dmn.Temporal
