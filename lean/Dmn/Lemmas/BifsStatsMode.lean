import Dmn.Lemmas.BifsStatsRuns

/-!
# `mode`: the code's answer is the declarative specification

`Spec.mode ds` is characterised by two facts — it is strictly ascending, and its members are
exactly the first spellings of the values that occur most often — and a list with these two
properties is unique.  The list `core::mode` builds (sort, frequency loop, second sort, the
items with the count of the first one) has them as well.
-/

namespace Dmn
namespace Bif
open Spec (numEq occurrences firstSpellings occursMost)

/-- two strictly ascending lists with the same members are equal -/
theorem eq_of_strictly_ascending {l₁ l₂ : List Dec}
    (h₁ : l₁.Pairwise (fun a b => Dec.cmp a b = .lt)) (h₂ : l₂.Pairwise (fun a b => Dec.cmp a b = .lt))
    (hm : ∀ d, d ∈ l₁ ↔ d ∈ l₂) : l₁ = l₂ := by
  induction l₁ generalizing l₂ with
  | nil =>
    cases l₂ with
    | nil => rfl
    | cons b t => exact absurd ((hm b).mpr List.mem_cons_self) (by simp)
  | cons a t ih =>
    cases l₂ with
    | nil => exact absurd ((hm a).mp List.mem_cons_self) (by simp)
    | cons b t' =>
      rw [List.pairwise_cons] at h₁ h₂
      have irrefl : ∀ d : Dec, Dec.cmp d d ≠ .lt := by
        intro d h; rw [Std.ReflCmp.compare_self (cmp := Dec.cmp)] at h; cases h
      have hab : a = b := by
        have ha := (hm a).mp List.mem_cons_self
        have hb := (hm b).mpr List.mem_cons_self
        rcases List.mem_cons.mp ha with e | ha'
        · exact e
        · rcases List.mem_cons.mp hb with e | hb'
          · exact e.symm
          · have h1 := h₁.1 b hb'
            have h2 := Std.OrientedCmp.gt_of_lt (h₂.1 a ha')
            rw [h1] at h2; cases h2
      subst hab
      congr 1
      apply ih h₁.2 h₂.2
      intro d
      constructor
      · intro hd
        rcases List.mem_cons.mp ((hm d).mp (List.mem_cons_of_mem _ hd)) with rfl | h
        · exact absurd (h₁.1 d hd) (irrefl d)
        · exact h
      · intro hd
        rcases List.mem_cons.mp ((hm d).mpr (List.mem_cons_of_mem _ hd)) with rfl | h
        · exact absurd (h₂.1 d hd) (irrefl d)
        · exact h

theorem lt_of_isLE_of_not_numEq {a b : Dec} (h1 : (Dec.cmp a b).isLE = true) (h2 : numEq a b = false) :
    Dec.cmp a b = .lt := by
  unfold numEq at h2
  cases h : Dec.cmp a b <;> simp [h, Ordering.isLE] at h1 h2 ⊢

/-! ## the specification -/

theorem mem_mode_iff' (ds : List Dec) (d : Dec) :
    d ∈ Spec.mode ds ↔ d ∈ firstSpellings ds ∧ occursMost ds d = true := by
  unfold Spec.mode
  rw [sortBy_mem, List.mem_filter]

theorem mode_strictly_ascending (ds : List Dec) : (Spec.mode ds).Pairwise (fun a b => Dec.cmp a b = .lt) := by
  unfold Spec.mode
  have h1 := sortBy_sorted_isLE (cmp := Dec.cmp) ((firstSpellings ds).filter (occursMost ds))
  have h2 : (sortBy Dec.cmp ((firstSpellings ds).filter (occursMost ds))).Pairwise (fun a b => numEq a b = false) :=
    ((sortBy_perm_l Dec.cmp _).pairwise_iff (fun {x y} h => by rw [numEq_comm]; exact h)).mpr
      ((firstSpellings_pairwise ds).filter _)
  exact (h1.and h2).imp (fun h => lt_of_isLE_of_not_numEq h.1 h.2)

theorem occursMost_iff (ds : List Dec) (d : Dec) :
    occursMost ds d = true ↔ ∀ e ∈ ds, occurrences ds e ≤ occurrences ds d := by
  unfold occursMost
  simp [List.all_eq_true]

/-! ## the code -/

theorem occurrences_sortBy (ds : List Dec) (d : Dec) : occurrences (sortBy Dec.cmp ds) d = occurrences ds d := by
  rw [occurrences_eq_length, occurrences_eq_length, sortBy_filter]

theorem occursMost_sortBy (ds : List Dec) (d : Dec) : occursMost (sortBy Dec.cmp ds) d = occursMost ds d := by
  rw [Bool.eq_iff_iff, occursMost_iff, occursMost_iff]
  simp only [occurrences_sortBy, sortBy_mem]

theorem mem_firstSpellings_sortBy (ds : List Dec) (d : Dec) :
    d ∈ firstSpellings (sortBy Dec.cmp ds) ↔ d ∈ firstSpellings ds := by
  rw [mem_firstSpellings_iff, mem_firstSpellings_iff, sortBy_filter]

/-- the list `core::mode` returns for a non-empty list of numbers -/
theorem mode_code_eq_spec (ds : List Dec) (hne : ds ≠ []) :
    ∃ mx v0 rest, sortBy modeCmp (modeRuns (sortBy Dec.cmp ds) []) = (mx, v0) :: rest ∧
      (((mx, v0) :: rest).filter (fun r => r.1 == mx)).map (fun r => r.2) = Spec.mode ds := by
  -- the ascending list and its runs
  have hs := sortBy_sorted_isLE (cmp := Dec.cmp) ds
  generalize hsdef : sortBy Dec.cmp ds = s at hs
  have hsne : s ≠ [] := by
    intro h
    have := sortBy_length Dec.cmp ds
    rw [hsdef, h] at this
    exact hne (List.eq_nil_of_length_eq_zero this.symm)
  rw [modeRuns_sorted s hs]
  generalize hRdef : (firstSpellings s).map (fun w => (occurrences s w, w)) = R
  have hRmem : ∀ r, r ∈ R ↔ r.2 ∈ firstSpellings s ∧ r.1 = occurrences s r.2 := by
    intro r
    rw [← hRdef, List.mem_map]
    constructor
    · rintro ⟨w, hw, rfl⟩; exact ⟨hw, rfl⟩
    · rintro ⟨h1, h2⟩; exact ⟨r.2, h1, by rw [← h2]⟩
  have hRdist : R.Pairwise (fun a b => numEq a.2 b.2 = false) := by
    rw [← hRdef, List.pairwise_map]
    exact firstSpellings_pairwise s
  -- the second sort
  have hperm := sortBy_perm_l modeCmp R
  have hsorted := sortBy_sorted_isLE (cmp := modeCmp) R
  have hdist : (sortBy modeCmp R).Pairwise (fun a b => numEq a.2 b.2 = false) :=
    (hperm.pairwise_iff (fun {x y} h => by rw [numEq_comm]; exact h)).mpr hRdist
  have hmem : ∀ r, r ∈ sortBy modeCmp R ↔ r.2 ∈ firstSpellings s ∧ r.1 = occurrences s r.2 := by
    intro r; rw [sortBy_mem]; exact hRmem r
  generalize sortBy modeCmp R = runs at hsorted hdist hmem hperm
  cases runs with
  | nil =>
    exfalso
    obtain ⟨w, hw, _⟩ := firstSpellings_covers (List.getLast_mem hsne)
    have := (hmem (occurrences s w, w)).mpr ⟨hw, rfl⟩
    simp at this
  | cons r0 rest =>
    obtain ⟨mx, v0⟩ := r0
    refine ⟨mx, v0, rest, rfl, ?_⟩
    have h0 := (hmem (mx, v0)).mp List.mem_cons_self
    simp only at h0
    -- the first count is the greatest
    have hmax : ∀ r ∈ (mx, v0) :: rest, r.1 ≤ mx := by
      intro r hr
      rcases List.mem_cons.mp hr with rfl | hr
      · exact Nat.le_refl _
      · have := (List.pairwise_cons.mp hsorted).1 r hr
        rw [modeCmp_isLE] at this
        simp only at this
        omega
    apply eq_of_strictly_ascending _ (mode_strictly_ascending ds)
    · -- members
      intro d
      rw [mem_mode_iff', List.mem_map]
      constructor
      · rintro ⟨r, hr, rfl⟩
        rw [List.mem_filter] at hr
        have hr1 := (hmem r).mp hr.1
        have hrmx : r.1 = mx := by simpa using hr.2
        refine ⟨(mem_firstSpellings_sortBy ds r.2).mp (hsdef ▸ hr1.1), ?_⟩
        rw [← occursMost_sortBy, hsdef, occursMost_iff]
        intro e he
        obtain ⟨w, hw, hew⟩ := firstSpellings_covers he
        rw [occurrences_congr hew]
        have := hmax (occurrences s w, w) ((hmem _).mpr ⟨hw, rfl⟩)
        simp only at this
        omega
      · rintro ⟨hd, hmost⟩
        rw [← mem_firstSpellings_sortBy, hsdef] at hd
        rw [← occursMost_sortBy, hsdef, occursMost_iff] at hmost
        refine ⟨(occurrences s d, d), ?_, rfl⟩
        rw [List.mem_filter]
        have hin := (hmem (occurrences s d, d)).mpr ⟨hd, rfl⟩
        refine ⟨hin, ?_⟩
        have h1 := hmax _ hin
        have h2 := hmost v0 (firstSpellings_subset h0.1)
        simp only at h1
        simp only [beq_iff_eq]
        omega
    · -- strictly ascending
      have hboth := (hsorted.and hdist).filter (fun r => r.1 == mx)
      rw [List.pairwise_map]
      refine hboth.imp_of_mem ?_
      intro a b ha hb hab
      have ha1 : a.1 = mx := by simpa using (List.mem_filter.mp ha).2
      have hb1 : b.1 = mx := by simpa using (List.mem_filter.mp hb).2
      have hle := hab.1
      rw [modeCmp_isLE] at hle
      rcases hle with hlt | ⟨_, hle⟩
      · omega
      · exact lt_of_isLE_of_not_numEq hle hab.2

theorem allNums_ne_nil {x : Value} {xs : List Value} {ds : List Dec} (h : Spec.allNums (x :: xs) = some ds) : ds ≠ [] := by
  have := allNums_length h
  intro e; rw [e] at this; simp at this

theorem core_mode_eq (xs : List Value) : core_mode xs = .ok (Spec.modeSpecV xs) := by
  cases xs with
  | nil => rfl
  | cons x xs =>
    simp only [core_mode, Spec.modeSpecV, numbersOf_eq]
    cases h : Spec.allNums (x :: xs) with
    | none => rfl
    | some ds =>
      obtain ⟨mx, v0, rest, hruns, hspec⟩ := mode_code_eq_spec ds (allNums_ne_nil h)
      simp only [hruns]
      rw [← hspec, List.map_map]
      rfl

end Bif
end Dmn
