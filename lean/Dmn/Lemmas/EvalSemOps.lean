import Dmn.Model.Eval
import Dmn.Lemmas.Ops

/-!
# The pure operators in closed form: `between`, `in`, paths

`build_between`, `build_in` (+ `eval_in_list`, `eval_in_range`, `eval_in_unary_*`) and
`build_path` compared with the operators the FEEL semantics defines them by.
-/

namespace Dmn.Value

/-! ## between -/

/-- The three operands of `between` are of the same orderable kind *without partial order*:
numbers, strings, dates or durations (times and date-times compare through chrono and may be
incomparable). -/
inductive SameOrderedKind : Value → Value → Value → Prop
  | num (x a b : Dec) : SameOrderedKind (.num x) (.num a) (.num b)
  | str (x a b : String) : SameOrderedKind (.str x) (.str a) (.str b)
  | date (y : Int) (m d : Nat) (y1 : Int) (m1 d1 : Nat) (y2 : Int) (m2 d2 : Nat) :
      SameOrderedKind (.date y m d) (.date y1 m1 d1) (.date y2 m2 d2)
  | ymDur (x a b : Int) : SameOrderedKind (.ymDur x) (.ymDur a) (.ymDur b)
  | dtDur (x a b : Int) : SameOrderedKind (.dtDur x) (.dtDur a) (.dtDur b)

theorem ordering_swap_eq_lt (o : Ordering) : (o.swap == .lt) = (o == .gt) := by cases o <;> rfl
theorem ordering_swap_eq_eq (o : Ordering) : (o.swap == .eq) = (o == .eq) := by cases o <;> rfl

/-- `x between a and b` is `a <= x and x <= b` when the three values are of one orderable kind. -/
theorem betweenV_eq_conj (x a b : Value) (h : SameOrderedKind x a b) :
    betweenV x a b = and3 (leV a x) (leV x b) := by
  cases h with
  | num x a b => rfl
  | str x a b => rfl
  | ymDur x a b => simp [betweenV, leV, and3]
  | dtDur x a b => simp [betweenV, leV, and3]
  | date y m d y1 m1 d1 y2 m2 d2 =>
    simp only [betweenV, leV, and3, dateCompare?, betweenOrd?, optBool, datePartialCmp_eq, if_true]
    rw [dateTupleCmp_swap y m d y1 m1 d1]
    cases dateTupleCmp y m d y1 m1 d1 <;> cases dateTupleCmp y m d y2 m2 d2 <;> rfl

/-- When the kinds differ `between` is null although one of the two comparisons may already be
false (the FEEL conjunction would be false). -/
theorem betweenV_ne_conj_counterexample :
    betweenV (.num (Dec.ofNat 5)) (.num (Dec.ofNat 7)) (.str "a") = .null ∧
      and3 (leV (.num (Dec.ofNat 7)) (.num (Dec.ofNat 5))) (leV (.num (Dec.ofNat 5)) (.str "a")) = .bool false := by
  constructor
  · rfl
  · have : Dec.cmp (Dec.ofNat 7) (Dec.ofNat 5) = .gt := by decide
    simp [leV, and3, this]

/-! ## in -/

/-- the items `eval_in_list` compares by equality -/
def isPlain (v : Value) : Bool :=
  match v with
  | .str _ | .num _ | .bool _ | .date .. | .time _ | .dateTime _ | .ymDur _ | .dtDur _ | .ctx _ => true
  | _ => false

/-- `x in r` for a right-hand side that is a plain value: equality, with "not comparable" counted
as false (never null). -/
theorem inV_plain (l r : Value) (h : isPlain r = true) :
    inV l r = .bool (eqT l r == some true) := by
  have he : inEqual l r = .bool (eqT l r == some true) := by
    unfold inEqual
    cases eqT l r with
    | none => rfl
    | some b => cases b <;> rfl
  cases r <;> simp [isPlain] at h <;> simp only [inV, he]

/-- `x in [i₁, …, iₙ]` (or `x in (i₁, …, iₙ)`) over plain items: true iff `x` equals one of them. -/
theorem inList_plain (l : Value) (items : List Value) (h : ∀ i ∈ items, isPlain i = true) :
    inList l items = .bool (items.any (fun i => eqT l i == some true)) := by
  induction items with
  | nil => rfl
  | cons i rest ih =>
    have hi := h i List.mem_cons_self
    have ihr := ih (fun j hj => h j (List.mem_cons_of_mem _ hj))
    have hitem : inItem l i = some (eqT l i == some true) := by
      have he : isTrue (inEqual l i) = (eqT l i == some true) := by
        unfold inEqual
        cases eqT l i with
        | none => rfl
        | some b => cases b <;> rfl
      cases i <;> simp [isPlain] at hi <;> simp only [inItem, he]
    rw [inList, hitem, List.any_cons]
    cases hb : (eqT l i == some true)
    · simpa using ihr
    · simp

/-- the general shape of `eval_in_list`: the first item that matches makes it true; an item of a
kind that cannot be a test (null, a function, …) met before that makes it null -/
theorem inList_cons (l item : Value) (rest : List Value) :
    inList l (item :: rest) = (match inItem l item with
      | some true => .bool true
      | some false => inList l rest
      | none => .null) := by
  rw [inList]
  cases inItem l item with
  | none => rfl
  | some b => cases b <;> rfl

theorem inV_list_of_scalar (l : Value) (items : List Value) (h : ∀ vs, l ≠ .list vs) :
    inV l (.list items) = inList l items := by
  cases l <;> first | rfl | exact absurd rfl (h _)

theorem inV_range_num (x a b : Dec) (lc rc : Bool) :
    inV (.num x) (.range (.num a) lc (.num b) rc) =
      .bool ((if lc then Dec.cmp x a != .lt else Dec.cmp x a == .gt) &&
             (if rc then Dec.cmp x b != .gt else Dec.cmp x b == .lt)) := rfl

theorem inV_unary_num (x r : Dec) :
    inV (.num x) (.unaryLt (.num r)) = .bool (Dec.cmp x r == .lt) ∧
    inV (.num x) (.unaryLe (.num r)) = .bool (Dec.cmp x r != .gt) ∧
    inV (.num x) (.unaryGt (.num r)) = .bool (Dec.cmp x r == .gt) ∧
    inV (.num x) (.unaryGe (.num r)) = .bool (Dec.cmp x r != .lt) := ⟨rfl, rfl, rfl, rfl⟩

/-! ## paths -/

theorem pathV_ctx (c : Ctx) (n : String) : pathV (.ctx c) n = (Ctx.get c n).getD .null := rfl

def isCtx (v : Value) : Bool :=
  match v with
  | .ctx _ => true
  | _ => false

/-- A path over a list of contexts maps the lookup over **all** items; an item without the entry
contributes null. -/
theorem pathV_list_of_ctxs (cs : List Ctx) (n : String) :
    pathV (.list (cs.map Value.ctx)) n = .list (cs.map (fun c => (Ctx.get c n).getD .null)) := by
  unfold pathV
  simp only
  rw [if_pos (by simp [List.all_eq_true])]
  simp only [List.map_map]
  rfl

/-- A list with an item that is not a context has no paths. -/
theorem pathV_list_not_ctxs (items : List Value) (n : String) (h : ∃ i ∈ items, isCtx i = false) :
    pathV (.list items) n = .null := by
  obtain ⟨i, hi, hc⟩ := h
  unfold pathV
  simp only
  rw [if_neg]
  simp only [List.all_eq_true]
  intro hall
  have := hall i hi
  cases i <;> simp [isCtx] at hc <;> simp at this

end Dmn.Value
