import Dmn.Model.Temporal

/-!
# Numerals and small recognisers of `Dmn/Model/Temporal.lean`

`natToDigits`/`natOfDigits` round trip, digit-run recognition on concatenations, two-digit
fields.  Used by the literal round-trip theorems of C14.
-/

namespace Dmn.Temporal

/-! ## Digits -/

theorem digitChar_isDigit (n : Nat) : isDigit (digitChar n) = true := by
  unfold digitChar
  split <;> decide

theorem digitVal_digitChar_aux : ∀ k, k < 10 → digitVal (digitChar k) = k := by decide

theorem digitChar_mod (n : Nat) : digitChar (n % 10) = digitChar n := by
  unfold digitChar; rw [Nat.mod_mod]

theorem digitVal_digitChar (n : Nat) : digitVal (digitChar n) = n % 10 := by
  rw [← digitChar_mod]
  exact digitVal_digitChar_aux (n % 10) (Nat.mod_lt _ (by decide))

theorem digitChar_ne_zero {n : Nat} (h : n % 10 ≠ 0) : digitChar n ≠ '0' := by
  unfold digitChar
  split <;> rename_i e <;> first | (exact absurd e h) | decide

theorem isDigit_false_of_mem {c : Char}
    (h : c = ':' ∨ c = '-' ∨ c = '+' ∨ c = '.' ∨ c = 'T' ∨ c = 'Z' ∨ c = '@' ∨ c = 'Y' ∨ c = 'M' ∨
      c = 'D' ∨ c = 'H' ∨ c = 'S' ∨ c = 'P') : isDigit c = false := by
  rcases h with h | h | h | h | h | h | h | h | h | h | h | h | h <;> subst h <;> decide

/-! ## `natToDigits` -/

theorem natToDigitsAux_acc (fuel n : Nat) (acc : List Char) :
    natToDigitsAux fuel n acc = natToDigitsAux fuel n [] ++ acc := by
  induction fuel generalizing n acc with
  | zero => simp [natToDigitsAux]
  | succ f ih =>
    unfold natToDigitsAux
    split
    · simp
    · rw [ih (n / 10) (digitChar n :: acc), ih (n / 10) [digitChar n]]
      simp

theorem natToDigitsAux_fuel (f1 f2 n : Nat) (h1 : n < f1) (h2 : n < f2) (acc : List Char) :
    natToDigitsAux f1 n acc = natToDigitsAux f2 n acc := by
  induction f1 generalizing n f2 acc with
  | zero => omega
  | succ f ih =>
    cases f2 with
    | zero => omega
    | succ g =>
      unfold natToDigitsAux
      split
      · rfl
      · apply ih
        · have : n / 10 < n := Nat.div_lt_self (by omega) (by decide)
          omega
        · have : n / 10 < n := Nat.div_lt_self (by omega) (by decide)
          omega

theorem natToDigits_lt10 {n : Nat} (h : n < 10) : natToDigits n = [digitChar n] := by
  unfold natToDigits natToDigitsAux
  simp [h]

theorem natToDigits_step {n : Nat} (h : 10 ≤ n) :
    natToDigits n = natToDigits (n / 10) ++ [digitChar n] := by
  unfold natToDigits
  have hlt : ¬ n < 10 := by omega
  rw [show n + 1 = n + 1 from rfl]
  conv => lhs; unfold natToDigitsAux
  simp only [hlt, if_false]
  rw [natToDigitsAux_acc]
  congr 1
  apply natToDigitsAux_fuel
  · have : n / 10 < n := Nat.div_lt_self (by omega) (by decide)
    omega
  · omega

theorem natToDigits_all_digits (n : Nat) : ∀ c ∈ natToDigits n, isDigit c = true := by
  induction n using Nat.strongRecOn with
  | _ n ih =>
    by_cases h : n < 10
    · rw [natToDigits_lt10 h]
      intro c hc
      simp at hc
      subst hc
      exact digitChar_isDigit n
    · rw [natToDigits_step (by omega)]
      intro c hc
      simp at hc
      rcases hc with hc | hc
      · exact ih (n / 10) (Nat.div_lt_self (by omega) (by decide)) c hc
      · subst hc; exact digitChar_isDigit n

theorem natToDigits_ne_nil (n : Nat) : natToDigits n ≠ [] := by
  by_cases h : n < 10
  · rw [natToDigits_lt10 h]; simp
  · rw [natToDigits_step (by omega)]; simp

theorem natOfDigits_append_single (xs : List Char) (c : Char) :
    natOfDigits (xs ++ [c]) = 10 * natOfDigits xs + digitVal c := by
  unfold natOfDigits
  rw [List.foldl_append]
  rfl

theorem natOfDigits_natToDigits (n : Nat) : natOfDigits (natToDigits n) = n := by
  induction n using Nat.strongRecOn with
  | _ n ih =>
    by_cases h : n < 10
    · rw [natToDigits_lt10 h]
      have := digitVal_digitChar n
      simp [natOfDigits, this]
      omega
    · rw [natToDigits_step (by omega), natOfDigits_append_single,
        ih (n / 10) (Nat.div_lt_self (by omega) (by decide)), digitVal_digitChar]
      omega

/-- Number of digits: `n < 10^k` (for `k ≥ 1`) has at most `k` digits. -/
theorem natToDigits_length_le (k n : Nat) (hk : 1 ≤ k) (h : n < 10 ^ k) :
    (natToDigits n).length ≤ k := by
  induction k generalizing n with
  | zero => omega
  | succ k ih =>
    by_cases h10 : n < 10
    · rw [natToDigits_lt10 h10]; simp
    · rw [natToDigits_step (by omega)]
      simp
      have hk1 : 1 ≤ k := by
        cases k with
        | zero => simp at h; omega
        | succ j => omega
      apply ih (n / 10) hk1
      rw [Nat.pow_succ] at h
      exact Nat.div_lt_of_lt_mul (by omega)

/-- `10^(k-1) ≤ n` has at least `k` digits. -/
theorem natToDigits_length_ge (k n : Nat) (h : 10 ^ k ≤ n) : k + 1 ≤ (natToDigits n).length := by
  induction k generalizing n with
  | zero =>
    have := natToDigits_ne_nil n
    cases hl : natToDigits n with
    | nil => exact absurd hl this
    | cons a as => simp
  | succ k ih =>
    have h10 : 10 ≤ n := by
      have : 10 ^ 1 ≤ 10 ^ (k + 1) := Nat.pow_le_pow_right (by decide) (by omega)
      omega
    rw [natToDigits_step h10]
    simp
    apply ih
    rw [Nat.pow_succ] at h
    exact (Nat.le_div_iff_mul_le (by decide)).2 h

/-- A positive number is not written with a leading zero. -/
theorem natToDigits_head_ne_zero {n : Nat} (h : 0 < n) : (natToDigits n).head? ≠ some '0' := by
  induction n using Nat.strongRecOn with
  | _ n ih =>
    by_cases h10 : n < 10
    · rw [natToDigits_lt10 h10]
      simp
      apply digitChar_ne_zero
      omega
    · rw [natToDigits_step (by omega)]
      have hq : 0 < n / 10 := Nat.div_pos (by omega) (by decide)
      have := ih (n / 10) (Nat.div_lt_self (by omega) (by decide)) hq
      have hne := natToDigits_ne_nil (n / 10)
      cases hl : natToDigits (n / 10) with
      | nil => exact absurd hl hne
      | cons a as =>
        rw [hl] at this
        simpa using this

/-! ## Padding -/

theorem padLeft_of_le {w : Nat} {cs : List Char} (h : w ≤ cs.length) : padLeft w cs = cs := by
  unfold padLeft
  have : w - cs.length = 0 := by omega
  rw [this]; rfl

theorem natOfDigits_replicate_zero (k : Nat) (cs : List Char) :
    natOfDigits (List.replicate k '0' ++ cs) = natOfDigits cs := by
  induction k with
  | zero => rfl
  | succ k ih =>
    rw [List.replicate_succ, List.cons_append]
    unfold natOfDigits at *
    rw [List.foldl_cons]
    have : 10 * 0 + digitVal '0' = 0 := by decide
    rw [this]
    exact ih

theorem natOfDigits_padLeft (w n : Nat) : natOfDigits (padLeft w (natToDigits n)) = n := by
  unfold padLeft
  rw [natOfDigits_replicate_zero, natOfDigits_natToDigits]

theorem padLeft_all_digits (w n : Nat) : ∀ c ∈ padLeft w (natToDigits n), isDigit c = true := by
  intro c hc
  unfold padLeft at hc
  rw [List.mem_append] at hc
  rcases hc with hc | hc
  · rw [List.mem_replicate] at hc
    rw [hc.2]; decide
  · exact natToDigits_all_digits n c hc

theorem padLeft_length (w : Nat) (cs : List Char) : (padLeft w cs).length = max w cs.length := by
  unfold padLeft
  simp
  omega

/-- `{:02}` of a number below 100 is exactly two digits. -/
theorem pad2_eq {n : Nat} (h : n < 100) : pad2 n = [digitChar (n / 10), digitChar n] := by
  unfold pad2
  by_cases h10 : n < 10
  · rw [natToDigits_lt10 h10]
    have : n / 10 = 0 := by omega
    rw [this]
    rfl
  · rw [natToDigits_step (by omega), natToDigits_lt10 (by omega)]
    rfl

theorem twoDigits_pad2 {n : Nat} (h : n < 100) (rest : List Char) :
    twoDigits (pad2 n ++ rest) = some (n, rest) := by
  rw [pad2_eq h]
  simp only [List.cons_append, List.nil_append, twoDigits, digitChar_isDigit, Bool.and_self, if_true,
    digitVal_digitChar]
  congr 2
  omega

/-! ## Digit runs -/

theorem spanDigits_append (ds rest : List Char) (hd : ∀ c ∈ ds, isDigit c = true)
    (hr : rest = [] ∨ ∃ c r, rest = c :: r ∧ isDigit c = false) :
    spanDigits (ds ++ rest) = (ds, rest) := by
  induction ds with
  | nil =>
    rcases hr with rfl | ⟨c, r, rfl, hc⟩
    · rfl
    · simp [spanDigits, hc]
  | cons a as ih =>
    have ha : isDigit a = true := hd a (by simp)
    have ih' := ih (fun c hc => hd c (by simp [hc]))
    simp [spanDigits, ha, ih']

/-- A rest that does not start with a digit. -/
def NoDigitHead (rest : List Char) : Prop := rest = [] ∨ ∃ c r, rest = c :: r ∧ isDigit c = false

theorem noDigitHead_cons {c : Char} {r : List Char} (h : isDigit c = false) : NoDigitHead (c :: r) :=
  Or.inr ⟨c, r, rfl, h⟩

theorem noDigitHead_nil : NoDigitHead [] := Or.inl rfl

theorem spanDigits_natToDigits (n : Nat) (rest : List Char) (hr : NoDigitHead rest) :
    spanDigits (natToDigits n ++ rest) = (natToDigits n, rest) :=
  spanDigits_append _ _ (natToDigits_all_digits n) hr

/-! ## Duration components -/

theorem compP_natToDigits (x : Char) (n : Nat) (rest : List Char) (hx : isDigit x = false) :
    compP x (natToDigits n ++ x :: rest) = some (natToDigits n, rest) := by
  unfold compP
  rw [spanDigits_natToDigits n (x :: rest) (noDigitHead_cons hx)]
  simp [natToDigits_ne_nil]

/-- `[0-9]+X` does not match a text whose digit run is followed by another character. -/
theorem compP_none_of_other (x y : Char) (ds rest : List Char) (hd : ∀ c ∈ ds, isDigit c = true)
    (hy : isDigit y = false) (hxy : y ≠ x) : compP x (ds ++ y :: rest) = none := by
  unfold compP
  rw [spanDigits_append ds (y :: rest) hd (Or.inr ⟨y, rest, rfl, hy⟩)]
  simp [hxy]

theorem compP_nil (x : Char) : compP x [] = none := by
  simp [compP, spanDigits]

theorem parseU64_natToDigits {n : Nat} (h : n ≤ u64Max) : parseU64 (natToDigits n) = some n := by
  unfold parseU64
  rw [natOfDigits_natToDigits]
  simp [h]

end Dmn.Temporal
