import Dmn.Lemmas.RefParserNeededDeepA

/-!
# C06 — the defining equations of the reference parser, read backwards (all branches)

For ANY token list: a successful `parseExpr` / `parseLoop` / tail parse has taken one of the
branches of its definition, and the sub-parses of that branch have succeeded.  (The lemmas of
`RefParserSteps*` read the equations forwards; those of `RefParserInv` backwards with the
delimited operands known.)
-/

namespace Dmn.Ref

/-! ## `parseLoop` -/

theorem parseLoop_inst_inv' {k : Nat} {fb : Option Nat} {lhs : Tree} {rest : List Tok}
    {res : Tree × List Tok} (hm : ¬ instLvl < k) (h : parseLoop k fb lhs (.instance :: rest) = some res) :
    ∃ q rest1, rest = .kof :: .name q :: rest1 ∧
      parseLoop k none (.instOf lhs q (parseQual rest1).1) (parseQual rest1).2 = some res := by
  rw [parseLoop.eq_def] at h
  simp only [opLevel, binOf, hm, if_false] at h
  (repeat' (split at h)) <;>
    first
      | (exact absurd h (by simp))
      | exact ⟨_, _, rfl, h⟩

theorem parseLoop_dot_inv {k : Nat} {fb : Option Nat} {lhs : Tree} {rest : List Tok}
    {res : Tree × List Tok} (hm : ¬ dotLvl < k) (h : parseLoop k fb lhs (.dot :: rest) = some res) :
    ∃ n rest1, rest = .name n :: rest1 ∧ parseLoop k none (.path lhs n) rest1 = some res := by
  rw [parseLoop.eq_def] at h
  simp only [opLevel, binOf, hm, if_false] at h
  (repeat' (split at h)) <;>
    first
      | (exact absurd h (by simp))
      | exact ⟨_, _, rfl, h⟩

theorem parseLoop_filter_inv {k : Nat} {fb : Option Nat} {lhs : Tree} {rest : List Tok}
    {res : Tree × List Tok} (hm : ¬ brackLvl < k) (h : parseLoop k fb lhs (.lbrack :: rest) = some res) :
    ∃ i rest1, parseExpr 0 rest = some (i, .rbrack :: rest1) ∧
      parseLoop k none (.filter lhs i) rest1 = some res := by
  rw [parseLoop.eq_def] at h
  simp only [opLevel, binOf, hm, if_false] at h
  (repeat' (split at h)) <;>
    first
      | (exact absurd h (by simp))
      | exact ⟨_, _, by assumption, h⟩

theorem namedStart_some {rest : List Tok} {n : Nat} {rest0 : List Tok} (h : namedStart rest = some (n, rest0)) :
    rest = .name n :: .colon :: rest0 := by
  unfold namedStart at h
  split at h
  · injection h with h; injection h with h1 h2; subst h1 h2; rfl
  · cases h

theorem parseLoop_lparen_inv {k : Nat} {fb : Option Nat} {lhs : Tree} {rest : List Tok}
    {res : Tree × List Tok} (hm : ¬ parenLvl < k) (h : parseLoop k fb lhs (.lparen :: rest) = some res) :
    (∃ n rest0 v rest1 bs rest2, rest = .name n :: .colon :: rest0 ∧ parseExpr 0 rest0 = some (v, rest1) ∧
      parseBindsTail .colon .rparen rest1 = some (bs, rest2) ∧
      parseLoop k none (.callNamed lhs n v bs) rest2 = some res) ∨
    (∃ a rest1 as rest2, parseExpr 0 rest = some (a, rest1) ∧ parseArgsTail .rparen rest1 = some (as, rest2) ∧
      parseLoop k none (.call lhs (.cons a as)) rest2 = some res) ∨
    (∃ rest1, rest = .rparen :: rest1 ∧ parseLoop k none (.call lhs .nil) rest1 = some res) := by
  rw [parseLoop.eq_def] at h
  simp only [opLevel, binOf, hm, if_false] at h
  (repeat' (split at h)) <;>
    first
      | (exact absurd h (by simp))
      | exact Or.inl ⟨_, _, _, _, _, _, namedStart_some (by assumption), by assumption, by assumption, h⟩
      | exact Or.inr (Or.inl ⟨_, _, _, _, by assumption, by assumption, h⟩)
      | exact Or.inr (Or.inr ⟨_, rfl, h⟩)

theorem parseLoop_bin_inv' {k : Nat} {fb : Option Nat} {lhs : Tree} {o : BinOp} {rest : List Tok}
    {res : Tree × List Tok} (hm : ¬ lvl o < k) (h : parseLoop k fb lhs (tokOf o :: rest) = some res) :
    ¬ fb = some (lvl o) ∧
    ((∃ r rest1, parseExpr (rhsMin o) rest = some (r, rest1) ∧
        parseLoop k (nextForbid o) (.bin o lhs r) rest1 = some res) ∨
     (∃ rest0 a rest1 b more rest2, o = .in_ ∧ rest = .lparen :: rest0 ∧
        parseExpr 0 rest0 = some (a, .comma :: rest1) ∧
        parseArgsTail .rparen (.comma :: rest1) = some (.cons b more, rest2) ∧
        parseLoop k (nextForbid o) (.inList lhs a b more) rest2 = some res)) := by
  rw [parseLoop.eq_def] at h
  cases o <;> simp only [tokOf, opLevel, binOf, hm, if_false] at h <;>
    (repeat' (split at h)) <;>
    first
      | (exact absurd h (by simp))
      | (rename_i heq; simp at heq; done)
      | exact ⟨by assumption, Or.inl ⟨_, _, by assumption, h⟩⟩
      | (refine ⟨by assumption, Or.inr ?_⟩
         rename_i hf _ rest0 hi _ a rest1 hp hl _ b more rest2 ht hl2
         obtain ⟨ho, hr⟩ := inListOf_length hi
         rw [if_pos hl.2] at hp
         exact ⟨_, _, _, _, _, _, ho, hr, hp, ht, h⟩)

/-! ## `parseExpr` -/

theorem parseExpr_lparen_inv {k : Nat} {rest : List Tok} {res : Tree × List Tok}
    (h : parseExpr k (.lparen :: rest) = some res) :
    (∃ e rest1, parseExpr 0 rest = some (e, .rparen :: rest1) ∧ parseLoop k none e rest1 = some res) ∨
    (∃ r rest1, parseRange .round rest = some (r, rest1) ∧ parseLoop k none r rest1 = some res) := by
  rw [parseExpr.eq_def] at h
  simp only [] at h
  (repeat' (split at h)) <;>
    first
      | (exact absurd h (by simp))
      | exact Or.inl ⟨_, _, by assumption, h⟩
      | exact Or.inr ⟨_, _, by assumption, h⟩

theorem parseExpr_rbrack_inv {k : Nat} {rest : List Tok} {res : Tree × List Tok}
    (h : parseExpr k (.rbrack :: rest) = some res) :
    ∃ r rest1, parseRange .rev rest = some (r, rest1) ∧ parseLoop k none r rest1 = some res := by
  rw [parseExpr.eq_def] at h
  simp only [] at h
  (repeat' (split at h)) <;>
    first
      | (exact absurd h (by simp))
      | exact ⟨_, _, by assumption, h⟩

theorem parseExpr_lbrack_inv {k : Nat} {rest : List Tok} {res : Tree × List Tok}
    (h : parseExpr k (.lbrack :: rest) = some res) :
    (∃ rest1, emptyListRest rest = some rest1 ∧ parseLoop k none (.list .nil) rest1 = some res) ∨
    (∃ r rest1, parseRange .square rest = some (r, rest1) ∧ parseLoop k none r rest1 = some res) ∨
    (∃ a rest1 as rest2, parseExpr 0 rest = some (a, rest1) ∧ parseArgsTail .rbrack rest1 = some (as, rest2) ∧
      parseLoop k none (.list (.cons a as)) rest2 = some res) := by
  rw [parseExpr.eq_def] at h
  simp only [] at h
  (repeat' (split at h)) <;>
    first
      | (exact absurd h (by simp))
      | exact Or.inl ⟨_, by assumption, h⟩
      | exact Or.inr (Or.inl ⟨_, _, by assumption, h⟩)
      | exact Or.inr (Or.inr ⟨_, _, _, _, by assumption, by assumption, h⟩)

theorem parseExpr_kif_inv {k : Nat} {rest : List Tok} {res : Tree × List Tok}
    (h : parseExpr k (.kif :: rest) = some res) :
    ∃ c rest1 a rest2 b rest3, parseExpr 0 rest = some (c, .kthen :: rest1) ∧
      parseExpr 0 rest1 = some (a, .kelse :: rest2) ∧ parseExpr iteMin rest2 = some (b, rest3) ∧
      parseLoop k none (.ite c a b) rest3 = some res := by
  rw [parseExpr.eq_def] at h
  simp only [] at h
  (repeat' (split at h)) <;>
    first
      | (exact absurd h (by simp))
      | exact ⟨_, _, _, _, _, _, by assumption, by assumption, by assumption, h⟩

theorem parseExpr_kfor_inv {k : Nat} {rest : List Tok} {res : Tree × List Tok}
    (h : parseExpr k (.kfor :: rest) = some res) :
    ∃ v rest0, rest = .name v :: .kin :: rest0 ∧
    ((∃ lo rest1 hi rest2 its rest3 body rest4, parseExpr 0 rest0 = some (lo, .ellipsis :: rest1) ∧
        parseExpr 0 rest1 = some (hi, rest2) ∧ parseItersTail rest2 = some (its, rest3) ∧
        parseExpr forMin rest3 = some (body, rest4) ∧
        parseLoop k none (.forR v lo hi its body) rest4 = some res) ∨
     (∃ d rest1 its rest2 body rest3, parseExpr 0 rest0 = some (d, rest1) ∧
        parseItersTail rest1 = some (its, rest2) ∧ parseExpr forMin rest2 = some (body, rest3) ∧
        parseLoop k none (.forS v d its body) rest3 = some res)) := by
  rw [parseExpr.eq_def] at h
  split at h
  all_goals first
    | (rename_i heq; simp at heq; done)
    | skip
  · rename_i v rest0 heq
    injection heq with _ h2
    subst h2
    refine ⟨_, _, rfl, ?_⟩
    (repeat' (split at h)) <;>
      first
        | (exact absurd h (by simp))
        | exact Or.inl ⟨_, _, _, _, _, _, _, _, by assumption, by assumption, by assumption, by assumption, h⟩
        | exact Or.inr ⟨_, _, _, _, _, _, by assumption, by assumption, by assumption, h⟩
  · rename_i heq
    injection heq with h1 h2
    subst h1
    simp [cmpOf] at h

theorem parseExpr_quant_inv' {k : Nat} (ev : Bool) {rest : List Tok} {res : Tree × List Tok}
    (h : parseExpr k (quantTok ev :: rest) = some res) :
    ∃ v rest0, rest = .name v :: .kin :: rest0 ∧
      ∃ d rest1 qs rest2 body rest3, parseExpr 0 rest0 = some (d, rest1) ∧
        parseBindsTail .kin .ksatisfies rest1 = some (qs, rest2) ∧
        parseExpr (quantMin ev) rest2 = some (body, rest3) ∧
        parseLoop k none (.quant ev v d qs body) rest3 = some res := by
  rw [parseExpr.eq_def] at h
  cases ev
  all_goals
    simp only [quantTok, quantMin] at h ⊢
    split at h
    all_goals first
      | (rename_i heq; simp at heq; done)
      | skip
  all_goals first
    | (rename_i heq
       injection heq with h1 h2
       subst h1
       simp [cmpOf] at h
       done)
    | (rename_i v rest0 heq
       injection heq with _ h2
       subst h2
       refine ⟨_, _, rfl, ?_⟩
       (repeat' (split at h)) <;>
         first
           | (exact absurd h (by simp))
           | exact ⟨_, _, _, _, _, _, by assumption, by assumption, by assumption, h⟩)

theorem parseExpr_kfunction_inv {k : Nat} {rest : List Tok} {res : Tree × List Tok}
    (h : parseExpr k (.kfunction :: rest) = some res) :
    ∃ rest0, rest = .lparen :: rest0 ∧
      ∃ ps rest1 body rest2, parseParams rest0 = some (ps, rest1) ∧
        parseExpr fnMin rest1 = some (body, rest2) ∧ parseLoop k none (.fn ps body) rest2 = some res := by
  rw [parseExpr.eq_def] at h
  split at h
  all_goals first
    | (rename_i heq; simp at heq; done)
    | skip
  all_goals first
    | (rename_i heq
       injection heq with h1 h2
       subst h1
       simp [cmpOf] at h
       done)
    | (rename_i rest0 heq
       injection heq with _ h2
       subst h2
       refine ⟨_, rfl, ?_⟩
       (repeat' (split at h)) <;>
         first
           | (exact absurd h (by simp))
           | exact ⟨_, _, _, _, by assumption, by assumption, h⟩)

theorem parseExpr_lbrace_inv {k : Nat} {rest : List Tok} {res : Tree × List Tok}
    (h : parseExpr k (.lbrace :: rest) = some res) :
    (∃ rest1, rest = .rbrace :: rest1 ∧ parseLoop k none (.ctx .nil) rest1 = some res) ∨
    (∃ kt rest0 key v rest1 es rest2, rest = kt :: .colon :: rest0 ∧ keyOf kt = some key ∧
      parseExpr 0 rest0 = some (v, rest1) ∧ parseEntriesTail rest1 = some (es, rest2) ∧
      parseLoop k none (.ctx (.cons key v es)) rest2 = some res) := by
  rw [parseExpr.eq_def] at h
  split at h
  all_goals first
    | (rename_i heq; simp at heq; done)
    | skip
  all_goals first
    | (rename_i heq
       injection heq with h1 h2
       subst h1
       simp [cmpOf] at h
       done)
    | (rename_i rest0 heq
       injection heq with _ h2
       subst h2
       exact Or.inl ⟨_, rfl, h⟩)
    | (rename_i kt rest0 heq
       injection heq with _ h2
       subst h2
       refine Or.inr ?_
       (repeat' (split at h)) <;>
         first
           | (exact absurd h (by simp))
           | exact ⟨_, _, _, _, _, _, _, rfl, by assumption, by assumption, by assumption, h⟩)

theorem parseExpr_cmp_inv {k : Nat} {t : Tok} {c : Cmp} (hc : cmpOf t = some c) {rest : List Tok}
    {res : Tree × List Tok} (h : parseExpr k (t :: rest) = some res) :
    ∃ e rest1, parseEnd rest = some (e, rest1) ∧ parseLoop k none (.utest c e) rest1 = some res := by
  rw [parseExpr.eq_def] at h
  cases t <;> simp [cmpOf] at hc <;> subst hc <;> simp only [cmpOf] at h <;>
    (repeat' (split at h)) <;>
    first
      | (exact absurd h (by simp))
      | exact ⟨_, _, by assumption, h⟩

/-- Tokens that start no expression. -/
def startsExpr : Tok → Bool
  | .name _ | .num _ | .lit _ | .lparen | .rbrack | .lbrack | .minus | .kif | .kfor | .ksome | .kevery
  | .kfunction | .lbrace | .lt | .le | .gt | .ge => true
  | _ => false

theorem parseExpr_none_of_start {k : Nat} {t : Tok} (ht : startsExpr t = false) (rest : List Tok) :
    parseExpr k (t :: rest) = none := by
  rw [parseExpr.eq_def]
  cases t <;> simp [startsExpr] at ht <;> simp [cmpOf]

theorem parseExpr_nil (k : Nat) : parseExpr k [] = none := by
  rw [parseExpr.eq_def]

/-! ## The tails -/

theorem parseArgsTail_inv {close : Tok} {toks : List Tok} {as : Args} {rest' : List Tok}
    (h : parseArgsTail close toks = some (as, rest')) :
    (∃ rest a rest1 as', toks = .comma :: rest ∧ parseExpr 0 rest = some (a, rest1) ∧
      parseArgsTail close rest1 = some (as', rest') ∧ as = .cons a as' ∧ rest1.length ≤ rest.length) ∨
    (toks = close :: rest' ∧ as = .nil) := by
  rw [parseArgsTail.eq_def] at h
  (repeat' (split at h)) <;>
    first
      | (cases h; done)
      | (injection h with h; injection h with h1 h2; subst h1 h2
         exact Or.inl ⟨_, _, _, _, rfl, by assumption, by assumption, rfl, by assumption⟩)
      | (injection h with h; injection h with h1 h2; subst h1 h2
         subst_vars
         exact Or.inr ⟨rfl, rfl⟩)

theorem parseBindsTail_inv {sep close : Tok} {toks : List Tok} {bs : Binds} {rest' : List Tok}
    (h : parseBindsTail sep close toks = some (bs, rest')) :
    (∃ n rest v rest1 bs', toks = .comma :: .name n :: sep :: rest ∧ parseExpr 0 rest = some (v, rest1) ∧
      parseBindsTail sep close rest1 = some (bs', rest') ∧ bs = .cons n v bs' ∧ rest1.length ≤ rest.length) ∨
    (toks = close :: rest' ∧ bs = .nil) := by
  rw [parseBindsTail.eq_def] at h
  (repeat' (split at h)) <;>
    first
      | (cases h; done)
      | (injection h with h; injection h with h1 h2; subst h1 h2
         subst_vars
         exact Or.inl ⟨_, _, _, _, _, rfl, by assumption, by assumption, rfl, by assumption⟩)
      | (injection h with h; injection h with h1 h2; subst h1 h2
         subst_vars
         exact Or.inr ⟨rfl, rfl⟩)

theorem parseEntriesTail_inv {toks : List Tok} {es : Entries} {rest' : List Tok}
    (h : parseEntriesTail toks = some (es, rest')) :
    (∃ kt rest key v rest1 es', toks = .comma :: kt :: .colon :: rest ∧ keyOf kt = some key ∧
      parseExpr 0 rest = some (v, rest1) ∧ parseEntriesTail rest1 = some (es', rest') ∧
      es = .cons key v es' ∧ rest1.length ≤ rest.length) ∨
    (toks = .rbrace :: rest' ∧ es = .nil) := by
  rw [parseEntriesTail.eq_def] at h
  (repeat' (split at h)) <;>
    first
      | (cases h; done)
      | (injection h with h; injection h with h1 h2; subst h1 h2
         exact Or.inl ⟨_, _, _, _, _, _, rfl, by assumption, by assumption, by assumption, rfl, by assumption⟩)
      | (injection h with h; injection h with h1 h2; subst h1 h2
         exact Or.inr ⟨rfl, rfl⟩)

theorem parseItersTail_inv {toks : List Tok} {its : Iters} {rest' : List Tok}
    (h : parseItersTail toks = some (its, rest')) :
    (toks = .kreturn :: rest' ∧ its = .nil) ∨
    (∃ v rest lo rest1 hi rest2 its', toks = .comma :: .name v :: .kin :: rest ∧
      parseExpr 0 rest = some (lo, .ellipsis :: rest1) ∧ parseExpr 0 rest1 = some (hi, rest2) ∧
      parseItersTail rest2 = some (its', rest') ∧ its = .range v lo hi its' ∧
      rest1.length ≤ rest.length ∧ rest2.length ≤ rest.length) ∨
    (∃ v rest d rest1 its', toks = .comma :: .name v :: .kin :: rest ∧
      parseExpr 0 rest = some (d, rest1) ∧ parseItersTail rest1 = some (its', rest') ∧
      its = .single v d its' ∧ rest1.length ≤ rest.length) := by
  rw [parseItersTail.eq_def] at h
  (repeat' (split at h)) <;>
    first
      | (cases h; done)
      | (injection h with h; injection h with h1 h2; subst h1 h2
         exact Or.inl ⟨rfl, rfl⟩)
      | (injection h with h; injection h with h1 h2; subst h1 h2
         exact Or.inr (Or.inl ⟨_, _, _, _, _, _, _, rfl, by assumption, by assumption, by assumption, rfl,
           by assumption, by assumption⟩))
      | (injection h with h; injection h with h1 h2; subst h1 h2
         exact Or.inr (Or.inr ⟨_, _, _, _, _, rfl, by assumption, by assumption, rfl, by assumption⟩))

end Dmn.Ref
