import Mathlib.Data.Nat.Sqrt
import Dmn.Lemmas.BifsStatsExact

/-!
# Exact integer arithmetic inside the rounded operations (`/`, `sqrt`)

An exact integer quotient and the root of a perfect square come out of `Dec.divR` / `Dec.sqrtR`
exactly: the long division / the scaled integer square root produce the integer followed by
zeros, the rounding to 34 digits only removes zeros, the reduction removes the rest.
-/

namespace Dmn
namespace Bif

/-- a reduced representation of `±c` -/
theorem rep_mk (s : Bool) (c' t' : Nat) : Rep ⟨s, c', (t' : Int)⟩ (if s then -((c' * 10 ^ t' : Nat) : Int) else ((c' * 10 ^ t' : Nat) : Int)) := by
  refine ⟨Int.natCast_nonneg _, ?_⟩
  show Dec.scoeff ⟨s, c', (t' : Int)⟩ * 10 ^ ((t' : Int)).toNat = _
  unfold Dec.scoeff
  cases s <;> simp

theorem stripZeros_pow (fuel c t : Nat) (e : Int) (hc : c ≠ 0) :
    Dec.stripZeros (fuel + t) (c * 10 ^ t) e = Dec.stripZeros fuel c (e + t) := by
  induction t generalizing e with
  | zero => simp
  | succ t ih =>
    have h1 : c * 10 ^ (t + 1) ≠ 0 := Nat.mul_ne_zero hc (by positivity)
    have h2 : c * 10 ^ (t + 1) % 10 = 0 := by rw [Nat.pow_succ, ← Nat.mul_assoc]; exact Nat.mul_mod_left _ _
    have h3 : c * 10 ^ (t + 1) / 10 = c * 10 ^ t := by rw [Nat.pow_succ, ← Nat.mul_assoc]; exact Nat.mul_div_cancel _ (by decide)
    rw [show fuel + (t + 1) = (fuel + t) + 1 by omega, Dec.stripZeros]
    rw [if_pos (by simp [h1, h2]), h3, ih]
    congr 1
    push_cast; ring

/-- the reduction of `c · 10^t E−t` is a representation of `c` with a non-negative exponent -/
theorem reduce_scaled (s : Bool) (c t : Nat) (hc : c ≠ 0) (ht : t ≤ 120) :
    Rep (Dec.reduce ⟨s, c * 10 ^ t, -(t : Int)⟩) (if s then -(c : Int) else (c : Int)) := by
  unfold Dec.reduce
  have h0 : ¬ ((c * 10 ^ t == 0) = true) := by
    simp only [beq_iff_eq]; exact Nat.mul_ne_zero hc (by positivity)
  simp only
  rw [if_neg h0]
  have hsp := stripZeros_pow (120 - t) c t (-(t : Int)) hc
  rw [show 120 - t + t = 120 by omega] at hsp
  rw [hsp]
  obtain ⟨t', h1, h2⟩ := stripZeros_spec (120 - t) c (-(t : Int) + t)
  generalize Dec.stripZeros (120 - t) c (-(t : Int) + t) = r at h1 h2
  obtain ⟨c', e'⟩ := r
  simp only at h1 h2 ⊢
  have he : e' = (t' : Int) := by omega
  subst he
  have := rep_mk s c' t'
  rw [← h1] at this
  exact this

theorem lt_pow_digits (q : Nat) : q < 10 ^ Dec.digits q := by
  have hpos : 0 < Dec.digits q := Nat.length_toDigits_pos
  exact (Nat.length_toDigits_le_iff (b := 10) (n := q) (k := Dec.digits q) (by decide) hpos).mp (Nat.le_refl _)

/-- rounding `w · 10^j E−j` to 34 digits only removes zeros when `w` has at most 34 digits -/
theorem round34_exact (s : Bool) (w j : Nat) (hw : w < 10 ^ 34) :
    ∃ j' : Nat, j' ≤ j ∧ Dec.round34 s (w * 10 ^ j) (-(j : Int)) = ⟨s, w * 10 ^ j', -(j' : Int)⟩ := by
  unfold Dec.round34
  simp only
  by_cases hnd : Dec.digits (w * 10 ^ j) ≤ 34
  · rw [if_pos hnd]; exact ⟨j, Nat.le_refl _, rfl⟩
  · rw [if_neg hnd]
    generalize hdr : Dec.digits (w * 10 ^ j) - 34 = dr
    have hq_lt : w * 10 ^ j < 10 ^ (34 + j) := by
      rw [Nat.pow_add]; exact Nat.mul_lt_mul_of_pos_right hw (by positivity)
    have hnd2 : Dec.digits (w * 10 ^ j) ≤ 34 + j :=
      (Nat.length_toDigits_le_iff (by decide) (by omega)).mpr hq_lt
    have hdrj : dr ≤ j := by omega
    have hdr1 : 1 ≤ dr := by omega
    have hsplit : w * 10 ^ j = w * 10 ^ (j - dr) * 10 ^ dr := by
      rw [Nat.mul_assoc, ← Nat.pow_add]; congr 2; omega
    have hdiv : w * 10 ^ j / 10 ^ dr = w * 10 ^ (j - dr) := by
      rw [hsplit]; exact Nat.mul_div_cancel _ (by positivity)
    have hmod : w * 10 ^ j % 10 ^ dr = 0 := by
      rw [hsplit]; exact Nat.mul_mod_left _ _
    have hhalf : 10 ^ dr / 2 ≠ 0 := by
      have : 10 ≤ 10 ^ dr := by
        calc 10 = 10 ^ 1 := by norm_num
          _ ≤ 10 ^ dr := Nat.pow_le_pow_right (by decide) hdr1
      omega
    rw [hdiv, hmod]
    have hcond : ¬ ((decide (0 > 10 ^ dr / 2) || (0 == 10 ^ dr / 2 && w * 10 ^ (j - dr) % 2 == 1)) = true) := by
      have h1 : ¬ (0 > 10 ^ dr / 2) := by omega
      have h2 : ¬ ((0 == 10 ^ dr / 2) = true) := by
        simp only [beq_iff_eq]; exact fun h => hhalf h.symm
      simp [h1, h2]
    rw [if_neg hcond]
    have hq' : w * 10 ^ (j - dr) < 10 ^ 34 := by
      have h1 := lt_pow_digits (w * 10 ^ j)
      have h2 : Dec.digits (w * 10 ^ j) = 34 + dr := by omega
      rw [h2, hsplit, Nat.pow_add] at h1
      exact Nat.lt_of_mul_lt_mul_right h1
    have hne : ¬ ((w * 10 ^ (j - dr) == 10 ^ 34) = true) := by
      simp only [beq_iff_eq]; omega
    rw [if_neg hne]
    refine ⟨j - dr, Nat.sub_le _ _, ?_⟩
    congr 1
    omega

/-- `x / y` for an exact integer quotient -/
theorem divR_rep {a b : Dec} {x y : Int} (ha : Rep a x) (hb : Rep b y) (hy : y ≠ 0) (hdvd : y ∣ x)
    (hx : x.natAbs < 10 ^ 34) : Rep (Dec.divR a b) (x / y) := by
  obtain ⟨m, hm⟩ := hdvd
  have hquot : x / y = m := by rw [hm]; exact Int.mul_ediv_cancel_left _ hy
  rw [hquot]
  obtain ⟨hae, hav⟩ := ha
  obtain ⟨hbe, hbv⟩ := hb
  obtain ⟨na, A, ea'⟩ := a
  obtain ⟨nb, B, eb'⟩ := b
  simp only at hae hbe hav hbv
  obtain ⟨ea, rfl⟩ := Int.eq_ofNat_of_zero_le hae
  obtain ⟨eb, rfl⟩ := Int.eq_ofNat_of_zero_le hbe
  simp only [Int.toNat_natCast] at hav hbv
  -- the magnitudes
  have hxa : x.natAbs = A * 10 ^ ea := by
    rw [← hav, Int.natAbs_mul, scoeff_natAbs, Int.natAbs_pow]; rfl
  have hya : y.natAbs = B * 10 ^ eb := by
    rw [← hbv, Int.natAbs_mul, scoeff_natAbs, Int.natAbs_pow]; rfl
  have hmag : A * 10 ^ ea = B * 10 ^ eb * m.natAbs := by
    rw [← hxa, ← hya, ← Int.natAbs_mul, hm]
  unfold Dec.divR
  simp only
  by_cases hA : (A == 0) = true
  · rw [if_pos hA]
    have hA0 : A = 0 := by simpa using hA
    have hx0 : x = 0 := by
      have : x.natAbs = 0 := by rw [hxa, hA0]; simp
      exact Int.natAbs_eq_zero.mp this
    have hm0 : m = 0 := by
      rw [hx0] at hm
      rcases Int.mul_eq_zero.mp hm.symm with h | h
      · exact absurd h hy
      · exact h
    rw [hm0]
    refine ⟨Int.le_refl _, ?_⟩
    simp [Dec.scoeff]
  · rw [if_neg hA]
    have hA0 : A ≠ 0 := by simpa using hA
    have hB0 : B ≠ 0 := by
      intro h; rw [h] at hya; simp at hya; exact hy hya
    have hw0 : m.natAbs ≠ 0 := by
      intro h
      rw [h, Nat.mul_zero] at hmag
      exact Nat.mul_ne_zero hA0 (by positivity) hmag
    rw [hxa] at hx
    have hea : ea < 34 := by
      by_contra hge
      have : 10 ^ 34 ≤ A * 10 ^ ea :=
        calc 10 ^ 34 ≤ 10 ^ ea := Nat.pow_le_pow_right (by decide) (by omega)
          _ ≤ A * 10 ^ ea := Nat.le_mul_of_pos_left _ (Nat.pos_of_ne_zero hA0)
      omega
    have hBle : B * 10 ^ eb ≤ A * 10 ^ ea := by
      rw [hmag]; exact Nat.le_mul_of_pos_right _ (Nat.pos_of_ne_zero hw0)
    have heb : eb < 34 := by
      by_contra hge
      have : 10 ^ 34 ≤ B * 10 ^ eb :=
        calc 10 ^ 34 ≤ 10 ^ eb := Nat.pow_le_pow_right (by decide) (by omega)
          _ ≤ B * 10 ^ eb := Nat.le_mul_of_pos_left _ (Nat.pos_of_ne_zero hB0)
      omega
    have hB34 : B < 10 ^ 34 := by
      have : B ≤ B * 10 ^ eb := Nat.le_mul_of_pos_right _ (by positivity)
      omega
    have hw34 : m.natAbs < 10 ^ 34 := by
      have h1 : m.natAbs ≤ B * 10 ^ eb * m.natAbs := Nat.le_mul_of_pos_left _ (Nat.mul_pos (Nat.pos_of_ne_zero hB0) (by positivity))
      omega
    have hdB : Dec.digits B ≤ 34 := digits_le_34 hB34
    generalize hk : 36 + Dec.digits B = k
    have hk1 : ea ≤ k := by omega
    have hk2 : k ≤ 70 := by omega
    -- the long division is exact
    have hnum : A * 10 ^ k = B * (m.natAbs * 10 ^ (eb + k - ea)) := by
      calc A * 10 ^ k = A * 10 ^ ea * 10 ^ (k - ea) := by
            rw [Nat.mul_assoc, ← Nat.pow_add]; congr 2; omega
        _ = B * 10 ^ eb * m.natAbs * 10 ^ (k - ea) := by rw [hmag]
        _ = B * (m.natAbs * (10 ^ eb * 10 ^ (k - ea))) := by ring
        _ = B * (m.natAbs * 10 ^ (eb + k - ea)) := by
            rw [← Nat.pow_add]; congr 3; omega
    have hq : A * 10 ^ k / B = m.natAbs * 10 ^ (eb + k - ea) := by
      rw [hnum]; exact Nat.mul_div_cancel_left _ (Nat.pos_of_ne_zero hB0)
    have hr : A * 10 ^ k % B = 0 := by rw [hnum]; exact Nat.mul_mod_right _ _
    rw [hr, hq]
    simp only [beq_self_eq_true, if_true]
    have hexp : (ea : Int) - eb - k = -((eb + k - ea : Nat) : Int) := by omega
    rw [hexp]
    obtain ⟨j', hj', hround⟩ := round34_exact (na != nb) m.natAbs (eb + k - ea) hw34
    rw [hround]
    have hrep := reduce_scaled (na != nb) m.natAbs j' hw0 (by omega)
    -- the sign
    have hsign : (if (na != nb) = true then -(m.natAbs : Int) else (m.natAbs : Int)) = m := by
      have hyne : (0 : Int) < (B : Int) * 10 ^ eb := by positivity
      have hxe : x = (if na then -(A : Int) else A) * 10 ^ ea := by rw [← hav]; rfl
      have hye : y = (if nb then -(B : Int) else B) * 10 ^ eb := by rw [← hbv]; rfl
      have hmagI : (A : Int) * 10 ^ ea = (B : Int) * 10 ^ eb * (m.natAbs : Int) := by exact_mod_cast hmag
      apply mul_left_cancel₀ hy
      rw [← hm, hxe, hye]
      cases na <;> cases nb <;> simp <;> linarith [hmagI]
    rw [hsign] at hrep
    exact hrep

end Bif
end Dmn
