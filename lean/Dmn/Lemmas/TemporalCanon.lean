import Dmn.Lemmas.TemporalDtdGrammar

/-!
# `print (parse s)` is the canonical text of the value (C14)

Whatever a recogniser accepts is a value whose text reads back as the same value: the hypotheses of
the round trips (`parseDate_printDate`, `parseTime_printTime`, …) hold of every parsed value. So all
the texts of one value (`10:00:00.50+02:00:00`, `10:00:00.5+02:00`) print as one text, and that text
is a fixed point of `print ∘ parse`.
-/

namespace Dmn.Temporal
open Dmn.Cal

/-- The zone a zone suffix denotes is one whose text reads back. -/
theorem ZoneText.readable {zk : List Char → Bool} {cs : List Char} {z : Zone}
    (h : ZoneText zk cs (some z)) : ZoneReadable zk z := by
  have offs : ∀ (neg : Bool) (hh mm ss : Nat), offsetZone neg hh mm ss = some z → ZoneReadable zk z := by
    intro neg hh mm ss ho
    unfold offsetZone at ho
    split at ho
    · cases ho
    · rename_i hr
      injection ho with ho
      subst ho
      generalize ho : (if neg = true then -((3600 * hh + 60 * mm + ss : Nat) : Int) else ((3600 * hh + 60 * mm + ss : Nat) : Int)) = o
      have hlo : -54000 < o := by subst ho; cases neg <;> simp <;> omega
      have hhi : o < 54000 := by subst ho; cases neg <;> simp <;> omega
      unfold Zone.new
      by_cases hne : o ≠ 0
      · rw [if_pos hne]
        exact ⟨hne, hlo, hhi⟩
      · rw [if_neg hne]
        trivial
  generalize hz : some z = oz at h
  cases h with
  | «local» => injection hz with hz; subst hz; trivial
  | zuluLower => injection hz with hz; subst hz; trivial
  | zuluUpper => injection hz with hz; subst hz; trivial
  | named name hne hall =>
    by_cases hk : zk name = true
    · simp only [hk, if_true] at hz
      injection hz with hz
      subst hz
      exact ⟨hne, hall, hk⟩
    · simp [hk] at hz
  | offset neg h1 h2 m1 m2 => exact offs neg _ _ _ hz.symm
  | offsetSeconds neg h1 h2 m1 m2 s1 s2 => exact offs neg _ _ _ hz.symm

theorem TimeText.zone_readable {zk : List Char → Bool} {cs : List Char} {h mi s ns : Nat} {z : Zone}
    (ht : TimeText zk cs h mi s ns (some z)) : ZoneReadable zk z := by
  obtain ⟨_, _, _, _, _, _, _, ztext, _, _, _, _, _, _, _, _, _, _, _, hz⟩ := ht
  exact hz.readable

/-- The text of the date a text denotes reads back as that date. -/
theorem parseDate_canonical {cs : List Char} {d : Date} (h : parseDate cs = some d) :
    parseDate (printDate d) = some d :=
  parseDate_printDate d (parseDate_valid h)

theorem parseTime_canonical (zk : List Char → Bool) {cs : List Char} {t : Time} (h : parseTime zk cs = some t) :
    parseTime zk (printTime t) = some t := by
  obtain ⟨ht, hv⟩ := (parseTime_iff zk cs t).1 h
  exact parseTime_printTime zk t ((isValidTime_iff _ _ _).2 hv) ht.ns_lt ht.zone_readable

theorem parseDateTime_canonical (zk : List Char → Bool) {cs : List Char} {dt : DateTime}
    (h : parseDateTime zk cs = some dt) : parseDateTime zk (printDateTime dt) = some dt := by
  obtain ⟨rest, hd, ht, hvd, hvt⟩ := (parseDateTime_iff zk cs dt).1 h
  have hr := hd.year_range
  exact parseDateTime_printDateTime zk dt (by rw [isValidDate_eq _ _ _ hr.1 hr.2]; exact hvd)
    ((isValidTime_iff _ _ _).2 hvt) ht.ns_lt ht.zone_readable

theorem parseYmDur_canonical {cs : List Char} {n : Int} (h : parseYmDur cs = .ok n) :
    parseYmDur (printYmDur n) = .ok n := by
  have hr := (parseYmDur_range cs).2 n h
  exact parseYmDur_printYmDur n (by unfold i64Min i64Max at *; omega) hr.2

/-! ## No panic is left in the days-and-time recogniser -/

theorem dtFinish_ne_panic (neg : Bool) (ds : Option (List Char))
    (tp : Option (Option (List Char) × Option (List Char) × Option (List Char) × Option (List Char))) :
    dtFinish neg ds tp ≠ .panic := by
  unfold dtFinish
  split
  · intro h; cases h
  · simp only
    split
    · intro h; cases h
    · split <;> (intro h; cases h)

theorem parseDtDur_ne_panic (cs : List Char) : parseDtDur cs ≠ .panic := by
  by_cases hneg : ∃ r, cs = '-' :: 'P' :: r
  · obtain ⟨r, rfl⟩ := hneg
    rw [parseDtDur_neg]
    exact dtFinish_ne_panic _ _ _
  · by_cases hpos : ∃ r, cs = 'P' :: r
    · obtain ⟨r, rfl⟩ := hpos
      rw [parseDtDur_pos]
      exact dtFinish_ne_panic _ _ _
    · intro h
      unfold parseDtDur at h
      split at h
      rename_i neg cs' hcs
      split at hcs
      · rename_i r
        injection hcs with h1 h2
        subst h1 h2
        split at h
        · rename_i r'
          exact hneg ⟨r', rfl⟩
        · cases h
      · injection hcs with h1 h2
        subst h1 h2
        split at h
        · rename_i r' _
          exact hpos ⟨r', rfl⟩
        · cases h

/-- No text with a character outside ASCII is a duration of either kind. -/
theorem bifDuration_non_ascii (cs : List Char) (c : Char) (hc : c ∈ cs) (h : 128 ≤ c.toNat) :
    bifDuration cs = .null := by
  have hym : parseYmDur cs = .reject := by
    cases hp : parseYmDur cs with
    | reject => rfl
    | panic => exact absurd hp (parseYmDur_range cs).1
    | ok n =>
      obtain ⟨neg, ys, ms, ht, _⟩ := (parseYmDur_iff cs n).1 hp
      have := ht.ascii c hc
      omega
  have hdt : parseDtDur cs = .reject := by
    cases hp : parseDtDur cs with
    | reject => rfl
    | panic => exact absurd hp (parseDtDur_ne_panic cs)
    | ok n =>
      obtain ⟨neg, ds, hs, ms, ss, fs, ht, _⟩ := (parseDtDur_iff cs n).1 hp
      have := ht.ascii c hc
      omega
  unfold bifDuration
  rw [hym, hdt]

end Dmn.Temporal
