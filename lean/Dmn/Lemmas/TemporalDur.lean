import Dmn.Lemmas.TemporalText

/-!
# Duration literals: `parse ∘ print = id` (C14)

Round trips of the years-and-months and days-and-time duration literals of
`Dmn/Model/Temporal.lean`, the fraction round trip (`fracNanos ∘ nanosToString`), and the normal
form of the printed components.
-/

namespace Dmn.Temporal
open Dmn.Cal

/-! ## Optional components -/

theorem optCompP_compStr (x : Char) (v : Nat) (rest : List Char) (hx : isDigit x = false)
    (hrest : compP x rest = none) :
    optCompP x (compStr v x ++ rest) = (if v > 0 then some (natToDigits v) else none, rest) := by
  unfold optCompP compStr
  by_cases h : v > 0
  · simp only [h, if_true, List.append_assoc, List.singleton_append]
    rw [compP_natToDigits x v rest hx]
  · simp only [h, if_false, List.nil_append]
    rw [hrest]

/-- A text on which `[0-9]+x` fails: empty, or a digit run followed by a non-digit other than `x`. -/
def NoComp (x : Char) (l : List Char) : Prop :=
  l = [] ∨ ∃ ds y r, l = ds ++ y :: r ∧ (∀ c ∈ ds, isDigit c = true) ∧ isDigit y = false ∧ y ≠ x

theorem compP_none_of_noComp {x : Char} {l : List Char} (h : NoComp x l) : compP x l = none := by
  rcases h with rfl | ⟨ds, y, r, rfl, hd, hy, hxy⟩
  · exact compP_nil x
  · exact compP_none_of_other x y ds r hd hy hxy

theorem noComp_nil (x : Char) : NoComp x [] := Or.inl rfl

theorem noComp_cons {x y : Char} (r : List Char) (hy : isDigit y = false) (hxy : y ≠ x) :
    NoComp x (y :: r) :=
  Or.inr ⟨[], y, r, rfl, by simp, hy, hxy⟩

theorem noComp_digits {x y : Char} (v : Nat) (r : List Char) (hy : isDigit y = false) (hxy : y ≠ x) :
    NoComp x (natToDigits v ++ y :: r) :=
  Or.inr ⟨natToDigits v, y, r, rfl, natToDigits_all_digits v, hy, hxy⟩

theorem noComp_compStr {x y : Char} (v : Nat) (r : List Char) (hy : isDigit y = false) (hxy : y ≠ x)
    (hr : NoComp x r) : NoComp x (compStr v y ++ r) := by
  unfold compStr
  by_cases h : v > 0
  · simp only [h, if_true, List.append_assoc, List.singleton_append]
    exact noComp_digits v r hy hxy
  · simp only [h, if_false, List.nil_append]
    exact hr

theorem noComp_compStr' {x y : Char} (v : Nat) (hy : isDigit y = false) (hxy : y ≠ x) :
    NoComp x (compStr v y) := by
  have := noComp_compStr v [] hy hxy (noComp_nil x)
  rwa [List.append_nil] at this

/-! ## Values of optional components -/

theorem bind_parseU64_comp {v : Nat} (h : v ≤ u64Max) :
    (if v > 0 then some (natToDigits v) else none : Option (List Char)).bind parseU64 =
      if v > 0 then some v else none := by
  by_cases hv : v > 0
  · simp only [hv, if_true, Option.bind_some, parseU64_natToDigits h]
  · simp only [hv, if_false, Option.bind_none]

theorem getD_comp (v : Nat) : (if v > 0 then some v else none : Option Nat).getD 0 = v := by
  by_cases hv : v > 0
  · simp only [hv, if_true, Option.getD_some]
  · simp only [hv, if_false, Option.getD_none]; omega

theorem isSome_comp (v : Nat) : (if v > 0 then some v else none : Option Nat).isSome = decide (v > 0) := by
  by_cases hv : v > 0 <;> simp [hv]

/-! ## Years and months -/

/-- The years-and-months recogniser after the sign and `P`. -/
def ymFinish (neg : Bool) (ys ms : Option (List Char)) : Lit Int :=
  let afterYears : Option Int :=
    match ys with
    | some d => (parseI64 d).bind (fun y => if y * 12 ≤ i64Max then some (y * 12) else none)
    | none => some 0
  match afterYears with
  | none => .reject
  | some t =>
    let afterMonths : Option Int :=
      match ms with
      | some d => (parseI64 d).bind (fun m => if t + m ≤ i64Max then some (t + m) else none)
      | none => some t
    match afterMonths with
    | none => .reject
    | some t =>
      let t := if neg then -t else t
      if ys.isSome ∨ ms.isSome then .ok t else .reject

theorem parseYmDur_pos (r : List Char) :
    parseYmDur ('P' :: r) =
      if (optCompP 'M' (optCompP 'Y' r).2).2 ≠ [] then .reject
      else ymFinish false (optCompP 'Y' r).1 (optCompP 'M' (optCompP 'Y' r).2).1 := rfl

theorem parseYmDur_neg (r : List Char) :
    parseYmDur ('-' :: 'P' :: r) =
      if (optCompP 'M' (optCompP 'Y' r).2).2 ≠ [] then .reject
      else ymFinish true (optCompP 'Y' r).1 (optCompP 'M' (optCompP 'Y' r).2).1 := rfl

theorem parseI64_natToDigits {v : Nat} (h : (v : Int) ≤ i64Max) :
    parseI64 (natToDigits v) = some (v : Int) := by
  unfold parseI64
  rw [natOfDigits_natToDigits]
  simp [h]

theorem ymFinish_comp (neg : Bool) (y m : Nat) (hfit : (y : Int) * 12 + m ≤ i64Max)
    (hpos : y > 0 ∨ m > 0) :
    ymFinish neg (if y > 0 then some (natToDigits y) else none)
        (if m > 0 then some (natToDigits m) else none) =
      .ok (if neg then -((y : Int) * 12 + m) else (y : Int) * 12 + m) := by
  have hyi : (y : Int) ≤ i64Max := by unfold i64Max at *; omega
  have hmi : (m : Int) ≤ i64Max := by unfold i64Max at *; omega
  have hy12 : (y : Int) * 12 ≤ i64Max := by unfold i64Max at *; omega
  have hm0 : 0 + (m : Int) ≤ i64Max := by omega
  unfold ymFinish
  by_cases h1 : y > 0 <;> by_cases h2 : m > 0
  · simp only [h1, h2, if_true, parseI64_natToDigits hyi, parseI64_natToDigits hmi, Option.bind_some,
      hy12, hfit, Option.isSome_some, true_or]
  · have : m = 0 := by omega
    subst this
    simp only [h1, h2, if_true, if_false, parseI64_natToDigits hyi, Option.bind_some, hy12,
      Option.isSome_some, true_or]
    simp
  · have : y = 0 := by omega
    subst this
    simp only [h1, h2, if_true, if_false, parseI64_natToDigits hmi, Option.bind_some, hm0,
      Option.isSome_some, or_true]
    simp
  · omega

theorem ym_body (y m : Nat) :
    optCompP 'M' (optCompP 'Y' (compStr y 'Y' ++ compStr m 'M')).2 =
      (if m > 0 then some (natToDigits m) else none, []) ∧
    (optCompP 'Y' (compStr y 'Y' ++ compStr m 'M')).1 = (if y > 0 then some (natToDigits y) else none) := by
  have hY := optCompP_compStr 'Y' y (compStr m 'M') (by decide)
    (compP_none_of_noComp (noComp_compStr' m (by decide) (by decide)))
  have hM := optCompP_compStr 'M' m [] (by decide) (compP_nil _)
  rw [List.append_nil] at hM
  rw [hY]
  exact ⟨hM, rfl⟩

/-- Years-and-months round trip. -/
theorem parseYmDur_printYmDur (n : Int) (h0 : i64Min < n) (h1 : n ≤ i64Max) :
    parseYmDur (printYmDur n) = .ok n := by
  unfold printYmDur
  simp only []
  by_cases hz : n.natAbs / 12 = 0 ∧ n.natAbs % 12 = 0
  · rw [if_pos hz]
    have : n = 0 := by omega
    subst this
    decide
  · rw [if_neg hz]
    obtain ⟨hb1, hb2⟩ := ym_body (n.natAbs / 12) (n.natAbs % 12)
    have hfit : ((n.natAbs / 12 : Nat) : Int) * 12 + ((n.natAbs % 12 : Nat) : Int) ≤ i64Max := by
      unfold i64Max i64Min at *; omega
    have hpos : n.natAbs / 12 > 0 ∨ n.natAbs % 12 > 0 := by omega
    by_cases hn : n < 0
    · rw [if_pos hn]
      show parseYmDur ('-' :: 'P' :: _) = _
      rw [parseYmDur_neg, hb1, hb2]
      simp only [ne_eq, not_true, if_false]
      rw [ymFinish_comp true _ _ hfit hpos]
      simp only [if_true]
      congr 1
      omega
    · rw [if_neg hn]
      show parseYmDur ('P' :: _) = _
      rw [parseYmDur_pos, hb1, hb2]
      simp only [ne_eq, not_true, if_false]
      rw [ymFinish_comp false _ _ hfit hpos]
      simp only [Bool.false_eq_true, if_false]
      congr 1
      omega

/-! ## Every accepted years-and-months literal is in range, none panics -/

theorem parseI64_nonneg {ds : List Char} {y : Int} (h : parseI64 ds = some y) : 0 ≤ y ∧ y ≤ i64Max := by
  unfold parseI64 at h
  simp only [] at h
  split at h
  · injection h with h; subst h; constructor <;> omega
  · cases h

theorem ymFinish_range (neg : Bool) (ys ms : Option (List Char)) :
    ymFinish neg ys ms ≠ .panic ∧ ∀ n, ymFinish neg ys ms = .ok n → -i64Max ≤ n ∧ n ≤ i64Max := by
  have hi : i64Max = 9223372036854775807 := rfl
  unfold ymFinish
  cases ys with
  | none =>
    cases ms with
    | none => simp
    | some dm =>
      cases hm : parseI64 dm with
      | none => simp [hm]
      | some m =>
        have := parseI64_nonneg hm
        by_cases c : m ≤ i64Max
        · simp [hm, c]; cases neg <;> simp <;> omega
        · simp [hm, c]
  | some dy =>
    cases hy : parseI64 dy with
    | none => simp [hy]
    | some y =>
      have h1 := parseI64_nonneg hy
      by_cases c1 : y * 12 ≤ i64Max
      · cases ms with
        | none => simp [hy, c1]; cases neg <;> simp <;> omega
        | some dm =>
          cases hm : parseI64 dm with
          | none => simp [hy, c1, hm]
          | some m =>
            have h2 := parseI64_nonneg hm
            by_cases c2 : y * 12 + m ≤ i64Max
            · simp [hy, c1, hm, c2]; cases neg <;> simp <;> omega
            · simp [hy, c1, hm, c2]
      · simp [hy, c1]

theorem parseYmDur_range (cs : List Char) :
    parseYmDur cs ≠ .panic ∧ ∀ n, parseYmDur cs = .ok n → -i64Max ≤ n ∧ n ≤ i64Max := by
  unfold parseYmDur
  split
  rename_i neg cs' h
  split
  · split
    rename_i ys r1 hY
    simp only [ne_eq, ite_not]
    split
    · exact ymFinish_range neg ys (optCompP 'M' r1).1
    · simp
  · simp

/-! ## Fractions -/

theorem takeWhile_all (p : Char → Bool) (l : List Char) : ∀ c ∈ l.takeWhile p, p c = true := by
  induction l with
  | nil => intro c hc; simp at hc
  | cons a as ih =>
    intro c hc
    rw [List.takeWhile_cons] at hc
    by_cases ha : p a = true
    · rw [if_pos ha] at hc
      rcases List.mem_cons.1 hc with rfl | h
      · exact ha
      · exact ih c h
    · rw [if_neg ha] at hc
      simp at hc

theorem dropTrailingZeros_split (ds : List Char) :
    ∃ k, ds = dropTrailingZeros ds ++ List.replicate k '0' := by
  refine ⟨(ds.reverse.takeWhile (· == '0')).length, ?_⟩
  have h := List.takeWhile_append_dropWhile (p := (· == '0')) (l := ds.reverse)
  have hrep : ds.reverse.takeWhile (· == '0') =
      List.replicate (ds.reverse.takeWhile (· == '0')).length '0' := by
    rw [List.eq_replicate_iff]
    refine ⟨rfl, ?_⟩
    intro c hc
    have := takeWhile_all _ _ c hc
    simpa using this
  have h2 : ds = (ds.reverse.dropWhile (· == '0')).reverse ++ (ds.reverse.takeWhile (· == '0')).reverse := by
    rw [← List.reverse_append, h, List.reverse_reverse]
  unfold dropTrailingZeros
  rw [hrep, List.reverse_replicate] at h2
  exact h2

theorem dropTrailingZeros_mem {ds : List Char} {c : Char} (h : c ∈ dropTrailingZeros ds) : c ∈ ds := by
  unfold dropTrailingZeros at h
  rw [List.mem_reverse] at h
  have := (List.dropWhile_sublist (· == '0') (l := ds.reverse)).subset h
  exact List.mem_reverse.1 this

theorem nanosToString_all_digits (ns : Nat) : ∀ c ∈ nanosToString ns, isDigit c = true := by
  intro c hc
  unfold nanosToString at hc
  exact padLeft_all_digits 9 _ c (dropTrailingZeros_mem hc)

theorem nanos_pad_length {ns : Nat} (h1 : ns < 1000000000) :
    (padLeft 9 (natToDigits ns)).length = 9 := by
  rw [padLeft_length]
  have := natToDigits_length_le 9 ns (by decide) (by omega)
  omega

theorem nanosToString_ne_nil {ns : Nat} (h0 : 0 < ns) (h1 : ns < 1000000000) : nanosToString ns ≠ [] := by
  intro he
  unfold nanosToString at he
  rw [Nat.mod_eq_of_lt h1] at he
  obtain ⟨k, hk⟩ := dropTrailingZeros_split (padLeft 9 (natToDigits ns))
  rw [he, List.nil_append] at hk
  have hv := natOfDigits_padLeft 9 ns
  rw [hk] at hv
  have := natOfDigits_replicate_zero k []
  rw [List.append_nil] at this
  rw [this] at hv
  have : natOfDigits [] = 0 := rfl
  omega

theorem fracNanos_nanosToString {ns : Nat} (h0 : 0 < ns) (h1 : ns < 1000000000) :
    fracNanos (nanosToString ns) = ns := by
  have _ := h0
  unfold fracNanos nanosToString
  rw [Nat.mod_eq_of_lt h1]
  obtain ⟨k, hk⟩ := dropTrailingZeros_split (padLeft 9 (natToDigits ns))
  have hlen := nanos_pad_length h1
  generalize dropTrailingZeros (padLeft 9 (natToDigits ns)) = t at hk
  have hl : t.length + k = 9 := by
    rw [hk] at hlen
    simpa using hlen
  have : (t ++ List.replicate 9 '0').take 9 = padLeft 9 (natToDigits ns) := by
    rw [hk, List.take_append, List.take_replicate]
    have h9 : List.take 9 t = t := List.take_of_length_le (by omega)
    rw [h9]
    congr 2
    omega
  rw [this]
  exact natOfDigits_padLeft 9 ns

/-! ## Days and time -/

/-- The optional time part (`T…` up to the end of the text) of a days-and-time literal. -/
def dtTimePart (r : List Char) :
    Option (Option (List Char) × Option (List Char) × Option (List Char) × Option (List Char)) :=
  match r with
  | [] => some (none, none, none, none)
  | 'T' :: r =>
    if r = [] then none
    else
    let (hs, r) := optCompP 'H' r
    let (ms, r) := optCompP 'M' r
    let (ss, r') := spanDigits r
    if ss = [] then (if r = [] then some (hs, ms, none, none) else none)
    else
      match r' with
      | ['S'] => some (hs, ms, some ss, none)
      | '.' :: r'' =>
        let (fs, r''') := spanDigits r''
        if r''' = ['S'] then some (hs, ms, some ss, some fs) else none
      | _ => none
  | _ => none

/-- Value of the fraction digits: an empty fraction contributes nothing. -/
def fracVal (fs : Option (List Char)) : Option Nat :=
  match fs with
  | some f => if f = [] then none else some (fracNanos f)
  | none => none

/-- The evaluation of the recognised components. -/
def dtFinish (neg : Bool) (ds : Option (List Char))
    (timePart : Option (Option (List Char) × Option (List Char) × Option (List Char) × Option (List Char))) :
    Lit Int :=
  match timePart with
  | none => .reject
  | some (hs, ms, ss, fs) =>
    let dv := ds.bind parseU64
    let hv := hs.bind parseU64
    let mv := ms.bind parseU64
    let sv := ss.bind parseU64
    let fv : Option Nat := fracVal fs
    let n : Int := (dv.getD 0 : Nat) * nsPerDay + (hv.getD 0 : Nat) * nsPerHour +
      (mv.getD 0 : Nat) * nsPerMinute + (sv.getD 0 : Nat) * nsPerSecond + (fv.getD 0 : Nat)
    let n := if neg then -n else n
    if compBad ds || compBad hs || compBad ms || compBad ss then .reject
    else if dv.isSome ∨ hv.isSome ∨ mv.isSome ∨ sv.isSome ∨ fv.isSome then .ok n else .reject

theorem parseDtDur_pos (r : List Char) :
    parseDtDur ('P' :: r) = dtFinish false (optCompP 'D' r).1 (dtTimePart (optCompP 'D' r).2) := rfl

theorem parseDtDur_neg (r : List Char) :
    parseDtDur ('-' :: 'P' :: r) = dtFinish true (optCompP 'D' r).1 (dtTimePart (optCompP 'D' r).2) := rfl

/-- Seconds with an optional fraction, to the end of the text. -/
def dtSecPart (hs ms : Option (List Char)) (r : List Char) :
    Option (Option (List Char) × Option (List Char) × Option (List Char) × Option (List Char)) :=
  let (ss, r') := spanDigits r
  if ss = [] then (if r = [] then some (hs, ms, none, none) else none)
  else
    match r' with
    | ['S'] => some (hs, ms, some ss, none)
    | '.' :: r'' =>
      let (fs, r''') := spanDigits r''
      if r''' = ['S'] then some (hs, ms, some ss, some fs) else none
    | _ => none

theorem dtTimePart_T (r : List Char) :
    dtTimePart ('T' :: r) =
      if r = [] then none
      else dtSecPart (optCompP 'H' r).1 (optCompP 'M' (optCompP 'H' r).2).1
        (optCompP 'M' (optCompP 'H' r).2).2 :=
  rfl

/-- What the seconds of a printed duration are read back as: digits of the seconds and of the
fraction. -/
def secComp (second nanos : Nat) : Option (List Char) × Option (List Char) :=
  if nanos > 0 then (some (natToDigits second), some (nanosToString nanos))
  else if second > 0 then (some (natToDigits second), none)
  else (none, none)

theorem dtSecPart_secStr (hs ms : Option (List Char)) (second nanos : Nat) :
    dtSecPart hs ms (secStr second nanos) =
      some (hs, ms, (secComp second nanos).1, (secComp second nanos).2) := by
  unfold secStr secComp
  by_cases hn : nanos > 0
  · simp only [hn, if_true, List.append_assoc, List.cons_append]
    unfold dtSecPart
    rw [spanDigits_natToDigits second _ (noDigitHead_cons (by decide))]
    simp only [natToDigits_ne_nil, if_false]
    rw [spanDigits_append (nanosToString nanos) ['S'] (nanosToString_all_digits nanos)
      (Or.inr ⟨'S', [], rfl, by decide⟩)]
    simp only [if_true]
  · simp only [hn, if_false]
    unfold compStr
    by_cases hs' : second > 0
    · simp only [hs', if_true]
      unfold dtSecPart
      rw [spanDigits_natToDigits second _ (noDigitHead_cons (by decide))]
      simp only [natToDigits_ne_nil, if_false]
    · simp only [hs', if_false]
      rfl

theorem noComp_secStr {x : Char} (second nanos : Nat) (h1 : 'S' ≠ x) (h2 : '.' ≠ x) :
    NoComp x (secStr second nanos) := by
  unfold secStr
  by_cases hn : nanos > 0
  · simp only [hn, if_true, List.append_assoc, List.cons_append]
    exact noComp_digits second _ (by decide) h2
  · simp only [hn, if_false]
    exact noComp_compStr' second (by decide) h1

theorem compStr_ne_nil {v : Nat} (x : Char) (h : v > 0) : compStr v x ≠ [] := by
  unfold compStr; rw [if_pos h]; simp

theorem secStr_ne_nil {second nanos : Nat} (h : second > 0 ∨ nanos > 0) : secStr second nanos ≠ [] := by
  unfold secStr
  by_cases hn : nanos > 0
  · rw [if_pos hn]
    intro e
    have := congrArg List.length e
    simp at this
  · rw [if_neg hn]
    exact compStr_ne_nil 'S' (by omega)

theorem compBad_comp {v : Nat} (h : v ≤ u64Max) :
    compBad (if v > 0 then some (natToDigits v) else none) = false := by
  by_cases hv : v > 0
  · simp [hv, compBad, parseU64_natToDigits h]
  · simp [hv, compBad]

theorem dtTimePart_print (hour minute second nanos : Nat)
    (hc : hour > 0 ∨ minute > 0 ∨ second > 0 ∨ nanos > 0) :
    dtTimePart ('T' :: (compStr hour 'H' ++ (compStr minute 'M' ++ secStr second nanos))) =
      some (if hour > 0 then some (natToDigits hour) else none,
        if minute > 0 then some (natToDigits minute) else none,
        (secComp second nanos).1, (secComp second nanos).2) := by
  have hH := optCompP_compStr 'H' hour (compStr minute 'M' ++ secStr second nanos) (by decide)
    (compP_none_of_noComp (noComp_compStr minute _ (by decide) (by decide)
      (noComp_secStr second nanos (by decide) (by decide))))
  have hM := optCompP_compStr 'M' minute (secStr second nanos) (by decide)
    (compP_none_of_noComp (noComp_secStr second nanos (by decide) (by decide)))
  have hne : compStr hour 'H' ++ (compStr minute 'M' ++ secStr second nanos) ≠ [] := by
    intro e
    rw [List.append_eq_nil_iff, List.append_eq_nil_iff] at e
    rcases hc with h | h | h
    · exact compStr_ne_nil 'H' h e.1
    · exact compStr_ne_nil 'M' h e.2.1
    · exact secStr_ne_nil h e.2.2
  rw [dtTimePart_T, if_neg hne, hH]
  simp only []
  rw [hM]
  simp only []
  exact dtSecPart_secStr _ _ second nanos

theorem secComp_sv {second : Nat} (nanos : Nat) (h : second ≤ u64Max) :
    (secComp second nanos).1.bind parseU64 = if nanos > 0 ∨ second > 0 then some second else none := by
  unfold secComp
  by_cases hn : nanos > 0
  · simp only [hn, if_true, true_or, Option.bind_some, parseU64_natToDigits h]
  · by_cases hs : second > 0
    · simp only [hn, hs, if_true, if_false, or_true, Option.bind_some, parseU64_natToDigits h]
    · simp only [hn, hs, if_false, or_self, Option.bind_none]

theorem secComp_fv {nanos : Nat} (second : Nat) (h : nanos < 1000000000) :
    fracVal (secComp second nanos).2 = if nanos > 0 then some nanos else none := by
  unfold secComp
  by_cases hn : nanos > 0
  · simp only [hn, if_true, fracVal, nanosToString_ne_nil hn h, if_false,
      fracNanos_nanosToString hn h]
  · by_cases hs : second > 0
    · simp only [hn, hs, if_true, if_false, fracVal]
    · simp only [hn, hs, if_false, fracVal]

theorem getD_sec (second nanos : Nat) :
    (if nanos > 0 ∨ second > 0 then some second else none : Option Nat).getD 0 = second := by
  by_cases h : nanos > 0 ∨ second > 0
  · simp only [h, if_true, Option.getD_some]
  · simp only [h, if_false, Option.getD_none]; omega

theorem isSome_sec (second nanos : Nat) :
    (if nanos > 0 ∨ second > 0 then some second else none : Option Nat).isSome =
      decide (nanos > 0 ∨ second > 0) := by
  by_cases h : nanos > 0 ∨ second > 0 <;> simp [h]

theorem compBad_sec {second : Nat} (nanos : Nat) (h : second ≤ u64Max) :
    compBad (secComp second nanos).1 = false := by
  unfold secComp
  by_cases hn : nanos > 0
  · simp [hn, compBad, parseU64_natToDigits h]
  · by_cases hs : second > 0
    · simp [hn, hs, compBad, parseU64_natToDigits h]
    · simp [hn, hs, compBad]

theorem dtFinish_print (neg : Bool) (day hour minute second nanos : Nat)
    (hd : day ≤ u64Max) (hh : hour ≤ u64Max) (hm : minute ≤ u64Max) (hs : second ≤ u64Max)
    (hn : nanos < 1000000000)
    (hpos : day > 0 ∨ hour > 0 ∨ minute > 0 ∨ second > 0 ∨ nanos > 0) :
    dtFinish neg (if day > 0 then some (natToDigits day) else none)
      (some (if hour > 0 then some (natToDigits hour) else none,
        if minute > 0 then some (natToDigits minute) else none,
        (secComp second nanos).1, (secComp second nanos).2)) =
      .ok (if neg then -((day : Int) * nsPerDay + (hour : Int) * nsPerHour + (minute : Int) * nsPerMinute +
            (second : Int) * nsPerSecond + (nanos : Int))
          else (day : Int) * nsPerDay + (hour : Int) * nsPerHour + (minute : Int) * nsPerMinute +
            (second : Int) * nsPerSecond + (nanos : Int)) := by
  unfold dtFinish
  simp only []
  rw [bind_parseU64_comp hd, bind_parseU64_comp hh, bind_parseU64_comp hm, secComp_sv nanos hs,
    secComp_fv second hn]
  simp only [getD_comp, getD_sec, isSome_comp, isSome_sec]
  have : (decide (day > 0) = true ∨ decide (hour > 0) = true ∨ decide (minute > 0) = true ∨
      decide (nanos > 0 ∨ second > 0) = true ∨ decide (nanos > 0) = true) := by
    simp only [decide_eq_true_eq]
    omega
  rw [compBad_comp hd, compBad_comp hh, compBad_comp hm, compBad_sec nanos hs]
  simp only [Bool.or_self, Bool.false_eq_true, if_false]
  rw [if_pos this]

theorem dt_body (day hour minute second nanos : Nat) :
    (optCompP 'D' (compStr day 'D' ++
      (if hour > 0 ∨ minute > 0 ∨ second > 0 ∨ nanos > 0 then
        'T' :: (compStr hour 'H' ++ (compStr minute 'M' ++ secStr second nanos))
       else []))).1 = (if day > 0 then some (natToDigits day) else none) ∧
    dtTimePart (optCompP 'D' (compStr day 'D' ++
      (if hour > 0 ∨ minute > 0 ∨ second > 0 ∨ nanos > 0 then
        'T' :: (compStr hour 'H' ++ (compStr minute 'M' ++ secStr second nanos))
       else []))).2 =
      some (if hour > 0 then some (natToDigits hour) else none,
        if minute > 0 then some (natToDigits minute) else none,
        (secComp second nanos).1, (secComp second nanos).2) := by
  by_cases hc : hour > 0 ∨ minute > 0 ∨ second > 0 ∨ nanos > 0
  · rw [if_pos hc]
    rw [optCompP_compStr 'D' day _ (by decide)
      (compP_none_of_noComp (noComp_cons _ (by decide) (by decide)))]
    exact ⟨rfl, dtTimePart_print hour minute second nanos hc⟩
  · rw [if_neg hc]
    rw [optCompP_compStr 'D' day _ (by decide) (compP_nil _)]
    have h1 : hour = 0 := by omega
    have h2 : minute = 0 := by omega
    have h3 : second = 0 := by omega
    have h4 : nanos = 0 := by omega
    subst h1 h2 h3 h4
    exact ⟨rfl, rfl⟩

/-- The printed components are in range and add up to the total. -/
theorem printDtDur_components (n : Int) :
    let a := n.natAbs
    (a % 86400000000000) / 3600000000000 < 24 ∧ (a % 3600000000000) / 60000000000 < 60 ∧
    (a % 60000000000) / 1000000000 < 60 ∧
    (a / 86400000000000) * 86400000000000 + ((a % 86400000000000) / 3600000000000) * 3600000000000 +
      ((a % 3600000000000) / 60000000000) * 60000000000 + ((a % 60000000000) / 1000000000) * 1000000000 +
      a % 1000000000 = a := by
  intro a
  generalize a = a
  omega

/-- Days-and-time round trip. -/
theorem parseDtDur_printDtDur (n : Int)
    (hfit : n.natAbs / 86400000000000 ≤ u64Max) :
    parseDtDur (printDtDur n) = .ok n := by
  unfold printDtDur
  simp only []
  by_cases hz : n.natAbs = 0
  · rw [if_pos hz]
    have : n = 0 := by omega
    subst this
    decide
  · rw [if_neg hz]
    obtain ⟨hb1, hb2⟩ := dt_body (n.natAbs / 86400000000000)
      ((n.natAbs % 86400000000000) / 3600000000000) ((n.natAbs % 3600000000000) / 60000000000)
      ((n.natAbs % 60000000000) / 1000000000) (n.natAbs % 1000000000)
    obtain ⟨c1, c2, c3, c4⟩ := printDtDur_components n
    have hh : (n.natAbs % 86400000000000) / 3600000000000 ≤ u64Max := by unfold u64Max; omega
    have hm : (n.natAbs % 3600000000000) / 60000000000 ≤ u64Max := by unfold u64Max; omega
    have hs : (n.natAbs % 60000000000) / 1000000000 ≤ u64Max := by unfold u64Max; omega
    have hn : n.natAbs % 1000000000 < 1000000000 := Nat.mod_lt _ (by decide)
    have hpos : n.natAbs / 86400000000000 > 0 ∨ (n.natAbs % 86400000000000) / 3600000000000 > 0 ∨
        (n.natAbs % 3600000000000) / 60000000000 > 0 ∨ (n.natAbs % 60000000000) / 1000000000 > 0 ∨
        n.natAbs % 1000000000 > 0 := by
      generalize n.natAbs = a at *
      omega
    have hfin := fun neg => dtFinish_print neg _ _ _ _ _ hfit hh hm hs hn hpos
    have htot : ((n.natAbs / 86400000000000 : Nat) : Int) * nsPerDay +
        ((n.natAbs % 86400000000000 / 3600000000000 : Nat) : Int) * nsPerHour +
        ((n.natAbs % 3600000000000 / 60000000000 : Nat) : Int) * nsPerMinute +
        ((n.natAbs % 60000000000 / 1000000000 : Nat) : Int) * nsPerSecond +
        ((n.natAbs % 1000000000 : Nat) : Int) = (n.natAbs : Int) := by
      simp only [nsPerDay, nsPerHour, nsPerMinute, nsPerSecond]
      generalize n.natAbs = a at *
      omega
    by_cases hneg : n < 0
    · rw [if_pos hneg]
      show parseDtDur ('-' :: 'P' :: _) = _
      rw [parseDtDur_neg, hb1, hb2, hfin true, htot]
      simp only [if_true]
      congr 1
      omega
    · rw [if_neg hneg]
      show parseDtDur ('P' :: _) = _
      rw [parseDtDur_pos, hb1, hb2, hfin false, htot]
      simp only [Bool.false_eq_true, if_false]
      congr 1
      omega

/-! ## Concrete instances -/

theorem printYmDur_14 : printYmDur 14 = ['P', '1', 'Y', '2', 'M'] := by decide

theorem printDtDur_1d12h : printDtDur 129600000000000 = ['P', '1', 'D', 'T', '1', '2', 'H'] := by decide

theorem parseYmDur_P0M : parseYmDur ['P', '0', 'M'] = .ok 0 := by decide

theorem parseDtDur_PT0S : parseDtDur ['P', 'T', '0', 'S'] = .ok 0 := by decide

end Dmn.Temporal
