import Dmn.Model.Drg
import Dmn.Model.DrgSpec
import Dmn.Lemmas.Drg
import Dmn.Lemmas.DrgSpec

/-!
# Lemmas about the context a decision's logic is evaluated in (specification side)

Lookups in `Spec.decisionContext`: `typedInputs`, `serviceFns`, the loop over the required
decisions and `zip`, each as "the last writer of the name wins"; contexts built by the closures
keep their keys strictly increasing (`WFP`).
-/

namespace Dmn.Drg

theorem typedInputs_get (g : Drg) (ids : List String) (input acc : Ctx) (n : String) :
    Ctx.get (g.typedInputs ids input acc) n =
      match Spec.inputBinding g input n ids with
      | some v => some v
      | none => Ctx.get acc n := by
  unfold typedInputs
  induction ids generalizing acc with
  | nil => rfl
  | cons id ids ih =>
    simp only [List.foldl_cons, Spec.inputBinding]
    rw [ih]
    cases Spec.inputBinding g input n ids with
    | some v => rfl
    | none =>
      simp only []
      cases g.findInput id with
      | none => rfl
      | some i =>
        simp only []
        rw [Ctx.get_set]
        by_cases h : i.name = n
        · rw [if_pos h, if_pos h]
        · rw [if_neg h, if_neg h]

theorem serviceFns_get (g : Drg) (ids : List String) (acc : Ctx) (n : String) :
    Ctx.get (g.serviceFns ids acc) n =
      match Spec.serviceBinding g n ids with
      | some v => some v
      | none => Ctx.get acc n := by
  unfold serviceFns
  induction ids generalizing acc with
  | nil => rfl
  | cons id ids ih =>
    simp only [List.foldl_cons, Spec.serviceBinding]
    rw [ih]
    cases Spec.serviceBinding g n ids with
    | some v => rfl
    | none =>
      simp only []
      cases g.findService id with
      | none => rfl
      | some s =>
        simp only []
        rw [Ctx.get_set]
        by_cases h : s.var = n
        · rw [if_pos h, if_pos h]
        · rw [if_neg h, if_neg h]

/-- The loop over the required decisions (closures of `Spec.graphStep`): every variable holds
the value of the last required decision that has it. -/
theorem decisions_get (g : Drg) (env : Env) (p : Spec.SGraph) (sup : Ctx) (input : Ctx)
    (ids : List String) (k2 k3 : Ctx) (n : String)
    (h : foldCtx (fun id c => dropName (Spec.callDecision g (Spec.graphStep g env p) id sup input c)) ids k2 = .ok k3) :
    Ctx.get k3 n =
      match Spec.decisionBinding g env p sup input n ids with
      | some v => some v
      | none => Ctx.get k2 n := by
  induction ids generalizing k2 with
  | nil =>
    simp only [foldCtx] at h
    cases h
    rfl
  | cons id ids ih =>
    rw [foldCtx] at h
    simp only [Spec.decisionBinding]
    cases hstep : dropName (Spec.callDecision g (Spec.graphStep g env p) id sup input k2) with
    | panic q => rw [hstep] at h; cases h
    | diverge => rw [hstep] at h; cases h
    | ok c1 =>
      rw [hstep] at h
      simp only [] at h
      rw [ih c1 h]
      cases Spec.decisionBinding g env p sup input n ids with
      | some w => rfl
      | none =>
        simp only []
        cases hf : g.findDecision id with
        | none =>
          simp only [Spec.callDecision, hf, dropName] at hstep
          cases hstep
          rfl
        | some d =>
          simp only [Spec.callDecision, hf, Spec.graphStep, Spec.decisionClosure] at hstep
          cases hv : Spec.decisionValue g env p d sup input with
          | panic q => simp [hv, Spec.store, dropName] at hstep
          | diverge => simp [hv, Spec.store, dropName] at hstep
          | ok v =>
            simp only [hv, Spec.store, dropName] at hstep
            cases hstep
            simp only []
            rw [Ctx.get_set]
            by_cases hn : d.var = n
            · rw [if_pos hn, if_pos hn, hv]
            · rw [if_neg hn, if_neg hn]

theorem overwrite_nil (c : Ctx) : Ctx.overwrite c [] = c := by
  unfold Ctx.overwrite
  induction c with
  | nil => rfl
  | cons e es ih =>
    simp only [List.map_cons, Ctx.get] at ih ⊢
    rw [ih]

/-! ## contexts built by the closures are `BTreeMap`s -/

theorem foldCtx_WF (f : String → Ctx → Outcome Ctx)
    (hf : ∀ id c c', Ctx.WF c → f id c = .ok c' → Ctx.WF c') (ids : List String) (c c' : Ctx)
    (hc : Ctx.WF c) (h : foldCtx f ids c = .ok c') : Ctx.WF c' := by
  induction ids generalizing c with
  | nil => simp only [foldCtx] at h; cases h; exact hc
  | cons id ids ih =>
    simp only [foldCtx] at h
    cases h1 : f id c with
    | ok c1 => rw [h1] at h; exact ih c1 (hf id c c1 hc h1) h
    | panic p => rw [h1] at h; cases h
    | diverge => rw [h1] at h; cases h

theorem serviceFns_WF (g : Drg) (ids : List String) (acc : Ctx) (h : Ctx.WF acc) : Ctx.WF (g.serviceFns ids acc) := by
  unfold serviceFns
  induction ids generalizing acc with
  | nil => exact h
  | cons id ids ih =>
    simp only [List.foldl_cons]
    cases g.findService id with
    | none => exact ih acc h
    | some s => exact ih _ (Ctx.WF_set _ _ _ h)

structure WFP (sg : Spec.SGraph) : Prop where
  dec : ∀ id sup i o n o', Ctx.WF o → sg.decision id sup i o = .ok (n, o') → Ctx.WF o'
  bkm : ∀ id o o', Ctx.WF o → sg.bkm id o = .ok o' → Ctx.WF o'

theorem wfp_diverge : WFP Spec.divergeGraph where
  dec := fun _ _ _ _ _ _ _ h => by simp [Spec.divergeGraph] at h
  bkm := fun _ _ _ _ h => by simp [Spec.divergeGraph] at h

theorem wfp_step (g : Drg) (env : Env) (p : Spec.SGraph) (hp : WFP p) : WFP (Spec.graphStep g env p) where
  dec := by
    intro id sup i o n o' ho h
    simp only [Spec.graphStep] at h
    cases hf : g.findDecision id with
    | none => rw [hf] at h; cases h; exact ho
    | some d =>
      rw [hf] at h
      simp only [Spec.decisionClosure, Spec.store] at h
      split at h
      · cases h; exact Ctx.WF_set _ _ _ ho
      · cases h
      · cases h
  bkm := by
    intro id o o' ho h
    simp only [Spec.graphStep] at h
    cases hf : g.findBkm id with
    | none => rw [hf] at h; cases h; exact ho
    | some b =>
      rw [hf] at h
      simp only [Spec.bkmClosure] at h
      split at h
      · rename_i out1 hfold
        cases h
        refine Ctx.WF_set _ _ _ (foldCtx_WF _ (fun id c c' hc hcc => ?_) _ _ _ ho hfold)
        unfold Spec.bkmRequirement at hcc
        cases h1 : Spec.callBkm g p id c with
        | ok c1 =>
          rw [h1] at hcc
          cases hcc
          apply serviceFns_WF
          unfold Spec.callBkm at h1
          cases hfb : g.findBkm id with
          | none => rw [hfb] at h1; cases h1; exact hc
          | some _ => rw [hfb] at h1; exact hp.bkm id c c1 hc h1
        | panic q => rw [h1] at hcc; cases hcc
        | diverge => rw [h1] at hcc; cases hcc
      · cases h
      · cases h

theorem wfp_graphAt (g : Drg) (env : Env) (n : Nat) : WFP (Spec.graphAt g env Spec.divergeGraph n) := by
  induction n with
  | zero => exact wfp_step g env _ wfp_diverge
  | succ n ih => exact wfp_step g env _ ih

/-- The context of required knowledge and decisions has strictly increasing keys. -/
theorem required_ctx_WF (g : Drg) (prev : Spec.SGraph) (hp : WFP prev) (d : Decision) (sup : Ctx)
    (input k1 k3 : Ctx)
    (hk1 : foldCtx (fun id c => Spec.callBkm g prev id c) d.reqKnowledge [] = .ok k1)
    (hk3 : foldCtx (fun id c => dropName (Spec.callDecision g prev id sup input c)) d.reqDecisions
      (g.serviceFns d.reqKnowledge k1) = .ok k3) : Ctx.WF k3 := by
  have w1 : Ctx.WF k1 := foldCtx_WF _ (fun id c c' hc h => by
    unfold Spec.callBkm at h
    cases hf : g.findBkm id with
    | none => rw [hf] at h; cases h; exact hc
    | some _ => rw [hf] at h; exact hp.bkm id c c' hc h) _ _ _ Ctx.WF_nil hk1
  exact foldCtx_WF _ (fun id c c' hc h => by
    obtain ⟨n, hn⟩ := dropName_ok h
    unfold Spec.callDecision at hn
    cases hf : g.findDecision id with
    | none => rw [hf] at hn; cases hn; exact hc
    | some _ => rw [hf] at hn; exact hp.dec id sup input c n c' hc hn) _ _ _ (serviceFns_WF g _ _ w1) hk3

/-- `zip` with a `BTreeMap`: the entries of `other` shadow those of `self`. -/
theorem get_zip (a b : Ctx) (hb : Ctx.WF b) (n : String) :
    Ctx.get (Ctx.zip a b) n =
      match Ctx.get b n with
      | some v => some v
      | none => Ctx.get a n := by
  unfold Ctx.zip
  induction b generalizing a with
  | nil => rfl
  | cons e es ih =>
    obtain ⟨k, v⟩ := e
    simp only [List.foldl_cons]
    have hes : Ctx.WF es := by
      unfold Ctx.WF at hb ⊢
      simp only [List.map_cons, List.pairwise_cons] at hb
      exact hb.2
    have hk : k ∉ es.map Prod.fst := by
      unfold Ctx.WF at hb
      simp only [List.map_cons, List.pairwise_cons] at hb
      intro hm
      exact absurd (hb.1 k hm) (String.lt_irrefl k)
    rw [ih _ hes]
    simp only [Ctx.get]
    by_cases hkn : k = n
    · subst hkn
      rw [Ctx.get_eq_none_of_not_mem es k hk, if_pos rfl]
      simp only []
      rw [Ctx.get_set, if_pos rfl]
    · rw [if_neg hkn]
      cases Ctx.get es n with
      | some w => rfl
      | none =>
        simp only []
        rw [Ctx.get_set, if_neg hkn]

end Dmn.Drg
