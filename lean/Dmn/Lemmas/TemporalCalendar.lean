import Dmn.Model.Calendar

/-!
# Lemmas about the calendar specification (`Dmn/Model/Calendar.lean`)

All statements are for unbounded `Int` years.  The arithmetic is linear once the era /
century / four-year / year decomposition is made explicit; `omega` closes each small step.
-/

namespace Dmn.Cal

/-! ## Leap years and month lengths -/

theorem isLeap_iff (y : Int) :
    isLeap y = true ↔ y % 4 = 0 ∧ (y % 100 ≠ 0 ∨ y % 400 = 0) := by
  simp [isLeap]

theorem isLeap_false_iff (y : Int) :
    isLeap y = false ↔ ¬ (y % 4 = 0 ∧ (y % 100 ≠ 0 ∨ y % 400 = 0)) := by
  rw [← isLeap_iff]; cases isLeap y <;> simp

theorem validDate_iff (y m d : Int) :
    validDate y m d = true ↔ 1 ≤ m ∧ m ≤ 12 ∧ 1 ≤ d ∧ d ≤ daysInMonth y m := by
  simp [validDate, and_assoc]

/-- Day of the March-based year at which month `mp` (0 = March … 11 = February) starts. -/
def monthStart (mp : Int) : Int := (153 * mp + 2) / 5

/-- March-based month index of calendar month `m`. -/
def mpOf (m : Int) : Int := if m > 2 then m - 3 else m + 9

/-- March-based year of calendar `(y, m)`. -/
def ypOf (y m : Int) : Int := if m ≤ 2 then y - 1 else y

/-- First day (counted from the era origin 0000-03-01) of March-based year `y`. -/
def yearStart (y : Int) : Int := 365 * y + y / 4 - y / 100 + y / 400

/-- `daysFromCivil` in closed form: no era, only floors. -/
theorem daysFromCivil_closed (y m d : Int) :
    daysFromCivil y m d = yearStart (ypOf y m) + monthStart (mpOf m) + d - 719469 := by
  unfold daysFromCivil yearStart monthStart mpOf ypOf
  simp only
  generalize (if m ≤ 2 then y - 1 else y) = y'
  generalize (153 * (if m > 2 then m - 3 else m + 9) + 2) / 5 = ms
  omega

/-- A year is 365 days long, 366 when the *next* March-based year number is leap
(the March-based year `y` ends with February of calendar year `y + 1`). -/
theorem yearStart_succ (y : Int) :
    yearStart (y + 1) = yearStart y + (if isLeap (y + 1) then 366 else 365) := by
  unfold yearStart
  split
  · rename_i h; rw [isLeap_iff] at h; omega
  · rename_i h
    have h' := (isLeap_false_iff (y + 1)).1 (by simpa using h)
    omega

theorem yearStart_mono_nat (y : Int) (k : Nat) : yearStart y + 365 * k ≤ yearStart (y + k) := by
  induction k with
  | zero => simp
  | succ n ih =>
    have h := yearStart_succ (y + n)
    have e : y + ((n + 1 : Nat) : Int) = y + (n : Int) + 1 := by omega
    rw [e, h]
    split <;> omega

theorem yearStart_lt {y1 y2 : Int} (h : y1 < y2) :
    yearStart (y1 + 1) + 365 * (y2 - y1 - 1) ≤ yearStart y2 := by
  obtain ⟨k, hk⟩ := Int.le.dest (show y1 + 1 ≤ y2 by omega)
  have := yearStart_mono_nat (y1 + 1) k
  rw [hk] at this
  omega

/-! ## Day of year ↔ month and day -/

/-- Facts about the day-of-year of a valid month/day: its range, that 365 is reached only on
29 February, and that month and day are recovered from it. -/
theorem doy_facts (y m d : Int) (hv : validDate y m d = true) :
    let doy := monthStart (mpOf m) + d - 1
    0 ≤ doy ∧ doy ≤ 365 ∧ (doy = 365 → m = 2 ∧ isLeap y = true) ∧
    (5 * doy + 2) / 153 = mpOf m ∧ doy - (153 * mpOf m + 2) / 5 + 1 = d := by
  rw [validDate_iff] at hv
  obtain ⟨h1, h2, h3, h4⟩ := hv
  have hm : m = 1 ∨ m = 2 ∨ m = 3 ∨ m = 4 ∨ m = 5 ∨ m = 6 ∨ m = 7 ∨ m = 8 ∨ m = 9 ∨ m = 10 ∨
      m = 11 ∨ m = 12 := by omega
  rcases hm with h | h | h | h | h | h | h | h | h | h | h | h <;> subst h <;>
    simp [daysInMonth, monthStart, mpOf] at h4 ⊢ <;> (try split at h4) <;> (try simp_all) <;> omega

/-! ## Year of era -/

theorem yoeOf_digits (a b c doy : Int) (ha0 : 0 ≤ a) (ha : a ≤ 3) (hb0 : 0 ≤ b) (hb : b ≤ 24)
    (hc0 : 0 ≤ c) (hc : c ≤ 3) (d0 : 0 ≤ doy) (d1 : doy ≤ 365)
    (hl : doy = 365 → c = 3 ∧ (b ≠ 24 ∨ a = 3)) :
    yoeOf (36524 * a + 1461 * b + 365 * c + doy) = (a * 100 + b * 4 + c, doy) := by
  have hA : (if (36524 * a + 1461 * b + 365 * c + doy) / 36524 ≥ 4 then 3
      else (36524 * a + 1461 * b + 365 * c + doy) / 36524) = a := by
    split <;> omega
  have hB : (1461 * b + 365 * c + doy) / 1461 = b := by omega
  have hC : (if (365 * c + doy) / 365 ≥ 4 then 3 else (365 * c + doy) / 365) = c := by
    split <;> omega
  unfold yoeOf
  simp only [hA]
  have e1 : 36524 * a + 1461 * b + 365 * c + doy - a * 36524 = 1461 * b + 365 * c + doy := by
    omega
  simp only [e1, hB]
  have e2 : 1461 * b + 365 * c + doy - b * 1461 = 365 * c + doy := by omega
  simp only [e2, hC]
  refine Prod.ext rfl ?_
  simp only
  omega

/-- Year-of-era and day-of-year are recovered from the day-of-era. -/
theorem yoeOf_recover (yoe doy : Int) (h0 : 0 ≤ yoe) (h1 : yoe ≤ 399) (d0 : 0 ≤ doy)
    (d1 : doy ≤ 365)
    (hl : doy = 365 → (yoe + 1) % 4 = 0 ∧ ((yoe + 1) % 100 ≠ 0 ∨ (yoe + 1) % 400 = 0)) :
    yoeOf (yoe * 365 + yoe / 4 - yoe / 100 + doy) = (yoe, doy) := by
  have h := yoeOf_digits (yoe / 100) ((yoe - yoe / 100 * 100) / 4)
    (yoe - yoe / 100 * 100 - (yoe - yoe / 100 * 100) / 4 * 4) doy
    (by omega) (by omega) (by omega) (by omega) (by omega) (by omega) d0 d1 (by omega)
  have e : 36524 * (yoe / 100) + 1461 * ((yoe - yoe / 100 * 100) / 4) +
      365 * (yoe - yoe / 100 * 100 - (yoe - yoe / 100 * 100) / 4 * 4) + doy
      = yoe * 365 + yoe / 4 - yoe / 100 + doy := by omega
  rw [e] at h
  rw [h]
  refine Prod.ext ?_ rfl
  simp only
  omega

/-- What `yoeOf` returns on any day of an era. -/
theorem yoeOf_spec (doe : Int) (h0 : 0 ≤ doe) (h1 : doe ≤ 146096) :
    0 ≤ (yoeOf doe).1 ∧ (yoeOf doe).1 ≤ 399 ∧ 0 ≤ (yoeOf doe).2 ∧ (yoeOf doe).2 ≤ 365 ∧
    ((yoeOf doe).2 = 365 → ((yoeOf doe).1 + 1) % 4 = 0 ∧
      (((yoeOf doe).1 + 1) % 100 ≠ 0 ∨ ((yoeOf doe).1 + 1) % 400 = 0)) ∧
    (yoeOf doe).1 * 365 + (yoeOf doe).1 / 4 - (yoeOf doe).1 / 100 + (yoeOf doe).2 = doe := by
  unfold yoeOf
  simp only
  generalize hn : (if doe / 36524 ≥ 4 then 3 else doe / 36524) = n100
  have hn0 : 0 ≤ n100 ∧ n100 ≤ 3 ∧ 0 ≤ doe - n100 * 36524 ∧ doe - n100 * 36524 ≤ 36524 ∧
      (doe - n100 * 36524 = 36524 → n100 = 3) := by
    subst hn; split <;> omega
  generalize hr1 : doe - n100 * 36524 = r1 at *
  obtain ⟨a0, a1, r10, r11, r12⟩ := hn0
  generalize hq : r1 / 1461 = n4
  have hq0 : 0 ≤ n4 ∧ n4 ≤ 24 ∧ 0 ≤ r1 - n4 * 1461 ∧ r1 - n4 * 1461 ≤ 1460 ∧
      1461 * n4 ≤ r1 := by omega
  generalize hr2 : r1 - n4 * 1461 = r2 at *
  obtain ⟨b0, b1, r20, r21, r22⟩ := hq0
  generalize hm : (if r2 / 365 ≥ 4 then 3 else r2 / 365) = n1
  have hm0 : 0 ≤ n1 ∧ n1 ≤ 3 ∧ 0 ≤ r2 - n1 * 365 ∧ r2 - n1 * 365 ≤ 365 ∧
      (r2 - n1 * 365 = 365 → n1 = 3) := by
    subst hm; split <;> omega
  obtain ⟨c0, c1, r30, r31, r32⟩ := hm0
  have q4 : (n100 * 100 + n4 * 4 + n1) / 4 = n100 * 25 + n4 := by omega
  have q100 : (n100 * 100 + n4 * 4 + n1) / 100 = n100 := by omega
  refine ⟨by omega, by omega, r30, r31, ?_, ?_⟩
  · intro h
    have := r32 h
    omega
  · rw [q4, q100]; omega

/-! ## The two round trips -/

theorem civilFromDays_daysFromCivil (y m d : Int) (hv : validDate y m d = true) :
    civilFromDays (daysFromCivil y m d) = (y, m, d) := by
  have hd := doy_facts y m d hv
  rw [validDate_iff] at hv
  obtain ⟨hm1, hm12, _, _⟩ := hv
  simp only at hd
  obtain ⟨d0, d1, dl, hmp, hdd⟩ := hd
  unfold daysFromCivil civilFromDays
  simp only
  have e1 : (if m > 2 then m - 3 else m + 9) = mpOf m := rfl
  simp only [e1]
  have e2 : (153 * mpOf m + 2) / 5 + d - 1 = monthStart (mpOf m) + d - 1 := rfl
  simp only [e2]
  generalize hdoy : monthStart (mpOf m) + d - 1 = doy at *
  generalize hy' : (if m ≤ 2 then y - 1 else y) = y'
  generalize hera : y' / 400 = era
  have hyoe : 0 ≤ y' - era * 400 ∧ y' - era * 400 ≤ 399 := by omega
  generalize hyo : y' - era * 400 = yoe at *
  have hleap : doy = 365 → (yoe + 1) % 4 = 0 ∧ ((yoe + 1) % 100 ≠ 0 ∨ (yoe + 1) % 400 = 0) := by
    intro h
    obtain ⟨hm2, hl⟩ := dl h
    rw [isLeap_iff] at hl
    subst hm2
    simp at hy'
    omega
  have hrec := yoeOf_recover yoe doy hyoe.1 hyoe.2 d0 d1 hleap
  have hdoe : 0 ≤ yoe * 365 + yoe / 4 - yoe / 100 + doy ∧
      yoe * 365 + yoe / 4 - yoe / 100 + doy ≤ 146096 := by
    constructor
    · omega
    · by_cases h : doy = 365
      · have := hleap h; omega
      · omega
  generalize hdoe' : yoe * 365 + yoe / 4 - yoe / 100 + doy = doe at *
  have e3 : era * 146097 + doe - 719468 + 719468 = era * 146097 + doe := by omega
  simp only [e3]
  have e4 : (era * 146097 + doe) / 146097 = era := by omega
  simp only [e4]
  have e5 : era * 146097 + doe - era * 146097 = doe := by omega
  simp only [e5, hrec, hmp, hdd]
  have hmpm : (if mpOf m < 10 then mpOf m + 3 else mpOf m - 9) = m := by
    unfold mpOf; split <;> split <;> omega
  simp only [hmpm]
  refine Prod.ext ?_ rfl
  simp only
  split <;> (rename_i hh; simp [hh] at hy'; omega)

theorem daysFromCivil_civilFromDays (z : Int) :
    daysFromCivil (civilFromDays z).1 (civilFromDays z).2.1 (civilFromDays z).2.2 = z ∧
    validDate (civilFromDays z).1 (civilFromDays z).2.1 (civilFromDays z).2.2 = true := by
  unfold civilFromDays
  simp only
  generalize hera : (z + 719468) / 146097 = era
  have hdoe : 0 ≤ z + 719468 - era * 146097 ∧ z + 719468 - era * 146097 ≤ 146096 := by omega
  generalize hd : z + 719468 - era * 146097 = doe at *
  obtain ⟨y0, y1, d0, d1, hl, hsum⟩ := yoeOf_spec doe hdoe.1 hdoe.2
  generalize (yoeOf doe).1 = yoe at *
  generalize (yoeOf doe).2 = doy at *
  generalize hmp : (5 * doy + 2) / 153 = mp
  have hmp0 : 0 ≤ mp ∧ mp ≤ 11 := by omega
  -- month and day from the day of year, by cases on the month index
  have hmd : 1 ≤ doy - (153 * mp + 2) / 5 + 1 ∧
      doy - (153 * mp + 2) / 5 + 1 ≤ (if mp = 11 then (if doy = 365 then 29 else 28)
        else if mp = 0 ∨ mp = 2 ∨ mp = 4 ∨ mp = 5 ∨ mp = 7 ∨ mp = 9 ∨ mp = 10 then 31 else 30) := by
    have hc : mp = 0 ∨ mp = 1 ∨ mp = 2 ∨ mp = 3 ∨ mp = 4 ∨ mp = 5 ∨ mp = 6 ∨ mp = 7 ∨ mp = 8 ∨
        mp = 9 ∨ mp = 10 ∨ mp = 11 := by omega
    rcases hc with h | h | h | h | h | h | h | h | h | h | h | h <;> subst h <;> simp <;>
      (try split) <;> omega
  generalize hdd : doy - (153 * mp + 2) / 5 + 1 = d at *
  generalize hm : (if mp < 10 then mp + 3 else mp - 9) = m
  have hmm : 1 ≤ m ∧ m ≤ 12 ∧ mpOf m = mp ∧ (m ≤ 2 ↔ 10 ≤ mp) := by
    subst hm; unfold mpOf; split <;> (split <;> omega)
  obtain ⟨m1, m12, hmpof, hm2⟩ := hmm
  generalize hyy : (if m ≤ 2 then yoe + era * 400 + 1 else yoe + era * 400) = y
  constructor
  · unfold daysFromCivil
    simp only
    have e1 : (if m > 2 then m - 3 else m + 9) = mp := hmpof
    simp only [e1]
    have hy' : (if m ≤ 2 then y - 1 else y) = yoe + era * 400 := by
      subst hyy; split <;> omega
    simp only [hy']
    have e2 : (yoe + era * 400) / 400 = era := by omega
    simp only [e2]
    have e3 : yoe + era * 400 - era * 400 = yoe := by omega
    simp only [e3]
    omega
  · rw [validDate_iff]
    refine ⟨m1, m12, hmd.1, ?_⟩
    have hc : mp = 0 ∨ mp = 1 ∨ mp = 2 ∨ mp = 3 ∨ mp = 4 ∨ mp = 5 ∨ mp = 6 ∨ mp = 7 ∨ mp = 8 ∨
        mp = 9 ∨ mp = 10 ∨ mp = 11 := by omega
    have hmv : m = (if mp < 10 then mp + 3 else mp - 9) := hm.symm
    rcases hc with h | h | h | h | h | h | h | h | h | h | h | h <;>
      (try (subst h; simp at hmv hmd; subst hmv; simp [daysInMonth]; omega))
    -- February: the leap day exists exactly when the day of year is 365
    subst h
    simp at hmv hmd
    subst hmv
    simp [daysInMonth]
    simp at hyy
    by_cases h365 : doy = 365
    · have hl' := hl h365
      have : isLeap y = true := by rw [isLeap_iff]; omega
      simp [this]; simp [h365] at hmd; omega
    · simp [h365] at hmd
      split <;> omega

/-! ## Order -/

theorem dateLt_iff (y1 m1 d1 y2 m2 d2 : Int) :
    dateLt y1 m1 d1 y2 m2 d2 = true ↔
      y1 < y2 ∨ (y1 = y2 ∧ (m1 < m2 ∨ (m1 = m2 ∧ d1 < d2))) := by
  simp [dateLt]

/-- Start of month is increasing and a valid day stays inside its month. -/
theorem monthStart_step (y m d : Int) (hv : validDate y m d = true) :
    monthStart (mpOf m) + d ≤
      (if mpOf m = 11 then monthStart 11 + (if isLeap y then 29 else 28)
       else monthStart (mpOf m + 1)) := by
  rw [validDate_iff] at hv
  obtain ⟨h1, h2, h3, h4⟩ := hv
  have hm : m = 1 ∨ m = 2 ∨ m = 3 ∨ m = 4 ∨ m = 5 ∨ m = 6 ∨ m = 7 ∨ m = 8 ∨ m = 9 ∨ m = 10 ∨
      m = 11 ∨ m = 12 := by omega
  rcases hm with h | h | h | h | h | h | h | h | h | h | h | h <;> subst h <;>
    simp [daysInMonth, monthStart, mpOf] at h4 ⊢ <;> omega

theorem monthStart_mono {a b : Int} (_ha : 0 ≤ a) (hab : a < b) (_hb : b ≤ 11) :
    monthStart (a + 1) ≤ monthStart b := by
  unfold monthStart; omega

theorem daysFromCivil_lt_of_dateLt (y1 m1 d1 y2 m2 d2 : Int)
    (v1 : validDate y1 m1 d1 = true) (v2 : validDate y2 m2 d2 = true)
    (h : dateLt y1 m1 d1 y2 m2 d2 = true) :
    daysFromCivil y1 m1 d1 < daysFromCivil y2 m2 d2 := by
  rw [daysFromCivil_closed, daysFromCivil_closed]
  rw [dateLt_iff] at h
  have s1 := monthStart_step y1 m1 d1 v1
  have f1 := doy_facts y1 m1 d1 v1
  have f2 := doy_facts y2 m2 d2 v2
  simp only at f1 f2
  rw [validDate_iff] at v1 v2
  obtain ⟨a1, a2, a3, a4⟩ := v1
  obtain ⟨b1, b2, b3, b4⟩ := v2
  have hmp1 : 0 ≤ mpOf m1 ∧ mpOf m1 ≤ 11 := by unfold mpOf; split <;> omega
  have hmp2 : 0 ≤ mpOf m2 ∧ mpOf m2 ≤ 11 := by unfold mpOf; split <;> omega
  have hms2 : 0 ≤ monthStart (mpOf m2) := by unfold monthStart; omega
  -- compare the March-based years
  by_cases hy : ypOf y1 m1 < ypOf y2 m2
  · have hys := yearStart_lt hy
    have hsucc := yearStart_succ (ypOf y1 m1)
    -- the day of year of the first date is inside its March-based year
    have hin : monthStart (mpOf m1) + d1 - 1 <
        (if isLeap (ypOf y1 m1 + 1) then 366 else 365) := by
      obtain ⟨_, q1, q2, _, _⟩ := f1
      by_cases h365 : monthStart (mpOf m1) + d1 - 1 = 365
      · obtain ⟨hm2, hl⟩ := q2 h365
        have : ypOf y1 m1 + 1 = y1 := by unfold ypOf; subst hm2; simp
        rw [this, hl]; simp; omega
      · split <;> omega
    generalize yearStart (ypOf y1 m1 + 1) = ys1' at *
    generalize yearStart (ypOf y1 m1) = ys1 at *
    generalize yearStart (ypOf y2 m2) = ys2 at *
    have : 0 ≤ 365 * (ypOf y2 m2 - ypOf y1 m1 - 1) := by omega
    split at hsucc <;> (rename_i hl; simp [hl] at hin; omega)
  · have hyeq : ypOf y1 m1 = ypOf y2 m2 := by
      unfold ypOf at hy ⊢
      split at hy <;> split at hy <;> rename_i c1 c2 <;> simp [c1, c2] <;> omega
    rw [hyeq]
    have hmlt : mpOf m1 < mpOf m2 ∨ (mpOf m1 = mpOf m2 ∧ d1 < d2) := by
      unfold ypOf at hyeq
      unfold mpOf
      split at hyeq <;> split at hyeq <;> (split <;> split <;> omega)
    rcases hmlt with hlt | ⟨he, hd⟩
    · have hmono := monthStart_mono hmp1.1 hlt hmp2.2
      have hne : mpOf m1 ≠ 11 := by omega
      simp [hne] at s1
      omega
    · rw [he]; omega

theorem dateLt_trichotomy (y1 m1 d1 y2 m2 d2 : Int) :
    dateLt y1 m1 d1 y2 m2 d2 = true ∨ (y1 = y2 ∧ m1 = m2 ∧ d1 = d2) ∨
      dateLt y2 m2 d2 y1 m1 d1 = true := by
  rw [dateLt_iff, dateLt_iff]; omega

/-! ## Durations -/

theorem natAbs_cast_nonneg (n : Int) : (0 : Int) ≤ (n.natAbs : Int) := Int.natCast_nonneg _

end Dmn.Cal
