import Dmn.Lemmas.CanvasMarksG

/-!
# `fitsB` (decidable) implies `Fits`
-/

namespace Dmn.Recog

theorem plainText_mem {t : Text} (h : plainText t = true) : ∀ ch ∈ t, plain ch = true := by
  simpa [plainText] using h

theorem plainTexts_getD {ts : List Text} (h : plainTexts ts = true) (j : Nat) :
    ∀ ch ∈ ts.getD j [], plain ch = true := by
  rw [List.getD_eq_getElem?_getD]
  cases hj : ts[j]? with
  | none => simp
  | some x =>
    have hx : x ∈ ts := List.mem_of_getElem? hj
    have : plainText x = true := by
      have := List.all_eq_true.mp h x hx
      exact this
    simpa using plainText_mem this

theorem plainTexts_rules {α : Type} (rs : List α) (f : α → List Text)
    (h : plainTexts (rs.flatMap f) = true) (i j : Nat) :
    ∀ ch ∈ ((rs.map f).getD i []).getD j [], plain ch = true := by
  rw [List.getD_eq_getElem?_getD (l := rs.map f)]
  cases hi : (rs.map f)[i]? with
  | none => simp
  | some xs =>
    simp only [Option.getD_some]
    apply plainTexts_getD
    have hxs : xs ∈ rs.map f := List.mem_of_getElem? hi
    obtain ⟨r, hr, rfl⟩ := List.mem_map.mp hxs
    apply List.all_eq_true.mpr
    intro x hx
    exact List.all_eq_true.mp h x (List.mem_flatMap.mpr ⟨r, hr, hx⟩)

/-- the decidable condition implies that the drawing is a legal one -/
theorem fits_of_fitsB (d : Decor) (L : Layout) (t : TableSpec) (h : fitsB d L t = true) :
    Fits d L t := by
  simp only [fitsB, Bool.and_eq_true, decide_eq_true_eq] at h
  obtain ⟨⟨⟨⟨⟨⟨⟨⟨⟨⟨⟨⟨⟨⟨⟨h1, h2⟩, h3⟩, h4⟩, h5⟩, h6⟩, h7⟩, h8⟩, h9⟩, h10⟩, h11⟩, h12⟩, h13⟩, hbox⟩,
    hrows⟩, hcols⟩ := h
  refine ⟨?_, ?_, hrows, hcols⟩
  · intro k
    rw [sheetOf_text]
    cases k with
    | hp => exact plainText_mem h1
    | hpBlank => exact plainText_mem h2
    | label => exact plainText_mem h3
    | expr j => exact plainTexts_getD h4 j
    | comp j => exact plainTexts_getD h5 j
    | inVal j => exact plainTexts_getD h6 j
    | outVal j => exact plainTexts_getD h7 j
    | ann j => exact plainTexts_getD h8 j
    | annBlank j => exact plainTexts_getD h9 j
    | ruleNo i => exact plainTexts_getD h10 i
    | inE i j => exact plainTexts_rules t.rules (·.ins) h11 i j
    | outE i j => exact plainTexts_rules t.rules (·.outs) h12 i j
    | annE i j => exact plainTexts_rules t.rules (·.anns) h13 i j
  · intro nm hnm
    rw [hnm] at hbox
    simp only [Bool.and_eq_true, decide_eq_true_eq, List.all_eq_true, List.mem_range,
      Bool.or_eq_true, Bool.not_eq_true', bne_iff_ne, ne_eq] at hbox
    obtain ⟨⟨⟨hp, hb2⟩, hb3⟩, hb4⟩ := hbox
    refine ⟨plainText_mem hp, hb2, hb3, ?_⟩
    intro bc hbc hv
    rcases hb4 bc (by omega) with h | h
    · rw [hv] at h; cases h
    · exact h

end Dmn.Recog
