import Dmn.Lemmas.RefParserNeeded

/-!
# C06 — the minimal printer is minimal: the accounting

`paren_needed` (a needed pair dropped at ANY depth) follows from a statement about every
token list: whatever `parse` reads as the tree `t` is at least as long as `print .minimal t`
(`RefParserNeededDeepD.parse_length`).  A rendering with one printed pair left out is two
tokens shorter, hence is not read as `t`.

The proof follows the parser (induction on the length of the token list) with a potential:
what `parseExpr k` has consumed for a result `t'` is at least the length of the minimal
rendering of `t'`, **plus two** when `t'` still owes a pair of parentheses (`need`): when it
cannot stand bare under the minimum `k` (`startsOk` fails — the pair will be printed around
it, or around the node on whose left edge it lies), or when it absorbs the token in front of
which the parser stopped (the pair will be printed when that token makes it a first operand).
A bare result never owes anything; a result read from `( … )` has the two tokens to spare.

This file: the potential, and what each kind of node costs (no parser involved).
-/

namespace Dmn.Ref

def nextIsName : List Tok → Bool
  | .name _ :: _ => true
  | _ => false

/-- The tree takes the first token of `rest` into itself when printed bare in front of it
(a `.` counts only when a name follows: otherwise the parse fails anyway). -/
def absorbsHead (t : Tree) : List Tok → Bool
  | [] => false
  | T :: X => absorbs .minimal t T && (T != .dot || nextIsName X)

/-- The result `t` of a parse under the minimum `k` that stopped in front of `rest` owes a
pair of parentheses. -/
def need (k : Nat) (t : Tree) (rest : List Tok) : Bool :=
  !startsOk .minimal k t || absorbsHead t rest

def cost (b : Bool) : Nat := if b then 2 else 0

theorem cost_true : cost true = 2 := rfl
theorem cost_false : cost false = 0 := rfl

theorem cost_or_le (a b : Bool) : cost (a || b) ≤ cost a + cost b := by
  cases a <;> cases b <;> simp [cost]

theorem wrapped_min (n : Bool) (c : Tree) : wrapped .minimal n c = n := by
  simp [wrapped]

theorem par_length (w : Bool) (p : List Tok) : (par w p).length = p.length + cost w := by
  cases w <;> simp [par, cost]

/-- The last operand `r` of a node `c`, read under the minimum `kr` up to `rest'`: what `r`
owes pays for the pair around `r`, or for `c` absorbing the next token through `r`. -/
theorem last_cost (c r : Tree) (kr : Nat) (rest' : List Tok) (nr : Nat)
    (habs : ∀ t, absorbs .minimal c t =
      (levelGe t kr || (!wrapped .minimal (!startsOk .minimal kr r) r && absorbs .minimal r t)))
    (hstop : stopsAt kr rest')
    (h : (pr .minimal r).length + cost (need kr r rest') ≤ nr) :
    (par (wrapped .minimal (!startsOk .minimal kr r) r) (pr .minimal r)).length +
      cost (absorbsHead c rest') ≤ nr := by
  rw [par_length, wrapped_min]
  unfold need at h
  cases rest' with
  | nil =>
    simp only [absorbsHead, Bool.or_false] at h ⊢
    simp only [cost_false]
    omega
  | cons T X =>
    simp only [stopsAt] at hstop
    simp only [absorbsHead, habs T, hstop, wrapped_min, Bool.false_or] at h ⊢
    generalize startsOk .minimal kr r = a at h ⊢
    generalize absorbs .minimal r T = b at h ⊢
    generalize (T != Tok.dot || nextIsName X) = c at h ⊢
    cases a <;> cases b <;> cases c <;> simp [cost] at h ⊢ <;> omega

/-- The first operand `lhs` of a node `c` that the loop with minimum `k` builds from the
token `T` (of level `L ≥ k`): what `lhs` owes pays for the pair around it, or is still owed
by `c` (which then cannot stand bare under `k` either). -/
theorem first_cost (c lhs : Tree) (k L : Nat) (T : Tok) (X : List Tok) (fb : Option Nat) (w : Bool) (n : Nat)
    (hso : startsOk .minimal k c = (decide (k ≤ L) && (wrapped .minimal w lhs || startsOk .minimal k lhs)))
    (hkL : ¬ L < k)
    (hT : (T != Tok.dot || nextIsName X) = true)
    (hw : w = true → absorbs .minimal lhs T = true ∨ fb ≠ fbOf lhs)
    (h : (pr .minimal lhs).length + cost (need k lhs (T :: X) || fb != fbOf lhs) ≤ n) :
    (par (wrapped .minimal w lhs) (pr .minimal lhs)).length + cost (!startsOk .minimal k c) ≤ n := by
  rw [par_length, hso, wrapped_min]
  have hk : decide (k ≤ L) = true := by simp; omega
  rw [hk]
  unfold need at h
  simp only [absorbsHead, hT, Bool.and_true, Bool.true_and] at h ⊢
  cases w with
  | false =>
    simp only [Bool.false_or, cost_false, Nat.add_zero]
    generalize startsOk .minimal k lhs = a at h ⊢
    generalize absorbs .minimal lhs T = b at h ⊢
    generalize (fb != fbOf lhs) = c at h ⊢
    cases a <;> cases b <;> cases c <;> simp [cost] at h ⊢ <;> omega
  | true =>
    simp only [Bool.true_or, Bool.not_true, cost_false, cost_true, Nat.add_zero]
    rcases hw rfl with ha | hf
    · simp [ha, cost] at h; omega
    · have : (fb != fbOf lhs) = true := by simpa using hf
      simp [this, cost] at h; omega

/-- A first operand whose own need is all that matters (the node has no forbidden level). -/
theorem need_split (k : Nat) (c : Tree) (rest : List Tok) :
    cost (need k c rest) ≤ cost (!startsOk .minimal k c) + cost (absorbsHead c rest) :=
  cost_or_le _ _

theorem absorbsHead_of_false {c : Tree} (h : ∀ t, absorbs .minimal c t = false) (rest : List Tok) :
    absorbsHead c rest = false := by
  cases rest <;> simp [absorbsHead, h]

/-! ## Qualified names, endpoints, intervals, formal parameters: exact consumption -/

theorem parseQual_consumed : ∀ X : List Tok,
    (parseQual X).2.length + (prQual (parseQual X).1).length = X.length
  | [] => by simp [parseQual, prQual]
  | [t] => by cases t <;> simp [parseQual, prQual]
  | t :: u :: rest => by
    by_cases h : t = .dot ∧ ∃ n, u = .name n
    · obtain ⟨rfl, n, rfl⟩ := h
      rw [parseQual_dot_name]
      have := parseQual_consumed rest
      simp only [prQual, List.length_cons]
      omega
    · unfold parseQual
      split
      · rename_i heq
        injection heq with h1 h2
        injection h2 with h2 h3
        exact absurd ⟨h1, _, h2⟩ h
      · simp [prQual]

/-- `parseQual` is greedy: what it leaves does not go on with `. name`. -/
theorem parseQual_rest : ∀ X : List Tok, ∀ n r, (parseQual X).2 ≠ .dot :: .name n :: r
  | [] => by simp [parseQual]
  | [t] => by cases t <;> simp [parseQual]
  | t :: u :: rest => by
    by_cases h : t = .dot ∧ ∃ n, u = .name n
    · obtain ⟨rfl, n, rfl⟩ := h
      rw [parseQual_dot_name]
      exact parseQual_rest rest
    · intro n r
      unfold parseQual
      split
      · rename_i heq
        injection heq with h1 h2
        injection h2 with h2 h3
        exact absurd ⟨h1, _, h2⟩ h
      · intro heq
        injection heq with h1 h2
        injection h2 with h2 h3
        exact absurd ⟨h1, _, h2⟩ h

theorem parseEnd_consumed {X : List Tok} {e : End} {r : List Tok} (h : parseEnd X = some (e, r)) :
    r.length + (prEnd e).length = X.length := by
  unfold parseEnd at h
  split at h
  · injection h with h
    injection h with h1 h2
    subst h1 h2
    have := parseQual_consumed ‹List Tok›
    simp only [prEnd, List.length_cons]
    omega
  · injection h with h; injection h with h1 h2; subst h1 h2; simp [prEnd]
  · injection h with h; injection h with h1 h2; subst h1 h2; simp [prEnd]
  · cases h

/-- After an endpoint that is a qualified name no `. name` follows. -/
theorem parseEnd_rest {X : List Tok} {e : End} {r : List Tok} (h : parseEnd X = some (e, r)) :
    endIsQn e = true → ∀ n r', r ≠ .dot :: .name n :: r' := by
  unfold parseEnd at h
  split at h
  · injection h with h
    injection h with h1 h2
    subst h1 h2
    intro _
    exact parseQual_rest _
  · injection h with h; injection h with h1 h2; subst h1; simp [endIsQn]
  · injection h with h; injection h with h1 h2; subst h1; simp [endIsQn]
  · cases h

theorem parseRange_consumed {b1 : Bra} {X : List Tok} {t : Tree} {r : List Tok}
    (h : parseRange b1 X = some (t, r)) :
    r.length + (pr .minimal t).length = X.length + 1 ∧ (∀ T, absorbs .minimal t T = false) ∧
      (∀ k, startsOk .minimal k t = true) ∧ fbOf t = none ∧ 0 < (pr .minimal t).length := by
  unfold parseRange at h
  split at h
  · rename_i lo r1 h1
    split at h
    · rename_i hi c r2 h2
      split at h
      · injection h with h
        injection h with ht hr
        subst ht hr
        have e1 := parseEnd_consumed h1
        have e2 := parseEnd_consumed h2
        refine ⟨?_, fun T => by simp [absorbs], fun k => by simp [startsOk], rfl, by simp [pr]⟩
        simp only [pr, List.length_cons, List.length_append, List.length_nil] at e1 e2 ⊢
        omega
      · cases h
    · cases h
  · cases h

theorem parseParamsTail_consumed (X : List Tok) : ∀ {ps : List Nat} {r : List Tok},
    parseParamsTail X = some (ps, r) → r.length + (prParamsTail ps).length = X.length := by
  fun_induction parseParamsTail X with
  | case1 rest =>
    intro ps r h
    injection h with h; injection h with h1 h2; subst h1 h2; simp [prParamsTail]
  | case2 p rest ps' rest' heq ih =>
    intro ps r h
    injection h with h; injection h with h1 h2; subst h1 h2
    have := ih heq
    simp only [prParamsTail, List.length_cons]
    omega
  | case3 p rest heq ih => intro ps r h; cases h
  | case4 X h1 h2 => intro ps r h; cases h

theorem parseParams_consumed {X : List Tok} {ps : List Nat} {r : List Tok}
    (h : parseParams X = some (ps, r)) : r.length + (prParams ps).length = X.length := by
  unfold parseParams at h
  split at h
  · injection h with h; injection h with h1 h2; subst h1 h2; simp [prParams]
  · split at h
    · rename_i heq
      injection h with h; injection h with h1 h2; subst h1 h2
      have := parseParamsTail_consumed _ heq
      simp only [prParams, List.length_cons]
      omega
    · cases h
  · cases h

end Dmn.Ref
