import Dmn.Lemmas.CanvasFits

/-!
# Sample tables of Props/C19.lean and the evaluations of the scanner stages on them

The sample tables and decorations used by the non-vacuity examples of Props/C19.lean, and the
(kernel-evaluated) facts about the stages of the scanner on their drawings — kept here so that
the property file builds quickly.
-/

namespace Dmn.Recog

/-- two inputs with allowed values, two named outputs with allowed values and a label, one
annotation, two rules, information item name -/
def sampleTable (o : Orientation) : TableSpec :=
  { orientation := o, hitPolicy := .collect .sum, infoName := some " name ".toList,
    inputs := [⟨" a ".toList, some " 1,2 ".toList⟩, ⟨" b ".toList, some " 3 ".toList⟩],
    outputs := [⟨some " o1 ".toList, some " 5 ".toList⟩, ⟨some " o2 ".toList, some " 6 ".toList⟩],
    label := some " lab ".toList, annotations := [" an ".toList],
    rules := [⟨[" <1".toList, " x ".toList], [" 1 ".toList, " 2 ".toList], [" r1 ".toList]⟩,
              ⟨[" <2".toList, " y ".toList], [" 3 ".toList, " 4 ".toList], [" r2 ".toList]⟩] }

def sampleDecor (split : Bool) : Decor :=
  { hp := " C+ ".toList, ruleNos := [" 1 ".toList, "2".toList], split := split,
    hpBlank := "  ".toList, annBlanks := ["   ".toList], merge := false,
    inBlanks := ["   ".toList, " ".toList], outBlanks := ["  ".toList, "  ".toList] }

/-- the simplest table: one input, one output, one rule -/
def tinyTable (o : Orientation) (expr : String) : TableSpec :=
  { orientation := o, hitPolicy := .unique, infoName := none,
    inputs := [⟨expr.toList, none⟩], outputs := [⟨none, none⟩], label := some " out ".toList,
    annotations := [], rules := [⟨[" - ".toList], [" 1 ".toList], []⟩] }

def tinyDecor : Decor :=
  { hp := " U ".toList, ruleNos := [" 1 ".toList], split := false, hpBlank := [], annBlanks := [],
    merge := false }

/-- the layout `autoLayout` computes for a table with logical texts -/
def laidOut (d : Decor) (t : TableSpec) : Decor × TableSpec × Layout := autoLayout d t ⟨[], [], 1, 7⟩

/-- a small table with an information item name and an annotation -/
def tinyNamed (o : Orientation) : TableSpec :=
  { orientation := o, hitPolicy := .unique, infoName := some "nm".toList,
    inputs := [⟨" age ".toList, none⟩], outputs := [⟨none, none⟩], label := some " out ".toList,
    annotations := ["why".toList], rules := [⟨[" - ".toList], [" 1 ".toList], ["x".toList]⟩] }


/-- the three later stages hold for the drawing of the small table, rules as rows -/
theorem sample_stages_rows :
    let l := laidOut tinyDecor (tinyNamed .ruleAsRow)
    stageMarks l.1 l.2.2 l.2.1 = true ∧ stageRegions l.1 l.2.2 l.2.1 = true ∧
      stagePlane l.1 l.2.2 l.2.1 = true := by
  decide +kernel

/-- the three later stages hold for the drawing of the small table, rules as columns -/
theorem sample_stages_cols :
    let l := laidOut tinyDecor (tinyNamed .ruleAsColumn)
    stageMarks l.1 l.2.2 l.2.1 = true ∧ stageRegions l.1 l.2.2 l.2.1 = true ∧
      stagePlane l.1 l.2.2 l.2.1 = true := by
  decide +kernel

/-- the drawings of the small table are legal drawings -/
theorem sample_fits :
    (let l := laidOut tinyDecor (tinyNamed .ruleAsRow); fitsB l.1 l.2.2 l.2.1 = true) ∧
    (let l := laidOut tinyDecor (tinyNamed .ruleAsColumn); fitsB l.1 l.2.2 l.2.1 = true) ∧
    (let l := laidOut tinyDecor (tinyNamed .ruleAsColumn); l.2.1.wf = true) := by
  decide +kernel

/-- a `║` inside an input entry: not a legal drawing -/
theorem sample_not_fits :
    let t := { tinyNamed .ruleAsRow with rules := [⟨[" ║ ".toList], [" 1 ".toList], ["x".toList]⟩] }
    let l := laidOut tinyDecor t
    fitsB l.1 l.2.2 l.2.1 = false := by
  decide +kernel

/-- the drawing of the small rules-as-rows table and the expectations of the stages -/
theorem sample_expectations :
    let l := laidOut tinyDecor (tinyNamed .ruleAsRow)
    draw l.1 l.2.2 l.2.1 =
      ["┌───┐".toList,
       "│ nm│".toList,
       "├───┼─────╥─────╥───┐".toList,
       "│ U │ age ║ out ║why│".toList,
       "╞═══╪═════╬═════╬═══╡".toList,
       "│ 1 │ -   ║ 1   ║ x │".toList,
       "└───┴─────╨─────╨───┘".toList] ∧
    expectedMarks l.1 l.2.2 l.2.1 =
      ⟨some " nm".toList, ⟨10, 4⟩, some ⟨16, 4⟩, none, ⟨0, 2, 21, 7⟩⟩ ∧
    expectedRegions l.1 l.2.2 l.2.1 =
      [⟨0, 0, 5, 3⟩, ⟨0, 2, 5, 5⟩, ⟨4, 2, 11, 5⟩, ⟨10, 2, 17, 5⟩, ⟨16, 2, 21, 5⟩,
       ⟨0, 4, 5, 7⟩, ⟨4, 4, 11, 7⟩, ⟨10, 4, 17, 7⟩, ⟨16, 4, 21, 7⟩] := by
  decide +kernel

end Dmn.Recog
