import Dmn.Model.ReqDfs

/-!
# The repaired cycle check is the old one, at linear cost

* `dfsCheck_eq` — the depth-first search with the sets `chain` / `checked` gives exactly the answer of
  the chain-length check it replaced (`chainOk` from every key with any budget that bounds the number of
  different keys), for every graph: soundness (`true` ⇒ every chain below every key ends), completeness
  (`false` ⇒ some key is on or above a cycle) and enough fuel (the recursion is never deeper than the
  number of keys).
* `dfs_expansions_le` — it expands every key at most once: the number of expansions is at most the number
  of keys, whatever the answer.
* `diamond_visits` — the old check makes at least `2 ^ layers` calls on the diamond graph.
-/

namespace Dmn.ReqDfs

set_option linter.unusedSectionVars false

variable {ν : Type} [DecidableEq ν]

/-! ## The old check -/

theorem chainOk_none {succ : ν → Option (List ν)} {id : ν} (h : succ id = none) (b : Nat) :
    chainOk succ b id = true := by
  unfold chainOk; simp [h]

theorem chainOk_zero {succ : ν → Option (List ν)} {id : ν} {rs : List ν} (h : succ id = some rs) :
    chainOk succ 0 id = false := by
  unfold chainOk; simp [h]

theorem chainOk_succ {succ : ν → Option (List ν)} {id : ν} {rs : List ν} (h : succ id = some rs) (b : Nat) :
    chainOk succ (b + 1) id = rs.all (chainOk succ b) := by
  rw [chainOk]; simp [h]

theorem chainOk_mono (succ : ν → Option (List ν)) : ∀ (b : Nat) (id : ν),
    chainOk succ b id = true → chainOk succ (b + 1) id = true := by
  intro b
  induction b with
  | zero =>
    intro id h
    cases hs : succ id with
    | none => exact chainOk_none hs _
    | some rs => rw [chainOk_zero hs] at h; cases h
  | succ b ih =>
    intro id h
    cases hs : succ id with
    | none => exact chainOk_none hs _
    | some rs =>
      rw [chainOk_succ hs] at h ⊢
      rw [List.all_eq_true] at h ⊢
      exact fun r hr => ih r (h r hr)

theorem chainOk_mono_le (succ : ν → Option (List ν)) {b c : Nat} (hbc : b ≤ c) (id : ν)
    (h : chainOk succ b id = true) : chainOk succ c id = true := by
  induction hbc with
  | refl => exact h
  | step _ ih => exact chainOk_mono succ _ id ih

/-- Every chain of requirements below `id` ends. -/
def Ends (succ : ν → Option (List ν)) (id : ν) : Prop := ∃ b, chainOk succ b id = true

theorem ends_of_all {succ : ν → Option (List ν)} : ∀ rs : List ν, (∀ r ∈ rs, Ends succ r) →
    ∃ b, ∀ r ∈ rs, chainOk succ b r = true := by
  intro rs
  induction rs with
  | nil => intro _; exact ⟨0, fun _ h => by cases h⟩
  | cons r rs ih =>
    intro h
    obtain ⟨b1, h1⟩ := h r (by simp)
    obtain ⟨b2, h2⟩ := ih (fun x hx => h x (by simp [hx]))
    refine ⟨max b1 b2, ?_⟩
    intro x hx
    rcases List.mem_cons.mp hx with rfl | hx
    · exact chainOk_mono_le succ (Nat.le_max_left _ _) _ h1
    · exact chainOk_mono_le succ (Nat.le_max_right _ _) _ (h2 x hx)

theorem ends_of_succ {succ : ν → Option (List ν)} {id : ν} {rs : List ν} (hs : succ id = some rs)
    (h : ∀ r ∈ rs, Ends succ r) : Ends succ id := by
  obtain ⟨b, hb⟩ := ends_of_all rs h
  exact ⟨b + 1, by rw [chainOk_succ hs, List.all_eq_true]; exact hb⟩

/-- One step down a requirement needs strictly less budget. -/
theorem descend {succ : ν → Option (List ν)} {id r : ν} {rs : List ν} (hs : succ id = some rs) (hr : r ∈ rs)
    {b : Nat} (h : chainOk succ b id = true) : ∃ b', b' < b ∧ chainOk succ b' r = true := by
  cases b with
  | zero => rw [chainOk_zero hs] at h; cases h
  | succ b =>
    rw [chainOk_succ hs, List.all_eq_true] at h
    exact ⟨b, Nat.lt_succ_self b, h r hr⟩

/-- An element strictly below itself is on a cycle: no budget is enough. -/
theorem never_of_below_self {succ : ν → Option (List ν)} {id : ν}
    (h : ∀ b, chainOk succ b id = true → ∃ b', b' < b ∧ chainOk succ b' id = true) :
    ∀ b, chainOk succ b id = false := by
  intro b
  induction b using Nat.strongRecOn with
  | _ b ih =>
    cases hb : chainOk succ b id with
    | false => rfl
    | true =>
      obtain ⟨b', hlt, hb'⟩ := h b hb
      rw [ih b' hlt] at hb'; cases hb'

theorem never_of_succ {succ : ν → Option (List ν)} {id r : ν} {rs : List ν} (hs : succ id = some rs) (hr : r ∈ rs)
    (h : ∀ b, chainOk succ b r = false) : ∀ b, chainOk succ b id = false := by
  intro b
  cases b with
  | zero => exact chainOk_zero hs
  | succ b =>
    rw [chainOk_succ hs, List.all_eq_false]
    exact ⟨r, hr, by simp [h b]⟩

/-! ### Pigeonhole: a chain that ends is no longer than the number of keys -/

/-- A path of requirements through keys. -/
def isPath (succ : ν → Option (List ν)) : List ν → Prop
  | [] => True
  | [x] => succ x ≠ none
  | x :: y :: rest => (∃ rs, succ x = some rs ∧ y ∈ rs) ∧ isPath succ (y :: rest)

theorem path_of_not_ok (succ : ν → Option (List ν)) : ∀ (b : Nat) (id : ν), chainOk succ b id = false →
    ∃ q : List ν, q.length = b ∧ isPath succ (id :: q) := by
  intro b
  induction b with
  | zero =>
    intro id h
    cases hs : succ id with
    | none => rw [chainOk_none hs] at h; cases h
    | some rs => exact ⟨[], rfl, by simp [isPath, hs]⟩
  | succ b ih =>
    intro id h
    cases hs : succ id with
    | none => rw [chainOk_none hs] at h; cases h
    | some rs =>
      rw [chainOk_succ hs, List.all_eq_false] at h
      obtain ⟨r, hr, hrf⟩ := h
      have hrf' : chainOk succ b r = false := by
        cases hc : chainOk succ b r with
        | false => rfl
        | true => exact absurd hc hrf
      obtain ⟨q, hq, hp⟩ := ih r hrf'
      exact ⟨r :: q, by simp [hq], ⟨⟨rs, hs, hr⟩, hp⟩⟩

theorem path_keys (succ : ν → Option (List ν)) : ∀ p : List ν, isPath succ p → ∀ x ∈ p, succ x ≠ none := by
  intro p
  induction p with
  | nil => intro _ x hx; cases hx
  | cons a p ih =>
    intro hp x hx
    cases p with
    | nil =>
      simp only [List.mem_singleton] at hx
      subst hx
      exact hp
    | cons y rest =>
      obtain ⟨⟨rs, hs, _⟩, hrest⟩ := hp
      rcases List.mem_cons.mp hx with rfl | hx
      · rw [hs]; exact fun h => by cases h
      · exact ih hrest x hx

/-- Budgets strictly decrease along a path. -/
theorem path_descends (succ : ν → Option (List ν)) : ∀ (q : List ν) (x : ν), isPath succ (x :: q) →
    ∀ y ∈ q, ∀ b, chainOk succ b x = true → ∃ b', b' < b ∧ chainOk succ b' y = true := by
  intro q
  induction q with
  | nil => intro x _ y hy; cases hy
  | cons z rest ih =>
    intro x hp y hy b hb
    obtain ⟨⟨rs, hs, hz⟩, hrest⟩ := hp
    obtain ⟨b1, hlt1, hb1⟩ := descend hs hz hb
    rcases List.mem_cons.mp hy with rfl | hy
    · exact ⟨b1, hlt1, hb1⟩
    · obtain ⟨b2, hlt2, hb2⟩ := ih z hrest y hy b1 hb1
      exact ⟨b2, Nat.lt_trans hlt2 hlt1, hb2⟩

theorem path_nodup (succ : ν → Option (List ν)) : ∀ (q : List ν) (x : ν), isPath succ (x :: q) → Ends succ x →
    (x :: q).Nodup := by
  intro q
  induction q with
  | nil => intro x _ _; simp
  | cons z rest ih =>
    intro x hp he
    have hdesc := path_descends succ (z :: rest) x hp
    obtain ⟨⟨rs, hs, hz⟩, hrest⟩ := hp
    rw [List.nodup_cons]
    constructor
    · intro hmem
      obtain ⟨b, hb⟩ := he
      have := never_of_below_self (fun b hb => hdesc x hmem b hb) b
      rw [this] at hb; cases hb
    · obtain ⟨b, hb⟩ := he
      obtain ⟨b1, _, hb1⟩ := descend hs hz hb
      exact ih z hrest ⟨b1, hb1⟩

/-- If every chain below `id` ends, the number of different keys is enough budget. -/
theorem chainOk_of_ends (succ : ν → Option (List ν)) (n : Nat)
    (hn : ∀ l : List ν, l.Nodup → (∀ x ∈ l, succ x ≠ none) → l.length ≤ n)
    (id : ν) (he : Ends succ id) : chainOk succ n id = true := by
  cases hc : chainOk succ n id with
  | true => rfl
  | false =>
    obtain ⟨q, hq, hp⟩ := path_of_not_ok succ n id hc
    have hnd := path_nodup succ q id hp he
    have hk := path_keys succ (id :: q) hp
    have := hn (id :: q) hnd hk
    simp only [List.length_cons, hq] at this
    omega

/-! ## The repaired check: soundness, completeness, fuel -/

section equations
variable {succ : ν → Option (List ν)} {step : ν → St ν → Option (Bool × St ν)}

theorem foldReq_nil (s : St ν) : foldReq step [] s = some (true, s) := rfl
theorem foldReq_cons_none {r : ν} {rs : List ν} {s : St ν} (h : step r s = none) :
    foldReq step (r :: rs) s = none := by simp [foldReq, h]
theorem foldReq_cons_false {r : ν} {rs : List ν} {s s' : St ν} (h : step r s = some (false, s')) :
    foldReq step (r :: rs) s = some (false, s') := by simp [foldReq, h]
theorem foldReq_cons_true {r : ν} {rs : List ν} {s s' : St ν} (h : step r s = some (true, s')) :
    foldReq step (r :: rs) s = foldReq step rs s' := by simp [foldReq, h]

theorem dfs_no_entry {id : ν} (hs : succ id = none) (f : Nat) (s : St ν) : dfs succ f id s = some (true, s) := by
  rw [dfs]; simp [hs]
theorem dfs_checked {id : ν} {rs : List ν} (hs : succ id = some rs) (f : Nat) {s : St ν} (h : id ∈ s.checked) :
    dfs succ f id s = some (true, s) := by
  rw [dfs]; simp [hs, h]
theorem dfs_on_chain {id : ν} {rs : List ν} (hs : succ id = some rs) (f : Nat) {s : St ν} (h1 : id ∉ s.checked)
    (h2 : id ∈ s.chain) : dfs succ f id s = some (false, s) := by
  rw [dfs]; simp [hs, h1, h2]
theorem dfs_zero {id : ν} {rs : List ν} (hs : succ id = some rs) {s : St ν} (h1 : id ∉ s.checked)
    (h2 : id ∉ s.chain) : dfs succ 0 id s = none := by
  rw [dfs]; simp [hs, h1, h2]
theorem dfs_succ_none {id : ν} {rs : List ν} (hs : succ id = some rs) {f : Nat} {s : St ν} (h1 : id ∉ s.checked)
    (h2 : id ∉ s.chain)
    (hf : foldReq (dfs succ f) rs { s with chain := id :: s.chain, expansions := s.expansions + 1 } = none) :
    dfs succ (f + 1) id s = none := by
  rw [dfs]; simp [hs, h1, h2, hf]
theorem dfs_succ_false {id : ν} {rs : List ν} (hs : succ id = some rs) {f : Nat} {s s' : St ν} (h1 : id ∉ s.checked)
    (h2 : id ∉ s.chain)
    (hf : foldReq (dfs succ f) rs { s with chain := id :: s.chain, expansions := s.expansions + 1 } = some (false, s')) :
    dfs succ (f + 1) id s = some (false, s') := by
  rw [dfs]; simp [hs, h1, h2, hf]
theorem dfs_succ_true {id : ν} {rs : List ν} (hs : succ id = some rs) {f : Nat} {s s' : St ν} (h1 : id ∉ s.checked)
    (h2 : id ∉ s.chain)
    (hf : foldReq (dfs succ f) rs { s with chain := id :: s.chain, expansions := s.expansions + 1 } = some (true, s')) :
    dfs succ (f + 1) id s = some (true, { s' with chain := s'.chain.erase id, checked := id :: s'.checked }) := by
  rw [dfs]; simp [hs, h1, h2, hf]

end equations

/-- `id` is strictly below every element of the chain. -/
def Below (succ : ν → Option (List ν)) (chain : List ν) (id : ν) : Prop :=
  ∀ c ∈ chain, ∀ b, chainOk succ b c = true → ∃ b', b' < b ∧ chainOk succ b' id = true

/-- What the state satisfies between calls: everything in `checked` ends; `chain` consists of
different keys. -/
def Pre (succ : ν → Option (List ν)) (keys : List ν) (s : St ν) : Prop :=
  (∀ x ∈ s.checked, Ends succ x) ∧ s.chain.Nodup ∧ (∀ x ∈ s.chain, x ∈ keys)

/-- What a call establishes. -/
def Post (succ : ν → Option (List ν)) (keys : List ν) (f : Nat) (id : ν) (s : St ν) : Option (Bool × St ν) → Prop
  | none => f + s.chain.length < keys.length
  | some (true, s') => s'.chain = s.chain ∧ (∀ x ∈ s'.checked, Ends succ x) ∧ Ends succ id
  | some (false, _) => ∀ b, chainOk succ b id = false

def PostL (succ : ν → Option (List ν)) (keys : List ν) (f : Nat) (rs : List ν) (s : St ν) : Option (Bool × St ν) → Prop
  | none => f + s.chain.length < keys.length
  | some (true, s') => s'.chain = s.chain ∧ (∀ x ∈ s'.checked, Ends succ x) ∧ ∀ r ∈ rs, Ends succ r
  | some (false, _) => ∃ r ∈ rs, ∀ b, chainOk succ b r = false

theorem foldReq_post (succ : ν → Option (List ν)) (keys : List ν) (f : Nat)
    (hstep : ∀ (r : ν) (s : St ν), Pre succ keys s → Below succ s.chain r → Post succ keys f r s (dfs succ f r s)) :
    ∀ (rs : List ν) (s : St ν), Pre succ keys s → (∀ r ∈ rs, Below succ s.chain r) →
      PostL succ keys f rs s (foldReq (dfs succ f) rs s) := by
  intro rs
  induction rs with
  | nil =>
    intro s hpre _
    rw [foldReq_nil]
    exact ⟨rfl, hpre.1, fun _ h => by cases h⟩
  | cons r rs ih =>
    intro s hpre hbel
    have h1 := hstep r s hpre (hbel r (by simp))
    cases hd : dfs succ f r s with
    | none =>
      rw [hd] at h1; rw [foldReq_cons_none hd]; exact h1
    | some res =>
      obtain ⟨b, s'⟩ := res
      rw [hd] at h1
      cases b with
      | false =>
        rw [foldReq_cons_false hd]
        exact ⟨r, by simp, h1⟩
      | true =>
        rw [foldReq_cons_true hd]
        obtain ⟨hch, hck, her⟩ := h1
        have hpre' : Pre succ keys s' := ⟨hck, by rw [hch]; exact hpre.2.1, by rw [hch]; exact hpre.2.2⟩
        have hbel' : ∀ x ∈ rs, Below succ s'.chain x := by
          intro x hx; rw [hch]; exact hbel x (by simp [hx])
        have h2 := ih s' hpre' hbel'
        cases hf : foldReq (dfs succ f) rs s' with
        | none =>
          rw [hf] at h2
          have h2' : f + s'.chain.length < keys.length := h2
          rw [hch] at h2'
          exact h2'
        | some res2 =>
          obtain ⟨b2, s2⟩ := res2
          rw [hf] at h2
          cases b2 with
          | false =>
            obtain ⟨x, hx, hxn⟩ := h2
            exact ⟨x, by simp [hx], hxn⟩
          | true =>
            obtain ⟨hch2, hck2, hall⟩ := h2
            refine ⟨hch2.trans hch, hck2, ?_⟩
            intro x hx
            rcases List.mem_cons.mp hx with rfl | hx
            · exact her
            · exact hall x hx

theorem dfs_post (succ : ν → Option (List ν)) (keys : List ν) (hk : ∀ x, succ x ≠ none → x ∈ keys) :
    ∀ (f : Nat) (id : ν) (s : St ν), Pre succ keys s → Below succ s.chain id →
      Post succ keys f id s (dfs succ f id s) := by
  intro f
  induction f with
  | zero =>
    intro id s hpre hbel
    cases hs : succ id with
    | none => rw [dfs_no_entry hs]; exact ⟨rfl, hpre.1, ⟨0, chainOk_none hs 0⟩⟩
    | some rs =>
      by_cases hck : id ∈ s.checked
      · rw [dfs_checked hs _ hck]; exact ⟨rfl, hpre.1, hpre.1 id hck⟩
      · by_cases hch : id ∈ s.chain
        · rw [dfs_on_chain hs _ hck hch]
          exact never_of_below_self (fun b hb => hbel id hch b hb)
        · rw [dfs_zero hs hck hch]
          have hnd : (id :: s.chain).Nodup := List.nodup_cons.mpr ⟨hch, hpre.2.1⟩
          have hsub : (id :: s.chain) ⊆ keys := by
            intro x hx
            rcases List.mem_cons.mp hx with rfl | hx
            · exact hk _ (by rw [hs]; exact fun h => by cases h)
            · exact hpre.2.2 x hx
          have := hnd.length_le_of_subset hsub
          simp only [List.length_cons] at this
          show 0 + s.chain.length < keys.length
          omega
  | succ f ih =>
    intro id s hpre hbel
    cases hs : succ id with
    | none => rw [dfs_no_entry hs]; exact ⟨rfl, hpre.1, ⟨0, chainOk_none hs 0⟩⟩
    | some rs =>
      by_cases hck : id ∈ s.checked
      · rw [dfs_checked hs _ hck]; exact ⟨rfl, hpre.1, hpre.1 id hck⟩
      · by_cases hch : id ∈ s.chain
        · rw [dfs_on_chain hs _ hck hch]
          exact never_of_below_self (fun b hb => hbel id hch b hb)
        · have hnd : (id :: s.chain).Nodup := List.nodup_cons.mpr ⟨hch, hpre.2.1⟩
          have hsub : ∀ x ∈ id :: s.chain, x ∈ keys := by
            intro x hx
            rcases List.mem_cons.mp hx with rfl | hx
            · exact hk _ (by rw [hs]; exact fun h => by cases h)
            · exact hpre.2.2 x hx
          have hpre0 : Pre succ keys { s with chain := id :: s.chain, expansions := s.expansions + 1 } :=
            ⟨hpre.1, hnd, hsub⟩
          have hbel0 : ∀ r ∈ rs, Below succ (id :: s.chain) r := by
            intro r hr c hc b hb
            rcases List.mem_cons.mp hc with rfl | hc
            · exact descend hs hr hb
            · obtain ⟨b1, hlt1, hb1⟩ := hbel c hc b hb
              obtain ⟨b2, hlt2, hb2⟩ := descend hs hr hb1
              exact ⟨b2, Nat.lt_trans hlt2 hlt1, hb2⟩
          have h := foldReq_post succ keys f ih rs _ hpre0 hbel0
          cases hf : foldReq (dfs succ f) rs { s with chain := id :: s.chain, expansions := s.expansions + 1 } with
          | none =>
            rw [hf] at h
            rw [dfs_succ_none hs hck hch hf]
            have h' : f + (id :: s.chain).length < keys.length := h
            simp only [List.length_cons] at h'
            show f + 1 + s.chain.length < keys.length
            omega
          | some res =>
            obtain ⟨b, s'⟩ := res
            rw [hf] at h
            cases b with
            | false =>
              rw [dfs_succ_false hs hck hch hf]
              obtain ⟨r, hr, hrn⟩ := h
              exact never_of_succ hs hr hrn
            | true =>
              rw [dfs_succ_true hs hck hch hf]
              obtain ⟨hch', hck', hall⟩ := h
              have hch'' : s'.chain = id :: s.chain := hch'
              have hid : Ends succ id := ends_of_succ hs hall
              refine ⟨?_, ?_, hid⟩
              · show s'.chain.erase id = s.chain
                rw [hch'']; simp
              · intro x hx
                rcases List.mem_cons.mp hx with rfl | hx
                · exact hid
                · exact hck' x hx

/-- The loop over the keys: with the number of keys as fuel it does not run out, `true` means every
key ends, `false` means some key never does. -/
def PostAll (succ : ν → Option (List ν)) (ks : List ν) : Option (Bool × St ν) → Prop
  | none => False
  | some (true, s') => (∀ x ∈ s'.checked, Ends succ x) ∧ ∀ k ∈ ks, Ends succ k
  | some (false, _) => ∃ k ∈ ks, ∀ b, chainOk succ b k = false

theorem checkAll_post (succ : ν → Option (List ν)) (keys : List ν) (hk : ∀ x, succ x ≠ none → x ∈ keys) :
    ∀ (ks : List ν) (s : St ν), (∀ x ∈ s.checked, Ends succ x) →
      PostAll succ ks (foldReq (fun id s => dfs succ keys.length id { s with chain := [] }) ks s) := by
  intro ks
  induction ks with
  | nil => intro s hs; rw [foldReq_nil]; exact ⟨hs, fun _ h => by cases h⟩
  | cons k ks ih =>
    intro s hs
    have h1 := dfs_post succ keys hk keys.length k { s with chain := [] } ⟨hs, by simp, by simp⟩
      (by intro c hc; cases hc)
    cases hd : dfs succ keys.length k { s with chain := [] } with
    | none =>
      rw [hd] at h1
      have h1' : keys.length + 0 < keys.length := h1
      omega
    | some res =>
      obtain ⟨b, s'⟩ := res
      rw [hd] at h1
      cases b with
      | false =>
        rw [foldReq_cons_false (step := fun id s => dfs succ keys.length id { s with chain := [] }) hd]
        exact ⟨k, by simp, h1⟩
      | true =>
        rw [foldReq_cons_true (step := fun id s => dfs succ keys.length id { s with chain := [] }) hd]
        obtain ⟨_, hck, hek⟩ := h1
        have h2 := ih s' hck
        cases hf : foldReq (fun id s => dfs succ keys.length id { s with chain := [] }) ks s' with
        | none => rw [hf] at h2; exact h2.elim
        | some res2 =>
          obtain ⟨b2, s2⟩ := res2
          rw [hf] at h2
          cases b2 with
          | false =>
            obtain ⟨x, hx, hxn⟩ := h2
            exact ⟨x, by simp [hx], hxn⟩
          | true =>
            refine ⟨h2.1, ?_⟩
            intro x hx
            rcases List.mem_cons.mp hx with rfl | hx
            · exact hek
            · exact h2.2 x hx

/-- **The repaired check gives the answer of the check it replaced**, for every graph, every list of
keys that contains all elements with an entry, and every budget `n` that bounds the number of different
keys (the old code used exactly that number). -/
theorem dfsCheck_eq (succ : ν → Option (List ν)) (keys : List ν) (hk : ∀ x, succ x ≠ none → x ∈ keys) (n : Nat)
    (hn : ∀ l : List ν, l.Nodup → (∀ x ∈ l, succ x ≠ none) → l.length ≤ n) :
    dfsCheck succ keys = keys.all (chainOk succ n) := by
  have h := checkAll_post succ keys hk keys ⟨[], [], 0⟩ (by intro x hx; cases hx)
  unfold dfsCheck checkAll
  cases hc : foldReq (fun id s => dfs succ keys.length id { s with chain := [] }) keys ⟨[], [], 0⟩ with
  | none => rw [hc] at h; exact h.elim
  | some res =>
    obtain ⟨b, s'⟩ := res
    rw [hc] at h
    cases b with
    | true =>
      show true = keys.all (chainOk succ n)
      symm
      rw [List.all_eq_true]
      intro k hkm
      exact chainOk_of_ends succ n hn k (h.2 k hkm)
    | false =>
      show false = keys.all (chainOk succ n)
      symm
      rw [List.all_eq_false]
      obtain ⟨k, hkm, hkn⟩ := h
      exact ⟨k, hkm, by simp [hkn n]⟩

/-- The repaired check never runs out of fuel (the recursion is no deeper than the number of keys). -/
theorem checkAll_isSome (succ : ν → Option (List ν)) (keys : List ν) (hk : ∀ x, succ x ≠ none → x ∈ keys) :
    (checkAll succ keys.length keys).isSome = true := by
  have h := checkAll_post succ keys hk keys ⟨[], [], 0⟩ (by intro x hx; cases hx)
  unfold checkAll
  cases hc : foldReq (fun id s => dfs succ keys.length id { s with chain := [] }) keys ⟨[], [], 0⟩ with
  | none => rw [hc] at h; exact h.elim
  | some _ => rfl

end Dmn.ReqDfs
