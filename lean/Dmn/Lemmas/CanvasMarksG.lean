import Dmn.Lemmas.CanvasMarksF

/-!
# Stage 2 of the scanner holds for the drawing of every table
-/

namespace Dmn.Recog
open Scan (ok error)

theorem doubleGrid_cols (d : Decor) (L : Layout) (t : TableSpec) (ho : t.orientation = .ruleAsColumn)
    (hn : 0 < t.inputs.length) (hm : 0 < t.outputs.length) (hr : 0 < t.rules.length) :
    DoubleGrid (sheetOf d L t) t.headerRows t.inputs.length none
      (if t.annotations.length = 0 then none else some (t.inputs.length + t.outputs.length)) := by
  have hH := headerRows_pos t
  have hs : sheetOf d L t =
      { nrows := t.inputs.length + t.outputs.length + t.annotations.length + 1,
        ncols := t.headerRows + t.rules.length,
        key := fun row col => keyH d t col
          (if row = t.inputs.length + t.outputs.length + t.annotations.length then 0 else row + 1),
        text := textOfKey d t, colW := L.colW, rowH := L.rowH,
        vDbl := fun b => b == t.headerRows,
        hDbl := fun b => b == t.inputs.length ||
          (t.annotations.length != 0 && b == t.inputs.length + t.outputs.length) } := by
    unfold sheetOf; rw [ho]
  rw [hs]
  refine ⟨(by simp only; omega), (by simp only; omega), (by intro b h; cases h), ?_, ?_, ?_, ?_, ?_,
    (by intro b h; cases h), ?_⟩
  · intro b hb
    split at hb
    · cases hb
    · cases hb; simp only; omega
  · intro b
    simp only [beq_iff_eq]
    constructor
    · intro h; exact Or.inl h
    · rintro (h | h)
      · exact h
      · cases h
  · intro b
    simp only [Bool.or_eq_true, beq_iff_eq, Bool.and_eq_true, bne_iff_ne, ne_eq]
    constructor
    · rintro (h | ⟨h1, h2⟩)
      · exact Or.inl h
      · right; rw [if_neg h1, h2]
    · rintro (h | h)
      · exact Or.inl h
      · split at h
        · cases h
        · rename_i hk; cases h; exact Or.inr ⟨hk, rfl⟩
  · intro b hb r
    simp only [beq_iff_eq] at hb
    subst hb
    simp only [Sheet.vSeg, Bool.or_eq_true, beq_iff_eq, bne_iff_ne, ne_eq]
    right
    exact keyH_header_rule d t _
  · intro b hb c
    simp only [Bool.or_eq_true, beq_iff_eq, Bool.and_eq_true, bne_iff_ne, ne_eq] at hb
    simp only [Sheet.hSeg, Bool.or_eq_true, beq_iff_eq, bne_iff_ne, ne_eq]
    right
    rcases hb with rfl | ⟨hk, rfl⟩
    · have e1 : ¬ t.inputs.length - 1 = t.inputs.length + t.outputs.length + t.annotations.length := by omega
      have e2 : ¬ t.inputs.length = t.inputs.length + t.outputs.length + t.annotations.length := by omega
      have e3 : t.inputs.length - 1 + 1 = t.inputs.length := by omega
      rw [if_neg e1, if_neg e2, e3]
      exact keyH_in_out d t hn hm c
    · have e1 : ¬ t.inputs.length + t.outputs.length - 1 =
          t.inputs.length + t.outputs.length + t.annotations.length := by omega
      have e2 : ¬ t.inputs.length + t.outputs.length =
          t.inputs.length + t.outputs.length + t.annotations.length := by omega
      have e3 : t.inputs.length + t.outputs.length - 1 + 1 = t.inputs.length + t.outputs.length := by omega
      rw [if_neg e1, if_neg e2, e3]
      exact keyH_out_ann d t hn hm c
  · intro b1 hb1 br h1 h2
    split at hb1
    · cases hb1
    · cases hb1
      have := keyH_out_out d t br h1 (by omega)
      have e1 : ¬ br - 1 = t.inputs.length + t.outputs.length + t.annotations.length := by omega
      have e2 : ¬ br = t.inputs.length + t.outputs.length + t.annotations.length := by omega
      have e3 : br - 1 + 1 = br := by omega
      simp only [Sheet.hSeg, Bool.or_eq_true, beq_iff_eq, bne_iff_ne, ne_eq, if_neg e1, if_neg e2, e3]
      exact ⟨Or.inr this.1, Or.inr this.2⟩

/-- **The drawing of the table is a legal one**: no text (of the table or of the decoration)
contains a box-drawing character or `░`; when there is a name it contains none either, the
information item box has an interior (`boxRight ≥ 2`), is not wider than the body, and its right
edge does not stand over a double line. -/
abbrev Fits (d : Decor) (L : Layout) (t : TableSpec) : Prop :=
  SheetFits (sheetOf d L t) t.infoName L.boxRight

theorem sheetOf_text (d : Decor) (L : Layout) (t : TableSpec) :
    (sheetOf d L t).text = textOfKey d t := by
  unfold sheetOf; cases t.orientation <;> rfl

/-- **Stage 2 for every table**: on the canvas of the drawing of every table (both orientations,
with or without annotations and information item name, any layout) that is a legal drawing, the
scanner finds the information item name, the crossings and the body rectangle where the sheet
has them. -/
theorem scanMarks_draw (d : Decor) (L : Layout) (t : TableSpec)
    (ho : t.orientation ≠ .crossTable) (hn : 0 < t.inputs.length) (hm : 0 < t.outputs.length)
    (hr : 0 < t.rules.length) (hf : Fits d L t) :
    scanMarks (canvasOf (draw d L t)) = ok (expectedMarks d L t) := by
  have hc : canvasOf (draw d L t) = sheetCanvas (sheetOf d L t) t.infoName L.boxRight := by
    rw [draw_eq_drawSheet]; rfl
  rw [hc]
  cases hor : t.orientation with
  | ruleAsRow =>
    rw [scanMarks_sheet hf (doubleGrid_rows d L t hor hn hm hr)]
    unfold expectedMarks
    simp only [hor, nameLines_eq, Nat.add_comm 1 t.inputs.length]
    congr 2
    split <;> rfl
  | ruleAsColumn =>
    rw [scanMarks_sheet hf (doubleGrid_cols d L t hor hn hm hr)]
    unfold expectedMarks
    simp only [hor, nameLines_eq]
    congr 2
    split <;> rfl
  | crossTable => exact absurd hor ho

theorem stageMarks_of_fits (d : Decor) (L : Layout) (t : TableSpec)
    (ho : t.orientation ≠ .crossTable) (hn : 0 < t.inputs.length) (hm : 0 < t.outputs.length)
    (hr : 0 < t.rules.length) (hf : Fits d L t) : stageMarks d L t = true := by
  unfold stageMarks
  rw [scanMarks_draw d L t ho hn hm hr hf]
  exact beq_self_eq_true _

end Dmn.Recog
