import Dmn.Model.XmlBuild

/-!
# Lemmas about the parser model `Dmn.Xml` (C12): the recursion equations, panic freedom, inversion
of successful runs.
-/

namespace Dmn.Xml

/-! ## The defining equations of the two recursive parser functions -/

theorem annotateList_eq_map (cs : List XNode) : annotateList cs = cs.map annotate := by
  induction cs with
  | nil => simp [annotateList]
  | cons c cs ih => simp [annotateList, ih]

/-- `parse_optional_expression_instance(node)` is the body of parser.rs:510-530 on the node's
children, at every node of the tree. -/
theorem annotate_expr (n : XNode) :
    (annotate n).expr = parseOptionalExpressionInstance (annotate n).children := by
  cases n <;> simp [annotate, ANode.expr, ANode.children]

/-- `parse_item_definitions(node, NODE_ITEM_COMPONENT)` is the loop of parser.rs:186-213 over the
node's children, at every node of the tree. -/
theorem annotate_comps (n : XNode) :
    (annotate n).comps = parseItemDefinitions (annotate n).children N.itemComponent := by
  cases n <;> simp [annotate, ANode.comps, ANode.children]

/-- The children of the annotated node are the annotated children. -/
theorem annotate_children (name : Str) (attrs : List XAttr) (cs : List XNode) :
    (annotate (.elem name attrs cs)).children = cs.map annotate := by
  simp [annotate, ANode.children, annotateList_eq_map]

theorem annotate_name (name : Str) (attrs : List XAttr) (cs : List XNode) :
    (annotate (.elem name attrs cs)).name = name := by
  simp [annotate, ANode.name]

theorem annotate_attr (name : Str) (attrs : List XAttr) (cs : List XNode) (a : Str) :
    (annotate (.elem name attrs cs)).attr a =
      (attrs.find? (fun x => !x.ns && x.name == a)).map (·.value) := by
  simp [annotate, ANode.attr, ANode.attrs]

/-! ## Panic freedom -/

/-- The result is not a panic. -/
def NP {α : Type} (r : Res α) : Prop := r.isPanic = false

theorem NP_ok {α : Type} (a : α) : NP (Res.ok a) := rfl
theorem NP_err {α : Type} (e : PErr) : NP (Res.err e : Res α) := rfl
theorem NP_pure {α : Type} (a : α) : NP (pure a : Res α) := rfl

theorem NP_lift {α : Type} (x : PRes α) : NP (Res.lift x) := by
  cases x <;> rfl

theorem NP_bind {α β : Type} {x : Res α} {f : α → Res β} (hx : NP x) (hf : ∀ a, NP (f a)) :
    NP (x >>= f) := by
  show NP (Res.bind x f)
  cases x with
  | ok a => exact hf a
  | err e => rfl
  | panic s => simp [NP, Res.isPanic] at hx

theorem NP_mapR {α β : Type} {f : α → Res β} (hf : ∀ x, NP (f x)) (xs : List α) : NP (mapR f xs) := by
  induction xs with
  | nil => rfl
  | cons x xs ih =>
    have h1 := hf x
    simp only [mapR]
    cases hx : f x with
    | err e => rfl
    | panic s => rw [hx] at h1; simp [NP, Res.isPanic] at h1
    | ok y =>
      cases hm : mapR f xs with
      | err e => rfl
      | panic s => rw [hm] at ih; simp [NP, Res.isPanic] at ih
      | ok ys => rfl

/-- A uri oracle that never panics. -/
def UriTotal (uri : Str → UriOut) : Prop := ∀ s, uri s ≠ .panic

/-- The `unwrap` of href.rs:66 is never reached with `None`: the only panic of `HRef::try_from` is the
one of the `uriparse` call. -/
theorem hrefTryFrom_panic {uri : Str → UriOut} {v : Str} (h : (hrefTryFrom uri v).isPanic = true) :
    uri v = .panic := by
  unfold hrefTryFrom at h
  cases hu : uri v with
  | panic => rfl
  | err => rw [hu] at h; simp [Res.isPanic] at h
  | ok rel s =>
    rw [hu] at h
    cases rel with
    | false => simp [Res.isPanic] at h
    | true =>
      cases s with
      | nil => simp [Res.isPanic] at h
      | cons c r =>
        by_cases hc : c = 35
        · subst hc; simp [stripHash, Res.isPanic] at h
        · simp [hc, Res.isPanic] at h

theorem NP_hrefTryFrom {uri : Str → UriOut} (hu : UriTotal uri) (v : Str) : NP (hrefTryFrom uri v) := by
  unfold NP
  cases h : (hrefTryFrom uri v).isPanic with
  | false => rfl
  | true => exact absurd (hrefTryFrom_panic h) (hu v)

theorem NP_optionalChildRequiredHref {uri : Str → UriOut} (hu : UriTotal uri) (n : ANode) (c : Str) :
    NP (optionalChildRequiredHref uri n c) := by
  unfold optionalChildRequiredHref
  split
  · split
    · rfl
    · rename_i v _
      have := NP_hrefTryFrom hu v
      cases hh : hrefTryFrom uri v with
      | ok h => rfl
      | err e => rfl
      | panic s => rw [hh] at this; simp [NP, Res.isPanic] at this
  · rfl

theorem NP_requiredHref {uri : Str → UriOut} (hu : UriTotal uri) (c : ANode) : NP (requiredHref uri c) := by
  unfold requiredHref
  split
  · rfl
  · exact NP_hrefTryFrom hu _

theorem NP_parseInformationRequirement {uri : Str → UriOut} (hu : UriTotal uri) (n : ANode) :
    NP (parseInformationRequirement uri n) := by
  unfold parseInformationRequirement
  exact NP_bind (NP_optionalChildRequiredHref hu _ _) fun _ =>
    NP_bind (NP_optionalChildRequiredHref hu _ _) fun _ => NP_pure _

theorem NP_parseKnowledgeRequirement {uri : Str → UriOut} (hu : UriTotal uri) (n : ANode) :
    NP (parseKnowledgeRequirement uri n) := by
  unfold parseKnowledgeRequirement
  exact NP_bind (NP_optionalChildRequiredHref hu _ _) fun _ => NP_pure _

theorem NP_parseDecision {uri : Str → UriOut} (hu : UriTotal uri) (c : ANode) : NP (parseDecision uri c) := by
  unfold parseDecision
  exact NP_bind (NP_lift _) fun _ => NP_bind (NP_lift _) fun _ => NP_bind (NP_lift _) fun _ =>
    NP_bind (NP_lift _) fun _ =>
    NP_bind (NP_mapR (NP_parseInformationRequirement hu) _) fun _ =>
    NP_bind (NP_mapR (NP_parseKnowledgeRequirement hu) _) fun _ => NP_pure _

theorem NP_parseBusinessKnowledgeModel {uri : Str → UriOut} (hu : UriTotal uri) (c : ANode) :
    NP (parseBusinessKnowledgeModel uri c) := by
  unfold parseBusinessKnowledgeModel
  exact NP_bind (NP_lift _) fun _ => NP_bind (NP_lift _) fun _ => NP_bind (NP_lift _) fun _ =>
    NP_bind (NP_lift _) fun _ =>
    NP_bind (NP_mapR (NP_parseKnowledgeRequirement hu) _) fun _ => NP_pure _

theorem NP_parseDecisionService {uri : Str → UriOut} (hu : UriTotal uri) (c : ANode) :
    NP (parseDecisionService uri c) := by
  unfold parseDecisionService
  exact NP_bind (NP_lift _) fun _ => NP_bind (NP_lift _) fun _ => NP_bind (NP_lift _) fun _ =>
    NP_bind (NP_mapR (NP_requiredHref hu) _) fun _ =>
    NP_bind (NP_mapR (NP_requiredHref hu) _) fun _ =>
    NP_bind (NP_mapR (NP_requiredHref hu) _) fun _ =>
    NP_bind (NP_mapR (NP_requiredHref hu) _) fun _ => NP_pure _

theorem NP_parseDrgElements {uri : Str → UriOut} (hu : UriTotal uri) (n : ANode) :
    NP (parseDrgElements uri n) := by
  unfold parseDrgElements
  exact NP_bind (NP_lift _) fun _ =>
    NP_bind (NP_mapR (NP_parseDecision hu) _) fun _ =>
    NP_bind (NP_mapR (NP_parseBusinessKnowledgeModel hu) _) fun _ =>
    NP_bind (NP_mapR (NP_parseDecisionService hu) _) fun _ =>
    NP_bind (NP_lift _) fun _ => NP_pure _

theorem NP_parseDefinitions {uri : Str → UriOut} (hu : UriTotal uri) (n : ANode) :
    NP (parseDefinitions uri n) := by
  unfold parseDefinitions
  exact NP_bind (NP_lift _) fun _ => NP_bind (NP_lift _) fun _ => NP_bind (NP_lift _) fun _ =>
    NP_bind (NP_lift _) fun _ => NP_bind (NP_parseDrgElements hu n) fun _ =>
    NP_bind (NP_lift _) fun _ => NP_bind (NP_lift _) fun _ => NP_pure _

theorem NP_parse {uri : Str → UriOut} (hu : UriTotal uri) (root : XNode) : NP (parse uri root) := by
  unfold parse
  simp only
  split
  · rfl
  · exact NP_parseDefinitions hu _

/-! ## Inversion of successful runs -/

theorem res_bind_ok {α β : Type} {x : Res α} {f : α → Res β} {b : β} (h : (x >>= f) = .ok b) :
    ∃ a, x = .ok a ∧ f a = .ok b := by
  change Res.bind x f = .ok b at h
  cases x with
  | ok a => exact ⟨a, rfl, h⟩
  | err e => simp [Res.bind] at h
  | panic s => simp [Res.bind] at h

theorem pres_bind_ok {α β : Type} {x : PRes α} {f : α → PRes β} {b : β} (h : (x >>= f) = .ok b) :
    ∃ a, x = .ok a ∧ f a = .ok b := by
  cases x with
  | ok a => exact ⟨a, rfl, h⟩
  | error e => simp [bind, Except.bind] at h

theorem lift_ok {α : Type} {x : PRes α} {a : α} (h : Res.lift x = .ok a) : x = .ok a := by
  cases x with
  | ok b => simp [Res.lift] at h; rw [h]
  | error e => simp [Res.lift] at h

theorem mapE_ok_mem {α β : Type} {f : α → PRes β} {xs : List α} {ys : List β} (h : mapE f xs = .ok ys)
    {x : α} (hx : x ∈ xs) : ∃ y, f x = .ok y := by
  induction xs generalizing ys with
  | nil => cases hx
  | cons z zs ih =>
    simp only [mapE] at h
    cases hz : f z with
    | error e => rw [hz] at h; simp at h
    | ok y =>
      rw [hz] at h
      cases hm : mapE f zs with
      | error e => rw [hm] at h; simp at h
      | ok ys' =>
        rcases List.mem_cons.mp hx with rfl | hx'
        · exact ⟨y, hz⟩
        · exact ih hm hx'

theorem mapR_ok_mem {α β : Type} {f : α → Res β} {xs : List α} {ys : List β} (h : mapR f xs = .ok ys)
    {x : α} (hx : x ∈ xs) : ∃ y, f x = .ok y := by
  induction xs generalizing ys with
  | nil => cases hx
  | cons z zs ih =>
    simp only [mapR] at h
    cases hz : f z with
    | err e => rw [hz] at h; simp at h
    | panic s => rw [hz] at h; simp at h
    | ok y =>
      rw [hz] at h
      cases hm : mapR f zs with
      | err e => rw [hm] at h; simp at h
      | panic s => rw [hm] at h; simp at h
      | ok ys' =>
        rcases List.mem_cons.mp hx with rfl | hx'
        · exact ⟨y, hz⟩
        · exact ih hm hx'

/-- A successful loop yields one result per element, each the result of the body on that element. -/
theorem mapE_ok_map {α β : Type} {f : α → PRes β} {xs : List α} {ys : List β}
    (h : mapE f xs = .ok ys) : xs.map f = ys.map Except.ok := by
  induction xs generalizing ys with
  | nil => simp [mapE] at h; subst h; rfl
  | cons z zs ih =>
    simp only [mapE] at h
    cases hz : f z with
    | error e => rw [hz] at h; simp at h
    | ok y =>
      rw [hz] at h
      cases hm : mapE f zs with
      | error e => rw [hm] at h; simp at h
      | ok ys' =>
        rw [hm] at h
        simp at h
        subst h
        simp [hz, ih hm]

theorem mapE_ok_length {α β : Type} {f : α → PRes β} {xs : List α} {ys : List β}
    (h : mapE f xs = .ok ys) : ys.length = xs.length := by
  have := congrArg List.length (mapE_ok_map h)
  simpa using this.symm

theorem requiredAttribute_ok {n : ANode} {a v : Str} (h : requiredAttribute n a = .ok v) :
    n.attr a = some v := by
  unfold requiredAttribute at h
  split at h
  · rename_i w hw; simp at h; rw [hw, h]
  · simp at h

theorem mem_filterIn {cs : List ANode} {c : ANode} {name : Str} (hc : c ∈ cs) (hn : c.name = name) :
    c ∈ filterIn cs name := by
  simp [filterIn, hc, hn]

end Dmn.Xml
