import Dmn.Lemmas.CanvasMarksB

/-!
# The marks of a drawn sheet, part C: `recognize_crossings` and `recognize_body_rect`
-/

namespace Dmn.Recog
open Scan (ok error)

section
variable {s : Sheet} {name : Option Text} {boxRight : Nat} {bc0 br0 : Nat} {bc1 br1 : Option Nat}

theorem xPos_lt_of (s : Sheet) {a b : Nat} (h : s.xPos a < s.xPos b) : a < b := by
  by_cases h1 : a < b
  · exact h1
  · have : s.xPos b ≤ s.xPos a := by
      rw [Sheet.xPos_eq, Sheet.xPos_eq]; exact sumTo_mono _ (by omega)
    omega

theorem yPos_lt_of (s : Sheet) {a b : Nat} (h : s.yPos a < s.yPos b) : a < b := by
  by_cases h1 : a < b
  · exact h1
  · have : s.yPos b ≤ s.yPos a := by
      rw [Sheet.yPos_eq, Sheet.yPos_eq]; exact sumTo_mono _ (by omega)
    omega

/-- the crossing to the right of the main one (`cross_horz`) -/
theorem crossHorz_eq (hf : SheetFits s name boxRight) (g : DoubleGrid s bc0 br0 bc1 br1) :
    okPoint (searchRight (sheetCanvas s name boxRight) ⟨s.xPos bc0, boxLines name + s.yPos br0⟩ .text
      ['╬'] ['═', '╪']) = ok (bc1.map fun b => ⟨s.xPos b, boxLines name + s.yPos br0⟩) := by
  have sh := sheetCanvas_shape s name boxRight hf
  obtain ⟨hyb, hxb⟩ := cross_bounds (name := name) g
  have hh := hDbl_br0 g
  cases hb1 : bc1 with
  | none =>
    refine okPoint_searchRight_none sh hyb hxb .text _ _ ?_
    intro x' h1 h2
    apply not_cross
    intro hc
    obtain ⟨br, bc, _, hv, _, hx⟩ := cross_only hf g _ x' hyb h2 hc
    rcases (g.vdbl bc).mp hv with rfl | h3
    · omega
    · rw [hb1] at h3; cases h3
  | some b1 =>
    have hb := g.hbc1 b1 hb1
    have hv1 : s.vDbl b1 = true := (g.vdbl b1).mpr (Or.inr hb1)
    have hat := cross_at (name := name) hf g hh hv1
    have hx1 : s.xPos bc0 < s.xPos b1 := xPos_strict s hb.1
    have hx2 : s.xPos b1 < s.xPos s.ncols + 1 := by
      have := xPos_le s (show b1 ≤ s.ncols by omega); omega
    rw [searchRight_spec sh hyb hx1 hx2 .text ['╬'] ['═', '╪']
      (by rw [show chOf _ _ _ _ = _ from hat]; decide) ?_]
    · rfl
    · intro x' h1 h2
      have hx3 : x' < s.xPos s.ncols := by
        have := xPos_le s (show b1 ≤ s.ncols by omega); omega
      rcases row_dbl (name := name) hf g hh x' (by omega) hx3 with ⟨bc, hbc0, hbc1, rfl, hT⟩ | hT
      · have hlo : bc0 < bc := xPos_lt_of s h1
        have hhi : bc < b1 := xPos_lt_of s h2
        have hnv : s.vDbl bc = false := by
          cases hv : s.vDbl bc with
          | false => rfl
          | true =>
            rcases (g.vdbl bc).mp hv with rfl | h3
            · omega
            · rw [hb1] at h3; cases h3; omega
        obtain ⟨hu, hd⟩ := g.betweenCols b1 hb1 bc hlo hhi
        have := (g.vch_onHorz hh hbc0 hbc1 hnv).2 hu hd
        rw [show chOf _ _ _ _ = _ from hT, this]
        exact ⟨by decide, by decide⟩
      · rw [show chOf _ _ _ _ = _ from hT]
        exact ⟨by decide, by decide⟩

/-- the crossing below the main one (`cross_vert`) -/
theorem crossVert_eq (hf : SheetFits s name boxRight) (g : DoubleGrid s bc0 br0 bc1 br1) :
    okPoint (searchDown (sheetCanvas s name boxRight) ⟨s.xPos bc0, boxLines name + s.yPos br0⟩ .text
      ['╬'] ['║', '╫']) = ok (br1.map fun b => ⟨s.xPos bc0, boxLines name + s.yPos b⟩) := by
  have sh := sheetCanvas_shape s name boxRight hf
  obtain ⟨hyb, hxb⟩ := cross_bounds (name := name) g
  have hv := vDbl_bc0 g
  cases hb1 : br1 with
  | none =>
    refine okPoint_searchDown_none sh hyb hxb .text _ _ ?_
    intro y' h1 h2
    apply not_cross
    intro hc
    obtain ⟨br, bc, hh, _, hy, _⟩ := cross_only hf g y' _ h2 hxb hc
    rcases (g.hdbl br).mp hh with rfl | h3
    · omega
    · rw [hb1] at h3; cases h3
  | some b1 =>
    have hb := g.hbr1 b1 hb1
    have hh1 : s.hDbl b1 = true := (g.hdbl b1).mpr (Or.inr hb1)
    have hat := cross_at (name := name) hf g hh1 hv
    have hy1 : boxLines name + s.yPos br0 < boxLines name + s.yPos b1 := by
      have := yPos_strict s hb.1; omega
    have hy2 : boxLines name + s.yPos b1 < boxLines name + s.yPos s.nrows + 2 := by
      have := yPos_le s (show b1 ≤ s.nrows by omega); omega
    rw [searchDown_spec sh hxb hy1 hy2 .text ['╬'] ['║', '╫']
      (by rw [show chOf _ _ _ _ = _ from hat]; decide) ?_]
    · rfl
    · intro y' h1 h2
      obtain ⟨j, rfl⟩ : ∃ j, y' = boxLines name + j := ⟨y' - boxLines name, by omega⟩
      have hj3 : j < s.yPos s.nrows := by
        have := yPos_le s (show b1 ≤ s.nrows by omega); omega
      rcases col_dbl (name := name) hf g hv j (by omega) hj3 with ⟨br, hbr0, hbr1, rfl, hT⟩ | hT
      · have hlo : br0 < br := yPos_lt_of s (by omega)
        have hhi : br < b1 := yPos_lt_of s (by omega)
        have hnh : s.hDbl br = false := by
          cases hh : s.hDbl br with
          | false => rfl
          | true =>
            rcases (g.hdbl br).mp hh with rfl | h3
            · omega
            · rw [hb1] at h3; cases h3; omega
        obtain ⟨hl, hr⟩ := g.betweenRows b1 hb1 br hlo hhi
        have := (g.vch_onVert hv hbr0 hbr1 hnh).2 hl hr
        rw [show chOf _ _ _ _ = _ from hT, this]
        exact ⟨by decide, by decide⟩
      · rw [show chOf _ _ _ _ = _ from hT]
        exact ⟨by decide, by decide⟩

theorem moveTo_zero (hf : SheetFits s name boxRight) :
    moveTo (sheetCanvas s name boxRight) Point.zero = ok ⟨0, 0⟩ :=
  moveTo_in (sheetCanvas_shape s name boxRight hf) (by omega) (by omega)

/-- **`recognize_crossings` on the drawing of a sheet with double lines** -/
theorem recognizeCrossings_sheet (hf : SheetFits s name boxRight) (g : DoubleGrid s bc0 br0 bc1 br1) :
    recognizeCrossings (sheetCanvas s name boxRight) =
      ok (⟨s.xPos bc0, boxLines name + s.yPos br0⟩,
        bc1.map (fun b => ⟨s.xPos b, boxLines name + s.yPos br0⟩),
        br1.map (fun b => ⟨s.xPos bc0, boxLines name + s.yPos b⟩)) := by
  have sh := sheetCanvas_shape s name boxRight hf
  obtain ⟨hyb, hxb⟩ := cross_bounds (name := name) g
  unfold recognizeCrossings
  rw [moveTo_zero hf]
  simp only [Scan.ok_bind]
  rw [search_cross hf g]
  simp only [Scan.ok_bind]
  rw [moveTo_in sh hyb hxb]
  simp only [Scan.ok_bind]
  rw [crossHorz_eq hf g, crossVert_eq hf g]
  rfl

end

end Dmn.Recog
