import Dmn.Lemmas.CanvasText

/-!
# List lemmas for the regions in reading order

`sparse_flatMap`: a `flatMap` over a range whose function is empty off a strictly increasing
sequence of positions is the `flatMap` over these positions.  `zipIdx_eq_range`,
`find?_range_first`, `keepFirst_eq`, `mapM_map_ok`.
-/

namespace Dmn.Recog
open Scan (ok error)

theorem flatMap_eq_nil_of {α β : Type} (l : List α) (f : α → List β) (h : ∀ a ∈ l, f a = []) :
    l.flatMap f = [] := by
  induction l with
  | nil => rfl
  | cons a as ih =>
    rw [List.flatMap_cons, h a (by simp), ih (fun b hb => h b (by simp [hb]))]
    rfl

theorem range_split (W p : Nat) (hp : p < W) :
    List.range W = List.range p ++ (p :: List.range' (p + 1) (W - (p + 1))) := by
  rw [List.range_eq_range', List.range_eq_range']
  have h1 : W = p + ((W - (p + 1)) + 1) := by omega
  have h2 : List.range' 0 (p + ((W - (p + 1)) + 1)) = List.range' 0 p ++ List.range' (0 + p) ((W - (p + 1)) + 1) := by
    rw [List.range'_append_1]
  rw [show List.range' 0 W = List.range' 0 (p + ((W - (p + 1)) + 1)) by rw [← h1], h2, Nat.zero_add,
    List.range'_succ]

/-- a `flatMap` over a range that is empty off the positions `pos 0 < pos 1 < …` -/
theorem sparse_flatMap {β : Type} (G : Nat → List β) (pos : Nat → Nat) : ∀ (n W : Nat),
    (∀ i, i < n → pos i < W) → (∀ i j, i < j → j < n → pos i < pos j) →
    (∀ x, x < W → (∀ i, i < n → x ≠ pos i) → G x = []) →
    (List.range W).flatMap G = (List.range n).flatMap (fun i => G (pos i))
  | 0, W, _, _, hoff => by
    rw [flatMap_eq_nil_of _ _ (fun x hx => hoff x (List.mem_range.mp hx) (fun i hi => by omega))]
    rfl
  | n + 1, W, hlt, hmono, hoff => by
    have hp := hlt n (by omega)
    rw [range_split W (pos n) hp, List.flatMap_append, List.flatMap_cons, List.range_succ,
      List.flatMap_append]
    have ih := sparse_flatMap G pos n (pos n) (fun i hi => hmono i n hi (by omega))
      (fun i j hij hj => hmono i j hij (by omega))
      (fun x hx hne => hoff x (by omega) (fun i hi => by
        by_cases hin : i = n
        · subst hin; omega
        · exact hne i (by omega)))
    rw [ih]
    have htail : (List.range' (pos n + 1) (W - (pos n + 1))).flatMap G = [] := by
      apply flatMap_eq_nil_of
      intro x hx
      have hx' := List.mem_range'_1.mp hx
      refine hoff x (by omega) (fun i hi => ?_)
      by_cases hin : i = n
      · subst hin; omega
      · have := hmono i n (by omega) (by omega); omega
    rw [htail]
    simp

theorem filterMap_eq_flatMap {α β : Type} (f : α → Option β) (l : List α) :
    l.filterMap f = l.flatMap (fun a => (f a).toList) := by
  induction l with
  | nil => rfl
  | cons a as ih =>
    rw [List.filterMap_cons, List.flatMap_cons, ← ih]
    cases f a <;> rfl

theorem zipIdx_eq_range {α : Type} [Inhabited α] (l : List α) :
    l.zipIdx = (List.range l.length).map (fun i => (l[i]!, i)) := by
  apply List.ext_getElem?
  intro i
  rw [List.getElem?_zipIdx, List.getElem?_map]
  by_cases hi : i < l.length
  · simp [hi, List.getElem?_eq_getElem hi, getElem!_pos l i hi, List.getElem?_range]
  · rw [List.getElem?_eq_none (Nat.le_of_not_lt hi),
      List.getElem?_eq_none (by rw [List.length_range]; exact Nat.le_of_not_lt hi)]
    rfl

theorem find?_range_first (p : Nat → Bool) : ∀ (n i : Nat), i < n → p i = true →
    (∀ j, j < i → p j = false) → (List.range n).find? p = some i
  | 0, _, h, _, _ => by omega
  | n + 1, i, hi, hp, hno => by
    rw [List.range_succ, List.find?_append]
    by_cases hin : i = n
    · subst hin
      have : (List.range i).find? p = none := by
        rw [List.find?_eq_none]
        intro x hx
        rw [hno x (List.mem_range.mp hx)]; decide
      rw [this]
      simp [hp]
    · rw [find?_range_first p n i (by omega) hp hno]
      rfl

theorem findSome?_range_first {β : Type} (f : Nat → Option β) (b : β) : ∀ (n i : Nat), i < n →
    f i = some b → (∀ j, j < i → f j = none) → (List.range n).findSome? f = some b
  | 0, _, h, _, _ => by omega
  | n + 1, i, hi, hp, hno => by
    rw [List.range_succ, List.findSome?_append]
    by_cases hin : i = n
    · subst hin
      have : (List.range i).findSome? f = none := by
        rw [List.findSome?_eq_none_iff]
        intro x hx
        exact hno x (List.mem_range.mp hx)
      rw [this]
      simp [hp]
    · rw [findSome?_range_first f b n i (by omega) hp hno]
      rfl

theorem mapM_map_ok {α β γ : Type} (f : β → Scan γ) (pt : α → β) (g : α → γ) :
    ∀ (xs : List α), (∀ a ∈ xs, f (pt a) = ok (g a)) → Scan.mapM f (xs.map pt) = ok (xs.map g)
  | [], _ => rfl
  | x :: xs, h => by
    simp only [List.map_cons, Scan.mapM, h x (by simp),
      mapM_map_ok f pt g xs (fun a ha => h a (by simp [ha]))]

theorem mapM_append_ok {α β : Type} (f : α → Scan β) (xs ys : List α) (as bs : List β)
    (h1 : Scan.mapM f xs = ok as) (h2 : Scan.mapM f ys = ok bs) :
    Scan.mapM f (xs ++ ys) = ok (as ++ bs) := by
  induction xs generalizing as with
  | nil => cases h1; exact h2
  | cons x xs ih =>
    simp only [Scan.mapM] at h1
    cases hx : f x with
    | ok b =>
      rw [hx] at h1
      cases hm : Scan.mapM f xs with
      | ok bs' =>
        rw [hm] at h1
        cases h1
        simp only [List.cons_append, Scan.mapM, hx, ih bs' hm]
      | error e => rw [hm] at h1; cases h1
      | panic s => rw [hm] at h1; cases h1
    | error e => rw [hx] at h1; cases h1
    | panic s => rw [hx] at h1; cases h1

/-- `keepFirst` keeps the elements of a list of cells whose key was not seen before; `first`
decides that for the cell, given the cells before it -/
theorem keepFirst_eq {α : Type} (key : α → Key) (first : α → Bool) :
    ∀ (post pre : List α) (acc : List Key),
      (∀ k, k ∈ acc ↔ ∃ b ∈ pre, key b = k) →
      (∀ (p1 p2 : List α) (a : α), post = p1 ++ a :: p2 →
        (first a = false ↔ ∃ b ∈ pre ++ p1, key b = key a)) →
      keepFirst (post.map key) acc = acc.reverse ++ (post.filter first).map key
  | [], _, acc, _, _ => by simp [keepFirst]
  | a :: post, pre, acc, hacc, hfirst => by
    have ha := hfirst [] post a rfl
    simp only [List.append_nil] at ha
    simp only [List.map_cons, keepFirst]
    by_cases hmem : key a ∈ acc
    · have hc : acc.contains (key a) = true := by simpa using hmem
      have hf : first a = false := ha.mpr ((hacc _).mp hmem)
      rw [if_pos hc, List.filter_cons_of_neg (by simp [hf])]
      refine keepFirst_eq key first post (pre ++ [a]) acc ?_ ?_
      · intro k
        rw [hacc k]
        constructor
        · rintro ⟨b, hb, e⟩; exact ⟨b, by simp [hb], e⟩
        · rintro ⟨b, hb, e⟩
          rcases List.mem_append.mp hb with hb | hb
          · exact ⟨b, hb, e⟩
          · rw [List.mem_singleton.mp hb] at e
            rw [← e]; exact (hacc _).mp hmem
      · intro p1 p2 a' e
        have := hfirst (a :: p1) p2 a' (by rw [e]; rfl)
        simpa [List.append_assoc] using this
    · have hc : ¬ acc.contains (key a) = true := by simpa using hmem
      have hf : first a = true := by
        cases hfa : first a with
        | true => rfl
        | false => exact absurd ((hacc _).mpr (ha.mp hfa)) hmem
      rw [if_neg hc, List.filter_cons_of_pos hf]
      rw [keepFirst_eq key first post (pre ++ [a]) (key a :: acc) ?_ ?_]
      · simp
      · intro k
        simp only [List.mem_cons, hacc k]
        constructor
        · rintro (e | ⟨b, hb, e⟩)
          · exact ⟨a, by simp, e.symm⟩
          · exact ⟨b, by simp [hb], e⟩
        · rintro ⟨b, hb, e⟩
          rcases List.mem_append.mp hb with hb | hb
          · exact Or.inr ⟨b, hb, e⟩
          · rw [List.mem_singleton.mp hb] at e
            exact Or.inl e.symm
      · intro p1 p2 a' e
        have := hfirst (a :: p1) p2 a' (by rw [e]; rfl)
        simpa [List.append_assoc] using this

end Dmn.Recog
