import Dmn.Lemmas.PlaneOrient

/-!
# Region numbers computed from the sheet (drawings with merged cells) satisfy `Ids.Ok`
-/

namespace Dmn.Recog
open Outcome (ok error)

theorem idxOf_ne {α : Type} [DecidableEq α] {l : List α} {a b : α} (ha : a ∈ l) (hab : a ≠ b) :
    l.idxOf a ≠ l.idxOf b := by
  intro h
  have hlt : l.idxOf a < l.length := List.idxOf_lt_length_of_mem ha
  have h1 : l[l.idxOf a] = a := List.getElem_idxOf hlt
  have hlt' : l.idxOf b < l.length := by rw [← h]; exact hlt
  have h2 : l[l.idxOf b] = b := List.getElem_idxOf hlt'
  apply hab
  rw [← h1, ← h2]
  congr 1

theorem mem_keepFirst {k : Key} : ∀ (ks acc : List Key), k ∈ keepFirst ks acc ↔ k ∈ ks ∨ k ∈ acc
  | [], acc => by simp [keepFirst]
  | x :: ks, acc => by
    simp only [keepFirst]
    split
    · rename_i hx
      rw [mem_keepFirst ks acc]
      simp only [List.mem_cons]
      constructor
      · rintro (h | h)
        · exact Or.inl (Or.inr h)
        · exact Or.inr h
      · rintro ((h | h) | h)
        · subst h; exact Or.inr (by simpa using hx)
        · exact Or.inl h
        · exact Or.inr h
    · rw [mem_keepFirst ks (x :: acc)]
      simp only [List.mem_cons]
      constructor
      · rintro (h | h | h)
        · exact Or.inl (Or.inr h)
        · exact Or.inl (Or.inl h)
        · exact Or.inr h
      · rintro ((h | h) | h)
        · exact Or.inr (Or.inl h)
        · exact Or.inl h
        · exact Or.inr (Or.inr h)

theorem mem_keysInOrder {s : Sheet} {r c : Nat} (hr : r < s.nrows) (hc : c < s.ncols) :
    s.key r c ∈ s.keysInOrder := by
  unfold Sheet.keysInOrder
  rw [mem_keepFirst]
  left
  simp only [List.mem_flatMap, List.mem_range, List.mem_map]
  exact ⟨r, hr, c, hc, rfl⟩

theorem headerRows_pos (t : TableSpec) : 0 < t.headerRows := by
  unfold TableSpec.headerRows; omega

/-- the key of the first header lane at an input position is the input expression -/
theorem keyH_expr (d : Decor) (t : TableSpec) {j : Nat} (hj : j < t.inputs.length) :
    keyH d t 0 (j + 1) = .expr j := by
  have hH := headerRows_pos t
  have hval : (t.hasValues && (0 + 1 == t.headerRows)) = false := by
    unfold TableSpec.headerRows
    cases t.hasValues <;> cases t.hasLabelRow <;> simp
  simp only [keyH, hH, if_true, hval]
  have h2 : j + 1 ≤ t.inputs.length := by omega
  simp [h2]

/-- the key of the first header lane at the first output position of a single-output table
is the label -/
theorem keyH_label (d : Decor) (t : TableSpec) (hm : t.outputs.length = 1) :
    keyH d t 0 (t.inputs.length + 1) = .label := by
  have hH := headerRows_pos t
  have hval : (t.hasValues && (0 + 1 == t.headerRows)) = false := by
    unfold TableSpec.headerRows
    cases t.hasValues <;> cases t.hasLabelRow <;> simp
  simp only [keyH, hH, if_true, hval]
  have h2 : ¬ (t.inputs.length + 1 ≤ t.inputs.length) := by omega
  simp [h2, hm]

/-- the key of the component names lane at an output position of a table with several
outputs is the component name -/
theorem keyH_comp (d : Decor) (t : TableSpec) (hm : 1 < t.outputs.length) {j : Nat}
    (hj : j < t.outputs.length) :
    keyH d t (b2n t.hasLabelRow) (t.inputs.length + 1 + j) = .comp j := by
  have h1 : ¬ (t.inputs.length + 1 + j = 0) := by omega
  have h2 : ¬ (t.inputs.length + 1 + j ≤ t.inputs.length) := by omega
  have h3 : t.inputs.length + 1 + j ≤ t.inputs.length + t.outputs.length := by omega
  have h4 : t.inputs.length + 1 + j - 1 - t.inputs.length = j := by omega
  have h5 : (t.outputs.length == 1) = false := by simp; omega
  unfold keyH TableSpec.headerRows b2n
  cases hL : t.hasLabelRow <;> cases hV : t.hasValues <;> simp [h2, h3, h5]

/-- a component name cell is a cell of the sheet -/
theorem comp_mem_keys (d : Decor) (t : TableSpec) (hm : 1 < t.outputs.length) {j : Nat}
    (hj : j < t.outputs.length) : Key.comp j ∈ (sheetOf d ⟨[], [], 0⟩ t).keysInOrder := by
  have hH := headerRows_pos t
  have hL : b2n t.hasLabelRow < t.headerRows := by
    unfold TableSpec.headerRows b2n; cases t.hasLabelRow <;> cases t.hasValues <;> simp
  cases ho : t.orientation with
  | ruleAsRow =>
    have := mem_keysInOrder (s := sheetOf d ⟨[], [], 0⟩ t) (r := b2n t.hasLabelRow)
      (c := t.inputs.length + 1 + j) (by simp [sheetOf, ho]; omega) (by simp [sheetOf, ho]; omega)
    simpa [sheetOf, ho, keyH_comp d t hm hj] using this
  | ruleAsColumn =>
    have := mem_keysInOrder (s := sheetOf d ⟨[], [], 0⟩ t) (r := t.inputs.length + j)
      (c := b2n t.hasLabelRow) (by simp [sheetOf, ho]; omega) (by simp [sheetOf, ho]; omega)
    have hne : ¬ (t.inputs.length + j = t.inputs.length + t.outputs.length + t.annotations.length) := by omega
    have e : t.inputs.length + j + 1 = t.inputs.length + 1 + j := by omega
    simpa [sheetOf, ho, hne, e, keyH_comp d t hm hj] using this
  | crossTable =>
    have := mem_keysInOrder (s := sheetOf d ⟨[], [], 0⟩ t) (r := t.inputs.length + j)
      (c := b2n t.hasLabelRow) (by simp [sheetOf, ho]; omega) (by simp [sheetOf, ho]; omega)
    have hne : ¬ (t.inputs.length + j = t.inputs.length + t.outputs.length + t.annotations.length) := by omega
    have e : t.inputs.length + j + 1 = t.inputs.length + 1 + j := by omega
    simpa [sheetOf, ho, hne, e, keyH_comp d t hm hj] using this

theorem idsOfSheet_ok (d : Decor) (t : TableSpec) (hw : t.Wf) :
    (idsOfSheet d t).Ok t.inputs.length t.outputs.length := by
  have hn := hw.inputs_pos
  have hm := hw.outputs_pos
  have hr := hw.rules_pos
  have hH := headerRows_pos t
  constructor
  · intro j hj
    have hmem : Key.expr j ∈ (sheetOf d ⟨[], [], 0⟩ t).keysInOrder := by
      cases ho : t.orientation with
      | ruleAsRow =>
        have := mem_keysInOrder (s := sheetOf d ⟨[], [], 0⟩ t) (r := 0) (c := j + 1)
          (by simp [sheetOf, ho]; omega) (by simp [sheetOf, ho]; omega)
        simpa [sheetOf, ho, keyH_expr d t hj] using this
      | ruleAsColumn =>
        have := mem_keysInOrder (s := sheetOf d ⟨[], [], 0⟩ t) (r := j) (c := 0)
          (by simp [sheetOf, ho]; omega) (by simp [sheetOf, ho]; omega)
        have hne : ¬ (j = t.inputs.length + t.outputs.length + t.annotations.length) := by omega
        simpa [sheetOf, ho, hne, keyH_expr d t hj] using this
      | crossTable =>
        have := mem_keysInOrder (s := sheetOf d ⟨[], [], 0⟩ t) (r := j) (c := 0)
          (by simp [sheetOf, ho]; omega) (by simp [sheetOf, ho]; omega)
        have hne : ¬ (j = t.inputs.length + t.outputs.length + t.annotations.length) := by omega
        simpa [sheetOf, ho, hne, keyH_expr d t hj] using this
    have := idxOf_ne hmem (b := Key.inVal j) (by intro h; cases h)
    simp only [idsOfSheet]
    omega
  · intro hm1
    have hmem : Key.label ∈ (sheetOf d ⟨[], [], 0⟩ t).keysInOrder := by
      cases ho : t.orientation with
      | ruleAsRow =>
        have := mem_keysInOrder (s := sheetOf d ⟨[], [], 0⟩ t) (r := 0) (c := t.inputs.length + 1)
          (by simp [sheetOf, ho]; omega) (by simp [sheetOf, ho]; omega)
        simpa [sheetOf, ho, keyH_label d t hm1] using this
      | ruleAsColumn =>
        have := mem_keysInOrder (s := sheetOf d ⟨[], [], 0⟩ t) (r := t.inputs.length) (c := 0)
          (by simp [sheetOf, ho]; omega) (by simp [sheetOf, ho]; omega)
        have hne : ¬ (t.inputs.length = t.inputs.length + t.outputs.length + t.annotations.length) := by omega
        simpa [sheetOf, ho, hne, keyH_label d t hm1] using this
      | crossTable =>
        have := mem_keysInOrder (s := sheetOf d ⟨[], [], 0⟩ t) (r := t.inputs.length) (c := 0)
          (by simp [sheetOf, ho]; omega) (by simp [sheetOf, ho]; omega)
        have hne : ¬ (t.inputs.length = t.inputs.length + t.outputs.length + t.annotations.length) := by omega
        simpa [sheetOf, ho, hne, keyH_label d t hm1] using this
    have := idxOf_ne hmem (b := Key.outVal 0) (by intro h; cases h)
    simp only [idsOfSheet]
    omega
  · intro hm2
    have := idxOf_ne (comp_mem_keys d t hm2 (j := 0) (by omega)) (b := Key.comp 1) (by intro h; cases h)
    simp only [idsOfSheet]
    omega
  · intro hm2 j hj
    have := idxOf_ne (comp_mem_keys d t hm2 hj) (b := Key.outVal j) (by intro h; cases h)
    simp only [idsOfSheet]
    omega

end Dmn.Recog
