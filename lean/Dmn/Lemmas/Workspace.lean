import Dmn.Model.Workspace

/-! Helper lemmas about the association-list maps and the loops of the workspace model. -/

namespace Dmn.WS

theorem Map.mem_remove {m : Map} {k k' : String} {d : Def} :
    (k', d) ∈ m.remove k ↔ (k', d) ∈ m ∧ k' ≠ k := by
  simp [Map.remove]

theorem Map.contains_iff {m : Map} {k : String} :
    m.contains k = true ↔ ∃ d, (k, d) ∈ m := by
  simp only [Map.contains, List.any_eq_true, beq_iff_eq]
  constructor
  · rintro ⟨⟨k', d⟩, h, rfl⟩; exact ⟨d, h⟩
  · rintro ⟨d, h⟩; exact ⟨(k, d), h, rfl⟩

theorem Map.mem_insert {m : Map} {k k' : String} {d d' : Def} :
    (k', d') ∈ m.insert k d ↔ (k' = k ∧ d' = d) ∨ ((k', d') ∈ m ∧ k' ≠ k) := by
  simp [Map.insert, Map.mem_remove]

theorem Map.keys_remove {m : Map} {k : String} :
    (m.remove k).keys = m.keys.filter (fun x => x != k) := by
  induction m with
  | nil => rfl
  | cons e m ih =>
    simp only [Map.remove, Map.keys, List.filter_cons, List.map_cons] at ih ⊢
    by_cases h : e.1 = k
    · simp [h, ih]
    · simp [h, ih]

theorem Map.keys_remove_nodup {m : Map} {k : String} (h : m.keys.Nodup) : (m.remove k).keys.Nodup := by
  rw [Map.keys_remove]; exact h.filter _

theorem Map.not_mem_keys_remove {m : Map} {k : String} : k ∉ (m.remove k).keys := by
  rw [Map.keys_remove]; simp

theorem Map.keys_insert_nodup {m : Map} {k : String} {d : Def} (h : m.keys.Nodup) :
    (m.insert k d).keys.Nodup := by
  simp only [Map.insert, Map.keys, List.map_cons, List.nodup_cons]
  exact ⟨Map.not_mem_keys_remove, Map.keys_remove_nodup h⟩

theorem purge_fst {ms : List Def} {a b : Map} {k : String} {d : Def} :
    (k, d) ∈ (purge ms a b).1 ↔ (k, d) ∈ a ∧ ∀ m ∈ ms, k ≠ m.ns := by
  induction ms generalizing a b with
  | nil => simp [purge]
  | cons m ms ih =>
    simp only [purge, ih, Map.mem_remove, List.mem_cons, forall_eq_or_imp]
    constructor
    · rintro ⟨⟨h1, h2⟩, h3⟩; exact ⟨h1, h2, h3⟩
    · rintro ⟨h1, h2, h3⟩; exact ⟨⟨h1, h2⟩, h3⟩

theorem purge_snd {ms : List Def} {a b : Map} {k : String} {d : Def} :
    (k, d) ∈ (purge ms a b).2 ↔ (k, d) ∈ b ∧ ∀ m ∈ ms, k ≠ m.name := by
  induction ms generalizing a b with
  | nil => simp [purge]
  | cons m ms ih =>
    simp only [purge, ih, Map.mem_remove, List.mem_cons, forall_eq_or_imp]
    constructor
    · rintro ⟨⟨h1, h2⟩, h3⟩; exact ⟨h1, h2, h3⟩
    · rintro ⟨h1, h2, h3⟩; exact ⟨⟨h1, h2⟩, h3⟩

theorem purge_fst_keys_nodup {ms : List Def} {a b : Map} (h : a.keys.Nodup) :
    (purge ms a b).1.keys.Nodup := by
  induction ms generalizing a b with
  | nil => simpa [purge]
  | cons m ms ih => exact ih (Map.keys_remove_nodup h)

theorem purge_snd_keys_nodup {ms : List Def} {a b : Map} (h : b.keys.Nodup) :
    (purge ms a b).2.keys.Nodup := by
  induction ms generalizing a b with
  | nil => simpa [purge]
  | cons m ms ih => exact ih (Map.keys_remove_nodup h)

/-- In a list without duplicate projections, the projection determines the element. -/
theorem eq_of_nodup_map {α β : Type} {f : α → β} {l : List α} (h : (l.map f).Nodup)
    {x y : α} (hx : x ∈ l) (hy : y ∈ l) (e : f x = f y) : x = y := by
  induction l with
  | nil => cases hx
  | cons a l ih =>
    simp only [List.map_cons, List.nodup_cons, List.mem_map, not_exists, not_and] at h
    cases hx with
    | head =>
      cases hy with
      | head => rfl
      | tail _ hy => exact absurd e.symm (h.1 y hy)
    | tail _ hx =>
      cases hy with
      | head => exact absurd e (h.1 x hx)
      | tail _ hy => exact ih h.2 hx hy

theorem deployLoop_mem {ds : List Def} {ev : List String} {n : String} :
    n ∈ deployLoop ds ev ↔ n ∈ ev ∨ ∃ d ∈ ds, d.builds = true ∧ d.name = n := by
  induction ds generalizing ev with
  | nil => simp [deployLoop]
  | cons d ds ih =>
    simp only [deployLoop]
    by_cases hb : d.builds = true
    · simp only [hb, if_true, ih, List.mem_cons, exists_eq_or_imp, true_and]
      by_cases hc : ev.contains d.name = true
      · simp only [hc, if_true]
        constructor
        · rintro (h | h)
          · exact Or.inl h
          · exact Or.inr (Or.inr h)
        · rintro (h | h | h)
          · exact Or.inl h
          · subst h; exact Or.inl (by simpa using hc)
          · exact Or.inr h
      · simp only [hc, if_false, List.mem_append, List.mem_singleton, Bool.false_eq_true]
        constructor
        · rintro ((h | h) | h)
          · exact Or.inl h
          · exact Or.inr (Or.inl h.symm)
          · exact Or.inr (Or.inr h)
        · rintro (h | h | h)
          · exact Or.inl (Or.inl h)
          · exact Or.inl (Or.inr h.symm)
          · exact Or.inr h
    · simp only [hb, if_false, ih, List.mem_cons, exists_eq_or_imp, false_and, false_or, Bool.false_eq_true]

end Dmn.WS
