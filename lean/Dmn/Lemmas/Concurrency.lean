import Dmn.Model.Concurrency

/-! Helper lemmas for C20: one step of the interleaving semantics in the evaluation phase. -/

namespace Dmn.Conc

variable {σ R : Type}

theorem alone_cons_readOnly (r : R) (a : Act σ R) (rest : List (Act σ R)) (s : σ) :
    alone r (a :: rest) s =
      alone r rest (match a with | .compute f => f r s | _ => s) := by
  cases a <;> rfl

/-- What a step does in the evaluation phase, spelled out: the thread's next action is
consumed, its private state advances by that action alone, the registries stay, no writer
appears. -/
theorem step_evalPhase {w : World σ R} (h : EvalPhase w) {i : Nat} {t : Thread σ R}
    (ht : w.threads[i]? = some t) {a : Act σ R} {rest : List (Act σ R)} (hd : t.todo = a :: rest) :
    ∃ w', stepThread w i = .done w' ∧ w'.reg = w.reg ∧
      (∃ st', w'.threads = w.threads.set i { t with todo := rest, st := st' } ∧
        alone w.reg rest st' = alone w.reg (a :: rest) t.st) ∧
      (∀ l, (w'.locks l).writer = false ∧ (w'.locks l).waitingWriters = 0) := by
  have hro : a.readOnly = true := by
    have hm : t ∈ w.threads := List.mem_of_getElem? ht
    exact h.readOnly t hm a (by rw [hd]; exact List.mem_cons_self)
  cases a with
  | acqRead l =>
    have hw := h.noWriter l
    refine ⟨{ w with locks := setLock w.locks l { w.locks l with readers := (w.locks l).readers + 1 }
                     threads := w.threads.set i { t with todo := rest } }, ?_, rfl, ⟨t.st, rfl, rfl⟩, ?_⟩
    · simp [stepThread, ht, hd, hw.1, hw.2]
    · intro k
      simp only [setLock]
      by_cases hk : k = l
      · subst hk; simp [hw.1, hw.2]
      · simp [hk, h.noWriter k]
  | relRead l =>
    have hw := h.noWriter l
    refine ⟨{ w with locks := setLock w.locks l { w.locks l with readers := (w.locks l).readers - 1 }
                     threads := w.threads.set i { t with todo := rest } }, ?_, rfl, ⟨t.st, rfl, rfl⟩, ?_⟩
    · simp [stepThread, ht, hd]
    · intro k
      simp only [setLock]
      by_cases hk : k = l
      · subst hk; simp [hw.1, hw.2]
      · simp [hk, h.noWriter k]
  | acqWrite l => simp [Act.readOnly, Act.kind, ActKind.readOnly] at hro
  | relWrite l => simp [Act.readOnly, Act.kind, ActKind.readOnly] at hro
  | compute f =>
    refine ⟨{ w with threads := w.threads.set i { t with todo := rest, st := f w.reg t.st } }, ?_, rfl,
      ⟨f w.reg t.st, rfl, rfl⟩, h.noWriter⟩
    simp [stepThread, ht, hd]
  | mutate g => simp [Act.readOnly, Act.kind, ActKind.readOnly] at hro

theorem evalPhase_applyStep {w : World σ R} (h : EvalPhase w) (i : Nat) : EvalPhase (applyStep w i) := by
  unfold applyStep
  cases ht : w.threads[i]? with
  | none => simp [stepThread, ht]; exact h
  | some t =>
    cases hd : t.todo with
    | nil => simp [stepThread, ht, hd]; exact h
    | cons a rest =>
      obtain ⟨w', hs, _, ⟨st', hth, _⟩, hl⟩ := step_evalPhase h ht hd
      rw [hs]
      refine ⟨hl, ?_⟩
      intro t' ht' b hb
      rw [hth] at ht'
      rcases List.mem_or_eq_of_mem_set ht' with hm | rfl
      · exact h.readOnly t' hm b hb
      · have hm : t ∈ w.threads := List.mem_of_getElem? ht
        exact h.readOnly t hm b (by rw [hd]; exact List.mem_cons_of_mem _ hb)

theorem evalPhase_run {w : World σ R} (h : EvalPhase w) (sched : List Nat) : EvalPhase (run w sched) := by
  induction sched generalizing w with
  | nil => exact h
  | cons i sched ih => exact ih (evalPhase_applyStep h i)

/-- One step keeps, for every thread, "what running the rest alone will produce". -/
theorem applyStep_preserves {w : World σ R} (h : EvalPhase w) (i : Nat) :
    (applyStep w i).reg = w.reg ∧ (applyStep w i).threads.length = w.threads.length ∧
    ∀ (j : Nat) (t t' : Thread σ R), w.threads[j]? = some t → (applyStep w i).threads[j]? = some t' →
      alone w.reg t'.todo t'.st = alone w.reg t.todo t.st := by
  unfold applyStep
  cases ht : w.threads[i]? with
  | none =>
    simp only [stepThread, ht]
    refine ⟨trivial, trivial, ?_⟩
    intro j t t' h1 h2; rw [h1] at h2; cases h2; rfl
  | some ti =>
    cases hd : ti.todo with
    | nil =>
      simp only [stepThread, ht, hd]
      refine ⟨trivial, trivial, ?_⟩
      intro j t t' h1 h2; rw [h1] at h2; cases h2; rfl
    | cons a rest =>
      obtain ⟨w', hs, hreg, ⟨st', hth, hal⟩, _⟩ := step_evalPhase h ht hd
      rw [hs]
      refine ⟨hreg, by rw [hth]; simp, ?_⟩
      intro j t t' h1 h2
      rw [hth] at h2
      by_cases hj : i = j
      · subst hj
        rw [ht] at h1; cases h1
        have hlt : i < w.threads.length := by
          rcases List.getElem?_eq_some_iff.mp ht with ⟨hlt, _⟩; exact hlt
        rw [List.getElem?_set_self hlt] at h2
        cases h2
        simp only
        rw [hal, hd]
      · rw [List.getElem?_set_ne hj] at h2
        rw [h1] at h2; cases h2; rfl

theorem run_preserves {w : World σ R} (h : EvalPhase w) (sched : List Nat) :
    (run w sched).reg = w.reg ∧ (run w sched).threads.length = w.threads.length ∧
    ∀ (j : Nat) (t t' : Thread σ R), w.threads[j]? = some t → (run w sched).threads[j]? = some t' →
      alone w.reg t'.todo t'.st = alone w.reg t.todo t.st := by
  induction sched generalizing w with
  | nil =>
    refine ⟨rfl, rfl, ?_⟩
    intro j t t' h1 h2; simp only [run] at h2; rw [h1] at h2; cases h2; rfl
  | cons i sched ih =>
    obtain ⟨r1, l1, p1⟩ := applyStep_preserves h i
    obtain ⟨r2, l2, p2⟩ := ih (evalPhase_applyStep h i)
    refine ⟨by simp only [run]; rw [r2, r1], by simp only [run]; rw [l2, l1], ?_⟩
    intro j t t' h1 h2
    simp only [run] at h2
    have hlt : j < (applyStep w i).threads.length := by
      rw [l1]; rcases List.getElem?_eq_some_iff.mp h1 with ⟨hlt, _⟩; exact hlt
    obtain ⟨tm, htm⟩ : ∃ tm, (applyStep w i).threads[j]? = some tm := ⟨_, List.getElem?_eq_getElem hlt⟩
    have e2 := p2 j tm t' htm h2
    rw [r1] at e2
    rw [e2]
    exact p1 j t tm h1 htm

theorem sum_set_lt {l : List (Thread σ R)} {i : Nat} {t t' : Thread σ R} (ht : l[i]? = some t)
    (hlen : t'.todo.length + 1 = t.todo.length) :
    ((l.set i t').map (fun t => t.todo.length)).sum + 1 = (l.map (fun t => t.todo.length)).sum := by
  induction l generalizing i with
  | nil => simp at ht
  | cons x xs ih =>
    cases i with
    | zero =>
      simp only [List.getElem?_cons_zero, Option.some.injEq] at ht
      subst ht
      simp only [List.set_cons_zero, List.map_cons, List.sum_cons]
      omega
    | succ i =>
      simp only [List.getElem?_cons_succ] at ht
      simp only [List.set_cons_succ, List.map_cons, List.sum_cons]
      have := ih ht
      omega

end Dmn.Conc
