import Dmn.Lemmas.TemporalLit

/-!
# The written grammar of date, time and date-and-time literals, and the recognisers (C14)

`DateText`, `ZoneText`, `TimeText` say — declaratively, character by character, ASCII digits only —
which texts are literals and which fields they denote.  The theorems `dateP_iff`, `zoneP_iff`,
`timeP_iff` state that the recognisers of `Dmn/Model/Temporal.lean` (the model of the regular
expressions and the field extraction of `feel/src/temporal`) accept exactly these texts with
exactly these fields, for every list of characters.
-/

namespace Dmn.Temporal
open Dmn.Cal

/-- Every character is one of `0` … `9`. -/
def Digits (cs : List Char) : Prop := ∀ c ∈ cs, isDigit c = true

/-- Value of two digit characters. -/
def val2 (a b : Char) : Nat := digitVal a * 10 + digitVal b

/-! ## Digit runs and two-digit fields, inverted -/

theorem spanDigits_split (cs : List Char) :
    cs = (spanDigits cs).1 ++ (spanDigits cs).2 ∧ NoDigitHead (spanDigits cs).2 := by
  induction cs with
  | nil => exact ⟨rfl, Or.inl rfl⟩
  | cons c cs ih =>
    unfold spanDigits
    by_cases hc : isDigit c = true
    · simp only [hc, if_true]
      refine ⟨?_, ih.2⟩
      rw [List.cons_append, ← ih.1]
    · simp only [hc]
      exact ⟨rfl, Or.inr ⟨c, cs, rfl, by simpa using hc⟩⟩

theorem twoDigits_cons {a b : Char} (r : List Char) (ha : isDigit a = true) (hb : isDigit b = true) :
    twoDigits (a :: b :: r) = some (val2 a b, r) := by
  simp [twoDigits, ha, hb, val2]

theorem twoDigits_some {cs : List Char} {n : Nat} {r : List Char} (h : twoDigits cs = some (n, r)) :
    ∃ a b, cs = a :: b :: r ∧ isDigit a = true ∧ isDigit b = true ∧ n = val2 a b := by
  match cs, h with
  | [], h => simp [twoDigits] at h
  | [_], h => simp [twoDigits] at h
  | a :: b :: rest, h =>
    simp only [twoDigits] at h
    split at h
    · rename_i hc
      simp only [Bool.and_eq_true] at hc
      injection h with h
      injection h with h1 h2
      exact ⟨a, b, by rw [h2], hc.1, hc.2, h1.symm⟩
    · cases h

/-! ## Dates -/

/-- `cs` is `[-]YYYY[YYYYY]-MM-DD` followed by `rest`: four to nine year digits (more than four
only without a leading zero), two month digits, two day digits — and the fields they denote. -/
def DateText (cs : List Char) (y : Int) (m d : Nat) (rest : List Char) : Prop :=
  ∃ (neg : Bool) (ys : List Char) (m1 m2 d1 d2 : Char),
    cs = (if neg then ['-'] else []) ++ ys ++ '-' :: m1 :: m2 :: '-' :: d1 :: d2 :: rest ∧
    Digits ys ∧ 4 ≤ ys.length ∧ ys.length ≤ 9 ∧ (ys.length = 4 ∨ ys.head? ≠ some '0') ∧
    isDigit m1 = true ∧ isDigit m2 = true ∧ isDigit d1 = true ∧ isDigit d2 = true ∧
    y = (if neg then -(natOfDigits ys : Int) else (natOfDigits ys : Int)) ∧ m = val2 m1 m2 ∧ d = val2 d1 d2

/-- The recogniser after the optional sign. -/
def dateBody (neg : Bool) (cs : List Char) : Option ((Int × Nat × Nat) × List Char) :=
  if 4 ≤ (spanDigits cs).1.length ∧ (spanDigits cs).1.length ≤ 9 ∧
      ((spanDigits cs).1.length = 4 ∨ (spanDigits cs).1.head? ≠ some '0') then
    match (spanDigits cs).2 with
    | '-' :: r =>
      match twoDigits r with
      | some (m, '-' :: r) =>
        match twoDigits r with
        | some (d, r) =>
          some ((if neg then -(natOfDigits (spanDigits cs).1 : Int) else (natOfDigits (spanDigits cs).1 : Int), m, d), r)
        | none => none
      | _ => none
    | _ => none
  else none

theorem dateP_neg (r : List Char) : dateP ('-' :: r) = dateBody true r := rfl

theorem dateP_pos (cs : List Char) (h : ∀ r, cs ≠ '-' :: r) : dateP cs = dateBody false cs := by
  unfold dateP
  split
  rename_i neg cs' hcs
  split at hcs
  · rename_i r
    exact absurd rfl (h r)
  · injection hcs with h1 h2
    subst h1 h2
    rfl

theorem dateBody_sound {neg : Bool} {cs : List Char} {y : Int} {m d : Nat} {rest : List Char}
    (h : dateBody neg cs = some ((y, m, d), rest)) :
    ∃ (ys : List Char) (m1 m2 d1 d2 : Char),
      cs = ys ++ '-' :: m1 :: m2 :: '-' :: d1 :: d2 :: rest ∧
      Digits ys ∧ 4 ≤ ys.length ∧ ys.length ≤ 9 ∧ (ys.length = 4 ∨ ys.head? ≠ some '0') ∧
      isDigit m1 = true ∧ isDigit m2 = true ∧ isDigit d1 = true ∧ isDigit d2 = true ∧
      y = (if neg then -(natOfDigits ys : Int) else (natOfDigits ys : Int)) ∧ m = val2 m1 m2 ∧ d = val2 d1 d2 := by
  unfold dateBody at h
  have hs := spanDigits_split cs
  have hd := spanDigits_fst_all_digits cs
  generalize (spanDigits cs).1 = ys at *
  generalize (spanDigits cs).2 = r at *
  split at h
  · rename_i hc
    split at h
    · rename_i r1
      split at h
      · rename_i mm r2 htm
        split at h
        · rename_i dd r3 htd
          injection h with h
          injection h with h1 h2
          injection h1 with hy h1
          injection h1 with hm hd'
          obtain ⟨m1, m2, e1, dm1, dm2, em⟩ := twoDigits_some htm
          obtain ⟨d1, d2, e2, dd1, dd2, ed⟩ := twoDigits_some htd
          refine ⟨ys, m1, m2, d1, d2, ?_, hd, hc.1, hc.2.1, hc.2.2, dm1, dm2, dd1, dd2, hy.symm, ?_, ?_⟩
          · rw [hs.1, e1, e2, h2]
          · rw [← hm, em]
          · rw [← hd', ed]
        · cases h
      · cases h
    · cases h
  · cases h

theorem dateBody_complete (neg : Bool) (ys : List Char) (m1 m2 d1 d2 : Char) (rest : List Char)
    (hd : Digits ys) (h4 : 4 ≤ ys.length) (h9 : ys.length ≤ 9) (h0 : ys.length = 4 ∨ ys.head? ≠ some '0')
    (dm1 : isDigit m1 = true) (dm2 : isDigit m2 = true) (dd1 : isDigit d1 = true) (dd2 : isDigit d2 = true) :
    dateBody neg (ys ++ '-' :: m1 :: m2 :: '-' :: d1 :: d2 :: rest) =
      some ((if neg then -(natOfDigits ys : Int) else (natOfDigits ys : Int), val2 m1 m2, val2 d1 d2), rest) := by
  have hspan : spanDigits (ys ++ '-' :: m1 :: m2 :: '-' :: d1 :: d2 :: rest) =
      (ys, '-' :: m1 :: m2 :: '-' :: d1 :: d2 :: rest) :=
    spanDigits_append _ _ hd (Or.inr ⟨'-', _, rfl, by decide⟩)
  unfold dateBody
  simp only [hspan, h4, h9, h0, and_self, if_true, twoDigits_cons _ dm1 dm2, twoDigits_cons _ dd1 dd2]

/-- **The date recogniser accepts exactly the written grammar**, with exactly the written fields. -/
theorem dateP_iff (cs : List Char) (y : Int) (m d : Nat) (rest : List Char) :
    dateP cs = some ((y, m, d), rest) ↔ DateText cs y m d rest := by
  constructor
  · intro h
    by_cases hneg : ∃ r, cs = '-' :: r
    · obtain ⟨r, rfl⟩ := hneg
      rw [dateP_neg] at h
      obtain ⟨ys, m1, m2, d1, d2, e, rest'⟩ := dateBody_sound h
      exact ⟨true, ys, m1, m2, d1, d2, by simp [e], rest'⟩
    · have hp : ∀ r, cs ≠ '-' :: r := fun r e => hneg ⟨r, e⟩
      rw [dateP_pos cs hp] at h
      obtain ⟨ys, m1, m2, d1, d2, e, rest'⟩ := dateBody_sound h
      exact ⟨false, ys, m1, m2, d1, d2, by simp [e], rest'⟩
  · rintro ⟨neg, ys, m1, m2, d1, d2, e, hd, h4, h9, h0, dm1, dm2, dd1, dd2, ey, em, ed⟩
    subst e ey em ed
    cases neg with
    | true =>
      simp only [if_true, List.cons_append, List.nil_append]
      rw [dateP_neg]
      exact dateBody_complete true ys m1 m2 d1 d2 rest hd h4 h9 h0 dm1 dm2 dd1 dd2
    | false =>
      simp only [Bool.false_eq_true, if_false, List.nil_append]
      have hp : ∀ r, ys ++ '-' :: m1 :: m2 :: '-' :: d1 :: d2 :: rest ≠ '-' :: r := by
        intro r e
        cases ys with
        | nil => simp at h4
        | cons a as =>
          simp only [List.cons_append] at e
          injection e with e1 _
          exact isDigit_ne_minus (hd a (by simp)) e1
      rw [dateP_pos _ hp]
      exact dateBody_complete false ys m1 m2 d1 d2 rest hd h4 h9 h0 dm1 dm2 dd1 dd2

/-! ## Zones -/

/-- The zone an offset text denotes: nothing above 14 hours or 59 minutes / seconds. -/
def offsetZone (neg : Bool) (hh mm ss : Nat) : Option Zone :=
  if ss > 59 ∨ hh > 14 ∨ mm > 59 then none
  else some (Zone.new (if neg then -((3600 * hh + 60 * mm + ss : Nat) : Int) else ((3600 * hh + 60 * mm + ss : Nat) : Int)))

/-- The written grammar of the zone suffix of a time (the whole rest of the text): nothing (local),
`Z`, `z`, `@name`, `±hh:mm`, `±hh:mm:ss` — and what it denotes (`none`: in the grammar but
denoting no zone: unknown name, offset out of range). -/
inductive ZoneText (zk : List Char → Bool) : List Char → Option Zone → Prop where
  | local : ZoneText zk [] (some .localZ)
  | zuluLower : ZoneText zk ['z'] (some .utc)
  | zuluUpper : ZoneText zk ['Z'] (some .utc)
  | named (name : List Char) (hne : name ≠ []) (hall : name.all isZoneChar = true) :
      ZoneText zk ('@' :: name) (if zk name then some (.zone name) else none)
  | offset (neg : Bool) (h1 h2 m1 m2 : Char) (dh1 : isDigit h1 = true) (dh2 : isDigit h2 = true)
      (dm1 : isDigit m1 = true) (dm2 : isDigit m2 = true) :
      ZoneText zk [if neg then '-' else '+', h1, h2, ':', m1, m2] (offsetZone neg (val2 h1 h2) (val2 m1 m2) 0)
  | offsetSeconds (neg : Bool) (h1 h2 m1 m2 s1 s2 : Char) (dh1 : isDigit h1 = true) (dh2 : isDigit h2 = true)
      (dm1 : isDigit m1 = true) (dm2 : isDigit m2 = true) (ds1 : isDigit s1 = true) (ds2 : isDigit s2 = true) :
      ZoneText zk [if neg then '-' else '+', h1, h2, ':', m1, m2, ':', s1, s2]
        (offsetZone neg (val2 h1 h2) (val2 m1 m2) (val2 s1 s2))

theorem offsetZone_eq (sign : Char) (neg : Bool) (hs : sign = if neg then '-' else '+') (hh mm ss : Nat) :
    (if ss > 59 ∨ hh > 14 ∨ mm > 59 then none
      else some (Zone.new (if sign = '-' then -((3600 * hh + 60 * mm + ss : Nat) : Int)
        else ((3600 * hh + 60 * mm + ss : Nat) : Int)))) = offsetZone neg hh mm ss := by
  unfold offsetZone
  cases neg <;> subst hs <;> simp

theorem zoneP_complete (zk : List Char → Bool) {cs : List Char} {z : Option Zone} (h : ZoneText zk cs z) :
    zoneP zk cs = some z := by
  cases h with
  | «local» => rfl
  | zuluLower => rfl
  | zuluUpper => rfl
  | named name hne hall =>
    have hz : ('@' :: name) ≠ ['z'] := by simp
    have hZ : ('@' :: name) ≠ ['Z'] := by simp
    simp [zoneP, hne, hall]
  | offset neg h1 h2 m1 m2 dh1 dh2 dm1 dm2 =>
    cases neg <;>
      simp [zoneP, twoDigits_cons _ dh1 dh2, twoDigits_cons _ dm1 dm2, offsetZone] <;>
      (try omega)
  | offsetSeconds neg h1 h2 m1 m2 s1 s2 dh1 dh2 dm1 dm2 ds1 ds2 =>
    cases neg <;>
      simp [zoneP, twoDigits_cons _ dh1 dh2, twoDigits_cons _ dm1 dm2, twoDigits_cons _ ds1 ds2, offsetZone] <;>
      (try omega)

/-- The offset branch of `zoneP`, with the sign decided. -/
def offsetBody (neg : Bool) (r : List Char) : Option (Option Zone) :=
  match twoDigits r with
  | some (hh, ':' :: r) =>
    match twoDigits r with
    | some (mm, r) =>
      match r with
      | [] => some (offsetZone neg hh mm 0)
      | ':' :: r =>
        match twoDigits r with
        | some (ss, []) => some (offsetZone neg hh mm ss)
        | _ => none
      | _ => none
    | none => none
  | _ => none

theorem zoneP_plus (zk : List Char → Bool) (r : List Char) : zoneP zk ('+' :: r) = offsetBody false r := by
  unfold zoneP offsetBody offsetZone
  simp
  rfl

theorem zoneP_minus (zk : List Char → Bool) (r : List Char) : zoneP zk ('-' :: r) = offsetBody true r := by
  unfold zoneP offsetBody offsetZone
  simp
  rfl

theorem offsetBody_sound (zk : List Char → Bool) {neg : Bool} {r : List Char} {z : Option Zone}
    (h : offsetBody neg r = some z) : ZoneText zk ((if neg then '-' else '+') :: r) z := by
  unfold offsetBody at h
  split at h
  · rename_i hh r1 hth
    split at h
    · rename_i mm r2 htm
      obtain ⟨h1, h2, e1, dh1, dh2, eh⟩ := twoDigits_some hth
      obtain ⟨m1, m2, e2, dm1, dm2, em⟩ := twoDigits_some htm
      split at h
      · injection h with h
        subst e1 e2 eh em h
        exact ZoneText.offset neg h1 h2 m1 m2 dh1 dh2 dm1 dm2
      · rename_i r3
        split at h
        · rename_i ss hts
          obtain ⟨s1, s2, e3, ds1, ds2, es⟩ := twoDigits_some hts
          injection h with h
          subst e1 e2 e3 eh em es h
          exact ZoneText.offsetSeconds neg h1 h2 m1 m2 s1 s2 dh1 dh2 dm1 dm2 ds1 ds2
        · cases h
      · cases h
    · cases h
  · cases h

theorem zoneP_sound (zk : List Char → Bool) {cs : List Char} {z : Option Zone} (h : zoneP zk cs = some z) :
    ZoneText zk cs z := by
  by_cases hp : ∃ r, cs = '+' :: r
  · obtain ⟨r, rfl⟩ := hp
    rw [zoneP_plus] at h
    exact offsetBody_sound zk (neg := false) h
  by_cases hm : ∃ r, cs = '-' :: r
  · obtain ⟨r, rfl⟩ := hm
    rw [zoneP_minus] at h
    exact offsetBody_sound zk (neg := true) h
  unfold zoneP at h
  split at h
  · injection h with h; subst h; exact .local
  · injection h with h; subst h; exact .zuluLower
  · injection h with h; subst h; exact .zuluUpper
  · rename_i name
    split at h
    · rename_i hc
      injection h with h; subst h
      exact .named name hc.1 (by simpa using hc.2)
    · cases h
  · rename_i sign r _ _ _
    split at h
    · rename_i hsign
      rcases hsign with hs | hs
      · exact absurd ⟨r, by rw [hs]⟩ hp
      · exact absurd ⟨r, by rw [hs]⟩ hm
    · cases h

/-- **The zone recogniser accepts exactly the written grammar.** -/
theorem zoneP_iff (zk : List Char → Bool) (cs : List Char) (z : Option Zone) :
    zoneP zk cs = some z ↔ ZoneText zk cs z :=
  ⟨zoneP_sound zk, zoneP_complete zk⟩

/-- A zone suffix never starts with a digit or a full stop. -/
theorem ZoneText.head {zk : List Char → Bool} {cs : List Char} {z : Option Zone} (h : ZoneText zk cs z) :
    NoDigitHead cs ∧ ∀ r, cs ≠ '.' :: r := by
  cases h with
  | «local» => exact ⟨Or.inl rfl, by simp⟩
  | zuluLower => exact ⟨noDigitHead_cons (by decide), by simp⟩
  | zuluUpper => exact ⟨noDigitHead_cons (by decide), by simp⟩
  | named name hne hall => exact ⟨noDigitHead_cons (by decide), by simp⟩
  | offset neg h1 h2 m1 m2 _ _ _ _ => cases neg <;> exact ⟨noDigitHead_cons (by decide), by simp⟩
  | offsetSeconds neg h1 h2 m1 m2 s1 s2 _ _ _ _ _ _ => cases neg <;> exact ⟨noDigitHead_cons (by decide), by simp⟩

/-! ## Times -/

/-- The written grammar of a time, the whole text: `hh:mm:ss`, an optional fraction `.d+`, the zone
suffix — and the fields it denotes (the first nine fraction digits as nanoseconds). -/
def TimeText (zk : List Char → Bool) (cs : List Char) (h mi s ns : Nat) (z : Option Zone) : Prop :=
  ∃ (h1 h2 m1 m2 s1 s2 : Char) (frac ztext : List Char),
    cs = h1 :: h2 :: ':' :: m1 :: m2 :: ':' :: s1 :: s2 :: (frac ++ ztext) ∧
    isDigit h1 = true ∧ isDigit h2 = true ∧ isDigit m1 = true ∧ isDigit m2 = true ∧
    isDigit s1 = true ∧ isDigit s2 = true ∧
    h = val2 h1 h2 ∧ mi = val2 m1 m2 ∧ s = val2 s1 s2 ∧
    ((frac = [] ∧ ns = 0) ∨ (∃ ds, frac = '.' :: ds ∧ ds ≠ [] ∧ Digits ds ∧ ns = fracNanos ds)) ∧
    ZoneText zk ztext z

/-- The optional fraction of seconds of `timeP`. -/
def fracP (r : List Char) : Option (Nat × List Char) :=
  match r with
  | '.' :: r' => if (spanDigits r').1 = [] then none else some (fracNanos (spanDigits r').1, (spanDigits r').2)
  | _ => some (0, r)

theorem timeP_eq (zk : List Char → Bool) (cs : List Char) :
    timeP zk cs =
      match twoDigits cs with
      | some (h, ':' :: r) =>
        match twoDigits r with
        | some (mi, ':' :: r) =>
          match twoDigits r with
          | some (s, r) =>
            match fracP r with
            | some (ns, r) =>
              match zoneP zk r with
              | some z => some (h, mi, s, ns, z)
              | none => none
            | none => none
          | none => none
        | _ => none
      | _ => none := rfl

theorem fracP_sound {r r' : List Char} {ns : Nat} (h : fracP r = some (ns, r')) :
    (r = r' ∧ ns = 0 ∧ ∀ t, r ≠ '.' :: t) ∨
    (∃ ds, r = '.' :: (ds ++ r') ∧ ds ≠ [] ∧ Digits ds ∧ NoDigitHead r' ∧ ns = fracNanos ds) := by
  unfold fracP at h
  split at h
  · rename_i t
    split at h
    · cases h
    · rename_i hne
      injection h with h
      injection h with h1 h2
      have hsp := spanDigits_split t
      right
      refine ⟨(spanDigits t).1, ?_, hne, spanDigits_fst_all_digits t, ?_, h1.symm⟩
      · rw [← h2, ← hsp.1]
      · rw [← h2]; exact hsp.2
  · rename_i hnot
    injection h with h
    injection h with h1 h2
    left
    exact ⟨h2, h1.symm, fun t e => hnot t e⟩

theorem fracP_frac (ds r' : List Char) (hne : ds ≠ []) (hd : Digits ds) (hr : NoDigitHead r') :
    fracP ('.' :: (ds ++ r')) = some (fracNanos ds, r') := by
  unfold fracP
  simp only [spanDigits_append ds r' hd hr, hne, if_false]

theorem fracP_none (r : List Char) (h : ∀ t, r ≠ '.' :: t) : fracP r = some (0, r) := by
  unfold fracP
  split
  · rename_i t; exact absurd rfl (h t)
  · rfl

theorem timeP_sound (zk : List Char → Bool) {cs : List Char} {h mi s ns : Nat} {z : Option Zone}
    (ht : timeP zk cs = some (h, mi, s, ns, z)) : TimeText zk cs h mi s ns z := by
  rw [timeP_eq] at ht
  split at ht
  · rename_i hh r1 hth
    split at ht
    · rename_i mm r2 htm
      split at ht
      · rename_i ss r3 hts
        obtain ⟨h1, h2, e1, dh1, dh2, eh⟩ := twoDigits_some hth
        obtain ⟨m1, m2, e2, dm1, dm2, em⟩ := twoDigits_some htm
        obtain ⟨s1, s2, e3, ds1, ds2, es⟩ := twoDigits_some hts
        split at ht
        · rename_i ns' r4 hfr
          split at ht
          · rename_i z' hz
            injection ht with ht
            injection ht with a1 ht
            injection ht with a2 ht
            injection ht with a3 ht
            injection ht with a4 a5
            subst a1 a2 a3 a4 a5
            have hzt := zoneP_sound zk hz
            rcases fracP_sound hfr with ⟨er, e0, _⟩ | ⟨ds, er, hne, hdg, _, ens⟩
            · subst er e0
              exact ⟨h1, h2, m1, m2, s1, s2, [], r3, by rw [e1, e2, e3]; rfl, dh1, dh2, dm1, dm2, ds1, ds2,
                eh, em, es, Or.inl ⟨rfl, rfl⟩, hzt⟩
            · refine ⟨h1, h2, m1, m2, s1, s2, '.' :: ds, r4, ?_, dh1, dh2, dm1, dm2, ds1, ds2,
                eh, em, es, Or.inr ⟨ds, rfl, hne, hdg, ens⟩, hzt⟩
              rw [e1, e2, e3, er]; rfl
          · cases ht
        · cases ht
      · cases ht
    · cases ht
  · cases ht

theorem timeP_complete (zk : List Char → Bool) {cs : List Char} {h mi s ns : Nat} {z : Option Zone}
    (ht : TimeText zk cs h mi s ns z) : timeP zk cs = some (h, mi, s, ns, z) := by
  obtain ⟨h1, h2, m1, m2, s1, s2, frac, ztext, e, dh1, dh2, dm1, dm2, ds1, ds2, eh, em, es, hf, hz⟩ := ht
  subst e eh em es
  have hzp := zoneP_complete zk hz
  obtain ⟨hnd, hdot⟩ := hz.head
  rw [timeP_eq]
  simp only [twoDigits_cons _ dh1 dh2, twoDigits_cons _ dm1 dm2, twoDigits_cons _ ds1 ds2]
  rcases hf with ⟨rfl, rfl⟩ | ⟨ds, rfl, hne, hdg, rfl⟩
  · simp only [List.nil_append, fracP_none ztext hdot, hzp]
  · simp only [List.cons_append, fracP_frac ds ztext hne hdg hnd, hzp]

/-- **The time recogniser accepts exactly the written grammar**, with exactly the written fields. -/
theorem timeP_iff (zk : List Char → Bool) (cs : List Char) (h mi s ns : Nat) (z : Option Zone) :
    timeP zk cs = some (h, mi, s, ns, z) ↔ TimeText zk cs h mi s ns z :=
  ⟨timeP_sound zk, timeP_complete zk⟩

/-! ## The three parsers -/

theorem DateText.year_range {cs : List Char} {y : Int} {m d : Nat} {rest : List Char}
    (h : DateText cs y m d rest) : -999999999 ≤ y ∧ y ≤ 999999999 := by
  obtain ⟨neg, ys, _, _, _, _, _, hd, _, h9, _, _, _, _, _, ey, _, _⟩ := h
  have hlt := natOfDigits_lt ys hd
  have hp : 10 ^ ys.length ≤ 10 ^ 9 := Nat.pow_le_pow_right (by decide) h9
  have : (natOfDigits ys : Int) < 1000000000 := by
    have : natOfDigits ys < 1000000000 := Nat.lt_of_lt_of_le hlt (by simpa using hp)
    omega
  subst ey
  cases neg <;> simp <;> omega

theorem parseDate_iff (cs : List Char) (d : Date) :
    parseDate cs = some d ↔ DateText cs d.y d.m d.d [] ∧ validDate d.y d.m d.d = true := by
  constructor
  · intro h
    unfold parseDate at h
    split at h
    · rename_i y m dd hp
      split at h
      · rename_i hv
        injection h with h
        subst h
        have ht := (dateP_iff cs y m dd []).1 hp
        have hr := ht.year_range
        exact ⟨ht, by rw [← isValidDate_eq y m dd hr.1 hr.2]; exact hv⟩
      · cases h
    · cases h
  · rintro ⟨ht, hv⟩
    have hr := ht.year_range
    have hp := (dateP_iff cs d.y d.m d.d []).2 ht
    unfold parseDate
    rw [hp]
    simp only [isValidDate_eq d.y d.m d.d hr.1 hr.2, hv, if_true]

theorem TimeText.ns_lt {zk : List Char → Bool} {cs : List Char} {h mi s ns : Nat} {z : Option Zone}
    (ht : TimeText zk cs h mi s ns z) : ns < 1000000000 := by
  obtain ⟨_, _, _, _, _, _, _, _, _, _, _, _, _, _, _, _, _, _, hf, _⟩ := ht
  rcases hf with ⟨_, rfl⟩ | ⟨ds, _, _, hd, rfl⟩
  · decide
  · exact fracNanos_lt ds hd

theorem parseTime_iff (zk : List Char → Bool) (cs : List Char) (t : Time) :
    parseTime zk cs = some t ↔
      TimeText zk cs t.h t.mi t.s t.ns (some t.z) ∧ t.h < 24 ∧ t.mi < 60 ∧ t.s < 60 := by
  constructor
  · intro h
    unfold parseTime at h
    split at h
    · rename_i t' hl
      split at h
      · injection h with h
        subst h
        unfold parseTimeLiteral at hl
        split at hl
        · rename_i hh mi s ns z hp
          split at hl
          · rename_i hv
            injection hl with hl
            subst hl
            exact ⟨(timeP_iff zk cs hh mi s ns (some z)).1 hp, (isValidTime_iff _ _ _).1 hv⟩
          · cases hl
        · cases hl
      · cases h
    · cases h
  · rintro ⟨ht, hv⟩
    have hp := (timeP_iff zk cs t.h t.mi t.s t.ns (some t.z)).2 ht
    have hvt : isValidTime t.h t.mi t.s = true := (isValidTime_iff _ _ _).2 hv
    unfold parseTime parseTimeLiteral
    rw [hp]
    simp only [hvt, if_true, chronoTimeOk_of_valid hvt ht.ns_lt]

theorem parseDateTime_iff (zk : List Char → Bool) (cs : List Char) (dt : DateTime) :
    parseDateTime zk cs = some dt ↔
      ∃ rest, DateText cs dt.date.y dt.date.m dt.date.d ('T' :: rest) ∧
        TimeText zk rest dt.time.h dt.time.mi dt.time.s dt.time.ns (some dt.time.z) ∧
        validDate dt.date.y dt.date.m dt.date.d = true ∧ dt.time.h < 24 ∧ dt.time.mi < 60 ∧ dt.time.s < 60 := by
  constructor
  · intro h
    unfold parseDateTime at h
    split at h
    · rename_i y m d r hp
      split at h
      · rename_i hh mi s ns z htp
        split at h
        · rename_i hvd
          split at h
          · rename_i z'
            split at h
            · rename_i hvt
              injection h with h
              subst h
              have hdt := (dateP_iff cs y m d ('T' :: r)).1 hp
              have hr := hdt.year_range
              exact ⟨r, hdt, (timeP_iff zk r hh mi s ns (some z')).1 htp,
                by rw [← isValidDate_eq y m d hr.1 hr.2]; exact hvd, (isValidTime_iff _ _ _).1 hvt⟩
            · cases h
          · cases h
        · cases h
      · cases h
    · cases h
  · rintro ⟨rest, hd, ht, hvd, hvt⟩
    have hr := hd.year_range
    have hp := (dateP_iff cs _ _ _ _).2 hd
    have htp := (timeP_iff zk rest _ _ _ _ _).2 ht
    have hvt' : isValidTime dt.time.h dt.time.mi dt.time.s = true := (isValidTime_iff _ _ _).2 hvt
    unfold parseDateTime
    rw [hp]
    simp only [htp, isValidDate_eq _ _ _ hr.1 hr.2, hvd, hvt', if_true]

/-! ## Only ASCII -/

/-- A character of the literal alphabet: below 128. -/
def Ascii (cs : List Char) : Prop := ∀ c ∈ cs, c.toNat < 128

theorem isDigit_ascii {c : Char} (h : isDigit c = true) : c.toNat < 128 := by
  unfold isDigit at h
  simp only [Bool.and_eq_true, decide_eq_true_eq] at h
  omega

theorem Digits.ascii {cs : List Char} (h : Digits cs) : Ascii cs := fun c hc => isDigit_ascii (h c hc)

theorem isZoneChar_ascii {c : Char} (h : isZoneChar c = true) : c.toNat < 128 := by
  unfold isZoneChar at h
  simp only [Bool.or_eq_true, Bool.and_eq_true, decide_eq_true_eq, beq_iff_eq] at h
  rcases h with ((((((h | h) | h) | h) | h) | h) | h)
  · omega
  · omega
  · omega
  · subst h; decide
  · subst h; decide
  · subst h; decide
  · subst h; decide

theorem Ascii.append {a b : List Char} (ha : Ascii a) (hb : Ascii b) : Ascii (a ++ b) := by
  intro c hc
  rcases List.mem_append.1 hc with h | h
  · exact ha c h
  · exact hb c h

theorem Ascii.cons {a : Char} {b : List Char} (ha : a.toNat < 128) (hb : Ascii b) : Ascii (a :: b) := by
  intro c hc
  rcases List.mem_cons.1 hc with h | h
  · subst h; exact ha
  · exact hb c h

theorem Ascii.nil : Ascii [] := fun _ h => by cases h

theorem DateText.ascii {cs : List Char} {y : Int} {m d : Nat} {rest : List Char}
    (h : DateText cs y m d rest) (hr : Ascii rest) : Ascii cs := by
  obtain ⟨neg, ys, m1, m2, d1, d2, e, hd, _, _, _, dm1, dm2, dd1, dd2, _, _, _⟩ := h
  subst e
  have hsign : Ascii (if neg then ['-'] else []) := by
    cases neg
    · exact Ascii.nil
    · exact Ascii.cons (by decide) Ascii.nil
  exact Ascii.append (Ascii.append hsign hd.ascii)
    (Ascii.cons (by decide) (Ascii.cons (isDigit_ascii dm1) (Ascii.cons (isDigit_ascii dm2)
      (Ascii.cons (by decide) (Ascii.cons (isDigit_ascii dd1) (Ascii.cons (isDigit_ascii dd2) hr))))))

theorem ZoneText.ascii {zk : List Char → Bool} {cs : List Char} {z : Option Zone} (h : ZoneText zk cs z) :
    Ascii cs := by
  cases h with
  | «local» => exact Ascii.nil
  | zuluLower => exact Ascii.cons (by decide) Ascii.nil
  | zuluUpper => exact Ascii.cons (by decide) Ascii.nil
  | named name hne hall =>
    refine Ascii.cons (by decide) ?_
    intro c hc
    exact isZoneChar_ascii (List.all_eq_true.1 hall c hc)
  | offset neg h1 h2 m1 m2 dh1 dh2 dm1 dm2 =>
    refine Ascii.cons (by cases neg <;> decide) (Ascii.cons (isDigit_ascii dh1) (Ascii.cons (isDigit_ascii dh2)
      (Ascii.cons (by decide) (Ascii.cons (isDigit_ascii dm1) (Ascii.cons (isDigit_ascii dm2) Ascii.nil)))))
  | offsetSeconds neg h1 h2 m1 m2 s1 s2 dh1 dh2 dm1 dm2 ds1 ds2 =>
    refine Ascii.cons (by cases neg <;> decide) (Ascii.cons (isDigit_ascii dh1) (Ascii.cons (isDigit_ascii dh2)
      (Ascii.cons (by decide) (Ascii.cons (isDigit_ascii dm1) (Ascii.cons (isDigit_ascii dm2)
      (Ascii.cons (by decide) (Ascii.cons (isDigit_ascii ds1) (Ascii.cons (isDigit_ascii ds2) Ascii.nil))))))))

theorem TimeText.ascii {zk : List Char → Bool} {cs : List Char} {h mi s ns : Nat} {z : Option Zone}
    (ht : TimeText zk cs h mi s ns z) : Ascii cs := by
  obtain ⟨h1, h2, m1, m2, s1, s2, frac, ztext, e, dh1, dh2, dm1, dm2, ds1, ds2, _, _, _, hf, hz⟩ := ht
  subst e
  have hfrac : Ascii frac := by
    rcases hf with ⟨rfl, _⟩ | ⟨ds, rfl, _, hd, _⟩
    · exact Ascii.nil
    · exact Ascii.cons (by decide) hd.ascii
  exact Ascii.cons (isDigit_ascii dh1) (Ascii.cons (isDigit_ascii dh2) (Ascii.cons (by decide)
    (Ascii.cons (isDigit_ascii dm1) (Ascii.cons (isDigit_ascii dm2) (Ascii.cons (by decide)
    (Ascii.cons (isDigit_ascii ds1) (Ascii.cons (isDigit_ascii ds2) (Ascii.append hfrac hz.ascii))))))))

/-! ## Years-and-months durations -/

theorem compP_some {x : Char} {cs ds r : List Char} (h : compP x cs = some (ds, r)) :
    cs = ds ++ x :: r ∧ Digits ds ∧ ds ≠ [] := by
  unfold compP at h
  have hs := spanDigits_split cs
  have hd := spanDigits_fst_all_digits cs
  simp only at h
  split at h
  · rename_i c r' heq
    split at h
    · rename_i hc
      injection h with h
      injection h with h1 h2
      subst h1 h2
      refine ⟨?_, hd, hc.1⟩
      have e := hs.1
      rw [heq, hc.2] at e
      exact e
    · cases h
  · cases h

theorem compP_digits (x : Char) (ds r : List Char) (hd : Digits ds) (hne : ds ≠ []) (hx : isDigit x = false) :
    compP x (ds ++ x :: r) = some (ds, r) := by
  unfold compP
  rw [spanDigits_append ds (x :: r) hd (noDigitHead_cons hx)]
  simp [hne]

/-- The text of an optional component `n X`. -/
def compText (o : Option (List Char)) (x : Char) : List Char :=
  match o with
  | some d => d ++ [x]
  | none => []

/-- A present component is a non-empty run of digits. -/
def CompOk (o : Option (List Char)) : Prop := ∀ d, o = some d → Digits d ∧ d ≠ []

/-- `optCompP` inverted: either the component is there, or nothing was consumed. -/
theorem optCompP_cases (x : Char) (cs : List Char) :
    (∃ ds r, optCompP x cs = (some ds, r) ∧ cs = ds ++ x :: r ∧ Digits ds ∧ ds ≠ []) ∨
    (optCompP x cs = (none, cs) ∧ compP x cs = none) := by
  unfold optCompP
  cases h : compP x cs with
  | none => exact Or.inr ⟨rfl, rfl⟩
  | some p =>
    obtain ⟨ds, r⟩ := p
    exact Or.inl ⟨ds, r, rfl, compP_some h⟩

/-- The written grammar of a years-and-months duration: `[-]P[nY][nM]`, the whole text. -/
def YmText (cs : List Char) (neg : Bool) (ys ms : Option (List Char)) : Prop :=
  cs = (if neg then ['-'] else []) ++ 'P' :: (compText ys 'Y' ++ compText ms 'M') ∧ CompOk ys ∧ CompOk ms

theorem ymBody_sound (r : List Char) (h : (optCompP 'M' (optCompP 'Y' r).2).2 = []) :
    r = compText (optCompP 'Y' r).1 'Y' ++ compText (optCompP 'M' (optCompP 'Y' r).2).1 'M' ∧
    CompOk (optCompP 'Y' r).1 ∧ CompOk (optCompP 'M' (optCompP 'Y' r).2).1 := by
  rcases optCompP_cases 'Y' r with ⟨ys, r1, e1, er, hdy, hny⟩ | ⟨e1, _⟩
  · rw [e1] at h ⊢
    simp only at h ⊢
    rcases optCompP_cases 'M' r1 with ⟨ms, r2, e2, er2, hdm, hnm⟩ | ⟨e2, _⟩
    · rw [e2] at h ⊢
      simp only at h
      subst h
      refine ⟨?_, ?_, ?_⟩
      · rw [er, er2]; simp [compText]
      · intro d hd; injection hd with hd; subst hd; exact ⟨hdy, hny⟩
      · intro d hd; injection hd with hd; subst hd; exact ⟨hdm, hnm⟩
    · rw [e2] at h ⊢
      simp only at h
      subst h
      refine ⟨?_, ?_, ?_⟩
      · rw [er]; simp [compText]
      · intro d hd; injection hd with hd; subst hd; exact ⟨hdy, hny⟩
      · intro d hd; simp at hd
  · rw [e1] at h ⊢
    simp only at h ⊢
    rcases optCompP_cases 'M' r with ⟨ms, r2, e2, er2, hdm, hnm⟩ | ⟨e2, _⟩
    · rw [e2] at h ⊢
      simp only at h
      subst h
      refine ⟨?_, ?_, ?_⟩
      · rw [er2]; simp [compText]
      · intro d hd; simp at hd
      · intro d hd; injection hd with hd; subst hd; exact ⟨hdm, hnm⟩
    · rw [e2] at h ⊢
      simp only at h
      subst h
      refine ⟨?_, ?_, ?_⟩
      · simp [compText]
      · intro d hd; simp at hd
      · intro d hd; simp at hd

theorem ymBody_complete (ys ms : Option (List Char)) (hy : CompOk ys) (hm : CompOk ms) :
    optCompP 'Y' (compText ys 'Y' ++ compText ms 'M') = (ys, compText ms 'M') ∧
    optCompP 'M' (compText ms 'M') = (ms, []) := by
  have hM : optCompP 'M' (compText ms 'M') = (ms, []) := by
    cases ms with
    | none => simp [compText, optCompP, compP_nil]
    | some d =>
      obtain ⟨hd, hne⟩ := hm d rfl
      have := compP_digits 'M' d [] hd hne (by decide)
      simp [compText, optCompP, this]
  refine ⟨?_, hM⟩
  cases ys with
  | some d =>
    obtain ⟨hd, hne⟩ := hy d rfl
    have := compP_digits 'Y' d (compText ms 'M') hd hne (by decide)
    have e : compText (some d) 'Y' ++ compText ms 'M' = d ++ 'Y' :: compText ms 'M' := by simp [compText]
    unfold optCompP
    rw [e, this]
  | none =>
    cases ms with
    | none => simp [compText, optCompP, compP_nil]
    | some d =>
      obtain ⟨hd, _⟩ := hm d rfl
      have := compP_none_of_other 'Y' 'M' d [] hd (by decide) (by decide)
      simp [compText, optCompP, this]

/-- **The years-and-months recogniser accepts exactly the written grammar**: the outcome is that of
`ymFinish` (the value `±(12·years + months)` when at least one component is there and the total
fits `i64`) on the written components. -/
theorem parseYmDur_iff (cs : List Char) (n : Int) :
    parseYmDur cs = .ok n ↔ ∃ neg ys ms, YmText cs neg ys ms ∧ ymFinish neg ys ms = .ok n := by
  constructor
  · intro h
    by_cases hneg : ∃ r, cs = '-' :: 'P' :: r
    · obtain ⟨r, rfl⟩ := hneg
      rw [parseYmDur_neg] at h
      split at h
      · cases h
      · rename_i hr
        have hr' : (optCompP 'M' (optCompP 'Y' r).2).2 = [] := by simpa using hr
        obtain ⟨e, c1, c2⟩ := ymBody_sound r hr'
        exact ⟨true, _, _, ⟨by simp only [if_true, List.cons_append, List.nil_append]; rw [← e], c1, c2⟩, h⟩
    · by_cases hpos : ∃ r, cs = 'P' :: r
      · obtain ⟨r, rfl⟩ := hpos
        rw [parseYmDur_pos] at h
        split at h
        · cases h
        · rename_i hr
          have hr' : (optCompP 'M' (optCompP 'Y' r).2).2 = [] := by simpa using hr
          obtain ⟨e, c1, c2⟩ := ymBody_sound r hr'
          exact ⟨false, _, _, ⟨by simp only [Bool.false_eq_true, if_false, List.nil_append]; rw [← e], c1, c2⟩, h⟩
      · exfalso
        unfold parseYmDur at h
        split at h
        rename_i neg cs' hcs
        split at hcs
        · rename_i r
          injection hcs with h1 h2
          subst h1 h2
          split at h
          · rename_i r'
            exact hneg ⟨r', rfl⟩
          · cases h
        · injection hcs with h1 h2
          subst h1 h2
          split at h
          · rename_i r' _
            exact hpos ⟨r', rfl⟩
          · cases h
  · rintro ⟨neg, ys, ms, ⟨e, hy, hm⟩, hf⟩
    subst e
    obtain ⟨e1, e2⟩ := ymBody_complete ys ms hy hm
    cases neg with
    | true =>
      simp only [if_true, List.cons_append, List.nil_append]
      rw [parseYmDur_neg, e1]
      simp only [e2, ne_eq, not_true_eq_false, if_false]
      exact hf
    | false =>
      simp only [Bool.false_eq_true, if_false, List.nil_append]
      rw [parseYmDur_pos, e1]
      simp only [e2, ne_eq, not_true_eq_false, if_false]
      exact hf

theorem YmText.ascii {cs : List Char} {neg : Bool} {ys ms : Option (List Char)} (h : YmText cs neg ys ms) :
    Ascii cs := by
  obtain ⟨e, hy, hm⟩ := h
  subst e
  have hsign : Ascii (if neg then ['-'] else []) := by
    cases neg
    · exact Ascii.nil
    · exact Ascii.cons (by decide) Ascii.nil
  have hc : ∀ (o : Option (List Char)) (x : Char), CompOk o → x.toNat < 128 → Ascii (compText o x) := by
    intro o x ho hx
    cases o with
    | none => exact Ascii.nil
    | some d => exact Ascii.append (ho d rfl).1.ascii (Ascii.cons hx Ascii.nil)
  exact Ascii.append hsign (Ascii.cons (by decide) (Ascii.append (hc ys 'Y' hy (by decide)) (hc ms 'M' hm (by decide))))

end Dmn.Temporal
