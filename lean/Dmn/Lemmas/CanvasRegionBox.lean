import Dmn.Lemmas.CanvasThin

/-!
# Every rectangular region of a sheet is a closed box of the thin layer

`IsRegion s k r0 c0 r1 c1`: the grid cells of key `k` are exactly the rectangle of grid rows
`r0..r1` and grid columns `c0..c1`.  Then the thin layer holds a closed box (`RegionBox`) around
it, and `recognize_region` from its top left corner returns its rectangle in pixel coordinates.
-/

namespace Dmn.Recog
open Scan (ok error)

/-- the grid cells of key `k` are exactly the rectangle `r0..r1` × `c0..c1` -/
structure IsRegion (s : Sheet) (k : Key) (r0 c0 r1 c1 : Nat) : Prop where
  hr : r0 ≤ r1 ∧ r1 < s.nrows
  hc : c0 ≤ c1 ∧ c1 < s.ncols
  cells : ∀ r c, r < s.nrows → c < s.ncols →
    (s.key r c = k ↔ (r0 ≤ r ∧ r ≤ r1 ∧ c0 ≤ c ∧ c ≤ c1))

section
variable {s : Sheet} {k : Key} {r0 c0 r1 c1 : Nat}

theorem IsRegion.key_in (g : IsRegion s k r0 c0 r1 c1) {r c : Nat} (h1 : r0 ≤ r) (h2 : r ≤ r1)
    (h3 : c0 ≤ c) (h4 : c ≤ c1) : s.key r c = k :=
  (g.cells r c (by have := g.hr; omega) (by have := g.hc; omega)).mpr ⟨h1, h2, h3, h4⟩

theorem IsRegion.key_out (g : IsRegion s k r0 c0 r1 c1) {r c : Nat} (hr : r < s.nrows)
    (hc : c < s.ncols) (h : ¬ (r0 ≤ r ∧ r ≤ r1 ∧ c0 ≤ c ∧ c ≤ c1)) : s.key r c ≠ k :=
  fun e => h ((g.cells r c hr hc).mp e)

theorem IsRegion.hSeg_top (g : IsRegion s k r0 c0 r1 c1) {c : Nat} (h3 : c0 ≤ c) (h4 : c ≤ c1) :
    s.hSeg r0 c = true := by
  have := g.hr; have := g.hc
  simp only [Sheet.hSeg, Bool.or_eq_true, beq_iff_eq, bne_iff_ne, ne_eq]
  by_cases h0 : r0 = 0
  · exact Or.inl (Or.inl h0)
  · right
    rw [g.key_in (Nat.le_refl _) (by omega) h3 h4]
    exact g.key_out (by omega) (by omega) (by omega)

theorem IsRegion.hSeg_bottom (g : IsRegion s k r0 c0 r1 c1) {c : Nat} (h3 : c0 ≤ c) (h4 : c ≤ c1) :
    s.hSeg (r1 + 1) c = true := by
  have := g.hr; have := g.hc
  simp only [Sheet.hSeg, Bool.or_eq_true, beq_iff_eq, bne_iff_ne, ne_eq]
  by_cases h0 : r1 + 1 = s.nrows
  · exact Or.inl (Or.inr h0)
  · right
    rw [Nat.add_sub_cancel, g.key_in (by omega) (Nat.le_refl _) h3 h4]
    exact fun e => g.key_out (r := r1 + 1) (c := c) (by omega) (by omega) (by omega) e.symm

theorem IsRegion.hSeg_inner (g : IsRegion s k r0 c0 r1 c1) {r c : Nat} (h1 : r0 < r) (h2 : r ≤ r1)
    (h3 : c0 ≤ c) (h4 : c ≤ c1) : s.hSeg r c = false := by
  have := g.hr; have := g.hc
  have e1 : (r == 0) = false := by simp; omega
  have e2 : (r == s.nrows) = false := by simp; omega
  simp only [Sheet.hSeg, e1, e2, Bool.false_or]
  rw [g.key_in (r := r - 1) (by omega) (by omega) h3 h4, g.key_in (by omega) h2 h3 h4]
  simp

theorem IsRegion.vSeg_left (g : IsRegion s k r0 c0 r1 c1) {r : Nat} (h1 : r0 ≤ r) (h2 : r ≤ r1) :
    s.vSeg r c0 = true := by
  have := g.hr; have := g.hc
  simp only [Sheet.vSeg, Bool.or_eq_true, beq_iff_eq, bne_iff_ne, ne_eq]
  by_cases h0 : c0 = 0
  · exact Or.inl (Or.inl h0)
  · right
    rw [g.key_in h1 h2 (Nat.le_refl _) (by omega)]
    exact g.key_out (by omega) (by omega) (by omega)

theorem IsRegion.vSeg_right (g : IsRegion s k r0 c0 r1 c1) {r : Nat} (h1 : r0 ≤ r) (h2 : r ≤ r1) :
    s.vSeg r (c1 + 1) = true := by
  have := g.hr; have := g.hc
  simp only [Sheet.vSeg, Bool.or_eq_true, beq_iff_eq, bne_iff_ne, ne_eq]
  by_cases h0 : c1 + 1 = s.ncols
  · exact Or.inl (Or.inr h0)
  · right
    rw [Nat.add_sub_cancel, g.key_in h1 h2 (by omega) (Nat.le_refl _)]
    exact fun e => g.key_out (r := r) (c := c1 + 1) (by omega) (by omega) (by omega) e.symm

theorem IsRegion.vSeg_inner (g : IsRegion s k r0 c0 r1 c1) {r c : Nat} (h1 : r0 ≤ r) (h2 : r ≤ r1)
    (h3 : c0 < c) (h4 : c ≤ c1) : s.vSeg r c = false := by
  have := g.hr; have := g.hc
  have e1 : (c == 0) = false := by simp; omega
  have e2 : (c == s.ncols) = false := by simp; omega
  simp only [Sheet.vSeg, e1, e2, Bool.false_or]
  rw [g.key_in (c := c - 1) h1 h2 (by omega) (by omega), g.key_in h1 h2 (by omega) h4]
  simp

end

/-! ## Positions between two boundaries -/

theorem xPos_lt_imp (s : Sheet) {a b : Nat} (h : s.xPos a < s.xPos b) : a < b := by
  by_cases hlt : a < b
  · exact hlt
  · have : s.xPos b ≤ s.xPos a := by
      rw [Sheet.xPos_eq, Sheet.xPos_eq]; exact sumTo_mono _ (by omega)
    omega

theorem yPos_lt_imp (s : Sheet) {a b : Nat} (h : s.yPos a < s.yPos b) : a < b := by
  by_cases hlt : a < b
  · exact hlt
  · have : s.yPos b ≤ s.yPos a := by
      rw [Sheet.yPos_eq, Sheet.yPos_eq]; exact sumTo_mono _ (by omega)
    omega

/-- a segment position between the boundaries `a` and `b` belongs to a column between them -/
theorem seg_between (s : Sheet) {a b c i : Nat} (hi : i < s.w c) (h1 : s.xPos a < s.xPos c + (1 + i))
    (h2 : s.xPos c + (1 + i) < s.xPos b) : a ≤ c ∧ c < b := by
  have h3 := xPos_lt s (show c < c + 1 by omega)
  have := xPos_lt_imp s (show s.xPos a < s.xPos (c + 1) by omega)
  have := xPos_lt_imp s (show s.xPos c < s.xPos b by omega)
  omega

theorem line_between (s : Sheet) {a b r l : Nat} (hl : l < s.h r) (h1 : s.yPos a < s.yPos r + (1 + l))
    (h2 : s.yPos r + (1 + l) < s.yPos b) : a ≤ r ∧ r < b := by
  have h3 := yPos_lt s (show r < r + 1 by omega)
  have := yPos_lt_imp s (show s.yPos a < s.yPos (r + 1) by omega)
  have := yPos_lt_imp s (show s.yPos r < s.yPos b by omega)
  omega

/-! ## The thin layer at a vertex and on a segment, top border included -/

section
variable {s : Sheet} {name : Option Text} {boxRight : Nat} {bc0 br0 : Nat} {bc1 br1 : Option Nat}

theorem Th_vertex' (hf : SheetFits s name boxRight) (g : DoubleGrid s bc0 br0 bc1 br1) (br bc : Nat)
    (hbr' : br ≤ s.nrows) (hbc : bc ≤ s.ncols) :
    ∃ u, Th s name boxRight (boxLines name + s.yPos br) (s.xPos bc) =
        J u (s.armDown br bc) (s.armLeft br bc) (s.armRight br bc) ∧
      (0 < br → u = s.armUp br bc) := by
  cases br with
  | zero => exact ⟨_, Th_top_vertex hf g bc hbc, fun h => absurd h (by omega)⟩
  | succ b => exact ⟨_, Th_vertex hf g (b + 1) bc (by omega) hbr' hbc, fun _ => rfl⟩

theorem Th_hseg' (hf : SheetFits s name boxRight) (g : DoubleGrid s bc0 br0 bc1 br1) (br c i : Nat)
    (hbr' : br ≤ s.nrows) (hc : c < s.ncols) (hi : i < s.w c) (hseg : s.hSeg br c = true) :
    Th s name boxRight (boxLines name + s.yPos br) (s.xPos c + (1 + i)) = '─' ∨
    Th s name boxRight (boxLines name + s.yPos br) (s.xPos c + (1 + i)) = '┴' := by
  cases br with
  | zero =>
    have := Th_top_seg hf g c i hc hi
    show Th s name boxRight (boxLines name) _ = _ ∨ Th s name boxRight (boxLines name) _ = _
    rw [this]
    split
    · exact Or.inr rfl
    · exact Or.inl rfl
  | succ b =>
    rw [Th_hseg hf (b + 1) c i (by omega) hbr' hc hi, if_pos hseg]
    exact Or.inl rfl

/-! ## The box of a region -/

/-- **Every rectangular region is a closed box of the thin layer.** -/
theorem regionBox_of_isRegion (hf : SheetFits s name boxRight) (g : DoubleGrid s bc0 br0 bc1 br1)
    {c' : Content}
    (hth : ∀ y x, y < boxLines name + s.yPos s.nrows + 2 → x < s.xPos s.ncols + 1 →
      chOf c' .thin y x = Th s name boxRight y x)
    {k : Key} {r0 c0 r1 c1 : Nat} (reg : IsRegion s k r0 c0 r1 c1) :
    RegionBox c' .thin (s.xPos c0) (boxLines name + s.yPos r0) (s.xPos (c1 + 1))
      (boxLines name + s.yPos (r1 + 1)) := by
  obtain ⟨hr01, hr1⟩ := reg.hr
  obtain ⟨hc01, hc1⟩ := reg.hc
  have hX : ∀ bc, bc ≤ s.ncols → s.xPos bc < s.xPos s.ncols + 1 := fun bc h => by
    have := xPos_le s h; omega
  have hY : ∀ br, br ≤ s.nrows → boxLines name + s.yPos br < boxLines name + s.yPos s.nrows + 2 :=
    fun br h => by have := yPos_le s h; omega
  have hXs : ∀ c i, c < s.ncols → i < s.w c → s.xPos c + (1 + i) < s.xPos s.ncols + 1 := by
    intro c i hc hi
    have := xPos_lt s (show c < c + 1 by omega)
    have := xPos_le s (show c + 1 ≤ s.ncols from hc)
    omega
  have hYs : ∀ r l, r < s.nrows → l < s.h r →
      boxLines name + (s.yPos r + (1 + l)) < boxLines name + s.yPos s.nrows + 2 := by
    intro r l hr hl
    have := yPos_lt s (show r < r + 1 by omega)
    have := yPos_le s (show r + 1 ≤ s.nrows from hr)
    omega
  -- a horizontal side: the row of boundary `br`, between the corners
  have horz : ∀ (br : Nat) (sr ar : List Char), br ≤ s.nrows →
      (∀ c, c0 ≤ c → c ≤ c1 → s.hSeg br c = true) →
      (∀ bc, c0 < bc → bc ≤ c1 → ∀ u, Passes sr ar
        (J u (s.armDown br bc) (s.armLeft br bc) (s.armRight br bc)) ∨ (0 < br ∧ Passes sr ar
        (J (s.armUp br bc) (s.armDown br bc) (s.armLeft br bc) (s.armRight br bc)))) →
      Passes sr ar '─' → (br = 0 → Passes sr ar '┴') →
      ∀ x, s.xPos c0 < x → x < s.xPos (c1 + 1) →
        Passes sr ar (chOf c' .thin (boxLines name + s.yPos br) x) := by
    intro br sr ar hbr hseg hvert hline hup x hx1 hx2
    have hxW : x < s.xPos s.ncols + 1 := by have := hX (c1 + 1) (by omega); omega
    rw [hth _ _ (hY br hbr) hxW]
    rcases s.line_locate x hxW with ⟨bc, hbc, rfl⟩ | ⟨c, i, hc, hi, rfl⟩
    · have h1 := xPos_lt_imp s hx1
      have h2 := xPos_lt_imp s hx2
      obtain ⟨u, hu, hu'⟩ := Th_vertex' hf g br bc hbr hbc
      rw [hu]
      rcases hvert bc h1 (by omega) u with h | ⟨hpos, h⟩
      · exact h
      · rw [hu' hpos]; exact h
    · obtain ⟨h1, h2⟩ := seg_between s hi hx1 hx2
      rcases Th_hseg' hf g br c i hbr hc hi (hseg c h1 (by omega)) with h | h
      · rw [h]; exact hline
      · rw [h]
        cases br with
        | zero => exact hup rfl
        | succ b =>
          rw [Th_hseg hf (b + 1) c i (by omega) hbr hc hi, if_pos (hseg c h1 (by omega))] at h
          exact absurd h (by decide)
  -- a vertical side: the column of boundary `bc`, between the corners
  have vert : ∀ (bc : Nat) (sd ad : List Char), bc ≤ s.ncols →
      (∀ r, r0 ≤ r → r ≤ r1 → bc = s.ncols ∨ s.vSeg r bc = true) →
      (∀ br, r0 < br → br ≤ r1 → Passes sd ad
        (J (s.armUp br bc) (s.armDown br bc) (s.armLeft br bc) (s.armRight br bc))) →
      Passes sd ad '│' →
      ∀ y, boxLines name + s.yPos r0 < y → y < boxLines name + s.yPos (r1 + 1) →
        Passes sd ad (chOf c' .thin y (s.xPos bc)) := by
    intro bc sd ad hbc hseg hvert hline y hy1 hy2
    obtain ⟨j, rfl⟩ : ∃ j, y = boxLines name + j := ⟨y - boxLines name, by omega⟩
    have hjR : j < s.yPos s.nrows + 1 := by have := yPos_le s (show r1 + 1 ≤ s.nrows by omega); omega
    rw [hth _ _ (by omega) (hX bc hbc)]
    rcases s.render_locate j hjR with ⟨br, hbr, rfl⟩ | ⟨r, l, hr, hl, rfl⟩
    · have h1 := yPos_lt_imp s (show s.yPos r0 < s.yPos br by omega)
      have h2 := yPos_lt_imp s (show s.yPos br < s.yPos (r1 + 1) by omega)
      rw [Th_vertex hf g br bc (by omega) hbr hbc]
      exact hvert br h1 (by omega)
    · obtain ⟨h1, h2⟩ := line_between s hl (show s.yPos r0 < s.yPos r + (1 + l) by omega)
        (show s.yPos r + (1 + l) < s.yPos (r1 + 1) by omega)
      rw [Th_sep hf r l bc hr hl hbc, if_pos (hseg r h1 (by omega))]
      exact hline
  -- a corner
  have corner : ∀ (br bc : Nat), br ≤ s.nrows → bc ≤ s.ncols → ∀ (sc : List Char),
      (∀ u, sc.contains (J u (s.armDown br bc) (s.armLeft br bc) (s.armRight br bc)) = true) →
      sc.contains (chOf c' .thin (boxLines name + s.yPos br) (s.xPos bc)) = true := by
    intro br bc hbr hbc sc h
    rw [hth _ _ (hY br hbr) (hX bc hbc)]
    obtain ⟨u, hu, _⟩ := Th_vertex' hf g br bc hbr hbc
    rw [hu]; exact h u
  have corner' : ∀ (br bc : Nat), 0 < br → br ≤ s.nrows → bc ≤ s.ncols → ∀ (sc : List Char),
      sc.contains (J (s.armUp br bc) (s.armDown br bc) (s.armLeft br bc) (s.armRight br bc)) = true →
      sc.contains (chOf c' .thin (boxLines name + s.yPos br) (s.xPos bc)) = true := by
    intro br bc hbr0 hbr hbc sc h
    rw [hth _ _ (hY br hbr) (hX bc hbc), Th_vertex hf g br bc hbr0 hbr hbc]
    exact h
  refine ⟨?_, ?_, ?_, ?_, ?_, ?_, ?_, ?_⟩
  · -- top
    refine horz r0 _ _ (by omega) (fun c h1 h2 => reg.hSeg_top h1 h2) ?_ ⟨by decide, by decide⟩
      (fun _ => ⟨by decide, by decide⟩)
    intro bc h1 h2 u
    left
    have hd : s.armDown r0 bc = false := by simp [Sheet.armDown, reg.vSeg_inner (Nat.le_refl _) hr01 h1 h2]
    have hl : s.armLeft r0 bc = true := by
      simp [Sheet.armLeft, show 0 < bc by omega, reg.hSeg_top (c := bc - 1) (by omega) (by omega)]
    have hr : s.armRight r0 bc = true := by
      simp [Sheet.armRight, show bc < s.ncols by omega, reg.hSeg_top (c := bc) (by omega) h2]
    rw [hd, hl, hr]; exact J_top_inner u
  · -- top right
    refine corner r0 (c1 + 1) (by omega) (by omega) _ ?_
    intro u
    have hd : s.armDown r0 (c1 + 1) = true := by
      simp [Sheet.armDown, show r0 < s.nrows by omega, reg.vSeg_right (Nat.le_refl _) hr01]
    have hl : s.armLeft r0 (c1 + 1) = true := by
      simp [Sheet.armLeft, reg.hSeg_top hc01 (Nat.le_refl _)]
    rw [hd, hl]; exact J_topRight u _
  · -- right
    refine vert (c1 + 1) _ _ (by omega) (fun r h1 h2 => Or.inr (reg.vSeg_right h1 h2)) ?_
      ⟨by decide, by decide⟩
    intro br h1 h2
    have hu : s.armUp br (c1 + 1) = true := by
      simp [Sheet.armUp, show 0 < br by omega, reg.vSeg_right (r := br - 1) (by omega) (by omega)]
    have hd : s.armDown br (c1 + 1) = true := by
      simp [Sheet.armDown, show br < s.nrows by omega, reg.vSeg_right (r := br) (by omega) h2]
    have hl : s.armLeft br (c1 + 1) = false := by
      simp [Sheet.armLeft, reg.hSeg_inner h1 h2 hc01 (Nat.le_refl _)]
    rw [hu, hd, hl]; exact J_right_inner _
  · -- bottom right
    refine corner' (r1 + 1) (c1 + 1) (by omega) (by omega) (by omega) _ ?_
    have hu : s.armUp (r1 + 1) (c1 + 1) = true := by
      simp [Sheet.armUp, reg.vSeg_right hr01 (Nat.le_refl _)]
    have hl : s.armLeft (r1 + 1) (c1 + 1) = true := by
      simp [Sheet.armLeft, reg.hSeg_bottom hc01 (Nat.le_refl _)]
    rw [hu, hl]; exact J_bottomRight _ _
  · -- bottom
    refine horz (r1 + 1) _ _ (by omega) (fun c h1 h2 => reg.hSeg_bottom h1 h2) ?_
      ⟨by decide, by decide⟩ (fun h => absurd h (by omega))
    intro bc h1 h2 u
    right
    refine ⟨by omega, ?_⟩
    have hu : s.armUp (r1 + 1) bc = false := by
      simp [Sheet.armUp, reg.vSeg_inner hr01 (Nat.le_refl _) h1 h2]
    have hl : s.armLeft (r1 + 1) bc = true := by
      simp [Sheet.armLeft, show 0 < bc by omega, reg.hSeg_bottom (c := bc - 1) (by omega) (by omega)]
    have hr : s.armRight (r1 + 1) bc = true := by
      simp [Sheet.armRight, show bc < s.ncols by omega, reg.hSeg_bottom (c := bc) (by omega) h2]
    rw [hu, hl, hr]; exact J_bottom_inner _
  · -- bottom left
    refine corner' (r1 + 1) c0 (by omega) (by omega) (by omega) _ ?_
    have hu : s.armUp (r1 + 1) c0 = true := by
      simp [Sheet.armUp, reg.vSeg_left hr01 (Nat.le_refl _)]
    have hr : s.armRight (r1 + 1) c0 = true := by
      simp [Sheet.armRight, show c0 < s.ncols by omega, reg.hSeg_bottom (Nat.le_refl _) hc01]
    rw [hu, hr]; exact J_bottomLeft _ _
  · -- left
    refine vert c0 _ _ (by omega) (fun r h1 h2 => Or.inr (reg.vSeg_left h1 h2)) ?_
      ⟨by decide, by decide⟩
    intro br h1 h2
    have hu : s.armUp br c0 = true := by
      simp [Sheet.armUp, show 0 < br by omega, reg.vSeg_left (r := br - 1) (by omega) (by omega)]
    have hd : s.armDown br c0 = true := by
      simp [Sheet.armDown, show br < s.nrows by omega, reg.vSeg_left (r := br) (by omega) h2]
    have hr : s.armRight br c0 = false := by
      simp [Sheet.armRight, reg.hSeg_inner h1 h2 (Nat.le_refl _) hc01]
    rw [hu, hd, hr]; exact J_left_inner _
  · -- top left
    refine corner r0 c0 (by omega) (by omega) _ ?_
    intro u
    have hd : s.armDown r0 c0 = true := by
      simp [Sheet.armDown, show r0 < s.nrows by omega, reg.vSeg_left (Nat.le_refl _) hr01]
    have hr : s.armRight r0 c0 = true := by
      simp [Sheet.armRight, show c0 < s.ncols by omega, reg.hSeg_top (Nat.le_refl _) hc01]
    rw [hd, hr]; exact J_topLeft_corner _ _

/-- **`recognize_region` returns the rectangle of every rectangular region** (pixel coordinates:
left / top inclusive, right / bottom exclusive, borders included). -/
theorem recognizeRegion_of_isRegion (hf : SheetFits s name boxRight)
    (g : DoubleGrid s bc0 br0 bc1 br1) {c' : Content}
    (hs : Shape c' (boxLines name + s.yPos s.nrows + 2) (s.xPos s.ncols + 1))
    (hth : ∀ y x, y < boxLines name + s.yPos s.nrows + 2 → x < s.xPos s.ncols + 1 →
      chOf c' .thin y x = Th s name boxRight y x)
    {k : Key} {r0 c0 r1 c1 : Nat} (reg : IsRegion s k r0 c0 r1 c1) :
    recognizeRegion c' .thin ⟨s.xPos c0, boxLines name + s.yPos r0⟩ =
      ok ⟨s.xPos c0, boxLines name + s.yPos r0, s.xPos (c1 + 1) + 1,
        boxLines name + s.yPos (r1 + 1) + 1⟩ := by
  obtain ⟨hr01, hr1⟩ := reg.hr
  obtain ⟨hc01, hc1⟩ := reg.hc
  refine recognizeRegion_box hs ?_ ?_ ?_ ?_ (regionBox_of_isRegion hf g hth reg)
  · exact xPos_strict s (by omega)
  · have := xPos_le s (show c1 + 1 ≤ s.ncols by omega); omega
  · have := yPos_strict s (show r0 < r1 + 1 by omega); omega
  · have := yPos_le s (show r1 + 1 ≤ s.nrows by omega); omega

end

end Dmn.Recog
