import Dmn.Lemmas.CanvasGridDefs

/-!
# The body and grid layers, position by position (any content)

`removeInformationItemRegion_pointwise`, `makeGrid_pointwise`: on ANY rectangular content with the
body rectangle inside it, the body layer after `remove_information_item_region` is `bodyLayerOf`
of the thin layer, and the grid layer after `make_grid` is `gridV` of the body layer: the
horizontal pass rewrites exactly the rows that hold a `─`, the vertical pass exactly the columns
that hold a `│` after it.
-/

namespace Dmn.Recog
open Scan (ok error)

/-! ## A loop that rewrites one row / one column of a layer -/

/-- the body of the rewriting loops of `make_grid` -/
def rewriteAt (l : Layer) (g : Char → Option Char) (y x : Nat) (c : Content) : Scan Content :=
  chAt c y x l >>= fun ch =>
    match g ch with
    | some ch' => setAt c y x l ch'
    | none => ok c

theorem rewriteAt_spec {c : Content} {R W : Nat} (h : Shape c R W) (l : Layer) (g : Char → Option Char)
    {y x : Nat} (hy : y < R) (hx : x < W) :
    Yields (rewriteAt l g y x c) (fun c' => Shape c' R W ∧ ∀ l' y' x', chOf c' l' y' x' =
      if l' = l ∧ y' = y ∧ x' = x then (g (chOf c l y x)).getD (chOf c l y x) else chOf c l' y' x') := by
  unfold rewriteAt
  rw [chAt_eq h hy hx]
  simp only [Scan.ok_bind]
  split
  · rename_i ch' hg
    obtain ⟨c', hc', hs', hch'⟩ := chOf_setAt h hy hx l ch'
    refine ⟨c', hc', hs', fun l' y' x' => ?_⟩
    rw [hch', hg]
    by_cases hcond : y' = y ∧ x' = x ∧ l' = l
    · rw [if_pos hcond, if_pos ⟨hcond.2.2, hcond.1, hcond.2.1⟩]; rfl
    · rw [if_neg hcond, if_neg (fun hh => hcond ⟨hh.2.1, hh.2.2, hh.1⟩)]
  · rename_i hg
    refine Yields_ok ⟨h, fun l' y' x' => ?_⟩
    rw [hg]
    by_cases hcond : l' = l ∧ y' = y ∧ x' = x
    · obtain ⟨rfl, rfl, rfl⟩ := hcond
      rw [if_pos ⟨rfl, rfl, rfl⟩]; rfl
    · rw [if_neg hcond]

/-- a loop over `x ∈ [lo, lo + n)` that rewrites row `y` of layer `l` -/
theorem Yields_rewriteRow {c0 : Content} {R W : Nat} (h0 : Shape c0 R W) (l : Layer)
    (g : Nat → Char → Option Char) {y : Nat} (hy : y < R) (lo n : Nat) (hn : ∀ i, lo ≤ i → i < lo + n → i < W) :
    Yields (Scan.forRange (fun x c => rewriteAt l (g x) y x c) n lo c0)
      (fun c' => Shape c' R W ∧ ∀ l' y' x', chOf c' l' y' x' =
        if l' = l ∧ y' = y ∧ lo ≤ x' ∧ x' < lo + n then (g x' (chOf c0 l y x')).getD (chOf c0 l y x')
        else chOf c0 l' y' x') := by
  refine Yields_forRange (inv := fun i c => Shape c R W ∧ ∀ l' y' x', chOf c l' y' x' =
      if l' = l ∧ y' = y ∧ lo ≤ x' ∧ x' < i then (g x' (chOf c0 l y x')).getD (chOf c0 l y x')
      else chOf c0 l' y' x') n lo c0 ⟨h0, fun l' y' x' => ?_⟩ ?_
  · rw [if_neg (fun hh => by omega)]
  · intro i c hlo hi ⟨hs, hch⟩
    have hcur : chOf c l y i = chOf c0 l y i := by
      rw [hch, if_neg (fun hh => by omega)]
    refine (rewriteAt_spec hs l (g i) hy (hn i hlo hi)).mono ?_
    intro c' ⟨hs', hch'⟩
    refine ⟨hs', fun l' y' x' => ?_⟩
    rw [hch', hcur]
    by_cases hat : l' = l ∧ y' = y ∧ x' = i
    · obtain ⟨rfl, rfl, rfl⟩ := hat
      rw [if_pos ⟨rfl, rfl, rfl⟩, if_pos ⟨rfl, rfl, hlo, by omega⟩]
    · rw [if_neg hat, hch]
      by_cases hcond : l' = l ∧ y' = y ∧ lo ≤ x' ∧ x' < i
      · rw [if_pos hcond, if_pos ⟨hcond.1, hcond.2.1, hcond.2.2.1, by omega⟩]
      · rw [if_neg hcond, if_neg]
        intro hh
        by_cases hxi : x' = i
        · exact hat ⟨hh.1, hh.2.1, hxi⟩
        · exact hcond ⟨hh.1, hh.2.1, hh.2.2.1, by omega⟩

/-- a loop over `y ∈ [lo, lo + n)` that rewrites column `x` of layer `l` -/
theorem Yields_rewriteCol {c0 : Content} {R W : Nat} (h0 : Shape c0 R W) (l : Layer)
    (g : Nat → Char → Option Char) {x : Nat} (hx : x < W) (lo n : Nat) (hn : ∀ i, lo ≤ i → i < lo + n → i < R) :
    Yields (Scan.forRange (fun y c => rewriteAt l (g y) y x c) n lo c0)
      (fun c' => Shape c' R W ∧ ∀ l' y' x', chOf c' l' y' x' =
        if l' = l ∧ x' = x ∧ lo ≤ y' ∧ y' < lo + n then (g y' (chOf c0 l y' x)).getD (chOf c0 l y' x)
        else chOf c0 l' y' x') := by
  refine Yields_forRange (inv := fun i c => Shape c R W ∧ ∀ l' y' x', chOf c l' y' x' =
      if l' = l ∧ x' = x ∧ lo ≤ y' ∧ y' < i then (g y' (chOf c0 l y' x)).getD (chOf c0 l y' x)
      else chOf c0 l' y' x') n lo c0 ⟨h0, fun l' y' x' => ?_⟩ ?_
  · rw [if_neg (fun hh => by omega)]
  · intro i c hlo hi ⟨hs, hch⟩
    have hcur : chOf c l i x = chOf c0 l i x := by
      rw [hch, if_neg (fun hh => by omega)]
    refine (rewriteAt_spec hs l (g i) (hn i hlo hi) hx).mono ?_
    intro c' ⟨hs', hch'⟩
    refine ⟨hs', fun l' y' x' => ?_⟩
    rw [hch', hcur]
    by_cases hat : l' = l ∧ y' = i ∧ x' = x
    · obtain ⟨rfl, rfl, rfl⟩ := hat
      rw [if_pos ⟨rfl, rfl, rfl⟩, if_pos ⟨rfl, rfl, hlo, by omega⟩]
    · rw [if_neg hat, hch]
      by_cases hcond : l' = l ∧ x' = x ∧ lo ≤ y' ∧ y' < i
      · rw [if_pos hcond, if_pos ⟨hcond.1, hcond.2.1, hcond.2.2.1, by omega⟩]
      · rw [if_neg hcond, if_neg]
        intro hh
        by_cases hyi : y' = i
        · exact hat ⟨hh.1, hyi, hh.2.1⟩
        · exact hcond ⟨hh.1, hh.2.1, hh.2.2.1, by omega⟩

/-! ## `make_grid` -/

theorem chOf_copyLayer (c : Content) (l : Layer) (y x : Nat) :
    chOf (copyLayer c .body .grid) l y x = if l = .grid then chOf c .body y x else chOf c l y x := by
  unfold copyLayer
  rw [chOf_map]
  unfold chOf
  cases c[y]? with
  | none => simp
  | some row =>
    dsimp only
    cases row[x]? with
    | none => simp
    | some p =>
      dsimp only
      rw [Px.get_set]

/-- **What `make_grid` computes** — on any rectangular content with the body rectangle inside it:
the shape and the text, thin and body layers are kept, and the grid layer is the body layer after
the horizontal pass (`gridH`: the rows that hold a `─` are completed) and the vertical pass
(`gridV`: the columns that hold a `│` are completed), at every position. -/
theorem makeGrid_pointwise {c : Content} {R W : Nat} (h : Shape c R W) {b : Rect} (hb : b.Inside R W) :
    Yields (makeGrid c b .body .grid) (fun c' => Shape c' R W ∧ SameOn [.text, .thin, .body] c c' ∧
      ∀ y x, chOf c' .grid y x = gridV (fun y x => chOf c .body y x) b y x) := by
  obtain ⟨htop, hbot, hright⟩ := hb
  let B : Nat → Nat → Char := fun y x => chOf c .body y x
  let cg := copyLayer c .body .grid
  have hsg : Shape cg R W := Shape_copyLayer h _ _
  have hcg : ∀ l' y' x', chOf cg l' y' x' = if l' = .grid then B y' x' else chOf c l' y' x' :=
    fun l' y' x' => chOf_copyLayer c l' y' x'
  -- the horizontal pass
  have hpass1 : Yields (Scan.forRange (fun y c => do
        let hasHorzLine ← Scan.anyRange (fun x => do
          let ch ← chAt c y x .grid
          ok (ch == '─')) (b.right - b.left) b.left
        if hasHorzLine then
          Scan.forRange (fun x c => do
            let ch ← chAt c y x .grid
            match gridHorz ch x b.left b.right with
            | some ch' => setAt c y x .grid ch'
            | none => ok c) (b.right - b.left) b.left c
        else ok c) (b.bottom - b.top) b.top cg)
      (fun c1 => Shape c1 R W ∧ ∀ l' y' x', chOf c1 l' y' x' =
        if l' = .grid then gridH B b y' x' else chOf c l' y' x') := by
    refine (Yields_forRange (inv := fun i c1 => Shape c1 R W ∧ ∀ l' y' x', chOf c1 l' y' x' =
        if l' = .grid ∧ b.top ≤ y' ∧ y' < i ∧ b.left ≤ x' ∧ x' < b.right ∧ hasH B b y' = true then
          (gridHorz (B y' x') x' b.left b.right).getD (B y' x')
        else chOf cg l' y' x') (b.bottom - b.top) b.top cg ⟨hsg, fun l' y' x' => ?_⟩ ?_).mono ?_
    · rw [if_neg (fun hh => by omega)]
    · intro y c1 hy1 hy2 ⟨hs1, hch1⟩
      have hrow : ∀ x, chOf c1 .grid y x = B y x := by
        intro x
        rw [hch1, if_neg (fun hh => by omega), hcg, if_pos rfl]
      have hany : Scan.anyRange (fun x => do
          let ch ← chAt c1 y x .grid
          ok (ch == '─')) (b.right - b.left) b.left = ok (hasH B b y) := by
        rw [anyRange_eq (q := fun x => B y x == '─') _ _ (fun x hx1 hx2 => by
          rw [chAt_eq hs1 (by omega) (by omega), hrow]; rfl)]
        rfl
      rw [hany]
      simp only [Scan.ok_bind]
      by_cases hhas : hasH B b y = true
      · rw [if_pos hhas]
        refine (Yields_rewriteRow hs1 .grid (fun x ch => gridHorz ch x b.left b.right) (by omega)
          b.left (b.right - b.left) (fun i h1 h2 => by omega)).mono ?_
        intro c2 ⟨hs2, hch2⟩
        refine ⟨hs2, fun l' y' x' => ?_⟩
        rw [hch2]
        by_cases hat : l' = .grid ∧ y' = y ∧ b.left ≤ x' ∧ x' < b.left + (b.right - b.left)
        · obtain ⟨rfl, rfl, h3, h4⟩ := hat
          rw [if_pos ⟨rfl, rfl, h3, h4⟩, if_pos ⟨rfl, hy1, by omega, h3, by omega, hhas⟩, hrow]
        · rw [if_neg hat, hch1]
          by_cases hcond : l' = .grid ∧ b.top ≤ y' ∧ y' < y ∧ b.left ≤ x' ∧ x' < b.right ∧
              hasH B b y' = true
          · rw [if_pos hcond, if_pos ⟨hcond.1, hcond.2.1, by omega, hcond.2.2.2⟩]
          · rw [if_neg hcond, if_neg]
            intro hh
            by_cases hyy : y' = y
            · exact hat ⟨hh.1, hyy, hh.2.2.2.1, by omega⟩
            · exact hcond ⟨hh.1, hh.2.1, by omega, hh.2.2.2⟩
      · rw [if_neg hhas]
        refine Yields_ok ⟨hs1, fun l' y' x' => ?_⟩
        rw [hch1]
        by_cases hcond : l' = .grid ∧ b.top ≤ y' ∧ y' < y ∧ b.left ≤ x' ∧ x' < b.right ∧
            hasH B b y' = true
        · rw [if_pos hcond, if_pos ⟨hcond.1, hcond.2.1, by omega, hcond.2.2.2⟩]
        · rw [if_neg hcond, if_neg]
          intro hh
          by_cases hyy : y' = y
          · subst hyy; exact hhas hh.2.2.2.2.2
          · exact hcond ⟨hh.1, hh.2.1, by omega, hh.2.2.2⟩
    · intro c1 ⟨hs1, hch1⟩
      refine ⟨hs1, fun l' y' x' => ?_⟩
      rw [hch1]
      by_cases hl : l' = .grid
      · subst hl
        rw [if_pos rfl]
        unfold gridH
        by_cases hcond : b.top ≤ y' ∧ y' < b.bottom ∧ b.left ≤ x' ∧ x' < b.right ∧ hasH B b y' = true
        · rw [if_pos hcond, if_pos ⟨rfl, hcond.1, by omega, hcond.2.2⟩]
        · rw [if_neg hcond, if_neg (fun hh => hcond ⟨hh.2.1, by omega, hh.2.2.2⟩), hcg, if_pos rfl]
      · rw [if_neg hl, if_neg (fun hh => hl hh.1), hcg, if_neg hl]
  -- the vertical pass
  unfold makeGrid
  simp only
  refine Yields_bind hpass1 ?_
  intro c1 ⟨hs1, hch1⟩
  let G : Nat → Nat → Char := gridH B b
  have hG : ∀ y x, chOf c1 .grid y x = G y x := fun y x => by rw [hch1, if_pos rfl]
  refine (Yields_forRange (inv := fun i c2 => Shape c2 R W ∧ ∀ l' y' x', chOf c2 l' y' x' =
      if l' = .grid ∧ b.left ≤ x' ∧ x' < i ∧ b.top ≤ y' ∧ y' < b.bottom ∧ hasV B b x' = true then
        (gridVert (G y' x') y' b.top b.bottom).getD (G y' x')
      else chOf c1 l' y' x') (b.right - b.left) b.left c1 ⟨hs1, fun l' y' x' => ?_⟩ ?_).mono ?_
  · rw [if_neg (fun hh => by omega)]
  · intro x c2 hx1 hx2 ⟨hs2, hch2⟩
    have hcol : ∀ y, chOf c2 .grid y x = G y x := by
      intro y
      rw [hch2, if_neg (fun hh => by omega), hG]
    have hany : Scan.anyRange (fun y => do
        let ch ← chAt c2 y x .grid
        ok (ch == '│')) (b.bottom - b.top) b.top = ok (hasV B b x) := by
      rw [anyRange_eq (q := fun y => G y x == '│') _ _ (fun y hy1 hy2 => by
        rw [chAt_eq hs2 (by omega) (by omega), hcol]; rfl)]
      rfl
    rw [hany]
    simp only [Scan.ok_bind]
    by_cases hhas : hasV B b x = true
    · rw [if_pos hhas]
      refine (Yields_rewriteCol hs2 .grid (fun y ch => gridVert ch y b.top b.bottom) (by omega)
        b.top (b.bottom - b.top) (fun i h1 h2 => by omega)).mono ?_
      intro c3 ⟨hs3, hch3⟩
      refine ⟨hs3, fun l' y' x' => ?_⟩
      rw [hch3]
      by_cases hat : l' = .grid ∧ x' = x ∧ b.top ≤ y' ∧ y' < b.top + (b.bottom - b.top)
      · obtain ⟨rfl, rfl, h3, h4⟩ := hat
        rw [if_pos ⟨rfl, rfl, h3, h4⟩, if_pos ⟨rfl, hx1, by omega, h3, by omega, hhas⟩, hcol]
      · rw [if_neg hat, hch2]
        by_cases hcond : l' = .grid ∧ b.left ≤ x' ∧ x' < x ∧ b.top ≤ y' ∧ y' < b.bottom ∧
            hasV B b x' = true
        · rw [if_pos hcond, if_pos ⟨hcond.1, hcond.2.1, by omega, hcond.2.2.2⟩]
        · rw [if_neg hcond, if_neg]
          intro hh
          by_cases hxx : x' = x
          · exact hat ⟨hh.1, hxx, hh.2.2.2.1, by omega⟩
          · exact hcond ⟨hh.1, hh.2.1, by omega, hh.2.2.2⟩
    · rw [if_neg hhas]
      refine Yields_ok ⟨hs2, fun l' y' x' => ?_⟩
      rw [hch2]
      by_cases hcond : l' = .grid ∧ b.left ≤ x' ∧ x' < x ∧ b.top ≤ y' ∧ y' < b.bottom ∧
          hasV B b x' = true
      · rw [if_pos hcond, if_pos ⟨hcond.1, hcond.2.1, by omega, hcond.2.2.2⟩]
      · rw [if_neg hcond, if_neg]
        intro hh
        by_cases hxx : x' = x
        · subst hxx; exact hhas hh.2.2.2.2.2
        · exact hcond ⟨hh.1, hh.2.1, by omega, hh.2.2.2⟩
  · intro c2 ⟨hs2, hch2⟩
    refine ⟨hs2, ?_, fun y' x' => ?_⟩
    · intro l' hl' y' x'
      have hne : l' ≠ .grid := by
        simp only [List.mem_cons, List.mem_nil_iff, or_false] at hl'
        rcases hl' with rfl | rfl | rfl <;> simp
      rw [hch2, if_neg (fun hh => hne hh.1), hch1, if_neg hne]
    · rw [hch2]
      unfold gridV
      by_cases hcond : b.top ≤ y' ∧ y' < b.bottom ∧ b.left ≤ x' ∧ x' < b.right ∧ hasV B b x' = true
      · rw [if_pos hcond, if_pos ⟨rfl, hcond.2.2.1, by omega, hcond.1, hcond.2.1, hcond.2.2.2.2⟩]
      · rw [if_neg hcond, if_neg (fun hh => hcond ⟨hh.2.2.2.1, hh.2.2.2.2.1, hh.2.1, by omega,
          hh.2.2.2.2.2⟩), hG]

end Dmn.Recog
