import Dmn.Lemmas.EvalBinders

/-!
# The syntactically free names

`freeIn G a` (`Model/EvalNames.lean`): the names `a` looks up outside its own binders satisfy `G`.
-/

namespace Dmn.Iter

/-- a state that writes its variable into the iteration context in every iteration: a range, or a list
state as `add_list` creates it for a non-empty list, its index inside the list -/
def Writes (st : State) : Prop :=
  st.isRange = true ∨
    (st.step = 1 ∧ st.start = 0 ∧ 0 ≤ st.index ∧ st.index < (st.values.length : Int) ∧
      st.stop = (st.values.length : Int) - 1)

theorem writes_mkRange (n : String) (a b : Int) : Writes (mkRange n a b) := Or.inl rfl

theorem writes_mkList (n : String) (vs : List Value) (h : vs ≠ []) : Writes (mkList n vs) := by
  right
  have : 0 < vs.length := List.length_pos_iff.mpr h
  refine ⟨rfl, rfl, Int.le_refl 0, ?_, rfl⟩
  show (0 : Int) < (vs.length : Int)
  omega

theorem fill_keeps (states : List State) (ctx : Ctx) (w : Bool) (k : String)
    (h : (Ctx.get ctx k).isSome = true) : (Ctx.get (fill states ctx w).1 k).isSome = true := by
  induction states generalizing ctx w with
  | nil => simpa [fill] using h
  | cons st rest ih =>
    have hset : ∀ v, (Ctx.get (Ctx.set ctx st.name v) k).isSome = true := by
      intro v
      rw [Ctx.get_set]
      split
      · rfl
      · exact h
    unfold fill
    split
    · exact ih _ _ (hset _)
    · split
      · split
        · exact ih _ _ (hset _)
        · exact ih _ _ h
      · exact ih _ _ h

theorem fill_binds (states : List State) (ctx : Ctx) (w : Bool) (hw : ∀ st ∈ states, Writes st) :
    ∀ st ∈ states, (Ctx.get (fill states ctx w).1 st.name).isSome = true := by
  induction states generalizing ctx w with
  | nil => intro st hst; cases hst
  | cons st0 rest ih =>
    have hself : ∀ v, (Ctx.get (Ctx.set ctx st0.name v) st0.name).isSome = true := by
      intro v; rw [Ctx.get_set]; simp
    intro st hst
    have hrest := fun c w' => ih c w' (fun s hs => hw s (List.mem_cons_of_mem _ hs))
    unfold fill
    rcases hw st0 List.mem_cons_self with hr | ⟨_, _, h0, hlt, _⟩
    · rw [if_pos hr]
      rcases List.mem_cons.mp hst with rfl | hin
      · exact fill_keeps _ _ _ _ (hself _)
      · exact hrest _ _ st hin
    · by_cases hr : st0.isRange = true
      · rw [if_pos hr]
        rcases List.mem_cons.mp hst with rfl | hin
        · exact fill_keeps _ _ _ _ (hself _)
        · exact hrest _ _ st hin
      · rw [if_neg hr]
        have hidx : st0.index.toNat < st0.values.length := by omega
        have hsome : st0.values[st0.index.toNat]? = some st0.values[st0.index.toNat] := by
          simp [hidx]
        rw [hsome]
        simp only [ge_iff_le, h0, if_true]
        rcases List.mem_cons.mp hst with rfl | hin
        · exact fill_keeps _ _ _ _ (hself _)
        · exact hrest _ _ st hin

/-- the state after one `advance` step: the index moved inside the domain or was reset to the start -/
theorem writes_step (st : State) (hw : Writes st) (idx : Int)
    (h : idx = st.start ∨ (idx = st.index + st.step ∧ (st.step > 0 → idx ≤ st.stop))) :
    Writes { st with index := idx } := by
  rcases hw with hr | ⟨h1, h2, h3, h4, h5⟩
  · exact Or.inl hr
  · right
    refine ⟨h1, h2, ?_, ?_, h5⟩
    · show 0 ≤ idx
      rcases h with h | ⟨h, _⟩ <;> omega
    · show idx < (st.values.length : Int)
      rcases h with h | ⟨h, hle⟩
      · omega
      · have := hle (by omega)
        omega

theorem advance_writes : ∀ (states : List State) (ov : Bool) (states' : List State),
    (∀ st ∈ states, Writes st) → advance states ov = .next states' →
    (∀ st ∈ states', Writes st) ∧ states'.map (fun s => s.name) = states.map (fun s => s.name)
  | [], ov, states', _, h => by
    simp only [advance, Step.next.injEq] at h
    subst h
    exact ⟨fun _ h => (by cases h), rfl⟩
  | st :: rest, ov, states', hw, h => by
    unfold advance at h
    cases ov with
    | false =>
      simp only [Bool.not_false, if_true, Step.next.injEq] at h
      subst h
      exact ⟨hw, rfl⟩
    | true =>
      simp only [Bool.not_true, Bool.false_eq_true, if_false] at h
      have key : ∀ (idx : Int) (b : Bool) (rest' : List State),
          (idx = st.start ∨ (idx = st.index + st.step ∧ (st.step > 0 → idx ≤ st.stop))) →
          advance rest b = .next rest' → states' = { st with index := idx } :: rest' →
          (∀ s ∈ states', Writes s) ∧ states'.map (fun s => s.name) = (st :: rest).map (fun s => s.name) := by
        intro idx b rest' hidx hadv he
        subst he
        obtain ⟨hw', hn'⟩ := advance_writes rest b rest' (fun s hs => hw s (List.mem_cons_of_mem _ hs)) hadv
        refine ⟨?_, by simp only [List.map_cons, hn']⟩
        intro s hs
        rcases List.mem_cons.mp hs with rfl | hin
        · exact writes_step st (hw st List.mem_cons_self) idx hidx
        · exact hw' s hin
      cases hn : addChecked st.index st.step with
      | none =>
        rw [hn] at h
        simp only at h
        split at h
        · cases h
        · split at h
          · cases h
          · split at h
            · cases h
            · split at h
              · rename_i rest' hadv
                simp only [Step.next.injEq] at h
                exact key st.start _ rest' (Or.inl rfl) hadv h.symm
              · cases h
      | some n =>
        have hnv : n = st.index + st.step := by
          unfold addChecked at hn
          simp only at hn
          split at hn
          · exact (Option.some.inj hn).symm
          · cases hn
        rw [hn] at h
        simp only at h
        split at h
        · cases h
        · split at h
          · cases h
          · split at h
            · cases h
            · split at h
              · rename_i rest' hadv
                simp only [Step.next.injEq] at h
                by_cases hfits : (if st.step > 0 then !decide (n > st.stop) else !decide (n < st.stop)) = true
                · rw [if_pos hfits] at h
                  refine key n _ rest' (Or.inr ⟨hnv, ?_⟩) hadv h.symm
                  intro hpos
                  rw [if_pos hpos] at hfits
                  simpa using hfits
                · rw [if_neg hfits] at h
                  exact key st.start _ rest' (Or.inl rfl) hadv h.symm
              · cases h

/-- every context the loop hands out binds every variable of the states -/
theorem loop_binds (N : List String) : ∀ (fuel : Nat) (states : List State) (ctx : Ctx) (acc out : List Ctx),
    (∀ st ∈ states, Writes st) → (∀ k ∈ N, k ∈ states.map (fun s => s.name)) →
    (∀ c ∈ acc, ∀ k ∈ N, (Ctx.get c k).isSome = true) →
    loop fuel states ctx acc = .ok out → ∀ c ∈ out, ∀ k ∈ N, (Ctx.get c k).isSome = true
  | 0, _, _, _, _, _, _, _, h => by simp [loop] at h
  | fuel + 1, states, ctx, acc, out, hw, hN, hacc, h => by
    unfold loop at h
    simp only at h
    have hfill : ∀ k ∈ N, (Ctx.get (fill states.reverse ctx false).1 k).isSome = true := by
      intro k hk
      obtain ⟨st, hst, rfl⟩ := List.mem_map.mp (hN k hk)
      exact fill_binds states.reverse ctx false (fun s hs => hw s (List.mem_reverse.mp hs)) st
        (List.mem_reverse.mpr hst)
    have hacc' : ∀ c ∈ (if (fill states.reverse ctx false).2 = true then (fill states.reverse ctx false).1 :: acc else acc),
        ∀ k ∈ N, (Ctx.get c k).isSome = true := by
      intro c hc
      split at hc
      · rcases List.mem_cons.mp hc with rfl | hin
        · exact hfill
        · exact hacc c hin
      · exact hacc c hc
    split at h
    · simp only [Outcome.ok.injEq] at h
      subst h
      intro c hc
      exact hacc' c (List.mem_reverse.mp hc)
    · rename_i states' hadv
      obtain ⟨hw', hn'⟩ := advance_writes states true states' hw hadv
      exact loop_binds N fuel states' _ _ out hw' (by rw [hn']; exact hN) hacc' h

/-- **Every iteration context `FeelIterator::run` hands out binds every variable**, whatever the number and
size of the domains, as long as every state writes (`Writes`: a range, a non-empty list). -/
theorem run_binds (states : List State) (cs : List Ctx) (hw : ∀ st ∈ states, Writes st)
    (h : run states = .ok cs) : ∀ c ∈ cs, ∀ st ∈ states, (Ctx.get c st.name).isSome = true := by
  unfold run at h
  split at h
  · simp only [Outcome.ok.injEq] at h
    subst h
    intro c hc; cases hc
  · intro c hc st hst
    exact loop_binds (states.map (fun s => s.name)) _ states.reverse [] [] cs
      (fun s hs => hw s (List.mem_reverse.mp hs))
      (fun k hk => by
        obtain ⟨s, hs, rfl⟩ := List.mem_map.mp hk
        exact List.mem_map.mpr ⟨s, List.mem_reverse.mpr hs, rfl⟩)
      (fun c hc => by cases hc) h c hc st.name (List.mem_map.mpr ⟨st, hst, rfl⟩)

end Dmn.Iter

namespace Dmn.Eval
open EvalM

theorem bind_ok_inv {α β : Type} {m : EvalM α} {f : α → EvalM β} {s : Scope} {r : β × Scope}
    (h : (m >>= f) s = .ok r) : ∃ a s1, m s = .ok (a, s1) ∧ f a s1 = .ok r := by
  rw [bind_def] at h
  cases hm : m s with
  | ok p => obtain ⟨a, s1⟩ := p; rw [hm] at h; exact ⟨a, s1, rfl, h⟩
  | panic p => rw [hm] at h; cases h
  | diverge => rw [hm] at h; cases h

theorem cons_states_inv (x : Nat × Iter.State) (d : IterDomains) (sts : List (Nat × Iter.State))
    (h : d.cons x = .states sts) : ∃ l, d = .states l ∧ sts = x :: l := by
  cases d with
  | states l => simp only [IterDomains.cons, IterDomains.states.injEq] at h; exact ⟨l, rfl, h.symm⟩
  | empty => cases h
  | notIterable => cases h

theorem listOf_ne_nil (v : Value) (h : v ≠ .list []) : listOf v ≠ [] := by
  unfold listOf
  split
  · rename_i vs; intro e; subst e; exact h rfl
  · simp

/-- the states `build_for` adds: one per declared variable, each writing its variable in every iteration -/
theorem evalIteration_states (env : Env) : ∀ (items : List Ast) (pos : Nat) (s : Scope)
    (sts : List (Nat × Iter.State)) (t : Scope), evalIteration env items pos s = .ok (.states sts, t) →
    (∀ x ∈ sts, Iter.Writes x.2) ∧ (∀ n ∈ iterVars items, n ∈ sts.map (fun x => x.2.name))
  | [], pos, s, sts, t, h => by
    simp only [evalIteration, pure_def, Outcome.ok.injEq, Prod.mk.injEq, IterDomains.states.injEq] at h
    obtain ⟨h, _⟩ := h
    subst h
    exact ⟨fun _ h => (by cases h), fun _ h => (by simp [iterVars] at h)⟩
  | item :: items, pos, s, sts, t, h => by
    cases item with
    | iterationContextSingle nm e =>
      cases nm with
      | name n =>
        simp only [evalIteration] at h
        obtain ⟨v, s1, _, h⟩ := bind_ok_inv h
        split at h
        · simp [pure_def] at h
        · simp [pure_def] at h
        · rename_i hnull hnil
          obtain ⟨rest, s2, hrest, h⟩ := bind_ok_inv h
          simp only [pure_def, Outcome.ok.injEq, Prod.mk.injEq] at h
          obtain ⟨l, hl, he⟩ := cons_states_inv _ _ _ h.1
          subst hl; subst he
          obtain ⟨ih1, ih2⟩ := evalIteration_states env items _ _ _ _ hrest
          refine ⟨?_, ?_⟩
          · intro x hx
            rcases List.mem_cons.mp hx with rfl | hin
            · exact Iter.writes_mkList _ _ (listOf_ne_nil v (fun e => hnil (by rw [e])))
            · exact ih1 x hin
          · intro k hk
            simp only [iterVars, List.mem_cons] at hk
            simp only [List.map_cons, List.mem_cons]
            rcases hk with rfl | hk
            · exact Or.inl rfl
            · exact Or.inr (ih2 k hk)
      | _ =>
        simp only [evalIteration] at h
        simpa only [iterVars] using evalIteration_states env items _ _ _ _ h
    | iterationContextRange nm lo hi =>
      cases nm with
      | name n =>
        simp only [evalIteration] at h
        obtain ⟨a, s1, _, h⟩ := bind_ok_inv h
        obtain ⟨b, s2, _, h⟩ := bind_ok_inv h
        cases hst : rangeState n a b with
        | none => rw [hst] at h; simp [pure_def] at h
        | some st =>
          rw [hst] at h
          simp only at h
          obtain ⟨rest, s3, hrest, h⟩ := bind_ok_inv h
          simp only [pure_def, Outcome.ok.injEq, Prod.mk.injEq] at h
          obtain ⟨l, hl, he⟩ := cons_states_inv _ _ _ h.1
          subst hl; subst he
          obtain ⟨ih1, ih2⟩ := evalIteration_states env items _ _ _ _ hrest
          have hst' : st.isRange = true ∧ st.name = n := by
            unfold rangeState at hst
            split at hst
            · split at hst
              · simp only [Option.some.injEq] at hst
                subst hst
                exact ⟨rfl, rfl⟩
              · cases hst
            · cases hst
          refine ⟨?_, ?_⟩
          · intro x hx
            rcases List.mem_cons.mp hx with rfl | hin
            · exact Or.inl hst'.1
            · exact ih1 x hin
          · intro k hk
            simp only [iterVars, List.mem_cons] at hk
            simp only [List.map_cons, List.mem_cons]
            rcases hk with rfl | hk
            · exact Or.inl hst'.2.symm
            · exact Or.inr (ih2 k hk)
      | _ =>
        simp only [evalIteration] at h
        simpa only [iterVars] using evalIteration_states env items _ _ _ _ h
    | _ =>
      simp only [evalIteration] at h
      simpa only [iterVars] using evalIteration_states env items _ _ _ _ h

theorem evalQuantified_states (env : Env) : ∀ (items : List Ast) (pos : Nat) (s : Scope)
    (sts : List (Nat × Iter.State)) (t : Scope), evalQuantified env items pos s = .ok (.states sts, t) →
    (∀ x ∈ sts, Iter.Writes x.2) ∧ (∀ n ∈ quantVars items, n ∈ sts.map (fun x => x.2.name))
  | [], pos, s, sts, t, h => by
    simp only [evalQuantified, pure_def, Outcome.ok.injEq, Prod.mk.injEq, IterDomains.states.injEq] at h
    obtain ⟨h, _⟩ := h
    subst h
    exact ⟨fun _ h => (by cases h), fun _ h => (by simp [quantVars] at h)⟩
  | item :: items, pos, s, sts, t, h => by
    cases item with
    | quantifiedContext nm e =>
      cases nm with
      | name n =>
        simp only [evalQuantified] at h
        obtain ⟨v, s1, _, h⟩ := bind_ok_inv h
        split at h
        · simp [pure_def] at h
        · simp [pure_def] at h
        · rename_i hnull hnil
          obtain ⟨rest, s2, hrest, h⟩ := bind_ok_inv h
          simp only [pure_def, Outcome.ok.injEq, Prod.mk.injEq] at h
          obtain ⟨l, hl, he⟩ := cons_states_inv _ _ _ h.1
          subst hl; subst he
          obtain ⟨ih1, ih2⟩ := evalQuantified_states env items _ _ _ _ hrest
          refine ⟨?_, ?_⟩
          · intro x hx
            rcases List.mem_cons.mp hx with rfl | hin
            · exact Iter.writes_mkList _ _ (listOf_ne_nil v (fun e => hnil (by rw [e])))
            · exact ih1 x hin
          · intro k hk
            simp only [quantVars, List.mem_cons] at hk
            simp only [List.map_cons, List.mem_cons]
            rcases hk with rfl | hk
            · exact Or.inl rfl
            · exact Or.inr (ih2 k hk)
      | _ =>
        simp only [evalQuantified] at h
        simpa only [quantVars] using evalQuantified_states env items _ _ _ _ h
    | _ =>
      simp only [evalQuantified] at h
      simpa only [quantVars] using evalQuantified_states env items _ _ _ _ h


/-! ## sequencing, brackets and invocations under a varying name set -/

theorem sa_pure {G : String → Bool} {α : Type} (a : α) : SameOnAgree G (pure a : EvalM α) (pure a) :=
  ⟨pres_pure a, pres_pure a, fun _ _ _ => rfl⟩

theorem sa_lift {G : String → Bool} {α : Type} (o : Outcome α) : SameOnAgree G (lift o) (lift o) :=
  (freeRel G).lift o

/-- `sameOnAgree_bind`, the continuation needed only at the values the first computation can return -/
theorem sameOnAgree_bind_ret {G : String → Bool} {α β : Type} {m : EvalM α} {f f' : α → EvalM β}
    (hm : SameOnAgree G m m) (hf : ∀ a, (∃ s t, m s = .ok (a, t)) → SameOnAgree G (f a) (f' a)) :
    SameOnAgree G (m >>= f) (m >>= f') := by
  refine ⟨?_, ?_, ?_⟩
  · intro s b t h
    obtain ⟨a, s1, h1, h2⟩ := bind_ok_inv h
    have e1 := hm.1 s a s1 h1
    subst e1
    exact (hf a ⟨_, _, h1⟩).1 _ _ _ h2
  · intro s b t h
    obtain ⟨a, s1, h1, h2⟩ := bind_ok_inv h
    have e1 := hm.1 s a s1 h1
    subst e1
    exact (hf a ⟨_, _, h1⟩).2.1 _ _ _ h2
  · intro s s' hS
    have h := hm.2.2 s s' hS
    rw [bind_def, bind_def]
    cases h1 : m s with
    | ok r =>
      obtain ⟨a, t⟩ := r
      have e1 : t = s := hm.1 _ _ _ h1
      subst e1
      rw [h1] at h
      cases h2 : m s' with
      | ok r' =>
        obtain ⟨a', t'⟩ := r'
        have e2 : t' = s' := hm.2.1 _ _ _ h2
        subst e2
        rw [h2] at h
        simp only [Outcome.map, Outcome.ok.injEq] at h
        subst h
        exact (hf a ⟨_, _, h1⟩).2.2 t t' hS
      | panic p => rw [h2] at h; simp [Outcome.map] at h
      | diverge => rw [h2] at h; simp [Outcome.map] at h
    | panic p =>
      rw [h1] at h
      cases h2 : m s' with
      | ok r' => rw [h2] at h; simp [Outcome.map] at h
      | panic p' => rw [h2] at h; simpa [Outcome.map] using h
      | diverge => rw [h2] at h; simp [Outcome.map] at h
    | diverge =>
      rw [h1] at h
      cases h2 : m s' with
      | ok r' => rw [h2] at h; simp [Outcome.map] at h
      | panic p' => rw [h2] at h; simp [Outcome.map] at h
      | diverge => rfl

/-- `sameOnAgree_pushPop` for a computation that is known at the pushed context only -/
theorem sameOnAgree_pushPop_at {G : String → Bool} {α β : Type} {m : EvalM α} (c : Ctx) (g : α → β)
    (ht : TopOnly m)
    (hm : ∀ s s', AgreeOn G s s' → (m (s ++ [c])).map topOf = (m (s' ++ [c])).map topOf) :
    SameOnAgree G (do EvalM.push c; let r ← m; EvalM.pop; Pure.pure (g r))
      (do EvalM.push c; let r ← m; EvalM.pop; Pure.pure (g r)) := by
  refine ⟨pres_pushPop c ht g, pres_pushPop c ht g, ?_⟩
  intro s s' hS
  have h := hm s s' hS
  simp only [bind_def, push, pop, pure_def, Scope.push]
  cases h1 : m (s ++ [c]) with
  | ok r =>
    obtain ⟨a, t⟩ := r
    rw [h1] at h
    cases h2 : m (s' ++ [c]) with
    | ok r' =>
      obtain ⟨a', t'⟩ := r'
      rw [h2] at h
      simp only [Outcome.map, topOf, Outcome.ok.injEq, Prod.mk.injEq] at h
      simp only [Outcome.map, h.1]
    | panic p => rw [h2] at h; simp [Outcome.map] at h
    | diverge => rw [h2] at h; simp [Outcome.map] at h
  | panic p =>
    rw [h1] at h
    cases h2 : m (s' ++ [c]) with
    | ok r' => rw [h2] at h; simp [Outcome.map] at h
    | panic p' => rw [h2] at h; simpa [Outcome.map] using h
    | diverge => rw [h2] at h; simp [Outcome.map] at h
  | diverge =>
    rw [h1] at h
    cases h2 : m (s' ++ [c]) with
    | ok r' => rw [h2] at h; simp [Outcome.map] at h
    | panic p' => rw [h2] at h; simp [Outcome.map] at h
    | diverge => rfl

/-- What the sharper free-names statement needs of the function-body evaluator: inside the bracket of the
argument context (the only place the evaluator calls it, `callFunction`) the outcome depends on the names in
`G` only — for every `G` that contains `G0`. -/
def CallOk (G0 : String → Bool) (env : Env) : Prop :=
  ∀ G : String → Bool, (∀ k, G0 k = true → G k = true) → ∀ (args : Ctx) (b : Ast),
    SameOnAgree G (bracket args (env.call b)) (bracket args (env.call b))

/-- What it needs of the iteration engine: every context handed out binds the variable of every state that
writes in every iteration. -/
def IterBinds (env : Env) : Prop :=
  ∀ sts cs, (∀ x ∈ sts, Iter.Writes x.2) → env.iter sts = .ok cs →
    ∀ c ∈ cs, ∀ x ∈ sts, (Ctx.get c x.2.name).isSome = true

section invoke
variable {G : String → Bool} (env : Env)
  (hcG : ∀ (args : Ctx) (b : Ast), SameOnAgree G (bracket args (env.call b)) (bracket args (env.call b)))
include hcG

theorem b_callFunction (args : Ctx) (body : Ast) (rt : FType) :
    SameOnAgree G (callFunction env args body rt) (callFunction env args body rt) := by
  unfold callFunction
  exact sameOnAgree_bind (hcG args body) (fun _ => sa_pure _)

theorem b_invokePositional (f : Value) (args : List Value) :
    SameOnAgree G (invokePositional env f args) (invokePositional env f args) := by
  unfold invokePositional
  split
  · exact sa_lift _
  · split
    · exact sa_pure _
    · split
      · exact b_callFunction env hcG _ _ _
      · exact sa_pure _
  · exact sa_pure _

theorem b_invokeNamed (f : Value) (args : Value) :
    SameOnAgree G (invokeNamed env f args) (invokeNamed env f args) := by
  unfold invokeNamed
  split
  · split
    · exact sa_lift _
    · exact sa_pure _
  · split
    · split
      · exact sa_pure _
      · split
        · exact b_callFunction env hcG _ _ _
        · exact sa_pure _
    · exact b_callFunction env hcG _ _ _
  · exact sa_pure _

end invoke

/-- the value of an entry whose key can be read off the tree is an entry under that key -/
theorem entryKey_value (env : Env) (e : Ast) (n : String) (s t : Scope) (v : Value)
    (hk : entryKey e = some n) (h : evalStep env e s = .ok (v, t)) : ∃ r, v = .ctxEntry n r := by
  unfold entryKey at hk
  split at hk
  · rename_i n' vx
    simp only [Option.some.injEq] at hk
    subst hk
    simp only [evalStep] at h
    obtain ⟨l, s1, h1, h⟩ := bind_ok_inv h
    obtain ⟨r, s2, _, h⟩ := bind_ok_inv h
    simp only [pure_def, Outcome.ok.injEq, Prod.mk.injEq] at h1 h
    rw [← h1.1] at h
    exact ⟨r, by rw [← h.1]; rfl⟩
  · cases hk

theorem withKeys_set (G : String → Bool) (c : Ctx) (k : String) (val : Value) (k' : String)
    (h : withKeys G c k' = true ∨ k' = k) : withKeys G (Ctx.set c k val) k' = true := by
  simp only [withKeys, Bool.or_eq_true, Ctx.get_set] at h ⊢
  rcases h with (h | h) | h
  · exact Or.inl h
  · right; split
    · rfl
    · exact h
  · right; rw [if_pos h.symm]; rfl


/-! ## the induction over all trees -/

/-- One proof step for a node: peel binds, close leaves, split matches. -/
local macro "b_step" : tactic =>
  `(tactic| first
    | exact sa_pure _
    | assumption
    | apply sameOnAgree_bind
    | split
    | intro _)

mutual
/-- The closure built for a syntax tree whose syntactically free names are in `G` has the same outcome in
scopes that agree on `G`. -/
theorem b_evalStep (G0 : String → Bool) (env : Env) (hc : CallOk G0 env) (hi : IterBinds env) :
    (a : Ast) → (G : String → Bool) → (∀ k, G0 k = true → G k = true) → freeIn G a = true →
      SameOnAgree G (evalStep env a) (evalStep env a)
  | .add a b | .and a b | .contextEntry a b | .contextTypeEntry a b | .div a b | .eq a b | .exp a b
  | .formalParameter a b | .functionDefinition a b | .functionType a b | .ge a b | .gt a b | .in a b
  | .instanceOf a b | .le a b | .lt a b | .mul a b | .nq a b | .or a b | .range a b | .sub a b => by
    intro G hG hn
    simp only [freeIn, Bool.and_eq_true] at hn
    have ha := b_evalStep G0 env hc hi a G hG hn.1
    have hb := b_evalStep G0 env hc hi b G hG hn.2
    simp only [evalStep]
    repeat b_step
  | .out a b => by
    intro G hG hn
    simp only [freeIn, Bool.and_eq_true] at hn
    have ha := b_evalStep G0 env hc hi a G hG hn.1
    have hb := b_evalStep G0 env hc hi b G hG hn.2
    simp only [evalStep]
    repeat b_step
  | .between a b c => by
    intro G hG hn
    simp only [freeIn, Bool.and_eq_true] at hn
    have ha := b_evalStep G0 env hc hi a G hG hn.1.1
    have hb := b_evalStep G0 env hc hi b G hG hn.1.2
    have hd := b_evalStep G0 env hc hi c G hG hn.2
    simp only [evalStep]
    repeat b_step
  | .if a b c => by
    intro G hG hn
    simp only [freeIn, Bool.and_eq_true] at hn
    have ha := b_evalStep G0 env hc hi a G hG hn.1.1
    have hb := b_evalStep G0 env hc hi b G hG hn.1.2
    have hd := b_evalStep G0 env hc hi c G hG hn.2
    simp only [evalStep]
    repeat b_step
  | .evaluatedExpression a => by
    intro G hG hn
    simp only [freeIn] at hn
    simp only [evalStep]; exact b_evalStep G0 env hc hi a G hG hn
  | .intervalEnd a _ | .intervalStart a _ | .listType a | .neg a | .rangeType a | .unaryGe a
  | .unaryGt a | .unaryLe a | .unaryLt a => by
    intro G hG hn
    simp only [freeIn] at hn
    have ha := b_evalStep G0 env hc hi a G hG hn
    simp only [evalStep]
    repeat b_step
  | .contextType xs | .expressionList xs | .formalParameters xs | .list xs | .namedParameters xs
  | .negatedList xs | .parameterTypes xs => by
    intro G hG hn
    simp only [freeIn] at hn
    have hx := b_evalList G0 env hc hi xs G hG hn
    simp only [evalStep]
    repeat b_step
  | .qualifiedName xs => by
    intro G hG hn
    simp only [freeIn] at hn
    rcases qnIn_cases xs hn with h0 | ⟨n, rest, hg, h0⟩
    · have h1 := evalStep_qualifiedName env []
      simp only [List.map_nil] at h1
      rw [h0, h1]
      exact (freeRel G).searchDeepNil
    · rw [h0, evalStep_qualifiedName env (n :: rest)]
      exact (freeRel G).searchDeep n rest hg
  | .context es => by
    intro G hG hn
    simp only [freeIn] at hn
    simp only [evalStep]
    exact sameOnAgree_pushPop_at [] ctxResult (bt_evalContextEntries G0 env hc hi es [] G hG hn)
      (b_evalContextEntries G0 env hc hi es [] [] G G hG (fun k hk => by simp [withKeys, hk]) hn)
  | .filter a b => by
    intro G hG hn
    simp only [freeIn, Bool.and_eq_true] at hn
    have ha := b_evalStep G0 env hc hi a G hG hn.1
    have hb := b_evalStep G0 env hc hi b G hG hn.2
    have hf : ∀ vs, SameOnAgree G (filterLoop (evalStep env b) vs) (filterLoop (evalStep env b) vs) :=
      fun vs => g_filterLoop (freeRel G) hb vs
    have hs : ∀ v, SameOnAgree G (itemScoped (evalStep env b) v) (itemScoped (evalStep env b) v) :=
      fun v => g_itemScoped (freeRel G) hb v
    simp only [evalStep]
    apply sameOnAgree_bind ha
    intro l
    split
    · apply sameOnAgree_bind (hf _)
      intro _
      apply sameOnAgree_bind hb
      intro r
      split <;> exact sa_pure _
    · split
      · exact sameOnAgree_bind (hs _) (fun _ => sa_pure _)
      · exact sa_pure _
  | .functionBody body external => by
    intro G _ _
    simp only [evalStep]
    split <;> exact sa_pure _
  | .name n => by
    intro G hG hn
    simp only [freeIn] at hn
    simp only [evalStep]
    exact sameOnAgree_bind ((freeRel G).getEntry _ hn) (fun _ => sa_pure _)
  | .at _ | .boolean _ | .contextEntryKey _ | .contextTypeEntryKey _ | .feelType _ | .irrelevant
  | .null | .numeric .. | .parameterName _ | .qualifiedNameSegment _ | .string _ => by
    intro G _ _
    simp only [evalStep]; exact sa_pure _
  | .commaList _ | .iterationContexts _ | .iterationContextSingle .. | .iterationContextRange ..
  | .positionalParameters _ | .quantifiedContext .. | .quantifiedContexts _ | .satisfies _ => by
    intro G _ _
    simp only [evalStep]; exact sa_pure _
  | .for ctxs body => by
    cases ctxs with
    | iterationContexts items =>
      intro G hG hn
      simp only [freeIn, Bool.and_eq_true] at hn
      have hb : SameOnAgree (fun k => G k || (fun k => (iterVars items).contains k) k || k == "partial")
          (evalStep env body) (evalStep env body) :=
        b_evalStep G0 env hc hi body _ (fun k hk => by simp [hG k hk]) hn.2
      have hd := b_evalIteration G0 env hc hi items 0 G hG hn.1
      simp only [evalStep]
      refine sameOnAgree_bind_ret hd (fun states hret => ?_)
      split
      · exact sa_pure _
      · exact sa_pure _
      · rename_i sts
        obtain ⟨s0, t0, h0⟩ := hret
        obtain ⟨hw, hnames⟩ := evalIteration_states env items 0 s0 sts t0 h0
        refine sameOnAgree_lift_bind (env.iter sts) (fun cs hcs => ?_)
        refine sameOnAgree_bind (forLoop_binds (fun k => (iterVars items).contains k) hb cs ?_ []) (fun _ => sa_pure _)
        intro c hcm k hk
        have hk' : k ∈ iterVars items := by simpa using hk
        obtain ⟨x, hx, rfl⟩ := List.mem_map.mp (hnames k hk')
        exact hi sts cs hw hcs c hcm x hx
    | _ =>
      intro G hG hn
      simp only [freeIn] at hn
      have hb0 := b_evalStep G0 env hc hi body _ (fun k hk => by simp [hG k hk]) hn
      have hb : SameOnAgree (fun k => G k || (fun _ => false) k || k == "partial")
          (evalStep env body) (evalStep env body) :=
        sameOnAgree_mono (fun k hk => by simpa using hk) hb0
      simp only [evalStep]
      refine sameOnAgree_lift_bind (env.iter []) (fun cs _ => ?_)
      exact sameOnAgree_bind (forLoop_binds (fun _ => false) hb cs (fun _ _ _ hk => by cases hk) []) (fun _ => sa_pure _)
  | .every ctxs sat => by
    cases ctxs with
    | quantifiedContexts items =>
      cases sat with
      | satisfies body =>
        intro G hG hn
        simp only [freeIn, Bool.and_eq_true] at hn
        have hb : SameOnAgree (fun k => G k || (fun k => (quantVars items).contains k) k)
            (evalStep env body) (evalStep env body) :=
          b_evalStep G0 env hc hi body (orVars G (quantVars items)) (fun k hk => by simp [orVars, hG k hk]) hn.2
        have hd := b_evalQuantified G0 env hc hi items 0 G hG hn.1
        simp only [evalStep]
        refine sameOnAgree_bind_ret hd (fun states hret => ?_)
        split
        · exact sa_pure _
        · exact sa_pure _
        · rename_i sts
          obtain ⟨s0, t0, h0⟩ := hret
          obtain ⟨hw, hnames⟩ := evalQuantified_states env items 0 s0 sts t0 h0
          refine sameOnAgree_lift_bind (env.iter sts) (fun cs hcs => ?_)
          refine sameOnAgree_bind (quantLoop_binds (fun k => (quantVars items).contains k) hb false cs ?_ _) (fun _ => sa_pure _)
          intro c hcm k hk
          have hk' : k ∈ quantVars items := by simpa using hk
          obtain ⟨x, hx, rfl⟩ := List.mem_map.mp (hnames k hk')
          exact hi sts cs hw hcs c hcm x hx
      | _ => intro G _ _; simp only [evalStep]; exact sa_pure _
    | _ => intro G _ _; simp only [evalStep]; exact sa_pure _
  | .some ctxs sat => by
    cases ctxs with
    | quantifiedContexts items =>
      cases sat with
      | satisfies body =>
        intro G hG hn
        simp only [freeIn, Bool.and_eq_true] at hn
        have hb : SameOnAgree (fun k => G k || (fun k => (quantVars items).contains k) k)
            (evalStep env body) (evalStep env body) :=
          b_evalStep G0 env hc hi body (orVars G (quantVars items)) (fun k hk => by simp [orVars, hG k hk]) hn.2
        have hd := b_evalQuantified G0 env hc hi items 0 G hG hn.1
        simp only [evalStep]
        refine sameOnAgree_bind_ret hd (fun states hret => ?_)
        split
        · exact sa_pure _
        · exact sa_pure _
        · rename_i sts
          obtain ⟨s0, t0, h0⟩ := hret
          obtain ⟨hw, hnames⟩ := evalQuantified_states env items 0 s0 sts t0 h0
          refine sameOnAgree_lift_bind (env.iter sts) (fun cs hcs => ?_)
          refine sameOnAgree_bind (quantLoop_binds (fun k => (quantVars items).contains k) hb true cs ?_ _) (fun _ => sa_pure _)
          intro c hcm k hk
          have hk' : k ∈ quantVars items := by simpa using hk
          obtain ⟨x, hx, rfl⟩ := List.mem_map.mp (hnames k hk')
          exact hi sts cs hw hcs c hcm x hx
      | _ => intro G _ _; simp only [evalStep]; exact sa_pure _
    | _ => intro G _ _; simp only [evalStep]; exact sa_pure _
  | .functionInvocation f args => by
    cases args with
    | positionalParameters xs =>
      intro G hG hn
      simp only [freeIn, Bool.and_eq_true] at hn
      simp only [evalStep]
      exact sameOnAgree_bind (b_evalStep G0 env hc hi f G hG hn.1) (fun _ =>
        sameOnAgree_bind (b_evalList G0 env hc hi xs G hG hn.2) (fun _ => b_invokePositional env (hc G hG) _ _))
    | namedParameters xs =>
      intro G hG hn
      simp only [freeIn, Bool.and_eq_true] at hn
      simp only [evalStep]
      exact sameOnAgree_bind (b_evalStep G0 env hc hi f G hG hn.1) (fun _ =>
        sameOnAgree_bind (b_evalList G0 env hc hi xs G hG hn.2) (fun _ => b_invokeNamed env (hc G hG) _ _))
    | _ => intro G _ _; simp only [evalStep]; exact sa_pure _
  | .namedParameter n v => by
    cases n with
    | parameterName _ =>
      intro G hG hn
      simp only [freeIn] at hn
      simp only [evalStep]
      exact sameOnAgree_bind (b_evalStep G0 env hc hi v G hG hn) (fun _ => sa_pure _)
    | _ => intro G _ _; simp only [evalStep]; exact sa_pure _
  | .path a b => by
    cases b with
    | name _ =>
      intro G hG hn
      simp only [freeIn] at hn
      simp only [evalStep]
      exact sameOnAgree_bind (b_evalStep G0 env hc hi a G hG hn) (fun _ => sa_pure _)
    | _ => intro G _ _; simp only [evalStep]; exact sa_pure _
theorem b_evalList (G0 : String → Bool) (env : Env) (hc : CallOk G0 env) (hi : IterBinds env) :
    (as : List Ast) → (G : String → Bool) → (∀ k, G0 k = true → G k = true) → freeInList G as = true →
      SameOnAgree G (evalList env as) (evalList env as)
  | [] => by intro G _ _; simp only [evalList]; exact sa_pure _
  | a :: as => by
    intro G hG hn
    simp only [freeInList, Bool.and_eq_true] at hn
    simp only [evalList]
    exact sameOnAgree_bind (b_evalStep G0 env hc hi a G hG hn.1) (fun _ =>
      sameOnAgree_bind (b_evalList G0 env hc hi as G hG hn.2) (fun _ => sa_pure _))
/-- The loop of a context literal writes into the context pushed for it and nowhere else. -/
theorem bt_evalContextEntries (G0 : String → Bool) (env : Env) (hc : CallOk G0 env) (hi : IterBinds env) :
    (es : List Ast) → (acc : Ctx) → (Gc : String → Bool) → (∀ k, G0 k = true → Gc k = true) →
      freeInEntries Gc es = true → TopOnly (evalContextEntries env es acc)
  | [], acc => by intro _ _ _; simp only [evalContextEntries]; exact topOnly_pure _
  | e :: es, acc => by
    intro Gc h0 hn
    simp only [freeInEntries, Bool.and_eq_true] at hn
    have he := b_evalStep G0 env hc hi e Gc h0 hn.1
    have h0' : ∀ k, G0 k = true → orKey Gc e k = true := fun k hk => by simp [orKey, h0 k hk]
    simp only [evalContextEntries]
    apply topOnly_bind (topOnly_of_pres he.1)
    intro v
    split
    · split
      · exact topOnly_pure _
      · exact topOnly_bind (topOnly_setEntry _ _) (fun _ => bt_evalContextEntries G0 env hc hi es _ _ h0' hn.2)
    · exact bt_evalContextEntries G0 env hc hi es _ _ h0' hn.2
/-- **The rule for context entries**: in the loop of a context literal that has written the context `c` so
far, an entry may look up — beyond the names in `G` — the keys of `c` (`Gc`: names in `G` or keys of `c`), and
the entries after it its key as well. -/
theorem b_evalContextEntries (G0 : String → Bool) (env : Env) (hc : CallOk G0 env) (hi : IterBinds env) :
    (es : List Ast) → (acc c : Ctx) → (G Gc : String → Bool) → (∀ k, G0 k = true → Gc k = true) →
      (∀ k, Gc k = true → withKeys G c k = true) → freeInEntries Gc es = true →
      ∀ s s', AgreeOn G s s' →
        (evalContextEntries env es acc (s ++ [c])).map topOf = (evalContextEntries env es acc (s' ++ [c])).map topOf
  | [], acc, c => by
    intro G Gc _ _ _ s s' _
    simp [evalContextEntries, pure_def, Outcome.map, topOf]
  | e :: es, acc, c => by
    intro G Gc h0 hGc hn s s' hS
    simp only [freeInEntries, Bool.and_eq_true] at hn
    have he := b_evalStep G0 env hc hi e Gc h0 hn.1
    have h0' : ∀ k, G0 k = true → orKey Gc e k = true := fun k hk => by simp [orKey, h0 k hk]
    have hA : AgreeOn Gc (s ++ [c]) (s' ++ [c]) := fun k hk => agreeOn_push_binds hS c k (hGc k hk)
    have hv := he.2.2 _ _ hA
    simp only [evalContextEntries, bind_def]
    cases h1 : evalStep env e (s ++ [c]) with
    | ok r =>
      obtain ⟨v, t⟩ := r
      have e1 : t = s ++ [c] := he.1 _ _ _ h1
      subst e1
      rw [h1] at hv
      cases h2 : evalStep env e (s' ++ [c]) with
      | ok r' =>
        obtain ⟨v', t'⟩ := r'
        have e2 : t' = s' ++ [c] := he.2.1 _ _ _ h2
        subst e2
        rw [h2] at hv
        simp only [Outcome.map, Outcome.ok.injEq] at hv
        subst hv
        simp only []
        have hkey : ∀ n, entryKey e = some n → ∃ r, v = .ctxEntry n r :=
          fun n hk => entryKey_value env e n _ _ v hk h1
        split
        · rename_i k val
          split
          · simp [pure_def, Outcome.map, topOf]
          · simp only [bind_def, setEntry, setEntry_append]
            refine b_evalContextEntries G0 env hc hi es _ (Ctx.set c k val) G (orKey Gc e) h0' ?_ hn.2 s s' hS
            intro k' hk'
            simp only [orKey, Bool.or_eq_true, beq_iff_eq] at hk'
            apply withKeys_set
            rcases hk' with hk' | hk'
            · exact Or.inl (hGc k' hk')
            · obtain ⟨r, hr⟩ := hkey k' hk'
              simp only [Value.ctxEntry.injEq] at hr
              exact Or.inr hr.1.symm
        · rename_i hne
          refine b_evalContextEntries G0 env hc hi es _ c G (orKey Gc e) h0' ?_ hn.2 s s' hS
          intro k' hk'
          simp only [orKey, Bool.or_eq_true, beq_iff_eq] at hk'
          rcases hk' with hk' | hk'
          · exact hGc k' hk'
          · obtain ⟨r, hr⟩ := hkey k' hk'
            exact absurd hr (hne k' r)
      | panic p => rw [h2] at hv; simp [Outcome.map] at hv
      | diverge => rw [h2] at hv; simp [Outcome.map] at hv
    | panic p =>
      rw [h1] at hv
      cases h2 : evalStep env e (s' ++ [c]) with
      | ok r' => rw [h2] at hv; simp [Outcome.map] at hv
      | panic p' => rw [h2] at hv; simpa [Outcome.map] using hv
      | diverge => rw [h2] at hv; simp [Outcome.map] at hv
    | diverge =>
      rw [h1] at hv
      cases h2 : evalStep env e (s' ++ [c]) with
      | ok r' => rw [h2] at hv; simp [Outcome.map] at hv
      | panic p' => rw [h2] at hv; simp [Outcome.map] at hv
      | diverge => rfl
theorem b_evalQuantified (G0 : String → Bool) (env : Env) (hc : CallOk G0 env) (hi : IterBinds env) :
    (items : List Ast) → (pos : Nat) → (G : String → Bool) → (∀ k, G0 k = true → G k = true) →
      freeInQuantified G items = true →
      SameOnAgree G (evalQuantified env items pos) (evalQuantified env items pos)
  | [], pos => by intro G _ _; simp only [evalQuantified]; exact sa_pure _
  | item :: items, pos => by
    cases item with
    | quantifiedContext nm e =>
      cases nm with
      | name n =>
        intro G hG hn
        simp only [freeInQuantified, Bool.and_eq_true] at hn
        simp only [evalQuantified]
        apply sameOnAgree_bind (b_evalStep G0 env hc hi e G hG hn.1)
        intro v
        split
        · exact sa_pure _
        · exact sa_pure _
        · exact sameOnAgree_bind (b_evalQuantified G0 env hc hi items _ G hG hn.2) (fun _ => sa_pure _)
      | _ =>
        intro G hG hn
        simp only [freeInQuantified, Bool.and_eq_true] at hn
        simp only [evalQuantified]; exact b_evalQuantified G0 env hc hi items _ G hG hn.2
    | _ =>
      intro G hG hn
      simp only [freeInQuantified, Bool.and_eq_true] at hn
      simp only [evalQuantified]; exact b_evalQuantified G0 env hc hi items _ G hG hn.2
theorem b_evalIteration (G0 : String → Bool) (env : Env) (hc : CallOk G0 env) (hi : IterBinds env) :
    (items : List Ast) → (pos : Nat) → (G : String → Bool) → (∀ k, G0 k = true → G k = true) →
      freeInIteration G items = true →
      SameOnAgree G (evalIteration env items pos) (evalIteration env items pos)
  | [], pos => by intro G _ _; simp only [evalIteration]; exact sa_pure _
  | item :: items, pos => by
    cases item with
    | iterationContextSingle nm e =>
      cases nm with
      | name n =>
        intro G hG hn
        simp only [freeInIteration, Bool.and_eq_true] at hn
        simp only [evalIteration]
        apply sameOnAgree_bind (b_evalStep G0 env hc hi e G hG hn.1)
        intro v
        split
        · exact sa_pure _
        · exact sa_pure _
        · exact sameOnAgree_bind (b_evalIteration G0 env hc hi items _ G hG hn.2) (fun _ => sa_pure _)
      | _ =>
        intro G hG hn
        simp only [freeInIteration, Bool.and_eq_true] at hn
        simp only [evalIteration]; exact b_evalIteration G0 env hc hi items _ G hG hn.2
    | iterationContextRange nm lo hi' =>
      cases nm with
      | name n =>
        intro G hG hn
        simp only [freeInIteration, Bool.and_eq_true] at hn
        simp only [evalIteration]
        refine sameOnAgree_bind (b_evalStep G0 env hc hi lo G hG hn.1.1) (fun _ =>
          sameOnAgree_bind (b_evalStep G0 env hc hi hi' G hG hn.1.2) (fun _ => ?_))
        split
        · exact sa_pure _
        · exact sameOnAgree_bind (b_evalIteration G0 env hc hi items _ G hG hn.2) (fun _ => sa_pure _)
      | _ =>
        intro G hG hn
        simp only [freeInIteration, Bool.and_eq_true] at hn
        simp only [evalIteration]; exact b_evalIteration G0 env hc hi items _ G hG hn.2
    | _ =>
      intro G hG hn
      simp only [freeInIteration, Bool.and_eq_true] at hn
      simp only [evalIteration]; exact b_evalIteration G0 env hc hi items _ G hG hn.2
end


/-! ## the evaluator that refuses function bodies with a free name outside `G0` and the parameters -/

/-- The guard on a function body at the moment it is entered: the scope's top context is the argument context
`callFunction` has just pushed, and the body's syntactically free names are names in `G0` or parameters bound
by this invocation. -/
def guardB (G0 : String → Bool) (b : Ast) (s : Scope) : Bool :=
  freeIn (withKeys G0 (s.getLast?.getD [])) b

/-- `mkEnv`, except that a function body is evaluated only when its free names are in `G0` or bound by the
invocation (`guardB`). -/
def mkEnvB (G0 : String → Bool) (num : NumOps) (bifPos : String → List Value → Outcome Value)
    (bifNamed : String → List (String × Value × Nat) → Outcome Value) (v : Variant) : Nat → Env
  | 0 => { num, call := fun _ => diverge, bifPos, bifNamed, iter := v.iter, index := v.index }
  | fuel + 1 =>
    { num,
      call := fun b s =>
        if guardB G0 b s then evalStep (mkEnvB G0 num bifPos bifNamed v fuel) b s else .panic guardSite,
      bifPos, bifNamed, iter := v.iter, index := v.index }

/-- The model of the code with the guard on function bodies. -/
def evalB (G0 : String → Bool) (num : NumOps) (bp : String → List Value → Outcome Value)
    (bn : String → List (String × Value × Nat) → Outcome Value) (fuel : Nat) (a : Ast) : EvalM Value :=
  evalStep (mkEnvB G0 num bp bn Variant.code fuel) a

theorem mkEnvB_iter (G0 : String → Bool) (num : NumOps) (bp : String → List Value → Outcome Value)
    (bn : String → List (String × Value × Nat) → Outcome Value) (v : Variant) (n : Nat) :
    (mkEnvB G0 num bp bn v n).iter = v.iter := by cases n <;> rfl

/-- `FeelIterator::run` binds every variable in every context it hands out. -/
theorem iterBinds_code (env : Env) (h : env.iter = Variant.code.iter) : IterBinds env := by
  intro sts cs hw hrun c hc x hx
  rw [h] at hrun
  exact Iter.run_binds (sts.map Prod.snd) cs
    (fun st hst => by obtain ⟨y, hy, rfl⟩ := List.mem_map.mp hst; exact hw y hy) hrun c hc x.2
    (List.mem_map.mpr ⟨x, hx, rfl⟩)

theorem bracket_call_succ (G0 : String → Bool) (num : NumOps) (bp : String → List Value → Outcome Value)
    (bn : String → List (String × Value × Nat) → Outcome Value) (v : Variant) (n : Nat) (args : Ctx) (b : Ast) :
    bracket args ((mkEnvB G0 num bp bn v (n + 1)).call b) =
      if freeIn (withKeys G0 args) b then bracket args (evalStep (mkEnvB G0 num bp bn v n) b)
      else bracket args (EvalM.panic guardSite) := by
  by_cases h : freeIn (withKeys G0 args) b = true
  · rw [if_pos h]
    funext s
    simp only [bracket, bind_def, push, Scope.push, mkEnvB, guardB, getLast?_append_single, Option.getD_some, h, if_true]
  · rw [if_neg h]
    funext s
    simp only [bracket, bind_def, push, Scope.push, mkEnvB, guardB, getLast?_append_single, Option.getD_some, h,
      Bool.false_eq_true, if_false, EvalM.panic]

/-- Function bodies under the guard, inside the bracket of their arguments, at every fuel: the same outcome in
scopes that agree on `G`, for every `G` containing `G0`. -/
theorem callB_ok (G0 : String → Bool) (num : NumOps) (bp : String → List Value → Outcome Value)
    (bn : String → List (String × Value × Nat) → Outcome Value) (v : Variant) (hv : v.iter = Variant.code.iter) :
    ∀ n, CallOk G0 (mkEnvB G0 num bp bn v n) := by
  intro n
  induction n with
  | zero =>
    intro G _ args b
    exact g_bracket (freeRel G) args ⟨pres_diverge, pres_diverge, fun _ _ _ => rfl⟩
  | succ n ih =>
    intro G hG args b
    rw [bracket_call_succ]
    split
    · rename_i hfree
      apply sameOnAgree_bracket_binds
      have hsub : ∀ k, G0 k = true → withKeys G0 args k = true := fun k hk => by simp [withKeys, hk]
      have h := b_evalStep G0 (mkEnvB G0 num bp bn v n) ih
        (iterBinds_code _ (by rw [mkEnvB_iter, hv])) b (withKeys G0 args) hsub hfree
      refine sameOnAgree_mono ?_ h
      intro k hk
      simp only [withKeys, Bool.or_eq_true] at hk ⊢
      rcases hk with hk | hk
      · exact Or.inl (hG k hk)
      · exact Or.inr hk
    · exact g_bracket (freeRel G) args ⟨pres_panic _, pres_panic _, fun _ _ _ => rfl⟩

/-- **Under the guard the outcome depends only on the bindings of the syntactically free names**, at every fuel. -/
theorem evalB_sameOnAgree (G : String → Bool) (num : NumOps) (bp : String → List Value → Outcome Value)
    (bn : String → List (String × Value × Nat) → Outcome Value) (n : Nat) (a : Ast) (hn : freeIn G a = true) :
    SameOnAgree G (evalB G num bp bn n a) (evalB G num bp bn n a) :=
  b_evalStep G (mkEnvB G num bp bn Variant.code n) (callB_ok G num bp bn Variant.code rfl n)
    (iterBinds_code _ (mkEnvB_iter G num bp bn Variant.code n)) a G (fun _ h => h) hn

theorem mkEnvB_withCall (G0 : String → Bool) (num : NumOps) (bp : String → List Value → Outcome Value)
    (bn : String → List (String × Value × Nat) → Outcome Value) (v : Variant) (n : Nat) :
    (mkEnvB G0 num bp bn v n).withCall (mkEnv num bp bn v n).call = mkEnv num bp bn v n := by
  cases n <;> rfl

/-- The evaluator proper refines the guarded one: same function bodies, no refusal. -/
theorem call_refinesB (G0 : String → Bool) (num : NumOps) (bp : String → List Value → Outcome Value)
    (bn : String → List (String × Value × Nat) → Outcome Value) (v : Variant) :
    ∀ n b, RefinesG ((mkEnvB G0 num bp bn v n).call b) ((mkEnv num bp bn v n).call b) := by
  intro n
  induction n with
  | zero => intro b; exact refinesG_refl _
  | succ n ih =>
    intro b s
    have h := r_evalStep guardRel (mkEnvB G0 num bp bn v n) (mkEnv num bp bn v n).call ih b
    rw [mkEnvB_withCall] at h
    by_cases hb : guardB G0 b s = true
    · rcases h s with h | h
      · left; simp only [mkEnvB, hb, if_true]; exact h
      · right; simp only [mkEnvB, mkEnv, hb, if_true]; exact h
    · left
      simp only [mkEnvB, hb, Bool.false_eq_true, if_false]

theorem eval_refinesB (G0 : String → Bool) (num : NumOps) (bp : String → List Value → Outcome Value)
    (bn : String → List (String × Value × Nat) → Outcome Value) (n : Nat) (a : Ast) (s : Scope) :
    evalB G0 num bp bn n a s = .panic guardSite ∨ eval num bp bn n a s = evalB G0 num bp bn n a s := by
  have h := r_evalStep guardRel (mkEnvB G0 num bp bn Variant.code n) (mkEnv num bp bn Variant.code n).call
    (call_refinesB G0 num bp bn Variant.code n) a
  rw [mkEnvB_withCall] at h
  exact h s

/-- the per-item evaluations of a filter bind `item` and the entries of a filtered context -/
def itemKeys (G : String → Bool) (v : Value) : String → Bool :=
  fun k => G k || k == "item" || (match v with | .ctx own => (Ctx.get own k).isSome | _ => false)

/-- the brackets `build_filter` puts around the evaluation for one item -/
def itemBrackets {α : Type} (v : Value) (m : EvalM α) : EvalM α :=
  match v with
  | .ctx own =>
    if Ctx.contains own "item" then bracket own m else bracket own (bracket (Ctx.set [] "item" v) m)
  | _ => bracket (Ctx.set [] "item" v) m

theorem itemScoped_eq (pred : EvalM Value) (v : Value) : itemScoped pred v = itemBrackets v pred := by
  unfold itemScoped itemBrackets; rfl

theorem filterItem_eq (pred : EvalM Value) (v : Value) :
    filterItem pred v = itemBrackets v (do let r ← pred; Pure.pure (Value.isTrue r) : EvalM Bool) := by
  unfold filterItem itemBrackets; rfl

theorem itemBrackets_binds {G : String → Bool} {α : Type} {m m' : EvalM α} (v : Value)
    (hp : SameOnAgree (itemKeys G v) m m') : SameOnAgree G (itemBrackets v m) (itemBrackets v m') := by
  unfold itemBrackets
  have hitem : ∀ k, (Ctx.get (Ctx.set [] "item" v) k).isSome = true ↔ k = "item" := by
    intro k
    rw [Ctx.get_set]
    constructor
    · intro h
      split at h
      · rename_i e; exact e.symm
      · simp [Ctx.get] at h
    · intro h; rw [if_pos h.symm]; rfl
  split
  · rename_i own
    split
    · rename_i hcont
      apply sameOnAgree_bracket_binds
      refine sameOnAgree_mono ?_ hp
      intro k hk
      simp only [itemKeys, withKeys, Bool.or_eq_true, beq_iff_eq] at hk ⊢
      rcases hk with (hk | hk) | hk
      · exact Or.inl hk
      · right; subst hk; simpa [Ctx.contains] using hcont
      · exact Or.inr hk
    · apply sameOnAgree_bracket_binds
      apply sameOnAgree_bracket_binds
      refine sameOnAgree_mono ?_ hp
      intro k hk
      simp only [itemKeys, withKeys, Bool.or_eq_true, beq_iff_eq] at hk ⊢
      rcases hk with (hk | hk) | hk
      · exact Or.inl (Or.inl hk)
      · exact Or.inr ((hitem k).mpr hk)
      · exact Or.inl (Or.inr hk)
  · apply sameOnAgree_bracket_binds
    refine sameOnAgree_mono ?_ hp
    intro k hk
    simp only [itemKeys, withKeys, Bool.or_eq_true, beq_iff_eq] at hk ⊢
    rcases hk with (hk | hk) | hk
    · exact Or.inl hk
    · exact Or.inr ((hitem k).mpr hk)
    · cases hk

/-- **The evaluation of a filter expression for one item binds `item` and, for a context item, its entries**
(the closure `eval_for_item` of `build_filter`). -/
theorem itemScoped_binds {G : String → Bool} {pred pred' : EvalM Value} (v : Value)
    (hp : SameOnAgree (itemKeys G v) pred pred') : SameOnAgree G (itemScoped pred v) (itemScoped pred' v) := by
  rw [itemScoped_eq, itemScoped_eq]
  exact itemBrackets_binds v hp

theorem filterItem_binds {G : String → Bool} {pred pred' : EvalM Value} (v : Value)
    (hp : SameOnAgree (itemKeys G v) pred pred') : SameOnAgree G (filterItem pred v) (filterItem pred' v) := by
  have ht : SameOnAgree (itemKeys G v) (do let r ← pred; Pure.pure (Value.isTrue r) : EvalM Bool)
      (do let r ← pred'; Pure.pure (Value.isTrue r) : EvalM Bool) :=
    sameOnAgree_bind hp (fun _ => sa_pure _)
  rw [filterItem_eq, filterItem_eq]
  exact itemBrackets_binds v ht

/-- the loop of a filter over the items of a list: every item binds `item` and its own entries -/
theorem filterLoop_binds {G : String → Bool} {pred pred' : EvalM Value} (vs : List Value)
    (hp : ∀ v ∈ vs, SameOnAgree (itemKeys G v) pred pred') :
    SameOnAgree G (filterLoop pred vs) (filterLoop pred' vs) := by
  induction vs with
  | nil => exact sa_pure _
  | cons v vs ih =>
    unfold filterLoop
    exact sameOnAgree_bind (filterItem_binds v (hp v List.mem_cons_self))
      (fun _ => sameOnAgree_bind (ih (fun w hw => hp w (List.mem_cons_of_mem _ hw))) (fun _ => sa_pure _))

end Dmn.Eval
