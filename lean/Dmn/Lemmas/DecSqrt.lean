import Dmn.Lemmas.DecScale
import Mathlib.Tactic.Linarith

/-! Integer square root and the correctness of `sqrt`. -/

namespace Dmn
namespace D128

theorem isqrtAux_spec (fuel n : Nat) (h : n ≤ fuel) :
    isqrtAux fuel n * isqrtAux fuel n ≤ n ∧ n < (isqrtAux fuel n + 1) * (isqrtAux fuel n + 1) := by
  induction fuel generalizing n with
  | zero =>
    have : n = 0 := by omega
    subst this; simp [isqrtAux]
  | succ f ih =>
    unfold isqrtAux
    by_cases h2 : n < 2
    · rw [if_pos h2]
      have : n = 0 ∨ n = 1 := by omega
      rcases this with h | h <;> subst h <;> simp
    · rw [if_neg h2]
      obtain ⟨i1, i2⟩ := ih (n / 4) (by omega)
      generalize isqrtAux f (n / 4) = s at *
      simp only []
      have e1 : (2 * s) * (2 * s) = 4 * (s * s) := by ring
      have e2 : (2 * s + 1) * (2 * s + 1) = 4 * (s * s) + 4 * s + 1 := by ring
      have e3 : (2 * s + 1 + 1) * (2 * s + 1 + 1) = 4 * (s * s) + 8 * s + 4 := by ring
      have e4 : (s + 1) * (s + 1) = s * s + 2 * s + 1 := by ring
      rw [e4] at i2
      generalize s * s = S at *
      by_cases hc : (2 * s + 1) * (2 * s + 1) ≤ n
      · rw [if_pos hc]
        rw [e2] at hc
        rw [e2, e3]
        omega
      · rw [if_neg hc]
        rw [e2] at hc
        rw [e1, e2]
        omega

theorem isqrt_spec (n : Nat) : isqrt n * isqrt n ≤ n ∧ n < (isqrt n + 1) * (isqrt n + 1) :=
  isqrtAux_spec n n (Nat.le_refl n)

theorem sq_lt_sq {a b : Nat} (h : a * a < b * b) : a < b := Nat.mul_self_lt_mul_self_iff.mp h

theorem sq_le_sq {a b : Nat} (h : a ≤ b) : a * a ≤ b * b := Nat.mul_le_mul h h

/-! ### the specification at another scale -/

theorem sqrtCore_scale (X Y U t : Nat) (ht : 0 < t) :
    SqrtCore (X * (t * t)) (Y * t) (U * t) ↔ SqrtCore X Y U := by
  unfold SqrtCore
  have e1 : 2 * (Y * t) - U * t = (2 * Y - U) * t := by rw [Nat.sub_mul]; ring_nf
  have e2 : 2 * (Y * t) + U * t = (2 * Y + U) * t := by ring
  have e3 : (2 * Y - U) * t * ((2 * Y - U) * t) = ((2 * Y - U) * (2 * Y - U)) * (t * t) := by ring
  have e4 : (2 * Y + U) * t * ((2 * Y + U) * t) = ((2 * Y + U) * (2 * Y + U)) * (t * t) := by ring
  have e5 : 4 * (X * (t * t)) = (4 * X) * (t * t) := by ring
  have e6 : 2 * (Y * t) = (2 * Y) * t := by ring
  have htt : 0 < t * t := Nat.mul_pos ht ht
  rw [e1, e2, e3, e4, e5, e6, Nat.mul_le_mul_right_iff htt, Nat.mul_le_mul_right_iff htt,
    Nat.mul_le_mul_right_iff ht]

theorem hundred_pow (k : Nat) : 100 ^ k = 10 ^ k * 10 ^ k := by
  have : (100 : Nat) = 10 * 10 := by decide
  rw [this, Nat.mul_pow]

/-- `sqrt` meets its specification for every finite decimal128 -/
theorem sqrt_spec (a : D128) (hwf : WF a) : SqrtSpec a (D128.sqrt a) := by
  obtain ⟨hc34, hlo, hhi⟩ := hwf
  unfold SqrtSpec D128.sqrt
  simp only []
  by_cases hc0 : a.coeff = 0
  · rw [if_pos hc0, if_pos hc0]
  · rw [if_neg hc0, if_neg hc0]
    cases hn : a.neg with
    | true => simp
    | false =>
      simp only [Bool.false_eq_true, if_false]
      -- the radicand with an even exponent
      have hX : a.coeff * 10 ^ (a.exp - 2 * (a.exp / 2)).toNat
          = (if a.exp % 2 = 0 then a.coeff else a.coeff * 10) := by
        by_cases he : a.exp % 2 = 0
        · rw [if_pos he]
          have : (a.exp - 2 * (a.exp / 2)).toNat = 0 := by omega
          rw [this]; simp
        · rw [if_neg he]
          have : (a.exp - 2 * (a.exp / 2)).toNat = 1 := by omega
          rw [this]; simp
      have hcpos : 0 < (if a.exp % 2 = 0 then a.coeff else a.coeff * 10) := by split <;> omega
      have hclt : (if a.exp % 2 = 0 then a.coeff else a.coeff * 10) < 10 ^ 35 := by split <;> omega
      generalize (if a.exp % 2 = 0 then a.coeff else a.coeff * 10) = c' at *
      obtain ⟨s1, s2⟩ := isqrt_spec c'
      generalize isqrt c' = r0 at *
      have hr0pos : 0 < r0 := by
        by_cases h : r0 = 0
        · subst h; simp at s2; omega
        · omega
      have hr0lt : r0 < 10 ^ 18 := by
        have h36 : (10 : Nat) ^ 35 ≤ 10 ^ 18 * 10 ^ 18 := by decide
        exact sq_lt_sq (by omega)
      by_cases hex : r0 * r0 = c'
      · -- exact root: the ideal exponent
        rw [if_pos hex]
        rw [finalize_exact false r0 (a.exp / 2) (by omega) (by omega) (by omega) (by omega)]
        simp only []
        have hmin : min (a.exp / 2) (a.exp / 2) = a.exp / 2 := by omega
        have hz : (a.exp / 2 - a.exp / 2).toNat = 0 := by omega
        rw [hmin, hz, hX]
        simp only [Nat.pow_zero, Nat.mul_one]
        refine ⟨trivial, ⟨by show r0 < 10 ^ 34; omega, by show -6176 ≤ a.exp / 2; omega,
          by show a.exp / 2 ≤ 6111; omega⟩, ⟨?_, ?_, by omega⟩, Or.inl ⟨hex, trivial⟩⟩
        · have := sq_le_sq (show 2 * r0 - 1 ≤ 2 * r0 by omega)
          have e1 : 2 * r0 * (2 * r0) = 4 * (r0 * r0) := by ring
          omega
        · have e2 : (2 * r0 + 1) * (2 * r0 + 1) = 4 * (r0 * r0) + 4 * r0 + 1 := by ring
          omega
      · -- inexact: 36 digits of the root of the scaled radicand, the rest sticky
        rw [if_neg hex]
        obtain ⟨hn1, hn2, hn3⟩ := ndigits_spec r0 (by omega)
        have hnd0le : ndigits r0 ≤ 18 := ndigits_le_of_lt r0 18 hr0lt
        obtain ⟨k, hk⟩ : ∃ k, 36 - ndigits r0 = k := ⟨_, rfl⟩
        rw [hk]
        have hkk : ndigits r0 + k = 36 := by omega
        obtain ⟨t1, t2⟩ := isqrt_spec (c' * 100 ^ k)
        generalize isqrt (c' * 100 ^ k) = r at *
        have hC := hundred_pow k
        have hrlo : r0 * 10 ^ k ≤ r := by
          have h1 : (r0 * 10 ^ k) * (r0 * 10 ^ k) ≤ c' * 100 ^ k := by
            rw [hC]
            have : (r0 * 10 ^ k) * (r0 * 10 ^ k) = (r0 * r0) * (10 ^ k * 10 ^ k) := by ring
            rw [this]
            exact Nat.mul_le_mul_right _ s1
          have := sq_lt_sq (Nat.lt_of_le_of_lt h1 t2)
          omega
        have h35 : 10 ^ 35 ≤ r := by
          have h1 : 10 ^ (ndigits r0 - 1) * 10 ^ k ≤ r0 * 10 ^ k := Nat.mul_le_mul_right _ hn2
          rw [← pow10_add] at h1
          have : ndigits r0 - 1 + k = 35 := by omega
          rw [this] at h1
          omega
        have hrhi : r < 10 ^ 36 := by
          have h1 : c' * 100 ^ k < ((r0 + 1) * 10 ^ k) * ((r0 + 1) * 10 ^ k) := by
            rw [hC]
            have : ((r0 + 1) * 10 ^ k) * ((r0 + 1) * 10 ^ k) = ((r0 + 1) * (r0 + 1)) * (10 ^ k * 10 ^ k) := by ring
            rw [this]
            exact Nat.mul_lt_mul_of_pos_right s2 (Nat.mul_pos (pow10_pos k) (pow10_pos k))
          have h2 := sq_lt_sq (Nat.lt_of_le_of_lt t1 h1)
          have h3 : (r0 + 1) * 10 ^ k ≤ 10 ^ ndigits r0 * 10 ^ k := Nat.mul_le_mul_right _ (by omega)
          rw [← pow10_add, hkk] at h3
          omega
        have hndr : 35 ≤ ndigits r := by
          by_cases h : ndigits r ≤ 34
          · have := lt_of_ndigits_le r 34 h
            omega
          · omega
        have hR := finalize_rounds false r (a.exp / 2 - (k : Int)) true (2 * r + 1) 2 (by decide)
          (by omega) (by omega) (by simp; omega) (fun _ => hndr) (by omega)
        generalize finalize false r (a.exp / 2 - (k : Int)) true = R at *
        cases R with
        | nan => exact hR.elim
        | inf s =>
          exfalso
          obtain ⟨j, hj⟩ : ∃ j : Nat, eTop = (a.exp / 2 - (k : Int)) + (j : Int) :=
            ⟨(eTop - (a.exp / 2 - (k : Int))).toNat, by unfold eTop; omega⟩
          have hov := (overflows_le _ _ _ j hj).mp hR.2
          have hj3 : 3 ≤ j := by unfold eTop at hj; omega
          have h1 : 10 ^ 3 ≤ 10 ^ j := pow10_le hj3
          have h2 : (2 * 10 ^ 34 - 1) * 10 ^ 3 ≤ (2 * 10 ^ 34 - 1) * 10 ^ j := Nat.mul_le_mul_left _ h1
          generalize (2 * 10 ^ 34 - 1) * 10 ^ j = B at *
          omega
        | fin d =>
          obtain ⟨hdn, hdwf, hne⟩ := hR
          obtain ⟨hdc, hdlo, hdhi⟩ := hdwf
          simp only []
          -- the result's exponent is above the exponent the root was computed at
          have hge : a.exp / 2 - (k : Int) < d.exp := by
            by_cases h : a.exp / 2 - (k : Int) < d.exp
            · exact h
            · exfalso
              obtain ⟨j, hj⟩ : ∃ j : Nat, a.exp / 2 - (k : Int) = d.exp + (j : Int) :=
                ⟨(a.exp / 2 - (k : Int) - d.exp).toNat, by omega⟩
              have h1 := ((nearestEven_le _ _ _ d j hj).mp hne).1
              rw [absDiff_le_iff] at h1
              have h2 : 2 * r + 1 ≤ (2 * r + 1) * 10 ^ j := Nat.le_mul_of_pos_right _ (pow10_pos j)
              generalize (2 * r + 1) * 10 ^ j = Z at *
              omega
          obtain ⟨j, hj⟩ : ∃ j : Nat, d.exp = (a.exp / 2 - (k : Int)) + ((j + 1 : Nat) : Int) :=
            ⟨(d.exp - (a.exp / 2 - (k : Int))).toNat - 1, by omega⟩
          obtain ⟨n1, _, n3, _⟩ := (nearestEven_ge _ _ _ d (j + 1) hj).mp hne
          rw [absDiff_le_iff] at n1
          have hp10 : 10 ^ (j + 1) = 2 * (5 * 10 ^ j) := by rw [pow10_succ]; ring
          have hfull : 10 ^ 33 ≤ d.coeff := by
            rcases n3 with h | h | h
            · exfalso
              rw [hp10] at h
              have : d.coeff * (2 * (5 * 10 ^ j) * 2) = 2 * (d.coeff * (5 * 10 ^ j) * 2) := by ring
              rw [this] at h
              omega
            · exact h
            · exfalso; unfold eTiny at h; omega
          refine ⟨hdn, ⟨hdc, hdlo, hdhi⟩, ?_, Or.inr hfull⟩
          -- evaluate the specification at the scale the root was computed at
          have hs1 : a.exp / 2 - (k : Int) ≤ min (a.exp / 2) d.exp := by omega
          obtain ⟨m, hm⟩ : ∃ m : Nat, min (a.exp / 2) d.exp = (a.exp / 2 - (k : Int)) + (m : Int) :=
            ⟨(min (a.exp / 2) d.exp - (a.exp / 2 - (k : Int))).toNat, by omega⟩
          rw [← sqrtCore_scale _ _ _ (10 ^ m) (pow10_pos m)]
          have eX : a.coeff * 10 ^ (a.exp - 2 * min (a.exp / 2) d.exp).toNat * (10 ^ m * 10 ^ m) = c' * 100 ^ k := by
            rw [hC, ← hX]
            have h1 : (a.exp - 2 * (a.exp / 2)).toNat + (k + k)
                = (a.exp - 2 * min (a.exp / 2) d.exp).toNat + (m + m) := by omega
            have h2 : a.coeff * 10 ^ (a.exp - 2 * min (a.exp / 2) d.exp).toNat * (10 ^ m * 10 ^ m)
                = a.coeff * 10 ^ ((a.exp - 2 * min (a.exp / 2) d.exp).toNat + (m + m)) := by
              rw [pow10_add, pow10_add]; ring
            have h3 : a.coeff * 10 ^ (a.exp - 2 * (a.exp / 2)).toNat * (10 ^ k * 10 ^ k)
                = a.coeff * 10 ^ ((a.exp - 2 * (a.exp / 2)).toNat + (k + k)) := by
              rw [pow10_add, pow10_add]; ring
            rw [h2, h3, h1]
          have eU : 10 ^ (d.exp - min (a.exp / 2) d.exp).toNat * 10 ^ m = 10 ^ (j + 1) := by
            rw [← pow10_add]
            congr 1
            omega
          have eY : d.coeff * 10 ^ (d.exp - min (a.exp / 2) d.exp).toNat * 10 ^ m = d.coeff * 10 ^ (j + 1) := by
            rw [Nat.mul_assoc, eU]
          rw [eX, eU, eY]
          -- now: |2r + 1 − 2·Y0| ≤ p with p even, r² ≤ C < (r+1)²
          have hY : d.coeff * (10 ^ (j + 1) * 2) = 2 * (d.coeff * 10 ^ (j + 1)) := by ring
          rw [hY] at n1
          have hpY : 10 ^ (j + 1) ≤ d.coeff * 10 ^ (j + 1) :=
            Nat.le_mul_of_pos_left _ (by omega)
          rw [hp10] at n1 hpY ⊢
          generalize d.coeff * (2 * (5 * 10 ^ j)) = Y0 at *
          generalize 5 * 10 ^ j = h5 at *
          unfold SqrtCore
          refine ⟨?_, ?_, by omega⟩
          · have h1 : 2 * Y0 - 2 * h5 ≤ 2 * r := by omega
            have h2 := sq_le_sq h1
            have e1 : 2 * r * (2 * r) = 4 * (r * r) := by ring
            omega
          · have h1 : 2 * (r + 1) ≤ 2 * Y0 + 2 * h5 := by omega
            have h2 := sq_le_sq h1
            have e1 : 2 * (r + 1) * (2 * (r + 1)) = 4 * ((r + 1) * (r + 1)) := by ring
            omega

end D128
end Dmn
