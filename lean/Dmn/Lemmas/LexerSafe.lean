import Dmn.Lemmas.LexerName

/-!
# The lexer never panics
-/

namespace Dmn.Lexer

/-! ## Strings cannot panic -/

theorem hexDigits_no_panic (inp : List Nat) :
    ∀ (k pos acc : Nat) (s : PanicSite), hexDigits inp k pos acc ≠ .panic s := by
  intro k
  induction k with
  | zero => intro pos acc s h; simp [hexDigits] at h
  | succ k ih =>
    intro pos acc s h
    rw [hexDigits] at h
    split at h
    · cases h
    · split at h
      · exact ih _ _ _ h
      · cases h

theorem consumeUnicodeLiteral_no_panic (inp : List Nat) (pos : Nat) (s : PanicSite) :
    consumeUnicodeLiteral inp pos ≠ .panic s := by
  intro h
  unfold consumeUnicodeLiteral at h
  repeat' split at h
  all_goals first
    | cases h
    | exact hexDigits_no_panic _ _ _ _ _ h

theorem consumeUnicode_no_panic (inp : List Nat) (pos : Nat) (s : PanicSite) :
    consumeUnicode inp pos ≠ .panic s := by
  unfold consumeUnicode
  split
  · intro h; cases h
  · rename_i hh; exact absurd hh (consumeUnicodeLiteral_no_panic _ _ _)
  · intro h; cases h
  · split
    · intro h; cases h
    · split
      · split
        · intro h; cases h
        · rename_i hh; exact absurd hh (consumeUnicodeLiteral_no_panic _ _ _)
        · intro h; cases h
        · split <;> (intro h; cases h)
      · intro h; cases h

theorem ite_ne_panic {α : Type} {c : Prop} [Decidable c] {a b : Out α} {s : PanicSite}
    (ha : a ≠ .panic s) (hb : b ≠ .panic s) : (if c then a else b) ≠ .panic s := by
  split
  · exact ha
  · exact hb

theorem stringLoop_no_panic (inp : List Nat) :
    ∀ (fuel pos : Nat) (acc : List Nat) (s : PanicSite), stringLoop inp fuel pos acc ≠ .panic s := by
  intro fuel
  induction fuel with
  | zero => intro pos acc s h; simp [stringLoop] at h
  | succ n ih =>
    intro pos acc s
    rw [stringLoop]
    split
    · intro h; cases h
    · simp only
      repeat (refine ite_ne_panic (ih _ _ _) ?_)
      refine ite_ne_panic ?_ ?_
      · split
        · exact ih _ _ _
        · intro h; cases h
        · rename_i hh; exact absurd hh (consumeUnicode_no_panic _ _ _)
        · intro h; cases h
      · refine ite_ne_panic (fun h => by cases h) ?_
        refine ite_ne_panic (fun h => by cases h) ?_
        exact ih _ _ _

theorem consumeString_no_panic (inp : List Nat) (pos : Nat) (s : PanicSite) :
    consumeString inp pos ≠ .panic s :=
  stringLoop_no_panic _ _ _ _ _

/-! ## Names: no index of `consume_name` is out of bounds -/

theorem filter_pos_some {o : Option Nat} {i : Nat} (h : o.filter (fun i => 0 < i) = some i) :
    o = some i ∧ 0 < i := by
  cases o with
  | none => simp at h
  | some j =>
    simp only [Option.filter] at h
    split at h
    · rename_i hj
      cases h
      exact ⟨rfl, by simpa using hj⟩
    · cases h

/-- `finishName` never panics: `consumed_positions` is as long as `parts`, the `till_in` tweak
only fires for an index `> 0` (lexer.rs:655), the prefix loop stays within `1..parts.len()`, and
the `item` tweak reads `consumed_positions[0]` of a non-empty part list. -/
theorem finishName_no_panic (l : Lx) (st : NameSt) (hl : st.positions.length = st.parts.length)
    (s : PanicSite) : finishName l st ≠ .panic s := by
  intro h
  unfold finishName at h
  simp only at h
  split at h
  · rename_i index hidx
    have htill : l.tillIn = true := by
      by_cases ht : l.tillIn = true
      · exact ht
      · simp [ht] at hidx
    simp only [htill, if_true] at hidx
    obtain ⟨hpos, hgt⟩ := filter_pos_some hidx
    split at h
    · rename_i h0
      omega
    · split at h
      · rename_i hp
        have := positionOfIn_lt _ _ hpos
        have hlen : index - 1 < st.positions.length := by omega
        simp [List.getElem?_eq_getElem hlen] at hp
      · cases h
  · split at h
    · rename_i hh
      exact prefixLoop_no_panic l.keys st.parts st.positions hl _ (Nat.le_refl _) _ hh
    · cases h
    · cases h
    · cases h
    · split at h
      · -- item
        rename_i hitem
        split at h
        · rename_i hp
          have : st.parts ≠ [] := by
            intro he; simp [he] at hitem
          have hlen : 0 < st.positions.length := by
            rw [hl]; exact List.length_pos_iff.mpr this
          simp [List.getElem?_eq_getElem hlen] at hp
        · cases h
      · repeat' split at h
        all_goals cases h

theorem consumeName_no_panic (l : Lx) (s : PanicSite) : consumeName l ≠ .panic s := by
  intro h
  unfold consumeName at h
  split at h
  · cases h
  · rename_i hh; exact absurd hh (collectParts_no_panic _ _ _)
  · cases h
  · rename_i st hst
    exact finishName_no_panic l st (collectParts_len hst) s h

theorem nameArm_no_panic (l : Lx) (s : PanicSite) : nameArm l ≠ .panic s := by
  intro h
  unfold nameArm at h
  split at h
  · cases h
  · cases h
  · rename_i hh; exact consumeName_no_panic _ _ hh
  · cases h

theorem ite_panic {α : Type} {c : Prop} [Decidable c] {a b : Out α} {s : PanicSite} {P : Prop}
    (ha : a = .panic s → P) (hb : ¬ c → b = .panic s → P) : (if c then a else b) = .panic s → P := by
  intro h; split at h
  · exact ha h
  · exact hb ‹_› h

theorem readNextToken_no_panic (l : Lx) (s : PanicSite) : readNextToken l ≠ .panic s := by
  show readNextToken l = .panic s → False
  simp only [readNextToken, advance]
  repeat (refine ite_panic (fun h => by cases h) (fun _ => ?_))
  -- the string literal
  refine ite_panic ?_ (fun _ => ?_)
  · intro h
    split at h
    · cases h
    · cases h
    · rename_i hh; exact absurd hh (consumeString_no_panic _ _ _)
    · cases h
  repeat (refine ite_panic (fun h => by cases h) (fun _ => ?_))
  -- the number
  refine ite_panic ?_ (fun _ => ?_)
  · refine ite_panic (fun h => by cases h) (fun _ h => by cases h)
  -- the name
  refine ite_panic (fun h => nameArm_no_panic _ s h) (fun _ => ?_)
  refine ite_panic (fun h => by cases h) (fun _ h => by cases h)

end Dmn.Lexer
