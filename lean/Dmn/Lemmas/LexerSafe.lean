import Dmn.Lemmas.LexerName

/-!
# The lexer never panics outside the `till_in` hazard, and never runs out of fuel
-/

namespace Dmn.Lexer

/-! ## Strings cannot panic -/

theorem hexDigits_no_panic (inp : List Nat) :
    ∀ (k pos acc : Nat) (s : PanicSite), hexDigits inp k pos acc ≠ .panic s := by
  intro k
  induction k with
  | zero => intro pos acc s h; simp [hexDigits] at h
  | succ k ih =>
    intro pos acc s h
    rw [hexDigits] at h
    split at h
    · cases h
    · split at h
      · exact ih _ _ _ h
      · cases h

theorem consumeUnicodeLiteral_no_panic (inp : List Nat) (pos : Nat) (s : PanicSite) :
    consumeUnicodeLiteral inp pos ≠ .panic s := by
  intro h
  unfold consumeUnicodeLiteral at h
  repeat' split at h
  all_goals first
    | cases h
    | exact hexDigits_no_panic _ _ _ _ _ h

theorem consumeUnicode_no_panic (inp : List Nat) (pos : Nat) (s : PanicSite) :
    consumeUnicode inp pos ≠ .panic s := by
  unfold consumeUnicode
  split
  · intro h; cases h
  · rename_i hh; exact absurd hh (consumeUnicodeLiteral_no_panic _ _ _)
  · intro h; cases h
  · split
    · intro h; cases h
    · split
      · split
        · intro h; cases h
        · rename_i hh; exact absurd hh (consumeUnicodeLiteral_no_panic _ _ _)
        · intro h; cases h
        · split
          · simp only
            split <;> (intro h; cases h)
          · intro h; cases h
      · intro h; cases h

theorem ite_ne_panic {α : Type} {c : Prop} [Decidable c] {a b : Out α} {s : PanicSite}
    (ha : a ≠ .panic s) (hb : b ≠ .panic s) : (if c then a else b) ≠ .panic s := by
  split
  · exact ha
  · exact hb

theorem stringLoop_no_panic (inp : List Nat) :
    ∀ (fuel pos : Nat) (acc : List Nat) (s : PanicSite), stringLoop inp fuel pos acc ≠ .panic s := by
  intro fuel
  induction fuel with
  | zero => intro pos acc s h; simp [stringLoop] at h
  | succ n ih =>
    intro pos acc s
    rw [stringLoop]
    split
    · intro h; cases h
    · simp only
      repeat (refine ite_ne_panic (ih _ _ _) ?_)
      refine ite_ne_panic ?_ ?_
      · split
        · exact ih _ _ _
        · intro h; cases h
        · rename_i hh; exact absurd hh (consumeUnicode_no_panic _ _ _)
        · intro h; cases h
      · refine ite_ne_panic (fun h => by cases h) ?_
        refine ite_ne_panic (fun h => by cases h) ?_
        exact ih _ _ _

theorem consumeString_no_panic (inp : List Nat) (pos : Nat) (s : PanicSite) :
    consumeString inp pos ≠ .panic s :=
  stringLoop_no_panic _ _ _ _ _

/-! ## Names: the only panic is the `till_in` tweak with `in` as the first part -/

/-- `finishName` panics only at lexer.rs:645, and only when `till_in` is set and the first
collected part is `in`. -/
theorem finishName_panic (l : Lx) (st : NameSt) (hl : st.positions.length = st.parts.length)
    (s : PanicSite) (h : finishName l st = .panic s) :
    s = .tillInIndexMinus1 ∧ l.tillIn = true ∧ positionOfIn st.parts = some 0 := by
  unfold finishName at h
  split at h
  · -- item
    rename_i hitem
    split at h
    · exfalso
      rename_i hp
      have : st.parts ≠ [] := by
        intro he; simp [he] at hitem
      have hlen : 0 < st.positions.length := by
        rw [hl]; exact List.length_pos_iff.mpr this
      simp [List.getElem?_eq_getElem hlen] at hp
    · cases h
  · simp only at h
    split at h
    · rename_i index hidx
      have htill : l.tillIn = true := by
        by_cases ht : l.tillIn = true
        · exact ht
        · simp [ht] at hidx
      simp only [htill, if_true] at hidx
      split at h
      · rename_i h0
        cases h
        subst h0
        exact ⟨rfl, htill, hidx⟩
      · split at h
        · exfalso
          rename_i hp
          have := positionOfIn_lt _ _ hidx
          have hlen : index - 1 < st.positions.length := by omega
          simp [List.getElem?_eq_getElem hlen] at hp
        · cases h
    · split at h
      · exfalso
        rename_i hh
        exact prefixLoop_no_panic l.keys st.parts st.positions hl _ (Nat.le_refl _) _ hh
      · cases h
      · cases h
      · cases h
      · repeat' split at h
        all_goals cases h

/-- The hazard of finding F5: the lexer is in `till_in` mode, the text at the cursor is not the
keyword `in` (followed by white space or the end of the input) and the name at the cursor has
`in` as its first part. -/
def tillInHazard (l : Lx) : Bool :=
  l.tillIn &&
    !(kw (readBuf l.input (skipBlanks l.input l.pos)) [105, 110, 32]) &&
    (match collectParts l.input (skipBlanks l.input l.pos) with
     | .ok st => positionOfIn st.parts == some 0
     | _ => false)

theorem consumeName_panic (l : Lx) (s : PanicSite) (h : consumeName l = .panic s) :
    s = .tillInIndexMinus1 ∧ l.tillIn = true ∧
      ∃ st, collectParts l.input l.pos = .ok st ∧ positionOfIn st.parts = some 0 := by
  unfold consumeName at h
  split at h
  · cases h
  · rename_i hh; exact absurd hh (collectParts_no_panic _ _ _)
  · cases h
  · rename_i st hst
    have := finishName_panic l st (collectParts_len hst) s h
    exact ⟨this.1, this.2.1, st, hst, this.2.2⟩

theorem ite_panic {α : Type} {c : Prop} [Decidable c] {a b : Out α} {s : PanicSite} {P : Prop}
    (ha : a = .panic s → P) (hb : ¬ c → b = .panic s → P) : (if c then a else b) = .panic s → P := by
  intro h; split at h
  · exact ha h
  · exact hb ‹_› h

theorem readNextToken_panic (l : Lx) (s : PanicSite) :
    readNextToken l = .panic s → s = .tillInIndexMinus1 ∧ tillInHazard l = true := by
  simp only [readNextToken, advance]
  repeat (refine ite_panic (fun h => by cases h) (fun _ => ?_))
  -- the string literal
  refine ite_panic ?_ (fun _ => ?_)
  · intro h
    split at h
    · cases h
    · cases h
    · rename_i hh; exact absurd hh (consumeString_no_panic _ _ _)
    · cases h
  repeat (refine ite_panic (fun h => by cases h) (fun _ => ?_))
  -- the number
  refine ite_panic ?_ (fun _ => ?_)
  · refine ite_panic (fun h => by cases h) (fun _ h => by cases h)
  -- the name
  refine ite_panic ?_ (fun _ => ?_)
  · intro h
    have hin : ¬ kw (readBuf l.input (skipBlanks l.input l.pos)) [105, 110, 32] = true := by assumption
    have := consumeName_panic _ s h
    refine ⟨this.1, ?_⟩
    obtain ⟨_, ht, st, hst, hp⟩ := this
    simp only at ht hst
    simp [tillInHazard, ht, hst, hp, hin]
  refine ite_panic (fun h => by cases h) (fun _ h => by cases h)

end Dmn.Lexer
