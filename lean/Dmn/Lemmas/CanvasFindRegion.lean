import Dmn.Lemmas.CanvasGridDefs
import Dmn.Lemmas.PlaneMerged

/-!
# The region of a grid cell is found with its rank

`findRegion_cell`: among the regions the scanner found on the drawing of a sheet whose regions are
rectangles (`sheetRegions`: the information item box, then one rectangle per region in reading
order), the first one that contains the rectangle of grid cell `(r, c)` is the region of the
cell's key, and its index is the rank of the key in reading order (after the box).
-/

namespace Dmn.Recog
open Scan (ok error)

theorem xPos_le_of_le (s : Sheet) {a b : Nat} (h : a ≤ b) : s.xPos a ≤ s.xPos b := by
  by_cases hab : a = b
  · rw [hab]; exact Nat.le_refl _
  · exact Nat.le_of_lt (xPos_strict s (by omega))

theorem yPos_le_of_le (s : Sheet) {a b : Nat} (h : a ≤ b) : s.yPos a ≤ s.yPos b := by
  by_cases hab : a = b
  · rw [hab]; exact Nat.le_refl _
  · exact Nat.le_of_lt (yPos_strict s (by omega))

theorem ne_of_lt_idxOf {k k' : Key} : ∀ {l : List Key} {j : Nat}, j < l.idxOf k → l[j]? = some k' → k' ≠ k
  | [], _, hj, _ => by simp at hj
  | a :: l, j, hj, h => by
    rw [List.idxOf_cons] at hj
    by_cases hak : a = k
    · subst hak
      rw [beq_self_eq_true, cond_true] at hj
      omega
    · have hbeq : (a == k) = false := by simpa using hak
      rw [hbeq, cond_false] at hj
      cases j with
      | zero =>
        simp only [List.getElem?_cons_zero, Option.some.injEq] at h
        rw [← h]; exact hak
      | succ j =>
        simp only [List.getElem?_cons_succ] at h
        exact ne_of_lt_idxOf (by omega) h

theorem getElem?_idxOf_mem {k : Key} {l : List Key} (h : k ∈ l) : l[l.idxOf k]? = some k := by
  have hlt : l.idxOf k < l.length := List.idxOf_lt_length_of_mem h
  rw [List.getElem?_eq_getElem hlt, List.getElem_idxOf hlt]

theorem mem_keysInOrder_cell {s : Sheet} {k : Key} (h : k ∈ s.keysInOrder) :
    ∃ r c, r < s.nrows ∧ c < s.ncols ∧ s.key r c = k := by
  unfold Sheet.keysInOrder at h
  rw [mem_keepFirst] at h
  rcases h with h | h
  · simp only [List.mem_flatMap, List.mem_range, List.mem_map] at h
    obtain ⟨r, hr, c, hc, e⟩ := h
    exact ⟨r, c, hr, hc, e⟩
  · simp at h

section
variable {s : Sheet}

/-- the rectangle of a rectangular region contains the rectangle of a grid cell exactly when the
cell lies in the region -/
theorem regionRect_contains_iff {k : Key} {r0 c0 r1 c1 : Nat} (reg : IsRegion s k r0 c0 r1 c1)
    (o : Nat) {r c : Nat} (hr : r < s.nrows) (hc : c < s.ncols) :
    (s.regionRect o k).contains (s.cellRect o r c) = true ↔ s.key r c = k := by
  rw [regionRect_eq reg o, reg.cells r c hr hc]
  simp [Rect.contains, Sheet.cellRect]
  constructor
  · intro ⟨⟨⟨h1, h2⟩, h3⟩, h4⟩
    have a1 := xPos_mono s h1
    have a2 := yPos_mono s h2
    have a3 := xPos_mono s h3
    have a4 := yPos_mono s h4
    omega
  · intro ⟨h1, h2, h3, h4⟩
    have a1 := xPos_le_of_le s h3
    have a2 := yPos_le_of_le s h1
    have a3 := xPos_le_of_le s (show c + 1 ≤ c1 + 1 by omega)
    have a4 := yPos_le_of_le s (show r + 1 ≤ r1 + 1 by omega)
    exact ⟨⟨⟨a1, a2⟩, a3⟩, a4⟩

/-- **The region of a grid cell is found with its rank** (`Canvas::plane`, canvas.rs:339-351):
for every sheet whose regions are rectangles, with or without the information item box. -/
theorem findRegion_cell (hrect : RectSheet s) (name : Option Text) (boxRight : Nat) {r c : Nat}
    (hr : r < s.nrows) (hc : c < s.ncols) :
    findRegion (s.cellRect (boxLines name) r c) (sheetRegions s name boxRight) 0 =
      some (s.regionNo name (s.key r c), s.regionRect (boxLines name) (s.key r c)) := by
  have hmem := mem_keysInOrder hr hc
  obtain ⟨r0, c0, r1, c1, reg⟩ := hrect r c hr hc
  have hself := (regionRect_contains_iff reg (boxLines name) hr hc).mpr rfl
  have hget : (s.keysInOrder.map (s.regionRect (boxLines name)))[s.keysInOrder.idxOf (s.key r c)]? =
      some (s.regionRect (boxLines name) (s.key r c)) := by
    rw [List.getElem?_map, getElem?_idxOf_mem hmem]; rfl
  have hbefore : ∀ j r', j < s.keysInOrder.idxOf (s.key r c) →
      (s.keysInOrder.map (s.regionRect (boxLines name)))[j]? = some r' →
      r'.contains (s.cellRect (boxLines name) r c) = false := by
    intro j r' hj hr'
    rw [List.getElem?_map] at hr'
    cases hk : s.keysInOrder[j]? with
    | none => rw [hk] at hr'; simp at hr'
    | some k' =>
      rw [hk] at hr'
      simp only [Option.map_some, Option.some.injEq] at hr'
      subst hr'
      have hne := ne_of_lt_idxOf hj hk
      obtain ⟨r', c', hr'', hc'', e⟩ := mem_keysInOrder_cell (getElem?_mem' hk)
      obtain ⟨a, b, a', b', reg'⟩ := hrect r' c' hr'' hc''
      rw [e] at reg'
      cases hcon : (s.regionRect (boxLines name) k').contains (s.cellRect (boxLines name) r c) with
      | false => rfl
      | true => exact absurd ((regionRect_contains_iff reg' (boxLines name) hr hc).mp hcon).symm hne
  unfold sheetRegions Sheet.regionNo
  cases hname : name with
  | none =>
    simp only [Option.isSome_none, Bool.false_eq_true, if_false, List.nil_append]
    rw [← hname]
    have := findRegion_first _ _ 0 _ _ hget hself hbefore
    rw [this]
  | some nm =>
    simp only [Option.isSome_some, if_true, List.singleton_append]
    rw [← hname]
    have hbox : (⟨0, 0, boxRight + 1, boxLines name + 1⟩ : Rect).contains
        (s.cellRect (boxLines name) r c) = false := by
      have := yPos_strict s (show 0 < r + 1 by omega)
      rw [yPos_zero] at this
      simp [Rect.contains, Sheet.cellRect]
      intro _; exact this
    simp only [findRegion, hbox, Bool.false_eq_true, if_false]
    have := findRegion_first _ _ (0 + 1) _ _ hget hself hbefore
    rw [this]

end

end Dmn.Recog
