import Dmn.Lemmas.CanvasTop

/-!
# The marks of a drawn sheet, part A: where special characters can stand; the crossings
-/

namespace Dmn.Recog
open Scan (ok error)

/-! ## Searches that find nothing -/

theorem stepOf_stop {s a : List Char} {ch : Char} (h1 : s.contains ch = false)
    (h2 : a.contains ch = false) : stepOf s a ch = .stop := by
  unfold stepOf
  rw [if_neg (by rw [h1]; decide), if_pos (by rw [h2]; decide)]

theorem searchRightLoop_notFound {c : Content} {R W : Nat} (h : Shape c R W) {y : Nat} (hy : y < R)
    (l : Layer) (s a : List Char) : ∀ (n x : Nat), x + n + 1 ≤ W →
      (∀ x', x < x' → x' < W → s.contains (chOf c l y x') = false) →
      ∃ e, searchRightLoop c y l s a n x = error e
  | 0, _, _, _ => ⟨_, rfl⟩
  | n + 1, x, hx, hno => by
    have hx1 : x + 1 < W := by omega
    simp only [searchRightLoop, chAt_eq h hy hx1]
    have hnf := hno (x + 1) (by omega) hx1
    by_cases ha : a.contains (chOf c l y (x + 1)) = true
    · rw [stepOf_go ⟨hnf, ha⟩]
      exact searchRightLoop_notFound h hy l s a n (x + 1) (by omega) (fun x' h1 h2 => hno x' (by omega) h2)
    · rw [stepOf_stop hnf (by simpa using ha)]
      exact ⟨_, rfl⟩

theorem searchDownLoop_notFound {c : Content} {R W : Nat} (h : Shape c R W) {x : Nat} (hx : x < W)
    (l : Layer) (s a : List Char) : ∀ (n y : Nat), y + n + 1 ≤ R →
      (∀ y', y < y' → y' < R → s.contains (chOf c l y' x) = false) →
      ∃ e, searchDownLoop c x l s a n y = error e
  | 0, _, _, _ => ⟨_, rfl⟩
  | n + 1, y, hy, hno => by
    have hy1 : y + 1 < R := by omega
    simp only [searchDownLoop, chAt_eq h hy1 hx]
    have hnf := hno (y + 1) (by omega) hy1
    by_cases ha : a.contains (chOf c l (y + 1) x) = true
    · rw [stepOf_go ⟨hnf, ha⟩]
      exact searchDownLoop_notFound h hx l s a n (y + 1) (by omega) (fun y' h1 h2 => hno y' (by omega) h2)
    · rw [stepOf_stop hnf (by simpa using ha)]
      exact ⟨_, rfl⟩

theorem okPoint_searchRight_none {c : Content} {R W : Nat} (h : Shape c R W) {x y : Nat}
    (hy : y < R) (hx : x < W) (l : Layer) (s a : List Char)
    (hno : ∀ x', x < x' → x' < W → s.contains (chOf c l y x') = false) :
    okPoint (searchRight c ⟨x, y⟩ l s a) = ok none := by
  obtain ⟨row, hrow, hw⟩ := h.row hy
  have hne : ¬ row.size = 0 := by omega
  simp only [searchRight, hrow, hne, if_false]
  obtain ⟨e, he⟩ := searchRightLoop_notFound h hy l s a (row.size - 1 - x) x (by omega) hno
  rw [he]; rfl

theorem okPoint_searchDown_none {c : Content} {R W : Nat} (h : Shape c R W) {x y : Nat}
    (hy : y < R) (hx : x < W) (l : Layer) (s a : List Char)
    (hno : ∀ y', y < y' → y' < R → s.contains (chOf c l y' x) = false) :
    okPoint (searchDown c ⟨x, y⟩ l s a) = ok none := by
  have hs := h.rows
  have hne : ¬ c.size = 0 := by omega
  simp only [searchDown, hne, if_false]
  obtain ⟨e, he⟩ := searchDownLoop_notFound h hx l s a (c.size - 1 - y) y (by omega) hno
  rw [he]; rfl

theorem contains_one (t ch : Char) : ([t].contains ch = true) ↔ ch = t := by simp

theorem contains_one_false (t ch : Char) (h : ch ≠ t) : [t].contains ch = false := by
  simpa using h

/-! ## Positions -/

theorem yPos_strict (s : Sheet) {a b : Nat} (h : a < b) : s.yPos a < s.yPos b := by
  have := yPos_lt s h; omega

theorem xPos_strict (s : Sheet) {a b : Nat} (h : a < b) : s.xPos a < s.xPos b := by
  have := xPos_lt s h; omega

theorem yPos_inj (s : Sheet) {a b : Nat} (h : s.yPos a = s.yPos b) : a = b := by
  by_cases h1 : a < b
  · have := yPos_strict s h1; omega
  · by_cases h2 : b < a
    · have := yPos_strict s h2; omega
    · omega

theorem xPos_inj (s : Sheet) {a b : Nat} (h : s.xPos a = s.xPos b) : a = b := by
  by_cases h1 : a < b
  · have := xPos_strict s h1; omega
  · by_cases h2 : b < a
    · have := xPos_strict s h2; omega
    · omega

theorem yPos_mono (s : Sheet) {a b : Nat} (h : s.yPos a ≤ s.yPos b) : a ≤ b := by
  by_cases h1 : b < a
  · have := yPos_strict s h1; omega
  · omega

theorem xPos_mono (s : Sheet) {a b : Nat} (h : s.xPos a ≤ s.xPos b) : a ≤ b := by
  by_cases h1 : b < a
  · have := xPos_strict s h1; omega
  · omega

theorem yPos_zero (s : Sheet) : s.yPos 0 = 0 := rfl
theorem xPos_zero (s : Sheet) : s.xPos 0 = 0 := rfl

/-! ## Where a special character can stand -/

section
variable (s : Sheet) (name : Option Text) (boxRight : Nat)

/-- a character that is neither a line, a corner of the information item box, `CHAR_OUTER`, a
character the box puts into the top border, nor a character of a text -/
def Special (t : Char) : Prop :=
  plain t = false ∧ t ≠ '┌' ∧ t ≠ '─' ∧ t ≠ '┐' ∧ t ≠ '│' ∧ t ≠ charOuter ∧ t ≠ '═' ∧ t ≠ '║' ∧
    t ≠ '┴' ∧ t ≠ '┼' ∧ t ≠ '┤' ∧ t ≠ '├'

theorem last_row (hf : SheetFits s name boxRight) (x : Nat) (hx : x < s.xPos s.ncols + 1) :
    T s name boxRight (boxLines name + s.yPos s.nrows + 1) x = charOuter := by
  show chOf _ _ _ _ = _
  unfold sheetCanvas
  rw [canvasOf_text _ _ _ (by rw [drawSheet_length]; omega)
    (by rw [maxLen_drawSheet s _ boxRight hf]; exact hx)]
  unfold lineCh
  rw [List.getD_eq_getElem?_getD (l := drawSheet s name boxRight),
    List.getElem?_eq_none (by rw [drawSheet_length]; omega)]
  rfl

/-- **a special character stands at a vertex of the sheet** -/
theorem special_at_vertex (hf : SheetFits s name boxRight) (t : Char) (ht : Special t) (y x : Nat)
    (hy : y < boxLines name + s.yPos s.nrows + 2) (hx : x < s.xPos s.ncols + 1)
    (h : T s name boxRight y x = t) :
    ∃ br bc, br ≤ s.nrows ∧ bc ≤ s.ncols ∧ y = boxLines name + s.yPos br ∧ x = s.xPos bc ∧
      s.vch br bc = t := by
  obtain ⟨hp, h1, h2, h3, h4, h5, h6, h7, h8, h9, h10, h11⟩ := ht
  have hnp : ∀ ch, plain ch = true → ch ≠ t := by
    intro ch hch e; rw [e, hp] at hch; cases hch
  by_cases hbox : y < boxLines name
  · -- the information item box
    exfalso
    cases hname : name with
    | none => rw [hname] at hbox; simp [boxLines] at hbox
    | some nm =>
      obtain ⟨_, hb2, hb3, _⟩ := hf.box nm hname
      cases y with
      | zero =>
        rw [box_top s name boxRight hf nm hname x hx] at h
        split at h
        · exact h1 h.symm
        · split at h
          · exact h2 h.symm
          · split at h
            · exact h3 h.symm
            · exact h5 h.symm
      | succ i =>
        have hi : i < (splitLines nm).length := by
          rw [hname] at hbox; simp only [boxLines] at hbox; omega
        rw [Nat.add_comm i 1, box_text s name boxRight hf nm hname i x hi hx] at h
        split at h
        · exact h4 h.symm
        · split at h
          · rename_i hx0 hxb
            exact hnp _ (box_text_plain s name boxRight hf nm hname i x hi (by omega) hxb) h
          · split at h
            · exact h4 h.symm
            · exact h5 h.symm
  · by_cases htop : y = boxLines name
    · -- the top border
      subst htop
      rcases s.line_locate x hx with ⟨bc, hbc, rfl⟩ | ⟨c, i, hc, hi, rfl⟩
      · rw [top_vertex s name boxRight hf bc hbc] at h
        exact ⟨0, bc, by omega, hbc, rfl, rfl, topFix_eq_of _ _ _ _ t ⟨h8, h9, h10, h11⟩ h⟩
      · exfalso
        rw [top_seg s name boxRight hf c i hc hi] at h
        have := topFix_eq_of _ _ _ _ t ⟨h8, h9, h10, h11⟩ h
        split at this
        · exact h6 this.symm
        · exact h2 this.symm
    · obtain ⟨j, rfl⟩ : ∃ j, y = boxLines name + j := ⟨y - boxLines name, by omega⟩
      have hj : 0 < j := by omega
      by_cases hlast : j = s.yPos s.nrows + 1
      · exfalso
        subst hlast
        rw [← Nat.add_assoc, last_row s name boxRight hf x hx] at h
        exact h5 h.symm
      · rcases s.render_locate j (by omega) with ⟨br, hbr, rfl⟩ | ⟨r, l, hr, hl, rfl⟩
        · have hbr0 : 0 < br := by
            cases br with
            | zero => simp [yPos_zero] at hj
            | succ b => omega
          rcases s.line_locate x hx with ⟨bc, hbc, rfl⟩ | ⟨c, i, hc, hi, rfl⟩
          · rw [show T s name boxRight _ _ = _ from sheetCanvas_vertex s name boxRight hf br bc hbr0 hbr hbc] at h
            exact ⟨br, bc, hbr, hbc, rfl, rfl, h⟩
          · exfalso
            obtain ⟨ha, hb⟩ := sheetCanvas_hseg s name boxRight hf br c i hbr0 hbr hc hi
            cases hseg : s.hSeg br c with
            | true =>
              rw [show T s name boxRight _ _ = _ from ha hseg] at h
              split at h
              · exact h6 h.symm
              · exact h2 h.symm
            | false => exact hnp _ (hb hseg) h
        · exfalso
          rcases s.line_locate x hx with ⟨bc, hbc, rfl⟩ | ⟨c, i, hc, hi, rfl⟩
          · obtain ⟨ha, hb⟩ := sheetCanvas_sep s name boxRight hf r l bc hr hl hbc
            by_cases hcase : bc = s.ncols ∨ s.vSeg r bc = true
            · rw [show T s name boxRight _ _ = _ from ha hcase] at h
              split at h
              · exact h7 h.symm
              · exact h4 h.symm
            · have h1' : bc ≠ s.ncols := fun e => hcase (Or.inl e)
              have h2' : s.vSeg r bc = false := by
                cases hv : s.vSeg r bc with
                | false => rfl
                | true => exact absurd (Or.inr hv) hcase
              exact hnp _ (hb h1' h2') h
          · exact hnp _ (sheetCanvas_cell s name boxRight hf r l c i hr hl hc hi) h

theorem special_cross : Special '╬' := by
  refine ⟨by decide, ?_, ?_, ?_, ?_, ?_, ?_, ?_, ?_, ?_, ?_, ?_⟩ <;> decide

theorem special_topDouble : Special '╥' := by
  refine ⟨by decide, ?_, ?_, ?_, ?_, ?_, ?_, ?_, ?_, ?_, ?_, ?_⟩ <;> decide

end

end Dmn.Recog
