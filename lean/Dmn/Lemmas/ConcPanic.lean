import Dmn.Model.ConcPanic

/-! Helper lemmas for C20: one step of the semantics with panics in the evaluation phase. -/

namespace Dmn.ConcP

variable {σ R : Type}

theorem dropReads_flags (held : List Nat) (locks : Nat → LockSt) (k : Nat) :
    (dropReads locks held k).writer = (locks k).writer ∧ (dropReads locks held k).poisoned = (locks k).poisoned := by
  induction held generalizing locks with
  | nil => exact ⟨rfl, rfl⟩
  | cons l held ih =>
    simp only [dropReads]
    obtain ⟨h1, h2⟩ := ih (setLock locks l { locks l with readers := (locks l).readers - 1 })
    rw [h1, h2]
    simp only [setLock]
    by_cases hk : k = l
    · subst hk; simp
    · simp [hk]

/-- Unwinding a call that holds read guards only leaves every lock neither write-held nor poisoned,
whether the call panicked or not. -/
theorem unwind_clean {w : World σ R} (hc : ∀ l, (w.locks l).writer = false ∧ (w.locks l).poisoned = false)
    (i : Nat) (t : Thread σ R) (hw : t.heldW = []) (how : End) (l : Nat) :
    ((unwind w i t how).locks l).writer = false ∧ ((unwind w i t how).locks l).poisoned = false := by
  simp only [unwind, hw, dropWrites]
  obtain ⟨h1, h2⟩ := dropReads_flags t.heldR w.locks l
  rw [h1, h2]
  exact hc l

theorem alone_cons_safe (r : R) (a : Act σ R) (rest : List (Act σ R)) (s : σ) (h : a.evalSafe = true) :
    alone r (a :: rest) s =
      (match a with
       | .compute f => alone r rest (f r s)
       | .panic => (s, .panicked)
       | _ => alone r rest s) := by
  cases a <;> first | rfl | (simp [Act.evalSafe] at h)

/-- What a step does in the evaluation phase: the action is performed at once (never blocked, never a
lock error); locks stay clean; the thread holds no write guard, has only safe actions left, has
nothing left when it ended; and what it will have produced continued alone is unchanged. -/
theorem step_evalPhase {w : World σ R} (h : EvalPhase w) {i : Nat} {t : Thread σ R}
    (ht : w.threads[i]? = some t) {a : Act σ R} {rest : List (Act σ R)} (hd : t.todo = a :: rest) :
    ∃ w' t', stepThread w i = .done w' ∧ w'.reg = w.reg ∧ w'.threads = w.threads.set i t' ∧
      (∀ l, (w'.locks l).writer = false ∧ (w'.locks l).poisoned = false) ∧
      t'.heldW = [] ∧ (∀ b ∈ t'.todo, b.evalSafe = true) ∧ (t'.ending ≠ .running → t'.todo = []) ∧
      t'.ending ≠ .lockError ∧ view w.reg t' = view w.reg t := by
  have hm : t ∈ w.threads := List.mem_of_getElem? ht
  have hsafe : a.evalSafe = true := h.safe t hm a (by rw [hd]; exact List.mem_cons_self)
  have hrest : ∀ b ∈ rest, b.evalSafe = true := fun b hb => h.safe t hm b (by rw [hd]; exact List.mem_cons_of_mem _ hb)
  have hW : t.heldW = [] := h.noWriteGuard t hm
  have hrun : t.ending = .running := by
    cases he : t.ending with
    | running => rfl
    | panicked => have := h.ended t hm (by rw [he]; exact fun x => by cases x); rw [hd] at this; cases this
    | lockError => have := h.ended t hm (by rw [he]; exact fun x => by cases x); rw [hd] at this; cases this
  have hview : view w.reg t = alone w.reg (a :: rest) t.st := by simp [view, hrun, hd]
  cases a with
  | acqRead l =>
    have hc := h.clean l
    refine ⟨{ w with locks := setLock w.locks l { w.locks l with readers := (w.locks l).readers + 1 }
                     threads := w.threads.set i { t with todo := rest, heldR := l :: t.heldR } },
      { t with todo := rest, heldR := l :: t.heldR }, ?_, rfl, rfl, ?_, hW, hrest, ?_, ?_, ?_⟩
    · simp [stepThread, ht, hd, hc.1, hc.2]
    · intro k
      simp only [setLock]
      by_cases hk : k = l
      · subst hk; simp [hc.1, hc.2]
      · simp [hk, h.clean k]
    · intro hne; exact absurd hrun hne
    · rw [hrun]; exact fun x => by cases x
    · rw [hview]; simp [view, hrun, alone]
  | relRead l =>
    have hc := h.clean l
    by_cases hl : l ∈ t.heldR
    · refine ⟨{ w with locks := setLock w.locks l { w.locks l with readers := (w.locks l).readers - 1 }
                       threads := w.threads.set i { t with todo := rest, heldR := t.heldR.erase l } },
        { t with todo := rest, heldR := t.heldR.erase l }, ?_, rfl, rfl, ?_, hW, hrest, ?_, ?_, ?_⟩
      · simp [stepThread, ht, hd, hl]
      · intro k
        simp only [setLock]
        by_cases hk : k = l
        · subst hk; simp [hc.1, hc.2]
        · simp [hk, h.clean k]
      · intro hne; exact absurd hrun hne
      · rw [hrun]; exact fun x => by cases x
      · rw [hview]; simp [view, hrun, alone]
    · refine ⟨{ w with threads := w.threads.set i { t with todo := rest } }, { t with todo := rest },
        ?_, rfl, rfl, h.clean, hW, hrest, ?_, ?_, ?_⟩
      · simp [stepThread, ht, hd, hl]
      · intro hne; exact absurd hrun hne
      · rw [hrun]; exact fun x => by cases x
      · rw [hview]; simp [view, hrun, alone]
  | acqWrite l => simp [Act.evalSafe] at hsafe
  | relWrite l => simp [Act.evalSafe] at hsafe
  | mutate g => simp [Act.evalSafe] at hsafe
  | compute f =>
    refine ⟨{ w with threads := w.threads.set i { t with todo := rest, st := f w.reg t.st } },
      { t with todo := rest, st := f w.reg t.st }, ?_, rfl, rfl, h.clean, hW, hrest, ?_, ?_, ?_⟩
    · simp [stepThread, ht, hd]
    · intro hne; exact absurd hrun hne
    · rw [hrun]; exact fun x => by cases x
    · rw [hview]; simp [view, hrun, alone]
  | panic =>
    refine ⟨unwind w i t .panicked, { t with todo := [], heldR := [], heldW := [], ending := .panicked },
      ?_, rfl, rfl, ?_, rfl, ?_, ?_, ?_, ?_⟩
    · simp [stepThread, ht, hd]
    · exact unwind_clean h.clean i t hW .panicked
    · intro b hb; cases hb
    · intro _; rfl
    · exact fun x => by cases x
    · rw [hview]; simp [view, alone]

theorem evalPhase_applyStep {w : World σ R} (h : EvalPhase w) (i : Nat) : EvalPhase (applyStep w i) := by
  unfold applyStep
  cases ht : w.threads[i]? with
  | none => simp [stepThread, ht]; exact h
  | some t =>
    cases hd : t.todo with
    | nil => simp [stepThread, ht, hd]; exact h
    | cons a rest =>
      obtain ⟨w', t', hs, _, hth, hl, hW, hsafe, hend, _, _⟩ := step_evalPhase h ht hd
      rw [hs]
      refine ⟨hl, ?_, ?_, ?_⟩
      · intro u hu
        rw [hth] at hu
        rcases List.mem_or_eq_of_mem_set hu with hm | rfl
        · exact h.noWriteGuard u hm
        · exact hW
      · intro u hu b hb
        rw [hth] at hu
        rcases List.mem_or_eq_of_mem_set hu with hm | rfl
        · exact h.safe u hm b hb
        · exact hsafe b hb
      · intro u hu hne
        rw [hth] at hu
        rcases List.mem_or_eq_of_mem_set hu with hm | rfl
        · exact h.ended u hm hne
        · exact hend hne

theorem evalPhase_run {w : World σ R} (h : EvalPhase w) (sched : List Nat) : EvalPhase (run w sched) := by
  induction sched generalizing w with
  | nil => exact h
  | cons i sched ih => exact ih (evalPhase_applyStep h i)

/-- One step keeps, for every thread, what it will have produced continued alone, and never ends a
call with a lock error. -/
theorem applyStep_preserves {w : World σ R} (h : EvalPhase w) (i : Nat) :
    (applyStep w i).reg = w.reg ∧ (applyStep w i).threads.length = w.threads.length ∧
    ∀ (j : Nat) (t t' : Thread σ R), w.threads[j]? = some t → (applyStep w i).threads[j]? = some t' →
      view w.reg t' = view w.reg t ∧ (t.ending ≠ .lockError → t'.ending ≠ .lockError) := by
  unfold applyStep
  cases ht : w.threads[i]? with
  | none =>
    simp only [stepThread, ht]
    refine ⟨trivial, trivial, ?_⟩
    intro j t t' h1 h2; rw [h1] at h2; cases h2; exact ⟨rfl, id⟩
  | some ti =>
    cases hd : ti.todo with
    | nil =>
      simp only [stepThread, ht, hd]
      refine ⟨trivial, trivial, ?_⟩
      intro j t t' h1 h2; rw [h1] at h2; cases h2; exact ⟨rfl, id⟩
    | cons a rest =>
      obtain ⟨w', tn, hs, hreg, hth, _, _, _, _, hle, hv⟩ := step_evalPhase h ht hd
      rw [hs]
      refine ⟨hreg, by rw [hth]; simp, ?_⟩
      intro j t t' h1 h2
      rw [hth] at h2
      by_cases hj : i = j
      · subst hj
        rw [ht] at h1; cases h1
        have hlt : i < w.threads.length := by
          rcases List.getElem?_eq_some_iff.mp ht with ⟨hlt, _⟩; exact hlt
        rw [List.getElem?_set_self hlt] at h2
        cases h2
        exact ⟨hv, fun _ => hle⟩
      · rw [List.getElem?_set_ne hj] at h2
        rw [h1] at h2; cases h2; exact ⟨rfl, id⟩

theorem run_preserves {w : World σ R} (h : EvalPhase w) (sched : List Nat) :
    (run w sched).reg = w.reg ∧ (run w sched).threads.length = w.threads.length ∧
    ∀ (j : Nat) (t t' : Thread σ R), w.threads[j]? = some t → (run w sched).threads[j]? = some t' →
      view w.reg t' = view w.reg t ∧ (t.ending ≠ .lockError → t'.ending ≠ .lockError) := by
  induction sched generalizing w with
  | nil =>
    refine ⟨rfl, rfl, ?_⟩
    intro j t t' h1 h2; simp only [run] at h2; rw [h1] at h2; cases h2; exact ⟨rfl, id⟩
  | cons i sched ih =>
    obtain ⟨r1, l1, p1⟩ := applyStep_preserves h i
    obtain ⟨r2, l2, p2⟩ := ih (evalPhase_applyStep h i)
    refine ⟨by simp only [run]; rw [r2, r1], by simp only [run]; rw [l2, l1], ?_⟩
    intro j t t' h1 h2
    simp only [run] at h2
    have hlt : j < (applyStep w i).threads.length := by
      rw [l1]; rcases List.getElem?_eq_some_iff.mp h1 with ⟨hlt, _⟩; exact hlt
    obtain ⟨tm, htm⟩ : ∃ tm, (applyStep w i).threads[j]? = some tm := ⟨_, List.getElem?_eq_getElem hlt⟩
    obtain ⟨e2, n2⟩ := p2 j tm t' htm h2
    obtain ⟨e1, n1⟩ := p1 j t tm h1 htm
    rw [r1] at e2
    exact ⟨by rw [e2, e1], fun hne => n2 (n1 hne)⟩

/-! ## Guard accounting (every guard is released) -/

theorem dropReads_readers (held : List Nat) (locks : Nat → LockSt) (k : Nat) :
    (dropReads locks held k).readers = (locks k).readers - held.count k := by
  induction held generalizing locks with
  | nil => simp [dropReads]
  | cons l held ih =>
    simp only [dropReads]
    rw [ih]
    simp only [setLock]
    by_cases hk : k = l
    · subst hk
      simp only [if_true, List.count_cons_self]
      omega
    · have hlk : (l == k) = false := by simpa using fun h => hk h.symm
      simp only [hk, if_false, List.count_cons, hlk]
      simp

theorem sum_map_set {α : Type} (f : α → Nat) (ts : List α) (i : Nat) (t t' : α) (h : ts[i]? = some t) :
    ((ts.set i t').map f).sum + f t = (ts.map f).sum + f t' := by
  induction ts generalizing i with
  | nil => simp at h
  | cons x xs ih =>
    cases i with
    | zero =>
      simp only [List.getElem?_cons_zero, Option.some.injEq] at h
      subst h
      simp only [List.set_cons_zero, List.map_cons, List.sum_cons]
      omega
    | succ j =>
      simp only [List.getElem?_cons_succ] at h
      have := ih j h
      simp only [List.set_cons_succ, List.map_cons, List.sum_cons]
      omega

theorem sum_map_eq_zero {α : Type} (f : α → Nat) (ts : List α) (h : ∀ t ∈ ts, f t = 0) : (ts.map f).sum = 0 := by
  induction ts with
  | nil => rfl
  | cons x xs ih =>
    simp only [List.map_cons, List.sum_cons]
    rw [h x List.mem_cons_self, ih (fun t ht => h t (List.mem_cons_of_mem _ ht))]

theorem le_sum_map {α : Type} (f : α → Nat) (ts : List α) (i : Nat) (t : α) (h : ts[i]? = some t) :
    f t ≤ (ts.map f).sum := by
  induction ts generalizing i with
  | nil => simp at h
  | cons x xs ih =>
    cases i with
    | zero =>
      simp only [List.getElem?_cons_zero, Option.some.injEq] at h
      subst h
      simp only [List.map_cons, List.sum_cons]
      omega
    | succ j =>
      simp only [List.getElem?_cons_succ] at h
      have := ih j h
      simp only [List.map_cons, List.sum_cons]
      omega

/-- What a step of the evaluation phase does to the guards: the reader counts move exactly as the
guards of the stepping thread do; the guards the thread is going to end with are unchanged; a call
that ends holds nothing. -/
theorem step_guards {w : World σ R} (h : EvalPhase w) {i : Nat} {t : Thread σ R}
    (ht : w.threads[i]? = some t) {a : Act σ R} {rest : List (Act σ R)} (hd : t.todo = a :: rest)
    (hge : ∀ k, t.heldR.count k ≤ (w.locks k).readers) :
    ∃ w' t', stepThread w i = .done w' ∧ w'.threads = w.threads.set i t' ∧
      (∀ k, (w'.locks k).readers + t.heldR.count k = (w.locks k).readers + t'.heldR.count k) ∧
      finalHeld t'.heldR t'.todo = finalHeld t.heldR t.todo ∧
      (t'.ending ≠ .running → t'.heldR = []) := by
  have hm : t ∈ w.threads := List.mem_of_getElem? ht
  have hsafe : a.evalSafe = true := h.safe t hm a (by rw [hd]; exact List.mem_cons_self)
  have hW : t.heldW = [] := h.noWriteGuard t hm
  have hrun : t.ending = .running := by
    cases he : t.ending with
    | running => rfl
    | panicked => have := h.ended t hm (by rw [he]; exact fun x => by cases x); rw [hd] at this; cases this
    | lockError => have := h.ended t hm (by rw [he]; exact fun x => by cases x); rw [hd] at this; cases this
  cases a with
  | acqRead l =>
    have hc := h.clean l
    refine ⟨{ w with locks := setLock w.locks l { w.locks l with readers := (w.locks l).readers + 1 }
                     threads := w.threads.set i { t with todo := rest, heldR := l :: t.heldR } },
      { t with todo := rest, heldR := l :: t.heldR }, ?_, rfl, ?_, ?_, ?_⟩
    · simp [stepThread, ht, hd, hc.1, hc.2]
    · intro k
      simp only [setLock]
      by_cases hk : k = l
      · subst hk; simp only [if_true, List.count_cons_self]; omega
      · have hlk : (l == k) = false := by simpa using fun h => hk h.symm
        simp [hk, List.count_cons, hlk]
    · rw [hd]; simp [finalHeld]
    · intro hne; exact absurd hrun hne
  | relRead l =>
    by_cases hl : l ∈ t.heldR
    · refine ⟨{ w with locks := setLock w.locks l { w.locks l with readers := (w.locks l).readers - 1 }
                       threads := w.threads.set i { t with todo := rest, heldR := t.heldR.erase l } },
        { t with todo := rest, heldR := t.heldR.erase l }, ?_, rfl, ?_, ?_, ?_⟩
      · simp [stepThread, ht, hd, hl]
      · intro k
        simp only [setLock]
        by_cases hk : k = l
        · subst hk
          have hpos : 0 < t.heldR.count k := List.count_pos_iff.mpr hl
          have := hge k
          simp only [if_true, List.count_erase_self]
          omega
        · simp [hk]
      · rw [hd]; simp [finalHeld]
      · intro hne; exact absurd hrun hne
    · refine ⟨{ w with threads := w.threads.set i { t with todo := rest } }, { t with todo := rest },
        ?_, rfl, fun _ => rfl, ?_, ?_⟩
      · simp [stepThread, ht, hd, hl]
      · rw [hd]; simp [finalHeld, List.erase_of_not_mem hl]
      · intro hne; exact absurd hrun hne
  | acqWrite l => simp [Act.evalSafe] at hsafe
  | relWrite l => simp [Act.evalSafe] at hsafe
  | mutate g => simp [Act.evalSafe] at hsafe
  | compute f =>
    refine ⟨{ w with threads := w.threads.set i { t with todo := rest, st := f w.reg t.st } },
      { t with todo := rest, st := f w.reg t.st }, ?_, rfl, fun _ => rfl, ?_, ?_⟩
    · simp [stepThread, ht, hd]
    · rw [hd]; simp [finalHeld]
    · intro hne; exact absurd hrun hne
  | panic =>
    refine ⟨unwind w i t .panicked, { t with todo := [], heldR := [], heldW := [], ending := .panicked },
      ?_, rfl, ?_, ?_, fun _ => rfl⟩
    · simp [stepThread, ht, hd]
    · intro k
      have := hge k
      simp only [unwind, hW, dropWrites, dropReads_readers, List.count_nil]
      omega
    · rw [hd]; simp [finalHeld]

/-- a program that ends with nothing held still does so when a release is appended -/
theorem finalHeld_append_rel (p : List (Act σ R)) (h : List Nat) (x : Nat) (hp : finalHeld h p = []) :
    finalHeld h (p ++ [.relRead x]) = [] := by
  induction p generalizing h with
  | nil =>
    simp only [finalHeld] at hp
    subst hp
    simp [finalHeld]
  | cons a rest ih =>
    cases a with
    | acqRead l => exact ih (l :: h) (by simpa [finalHeld] using hp)
    | relRead l => exact ih (h.erase l) (by simpa [finalHeld] using hp)
    | acqWrite l => exact ih h (by simpa [finalHeld] using hp)
    | relWrite l => exact ih h (by simpa [finalHeld] using hp)
    | compute f => exact ih h (by simpa [finalHeld] using hp)
    | mutate g => exact ih h (by simpa [finalHeld] using hp)
    | panic => simp [finalHeld]

/-- Frame: a program that releases what it takes (and possibly guards it never took: a no-op), run
under one more guard `x` taken before it and released after it, ends with nothing held. -/
theorem finalHeld_wrapped (p : List (Act σ R)) (h : List Nat) (x : Nat) (hp : finalHeld h p = []) :
    finalHeld (h ++ [x]) (p ++ [.relRead x]) = [] := by
  induction p generalizing h with
  | nil =>
    simp only [finalHeld] at hp
    subst hp
    simp [finalHeld]
  | cons a rest ih =>
    cases a with
    | acqRead l => exact ih (l :: h) (by simpa [finalHeld] using hp)
    | relRead l =>
      simp only [finalHeld] at hp
      simp only [List.cons_append, finalHeld]
      by_cases hl : l ∈ h
      · rw [List.erase_append_left _ hl]
        exact ih (h.erase l) hp
      · rw [List.erase_append_right _ hl]
        rw [List.erase_of_not_mem hl] at hp
        by_cases hx : l = x
        · subst hx
          simp only [List.erase_cons_head, List.append_nil]
          exact finalHeld_append_rel rest h l hp
        · have : [x].erase l = [x] := List.erase_of_not_mem (by simpa using hx)
          rw [this]
          exact ih h hp
    | acqWrite l => exact ih h (by simpa [finalHeld] using hp)
    | relWrite l => exact ih h (by simpa [finalHeld] using hp)
    | compute f => exact ih h (by simpa [finalHeld] using hp)
    | mutate g => exact ih h (by simpa [finalHeld] using hp)
    | panic => simp [finalHeld]

theorem accounted_applyStep {w : World σ R} (h : EvalPhase w) (ha : Accounted w) (i : Nat) :
    Accounted (applyStep w i) := by
  unfold applyStep
  cases ht : w.threads[i]? with
  | none => simp [stepThread, ht]; exact ha
  | some t =>
    cases hd : t.todo with
    | nil => simp [stepThread, ht, hd]; exact ha
    | cons a rest =>
      have hge : ∀ k, t.heldR.count k ≤ (w.locks k).readers := by
        intro k
        rw [ha.readers k]
        exact le_sum_map (fun t => t.heldR.count k) w.threads i t ht
      obtain ⟨w', t', hs, hth, hr, hf, he⟩ := step_guards h ht hd hge
      rw [hs]
      refine ⟨?_, ?_, ?_⟩
      · intro k
        have h1 := hr k
        have h2 := sum_map_set (fun t => t.heldR.count k) w.threads i t t' ht
        have h3 := ha.readers k
        simp only [heldReads] at h3 ⊢
        rw [hth]
        omega
      · intro u hu hne
        rw [hth] at hu
        rcases List.mem_or_eq_of_mem_set hu with hm | rfl
        · exact ha.endedFree u hm hne
        · exact he hne
      · intro u hu
        rw [hth] at hu
        rcases List.mem_or_eq_of_mem_set hu with hm | rfl
        · exact ha.bracketed u hm
        · rw [hf]; exact ha.bracketed t (List.mem_of_getElem? ht)

theorem accounted_run {w : World σ R} (h : EvalPhase w) (ha : Accounted w) (sched : List Nat) :
    Accounted (run w sched) := by
  induction sched generalizing w with
  | nil => exact ha
  | cons i sched ih => exact ih (evalPhase_applyStep h i) (accounted_applyStep h ha i)

end Dmn.ConcP
