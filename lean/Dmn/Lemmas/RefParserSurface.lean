import Dmn.Lemmas.RefParserRoundTrip

/-!
# C06 — when the lexer's `between` flag hands the grammar the intended tokens

`relex` replays the flag of `lexer.rs:276-284` on a token list.  For a tree that is
`betweenSafe` the printed token list is a fixed point: every `band` is met with the flag
set and every `kand` with the flag clear.
-/

namespace Dmn.Ref

/-- `relex f` leaves the prefix `p` alone and hands the flag on unchanged. -/
def Passes (f : Bool) (p : List Tok) : Prop := ∀ rest, relex f (p ++ rest) = p ++ relex f rest

theorem passes_nil (f : Bool) : Passes f [] := fun _ => rfl

theorem passes_append {f : Bool} {p q : List Tok} (hp : Passes f p) (hq : Passes f q) : Passes f (p ++ q) := by
  intro rest
  rw [List.append_assoc, hp, hq, List.append_assoc]

theorem passes_single {f : Bool} {t : Tok} (h1 : t ≠ .between) (h2 : t ≠ .kand) (h3 : t ≠ .band) :
    Passes f [t] := by
  intro rest
  cases t <;> simp_all [relex]

theorem passes_cons {f : Bool} {t : Tok} {p : List Tok} (h1 : t ≠ .between) (h2 : t ≠ .kand) (h3 : t ≠ .band)
    (hp : Passes f p) : Passes f (t :: p) :=
  passes_append (p := [t]) (passes_single h1 h2 h3) hp

/-- Tokens the flag does not look at. -/
def isPlain : Tok → Bool
  | .between => false
  | .kand => false
  | .band => false
  | _ => true

theorem pcons {f : Bool} {t : Tok} {p : List Tok} (h : isPlain t = true) (hp : Passes f p) : Passes f (t :: p) := by
  apply passes_cons _ _ _ hp <;> (intro h'; subst h'; simp [isPlain] at h)

theorem psingle {f : Bool} {t : Tok} (h : isPlain t = true) : Passes f [t] := by
  simpa using pcons (p := []) h (passes_nil f)

theorem passes_par {f : Bool} {p : List Tok} (w : Bool) (hp : Passes f p) : Passes f (par w p) := by
  cases w with
  | false => exact hp
  | true =>
    rw [par_true]
    exact pcons rfl (passes_append hp (psingle rfl))

theorem passes_prQual (f : Bool) : ∀ qs, Passes f (prQual qs)
  | [] => passes_nil f
  | _ :: qs => pcons rfl (pcons rfl (passes_prQual f qs))

theorem passes_prEnd (f : Bool) : ∀ e, Passes f (prEnd e)
  | .qn _ qs => pcons rfl (passes_prQual f qs)
  | .num _ => psingle rfl
  | .lit _ => psingle rfl

theorem passes_prParamsTail (f : Bool) : ∀ ps, Passes f (prParamsTail ps)
  | [] => psingle rfl
  | _ :: ps => pcons rfl (pcons rfl (passes_prParamsTail f ps))

theorem passes_prParams (f : Bool) : ∀ ps, Passes f (prParams ps)
  | [] => psingle rfl
  | _ :: ps => pcons rfl (passes_prParamsTail f ps)

theorem tokOf_plain {o : BinOp} (h : o ≠ .and) : isPlain (tokOf o) = true := by
  cases o <;> simp_all [tokOf, isPlain]

theorem atomTok_plain (a : Atom) : isPlain (atomTok a) = true := by cases a <;> rfl
theorem startTok_plain (b : Bra) : isPlain (startTok b) = true := by cases b <;> rfl
theorem endTok_plain (b : Bra) : isPlain (endTok b) = true := by cases b <;> rfl
theorem cmpTok_plain (c : Cmp) : isPlain (cmpTok c) = true := by cases c <;> rfl
theorem keyTok_plain (k : Key) : isPlain (keyTok k) = true := by cases k <;> rfl
theorem quantTok_plain (ev : Bool) : isPlain (quantTok ev) = true := by cases ev <;> rfl

-- Without `and` and `between` inside, the rendering passes under either flag.
mutual
theorem passes_noAnd (m : Mode) (f : Bool) : ∀ t : Tree, noAnd t = true → Passes f (pr m t)
  | .atom a, _ => by
    simp only [pr]
    exact psingle (atomTok_plain a)
  | .bin o l r, h => by
    simp [noAnd] at h
    simp only [pr]
    exact passes_append (passes_par _ (passes_noAnd m f l h.1.2)) (pcons (tokOf_plain h.1.1) (passes_par _ (passes_noAnd m f r h.2)))
  | .between _ _ _, h => by simp [noAnd] at h
  | .neg e, h => by
    simp [noAnd] at h
    simp only [pr]
    exact pcons rfl (passes_par _ (passes_noAnd m f e h))
  | .instOf e q qs, h => by
    simp [noAnd] at h
    simp only [pr]
    exact passes_append (passes_par _ (passes_noAnd m f e h)) (pcons rfl (pcons rfl (pcons rfl (passes_prQual f qs))))
  | .path e n, h => by
    simp [noAnd] at h
    simp only [pr]
    exact passes_append (passes_par _ (passes_noAnd m f e h)) (pcons rfl (psingle rfl))
  | .filter e i, h => by
    simp [noAnd] at h
    simp only [pr]
    exact passes_append (passes_par _ (passes_noAnd m f e h.1)) (pcons rfl (passes_append (passes_par _ (passes_noAnd m f i h.2)) (psingle rfl)))
  | .call g as, h => by
    simp [noAnd] at h
    simp only [pr]
    exact passes_append (passes_par _ (passes_noAnd m f g h.1)) (pcons rfl (passes_noAndArgs m f .rparen rfl as h.2))
  | .callNamed g n v bs, h => by
    simp [noAnd] at h
    simp only [pr]
    exact passes_append (passes_par _ (passes_noAnd m f g h.1.1)) (pcons rfl (pcons rfl (pcons rfl
      (passes_append (passes_par _ (passes_noAnd m f v h.1.2)) (passes_noAndBindsTail m f .colon .rparen rfl rfl bs h.2)))))
  | .inList e a b more, h => by
    simp [noAnd] at h
    simp only [pr]
    exact passes_append (passes_par _ (passes_noAnd m f e h.1.1.1)) (pcons rfl (pcons rfl (passes_append (passes_par _ (passes_noAnd m f a h.1.1.2))
      (pcons rfl (passes_append (passes_par _ (passes_noAnd m f b h.1.2)) (passes_noAndArgsTail m f .rparen rfl more h.2))))))
  | .ite c a b, h => by
    simp [noAnd] at h
    simp only [pr]
    exact pcons rfl (passes_append (passes_par _ (passes_noAnd m f c h.1.1)) (pcons rfl (passes_append (passes_par _ (passes_noAnd m f a h.1.2)) (pcons rfl (passes_par _ (passes_noAnd m f b h.2))))))
  | .forS v d its body, h => by
    simp [noAnd] at h
    simp only [pr]
    exact pcons rfl (pcons rfl (pcons rfl (passes_append (passes_par _ (passes_noAnd m f d h.1.1))
      (passes_append (passes_noAndItersTail m f its h.1.2) (passes_par _ (passes_noAnd m f body h.2))))))
  | .forR v lo hi its body, h => by
    simp [noAnd] at h
    simp only [pr]
    exact pcons rfl (pcons rfl (pcons rfl (passes_append (passes_par _ (passes_noAnd m f lo h.1.1.1)) (pcons rfl (passes_append (passes_par _ (passes_noAnd m f hi h.1.1.2))
      (passes_append (passes_noAndItersTail m f its h.1.2) (passes_par _ (passes_noAnd m f body h.2))))))))
  | .quant ev v d qs body, h => by
    simp [noAnd] at h
    simp only [pr]
    exact pcons (quantTok_plain ev) (pcons rfl (pcons rfl (passes_append (passes_par _ (passes_noAnd m f d h.1.1))
      (passes_append (passes_noAndBindsTail m f .kin .ksatisfies rfl rfl qs h.1.2) (passes_par _ (passes_noAnd m f body h.2))))))
  | .fn ps body, h => by
    simp [noAnd] at h
    simp only [pr]
    exact pcons rfl (pcons rfl (passes_append (passes_prParams f ps) (passes_par _ (passes_noAnd m f body h))))
  | .list items, h => by
    simp [noAnd] at h
    simp only [pr]
    exact pcons rfl (passes_noAndArgs m f .rbrack rfl items h)
  | .ctx es, h => by
    simp [noAnd] at h
    simp only [pr]
    exact pcons rfl (passes_noAndEntries m f es h)
  | .range b1 lo hi b2, _ => by
    simp only [pr]
    exact pcons (startTok_plain b1) (passes_append (passes_prEnd f lo)
      (pcons rfl (passes_append (passes_prEnd f hi) (psingle (endTok_plain b2)))))
  | .utest c e, _ => by
    simp only [pr]
    exact pcons (cmpTok_plain c) (passes_prEnd f e)
theorem passes_noAndArgs (m : Mode) (f : Bool) (close : Tok) (hc : isPlain close = true) : ∀ as : Args, noAndArgs as = true → Passes f (prArgs m close as)
  | .nil, _ => by
    simp only [prArgs]
    exact psingle hc
  | .cons a as, h => by
    simp [noAndArgs] at h
    simp only [prArgs]
    exact passes_append (passes_par _ (passes_noAnd m f a h.1)) (passes_noAndArgsTail m f close hc as h.2)
theorem passes_noAndArgsTail (m : Mode) (f : Bool) (close : Tok) (hc : isPlain close = true) : ∀ as : Args, noAndArgs as = true → Passes f (prArgsTail m close as)
  | .nil, _ => by
    simp only [prArgsTail]
    exact psingle hc
  | .cons a as, h => by
    simp [noAndArgs] at h
    simp only [prArgsTail]
    exact pcons rfl (passes_append (passes_par _ (passes_noAnd m f a h.1)) (passes_noAndArgsTail m f close hc as h.2))
theorem passes_noAndBindsTail (m : Mode) (f : Bool) (sep close : Tok) (hs : isPlain sep = true) (hc : isPlain close = true) :
    ∀ bs : Binds, noAndBinds bs = true → Passes f (prBindsTail m sep close bs)
  | .nil, _ => by
    simp only [prBindsTail]
    exact psingle hc
  | .cons n v bs, h => by
    simp [noAndBinds] at h
    simp only [prBindsTail]
    exact pcons rfl (pcons rfl (pcons hs (passes_append (passes_par _ (passes_noAnd m f v h.1)) (passes_noAndBindsTail m f sep close hs hc bs h.2))))
theorem passes_noAndEntries (m : Mode) (f : Bool) : ∀ es : Entries, noAndEntries es = true → Passes f (prEntries m es)
  | .nil, _ => by
    simp only [prEntries]
    exact psingle rfl
  | .cons k v es, h => by
    simp [noAndEntries] at h
    simp only [prEntries]
    exact pcons (keyTok_plain k) (pcons rfl (passes_append (passes_par _ (passes_noAnd m f v h.1)) (passes_noAndEntriesTail m f es h.2)))
theorem passes_noAndEntriesTail (m : Mode) (f : Bool) : ∀ es : Entries, noAndEntries es = true → Passes f (prEntriesTail m es)
  | .nil, _ => by
    simp only [prEntriesTail]
    exact psingle rfl
  | .cons k v es, h => by
    simp [noAndEntries] at h
    simp only [prEntriesTail]
    exact pcons rfl (pcons (keyTok_plain k) (pcons rfl (passes_append (passes_par _ (passes_noAnd m f v h.1)) (passes_noAndEntriesTail m f es h.2))))
theorem passes_noAndItersTail (m : Mode) (f : Bool) : ∀ its : Iters, noAndIters its = true → Passes f (prItersTail m its)
  | .nil, _ => by
    simp only [prItersTail]
    exact psingle rfl
  | .single v d its, h => by
    simp [noAndIters] at h
    simp only [prItersTail]
    exact pcons rfl (pcons rfl (pcons rfl (passes_append (passes_par _ (passes_noAnd m f d h.1)) (passes_noAndItersTail m f its h.2))))
  | .range v lo hi its, h => by
    simp [noAndIters] at h
    simp only [prItersTail]
    exact pcons rfl (pcons rfl (pcons rfl (passes_append (passes_par _ (passes_noAnd m f lo h.1.1)) (pcons rfl
      (passes_append (passes_par _ (passes_noAnd m f hi h.1.2)) (passes_noAndItersTail m f its h.2))))))
end

theorem relex_between (ts : List Tok) : relex false (.between :: ts) = .between :: relex true ts := rfl
theorem relex_band_true (ts : List Tok) : relex true (.band :: ts) = .band :: relex false ts := rfl
theorem relex_kand_false (ts : List Tok) : relex false (.kand :: ts) = .kand :: relex false ts := rfl

-- A `betweenSafe` tree passes under the clear flag (and leaves it clear).
mutual
theorem passes_safe (m : Mode) : ∀ t : Tree, betweenSafe t = true → Passes false (pr m t)
  | .atom a, _ => by
    simp only [pr]
    exact psingle (atomTok_plain a)
  | .bin o l r, h => by
    simp [betweenSafe] at h
    simp only [pr]
    refine passes_append (passes_par _ (passes_safe m l h.1)) ?_
    have hr := passes_par (wrapped m (needs m (.binR o) r) r) (passes_safe m r h.2)
    by_cases ho : o = .and
    · subst ho
      intro rest
      simp only [tokOf, List.cons_append]
      rw [relex_kand_false, hr]
    · exact pcons (tokOf_plain ho) hr
  | .between e lo hi, h => by
    simp [betweenSafe] at h
    simp only [pr]
    refine passes_append (passes_par _ (passes_safe m e h.1.1)) ?_
    have hlo := passes_par (wrapped m (needs m .betweenLo lo) lo) (passes_noAnd m true lo h.1.2)
    have hhi := passes_par (wrapped m (needs m .betweenHi hi) hi) (passes_safe m hi h.2)
    intro rest
    simp only [List.cons_append, List.append_assoc]
    rw [relex_between, hlo, relex_band_true, hhi]
  | .neg e, h => by
    simp [betweenSafe] at h
    simp only [pr]
    exact pcons rfl (passes_par _ (passes_safe m e h))
  | .instOf e q qs, h => by
    simp [betweenSafe] at h
    simp only [pr]
    exact passes_append (passes_par _ (passes_safe m e h)) (pcons rfl (pcons rfl (pcons rfl (passes_prQual false qs))))
  | .path e n, h => by
    simp [betweenSafe] at h
    simp only [pr]
    exact passes_append (passes_par _ (passes_safe m e h)) (pcons rfl (psingle rfl))
  | .filter e i, h => by
    simp [betweenSafe] at h
    simp only [pr]
    exact passes_append (passes_par _ (passes_safe m e h.1)) (pcons rfl (passes_append (passes_par _ (passes_safe m i h.2)) (psingle rfl)))
  | .call g as, h => by
    simp [betweenSafe] at h
    simp only [pr]
    exact passes_append (passes_par _ (passes_safe m g h.1)) (pcons rfl (passes_safeArgs m .rparen rfl as h.2))
  | .callNamed g n v bs, h => by
    simp [betweenSafe] at h
    simp only [pr]
    exact passes_append (passes_par _ (passes_safe m g h.1.1)) (pcons rfl (pcons rfl (pcons rfl
      (passes_append (passes_par _ (passes_safe m v h.1.2)) (passes_safeBindsTail m .colon .rparen rfl rfl bs h.2)))))
  | .inList e a b more, h => by
    simp [betweenSafe] at h
    simp only [pr]
    exact passes_append (passes_par _ (passes_safe m e h.1.1.1)) (pcons rfl (pcons rfl (passes_append (passes_par _ (passes_safe m a h.1.1.2))
      (pcons rfl (passes_append (passes_par _ (passes_safe m b h.1.2)) (passes_safeArgsTail m .rparen rfl more h.2))))))
  | .ite c a b, h => by
    simp [betweenSafe] at h
    simp only [pr]
    exact pcons rfl (passes_append (passes_par _ (passes_safe m c h.1.1)) (pcons rfl (passes_append (passes_par _ (passes_safe m a h.1.2)) (pcons rfl (passes_par _ (passes_safe m b h.2))))))
  | .forS v d its body, h => by
    simp [betweenSafe] at h
    simp only [pr]
    exact pcons rfl (pcons rfl (pcons rfl (passes_append (passes_par _ (passes_safe m d h.1.1))
      (passes_append (passes_safeItersTail m its h.1.2) (passes_par _ (passes_safe m body h.2))))))
  | .forR v lo hi its body, h => by
    simp [betweenSafe] at h
    simp only [pr]
    exact pcons rfl (pcons rfl (pcons rfl (passes_append (passes_par _ (passes_safe m lo h.1.1.1)) (pcons rfl (passes_append (passes_par _ (passes_safe m hi h.1.1.2))
      (passes_append (passes_safeItersTail m its h.1.2) (passes_par _ (passes_safe m body h.2))))))))
  | .quant ev v d qs body, h => by
    simp [betweenSafe] at h
    simp only [pr]
    exact pcons (quantTok_plain ev) (pcons rfl (pcons rfl (passes_append (passes_par _ (passes_safe m d h.1.1))
      (passes_append (passes_safeBindsTail m .kin .ksatisfies rfl rfl qs h.1.2) (passes_par _ (passes_safe m body h.2))))))
  | .fn ps body, h => by
    simp [betweenSafe] at h
    simp only [pr]
    exact pcons rfl (pcons rfl (passes_append (passes_prParams false ps) (passes_par _ (passes_safe m body h))))
  | .list items, h => by
    simp [betweenSafe] at h
    simp only [pr]
    exact pcons rfl (passes_safeArgs m .rbrack rfl items h)
  | .ctx es, h => by
    simp [betweenSafe] at h
    simp only [pr]
    exact pcons rfl (passes_safeEntries m es h)
  | .range b1 lo hi b2, _ => by
    simp only [pr]
    exact pcons (startTok_plain b1) (passes_append (passes_prEnd false lo)
      (pcons rfl (passes_append (passes_prEnd false hi) (psingle (endTok_plain b2)))))
  | .utest c e, _ => by
    simp only [pr]
    exact pcons (cmpTok_plain c) (passes_prEnd false e)
theorem passes_safeArgs (m : Mode) (close : Tok) (hc : isPlain close = true) : ∀ as : Args, betweenSafeArgs as = true → Passes false (prArgs m close as)
  | .nil, _ => by
    simp only [prArgs]
    exact psingle hc
  | .cons a as, h => by
    simp [betweenSafeArgs] at h
    simp only [prArgs]
    exact passes_append (passes_par _ (passes_safe m a h.1)) (passes_safeArgsTail m close hc as h.2)
theorem passes_safeArgsTail (m : Mode) (close : Tok) (hc : isPlain close = true) : ∀ as : Args, betweenSafeArgs as = true → Passes false (prArgsTail m close as)
  | .nil, _ => by
    simp only [prArgsTail]
    exact psingle hc
  | .cons a as, h => by
    simp [betweenSafeArgs] at h
    simp only [prArgsTail]
    exact pcons rfl (passes_append (passes_par _ (passes_safe m a h.1)) (passes_safeArgsTail m close hc as h.2))
theorem passes_safeBindsTail (m : Mode) (sep close : Tok) (hs : isPlain sep = true) (hc : isPlain close = true) :
    ∀ bs : Binds, betweenSafeBinds bs = true → Passes false (prBindsTail m sep close bs)
  | .nil, _ => by
    simp only [prBindsTail]
    exact psingle hc
  | .cons n v bs, h => by
    simp [betweenSafeBinds] at h
    simp only [prBindsTail]
    exact pcons rfl (pcons rfl (pcons hs (passes_append (passes_par _ (passes_safe m v h.1)) (passes_safeBindsTail m sep close hs hc bs h.2))))
theorem passes_safeEntries (m : Mode) : ∀ es : Entries, betweenSafeEntries es = true → Passes false (prEntries m es)
  | .nil, _ => by
    simp only [prEntries]
    exact psingle rfl
  | .cons k v es, h => by
    simp [betweenSafeEntries] at h
    simp only [prEntries]
    exact pcons (keyTok_plain k) (pcons rfl (passes_append (passes_par _ (passes_safe m v h.1)) (passes_safeEntriesTail m es h.2)))
theorem passes_safeEntriesTail (m : Mode) : ∀ es : Entries, betweenSafeEntries es = true → Passes false (prEntriesTail m es)
  | .nil, _ => by
    simp only [prEntriesTail]
    exact psingle rfl
  | .cons k v es, h => by
    simp [betweenSafeEntries] at h
    simp only [prEntriesTail]
    exact pcons rfl (pcons (keyTok_plain k) (pcons rfl (passes_append (passes_par _ (passes_safe m v h.1)) (passes_safeEntriesTail m es h.2))))
theorem passes_safeItersTail (m : Mode) : ∀ its : Iters, betweenSafeIters its = true → Passes false (prItersTail m its)
  | .nil, _ => by
    simp only [prItersTail]
    exact psingle rfl
  | .single v d its, h => by
    simp [betweenSafeIters] at h
    simp only [prItersTail]
    exact pcons rfl (pcons rfl (pcons rfl (passes_append (passes_par _ (passes_safe m d h.1)) (passes_safeItersTail m its h.2))))
  | .range v lo hi its, h => by
    simp [betweenSafeIters] at h
    simp only [prItersTail]
    exact pcons rfl (pcons rfl (pcons rfl (passes_append (passes_par _ (passes_safe m lo h.1.1)) (pcons rfl
      (passes_append (passes_par _ (passes_safe m hi h.1.2)) (passes_safeItersTail m its h.2))))))
end

/-- The lexer's flag reproduces the printed tokens of a `betweenSafe` tree. -/
theorem relex_print (m : Mode) (t : Tree) (h : betweenSafe t = true) : relex false (print m t) = print m t := by
  have := passes_safe m t h []
  simpa [print, relex] using this

end Dmn.Ref
