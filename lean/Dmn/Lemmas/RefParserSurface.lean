import Dmn.Lemmas.RefParserRoundTrip

/-!
# C06 — when the lexer's `between` flag hands the grammar the intended tokens

`relex` replays the flag of `lexer.rs:276-284` on a token list.  For a tree that is
`betweenSafe` the printed token list is a fixed point: every `band` is met with the flag
set and every `kand` with the flag clear.
-/

namespace Dmn.Ref

/-- `relex f` leaves the prefix `p` alone and hands the flag on unchanged. -/
def Passes (f : Bool) (p : List Tok) : Prop := ∀ rest, relex f (p ++ rest) = p ++ relex f rest

theorem passes_nil (f : Bool) : Passes f [] := fun _ => rfl

theorem passes_append {f : Bool} {p q : List Tok} (hp : Passes f p) (hq : Passes f q) : Passes f (p ++ q) := by
  intro rest
  rw [List.append_assoc, hp, hq, List.append_assoc]

theorem passes_single {f : Bool} {t : Tok} (h1 : t ≠ .between) (h2 : t ≠ .kand) (h3 : t ≠ .band) :
    Passes f [t] := by
  intro rest
  cases t <;> simp_all [relex]

theorem passes_cons {f : Bool} {t : Tok} {p : List Tok} (h1 : t ≠ .between) (h2 : t ≠ .kand) (h3 : t ≠ .band)
    (hp : Passes f p) : Passes f (t :: p) :=
  passes_append (p := [t]) (passes_single h1 h2 h3) hp

theorem passes_par {f : Bool} {p : List Tok} (w : Bool) (hp : Passes f p) : Passes f (par w p) := by
  cases w with
  | false => exact hp
  | true =>
    rw [par_true]
    exact passes_cons (by simp) (by simp) (by simp) (passes_append hp (passes_single (by simp) (by simp) (by simp)))

theorem passes_prQual (f : Bool) : ∀ qs, Passes f (prQual qs)
  | [] => passes_nil f
  | _ :: qs => passes_cons (by simp) (by simp) (by simp)
      (passes_cons (by simp) (by simp) (by simp) (passes_prQual f qs))

theorem tokOf_plain {o : BinOp} (h : o ≠ .and) : tokOf o ≠ .between ∧ tokOf o ≠ .kand ∧ tokOf o ≠ .band := by
  cases o <;> simp_all [tokOf]

theorem atomTok_plain (a : Atom) : atomTok a ≠ .between ∧ atomTok a ≠ .kand ∧ atomTok a ≠ .band := by
  cases a <;> simp [atomTok]

mutual
/-- Without `and` and `between` inside, the rendering passes under either flag. -/
theorem passes_noAnd (m : Mode) (f : Bool) : ∀ t : Tree, noAnd t = true → Passes f (pr m t)
  | .atom a, _ => by
    simp only [pr]
    exact passes_single (atomTok_plain a).1 (atomTok_plain a).2.1 (atomTok_plain a).2.2
  | .bin o l r, h => by
    simp [noAnd] at h
    have ho := tokOf_plain h.1.1
    simp only [pr]
    exact passes_append (passes_par _ (passes_noAnd m f l h.1.2))
      (passes_cons ho.1 ho.2.1 ho.2.2 (passes_par _ (passes_noAnd m f r h.2)))
  | .neg e, h => by
    simp [noAnd] at h
    simp only [pr]
    exact passes_cons (by simp) (by simp) (by simp) (passes_par _ (passes_noAnd m f e h))
  | .between _ _ _, h => by simp [noAnd] at h
  | .instOf e q qs, h => by
    simp [noAnd] at h
    simp only [pr]
    exact passes_append (passes_par _ (passes_noAnd m f e h))
      (passes_cons (by simp) (by simp) (by simp) (passes_cons (by simp) (by simp) (by simp)
        (passes_cons (by simp) (by simp) (by simp) (passes_prQual f qs))))
  | .path e n, h => by
    simp [noAnd] at h
    simp only [pr]
    exact passes_append (passes_par _ (passes_noAnd m f e h))
      (passes_cons (by simp) (by simp) (by simp) (passes_single (by simp) (by simp) (by simp)))
  | .filter e i, h => by
    simp [noAnd] at h
    simp only [pr]
    exact passes_append (passes_par _ (passes_noAnd m f e h.1))
      (passes_cons (by simp) (by simp) (by simp)
        (passes_append (passes_par _ (passes_noAnd m f i h.2)) (passes_single (by simp) (by simp) (by simp))))
  | .call g as, h => by
    simp [noAnd] at h
    simp only [pr]
    exact passes_append (passes_par _ (passes_noAnd m f g h.1))
      (passes_cons (by simp) (by simp) (by simp) (passes_noAndArgs m f as h.2))
theorem passes_noAndArgs (m : Mode) (f : Bool) : ∀ as : Args, noAndArgs as = true → Passes f (prArgs m as)
  | .nil, _ => by
    simp only [prArgs]
    exact passes_single (by simp) (by simp) (by simp)
  | .cons a as, h => by
    simp [noAndArgs] at h
    simp only [prArgs]
    exact passes_append (passes_par _ (passes_noAnd m f a h.1)) (passes_noAndArgsTail m f as h.2)
theorem passes_noAndArgsTail (m : Mode) (f : Bool) : ∀ as : Args, noAndArgs as = true → Passes f (prArgsTail m as)
  | .nil, _ => by
    simp only [prArgsTail]
    exact passes_single (by simp) (by simp) (by simp)
  | .cons a as, h => by
    simp [noAndArgs] at h
    simp only [prArgsTail]
    exact passes_cons (by simp) (by simp) (by simp)
      (passes_append (passes_par _ (passes_noAnd m f a h.1)) (passes_noAndArgsTail m f as h.2))
end

theorem relex_between (ts : List Tok) : relex false (.between :: ts) = .between :: relex true ts := rfl
theorem relex_band_true (ts : List Tok) : relex true (.band :: ts) = .band :: relex false ts := rfl
theorem relex_kand_false (ts : List Tok) : relex false (.kand :: ts) = .kand :: relex false ts := rfl

mutual
/-- A `betweenSafe` tree passes under the clear flag (and leaves it clear). -/
theorem passes_safe (m : Mode) : ∀ t : Tree, betweenSafe t = true → Passes false (pr m t)
  | .atom a, _ => by
    simp only [pr]
    exact passes_single (atomTok_plain a).1 (atomTok_plain a).2.1 (atomTok_plain a).2.2
  | .bin o l r, h => by
    simp [betweenSafe] at h
    simp only [pr]
    refine passes_append (passes_par _ (passes_safe m l h.1)) ?_
    have hr := passes_par (wrapped m (needs m (.binR o) r) r) (passes_safe m r h.2)
    by_cases ho : o = .and
    · subst ho
      intro rest
      simp only [tokOf, List.cons_append]
      rw [relex_kand_false, hr]
    · have hp := tokOf_plain ho
      exact passes_cons hp.1 hp.2.1 hp.2.2 hr
  | .neg e, h => by
    simp [betweenSafe] at h
    simp only [pr]
    exact passes_cons (by simp) (by simp) (by simp) (passes_par _ (passes_safe m e h))
  | .between e lo hi, h => by
    simp [betweenSafe] at h
    simp only [pr]
    refine passes_append (passes_par _ (passes_safe m e h.1.1)) ?_
    have hlo := passes_par (wrapped m (needs m .betweenLo lo) lo) (passes_noAnd m true lo h.1.2)
    have hhi := passes_par (wrapped m (needs m .betweenHi hi) hi) (passes_safe m hi h.2)
    intro rest
    simp only [List.cons_append, List.append_assoc]
    rw [relex_between, hlo, relex_band_true, hhi]
  | .instOf e q qs, h => by
    simp [betweenSafe] at h
    simp only [pr]
    exact passes_append (passes_par _ (passes_safe m e h))
      (passes_cons (by simp) (by simp) (by simp) (passes_cons (by simp) (by simp) (by simp)
        (passes_cons (by simp) (by simp) (by simp) (passes_prQual false qs))))
  | .path e n, h => by
    simp [betweenSafe] at h
    simp only [pr]
    exact passes_append (passes_par _ (passes_safe m e h))
      (passes_cons (by simp) (by simp) (by simp) (passes_single (by simp) (by simp) (by simp)))
  | .filter e i, h => by
    simp [betweenSafe] at h
    simp only [pr]
    exact passes_append (passes_par _ (passes_safe m e h.1))
      (passes_cons (by simp) (by simp) (by simp)
        (passes_append (passes_par _ (passes_safe m i h.2)) (passes_single (by simp) (by simp) (by simp))))
  | .call g as, h => by
    simp [betweenSafe] at h
    simp only [pr]
    exact passes_append (passes_par _ (passes_safe m g h.1))
      (passes_cons (by simp) (by simp) (by simp) (passes_safeArgs m as h.2))
theorem passes_safeArgs (m : Mode) : ∀ as : Args, betweenSafeArgs as = true → Passes false (prArgs m as)
  | .nil, _ => by
    simp only [prArgs]
    exact passes_single (by simp) (by simp) (by simp)
  | .cons a as, h => by
    simp [betweenSafeArgs] at h
    simp only [prArgs]
    exact passes_append (passes_par _ (passes_safe m a h.1)) (passes_safeArgsTail m as h.2)
theorem passes_safeArgsTail (m : Mode) : ∀ as : Args, betweenSafeArgs as = true → Passes false (prArgsTail m as)
  | .nil, _ => by
    simp only [prArgsTail]
    exact passes_single (by simp) (by simp) (by simp)
  | .cons a as, h => by
    simp [betweenSafeArgs] at h
    simp only [prArgsTail]
    exact passes_cons (by simp) (by simp) (by simp)
      (passes_append (passes_par _ (passes_safe m a h.1)) (passes_safeArgsTail m as h.2))
end

/-- The lexer's flag reproduces the printed tokens of a `betweenSafe` tree. -/
theorem relex_print (m : Mode) (t : Tree) (h : betweenSafe t = true) : relex false (print m t) = print m t := by
  have := passes_safe m t h []
  simpa [print, relex] using this

end Dmn.Ref
