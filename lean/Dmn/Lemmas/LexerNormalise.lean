import Dmn.Model.Lexer

/-!
# `flatten_name_parts` agrees with `Name::new` on regular part lists

(Since b9aabe3 `consume_name` no longer calls `flatten_name_parts`; the function and its unit
tests remain in `lexer.rs`, and so does this lemma about it.)

A part list is *regular* when it is a word followed by words, each optionally preceded by one
additional symbol: no leading symbol, no trailing symbol, no two adjacent symbols; a word is a
non-empty list of characters that are neither white space (for `str::trim`) nor additional
symbols.
-/

namespace Dmn.Lexer

/-- A word: non-empty, no white space, no additional name symbol. -/
def wordOk (w : List Nat) : Bool :=
  !w.isEmpty && w.all (fun c => !isRustWhitespace c && !isAdditionalNameSymbol c)

/-- `(optional symbol before the word, word)`. -/
abbrev Seg := Option Nat × List Nat

def segOk (g : Seg) : Bool :=
  wordOk g.2 && (match g.1 with | some s => isAdditionalNameSymbol s | none => true)

def partsOf : List Seg → List (List Nat)
  | [] => []
  | (none, w) :: gs => w :: partsOf gs
  | (some s, w) :: gs => [s] :: w :: partsOf gs

/-- Recognises the part lists of the form `partsOf gs`. -/
def shapeOf : List (List Nat) → Option (List Seg)
  | [] => some []
  | [p] => if wordOk p then some [(none, p)] else none
  | p :: q :: ps =>
    if wordOk p then (shapeOf (q :: ps)).map ((none, p) :: ·)
    else
      match p with
      | [s] => if isAdditionalNameSymbol s && wordOk q then (shapeOf ps).map ((some s, q) :: ·) else none
      | _ => none

/-- The decidable hypothesis of `flatten_agrees_on_regular`. -/
def regularParts : List (List Nat) → Bool
  | [] => false
  | w0 :: ps => wordOk w0 && (shapeOf ps).isSome

theorem shapeOf_spec : ∀ (n : Nat) (ps : List (List Nat)) (gs : List Seg), ps.length ≤ n →
    shapeOf ps = some gs → ps = partsOf gs ∧ ∀ g ∈ gs, segOk g = true := by
  intro n
  induction n with
  | zero =>
    intro ps gs hn h
    have : ps = [] := List.eq_nil_of_length_eq_zero (by omega)
    subst this
    simp [shapeOf] at h
    subst h
    simp [partsOf]
  | succ n ih =>
    intro ps gs hn h
    match ps, h with
    | [], h =>
      simp [shapeOf] at h
      subst h
      simp [partsOf]
    | [p], h =>
      simp only [shapeOf] at h
      split at h
      · rename_i hp
        cases h
        simp [partsOf, segOk, hp]
      · cases h
    | p :: q :: ps, h =>
      simp only [shapeOf] at h
      split at h
      · rename_i hp
        cases hr : shapeOf (q :: ps) with
        | none => simp [hr] at h
        | some gs' =>
          simp [hr] at h
          subst h
          have := ih (q :: ps) gs' (by simp at hn ⊢; omega) hr
          refine ⟨by simp [partsOf, this.1], ?_⟩
          intro g hg
          rcases List.mem_cons.mp hg with h | h
          · subst h; simp [segOk, hp]
          · exact this.2 g h
      · split at h
        · rename_i s
          split at h
          · rename_i hs
            cases hr : shapeOf ps with
            | none => simp [hr] at h
            | some gs' =>
              simp [hr] at h
              subst h
              have := ih ps gs' (by simp at hn ⊢; omega) hr
              simp only [Bool.and_eq_true] at hs
              refine ⟨by simp [partsOf, this.1], ?_⟩
              intro g hg
              rcases List.mem_cons.mp hg with h | h
              · subst h; simp [segOk, hs.1, hs.2]
              · exact this.2 g h
          · cases h
        · cases h

/-! ## `trim` is the identity on words and on what is built from them -/

theorem dropWhile_id_of_head {p : Nat → Bool} : ∀ (l : List Nat), (∀ c, l.head? = some c → p c = false) →
    l.dropWhile p = l := by
  intro l h
  cases l with
  | nil => rfl
  | cons c cs =>
    have := h c rfl
    simp [this]

/-- A list whose first and last characters are not white space is not changed by `trim`. -/
theorem trim_id (l : List Nat) (hh : ∀ c, l.head? = some c → isRustWhitespace c = false)
    (hl : ∀ c, l.getLast? = some c → isRustWhitespace c = false) : trim l = l := by
  unfold trim
  rw [dropWhile_id_of_head l hh]
  rw [dropWhile_id_of_head l.reverse (by intro c hc; rw [List.head?_reverse] at hc; exact hl c hc)]
  simp

theorem wordOk_ne_nil {w : List Nat} (h : wordOk w = true) : w ≠ [] := by
  intro he; subst he; simp [wordOk] at h

theorem wordOk_all {w : List Nat} (h : wordOk w = true) :
    ∀ c ∈ w, isRustWhitespace c = false ∧ isAdditionalNameSymbol c = false := by
  intro c hc
  simp only [wordOk, Bool.and_eq_true, List.all_eq_true, Bool.not_eq_true'] at h
  exact h.2 c hc

theorem trim_word {w : List Nat} (h : wordOk w = true) : trim w = w := by
  apply trim_id
  · intro c hc
    exact (wordOk_all h c (List.mem_of_mem_head? hc)).1
  · intro c hc
    exact (wordOk_all h c (List.mem_of_mem_getLast? hc)).1

theorem sym_not_ws {s : Nat} (h : isAdditionalNameSymbol s = true) : isRustWhitespace s = false := by
  simp only [isAdditionalNameSymbol, Bool.or_eq_true, beq_iff_eq] at h
  rcases h with ((((h | h) | h) | h) | h) | h <;> subst h <;> decide

theorem trim_sym {s : Nat} (h : isAdditionalNameSymbol s = true) : trim [s] = [s] := by
  apply trim_id
  · intro c hc; simp at hc; subst hc; exact sym_not_ws h
  · intro c hc; simp at hc; subst hc; exact sym_not_ws h

theorem word_not_symbolPart {w : List Nat} (h : wordOk w = true) : isSymbolPart w = false := by
  unfold isSymbolPart
  split
  · rename_i c
    exact (wordOk_all h c (by simp)).2
  · rfl

/-! ## `Name::new` on a regular list -/

/-- The text `Name::new` gives to the segments after the first word. -/
def tightText : List Seg → List Nat
  | [] => []
  | (none, w) :: gs => 32 :: w ++ tightText gs
  | (some s, w) :: gs => s :: w ++ tightText gs

theorem nameNewGo_regular : ∀ (gs : List Seg), (∀ g ∈ gs, segOk g = true) →
    nameNewGo true false (partsOf gs) = tightText gs := by
  intro gs
  induction gs with
  | nil => intro _; rfl
  | cons g gs ih =>
    intro h
    have hg := h g (by simp)
    have ih' := ih (fun g' hg' => h g' (List.mem_cons_of_mem _ hg'))
    obtain ⟨sep, w⟩ := g
    simp only [segOk, Bool.and_eq_true] at hg
    have hw := hg.1
    have hne := wordOk_ne_nil hw
    cases sep with
    | none =>
      simp only [partsOf, nameNewGo, trim_word hw, word_not_symbolPart hw, tightText]
      have : w.isEmpty = false := by cases w <;> simp_all
      simp [this, ih']
    | some s =>
      have hs : isAdditionalNameSymbol s = true := hg.2
      have hsp : isSymbolPart [s] = true := by simp [isSymbolPart, hs]
      simp only [partsOf, nameNewGo, trim_sym hs, hsp, trim_word hw, word_not_symbolPart hw, tightText]
      simp [ih']

theorem nameNew_regular (w0 : List Nat) (gs : List Seg) (hw0 : wordOk w0 = true)
    (hgs : ∀ g ∈ gs, segOk g = true) : nameNew (w0 :: partsOf gs) = w0 ++ tightText gs := by
  unfold nameNew
  simp only [nameNewGo, trim_word hw0, word_not_symbolPart hw0]
  simp [nameNewGo_regular gs hgs]

/-! ## `flatten_name_parts` on a regular list -/

/-- How a separator is currently written. -/
inductive SepForm where
  | sp                -- a single blank between two words
  | spaced (s : Nat)  -- ` s `
  | tight (s : Nat)   -- `s`
  deriving DecidableEq

def sepText : SepForm → List Nat
  | .sp => [32]
  | .spaced s => [32, s, 32]
  | .tight s => [s]

def renderSegs : List (SepForm × List Nat) → List Nat
  | [] => []
  | (f, w) :: gs => sepText f ++ w ++ renderSegs gs

/-- One `replace(" x ", "x")` pass on a separator. -/
def passSep (x : Nat) : SepForm → SepForm
  | .spaced s => if s == x then .tight s else .spaced s
  | f => f

def sepFormOk : SepForm → Bool
  | .sp => true
  | .spaced s => isAdditionalNameSymbol s
  | .tight s => isAdditionalNameSymbol s

theorem passSep_sp (x : Nat) : passSep x .sp = .sp := rfl
theorem passSep_tight (x s : Nat) : passSep x (.tight s) = .tight s := rfl
theorem passSep_self (s : Nat) : passSep s (.spaced s) = .tight s := by simp [passSep]
theorem passSep_ne {x s : Nat} (h : (s == x) = false) : passSep x (.spaced s) = .spaced s := by
  simp [passSep, h]

theorem replaceSym_word (x : Nat) : ∀ (w rest : List Nat), (∀ c ∈ w, c ≠ 32) →
    replaceSym x 0 (w ++ rest) = w ++ replaceSym x 0 rest := by
  intro w
  induction w with
  | nil => intro rest _; rfl
  | cons c w ih =>
    intro rest h
    have hc : (c == 32) = false := by
      have := h c (by simp)
      simpa using this
    simp only [List.cons_append, replaceSym, hc, Bool.false_and]
    simp [ih rest (fun c' hc' => h c' (List.mem_cons_of_mem _ hc'))]

theorem word_no_blank {w : List Nat} (h : wordOk w = true) : ∀ c ∈ w, c ≠ 32 := by
  intro c hc he
  subst he
  have := (wordOk_all h 32 hc).1
  simp [isRustWhitespace] at this

theorem sym_ne_blank {s : Nat} (h : isAdditionalNameSymbol s = true) : (s == 32) = false := by
  simp only [isAdditionalNameSymbol, Bool.or_eq_true, beq_iff_eq] at h
  rcases h with ((((h | h) | h) | h) | h) | h <;> subst h <;> decide

theorem word_head_ne_sym {w : List Nat} {x : Nat} (hw : wordOk w = true)
    (hx : isAdditionalNameSymbol x = true) (rest : List Nat) : startsWith (w ++ rest) [x, 32] = false := by
  cases w with
  | nil => exact absurd rfl (wordOk_ne_nil hw)
  | cons a w =>
    have ha := (wordOk_all hw a (by simp)).2
    have : (a == x) = false := by
      cases hax : a == x with
      | false => rfl
      | true =>
        have : a = x := by simpa using hax
        subst this
        rw [hx] at ha
        cases ha
    simp [startsWith, this]

theorem replaceSym_segs (x : Nat) (hx : isAdditionalNameSymbol x = true) :
    ∀ (gs : List (SepForm × List Nat)), (∀ g ∈ gs, sepFormOk g.1 = true ∧ wordOk g.2 = true) →
      replaceSym x 0 (renderSegs gs) = renderSegs (gs.map (fun g => (passSep x g.1, g.2))) := by
  intro gs
  induction gs with
  | nil => intro _; rfl
  | cons g gs ih =>
    intro h
    obtain ⟨f, w⟩ := g
    have hg := h (f, w) (by simp)
    have hw : wordOk w = true := hg.2
    have ih' := ih (fun g' hg' => h g' (List.mem_cons_of_mem _ hg'))
    have hword : ∀ rest, replaceSym x 0 (w ++ rest) = w ++ replaceSym x 0 rest :=
      fun rest => replaceSym_word x w rest (word_no_blank hw)
    cases f with
    | sp =>
      simp only [renderSegs, sepText, List.map_cons, passSep_sp, List.cons_append, List.nil_append]
      have hsw := word_head_ne_sym hw hx (renderSegs gs)
      simp only [replaceSym, beq_self_eq_true, Bool.true_and, hsw]
      simp [hword, ih']
    | tight s =>
      have hs : isAdditionalNameSymbol s = true := hg.1
      simp only [renderSegs, sepText, List.map_cons, passSep_tight, List.cons_append, List.nil_append]
      simp only [replaceSym, sym_ne_blank hs, Bool.false_and]
      simp [hword, ih']
    | spaced s =>
      have hs : isAdditionalNameSymbol s = true := hg.1
      by_cases hsx : s = x
      · subst hsx
        simp only [renderSegs, sepText, List.map_cons, passSep_self, List.cons_append, List.nil_append]
        simp only [replaceSym, beq_self_eq_true, Bool.true_and, startsWith, Bool.and_self, if_true]
        simp [hword, ih']
      · have hne : (s == x) = false := by simpa using hsx
        simp only [renderSegs, sepText, List.map_cons, passSep_ne hne, List.cons_append, List.nil_append]
        have hsw := word_head_ne_sym hw hx (renderSegs gs)
        simp only [replaceSym, beq_self_eq_true, Bool.true_and, startsWith, hne, Bool.false_and,
          sym_ne_blank hs, hsw]
        simp [hword, ih']

/-- What `join(" ")` makes of the segments. -/
def spacedForm : Seg → SepForm × List Nat
  | (none, w) => (.sp, w)
  | (some s, w) => (.spaced s, w)

theorem joinSp_cons (p : List Nat) : ∀ (ps : List (List Nat)),
    joinSp (p :: ps) = p ++ (ps.flatMap (fun q => 32 :: q)) := by
  intro ps
  induction ps generalizing p with
  | nil => simp [joinSp]
  | cons q ps ih =>
    simp only [joinSp, List.flatMap_cons]
    rw [ih q]
    simp

theorem flatMap_partsOf : ∀ (gs : List Seg),
    (partsOf gs).flatMap (fun q => 32 :: q) = renderSegs (gs.map spacedForm) := by
  intro gs
  induction gs with
  | nil => rfl
  | cons g gs ih =>
    obtain ⟨sep, w⟩ := g
    cases sep with
    | none => simp [partsOf, spacedForm, renderSegs, sepText, ih]
    | some s => simp [partsOf, spacedForm, renderSegs, sepText, ih]

theorem map_trim_partsOf : ∀ (gs : List Seg), (∀ g ∈ gs, segOk g = true) →
    (partsOf gs).map trim = partsOf gs := by
  intro gs
  induction gs with
  | nil => intro _; rfl
  | cons g gs ih =>
    intro h
    have hg := h g (by simp)
    have ih' := ih (fun g' hg' => h g' (List.mem_cons_of_mem _ hg'))
    obtain ⟨sep, w⟩ := g
    simp only [segOk, Bool.and_eq_true] at hg
    cases sep with
    | none => simp [partsOf, trim_word hg.1, ih']
    | some s => simp [partsOf, trim_word hg.1, trim_sym hg.2, ih']

/-- After the passes for the symbols in `xs`, a separator ` s ` with `s ∈ xs` is written `s`. -/
def passAll (xs : List Nat) (f : SepForm) : SepForm := xs.foldl (fun f x => passSep x f) f

theorem passAll_sp (xs : List Nat) : passAll xs .sp = .sp := by
  induction xs with
  | nil => rfl
  | cons x xs ih => simpa [passAll, passSep] using ih

theorem passAll_tight (xs : List Nat) (s : Nat) : passAll xs (.tight s) = .tight s := by
  induction xs with
  | nil => rfl
  | cons x xs ih => simpa [passAll, passSep] using ih

theorem passAll_spaced (xs : List Nat) (s : Nat) (h : s ∈ xs) : passAll xs (.spaced s) = .tight s := by
  induction xs with
  | nil => cases h
  | cons x xs ih =>
    simp only [passAll, List.foldl_cons, passSep]
    by_cases hsx : s = x
    · subst hsx
      simp only [beq_self_eq_true, if_true]
      exact passAll_tight xs s
    · have : (s == x) = false := by simpa using hsx
      simp only [this]
      rcases List.mem_cons.mp h with h | h
      · exact absurd h hsx
      · exact ih h

def symbolsInOrder : List Nat := [46, 47, 45, 39, 43, 42]

theorem sym_mem_order {s : Nat} (h : isAdditionalNameSymbol s = true) : s ∈ symbolsInOrder := by
  simp only [isAdditionalNameSymbol, Bool.or_eq_true, beq_iff_eq] at h
  rcases h with ((((h | h) | h) | h) | h) | h <;> subst h <;> decide

theorem render_tight : ∀ (gs : List Seg), (∀ g ∈ gs, segOk g = true) →
    renderSegs ((gs.map spacedForm).map (fun g => (passAll symbolsInOrder g.1, g.2))) = tightText gs := by
  intro gs
  induction gs with
  | nil => intro _; rfl
  | cons g gs ih =>
    intro h
    have hg := h g (by simp)
    have ih' := ih (fun g' hg' => h g' (List.mem_cons_of_mem _ hg'))
    obtain ⟨sep, w⟩ := g
    simp only [segOk, Bool.and_eq_true] at hg
    cases sep with
    | none =>
      simp only [List.map_cons, spacedForm, passAll_sp, renderSegs, sepText, tightText]
      rw [ih']
      simp
    | some s =>
      simp only [List.map_cons, spacedForm, passAll_spaced _ s (sym_mem_order hg.2), renderSegs,
        sepText, tightText]
      rw [ih']
      simp

theorem passSep_ok (x : Nat) (f : SepForm) (h : sepFormOk f = true) : sepFormOk (passSep x f) = true := by
  cases f with
  | sp => exact h
  | tight s => exact h
  | spaced s =>
    simp only [passSep]
    split <;> exact h

theorem passes (w0 : List Nat) (hw0 : wordOk w0 = true) :
    ∀ (xs : List Nat) (S : List (SepForm × List Nat)),
      (∀ g ∈ S, sepFormOk g.1 = true ∧ wordOk g.2 = true) → (∀ x ∈ xs, isAdditionalNameSymbol x = true) →
      xs.foldl (fun s x => replaceSym x 0 s) (w0 ++ renderSegs S) =
        w0 ++ renderSegs (S.map (fun g => (passAll xs g.1, g.2))) := by
  intro xs
  induction xs with
  | nil =>
    intro S _ _
    simp [passAll]
  | cons x xs ih =>
    intro S hS hxs
    have hx := hxs x (by simp)
    simp only [List.foldl_cons]
    rw [replaceSym_word x w0 _ (word_no_blank hw0), replaceSym_segs x hx S hS]
    have hS' : ∀ g ∈ S.map (fun g => (passSep x g.1, g.2)), sepFormOk g.1 = true ∧ wordOk g.2 = true := by
      intro g hg
      simp only [List.mem_map] at hg
      obtain ⟨g0, hg0, rfl⟩ := hg
      exact ⟨passSep_ok x g0.1 (hS g0 hg0).1, (hS g0 hg0).2⟩
    rw [ih _ hS' (fun y hy => hxs y (List.mem_cons_of_mem _ hy))]
    simp [List.map_map, Function.comp_def, passAll]

theorem getLast?_append_ne (l1 l2 : List Nat) (h : l2 ≠ []) : (l1 ++ l2).getLast? = l2.getLast? := by
  rw [List.getLast?_append]
  cases hl : l2.getLast? with
  | none => exact absurd (List.getLast?_eq_none_iff.mp hl) h
  | some a => rfl

theorem renderSegs_last : ∀ (S : List (SepForm × List Nat)), S ≠ [] →
    (∀ g ∈ S, wordOk g.2 = true) →
    renderSegs S ≠ [] ∧ ∀ c, (renderSegs S).getLast? = some c → isRustWhitespace c = false := by
  intro S
  induction S with
  | nil => intro h; exact absurd rfl h
  | cons g S ih =>
    intro _ hS
    obtain ⟨f, w⟩ := g
    have hw : wordOk w = true := hS (f, w) (by simp)
    have hne := wordOk_ne_nil hw
    refine ⟨by simp [renderSegs, hne], ?_⟩
    intro c hc
    simp only [renderSegs] at hc
    by_cases hnil : S = []
    · subst hnil
      simp only [renderSegs, List.append_nil] at hc
      rw [getLast?_append_ne _ _ hne] at hc
      exact (wordOk_all hw c (List.mem_of_mem_getLast? hc)).1
    · have := ih hnil (fun g hg => hS g (List.mem_cons_of_mem _ hg))
      rw [getLast?_append_ne _ _ this.1] at hc
      exact this.2 c hc

/-- `flatten_name_parts` on a regular list. -/
theorem flatten_regular (w0 : List Nat) (gs : List Seg) (hw0 : wordOk w0 = true)
    (hgs : ∀ g ∈ gs, segOk g = true) : flattenNameParts (w0 :: partsOf gs) = w0 ++ tightText gs := by
  have hS : ∀ g ∈ gs.map spacedForm, sepFormOk g.1 = true ∧ wordOk g.2 = true := by
    intro g hg
    simp only [List.mem_map] at hg
    obtain ⟨⟨sep, w⟩, hmem, rfl⟩ := hg
    have := hgs (sep, w) hmem
    simp only [segOk, Bool.and_eq_true] at this
    cases sep with
    | none => exact ⟨rfl, this.1⟩
    | some s => exact ⟨this.2, this.1⟩
  have hjoin : joinSp ((w0 :: partsOf gs).map trim) = w0 ++ renderSegs (gs.map spacedForm) := by
    simp only [List.map_cons, trim_word hw0, map_trim_partsOf gs hgs]
    rw [joinSp_cons, flatMap_partsOf]
  have hne0 := wordOk_ne_nil hw0
  have htrim : trim (w0 ++ renderSegs (gs.map spacedForm)) = w0 ++ renderSegs (gs.map spacedForm) := by
    apply trim_id
    · intro c hc
      have : (w0 ++ renderSegs (gs.map spacedForm)).head? = w0.head? := by
        cases w0 with
        | nil => exact absurd rfl hne0
        | cons a w => rfl
      rw [this] at hc
      exact (wordOk_all hw0 c (List.mem_of_mem_head? hc)).1
    · intro c hc
      by_cases hnil : gs = []
      · subst hnil
        simp only [List.map_nil, renderSegs, List.append_nil] at hc
        exact (wordOk_all hw0 c (List.mem_of_mem_getLast? hc)).1
      · have := renderSegs_last (gs.map spacedForm) (by simpa using hnil) (fun g hg => (hS g hg).2)
        rw [getLast?_append_ne _ _ this.1] at hc
        exact this.2 c hc
  have hfold : flattenNameParts (w0 :: partsOf gs) =
      symbolsInOrder.foldl (fun s x => replaceSym x 0 s) (trim (joinSp ((w0 :: partsOf gs).map trim))) := by
    rfl
  rw [hfold, hjoin, htrim,
    passes w0 hw0 symbolsInOrder _ hS (fun x hx => by
      simp only [symbolsInOrder, List.mem_cons, List.mem_nil_iff, or_false] at hx
      rcases hx with h | h | h | h | h | h <;> subst h <;> decide),
    render_tight gs hgs]

/-- `normalise_agree` on regular part lists. -/
theorem flatten_eq_nameNew_of_regular (parts : List (List Nat)) (h : regularParts parts = true) :
    flattenNameParts parts = nameNew parts := by
  cases parts with
  | nil => simp [regularParts] at h
  | cons w0 ps =>
    simp only [regularParts, Bool.and_eq_true] at h
    obtain ⟨hw0, hsome⟩ := h
    cases hs : shapeOf ps with
    | none => simp [hs] at hsome
    | some gs =>
      have := shapeOf_spec ps.length ps gs (Nat.le_refl _) hs
      rw [this.1, flatten_regular w0 gs hw0 this.2, nameNew_regular w0 gs hw0 this.2]

end Dmn.Lexer
