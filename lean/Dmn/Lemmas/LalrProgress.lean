import Dmn.Lemmas.Lalr

/-!
# Every iteration of the driver loop shifts, reduces or stops
-/

namespace Dmn.Lalr

/-- `k` iterations of the loop. -/
def stepN (T : Tables) (act : Nat → Int → Bool) : Nat → P → Action → Step
  | 0, p, a => .next p a
  | k + 1, p, a =>
    match step T act p a with
    | .done r => .done r
    | .next p' a' => stepN T act k p' a'

/-- What one macro step achieved. -/
def Progress (p : P) : Step → Prop
  | .done _ => True
  | .next p' a' => a' = .newState ∧ p'.shifts + p'.reductions = p.shifts + p.reductions + 1

theorem finish_next {T : Tables} {p p' : P} {n tk : Int} {a' : Action}
    (h : lookup.finish T p n tk = .next p' a') :
    (a' = .default ∨ a' = .error ∨ a' = .reduce ∨ a' = .shift) ∧
    p'.shifts = p.shifts ∧ p'.reductions = p.reductions := by
  unfold lookup.finish at h
  repeat' split at h
  all_goals (cases h <;> simp)

theorem lookup_next {T : Tables} {p p' : P} {n ch : Int} {toks : List LexRes} {a' : Action}
    (h : lookup T p n ch toks = .next p' a') :
    (a' = .default ∨ a' = .error ∨ a' = .reduce ∨ a' = .shift ∨ a' = .error1) ∧
    p'.shifts = p.shifts ∧ p'.reductions = p.reductions := by
  unfold lookup at h
  split at h
  · have := finish_next h
    exact ⟨by rcases this.1 with h | h | h | h <;> simp [h], this.2⟩
  · split at h
    · cases h; simp
    · split at h
      · cases h
      · have := finish_next h
        exact ⟨by rcases this.1 with h | h | h | h <;> simp [h], this.2⟩

theorem step_newState_next {T : Tables} {act : Nat → Int → Bool} {p p' : P} {a' : Action}
    (h : step T act p .newState = .next p' a') :
    (a' = .accept ∨ a' = .default ∨ a' = .error ∨ a' = .reduce ∨ a' = .shift ∨ a' = .error1) ∧
    p'.shifts = p.shifts ∧ p'.reductions = p.reductions := by
  simp only [step] at h
  split at h
  · cases h; simp
  · split at h
    · cases h
    · split at h
      · cases h; simp
      · split at h
        · split at h
          · have := lookup_next h
            exact ⟨by rcases this.1 with h | h | h | h | h <;> simp [h], this.2⟩
          · have := lookup_next h
            exact ⟨by rcases this.1 with h | h | h | h | h <;> simp [h], this.2⟩
          · cases h
        · have := lookup_next h
          exact ⟨by rcases this.1 with h | h | h | h | h <;> simp [h], this.2⟩

theorem step_default_next {T : Tables} {act : Nat → Int → Bool} {p p' : P} {a' : Action}
    (h : step T act p .default = .next p' a') :
    (a' = .error ∨ a' = .reduce) ∧ p'.shifts = p.shifts ∧ p'.reductions = p.reductions := by
  simp only [step] at h
  split at h
  · cases h
  · split at h <;> (cases h; simp)

theorem step_shift_next {T : Tables} {act : Nat → Int → Bool} {p : P} :
    ∃ p', step T act p .shift = .next p' .newState ∧ p'.shifts = p.shifts + 1 ∧
      p'.reductions = p.reductions := by
  exact ⟨_, rfl, rfl, rfl⟩

theorem step_reduce_next {T : Tables} {act : Nat → Int → Bool} {p p' : P} {a' : Action}
    (h : step T act p .reduce = .next p' a') :
    a' = .newState ∧ p'.shifts = p.shifts ∧ p'.reductions = p.reductions + 1 := by
  simp only [step] at h
  repeat' split at h
  all_goals (cases h <;> simp)

theorem step_error_done {T : Tables} {act : Nat → Int → Bool} {p : P} :
    step T act p .error = .done .syntaxError := rfl
theorem step_error1_done {T : Tables} {act : Nat → Int → Bool} {p : P} :
    step T act p .error1 = .done .syntaxError := rfl
theorem step_accept_done {T : Tables} {act : Nat → Int → Bool} {p : P} :
    step T act p .accept = .done .accept := rfl

/-- From `Action::NewState`, within at most three iterations the loop has either stopped or
completed exactly one shift or one reduction and is back at `Action::NewState`. -/
theorem macro_step_progress (T : Tables) (act : Nat → Int → Bool) (p : P) :
    ∃ k, 1 ≤ k ∧ k ≤ 3 ∧ Progress p (stepN T act k p .newState) := by
  cases h1 : step T act p .newState with
  | done r => exact ⟨1, by omega, by omega, by simp [stepN, h1, Progress]⟩
  | next p1 a1 =>
    obtain ⟨ha, hs1, hr1⟩ := step_newState_next h1
    have after_reduce : ∀ q : P, q.shifts = p.shifts → q.reductions = p.reductions →
        Progress p (match step T act q .reduce with
          | .done r => .done r
          | .next p' a' => .next p' a') := by
      intro q hqs hqr
      cases h2 : step T act q .reduce with
      | done r => simp [Progress]
      | next p2 a2 =>
        obtain ⟨h, hs2, hr2⟩ := step_reduce_next h2
        simp only [Progress]
        exact ⟨h, by omega⟩
    rcases ha with ha | ha | ha | ha | ha | ha
    · subst ha
      exact ⟨2, by omega, by omega, by simp [stepN, h1, step_accept_done, Progress]⟩
    · subst ha
      cases h2 : step T act p1 .default with
      | done r => exact ⟨2, by omega, by omega, by simp [stepN, h1, h2, Progress]⟩
      | next p2 a2 =>
        obtain ⟨hb, hs2, hr2⟩ := step_default_next h2
        rcases hb with hb | hb
        · subst hb
          exact ⟨3, by omega, by omega, by simp [stepN, h1, h2, step_error_done, Progress]⟩
        · subst hb
          refine ⟨3, by omega, by omega, ?_⟩
          have := after_reduce p2 (by omega) (by omega)
          simp only [stepN, h1, h2]
          cases h3 : step T act p2 .reduce with
          | done r => simp [Progress]
          | next p3 a3 => simpa [h3] using this
    · subst ha
      exact ⟨2, by omega, by omega, by simp [stepN, h1, step_error_done, Progress]⟩
    · subst ha
      refine ⟨2, by omega, by omega, ?_⟩
      have := after_reduce p1 hs1 hr1
      simp only [stepN, h1]
      cases h3 : step T act p1 .reduce with
      | done r => simp [Progress]
      | next p3 a3 => simpa [h3] using this
    · subst ha
      obtain ⟨p2, h2, hs2, hr2⟩ := step_shift_next (T := T) (act := act) (p := p1)
      exact ⟨2, by omega, by omega, by simp only [stepN, h1, h2, Progress, true_and]; omega⟩
    · subst ha
      exact ⟨2, by omega, by omega, by simp [stepN, h1, step_error1_done, Progress]⟩

end Dmn.Lalr
