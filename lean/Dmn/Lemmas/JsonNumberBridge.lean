import Dmn.Model.Json
import Dmn.Model.DecString

/-!
# The JSON number grammar of C07 is accepted by the JSON reader of C18

`D128.isJsonNumber` (C07, `Model/DecString.lean`: the shape predicate proved of every number
text `FeelNumber` prints) and `Json.isNumber` (C18, `Model/Json.lean`: the number automaton of
the JSON reader that `jsonify_decodes` is stated with) are separate definitions.  This file
proves that the first implies the second, so C07's `json_number` discharges C18's `numbersOk`
for every number the evaluator can print.
-/

namespace Dmn.JsonBridge
open Dmn.Json

theorem isDigit_eq (c : Char) : D128.isDigit c = Json.isDigit c := by
  unfold D128.isDigit Json.isDigit
  simp only [Char.le_def, Char.toNat]
  have h0 : ('0' : Char).val = 48 := rfl
  have h9 : ('9' : Char).val = 57 := rfl
  rw [h0, h9]
  simp only [UInt32.le_iff_toNat_le]
  rfl

def AllDig (ds : List Char) : Prop := ∀ c ∈ ds, Json.isDigit c = true

theorem digit_not_special (c : Char) (h : Json.isDigit c = true) :
    (c == '.') = false ∧ isE c = false ∧ (c == '+') = false ∧ (c == '-') = false := by
  unfold Json.isDigit at h
  simp only [Bool.and_eq_true, decide_eq_true_eq] at h
  refine ⟨?_, ?_, ?_, ?_⟩
  · cases hc : c == '.' with
    | false => rfl
    | true => have := beq_iff_eq.mp hc; subst this; simp at h
  · unfold isE
    cases hc : c == 'e' with
    | true => have := beq_iff_eq.mp hc; subst this; simp at h
    | false =>
      cases hc2 : c == 'E' with
      | true => have := beq_iff_eq.mp hc2; subst this; simp at h
      | false => rfl
  · cases hc : c == '+' with
    | false => rfl
    | true => have := beq_iff_eq.mp hc; subst this; simp at h
  · cases hc : c == '-' with
    | false => rfl
    | true => have := beq_iff_eq.mp hc; subst this; simp at h

theorem accepts_int (ds r : List Char) (h : AllDig ds) : accepts .int (ds ++ r) = accepts .int r := by
  induction ds with
  | nil => rfl
  | cons c ds ih =>
    have hc := h c (by simp)
    simp only [List.cons_append, accepts, nstep, hc, if_true]
    exact ih (fun x hx => h x (by simp [hx]))

theorem accepts_frac (ds r : List Char) (h : AllDig ds) : accepts .frac (ds ++ r) = accepts .frac r := by
  induction ds with
  | nil => rfl
  | cons c ds ih =>
    have hc := h c (by simp)
    simp only [List.cons_append, accepts, nstep, hc, if_true]
    exact ih (fun x hx => h x (by simp [hx]))

theorem accepts_exp (ds : List Char) (h : AllDig ds) : accepts .exp ds = true := by
  induction ds with
  | nil => rfl
  | cons c ds ih =>
    have hc := h c (by simp)
    simp only [accepts, nstep, hc, if_true]
    exact ih (fun x hx => h x (by simp [hx]))

theorem spanDigits_spec (s : List Char) :
    s = (D128.spanDigits s).1 ++ (D128.spanDigits s).2 ∧ AllDig (D128.spanDigits s).1 := by
  induction s with
  | nil => exact ⟨rfl, fun _ h => by cases h⟩
  | cons c cs ih =>
    unfold D128.spanDigits
    by_cases hc : D128.isDigit c = true
    · rw [if_pos hc]
      obtain ⟨h1, h2⟩ := ih
      refine ⟨by simp only [List.cons_append]; rw [← h1], ?_⟩
      intro x hx
      rcases List.mem_cons.mp hx with hx | hx
      · subst hx; rw [← isDigit_eq]; exact hc
      · exact h2 x hx
    · rw [if_neg hc]
      exact ⟨rfl, fun _ h => by cases h⟩

/-- the exponent part of C07's grammar drives the automaton from `.e` to acceptance -/
theorem accepts_e (c : Char) (er : List Char) (h : D128.jsonExpOk (c :: er) = true) : accepts .e er = true := by
  have alld : ∀ ds : List Char, ds.all D128.isDigit = true → AllDig ds := by
    intro ds hd x hx
    rw [← isDigit_eq]
    exact List.all_eq_true.mp hd x hx
  have fromDigits : ∀ (st : NSt) (ds : List Char),
      (∀ c, Json.isDigit c = true → nstep st c = some .exp) →
      ds.isEmpty = false → ds.all D128.isDigit = true → accepts st ds = true := by
    intro st ds hstep hne hds
    cases ds with
    | nil => simp at hne
    | cons d ds =>
      simp only [List.all_cons, Bool.and_eq_true] at hds
      have hd : Json.isDigit d = true := by rw [← isDigit_eq]; exact hds.1
      simp only [accepts, hstep d hd]
      exact accepts_exp ds (alld ds hds.2)
  have stepE : ∀ c, Json.isDigit c = true → nstep .e c = some .exp := by
    intro c hc
    obtain ⟨_, _, h3, h4⟩ := digit_not_special c hc
    simp [nstep, h3, h4, hc]
  have stepS : ∀ c, Json.isDigit c = true → nstep .esign c = some .exp := by
    intro c hc; simp [nstep, hc]
  cases er with
  | nil => simp [D128.jsonExpOk] at h
  | cons x t =>
    by_cases hp : x = '+'
    · subst hp
      simp only [D128.jsonExpOk, Bool.and_eq_true, Bool.not_eq_true', ] at h
      simp only [accepts, nstep]
      exact fromDigits .esign t stepS h.2.1 h.2.2
    · by_cases hm : x = '-'
      · subst hm
        simp only [D128.jsonExpOk, Bool.and_eq_true, Bool.not_eq_true'] at h
        simp only [accepts, nstep]
        exact fromDigits .esign t stepS h.2.1 h.2.2
      · unfold D128.jsonExpOk at h
        simp only [Bool.and_eq_true, Bool.not_eq_true'] at h
        obtain ⟨_, h1, h2⟩ := h
        split at h1
        · rename_i heq; injection heq with e1 _; exact absurd e1 hp
        · rename_i heq; injection heq with e1 _; exact absurd e1 hm
        · split at h2
          · rename_i heq; injection heq with e1 _; exact absurd e1 hp
          · rename_i heq; injection heq with e1 _; exact absurd e1 hm
          · exact fromDigits .e (x :: t) stepE h1 h2

theorem accepts_expOk (st : NSt) (hst : st = .zero ∨ st = .int ∨ st = .frac) (r : List Char)
    (h : D128.jsonExpOk r = true) : accepts st r = true := by
  cases r with
  | nil => rcases hst with rfl | rfl | rfl <;> rfl
  | cons c er =>
    have hfull := h
    simp only [D128.jsonExpOk, Bool.and_eq_true] at h
    have hE : isE c = true := by
      unfold isE; simpa [Bool.or_eq_true] using h.1
    have hnd : Json.isDigit c = false := by
      cases hd : Json.isDigit c with
      | false => rfl
      | true => have := (digit_not_special c hd).2.1; rw [hE] at this; cases this
    have hndot : (c == '.') = false := by
      cases hc : c == '.' with
      | false => rfl
      | true =>
        have := beq_iff_eq.mp hc; subst this
        simp [isE] at hE
    have hstep : nstep st c = some .e := by
      rcases hst with rfl | rfl | rfl <;> simp [nstep, hE, hnd, hndot]
    simp only [accepts, hstep]
    exact accepts_e c er hfull

theorem accepts_tail (st : NSt) (hst : st = .zero ∨ st = .int) (r : List Char)
    (h : D128.jsonTailOk r = true) : accepts st r = true := by
  cases r with
  | nil => rcases hst with rfl | rfl <;> rfl
  | cons c t =>
    by_cases hdot : c = '.'
    · subst hdot
      simp only [D128.jsonTailOk] at h
      have hsp := spanDigits_spec t
      have hstep : nstep st '.' = some .dot := by
        rcases hst with rfl | rfl <;> simp [nstep, Json.isDigit]
      simp only [accepts, hstep]
      generalize hsd : D128.spanDigits t = sd at h hsp
      obtain ⟨fd, r2⟩ := sd
      cases fd with
      | nil => simp at h
      | cons f fs =>
        simp only at h hsp
        obtain ⟨ht, hfd⟩ := hsp
        rw [ht]
        have hf : Json.isDigit f = true := hfd f (by simp)
        simp only [List.cons_append, accepts, nstep, hf, if_true]
        rw [accepts_frac fs r2 (fun x hx => hfd x (by simp [hx]))]
        exact accepts_expOk .frac (.inr (.inr rfl)) r2 h
    · have h' : D128.jsonExpOk (c :: t) = true := by
        have : D128.jsonTailOk (c :: t) = D128.jsonExpOk (c :: t) := by
          unfold D128.jsonTailOk
          split
          · rename_i heq; injection heq with h1 _; exact absurd h1 hdot
          · rfl
        rw [← this]; exact h
      rcases hst with rfl | rfl
      · exact accepts_expOk .zero (.inl rfl) (c :: t) h'
      · exact accepts_expOk .int (.inr (.inl rfl)) (c :: t) h'

/-- A text of C07's JSON number grammar is accepted by the number automaton of the JSON reader. -/
theorem isNumber_of_isJsonNumber (s : List Char) (h : D128.isJsonNumber s = true) :
    Json.isNumber s = true := by
  unfold D128.isJsonNumber at h
  have hsp := spanDigits_spec (D128.stripMinus s).2
  generalize hsd : D128.spanDigits (D128.stripMinus s).2 = sd at h hsp
  obtain ⟨ip, r⟩ := sd
  simp only [Bool.and_eq_true] at h hsp
  obtain ⟨hint, htail⟩ := h
  obtain ⟨hs, hdig⟩ := hsp
  -- from the state reached after the optional minus
  have key : ∀ st : NSt, (st = .start ∨ st = .minus) →
      (∀ c, c ≠ '-' → nstep st c = nstep .minus c) → accepts st (ip ++ r) = true := by
    intro st _ hsame
    cases ip with
    | nil => simp [D128.jsonIntOk] at hint
    | cons c ds =>
      have hc : Json.isDigit c = true := hdig c (by simp)
      have hcm : c ≠ '-' := by
        intro hh; subst hh; exact absurd (digit_not_special '-' hc).2.2.2 (by decide)
      by_cases h0 : c = '0'
      · subst h0
        have hds : ds = [] := by
          cases ds with
          | nil => rfl
          | cons d ds' => simp [D128.jsonIntOk] at hint
        subst hds
        simp only [List.cons_append, List.nil_append, accepts]
        rw [hsame '0' hcm]
        simp only [nstep]
        exact accepts_tail .zero (.inl rfl) r htail
      · have hne : (c == '0') = false := by simpa using h0
        simp only [List.cons_append, accepts]
        rw [hsame c hcm]
        simp only [nstep, hne, hc, if_true, Bool.false_eq_true, if_false]
        rw [accepts_int ds r (fun x hx => hdig x (by simp [hx]))]
        exact accepts_tail .int (.inr rfl) r htail
  unfold Json.isNumber
  match s, hs with
  | '-' :: s', hs =>
    simp only [D128.stripMinus] at hs
    simp only [accepts, nstep]
    rw [hs]
    exact key .minus (.inr rfl) (fun _ _ => rfl)
  | [], hs =>
    simp only [D128.stripMinus] at hs
    rw [hs]
    exact key .start (.inl rfl) (fun c hc => by simp [nstep, hc])
  | c :: s', hs =>
    by_cases hm : c = '-'
    · subst hm
      simp only [D128.stripMinus] at hs
      simp only [accepts, nstep]
      rw [hs]
      exact key .minus (.inr rfl) (fun _ _ => rfl)
    · have : D128.stripMinus (c :: s') = (false, c :: s') := by
        unfold D128.stripMinus
        split
        · rename_i heq; injection heq with h1 _; exact absurd h1 hm
        · rfl
      rw [this] at hs
      have hs' : c :: s' = ip ++ r := hs
      rw [hs']
      exact key .start (.inl rfl) (fun c hc => by simp [nstep, hc])

end Dmn.JsonBridge
