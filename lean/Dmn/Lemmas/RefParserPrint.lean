import Dmn.Lemmas.RefParserSteps

/-!
# C06 — facts about `absorbs`, `startsOk` and the printers
-/

namespace Dmn.Ref

theorem wrapped_false {m : Mode} {n : Bool} {c : Tree} (h : wrapped m n c = false) : n = false := by
  simp [wrapped] at h
  exact h.1

theorem levelGe_of_none {t : Tok} (h : opLevel t = none) (k : Nat) : levelGe t k = false := by
  simp [levelGe, h]

theorem opLevel_ne_dot {t : Tok} (h : opLevel t = none) : (t == Tok.dot) = false := by
  cases t <;> simp_all [opLevel, binOf]

/-- A token that is no operator is never absorbed. -/
theorem absorbs_of_none (m : Mode) {t : Tok} (h : opLevel t = none) : ∀ c : Tree, absorbs m c t = false
  | .atom _ => by simp [absorbs]
  | .bin _ _ r => by simp [absorbs, levelGe_of_none h, absorbs_of_none m h r]
  | .neg e => by simp [absorbs, levelGe_of_none h, absorbs_of_none m h e]
  | .between _ _ hi => by simp [absorbs, levelGe_of_none h, absorbs_of_none m h hi]
  | .instOf _ _ _ => by simp [absorbs, opLevel_ne_dot h]
  | .path _ _ => by simp [absorbs]
  | .filter _ _ => by simp [absorbs]
  | .call _ _ => by simp [absorbs]

/-- Every tree is a complete expression at level 0. -/
theorem startsOk_zero (m : Mode) : ∀ c : Tree, startsOk m 0 c = true
  | .atom _ => by simp [startsOk]
  | .neg _ => by simp [startsOk]
  | .bin _ l _ => by simp [startsOk, startsOk_zero m l]
  | .between e _ _ => by simp [startsOk, startsOk_zero m e]
  | .instOf e _ _ => by simp [startsOk, startsOk_zero m e]
  | .path e _ => by simp [startsOk, startsOk_zero m e]
  | .filter e _ => by simp [startsOk, startsOk_zero m e]
  | .call f _ => by simp [startsOk, startsOk_zero m f]

/-- `rest` does not begin with a token the bare tree `c` would take into itself. -/
def notAbsorbed (m : Mode) (c : Tree) : List Tok → Prop
  | [] => True
  | t :: _ => absorbs m c t = false

/-- The operand loop with minimum `k` stops in front of `rest`. -/
def stopsAt (k : Nat) : List Tok → Prop
  | [] => True
  | t :: _ => levelGe t k = false

theorem parseLoop_stops {k : Nat} {rest : List Tok} (h : stopsAt k rest) (fb : Option Nat) (lhs : Tree) :
    parseLoop k fb lhs rest = some (lhs, rest) := by
  cases rest with
  | nil => exact parseLoop_nil k fb lhs
  | cons t rest =>
    simp only [stopsAt, levelGe] at h
    cases hl : opLevel t with
    | none => exact parseLoop_stop_none hl
    | some L =>
      rw [hl] at h
      simp at h
      exact parseLoop_stop_low hl h

theorem stopsAt_of_none {t : Tok} (h : opLevel t = none) (k : Nat) (rest : List Tok) : stopsAt k (t :: rest) := by
  simp [stopsAt, levelGe_of_none h]

theorem notAbsorbed_of_none (m : Mode) (c : Tree) {t : Tok} (h : opLevel t = none) (rest : List Tok) :
    notAbsorbed m c (t :: rest) := by
  simp [notAbsorbed, absorbs_of_none m h c]

/-- What follows an argument starts with `)` or `,`. -/
theorem prArgsTail_head (m : Mode) (as : Args) (rest : List Tok) :
    ∃ t ts, prArgsTail m as ++ rest = t :: ts ∧ opLevel t = none := by
  cases as with
  | nil => exact ⟨.rparen, rest, by simp [prArgsTail], rfl⟩
  | cons a as =>
    exact ⟨.comma, par (wrapped m (needs m .callArg a) a) (pr m a) ++ prArgsTail m as ++ rest,
      by simp [prArgsTail], rfl⟩

theorem par_true (p : List Tok) : par true p = .lparen :: p ++ [.rparen] := rfl
theorem par_false (p : List Tok) : par false p = p := rfl

end Dmn.Ref
