import Dmn.Lemmas.RefParserStepsExt

/-!
# C06 — facts about `absorbs`, `startsOk` and the printers
-/

namespace Dmn.Ref

theorem wrapped_false {m : Mode} {n : Bool} {c : Tree} (h : wrapped m n c = false) : n = false := by
  simp [wrapped] at h
  exact h.1

theorem levelGe_of_none {t : Tok} (h : opLevel t = none) (k : Nat) : levelGe t k = false := by
  simp [levelGe, h]

theorem opLevel_ne_dot {t : Tok} (h : opLevel t = none) : (t == Tok.dot) = false := by
  cases t <;> simp_all [opLevel, binOf]

/-- A token that ends an operand and stays outside: no operator, and not the first token of an
endpoint (which would turn the `]` of `[ ]` into the start of an interval). -/
def Delim (t : Tok) : Prop := opLevel t = none ∧ startsEnd t = false

/-- A delimiter is never absorbed. -/
theorem absorbs_of_none (m : Mode) {t : Tok} (hd : Delim t) : ∀ c : Tree, absorbs m c t = false
  | .atom _ => by simp [absorbs]
  | .bin _ _ r => by have h := hd.1; simp [absorbs, levelGe_of_none h, absorbs_of_none m hd r]
  | .neg e => by have h := hd.1; simp [absorbs, levelGe_of_none h, absorbs_of_none m hd e]
  | .between _ _ hi => by have h := hd.1; simp [absorbs, levelGe_of_none h, absorbs_of_none m hd hi]
  | .instOf _ _ _ => by simp [absorbs, opLevel_ne_dot hd.1]
  | .path _ _ => by simp [absorbs]
  | .filter _ _ => by simp [absorbs]
  | .call _ _ => by simp [absorbs]
  | .callNamed _ _ _ _ => by simp [absorbs]
  | .inList _ _ _ _ => by simp [absorbs]
  | .ite _ _ b => by have h := hd.1; simp [absorbs, levelGe_of_none h, absorbs_of_none m hd b]
  | .forS _ _ _ b => by have h := hd.1; simp [absorbs, levelGe_of_none h, absorbs_of_none m hd b]
  | .forR _ _ _ _ b => by have h := hd.1; simp [absorbs, levelGe_of_none h, absorbs_of_none m hd b]
  | .quant _ _ _ _ b => by have h := hd.1; simp [absorbs, levelGe_of_none h, absorbs_of_none m hd b]
  | .fn _ b => by have h := hd.1; simp [absorbs, levelGe_of_none h, absorbs_of_none m hd b]
  | .list .nil => by simp [absorbs, hd.2]
  | .list (.cons _ _) => by simp [absorbs]
  | .ctx _ => by simp [absorbs]
  | .range _ _ _ _ => by simp [absorbs]
  | .utest _ _ => by simp [absorbs, opLevel_ne_dot hd.1]

/-- Every tree is a complete expression at level 0. -/
theorem startsOk_zero (m : Mode) : ∀ c : Tree, startsOk m 0 c = true
  | .atom _ => by simp [startsOk]
  | .neg _ => by simp [startsOk]
  | .bin _ l _ => by simp [startsOk, startsOk_zero m l]
  | .between e _ _ => by simp [startsOk, startsOk_zero m e]
  | .instOf e _ _ => by simp [startsOk, startsOk_zero m e]
  | .path e _ => by simp [startsOk, startsOk_zero m e]
  | .filter e _ => by simp [startsOk, startsOk_zero m e]
  | .call f _ => by simp [startsOk, startsOk_zero m f]
  | .callNamed f _ _ _ => by simp [startsOk, startsOk_zero m f]
  | .inList e _ _ _ => by simp [startsOk, startsOk_zero m e]
  | .ite _ _ _ => by simp [startsOk]
  | .forS _ _ _ _ => by simp [startsOk]
  | .forR _ _ _ _ _ => by simp [startsOk]
  | .quant _ _ _ _ _ => by simp [startsOk]
  | .fn _ _ => by simp [startsOk]
  | .list _ => by simp [startsOk]
  | .ctx _ => by simp [startsOk]
  | .range _ _ _ _ => by simp [startsOk]
  | .utest _ _ => by simp [startsOk]

/-- `rest` does not begin with a token the bare tree `c` would take into itself. -/
def notAbsorbed (m : Mode) (c : Tree) : List Tok → Prop
  | [] => True
  | t :: _ => absorbs m c t = false

/-- The operand loop with minimum `k` stops in front of `rest`. -/
def stopsAt (k : Nat) : List Tok → Prop
  | [] => True
  | t :: _ => levelGe t k = false

theorem parseLoop_stops {k : Nat} {rest : List Tok} (h : stopsAt k rest) (fb : Option Nat) (lhs : Tree) :
    parseLoop k fb lhs rest = some (lhs, rest) := by
  cases rest with
  | nil => exact parseLoop_nil k fb lhs
  | cons t rest =>
    simp only [stopsAt, levelGe] at h
    cases hl : opLevel t with
    | none => exact parseLoop_stop_none hl
    | some L =>
      rw [hl] at h
      simp at h
      exact parseLoop_stop_low hl h

theorem stopsAt_of_none {t : Tok} (h : opLevel t = none) (k : Nat) (rest : List Tok) : stopsAt k (t :: rest) := by
  simp [stopsAt, levelGe_of_none h]

theorem notAbsorbed_of_none (m : Mode) (c : Tree) {t : Tok} (h : Delim t) (rest : List Tok) :
    notAbsorbed m c (t :: rest) := by
  simp [notAbsorbed, absorbs_of_none m h c]

/-- What follows an argument starts with the closing token or `,`. -/
theorem prArgsTail_head (m : Mode) {close : Tok} (hc : Delim close) (hce : close ≠ .ellipsis ∧ close ≠ .colon)
    (as : Args) (rest : List Tok) :
    ∃ t ts, prArgsTail m close as ++ rest = t :: ts ∧ Delim t ∧ t ≠ .ellipsis ∧ t ≠ .colon := by
  cases as with
  | nil => exact ⟨close, rest, by simp [prArgsTail], hc, hce.1, hce.2⟩
  | cons a as =>
    exact ⟨.comma, par (wrapped m (needs m .callArg a) a) (pr m a) ++ prArgsTail m close as ++ rest,
      by simp [prArgsTail], ⟨rfl, rfl⟩, by simp, by simp⟩

theorem prBindsTail_head (m : Mode) {sep close : Tok} (hc : Delim close) (hce : close ≠ .ellipsis ∧ close ≠ .colon)
    (bs : Binds) (rest : List Tok) :
    ∃ t ts, prBindsTail m sep close bs ++ rest = t :: ts ∧ Delim t ∧ t ≠ .ellipsis ∧ t ≠ .colon := by
  cases bs with
  | nil => exact ⟨close, rest, by simp [prBindsTail], hc, hce.1, hce.2⟩
  | cons n v bs => exact ⟨.comma, _, by simp [prBindsTail]; rfl, ⟨rfl, rfl⟩, by simp, by simp⟩

theorem prEntriesTail_head (m : Mode) (es : Entries) (rest : List Tok) :
    ∃ t ts, prEntriesTail m es ++ rest = t :: ts ∧ Delim t ∧ t ≠ .ellipsis ∧ t ≠ .colon := by
  cases es with
  | nil => exact ⟨.rbrace, rest, by simp [prEntriesTail], ⟨rfl, rfl⟩, by simp, by simp⟩
  | cons k v es => exact ⟨.comma, _, by simp [prEntriesTail]; rfl, ⟨rfl, rfl⟩, by simp, by simp⟩

theorem prItersTail_head (m : Mode) (its : Iters) (rest : List Tok) :
    ∃ t ts, prItersTail m its ++ rest = t :: ts ∧ Delim t ∧ t ≠ .ellipsis ∧ t ≠ .colon := by
  cases its with
  | nil => exact ⟨.kreturn, rest, by simp [prItersTail], ⟨rfl, rfl⟩, by simp, by simp⟩
  | single v d its => exact ⟨.comma, _, by simp [prItersTail]; rfl, ⟨rfl, rfl⟩, by simp, by simp⟩
  | range v lo hi its => exact ⟨.comma, _, by simp [prItersTail]; rfl, ⟨rfl, rfl⟩, by simp, by simp⟩

theorem par_true (p : List Tok) : par true p = .lparen :: p ++ [.rparen] := rfl
theorem par_false (p : List Tok) : par false p = p := rfl

end Dmn.Ref
