import Dmn.Model.LexerSpec
import Dmn.Lemmas.LexerName

/-!
# The part collector of `consume_name` computes the structural split of the text

`collectParts` (the five-state machine with `consumed_positions`) returns exactly the words and
symbols that the structural splitter `splitGo` finds, and records for each the position of its
last character — provided no character of the input is at the same time white space (for the
lexer) and a name part character (only U+1680, U+180E and U+FEFF are both).
-/

namespace Dmn.Lexer

/-- No character of the input is both lexer white space and a name part character. -/
def NoAmbiguousBlank (inp : List Nat) : Prop :=
  ∀ c ∈ inp, ¬ (isWhitespace c = true ∧ isNamePartChar c = true)

theorem sym_not_part {c : Nat} (h : isAdditionalNameSymbol c = true) : isNamePartChar c = false := by
  simp only [isAdditionalNameSymbol, Bool.or_eq_true, beq_iff_eq] at h
  rcases h with ((((h | h) | h) | h) | h) | h <;> subst h <;> decide

theorem sym_not_ws' {c : Nat} (h : isAdditionalNameSymbol c = true) : isWhitespace c = false := by
  simp only [isAdditionalNameSymbol, Bool.or_eq_true, beq_iff_eq] at h
  rcases h with ((((h | h) | h) | h) | h) | h <;> subst h <;> decide

theorem drop_of_getElem? {inp : List Nat} {i ch : Nat} (h : inp[i]? = some ch) :
    inp.drop i = ch :: inp.drop (i + 1) := by
  have hlt : i < inp.length := (List.getElem?_eq_some_iff.mp h).1
  rw [List.drop_eq_getElem_cons hlt, (List.getElem?_eq_some_iff.mp h).2]

theorem drop_of_getElem?_none {inp : List Nat} {i : Nat} (h : inp[i]? = none) : inp.drop i = [] := by
  have : inp.length ≤ i := List.getElem?_eq_none_iff.mp h
  exact List.drop_eq_nil_of_le this

/-- `is_comment_start` at a position of the input is `commentHead` of the splitter. -/
theorem commentStart_eq_head {inp : List Nat} {p ch : Nat} (h : inp[p]? = some ch) :
    isCommentStart inp p = commentHead ch (inp.drop (p + 1)) := by
  unfold isCommentStart commentHead
  rw [h, List.head?_drop]
  simp

/-- The splitter's view of the rest of the name from a state of the machine. -/
def tailOf (inp : List Nat) (s : NameSt) : List (List Nat × Nat) :=
  splitGo (s.pos + 1) s.cur (inp.drop (s.pos + 1))

/-- Well-formedness of a machine state. -/
def StWf (inp : List Nat) (s : NameSt) : Prop :=
  match s.state with
  | .s1 => s.cur ≠ []
  | .s3 => s.cur ≠ [] ∨ isNextNamePartChar inp s.pos = true
  | _ => s.cur = []

theorem splitGo_emit {off : Nat} {cur l : List Nat} (hc : cur ≠ [])
    (hl : ∀ ch, l.head? = some ch → isNamePartChar ch = false) :
    splitGo off cur l = (cur, off) :: splitGo off [] l := by
  have hce : cur.isEmpty = false := by cases cur <;> simp_all
  cases l with
  | nil => simp [splitGo, hce]
  | cons ch r =>
    have := hl ch rfl
    simp only [splitGo, this, hce, Bool.false_eq_true, if_false, List.singleton_append, List.nil_append]
    cases isAdditionalNameSymbol ch <;> cases commentHead ch r <;> cases isWhitespace ch <;> simp

theorem nameStep_cont_tail {inp : List Nat} (hamb : NoAmbiguousBlank inp) {s s' : NameSt}
    (h : nameStep inp s = .cont s') (hw : StWf inp s) :
    StWf inp s' ∧
    s.parts ++ (tailOf inp s).map (·.1) = s'.parts ++ (tailOf inp s').map (·.1) ∧
    s.positions ++ (tailOf inp s).map (fun x => x.2 - 1) =
      s'.positions ++ (tailOf inp s').map (fun x => x.2 - 1) := by
  unfold nameStep at h
  unfold tailOf
  -- the word states
  have word : ∀ (st' : NState), (s.state = .s1 ∨ s.state = .s3) →
      (if isNextNamePartChar inp s.pos = true then
        match inp[s.pos + 1]? with
        | some ch => NStep.cont { s with pos := s.pos + 1, cur := s.cur ++ [ch], state := st' }
        | none => NStep.err .unexpectedEof (s.pos + 1)
      else NStep.cont { s with parts := s.parts ++ [s.cur], positions := s.positions ++ [s.pos],
                               cur := [], state := .s2 }) = .cont s' →
      (s.state = st') →
      StWf inp s' ∧
      s.parts ++ (splitGo (s.pos + 1) s.cur (inp.drop (s.pos + 1))).map (·.1) =
        s'.parts ++ (splitGo (s'.pos + 1) s'.cur (inp.drop (s'.pos + 1))).map (·.1) ∧
      s.positions ++ (splitGo (s.pos + 1) s.cur (inp.drop (s.pos + 1))).map (fun x => x.2 - 1) =
        s'.positions ++ (splitGo (s'.pos + 1) s'.cur (inp.drop (s'.pos + 1))).map (fun x => x.2 - 1) := by
    intro st' hst h hst'
    split at h
    · rename_i hn
      split at h
      · rename_i ch hch
        cases h
        have hpart : isNamePartChar ch = true := by
          simpa [isNextNamePartChar, hch] using hn
        have hd := drop_of_getElem? hch
        refine ⟨?_, ?_, ?_⟩
        · unfold StWf
          rcases hst with h1 | h1 <;> (rw [← hst', h1]; simp)
        · simp only [hd, splitGo, hpart, if_true]
        · simp only [hd, splitGo, hpart, if_true]
      · cases h
    · rename_i hn
      cases h
      have hcur : s.cur ≠ [] := by
        unfold StWf at hw
        rcases hst with h1 | h1
        · simpa [h1] using hw
        · simp only [h1] at hw
          rcases hw with hw | hw
          · exact hw
          · exact absurd hw hn
      have hhead : ∀ ch, (inp.drop (s.pos + 1)).head? = some ch → isNamePartChar ch = false := by
        intro ch hch
        have : inp[s.pos + 1]? = some ch := by
          rw [List.head?_drop] at hch; exact hch
        simpa [isNextNamePartChar, this] using hn
      refine ⟨by simp [StWf], ?_, ?_⟩
      · simp only [splitGo_emit hcur hhead, List.map_cons, List.append_assoc, List.singleton_append]
      · simp only [splitGo_emit hcur hhead, List.map_cons, List.append_assoc, List.singleton_append,
          Nat.add_sub_cancel]
  cases hst : s.state <;> simp only [hst] at h
  · exact word .s1 (Or.inl hst) h hst
  · -- s2: only the state changes
    have hcur : s.cur = [] := by simpa [StWf, hst] using hw
    split at h
    · rename_i hn
      cases h
      exact ⟨by simp [StWf, hn], rfl, rfl⟩
    · split at h
      · cases h; exact ⟨by simp [StWf, hcur], rfl, rfl⟩
      · split at h
        · cases h; exact ⟨by simp [StWf, hcur], rfl, rfl⟩
        · cases h
  · exact word .s3 (Or.inr hst) h hst
  · -- s4
    have hcur : s.cur = [] := by simpa [StWf, hst] using hw
    split at h
    · rename_i hn
      split at h
      · rename_i ch hch
        cases h
        have hn' : isAdditionalNameSymbol ch = true ∧ isCommentStart inp (s.pos + 1) = false := by
          simpa [isNextAdditionalNameSymbol, hch] using hn
        have hsym := hn'.1
        have hcm : commentHead ch (inp.drop (s.pos + 1 + 1)) = false := by
          rw [← commentStart_eq_head hch]; exact hn'.2
        have hd := drop_of_getElem? hch
        refine ⟨by simp [StWf], ?_, ?_⟩
        · simp [hd, splitGo, sym_not_part hsym, hsym, hcur, hcm]
        · simp [hd, splitGo, sym_not_part hsym, hsym, hcur, hcm]
      · cases h
    · cases h
      exact ⟨by simp [StWf, hcur], rfl, rfl⟩
  · -- s5
    have hcur : s.cur = [] := by simpa [StWf, hst] using hw
    split at h
    · rename_i hn
      split at h
      · rename_i ch hch
        cases h
        have hws : isWhitespace ch = true := by
          simpa [isNextWhitespace, hch] using hn
        have hmem : ch ∈ inp := List.mem_of_getElem? hch
        have hnp : isNamePartChar ch = false := by
          cases hp : isNamePartChar ch with
          | false => rfl
          | true => exact absurd ⟨hws, hp⟩ (hamb ch hmem)
        have hns : isAdditionalNameSymbol ch = false := by
          cases hp : isAdditionalNameSymbol ch with
          | false => rfl
          | true => rw [sym_not_ws' hp] at hws; cases hws
        have hd := drop_of_getElem? hch
        refine ⟨by simp [StWf, hcur], ?_, ?_⟩
        · simp [hd, splitGo, hnp, hns, hws, hcur]
        · simp [hd, splitGo, hnp, hns, hws, hcur]
      · cases h
    · cases h
      exact ⟨by simp [StWf, hcur], rfl, rfl⟩

theorem nameStep_brk_tail {inp : List Nat} {s s' : NameSt}
    (h : nameStep inp s = .brk s') (hw : StWf inp s) :
    s'.parts = s.parts ∧ s'.positions = s.positions ∧ s'.pos = s.pos + 1 ∧ tailOf inp s = [] := by
  unfold nameStep at h
  cases hst : s.state <;> simp only [hst] at h
  all_goals (repeat' split at h)
  all_goals first
    | (cases h; done)
    | skip
  -- only state 2 breaks
  rename_i h1 h2 h3
  cases h
  have hcur : s.cur = [] := by simpa [StWf, hst] using hw
  refine ⟨rfl, rfl, rfl, ?_⟩
  unfold tailOf
  rw [hcur]
  cases hch : inp[s.pos + 1]? with
  | none => simp [drop_of_getElem?_none hch, splitGo]
  | some ch =>
    have e1 : isNamePartChar ch = false := by simpa [isNextNamePartChar, hch] using h1
    have e2 : (isAdditionalNameSymbol ch && !commentHead ch (inp.drop (s.pos + 1 + 1))) = false := by
      rw [← commentStart_eq_head hch]
      simpa [isNextAdditionalNameSymbol, hch] using h2
    have e3 : isWhitespace ch = false := by simpa [isNextWhitespace, hch] using h3
    simp only [drop_of_getElem? hch, splitGo, e1, e2, e3]
    simp

theorem nameLoop_split {inp : List Nat} (hamb : NoAmbiguousBlank inp) :
    ∀ (fuel : Nat) (s st : NameSt), nameLoop inp fuel s = .ok st → StWf inp s →
      st.parts = s.parts ++ (tailOf inp s).map (·.1) ∧
      st.positions = s.positions ++ (tailOf inp s).map (fun x => x.2 - 1) := by
  intro fuel
  induction fuel with
  | zero => intro s st h; simp [nameLoop] at h
  | succ n ih =>
    intro s st h hw
    rw [nameLoop] at h
    split at h
    · rename_i s' hs
      have := nameStep_cont_tail hamb hs hw
      have r := ih s' st h this.1
      exact ⟨by rw [r.1, this.2.1], by rw [r.2, this.2.2]⟩
    · rename_i s' hs
      cases h
      have := nameStep_brk_tail hs hw
      simp [this.1, this.2.1, this.2.2.2]
    · cases h

theorem splitGo_shift (a : Nat) : ∀ (l : List Nat) (off : Nat) (cur : List Nat),
    splitGo (a + off) cur l = (splitGo off cur l).map (fun x => (x.1, a + x.2)) := by
  intro l
  induction l with
  | nil => intro off cur; simp only [splitGo]; split <;> simp
  | cons ch r ih =>
    intro off cur
    simp only [splitGo]
    have e : a + off + 1 = a + (off + 1) := by omega
    split
    · rw [e, ih]
    · split
      · rw [e, ih]; split <;> simp
      · split
        · rw [e, ih]; split <;> simp
        · split <;> simp

/-- `collect_eq_split`: the machine started on a name start character at `pos` collects the
parts of `splitParts` of the text from `pos` on, with `consumed_positions[i]` the position of
the last character of part `i`. -/
theorem collectParts_eq_split {inp : List Nat} (hamb : NoAmbiguousBlank inp) {pos : Nat} {st : NameSt}
    (hstart : ∀ ch, inp[pos]? = some ch → isNamePartChar ch = true)
    (h : collectParts inp pos = .ok st) :
    st.parts = (splitParts (inp.drop pos)).map (·.1) ∧
    st.positions = (splitParts (inp.drop pos)).map (fun x => pos + x.2 - 1) := by
  unfold collectParts at h
  split at h
  · cases h
  · rename_i ch hch
    have := nameLoop_split hamb _ _ st h (by simp [StWf])
    have hd := drop_of_getElem? hch
    have hpart := hstart ch hch
    have e : splitParts (inp.drop pos) = splitGo 1 [ch] (inp.drop (pos + 1)) := by
      simp [splitParts, hd, splitGo, hpart]
    have sh := splitGo_shift pos (inp.drop (pos + 1)) 1 [ch]
    simp only [tailOf, List.nil_append] at this
    rw [e]
    rw [this.1, this.2, sh]
    simp [List.map_map, Function.comp_def]

end Dmn.Lexer
