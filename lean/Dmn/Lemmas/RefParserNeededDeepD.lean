import Dmn.Lemmas.RefParserNeededDeepC

/-!
# C06 — the minimal printer is minimal: primaries, tails, and the induction

The step of the induction for `parseExpr` (one lemma per primary) and for the list-like
helpers; `st_all` (every token list); `parse_length`.
-/

namespace Dmn.Ref

/-- A primary `c` (a node `parseExpr` builds before it enters its loop) that can stand bare
under any minimum and forbids no level. -/
theorem pre_of_primary (k : Nat) (c : Tree) (rest1 : List Tok) (m : Nat)
    (hso : startsOk .minimal k c = true) (hfb : fbOf c = none)
    (h : (pr .minimal c).length + cost (absorbsHead c rest1) ≤ m) :
    (pr .minimal c).length + cost (need k c rest1 || none != fbOf c) ≤ m := by
  rw [hfb]
  simp only [bne_self_eq_false, Bool.or_false, need, hso, Bool.not_true, Bool.false_or]
  exact h

theorem stE_atom {rest : List Tok} (ih : IH (rest.length + 1)) {k : Nat} (a : Atom) {t' : Tree} {rest' : List Tok}
    (h : parseExpr k (atomTok a :: rest) = some (t', rest')) :
    stopsAt k rest' ∧ rest'.length + (pr .minimal t').length + cost (need k t' rest') ≤ rest.length + 1 := by
  rw [parseExpr_atom] at h
  obtain ⟨hs', hc'⟩ := loop_continue ih (by omega) h 1
    (pre_of_primary k _ _ _ (by simp [startsOk]) rfl (by
      rw [absorbsHead_of_false (fun t => by simp [absorbs])]
      simp [pr, cost]))
  exact ⟨hs', by omega⟩

theorem stE_range {rest : List Tok} (ih : IH (rest.length + 1)) {k : Nat} {b1 : Bra} {r t' : Tree}
    {rest1 rest' : List Tok} (hr : parseRange b1 rest = some (r, rest1))
    (hloop : parseLoop k none r rest1 = some (t', rest')) :
    stopsAt k rest' ∧ rest'.length + (pr .minimal t').length + cost (need k t' rest') ≤ rest.length + 1 := by
  obtain ⟨hlen, habs, hso, hfb, hpos⟩ := parseRange_consumed hr
  obtain ⟨hs', hc'⟩ := loop_continue ih (by omega) hloop (pr .minimal r).length
    (pre_of_primary k _ _ _ (hso k) hfb (by
      rw [absorbsHead_of_false habs]
      simp [cost]))
  exact ⟨hs', by omega⟩

theorem stE_lparen {rest : List Tok} (ih : IH (rest.length + 1)) {k : Nat} {t' : Tree} {rest' : List Tok}
    (h : parseExpr k (.lparen :: rest) = some (t', rest')) :
    stopsAt k rest' ∧ rest'.length + (pr .minimal t').length + cost (need k t' rest') ≤ rest.length + 1 := by
  rcases parseExpr_lparen_inv h with ⟨e, rest1, he, hloop⟩ | ⟨r, rest1, hr, hloop⟩
  · obtain ⟨_, hce⟩ := (ih rest (by omega)).e _ _ _ he
    simp only [List.length_cons] at hce
    obtain ⟨hs', hc'⟩ := loop_continue ih (by omega) hloop ((pr .minimal e).length + 2)
      (by have := cost_le_two (need k e rest1 || none != fbOf e); omega)
    exact ⟨hs', by omega⟩
  · exact stE_range ih hr hloop

theorem emptyListRest_some {rest rest1 : List Tok} (h : emptyListRest rest = some rest1) :
    rest = .rbrack :: rest1 ∧ absorbsHead (.list .nil) rest1 = false := by
  unfold emptyListRest at h
  split at h
  · rename_i t r
    split at h
    · cases h
    · rename_i hse
      injection h with h
      subst h
      refine ⟨rfl, ?_⟩
      simp only [absorbsHead, absorbs]
      simp at hse
      simp [hse]
  · injection h with h
    subst h
    exact ⟨rfl, rfl⟩
  · cases h

theorem stE_lbrack {rest : List Tok} (ih : IH (rest.length + 1)) {k : Nat} {t' : Tree} {rest' : List Tok}
    (h : parseExpr k (.lbrack :: rest) = some (t', rest')) :
    stopsAt k rest' ∧ rest'.length + (pr .minimal t').length + cost (need k t' rest') ≤ rest.length + 1 := by
  rcases parseExpr_lbrack_inv h with ⟨rest1, he, hloop⟩ | ⟨r, rest1, hr, hloop⟩ |
    ⟨a, rest1, as, rest2, ha, has, hloop⟩
  · obtain ⟨hrest, habs⟩ := emptyListRest_some he
    subst hrest
    obtain ⟨hs', hc'⟩ := loop_continue ih (by simp only [List.length_cons]; omega) hloop 2
      (pre_of_primary k _ _ _ (by simp [startsOk]) rfl (by
        rw [habs]
        simp [pr, prArgs, cost]))
    refine ⟨hs', ?_⟩
    simp only [List.length_cons]
    omega
  · exact stE_range ih hr hloop
  · obtain ⟨_, hca⟩ := (ih rest (by omega)).e _ _ _ ha
    have hcb := (ih rest1 (by omega)).a _ _ _ has
    obtain ⟨hs', hc'⟩ := loop_continue ih (by omega) hloop (1 + (rest.length - rest2.length))
      (pre_of_primary k _ _ _ (by simp [startsOk]) rfl (by
        rw [absorbsHead_of_false (fun t => by simp [absorbs])]
        simp only [pr, prArgs, needs_callArg, wrapped_min, par_false, List.length_append, List.length_cons,
          cost_false]
        omega))
    exact ⟨hs', by omega⟩

theorem stE_minus {rest : List Tok} (ih : IH (rest.length + 1)) {k : Nat} {t' : Tree} {rest' : List Tok}
    (h : parseExpr k (.minus :: rest) = some (t', rest')) :
    stopsAt k rest' ∧ rest'.length + (pr .minimal t').length + cost (need k t' rest') ≤ rest.length + 1 := by
  obtain ⟨e, rest1, he, hloop⟩ := parseExpr_neg_inv h
  obtain ⟨hstop, hce⟩ := (ih rest (by omega)).e _ _ _ he
  have hB := last_cost (.neg e) e negMin rest1 (rest.length - rest1.length)
    (fun t => by simp only [absorbs, needs_negArg]) hstop (by omega)
  obtain ⟨hs', hc'⟩ := loop_continue ih (by omega) hloop (1 + (rest.length - rest1.length))
    (pre_of_primary k _ _ _ (by simp [startsOk]) rfl (by
      simp only [pr, needs_negArg, List.length_cons] at hB ⊢
      omega))
  exact ⟨hs', by omega⟩

theorem stE_kif {rest : List Tok} (ih : IH (rest.length + 1)) {k : Nat} {t' : Tree} {rest' : List Tok}
    (h : parseExpr k (.kif :: rest) = some (t', rest')) :
    stopsAt k rest' ∧ rest'.length + (pr .minimal t').length + cost (need k t' rest') ≤ rest.length + 1 := by
  obtain ⟨c, rest1, a, rest2, b, rest3, hc, ha, hb, hloop⟩ := parseExpr_kif_inv h
  obtain ⟨_, hcc⟩ := (ih rest (by omega)).e _ _ _ hc
  simp only [List.length_cons] at hcc
  obtain ⟨_, hca⟩ := (ih rest1 (by omega)).e _ _ _ ha
  simp only [List.length_cons] at hca
  obtain ⟨hstop, hcb⟩ := (ih rest2 (by omega)).e _ _ _ hb
  have hB := last_cost (.ite c a b) b iteMin rest3 (rest2.length - rest3.length)
    (fun t => by simp only [absorbs, needs_open]) hstop (by omega)
  obtain ⟨hs', hc'⟩ := loop_continue ih (by omega) hloop (1 + (rest.length - rest3.length))
    (pre_of_primary k _ _ _ (by simp [startsOk]) rfl (by
      simp only [pr, needs_open, needs_delim, wrapped_min, par_false, List.length_append,
        List.length_cons] at hB ⊢
      omega))
  exact ⟨hs', by omega⟩

theorem stE_kfor {rest : List Tok} (ih : IH (rest.length + 1)) {k : Nat} {t' : Tree} {rest' : List Tok}
    (h : parseExpr k (.kfor :: rest) = some (t', rest')) :
    stopsAt k rest' ∧ rest'.length + (pr .minimal t').length + cost (need k t' rest') ≤ rest.length + 1 := by
  obtain ⟨v, rest0, hrest, ⟨lo, rest1, hi, rest2, its, rest3, body, rest4, hlo, hhi, hits, hb, hloop⟩ |
    ⟨d, rest1, its, rest2, body, rest3, hd, hits, hb, hloop⟩⟩ := parseExpr_kfor_inv h
  · subst hrest
    simp only [List.length_cons] at ih ⊢
    obtain ⟨_, hclo⟩ := (ih rest0 (by omega)).e _ _ _ hlo
    simp only [List.length_cons] at hclo
    obtain ⟨_, hchi⟩ := (ih rest1 (by omega)).e _ _ _ hhi
    have hci := (ih rest2 (by omega)).i _ _ hits
    obtain ⟨hstop, hcb⟩ := (ih rest3 (by omega)).e _ _ _ hb
    have hB := last_cost (.forR v lo hi its body) body forMin rest4 (rest3.length - rest4.length)
      (fun t => by simp only [absorbs, needs_open]) hstop (by omega)
    obtain ⟨hs', hc'⟩ := loop_continue ih (by omega) hloop (3 + (rest0.length - rest4.length))
      (pre_of_primary k _ _ _ (by simp [startsOk]) rfl (by
        simp only [pr, needs_open, needs_delim, wrapped_min, par_false, List.length_append,
          List.length_cons] at hB ⊢
        omega))
    exact ⟨hs', by omega⟩
  · subst hrest
    simp only [List.length_cons] at ih ⊢
    obtain ⟨_, hcd⟩ := (ih rest0 (by omega)).e _ _ _ hd
    have hci := (ih rest1 (by omega)).i _ _ hits
    obtain ⟨hstop, hcb⟩ := (ih rest2 (by omega)).e _ _ _ hb
    have hB := last_cost (.forS v d its body) body forMin rest3 (rest2.length - rest3.length)
      (fun t => by simp only [absorbs, needs_open]) hstop (by omega)
    obtain ⟨hs', hc'⟩ := loop_continue ih (by omega) hloop (3 + (rest0.length - rest3.length))
      (pre_of_primary k _ _ _ (by simp [startsOk]) rfl (by
        simp only [pr, needs_open, needs_delim, wrapped_min, par_false, List.length_append,
          List.length_cons] at hB ⊢
        omega))
    exact ⟨hs', by omega⟩

theorem stE_quant {rest : List Tok} (ih : IH (rest.length + 1)) {k : Nat} (ev : Bool) {t' : Tree} {rest' : List Tok}
    (h : parseExpr k (quantTok ev :: rest) = some (t', rest')) :
    stopsAt k rest' ∧ rest'.length + (pr .minimal t').length + cost (need k t' rest') ≤ rest.length + 1 := by
  obtain ⟨v, rest0, hrest, d, rest1, qs, rest2, body, rest3, hd, hqs, hb, hloop⟩ := parseExpr_quant_inv' ev h
  subst hrest
  simp only [List.length_cons] at ih ⊢
  obtain ⟨_, hcd⟩ := (ih rest0 (by omega)).e _ _ _ hd
  have hcq := (ih rest1 (by omega)).b _ _ _ _ hqs
  obtain ⟨hstop, hcb⟩ := (ih rest2 (by omega)).e _ _ _ hb
  have hB := last_cost (.quant ev v d qs body) body (quantMin ev) rest3 (rest2.length - rest3.length)
    (fun t => by simp only [absorbs, needs_open]) hstop (by omega)
  obtain ⟨hs', hc'⟩ := loop_continue ih (by omega) hloop (3 + (rest0.length - rest3.length))
    (pre_of_primary k _ _ _ (by simp [startsOk]) rfl (by
      simp only [pr, needs_open, needs_delim, wrapped_min, par_false, List.length_append,
        List.length_cons] at hB ⊢
      omega))
  exact ⟨hs', by omega⟩

theorem stE_kfunction {rest : List Tok} (ih : IH (rest.length + 1)) {k : Nat} {t' : Tree} {rest' : List Tok}
    (h : parseExpr k (.kfunction :: rest) = some (t', rest')) :
    stopsAt k rest' ∧ rest'.length + (pr .minimal t').length + cost (need k t' rest') ≤ rest.length + 1 := by
  obtain ⟨rest0, hrest, ps, rest1, body, rest2, hps, hb, hloop⟩ := parseExpr_kfunction_inv h
  subst hrest
  simp only [List.length_cons] at ih ⊢
  have hcp := parseParams_consumed hps
  obtain ⟨hstop, hcb⟩ := (ih rest1 (by omega)).e _ _ _ hb
  have hB := last_cost (.fn ps body) body fnMin rest2 (rest1.length - rest2.length)
    (fun t => by simp only [absorbs, needs_open]) hstop (by omega)
  obtain ⟨hs', hc'⟩ := loop_continue ih (by omega) hloop (2 + (rest0.length - rest2.length))
    (pre_of_primary k _ _ _ (by simp [startsOk]) rfl (by
      simp only [pr, needs_open, List.length_append, List.length_cons] at hB ⊢
      omega))
  exact ⟨hs', by omega⟩

theorem keyTok_of_keyOf {kt : Tok} {key : Key} (h : keyOf kt = some key) : keyTok key = kt := by
  cases kt <;> simp [keyOf] at h <;> subst h <;> rfl

theorem stE_lbrace {rest : List Tok} (ih : IH (rest.length + 1)) {k : Nat} {t' : Tree} {rest' : List Tok}
    (h : parseExpr k (.lbrace :: rest) = some (t', rest')) :
    stopsAt k rest' ∧ rest'.length + (pr .minimal t').length + cost (need k t' rest') ≤ rest.length + 1 := by
  rcases parseExpr_lbrace_inv h with ⟨rest1, hrest, hloop⟩ |
    ⟨kt, rest0, key, v, rest1, es, rest2, hrest, hk, hv, hes, hloop⟩
  · subst hrest
    simp only [List.length_cons] at ih ⊢
    obtain ⟨hs', hc'⟩ := loop_continue ih (by omega) hloop 2
      (pre_of_primary k _ _ _ (by simp [startsOk]) rfl (by
        rw [absorbsHead_of_false (fun t => by simp [absorbs])]
        simp [pr, prEntries, cost]))
    exact ⟨hs', by omega⟩
  · subst hrest
    simp only [List.length_cons] at ih ⊢
    obtain ⟨_, hcv⟩ := (ih rest0 (by omega)).e _ _ _ hv
    have hce := (ih rest1 (by omega)).en _ _ hes
    obtain ⟨hs', hc'⟩ := loop_continue ih (by omega) hloop (3 + (rest0.length - rest2.length))
      (pre_of_primary k _ _ _ (by simp [startsOk]) rfl (by
        rw [absorbsHead_of_false (fun t => by simp [absorbs])]
        simp only [pr, prEntries, needs_delim, wrapped_min, par_false, List.length_append, List.length_cons,
          cost_false]
        omega))
    exact ⟨hs', by omega⟩

theorem absorbsHead_utest {X : List Tok} {e : End} {r : List Tok} (c : Cmp) (h : parseEnd X = some (e, r)) :
    absorbsHead (.utest c e) r = false := by
  cases hr : r with
  | nil => rfl
  | cons T Y =>
    simp only [absorbsHead, absorbs]
    cases hq : endIsQn e with
    | false => simp
    | true =>
      cases hT : (T == Tok.dot) with
      | false => simp
      | true =>
        have hT' : T = .dot := by simpa using hT
        subst hT'
        cases Y with
        | nil => simp [nextIsName]
        | cons u Z =>
          cases u <;> simp [nextIsName]
          exact absurd hr (parseEnd_rest h hq _ _)

theorem stE_cmp {rest : List Tok} (ih : IH (rest.length + 1)) {k : Nat} {t : Tok} {c : Cmp}
    (hc : cmpOf t = some c) {t' : Tree} {rest' : List Tok}
    (h : parseExpr k (t :: rest) = some (t', rest')) :
    stopsAt k rest' ∧ rest'.length + (pr .minimal t').length + cost (need k t' rest') ≤ rest.length + 1 := by
  obtain ⟨e, rest1, he, hloop⟩ := parseExpr_cmp_inv hc h
  have hlen := parseEnd_consumed he
  obtain ⟨hs', hc'⟩ := loop_continue ih (by omega) hloop (1 + (prEnd e).length)
    (pre_of_primary k _ _ _ (by simp [startsOk]) rfl (by
      rw [absorbsHead_utest c he]
      simp only [pr, List.length_cons, cost_false]
      omega))
  exact ⟨hs', by omega⟩

/-- The step of the induction for `parseExpr`. -/
theorem stE_step (toks : List Tok) (ih : IH toks.length) : StE toks := by
  intro k t' rest' h
  cases toks with
  | nil => rw [parseExpr_nil] at h; cases h
  | cons t rest =>
    simp only [List.length_cons] at ih ⊢
    cases hst : startsExpr t with
    | false => rw [parseExpr_none_of_start hst] at h; cases h
    | true =>
      cases t <;> (try (cases hst; done))
      case name n => exact stE_atom ih (.name n) h
      case num n => exact stE_atom ih (.num n) h
      case lit n => exact stE_atom ih (.lit n) h
      case lparen => exact stE_lparen ih h
      case rbrack =>
        obtain ⟨r, rest1, hr, hloop⟩ := parseExpr_rbrack_inv h
        exact stE_range ih hr hloop
      case lbrack => exact stE_lbrack ih h
      case minus => exact stE_minus ih h
      case kif => exact stE_kif ih h
      case kfor => exact stE_kfor ih h
      case ksome => exact stE_quant ih false h
      case kevery => exact stE_quant ih true h
      case kfunction => exact stE_kfunction ih h
      case lbrace => exact stE_lbrace ih h
      case lt => exact stE_cmp ih (c := .lt) rfl h
      case le => exact stE_cmp ih (c := .le) rfl h
      case gt => exact stE_cmp ih (c := .gt) rfl h
      case ge => exact stE_cmp ih (c := .ge) rfl h

/-! ## The list-like helpers -/

theorem stA_step (toks : List Tok) (ih : IH toks.length) : StA toks := by
  intro close as rest' h
  rcases parseArgsTail_inv h with ⟨rest, a, rest1, as', htoks, ha, has, hcons, hl⟩ | ⟨htoks, hnil⟩
  · subst htoks hcons
    simp only [List.length_cons] at ih ⊢
    obtain ⟨_, hca⟩ := (ih rest (by omega)).e _ _ _ ha
    have hcb := (ih rest1 (by omega)).a _ _ _ has
    simp only [prArgsTail, needs_callArg, wrapped_min, par_false, List.length_append, List.length_cons]
    omega
  · subst htoks hnil
    simp [prArgsTail]

theorem stB_step (toks : List Tok) (ih : IH toks.length) : StB toks := by
  intro sep close bs rest' h
  rcases parseBindsTail_inv h with ⟨n, rest, v, rest1, bs', htoks, hv, hbs, hcons, hl⟩ | ⟨htoks, hnil⟩
  · subst htoks hcons
    simp only [List.length_cons] at ih ⊢
    obtain ⟨_, hcv⟩ := (ih rest (by omega)).e _ _ _ hv
    have hcb := (ih rest1 (by omega)).b _ _ _ _ hbs
    simp only [prBindsTail, needs_delim, wrapped_min, par_false, List.length_append, List.length_cons]
    omega
  · subst htoks hnil
    simp [prBindsTail]

theorem stEn_step (toks : List Tok) (ih : IH toks.length) : StEn toks := by
  intro es rest' h
  rcases parseEntriesTail_inv h with ⟨kt, rest, key, v, rest1, es', htoks, hk, hv, hes, hcons, hl⟩ | ⟨htoks, hnil⟩
  · subst htoks hcons
    simp only [List.length_cons] at ih ⊢
    obtain ⟨_, hcv⟩ := (ih rest (by omega)).e _ _ _ hv
    have hcb := (ih rest1 (by omega)).en _ _ hes
    simp only [prEntriesTail, needs_delim, wrapped_min, par_false, List.length_append, List.length_cons]
    omega
  · subst htoks hnil
    simp [prEntriesTail]

theorem stI_step (toks : List Tok) (ih : IH toks.length) : StI toks := by
  intro its rest' h
  rcases parseItersTail_inv h with ⟨htoks, hnil⟩ |
    ⟨v, rest, lo, rest1, hi, rest2, its', htoks, hlo, hhi, hits, hcons, hl1, hl2⟩ |
    ⟨v, rest, d, rest1, its', htoks, hd, hits, hcons, hl⟩
  · subst htoks hnil
    simp [prItersTail]
  · subst htoks hcons
    simp only [List.length_cons] at ih ⊢
    obtain ⟨_, hclo⟩ := (ih rest (by omega)).e _ _ _ hlo
    simp only [List.length_cons] at hclo
    obtain ⟨_, hchi⟩ := (ih rest1 (by omega)).e _ _ _ hhi
    have hcb := (ih rest2 (by omega)).i _ _ hits
    simp only [prItersTail, needs_delim, wrapped_min, par_false, List.length_append, List.length_cons]
    omega
  · subst htoks hcons
    simp only [List.length_cons] at ih ⊢
    obtain ⟨_, hcd⟩ := (ih rest (by omega)).e _ _ _ hd
    have hcb := (ih rest1 (by omega)).i _ _ hits
    simp only [prItersTail, needs_delim, wrapped_min, par_false, List.length_append, List.length_cons]
    omega

/-! ## Every token list -/

theorem ih_all : ∀ n : Nat, IH n
  | 0 => fun _ h => absurd h (Nat.not_lt_zero _)
  | n + 1 => by
    intro toks hlt
    have ihn := ih_all n
    by_cases hl : toks.length < n
    · exact ihn toks hl
    · have hn : toks.length = n := by omega
      have ih' : IH toks.length := by rw [hn]; exact ihn
      exact ⟨stE_step toks ih', stL_step toks ih', stA_step toks ih', stB_step toks ih', stEn_step toks ih',
        stI_step toks ih'⟩

theorem st_all (toks : List Tok) : StAll toks := ih_all (toks.length + 1) toks (Nat.lt_succ_self _)

/-- Whatever token list is read as the tree `t` is at least as long as the minimal rendering
of `t`. -/
theorem parse_length {toks : List Tok} {t : Tree} (h : parse toks = some t) :
    (pr .minimal t).length ≤ toks.length := by
  have := ((st_all toks).e 0 t [] (parse_some h)).2
  simp only [List.length_nil] at this
  omega

end Dmn.Ref
