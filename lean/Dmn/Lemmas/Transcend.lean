import Dmn.Model.Transcend
import Dmn.Lemmas.DecRound
import Mathlib.Tactic.Linarith
import Mathlib.Tactic.Ring
import Mathlib.Tactic.FieldSimp
import Mathlib.Algebra.Order.Field.Rat
import Mathlib.Data.Rat.Cast.Order

/-!
# What is proved about the enclosures of `ln` and `exp` (`Model/Transcend.lean`)

`Encl lo hi x`: the fixed-point interval `[lo, hi] / S` contains the rational `x`.

* the interval operations round outwards: `encl_ofFrac`, `encl_add`, `encl_mul`, `encl_divNat`,
  `encl_sub`, `encl_nsmul`;
* the two series loops enclose the *rational partial sums* of the series for every rational
  argument: `atanhLoop_sound`, `expLoop_sound`;
* `twoAtanh` / `expSmall` enclose every `x` between the partial sum and the partial sum plus the
  tail bound written in the code: `twoAtanh_encloses`, `expSmall_encloses`;
* the argument reductions are exact: `lnReduce_exact` (`c·10^e = m·10^k`, `1 ≤ m < 10`),
  `halve_exact` (`n/d = 2^i · n/d'`, `1 ≤ n/d' < 2`, hence `z = (n−d')/(n+d') ∈ [0, 1/3)`).

Not proved (the one analytic assumption): for `0 ≤ z ≤ 1/3`,
`2·atanh z ∈ [2·P(z), 2·(P(z) + 9/8·z^281)]` with `P` the 140-term partial sum, and for
`0 ≤ r ≤ 3`, `exp r ∈ [Q(r), Q(r) + 2·r^160/160!]` with `Q` the 160-term partial sum — both are
geometric-series bounds on the tails — together with `ln(m·2^i·10^k) = ln m + i·ln 2 + k·ln 10`
and `exp(k·ln 10 + r) = 10^k·exp r`.
-/

namespace Dmn.Transcend

/-- the fixed-point interval `[lo, hi] / S` contains `x` -/
def Encl (lo hi : Nat) (x : ℚ) : Prop := (lo : ℚ) ≤ x * (S : ℚ) ∧ x * (S : ℚ) ≤ (hi : ℚ)

theorem S_pos : (0 : ℚ) < (S : ℚ) := by
  have : 0 < S := Nat.pow_pos (by decide)
  exact_mod_cast this

theorem floor_le (a b : Nat) : ((a / b : Nat) : ℚ) ≤ (a : ℚ) / (b : ℚ) := by
  by_cases hb : b = 0
  · subst hb; simp
  · have hbq : (0 : ℚ) < (b : ℚ) := by exact_mod_cast Nat.pos_of_ne_zero hb
    rw [le_div_iff₀ hbq]
    exact_mod_cast Nat.div_mul_le_self a b

theorem cdiv_mul_ge (a b : Nat) (hb : 0 < b) : a ≤ cdiv a b * b := by
  unfold cdiv
  have h1 := Nat.div_add_mod (a + b - 1) b
  have h2 := Nat.mod_lt (a + b - 1) hb
  generalize (a + b - 1) / b = q at *
  generalize (a + b - 1) % b = r at *
  rw [Nat.mul_comm] at h1
  generalize q * b = p at *
  omega

theorem le_cdiv (a b : Nat) (hb : 0 < b) : (a : ℚ) / (b : ℚ) ≤ ((cdiv a b : Nat) : ℚ) := by
  have hbq : (0 : ℚ) < (b : ℚ) := by exact_mod_cast hb
  rw [div_le_iff₀ hbq]
  exact_mod_cast cdiv_mul_ge a b hb

/-- a fraction, rounded down and up -/
theorem encl_ofFrac (zn zd : Nat) (hd : 0 < zd) :
    Encl (zn * S / zd) (cdiv (zn * S) zd) ((zn : ℚ) / (zd : ℚ)) := by
  have hdq : (0 : ℚ) < (zd : ℚ) := by exact_mod_cast hd
  have e : (zn : ℚ) / (zd : ℚ) * (S : ℚ) = ((zn * S : Nat) : ℚ) / (zd : ℚ) := by
    push_cast; field_simp
  constructor
  · rw [e]; exact floor_le _ _
  · rw [e]; exact le_cdiv _ _ hd

theorem encl_add {a b c d : Nat} {x y : ℚ} (hx : Encl a b x) (hy : Encl c d y) :
    Encl (a + c) (b + d) (x + y) := by
  obtain ⟨h1, h2⟩ := hx
  obtain ⟨h3, h4⟩ := hy
  constructor
  · push_cast; rw [add_mul]; linarith
  · push_cast; rw [add_mul]; linarith

/-- product of two non-negative quantities: the lower bound is rounded down, the upper bound up -/
theorem encl_mul {a b c d : Nat} {x y : ℚ} (hx : Encl a b x) (hy : Encl c d y) (x0 : 0 ≤ x) (y0 : 0 ≤ y) :
    Encl (a * c / S) (cdiv (b * d) S) (x * y) := by
  obtain ⟨h1, h2⟩ := hx
  obtain ⟨h3, h4⟩ := hy
  have hS := S_pos
  have hSn : 0 < S := by exact_mod_cast hS
  have e : x * y * (S : ℚ) = (x * (S : ℚ)) * (y * (S : ℚ)) / (S : ℚ) := by field_simp
  have xs0 : 0 ≤ x * (S : ℚ) := mul_nonneg x0 hS.le
  have ys0 : 0 ≤ y * (S : ℚ) := mul_nonneg y0 hS.le
  constructor
  · calc ((a * c / S : Nat) : ℚ) ≤ ((a * c : Nat) : ℚ) / (S : ℚ) := floor_le _ _
      _ ≤ (x * (S : ℚ)) * (y * (S : ℚ)) / (S : ℚ) := by
        apply div_le_div_of_nonneg_right _ hS.le
        push_cast
        exact mul_le_mul h1 h3 (by positivity) xs0
      _ = x * y * (S : ℚ) := e.symm
  · calc x * y * (S : ℚ) = (x * (S : ℚ)) * (y * (S : ℚ)) / (S : ℚ) := e
      _ ≤ ((b * d : Nat) : ℚ) / (S : ℚ) := by
        apply div_le_div_of_nonneg_right _ hS.le
        push_cast
        exact mul_le_mul h2 h4 ys0 (by positivity)
      _ ≤ ((cdiv (b * d) S : Nat) : ℚ) := le_cdiv _ _ hSn

/-- division by a positive natural -/
theorem encl_divNat {a b : Nat} {x : ℚ} (hx : Encl a b x) (k : Nat) (hk : 0 < k) :
    Encl (a / k) (cdiv b k) (x / (k : ℚ)) := by
  obtain ⟨h1, h2⟩ := hx
  have hkq : (0 : ℚ) < (k : ℚ) := by exact_mod_cast hk
  have e : x / (k : ℚ) * (S : ℚ) = x * (S : ℚ) / (k : ℚ) := by field_simp
  constructor
  · calc ((a / k : Nat) : ℚ) ≤ (a : ℚ) / (k : ℚ) := floor_le _ _
      _ ≤ x * (S : ℚ) / (k : ℚ) := div_le_div_of_nonneg_right h1 hkq.le
      _ = x / (k : ℚ) * (S : ℚ) := e.symm
  · calc x / (k : ℚ) * (S : ℚ) = x * (S : ℚ) / (k : ℚ) := e
      _ ≤ (b : ℚ) / (k : ℚ) := div_le_div_of_nonneg_right h2 hkq.le
      _ ≤ ((cdiv b k : Nat) : ℚ) := le_cdiv _ _ hk

/-- difference `x − y` with `y ≤ x` (the subtractions on naturals truncate at zero) -/
theorem encl_sub {a b c d : Nat} {x y : ℚ} (hx : Encl a b x) (hy : Encl c d y) (hxy : y ≤ x) :
    Encl (a - d) (b - c) (x - y) := by
  obtain ⟨h1, h2⟩ := hx
  obtain ⟨h3, h4⟩ := hy
  have hS := S_pos
  have hd : y * (S : ℚ) ≤ x * (S : ℚ) := mul_le_mul_of_nonneg_right hxy hS.le
  constructor
  · rw [sub_mul]
    by_cases h : d ≤ a
    · rw [Nat.cast_sub h]; linarith
    · have : a - d = 0 := by omega
      rw [this]; push_cast; linarith
  · rw [sub_mul]
    have hcb : c ≤ b := by
      have : (c : ℚ) ≤ (b : ℚ) := by linarith
      exact_mod_cast this
    rw [Nat.cast_sub hcb]; linarith

/-- a natural multiple -/
theorem encl_nsmul {a b : Nat} {x : ℚ} (hx : Encl a b x) (j : Nat) : Encl (j * a) (j * b) ((j : ℚ) * x) := by
  obtain ⟨h1, h2⟩ := hx
  have hj : (0 : ℚ) ≤ (j : ℚ) := by positivity
  constructor
  · push_cast; rw [mul_assoc]; exact mul_le_mul_of_nonneg_left h1 hj
  · push_cast; rw [mul_assoc]; exact mul_le_mul_of_nonneg_left h2 hj

/-! ### the series of `atanh` -/

/-- `Σ_{i<n} z^(2i+1) / (2i+1)` -/
def atanhPartial (z : ℚ) : Nat → ℚ
  | 0 => 0
  | n + 1 => atanhPartial z n + z ^ (2 * n + 1) / ((2 * n + 1 : Nat) : ℚ)

/-- the loop encloses the next power of `z` and the partial sum of the series, for every rational
`z ≥ 0` -/
theorem atanhLoop_sound (z : ℚ) (z0 : 0 ≤ z) (z2lo z2hi : Nat) (hz2 : Encl z2lo z2hi (z ^ 2)) :
    ∀ (steps n tlo thi slo shi : Nat), Encl tlo thi (z ^ (2 * n + 1)) → Encl slo shi (atanhPartial z n) →
      Encl (atanhLoop steps n z2lo z2hi tlo thi slo shi).1 (atanhLoop steps n z2lo z2hi tlo thi slo shi).2.1
          (z ^ (2 * (n + steps) + 1)) ∧
        Encl (atanhLoop steps n z2lo z2hi tlo thi slo shi).2.2.1 (atanhLoop steps n z2lo z2hi tlo thi slo shi).2.2.2
          (atanhPartial z (n + steps)) := by
  intro steps
  induction steps with
  | zero => intro n tlo thi slo shi ht hs; exact ⟨ht, hs⟩
  | succ k ih =>
    intro n tlo thi slo shi ht hs
    have ht' : Encl (tlo * z2lo / S) (cdiv (thi * z2hi) S) (z ^ (2 * (n + 1) + 1)) := by
      have := encl_mul ht hz2 (pow_nonneg z0 _) (pow_nonneg z0 _)
      have e : z ^ (2 * n + 1) * z ^ 2 = z ^ (2 * (n + 1) + 1) := by ring
      rw [e] at this; exact this
    have hs' : Encl (slo + tlo / (2 * n + 1)) (shi + cdiv thi (2 * n + 1)) (atanhPartial z (n + 1)) :=
      encl_add hs (encl_divNat ht (2 * n + 1) (by omega))
    have := ih (n + 1) _ _ _ _ ht' hs'
    have e : n + 1 + k = n + (k + 1) := by omega
    rw [e] at this
    exact this

/-- `twoAtanh zn zd` contains every `x` between twice the 140-term partial sum of the series at
`z = zn/zd` and that plus twice the tail bound `9/8 · z^281` -/
theorem twoAtanh_encloses (zn zd : Nat) (hd : 0 < zd) (x : ℚ)
    (hlo : 2 * atanhPartial ((zn : ℚ) / (zd : ℚ)) 140 ≤ x)
    (hhi : x ≤ 2 * (atanhPartial ((zn : ℚ) / (zd : ℚ)) 140 + ((zn : ℚ) / (zd : ℚ)) ^ 281 * (9 / 8))) :
    Encl (twoAtanh zn zd).1 (twoAtanh zn zd).2 x := by
  have hz := encl_ofFrac zn zd hd
  have z0 : (0 : ℚ) ≤ (zn : ℚ) / (zd : ℚ) := div_nonneg (Nat.cast_nonneg _) (Nat.cast_nonneg _)
  generalize (zn : ℚ) / (zd : ℚ) = z at *
  have hz2 : Encl (zn * S / zd * (zn * S / zd) / S) (cdiv (cdiv (zn * S) zd * cdiv (zn * S) zd) S) (z ^ 2) := by
    have := encl_mul hz hz z0 z0
    have e : z * z = z ^ 2 := by ring
    rw [e] at this; exact this
  have h1 : Encl (zn * S / zd) (cdiv (zn * S) zd) (z ^ (2 * 0 + 1)) := by simpa using hz
  have h0 : Encl 0 0 (atanhPartial z 0) := by simp [Encl, atanhPartial]
  have hl := atanhLoop_sound z z0 _ _ hz2 atanhTerms 0 _ _ 0 0 h1 h0
  unfold twoAtanh
  simp only []
  generalize atanhLoop atanhTerms 0 _ _ _ _ 0 0 = r at hl
  obtain ⟨t1, t2, s1, s2⟩ := r
  simp only [atanhTerms, Nat.zero_add] at hl
  obtain ⟨⟨_, ht⟩, ⟨hs1, hs2⟩⟩ := hl
  have hS := S_pos
  have e281 : 2 * 140 + 1 = 281 := by norm_num
  rw [e281] at ht
  constructor
  · show ((2 * s1 : Nat) : ℚ) ≤ x * (S : ℚ)
    push_cast
    have : 2 * atanhPartial z 140 * (S : ℚ) ≤ x * (S : ℚ) := mul_le_mul_of_nonneg_right hlo hS.le
    linarith
  · show x * (S : ℚ) ≤ ((2 * (s2 + cdiv (t2 * 9) 8 + 1) : Nat) : ℚ)
    have h9 : ((t2 * 9 : Nat) : ℚ) / ((8 : Nat) : ℚ) ≤ ((cdiv (t2 * 9) 8 : Nat) : ℚ) := le_cdiv _ _ (by decide)
    have : x * (S : ℚ) ≤ 2 * (atanhPartial z 140 + z ^ 281 * (9 / 8)) * (S : ℚ) := mul_le_mul_of_nonneg_right hhi hS.le
    push_cast at h9 ⊢
    have ht9 : z ^ 281 * (S : ℚ) * 9 / 8 ≤ (t2 : ℚ) * 9 / 8 := by linarith
    linarith

/-! ### the series of `exp` -/

/-- `r^n / n!` -/
def expTerm (r : ℚ) : Nat → ℚ
  | 0 => 1
  | n + 1 => expTerm r n * r / ((n + 1 : Nat) : ℚ)

/-- `Σ_{i<n} r^i / i!` -/
def expPartial (r : ℚ) : Nat → ℚ
  | 0 => 0
  | n + 1 => expPartial r n + expTerm r n

theorem expTerm_nonneg (r : ℚ) (r0 : 0 ≤ r) : ∀ n, 0 ≤ expTerm r n
  | 0 => by simp [expTerm]
  | n + 1 => by
    unfold expTerm
    exact div_nonneg (mul_nonneg (expTerm_nonneg r r0 n) r0) (Nat.cast_nonneg _)

/-- the loop encloses the next term and the partial sum of the exponential series, for every
rational `r ≥ 0` enclosed by `[rlo, rhi]` -/
theorem expLoop_sound (r : ℚ) (r0 : 0 ≤ r) (rlo rhi : Nat) (hr : Encl rlo rhi r) :
    ∀ (steps n tlo thi slo shi : Nat), Encl tlo thi (expTerm r n) → Encl slo shi (expPartial r n) →
      Encl (expLoop steps n rlo rhi tlo thi slo shi).1 (expLoop steps n rlo rhi tlo thi slo shi).2.1
          (expTerm r (n + steps)) ∧
        Encl (expLoop steps n rlo rhi tlo thi slo shi).2.2.1 (expLoop steps n rlo rhi tlo thi slo shi).2.2.2
          (expPartial r (n + steps)) := by
  intro steps
  induction steps with
  | zero => intro n tlo thi slo shi ht hs; exact ⟨ht, hs⟩
  | succ k ih =>
    intro n tlo thi slo shi ht hs
    have ht' : Encl (tlo * rlo / S / (n + 1)) (cdiv (cdiv (thi * rhi) S) (n + 1)) (expTerm r (n + 1)) :=
      encl_divNat (encl_mul ht hr (expTerm_nonneg r r0 n) r0) (n + 1) (by omega)
    have hs' : Encl (slo + tlo) (shi + thi) (expPartial r (n + 1)) := encl_add hs ht
    have := ih (n + 1) _ _ _ _ ht' hs'
    have e : n + 1 + k = n + (k + 1) := by omega
    rw [e] at this
    exact this

/-- `expSmall rlo rhi` contains every `x` between the 160-term partial sum of the exponential
series at `r` and that plus the tail bound `2 · r^160/160!`, for every `r ≥ 0` in `[rlo, rhi]` -/
theorem expSmall_encloses (rlo rhi : Nat) (r : ℚ) (r0 : 0 ≤ r) (hr : Encl rlo rhi r) (x : ℚ)
    (hlo : expPartial r 160 ≤ x) (hhi : x ≤ expPartial r 160 + 2 * expTerm r 160) :
    Encl (expSmall rlo rhi).1 (expSmall rlo rhi).2 x := by
  have h1 : Encl S S (expTerm r 0) := by simp [Encl, expTerm]
  have h0 : Encl 0 0 (expPartial r 0) := by simp [Encl, expPartial]
  have hl := expLoop_sound r r0 rlo rhi hr expTerms 0 S S 0 0 h1 h0
  unfold expSmall
  simp only []
  generalize expLoop expTerms 0 rlo rhi S S 0 0 = q at hl
  obtain ⟨t1, t2, s1, s2⟩ := q
  simp only [expTerms, Nat.zero_add] at hl
  obtain ⟨⟨_, ht⟩, ⟨hs1, hs2⟩⟩ := hl
  have hS := S_pos
  constructor
  · show ((s1 : Nat) : ℚ) ≤ x * (S : ℚ)
    have : expPartial r 160 * (S : ℚ) ≤ x * (S : ℚ) := mul_le_mul_of_nonneg_right hlo hS.le
    linarith
  · show x * (S : ℚ) ≤ ((s2 + 2 * t2 + 1 : Nat) : ℚ)
    have : x * (S : ℚ) ≤ (expPartial r 160 + 2 * expTerm r 160) * (S : ℚ) := mul_le_mul_of_nonneg_right hhi hS.le
    push_cast
    linarith

/-! ### argument reduction -/

/-- `c·10^e = m·10^k` exactly, with `m = c / 10^(d−1) ∈ [1, 10)` and `k = e + d − 1`, `d` the number
of digits of `c` (the reduction of `lnEnclosure`) -/
theorem lnReduce_exact (c : Nat) (e : Int) (hc : c ≠ 0) :
    (c : ℚ) * (10 : ℚ) ^ e = ((c : ℚ) / (10 : ℚ) ^ (digits c - 1)) * (10 : ℚ) ^ (e + (digits c : Int) - 1) ∧
      1 ≤ (c : ℚ) / (10 : ℚ) ^ (digits c - 1) ∧ (c : ℚ) / (10 : ℚ) ^ (digits c - 1) < 10 := by
  obtain ⟨h1, h2, h3⟩ := D128.ndigits_spec c hc
  unfold digits
  generalize D128.ndigits c = d at *
  have hp : (0 : ℚ) < (10 : ℚ) ^ (d - 1) := by positivity
  refine ⟨?_, ?_, ?_⟩
  · have e1 : e + (d : Int) - 1 = e + ((d - 1 : Nat) : Int) := by omega
    rw [e1, zpow_add₀ (by norm_num : (10 : ℚ) ≠ 0), zpow_natCast]
    field_simp
  · rw [le_div_iff₀ hp, one_mul]
    exact_mod_cast h2
  · rw [div_lt_iff₀ hp]
    have : c < 10 * 10 ^ (d - 1) := by
      have : 10 ^ d = 10 * 10 ^ (d - 1) := by
        rw [← D128.pow10_succ]; congr 1; omega
      omega
    exact_mod_cast this

/-- the halving loop of `lnGe1`: the denominator is multiplied by `2^i` exactly, `i` is counted,
the quotient stays at least 1, and falls below 2 when it started below `2^(steps+1)` -/
theorem halve_exact : ∀ (steps n d j : Nat),
    (halve steps n d j).1 = d * 2 ^ ((halve steps n d j).2 - j) ∧ j ≤ (halve steps n d j).2 ∧
      (d ≤ n → (halve steps n d j).1 ≤ n) ∧ (n < 2 * d * 2 ^ steps → n < 2 * (halve steps n d j).1) := by
  intro steps
  induction steps with
  | zero => intro n d j; simp [halve]
  | succ k ih =>
    intro n d j
    unfold halve
    by_cases h : n ≥ 2 * d
    · rw [if_pos h]
      obtain ⟨i1, i2, i3, i4⟩ := ih n (2 * d) (j + 1)
      refine ⟨?_, by omega, fun _ => i3 h, fun hn => i4 ?_⟩
      · rw [i1]
        have : (halve k n (2 * d) (j + 1)).2 - j = ((halve k n (2 * d) (j + 1)).2 - (j + 1)) + 1 := by omega
        rw [this, Nat.pow_succ]
        generalize 2 ^ ((halve k n (2 * d) (j + 1)).2 - (j + 1)) = p
        ring
      · rw [Nat.pow_succ] at hn
        have : 2 * d * (2 ^ k * 2) = 2 * (2 * d) * 2 ^ k := by
          generalize 2 ^ k = p
          ring
        omega
    · rw [if_neg h]
      obtain ⟨i1, i2, i3, i4⟩ := ih n d j
      refine ⟨i1, i2, i3, fun _ => i4 ?_⟩
      have : 2 * d * 1 ≤ 2 * d * 2 ^ k := Nat.mul_le_mul_left _ (Nat.pow_pos (by decide))
      omega

/-- the argument of the `atanh` series in `lnGe1`: with `d' = den·2^i` from the halving loop,
`num/den = 2^i · (num/d')`, `1 ≤ num/d' < 2`, and `z = (num − d')/(num + d')` lies in `[0, 1/3)` -/
theorem lnGe1_reduce (num den : Nat) (h1 : den ≤ num) (h2 : num < den * 2 ^ 41) :
    (halve 40 num den 0).1 = den * 2 ^ (halve 40 num den 0).2 ∧ (halve 40 num den 0).1 ≤ num ∧
      num < 2 * (halve 40 num den 0).1 ∧
      3 * (num - (halve 40 num den 0).1) < num + (halve 40 num den 0).1 := by
  obtain ⟨i1, _, i3, i4⟩ := halve_exact 40 num den 0
  have h4 : num < 2 * (halve 40 num den 0).1 := by
    apply i4
    have : 2 * den * 2 ^ 40 = den * 2 ^ 41 := by ring
    rw [this]; exact h2
  refine ⟨by simpa using i1, i3 h1, h4, ?_⟩
  have := i3 h1
  omega

/-! ### composition: what `lnGe1` and `lnEnclosure` add to the series -/

/-- `lnGe1` adds `j` times the enclosure of `ln 2` to the enclosure of the series, `j` the number
of halvings: if `[twoAtanh …]` contains `y` and `ln2` contains `l2`, `lnGe1` contains `y + j·l2` -/
theorem lnGe1_encloses (num den : Nat) (y l2 : ℚ)
    (hy : Encl (twoAtanh (num - (halve 40 num den 0).1) (num + (halve 40 num den 0).1)).1
      (twoAtanh (num - (halve 40 num den 0).1) (num + (halve 40 num den 0).1)).2 y)
    (h2 : Encl ln2.1 ln2.2 l2) :
    Encl (lnGe1 num den).1 (lnGe1 num den).2 (y + ((halve 40 num den 0).2 : ℚ) * l2) := by
  unfold lnGe1
  generalize halve 40 num den 0 = r at *
  obtain ⟨d, j⟩ := r
  simp only [] at hy ⊢
  generalize twoAtanh (num - d) (num + d) = q at *
  obtain ⟨a, b⟩ := q
  exact encl_add hy (encl_nsmul h2 j)

/-- `lnEnclosure` adds `k` times the enclosure of `ln 10` (the bounds swapped for a negative `k`):
if `lnGe1 c 10^(d−1)` contains `y` and `ln10` contains `t`, the result contains `y + k·t`,
`k = e + d − 1` -/
theorem lnEnclosure_encloses (c : Nat) (e : Int) (y t : ℚ)
    (hy : Encl (lnGe1 c (10 ^ (digits c - 1))).1 (lnGe1 c (10 ^ (digits c - 1))).2 y)
    (ht : Encl ln10.1 ln10.2 t) :
    ((lnEnclosure c e).1 : ℚ) ≤ (y + ((e + (digits c : Int) - 1 : Int) : ℚ) * t) * (S : ℚ) ∧
      (y + ((e + (digits c : Int) - 1 : Int) : ℚ) * t) * (S : ℚ) ≤ ((lnEnclosure c e).2 : ℚ) := by
  unfold lnEnclosure
  simp only []
  generalize lnGe1 c (10 ^ (digits c - 1)) = q at *
  obtain ⟨a, b⟩ := q
  obtain ⟨h1, h2⟩ := hy
  obtain ⟨h3, h4⟩ := ht
  generalize e + (digits c : Int) - 1 = k
  simp only [] at h1 h2 ⊢
  by_cases hk : k ≥ 0
  · rw [if_pos hk]
    have hkq : (0 : ℚ) ≤ (k : ℚ) := by exact_mod_cast hk
    have m1 := mul_le_mul_of_nonneg_left h3 hkq
    have m2 := mul_le_mul_of_nonneg_left h4 hkq
    constructor
    · push_cast; rw [add_mul, mul_assoc]; linarith
    · push_cast; rw [add_mul, mul_assoc]; linarith
  · rw [if_neg hk]
    have hkq : (k : ℚ) ≤ 0 := by
      have : k ≤ 0 := by omega
      exact_mod_cast this
    have m1 := mul_le_mul_of_nonpos_left h3 hkq
    have m2 := mul_le_mul_of_nonpos_left h4 hkq
    constructor
    · push_cast; rw [add_mul, mul_assoc]; linarith
    · push_cast; rw [add_mul, mul_assoc]; linarith

end Dmn.Transcend
