import Dmn.Lemmas.BifsStatsExactDiv

/-!
# `stddev` is exact when every intermediate result is an integer below `10^34`

`sqrtR_rep`: the root of a perfect square.  `stddev_exact`: for integer items whose mean is an
integer `m` and whose sum of squared deviations is `r² · (n − 1)`, `Spec.stddev` is `r` — no
operation rounds.
-/

namespace Dmn
namespace Bif

theorem sqrtR_rep {a : Dec} {r : Nat} (ha : Rep a ((r * r : Nat) : Int)) (hr : r * r < 10 ^ 34) :
    Rep (Dec.sqrtR a) (r : Int) := by
  obtain ⟨hae, hav⟩ := ha
  obtain ⟨na, A, ea'⟩ := a
  simp only at hae hav
  obtain ⟨ea, rfl⟩ := Int.eq_ofNat_of_zero_le hae
  simp only [Int.toNat_natCast] at hav
  have hmag : A * 10 ^ ea = r * r := by
    have := congrArg Int.natAbs hav
    rw [Int.natAbs_mul, scoeff_natAbs, Int.natAbs_pow, Int.natAbs_natCast] at this
    exact this
  unfold Dec.sqrtR
  simp only
  by_cases hA : (A == 0) = true
  · rw [if_pos hA]
    have hA0 : A = 0 := by simpa using hA
    have hr0 : r = 0 := by
      rw [hA0, Nat.zero_mul] at hmag
      rcases Nat.mul_eq_zero.mp hmag.symm with h | h <;> exact h
    rw [hr0]
    refine ⟨Int.le_refl _, ?_⟩
    simp [Dec.scoeff]
  · rw [if_neg hA]
    have hA0 : A ≠ 0 := by simpa using hA
    have hr0 : r ≠ 0 := by
      intro h; rw [h] at hmag; simp at hmag; exact hA0 hmag
    have hea : ea < 34 := by
      by_contra hge
      have : 10 ^ 34 ≤ A * 10 ^ ea :=
        calc 10 ^ 34 ≤ 10 ^ ea := Nat.pow_le_pow_right (by decide) (by omega)
          _ ≤ A * 10 ^ ea := Nat.le_mul_of_pos_left _ (Nat.pos_of_ne_zero hA0)
      omega
    have hA34 : A < 10 ^ 34 := by
      have : A ≤ A * 10 ^ ea := Nat.le_mul_of_pos_right _ (by positivity)
      omega
    have hnd := digits_le_34 hA34
    have hndpos : 0 < Dec.digits A := Nat.length_toDigits_pos
    generalize Dec.digits A = nd at hnd hndpos
    have hmin : min nd 72 = nd := by omega
    rw [hmin]
    -- the scaling makes the exponent even
    generalize hs : (if (((ea : Int) - ((72 - nd : Nat) : Int)) % 2 == 0) = true then 72 - nd else 72 - nd + 1) = s
    have hs_range : 72 - nd ≤ s ∧ s ≤ 72 - nd + 1 := by
      rw [← hs]; split <;> omega
    have hs_even : ((ea : Int) - (s : Int)) % 2 = 0 := by
      rw [← hs]
      split
      · rename_i h; simpa using h
      · rename_i h
        have h' : ¬ (((ea : Int) - ((72 - nd : Nat) : Int)) % 2 = 0) := by simpa using h
        push_cast
        omega
    obtain ⟨t, ht⟩ : ∃ t : Nat, s = ea + 2 * t := ⟨(s - ea) / 2, by omega⟩
    have hc : A * 10 ^ s = (r * 10 ^ t) ^ 2 := by
      calc A * 10 ^ s = A * 10 ^ ea * (10 ^ t * 10 ^ t) := by
            rw [ht, Nat.mul_assoc, ← Nat.pow_add, ← Nat.pow_add]; congr 2; omega
        _ = (r * 10 ^ t) ^ 2 := by rw [hmag]; ring
    have hroot : Nat.sqrt (A * 10 ^ s) = r * 10 ^ t := by rw [hc, Nat.sqrt_eq']
    rw [hroot]
    have hsq : ((r * 10 ^ t * (r * 10 ^ t) == A * 10 ^ s) = true) := by
      rw [hc]; simp [Nat.pow_two]
    rw [if_pos hsq]
    have hexp : ((ea : Int) - (s : Int)) / 2 = -(t : Int) := by omega
    rw [hexp]
    have hr34 : r < 10 ^ 34 := by
      have : r ≤ r * r := Nat.le_mul_of_pos_right _ (Nat.pos_of_ne_zero hr0)
      omega
    obtain ⟨j', hj', hround⟩ := round34_exact false r t hr34
    rw [hround]
    have hrep := reduce_scaled false r j' hr0 (by omega)
    simpa using hrep

/-! ## sums of integers -/

theorem sumR_rep_aux (ds : List Dec) (zs : List Int) (acc : Dec) (z0 : Int) (hacc : Rep acc z0)
    (hrep : List.Forall₂ Rep ds zs)
    (hbound : ∀ k ≤ zs.length, (z0 + (zs.take k).sum).natAbs < 10 ^ 34) :
    Rep (ds.foldl Dec.addR acc) (z0 + zs.sum) := by
  induction hrep generalizing acc z0 with
  | nil => simpa using hacc
  | cons h _ ih =>
    rename_i d z ds' zs'
    rw [List.foldl_cons, List.sum_cons, ← add_assoc]
    apply ih
    · apply addR_rep hacc h
      have := hbound 1 (by simp)
      simpa using this
    · intro k hk
      have := hbound (k + 1) (by simp; omega)
      simpa [List.take_succ_cons, add_assoc] using this

/-- the left-to-right rounded sum of integers is their exact sum while every partial sum stays
below `10^34` -/
theorem sumR_rep (ds : List Dec) (zs : List Int) (hrep : List.Forall₂ Rep ds zs)
    (hbound : ∀ k ≤ zs.length, ((zs.take k).sum).natAbs < 10 ^ 34) :
    Rep (Spec.sumR ds) zs.sum := by
  have := sumR_rep_aux ds zs Dec.zero 0 rep_zero hrep (by simpa using hbound)
  simpa [Spec.sumR] using this

end Bif
end Dmn
