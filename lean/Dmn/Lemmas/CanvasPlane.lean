import Dmn.Lemmas.CanvasScan

/-!
# The scanner model never reaches a panic site — `Canvas::plane`

The regions found in the `THIN` layer are rectangles with an interior inside the content, so
their texts can be cut out; the plane under construction always has `row + 1` rows, so
`add_cell(row, …)`, `row_len(row)` and `finalize` stay in range.
-/

namespace Dmn.Recog
open Scan (ok error)

/-! ## Regions -/

theorem findTopLeftCorners_width {c : Content} {R W : Nat} (h : Shape c R W) {layer : Layer}
    {p : Point} (hp : p ∈ findTopLeftCorners c layer) : 0 < W := by
  unfold findTopLeftCorners at hp
  obtain ⟨⟨row, y⟩, hrow, hp⟩ := List.mem_flatMap.mp hp
  obtain ⟨⟨px, x⟩, hpx, _⟩ := List.mem_filterMap.mp hp
  have h1 := List.mem_zipIdx hrow
  have h2 := List.mem_zipIdx hpx
  have hmem : row ∈ c := by
    have : row ∈ c.toList := by
      rw [h1.2.2]; exact List.getElem_mem _
    exact Array.mem_toList_iff.mp this
  have := h.mem hmem
  have : x < row.toList.length := by omega
  simp only [Array.length_toList] at this
  omega

theorem Safe_recognizeRegions {c : Content} {R W : Nat} (h : Shape c R W) (hR : 0 < R) :
    Safe (recognizeRegions c) (fun rs => ∀ r ∈ rs, r.Good R W) := by
  unfold recognizeRegions
  refine Safe_mapM _ ?_
  intro p hp
  exact Safe_walkRectangle h hR (findTopLeftCorners_width h hp) .thin p _ _ _ _ _ _ _ _

theorem findRegion_mem {rect : Rect} : ∀ (rs : List Rect) (i : Nat) (j : Nat) (r : Rect),
    findRegion rect rs i = some (j, r) → r ∈ rs
  | [], _, _, _, h => by simp [findRegion] at h
  | r0 :: rs, i, j, r, h => by
    simp only [findRegion] at h
    split at h
    · cases h; simp
    · exact List.mem_cons_of_mem _ (findRegion_mem rs (i + 1) j r h)

/-! ## The plane under construction -/

theorem Safe_addCell {rows : Array (Array SCell)} {row : Nat} (h : row < rows.size) (cell : SCell) :
    Safe (addCell rows row cell) (fun rows' => rows'.size = rows.size) := by
  simp only [addCell, h, if_true]
  exact Safe_ok Array.size_modify

/-- the plane has `row + 1` rows -/
def PInv (st : PlaneState) : Prop := st.rows.size = st.row + 1

theorem Safe_crossRow (st : PlaneState) (h : PInv st) : Safe (crossRow st) PInv := by
  unfold crossRow
  refine Safe_bind (p := fun rows => rows.size = st.row + 1) ?_ ?_
  · refine Safe_forRange _ _ _ h ?_
    intro i rows _ _ hrows
    have hlt : st.row < rows.size := by omega
    split
    · exact (Safe_addCell hlt _).mono (fun r hr => by omega)
    · split
      · exact (Safe_addCell hlt _).mono (fun r hr => by omega)
      · exact (Safe_addCell hlt _).mono (fun r hr => by omega)
  · intro rows hrows
    refine Safe_ok ?_
    show (rows.push #[]).size = st.row + 1 + 1
    rw [Array.size_push, hrows]

theorem Safe_crossVertRow (st : PlaneState) (h : PInv st) : Safe (crossVertRow st) PInv := by
  unfold crossVertRow
  refine Safe_bind (p := fun rows => rows.size = st.row + 1) ?_ ?_
  · refine Safe_forRange _ _ _ h ?_
    intro i rows _ _ hrows
    have hlt : st.row < rows.size := by omega
    split
    · exact (Safe_addCell hlt _).mono (fun r hr => by omega)
    · exact (Safe_addCell hlt _).mono (fun r hr => by omega)
  · intro rows hrows
    refine Safe_ok ?_
    show (rows.push #[]).size = st.row + 1 + 1
    rw [Array.size_push, hrows]

theorem Safe_markCol (o : Option Point) (x row : Nat) (cell : Cell) (setCol : RowState → RowState)
    (st : RowState) (h : st.rows.size = row + 1) :
    Safe (markCol o x row cell setCol st) (fun (st' : RowState) => st'.rows.size = row + 1) := by
  unfold markCol
  split
  · split
    · have h1 := Safe_addCell (rows := st.rows) (row := row) (by omega) (.mark cell)
      cases hq : addCell st.rows row (.mark cell) with
      | ok rows =>
        refine Safe_ok ?_
        show rows.size = row + 1
        rw [h1.2 _ hq, h]
      | error e => exact Safe_error
      | panic s => exact absurd hq (h1.1 s)
    · exact Safe_ok h
  · exact Safe_ok h

theorem Safe_placeRegion {c : Content} {R W : Nat} (h : Shape c R W)
    {regions : List Rect} (hreg : ∀ r ∈ regions, r.Good R W) (row : Nat) (rect : Rect)
    (st : RowState) (hst : st.rows.size = row + 1) :
    Safe (placeRegion c regions row rect st) (fun (st' : RowState) => st'.rows.size = row + 1) := by
  unfold placeRegion
  split
  · rename_i i region hf
    have hgood := hreg region (findRegion_mem regions 0 i region hf)
    refine Safe_bind (SNP_textFromRect h .text hgood).safe ?_
    intro text _
    refine Safe_bind (Safe_addCell (by omega) _) ?_
    intro rows hrows
    exact Safe_ok (by show rows.size = row + 1; omega)
  · exact Safe_error

theorem Safe_planeCol {cv : Canvas} {R W : Nat} (h : Shape cv.content R W) (hR : 0 < R)
    {regions : List Rect} (hreg : ∀ r ∈ regions, r.Good R W) {row y x : Nat} (hy : y < R) (hx : x < W)
    (st : RowState) (hst : st.rows.size = row + 1) :
    Safe (planeCol cv regions row y x st) (fun (st' : RowState) => st'.rows.size = row + 1) := by
  unfold planeCol
  obtain ⟨ch, hc⟩ := chAt_ok h hy hx .grid
  rw [hc]
  simp only [Scan.ok_bind]
  split
  · refine Safe_bind (Safe_markCol cv.cross x row .vOut _ _ hst) ?_
    intro st1 h1
    refine Safe_bind (Safe_markCol cv.crossHorz x row .vAnn _ st1 h1) ?_
    intro st2 h2
    refine Safe_bind (Safe_walkRectangle h hR (by omega) .grid ⟨x, y⟩ _ _ _ _ _ _ _ _) ?_
    intro rect _
    exact Safe_placeRegion h hreg row rect st2 h2
  · exact Safe_ok hst

theorem Safe_whenAtRow (o : Option Point) (y : Nat) (f : PlaneState → Scan PlaneState)
    (hf : ∀ st, PInv st → Safe (f st) PInv) (st : PlaneState) (hst : PInv st) :
    Safe (whenAtRow o y f st) PInv := by
  unfold whenAtRow
  split
  · split
    · exact hf st hst
    · exact Safe_ok hst
  · exact Safe_ok hst

theorem Safe_planeCells {cv : Canvas} {R W : Nat} (h : Shape cv.content R W) (hR : 0 < R)
    {regions : List Rect} (hreg : ∀ r ∈ regions, r.Good R W) {y : Nat} (hy : y < R)
    (st : PlaneState) (hst : PInv st) : Safe (planeCells cv regions y st) PInv := by
  unfold planeCells
  obtain ⟨crow, hcrow, hw⟩ := h.row hy
  simp only [hcrow]
  refine Safe_bind (p := fun (rs : RowState) => rs.rows.size = st.row + 1) ?_ ?_
  · refine Safe_forRange _ _ _ hst ?_
    intro x rs _ hx hrs
    exact Safe_planeCol h hR hreg hy (by omega) rs hrs
  · intro rs hrs
    split
    · have hlt : st.row < rs.rows.size := by omega
      simp only [rowLen, Array.getElem?_eq_getElem hlt, Scan.ok_bind]
      refine Safe_ok ?_
      show (rs.rows.push #[]).size = st.row + 1 + 1
      rw [Array.size_push, hrs]
    · exact Safe_ok hrs

theorem Safe_planeRow {cv : Canvas} {R W : Nat} (h : Shape cv.content R W) (hR : 0 < R)
    {regions : List Rect} (hreg : ∀ r ∈ regions, r.Good R W) {y : Nat} (hy : y < R)
    (st : PlaneState) (hst : PInv st) : Safe (planeRow cv regions y st) PInv := by
  unfold planeRow
  refine Safe_bind (Safe_whenAtRow cv.cross y crossRow Safe_crossRow st hst) ?_
  intro st1 h1
  refine Safe_bind (Safe_whenAtRow cv.crossVert y crossVertRow Safe_crossVertRow st1 h1) ?_
  intro st2 h2
  exact Safe_planeCells h hR hreg hy st2 h2

/-- `Canvas::plane` never panics on a rectangular canvas. -/
theorem SNP_plane {cv : Canvas} {R W : Nat} (h : Shape cv.content R W) (hR : 0 < R) :
    SNP cv.plane := by
  unfold Canvas.plane
  refine (Safe_bind (q := fun _ => True) (Safe_recognizeRegions h hR) ?_).1
  intro regions hreg
  refine Safe_bind (p := PInv) ?_ ?_
  · refine Safe_forRange _ _ _ (show PInv ⟨#[#[]], 0, 0, none, none⟩ from rfl) ?_
    intro y st _ hy hst
    exact Safe_planeRow h hR hreg (by have := h.rows; omega) st hst
  · intro st hst
    have hne : ¬ st.rows.size = 0 := by have : st.rows.size = st.row + 1 := hst; omega
    simp only [finalizePlane, hne, if_false, Scan.ok_bind]
    exact Safe_ok trivial

/-- `scan` followed by `Canvas::plane` never panics, whatever the text. -/
theorem SNP_scanText (text : Text) : SNP (scanText text) := by
  unfold scanText
  refine (Safe_bind (q := fun _ => True) (Safe_scan text) ?_).1
  intro cv ⟨R, W, hR, h⟩
  refine Safe_bind (SNP_plane h hR).safe ?_
  intro rows _
  exact Safe_ok trivial

end Dmn.Recog
