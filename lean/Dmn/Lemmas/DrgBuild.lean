import Dmn.Model.Drg
import Dmn.Lemmas.Drg
import Dmn.Lemmas.DrgFuel

/-!
# Lemmas about `check_requirements`: a graph that `ModelEvaluator::new` accepts is ranked

`chainDepth g n` (the longest chain of requirements below an identifier) is a topological
numbering of every graph that passes `checkRequirements`, bounded by the number of elements.
-/

namespace Dmn.Drg

theorem chainDepth_none (g : Drg) (f : Nat) (id : String) (h : g.requirementsOf id = none) :
    chainDepth g f id = 0 := by
  cases f <;> simp [chainDepth, h]

theorem chainDepth_le (g : Drg) (f : Nat) (id : String) : chainDepth g f id ≤ f := by
  induction f generalizing id with
  | zero => cases h : g.requirementsOf id <;> simp [chainDepth, h]
  | succ f ih =>
    cases h : g.requirementsOf id with
    | none => simp [chainDepth, h]
    | some req =>
      simp only [chainDepth, h]
      have := maxOf_le (req.map (chainDepth g f)) f (fun x hx => by
        obtain ⟨c, _, rfl⟩ := List.mem_map.mp hx
        exact ih c)
      omega

/-- Where the chain check passes, one more round changes nothing. -/
theorem chainDepth_stationary (g : Drg) (f : Nat) (id : String) (h : checkChain g f id = true) :
    chainDepth g f id = chainDepth g (f + 1) id := by
  induction f generalizing id with
  | zero =>
    cases hr : g.requirementsOf id with
    | none => rw [chainDepth_none g 0 id hr, chainDepth_none g 1 id hr]
    | some req => simp [checkChain, hr] at h
  | succ f ih =>
    cases hr : g.requirementsOf id with
    | none => rw [chainDepth_none g _ id hr, chainDepth_none g _ id hr]
    | some req =>
      rw [checkChain] at h
      simp only [hr, List.all_eq_true] at h
      have e : req.map (chainDepth g f) = req.map (chainDepth g (f + 1)) :=
        List.map_congr_left (fun c hc => ih c (h c hc))
      have e1 : chainDepth g (f + 1) id = 1 + maxOf (req.map (chainDepth g f)) := by
        simp [chainDepth, hr]
      have e2 : chainDepth g (f + 1 + 1) id = 1 + maxOf (req.map (chainDepth g (f + 1))) := by
        simp [chainDepth, hr]
      rw [e1, e2, e]

theorem chainDepth_child (g : Drg) (f : Nat) (id : String) (req : List String)
    (hr : g.requirementsOf id = some req) (c : String) (hc : c ∈ req) :
    chainDepth g f c < chainDepth g (f + 1) id := by
  have e1 : chainDepth g (f + 1) id = 1 + maxOf (req.map (chainDepth g f)) := by
    simp [chainDepth, hr]
  have := le_maxOf (req.map (chainDepth g f)) (chainDepth g f c) (List.mem_map.mpr ⟨c, hc, rfl⟩)
  omega

theorem distinctCount_le (xs : List String) : distinctCount xs ≤ xs.length := by
  induction xs with
  | nil => simp [distinctCount]
  | cons x xs ih =>
    simp only [distinctCount, List.length_cons]
    split <;> omega

theorem requirementCount_le (g : Drg) : g.requirementCount ≤ g.size := by
  unfold requirementCount size
  have := distinctCount_le g.requirementIds
  simp only [requirementIds, List.length_append, List.length_map] at this
  exact this

/-! ## what the map holds for an element of the graph -/

theorem requirementsOf_decision (g : Drg) (d : Decision) (hd : d ∈ g.decisions) :
    ∃ req, g.requirementsOf d.id = some req ∧ (∀ c ∈ d.reqDecisions, c ∈ req) ∧ (∀ c ∈ d.reqKnowledge, c ∈ req) := by
  have hmem : d ∈ g.decisions.filter (fun x => x.id == d.id) := List.mem_filter.mpr ⟨hd, by simp⟩
  have hk : g.isKey d.id = true := by
    simp only [isKey, Bool.or_eq_true, List.any_eq_true]
    exact Or.inl (Or.inl ⟨d, hd, by simp⟩)
  refine ⟨g.requirementList d.id, by simp [requirementsOf, hk], ?_, ?_⟩
  · intro c hc
    exact List.mem_append_left _ (List.mem_append_left _
      (List.mem_flatMap.mpr ⟨d, hmem, List.mem_append_left _ hc⟩))
  · intro c hc
    exact List.mem_append_left _ (List.mem_append_left _
      (List.mem_flatMap.mpr ⟨d, hmem, List.mem_append_right _ hc⟩))

theorem requirementsOf_bkm (g : Drg) (b : Bkm) (hb : b ∈ g.bkms) :
    ∃ req, g.requirementsOf b.id = some req ∧ ∀ c ∈ b.reqKnowledge, c ∈ req := by
  have hmem : b ∈ g.bkms.filter (fun x => x.id == b.id) := List.mem_filter.mpr ⟨hb, by simp⟩
  have hk : g.isKey b.id = true := by
    simp only [isKey, Bool.or_eq_true, List.any_eq_true]
    exact Or.inl (Or.inr ⟨b, hb, by simp⟩)
  refine ⟨g.requirementList b.id, by simp [requirementsOf, hk], ?_⟩
  intro c hc
  exact List.mem_append_left _ (List.mem_append_right _ (List.mem_flatMap.mpr ⟨b, hmem, hc⟩))

theorem requirementsOf_service (g : Drg) (s : Service) (hs : s ∈ g.services) :
    ∃ req, g.requirementsOf s.id = some req ∧ ∀ c ∈ s.inputDecisions ++ s.encapsulated ++ s.output, c ∈ req := by
  have hmem : s ∈ g.services.filter (fun x => x.id == s.id) := List.mem_filter.mpr ⟨hs, by simp⟩
  have hk : g.isKey s.id = true := by
    simp only [isKey, Bool.or_eq_true, List.any_eq_true]
    exact Or.inr ⟨s, hs, by simp⟩
  refine ⟨g.requirementList s.id, by simp [requirementsOf, hk], ?_⟩
  intro c hc
  exact List.mem_append_right _ (List.mem_flatMap.mpr ⟨s, hmem, hc⟩)

/-- A graph that `check_requirements` accepts is ranked by the longest chain below an
identifier (one numbering for the three kinds). -/
theorem ranked_of_check (g : Drg) (h : g.checkRequirements = true) :
    g.rankedBy (fun _ id => chainDepth g g.requirementCount id) = true := by
  unfold checkRequirements at h
  have hall := List.all_eq_true.mp h
  have key : ∀ id req, id ∈ g.requirementIds → g.requirementsOf id = some req → ∀ c ∈ req,
      chainDepth g g.requirementCount c < chainDepth g g.requirementCount id := by
    intro id req hid hr c hc
    rw [chainDepth_stationary g _ id (hall id hid)]
    exact chainDepth_child g _ id req hr c hc
  unfold rankedBy
  simp only [Bool.and_eq_true, List.all_eq_true]
  refine ⟨⟨fun d hd => ⟨fun c hc => ⟨?_, ?_⟩, fun c hc => ?_⟩, fun b hb c hc => ⟨?_, ?_⟩⟩, fun s hs c hc => ?_⟩
  · obtain ⟨req, hr, _, h2⟩ := requirementsOf_decision g d hd
    exact edgeOk_of_lt _ (key d.id req (by simp [requirementIds]; exact Or.inl ⟨d, hd, rfl⟩) hr c (h2 c hc))
  · obtain ⟨req, hr, _, h2⟩ := requirementsOf_decision g d hd
    exact edgeOk_of_lt _ (key d.id req (by simp [requirementIds]; exact Or.inl ⟨d, hd, rfl⟩) hr c (h2 c hc))
  · obtain ⟨req, hr, h1, _⟩ := requirementsOf_decision g d hd
    exact edgeOk_of_lt _ (key d.id req (by simp [requirementIds]; exact Or.inl ⟨d, hd, rfl⟩) hr c (h1 c hc))
  · obtain ⟨req, hr, h1⟩ := requirementsOf_bkm g b hb
    exact edgeOk_of_lt _ (key b.id req (by simp [requirementIds]; exact Or.inr (Or.inl ⟨b, hb, rfl⟩)) hr c (h1 c hc))
  · obtain ⟨req, hr, h1⟩ := requirementsOf_bkm g b hb
    exact edgeOk_of_lt _ (key b.id req (by simp [requirementIds]; exact Or.inr (Or.inl ⟨b, hb, rfl⟩)) hr c (h1 c hc))
  · obtain ⟨req, hr, h1⟩ := requirementsOf_service g s hs
    exact edgeOk_of_lt _ (key s.id req (by simp [requirementIds]; exact Or.inr (Or.inr ⟨s, hs, rfl⟩)) hr c (h1 c hc))

/-- Conversely: a numbering of the identifiers, below the number of keys, that decreases along
every requirement of the map makes `check_requirements` succeed. -/
theorem check_of_ranked (g : Drg) (rk : String → Nat)
    (hr : ∀ id req, g.requirementsOf id = some req → ∀ c ∈ req, (g.requirementsOf c).isSome = true → rk c < rk id)
    (hb : ∀ id, rk id < g.requirementCount) : g.checkRequirements = true := by
  have chain : ∀ f id, rk id < f → checkChain g f id = true := by
    intro f
    induction f with
    | zero => intro id h; omega
    | succ f ih =>
      intro id h
      rw [checkChain]
      cases hreq : g.requirementsOf id with
      | none => rfl
      | some req =>
        simp only [List.all_eq_true]
        intro c hc
        by_cases hcr : (g.requirementsOf c).isSome = true
        · exact ih c (by have := hr id req hreq c hc hcr; omega)
        · have hnone : g.requirementsOf c = none := by
            cases hx : g.requirementsOf c with
            | none => rfl
            | some _ => simp [hx] at hcr
          rw [checkChain, hnone]
  unfold checkRequirements
  exact List.all_eq_true.mpr (fun id _ => chain _ id (hb id))

end Dmn.Drg
