import Dmn.Model.Drg
import Dmn.Lemmas.Iter

/-!
# Lemmas about requirement graphs: non-interference

`Sound g gr dp`: the registries `gr` read the input data only at the names `dp` lists.  `graphStep` preserves it (`sound_step`); hence it holds at
every level (`sound_graphAt`).  The FEEL evaluator is a black box here: the logic is the
same function applied to the same scope.
-/

namespace Dmn.Drg

/-- The two input contexts have the same entry (or both none) under every listed name. -/
def AgreeOn (names : List String) (c1 c2 : Ctx) : Prop :=
  ∀ k ∈ names, Ctx.get c1 k = Ctx.get c2 k

theorem AgreeOn.mono {names names' : List String} {c1 c2 : Ctx} (h : AgreeOn names c1 c2)
    (hs : ∀ k ∈ names', k ∈ names) : AgreeOn names' c1 c2 :=
  fun k hk => h k (hs k hk)

theorem AgreeOn.left {a b : List String} {c1 c2 : Ctx} (h : AgreeOn (a ++ b) c1 c2) : AgreeOn a c1 c2 :=
  h.mono (fun _ hk => List.mem_append_left _ hk)

theorem AgreeOn.right {a b : List String} {c1 c2 : Ctx} (h : AgreeOn (a ++ b) c1 c2) : AgreeOn b c1 c2 :=
  h.mono (fun _ hk => List.mem_append_right _ hk)

theorem AgreeOn.flatMap {α : Type} {l : List α} {f : α → List String} {c1 c2 : Ctx}
    (h : AgreeOn (l.flatMap f) c1 c2) {x : α} (hx : x ∈ l) : AgreeOn (f x) c1 c2 :=
  h.mono (fun _ hk => List.mem_flatMap.mpr ⟨x, hx, hk⟩)

/-! ## the pieces of a closure -/

theorem check_congr (defs : ID.Defs) (ty : VarTy) (name : String) (c1 c2 : Ctx) (h : Ctx.get c1 name = Ctx.get c2 name) :
    ty.check defs name c1 = ty.check defs name c2 := by
  cases ty <;> simp [VarTy.check, h]

theorem mem_inputNames {g : Drg} {ids : List String} {id : String} {i : InputData}
    (hid : id ∈ ids) (hf : g.findInput id = some i) : i.name ∈ g.inputNames ids := by
  unfold inputNames
  exact List.mem_filterMap.mpr ⟨id, hid, by simp [hf]⟩

theorem mem_decisionVarNames {g : Drg} {ids : List String} {id : String} {d : Decision}
    (hid : id ∈ ids) (hf : g.findDecision id = some d) : d.var ∈ g.decisionVarNames ids := by
  unfold decisionVarNames
  exact List.mem_filterMap.mpr ⟨id, hid, by simp [hf]⟩

theorem mem_serviceVarNames {g : Drg} {ids : List String} {id : String} {s : Service}
    (hid : id ∈ ids) (hf : g.findService id = some s) : s.var ∈ g.serviceVarNames ids := by
  unfold serviceVarNames
  exact List.mem_filterMap.mpr ⟨id, hid, by simp [hf]⟩

theorem typedInputs_congr (g : Drg) (ids : List String) (c1 c2 acc : Ctx)
    (h : AgreeOn (g.inputNames ids) c1 c2) : g.typedInputs ids c1 acc = g.typedInputs ids c2 acc := by
  unfold typedInputs
  induction ids generalizing acc with
  | nil => rfl
  | cons id ids ih =>
    simp only [List.foldl_cons]
    have hrest : AgreeOn (g.inputNames ids) c1 c2 :=
      h.mono (fun k hk => by
        unfold inputNames at hk ⊢
        obtain ⟨x, hx, hk⟩ := List.mem_filterMap.mp hk
        exact List.mem_filterMap.mpr ⟨x, List.mem_cons_of_mem _ hx, hk⟩)
    cases hf : g.findInput id with
    | none => exact ih _ hrest
    | some i =>
      have hk : Ctx.get c1 i.name = Ctx.get c2 i.name :=
        h _ (mem_inputNames (List.mem_cons_self) hf)
      simp only [check_congr g.items i.ty i.name c1 c2 hk]
      exact ih _ hrest

theorem overwrite_congr (self c1 c2 : Ctx) (h : ∀ k ∈ Ctx.keys self, Ctx.get c1 k = Ctx.get c2 k) :
    Ctx.overwrite self c1 = Ctx.overwrite self c2 := by
  unfold Ctx.overwrite
  apply List.map_congr_left
  intro e he
  have : e.1 ∈ Ctx.keys self := List.mem_map.mpr ⟨e, he, rfl⟩
  rw [h _ this]

theorem keys_set {c : Ctx} {k : String} {v : Value} {k' : String} (h : k' ∈ Ctx.keys (Ctx.set c k v)) :
    k' = k ∨ k' ∈ Ctx.keys c :=
  Ctx.mem_keys_set c k v k' h

theorem foldCtx_congr (f f' : String → Ctx → Outcome Ctx) (ids : List String) (c : Ctx)
    (h : ∀ id ∈ ids, ∀ c, f id c = f' id c) : foldCtx f ids c = foldCtx f' ids c := by
  induction ids generalizing c with
  | nil => rfl
  | cons id ids ih =>
    simp only [foldCtx]
    rw [h id List.mem_cons_self c]
    cases f' id c with
    | ok c' => exact ih c' (fun id' hid c => h id' (List.mem_cons_of_mem _ hid) c)
    | panic p => rfl
    | diverge => rfl

theorem dropName_ok {o : Outcome (Option String × Ctx)} {c : Ctx} (h : dropName o = .ok c) :
    ∃ n, o = .ok (n, c) := by
  cases o with
  | ok p => obtain ⟨n, c'⟩ := p; simp only [dropName] at h; cases h; exact ⟨n, rfl⟩
  | panic p => simp [dropName] at h
  | diverge => simp [dropName] at h

/-! ## the invariant -/

structure Sound (g : Drg) (gr : Graph) (dp : Deps) : Prop where
  dec : ∀ id c1 c2 sup out, AgreeOn (dp.decision id) c1 c2 →
    gr.decision id c1 sup out = gr.decision id c2 sup out
  bkm : ∀ id c1 c2 out, AgreeOn (dp.bkm id) c1 c2 → gr.bkm id c1 out = gr.bkm id c2 out
  svc : ∀ id c1 c2 out, AgreeOn (dp.service id) c1 c2 → gr.service id c1 out = gr.service id c2 out

theorem sound_diverge (g : Drg) : Sound g divergeGraph Deps.bot where
  dec := fun _ _ _ _ _ _ => rfl
  bkm := fun _ _ _ _ _ => rfl
  svc := fun _ _ _ _ _ => rfl

section step
variable {g : Drg} {gr : Graph} {dp : Deps} (hs : Sound g gr dp)
include hs

theorem callBkm_congr (id : String) (c1 c2 c : Ctx) (h : AgreeOn (dp.bkm id) c1 c2) :
    callBkm g gr id c1 c = callBkm g gr id c2 c := by
  unfold callBkm
  cases g.findBkm id with
  | none => rfl
  | some _ => exact hs.bkm id c1 c2 c h

theorem callDecision_congr (id : String) (c1 c2 sup c : Ctx) (h : AgreeOn (dp.decision id) c1 c2) :
    callDecision g gr id c1 sup c = callDecision g gr id c2 sup c := by
  unfold callDecision
  cases g.findDecision id with
  | none => rfl
  | some _ => exact hs.dec id c1 c2 sup c h

end step

/-- The decision closure reads the input data only at the names `depsStep` lists. -/
theorem decisionClosure_congr {g : Drg} {gr : Graph} {dp : Deps} (hs : Sound g gr dp) (env : Env)
    (d : Decision) (c1 c2 sup out : Ctx)
    (h : AgreeOn (d.reqKnowledge.flatMap dp.bkm ++ d.reqDecisions.flatMap dp.decision ++
      g.inputNames d.reqInputs) c1 c2) :
    decisionClosure g env gr d c1 sup out = decisionClosure g env gr d c2 sup out := by
  have hk : AgreeOn (d.reqKnowledge.flatMap dp.bkm) c1 c2 := h.left.left
  have hd : AgreeOn (d.reqDecisions.flatMap dp.decision) c1 c2 := h.left.right
  have hi : AgreeOn (g.inputNames d.reqInputs) c1 c2 := h.right
  unfold decisionClosure
  have e1 : foldCtx (fun id c => callBkm g gr id c1 c) d.reqKnowledge [] =
      foldCtx (fun id c => callBkm g gr id c2 c) d.reqKnowledge [] :=
    foldCtx_congr _ _ _ _ (fun id hid c => callBkm_congr hs id c1 c2 c (hk.flatMap hid))
  rw [e1]
  cases foldCtx (fun id c => callBkm g gr id c2 c) d.reqKnowledge [] with
  | panic p => rfl
  | diverge => rfl
  | ok k1 =>
    simp only []
    have e2 : foldCtx (fun id c => dropName (callDecision g gr id c1 sup c)) d.reqDecisions
          (g.serviceFns d.reqKnowledge k1) =
        foldCtx (fun id c => dropName (callDecision g gr id c2 sup c)) d.reqDecisions
          (g.serviceFns d.reqKnowledge k1) :=
      foldCtx_congr _ _ _ _ (fun id hid c => by
        simp only [callDecision_congr hs id c1 c2 sup c (hd.flatMap hid)])
    rw [e2, typedInputs_congr g d.reqInputs c1 c2 [] hi]

theorem bkmClosure_congr {g : Drg} {gr : Graph} {dp : Deps} (hs : Sound g gr dp) (b : Bkm)
    (c1 c2 out : Ctx) (h : AgreeOn (b.reqKnowledge.flatMap dp.bkm) c1 c2) :
    bkmClosure g gr b c1 out = bkmClosure g gr b c2 out := by
  unfold bkmClosure
  have e : foldCtx (bkmRequirement g gr c1) b.reqKnowledge out =
      foldCtx (bkmRequirement g gr c2) b.reqKnowledge out :=
    foldCtx_congr _ _ _ _ (fun id hid c => by
      unfold bkmRequirement
      rw [callBkm_congr hs id c1 c2 c (h.flatMap hid)])
  rw [e]

theorem outputLoop_congr (f f' : String → Ctx → Outcome (Option String × Ctx)) (ids names : List String)
    (c : Ctx) (h : ∀ id c, f id c = f' id c) : outputLoop f ids names c = outputLoop f' ids names c := by
  have : f = f' := funext (fun id => funext (fun c => h id c))
  rw [this]

theorem serviceInputDecisions_congr (g : Drg) (s : Service) (results c1 c2 : Ctx)
    (hv : AgreeOn (g.decisionVarNames s.inputDecisions) c1 c2) :
    g.serviceInputDecisions s results c1 = g.serviceInputDecisions s results c2 := by
  unfold serviceInputDecisions
  simp only []
  have e : ∀ (vars : List (String × VarTy)) (acc : Ctx), (∀ v ∈ vars, v.1 ∈ g.decisionVarNames s.inputDecisions) →
      vars.foldl (fun c v => Ctx.set c v.1 (v.2.check g.items v.1 c1)) acc =
      vars.foldl (fun c v => Ctx.set c v.1 (v.2.check g.items v.1 c2)) acc := by
    intro vars
    induction vars with
    | nil => intro _ _; rfl
    | cons v vars ih =>
      intro acc hm
      simp only [List.foldl_cons]
      rw [check_congr g.items v.2 v.1 c1 c2 (hv _ (hm v List.mem_cons_self))]
      exact ih _ (fun v' hv' => hm v' (List.mem_cons_of_mem _ hv'))
  have hm : ∀ v ∈ g.inputDecisionVars s, v.1 ∈ g.decisionVarNames s.inputDecisions := by
    intro v hv'
    unfold inputDecisionVars at hv'
    obtain ⟨id, hid, hd⟩ := List.mem_filterMap.mp hv'
    cases hf : g.findDecision id with
    | none => simp [hf] at hd
    | some d =>
      simp [hf] at hd
      subst hd
      exact mem_decisionVarNames hid hf
  rw [e _ _ hm]

theorem serviceInputs_congr (g : Drg) (s : Service) (results c1 c2 : Ctx)
    (hv : AgreeOn (g.decisionVarNames s.inputDecisions) c1 c2)
    (hi : AgreeOn (g.inputNames s.inputData) c1 c2) :
    g.serviceInputs s results c1 = g.serviceInputs s results c2 := by
  unfold serviceInputs
  rw [serviceInputDecisions_congr g s results c1 c2 hv, typedInputs_congr g s.inputData c1 c2 _ hi]

theorem serviceClosure_congr {g : Drg} {gr : Graph} {dp : Deps} (hs : Sound g gr dp) (s : Service)
    (c1 c2 out : Ctx)
    (h : AgreeOn (s.inputDecisions.flatMap dp.decision ++ g.decisionVarNames s.inputDecisions ++
      g.inputNames s.inputData) c1 c2) :
    serviceClosure g gr s c1 out = serviceClosure g gr s c2 out := by
  unfold serviceClosure
  have e1 : foldCtx (fun id c => dropName (callDecision g gr id c1 [] c)) s.inputDecisions [] =
      foldCtx (fun id c => dropName (callDecision g gr id c2 [] c)) s.inputDecisions [] :=
    foldCtx_congr _ _ _ _ (fun id hid c => by
      simp only [callDecision_congr hs id c1 c2 [] c (h.left.left.flatMap hid)])
  rw [e1]
  cases foldCtx (fun id c => dropName (callDecision g gr id c2 [] c)) s.inputDecisions [] with
  | panic p => rfl
  | diverge => rfl
  | ok results =>
    simp only []
    rw [serviceInputs_congr g s results c1 c2 h.left.right h.right,
      serviceInputDecisions_congr g s results c1 c2 h.left.right]

/-- One level of closures keeps the invariant. -/
theorem sound_step {g : Drg} {gr : Graph} {dp : Deps} (hs : Sound g gr dp) (env : Env) :
    Sound g (graphStep g env gr) (depsStep g dp) where
  dec := by
    intro id c1 c2 sup out h
    simp only [graphStep, depsStep] at h ⊢
    cases hf : g.findDecision id with
    | none => rfl
    | some d =>
      rw [hf] at h
      exact decisionClosure_congr hs env d c1 c2 sup out h
  bkm := by
    intro id c1 c2 out h
    simp only [graphStep, depsStep] at h ⊢
    cases hf : g.findBkm id with
    | none => rfl
    | some b =>
      rw [hf] at h
      exact bkmClosure_congr hs b c1 c2 out h
  svc := by
    intro id c1 c2 out h
    simp only [graphStep, depsStep] at h ⊢
    cases hf : g.findService id with
    | none => rfl
    | some s =>
      rw [hf] at h
      exact serviceClosure_congr hs s c1 c2 out h

theorem sound_graphAt (g : Drg) (env : Env) (n : Nat) :
    Sound g (graphAt g env divergeGraph n) (depsAt g n) := by
  induction n with
  | zero => exact sound_step (sound_diverge g) env
  | succ n ih => exact sound_step ih env

theorem level_graph' (base : Env) (g : Drg) (G ff : Nat) :
    (level base g G ff).graph = graphAt g (level base g G ff).env divergeGraph := by
  cases ff <;> rfl

theorem level_graph (base : Env) (g : Drg) (G ff : Nat) :
    (level base g G ff).graph = graphAt g (level base g G ff).env divergeGraph := by
  cases ff <;> rfl


theorem findLast?_mem {α : Type} (p : α → Bool) (xs : List α) (x : α) (h : findLast? p xs = some x) :
    x ∈ xs := by
  induction xs with
  | nil => simp [findLast?] at h
  | cons y ys ih =>
    simp only [findLast?] at h
    cases hr : findLast? p ys with
    | some z =>
      rw [hr] at h
      cases h
      exact List.mem_cons_of_mem _ (ih hr)
    | none =>
      rw [hr] at h
      by_cases hp : p y = true
      · rw [if_pos hp] at h
        cases h
        exact List.mem_cons_self
      · rw [if_neg hp] at h
        cases h

theorem bkmArgs_congr (params : List (String × FType)) (c1 c2 : Ctx)
    (h : AgreeOn (params.map Prod.fst) c1 c2) : bkmArgs params c1 = bkmArgs params c2 := by
  unfold bkmArgs
  generalize ([] : Ctx) = acc
  induction params generalizing acc with
  | nil => rfl
  | cons p ps ih =>
    simp only [List.foldl_cons]
    rw [h p.1 (by simp)]
    exact ih (h.mono (fun k hk => by simp at hk ⊢; exact Or.inr hk)) _

/-- What a knowledge model closure leaves under its own variable. -/
theorem bkm_own_entry (g : Drg) (env : Env) (gf : Nat) (id : String) (b : Bkm) (input evaluated : Ctx)
    (hf : g.findBkm id = some b)
    (h : (graphAt g env divergeGraph gf).bkm id input [] = .ok evaluated) :
    Ctx.get evaluated b.var = some (.fn b.params b.body (b.ty.ftype g.items)) := by
  have key : ∀ prev : Graph, (graphStep g env prev).bkm id input [] = .ok evaluated →
      Ctx.get evaluated b.var = some (.fn b.params b.body (b.ty.ftype g.items)) := by
    intro prev h
    simp only [graphStep, hf, bkmClosure] at h
    split at h
    · cases h
      rw [Ctx.get_set, if_pos rfl]
    · cases h
    · cases h
  cases gf with
  | zero => exact key _ h
  | succ n => exact key _ h


end Dmn.Drg
