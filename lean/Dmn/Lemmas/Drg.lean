import Dmn.Model.Drg
import Dmn.Lemmas.Iter

/-!
# Lemmas about requirement graphs: non-interference

`Sound g gr dp`: the registries `gr` read the input data only at the names `dp` lists, and
write only the names `dp` lists.  `graphStep` preserves it (`sound_step`); hence it holds at
every level (`sound_graphAt`).  The FEEL evaluator is a black box here: the logic is the
same function applied to the same scope.
-/

namespace Dmn.Drg

/-- The two input contexts have the same entry (or both none) under every listed name. -/
def AgreeOn (names : List String) (c1 c2 : Ctx) : Prop :=
  ∀ k ∈ names, Ctx.get c1 k = Ctx.get c2 k

theorem AgreeOn.mono {names names' : List String} {c1 c2 : Ctx} (h : AgreeOn names c1 c2)
    (hs : ∀ k ∈ names', k ∈ names) : AgreeOn names' c1 c2 :=
  fun k hk => h k (hs k hk)

theorem AgreeOn.left {a b : List String} {c1 c2 : Ctx} (h : AgreeOn (a ++ b) c1 c2) : AgreeOn a c1 c2 :=
  h.mono (fun _ hk => List.mem_append_left _ hk)

theorem AgreeOn.right {a b : List String} {c1 c2 : Ctx} (h : AgreeOn (a ++ b) c1 c2) : AgreeOn b c1 c2 :=
  h.mono (fun _ hk => List.mem_append_right _ hk)

theorem AgreeOn.flatMap {α : Type} {l : List α} {f : α → List String} {c1 c2 : Ctx}
    (h : AgreeOn (l.flatMap f) c1 c2) {x : α} (hx : x ∈ l) : AgreeOn (f x) c1 c2 :=
  h.mono (fun _ hk => List.mem_flatMap.mpr ⟨x, hx, hk⟩)

/-! ## the pieces of a closure -/

theorem check_congr (ty : VarTy) (name : String) (c1 c2 : Ctx) (h : Ctx.get c1 name = Ctx.get c2 name) :
    ty.check name c1 = ty.check name c2 := by
  cases ty <;> simp [VarTy.check, h]

theorem mem_inputNames {g : Drg} {ids : List String} {id : String} {i : InputData}
    (hid : id ∈ ids) (hf : g.findInput id = some i) : i.name ∈ g.inputNames ids := by
  unfold inputNames
  exact List.mem_filterMap.mpr ⟨id, hid, by simp [hf]⟩

theorem mem_decisionVarNames {g : Drg} {ids : List String} {id : String} {d : Decision}
    (hid : id ∈ ids) (hf : g.findDecision id = some d) : d.var ∈ g.decisionVarNames ids := by
  unfold decisionVarNames
  exact List.mem_filterMap.mpr ⟨id, hid, by simp [hf]⟩

theorem mem_serviceVarNames {g : Drg} {ids : List String} {id : String} {s : Service}
    (hid : id ∈ ids) (hf : g.findService id = some s) : s.var ∈ g.serviceVarNames ids := by
  unfold serviceVarNames
  exact List.mem_filterMap.mpr ⟨id, hid, by simp [hf]⟩

theorem typedInputs_congr (g : Drg) (ids : List String) (c1 c2 acc : Ctx)
    (h : AgreeOn (g.inputNames ids) c1 c2) : g.typedInputs ids c1 acc = g.typedInputs ids c2 acc := by
  unfold typedInputs
  induction ids generalizing acc with
  | nil => rfl
  | cons id ids ih =>
    simp only [List.foldl_cons]
    have hrest : AgreeOn (g.inputNames ids) c1 c2 :=
      h.mono (fun k hk => by
        unfold inputNames at hk ⊢
        obtain ⟨x, hx, hk⟩ := List.mem_filterMap.mp hk
        exact List.mem_filterMap.mpr ⟨x, List.mem_cons_of_mem _ hx, hk⟩)
    cases hf : g.findInput id with
    | none => exact ih _ hrest
    | some i =>
      have hk : Ctx.get c1 i.name = Ctx.get c2 i.name :=
        h _ (mem_inputNames (List.mem_cons_self) hf)
      simp only [check_congr i.ty i.name c1 c2 hk]
      exact ih _ hrest

theorem overwrite_congr (self c1 c2 : Ctx) (h : ∀ k ∈ Ctx.keys self, Ctx.get c1 k = Ctx.get c2 k) :
    Ctx.overwrite self c1 = Ctx.overwrite self c2 := by
  unfold Ctx.overwrite
  apply List.map_congr_left
  intro e he
  have : e.1 ∈ Ctx.keys self := List.mem_map.mpr ⟨e, he, rfl⟩
  rw [h _ this]

theorem keys_set {c : Ctx} {k : String} {v : Value} {k' : String} (h : k' ∈ Ctx.keys (Ctx.set c k v)) :
    k' = k ∨ k' ∈ Ctx.keys c :=
  Ctx.mem_keys_set c k v k' h

theorem foldCtx_congr (f f' : String → Ctx → Outcome Ctx) (ids : List String) (c : Ctx)
    (h : ∀ id ∈ ids, ∀ c, f id c = f' id c) : foldCtx f ids c = foldCtx f' ids c := by
  induction ids generalizing c with
  | nil => rfl
  | cons id ids ih =>
    simp only [foldCtx]
    rw [h id List.mem_cons_self c]
    cases f' id c with
    | ok c' => exact ih c' (fun id' hid c => h id' (List.mem_cons_of_mem _ hid) c)
    | panic p => rfl
    | diverge => rfl

/-- What a loop of closures writes: every key of the result was there before or is one of the
names its steps may write. -/
theorem foldCtx_keys (f : String → Ctx → Outcome Ctx) (N : String → List String)
    (hf : ∀ id c c', f id c = .ok c' → ∀ k ∈ Ctx.keys c', k ∈ Ctx.keys c ∨ k ∈ N id)
    (ids : List String) (c c' : Ctx) (h : foldCtx f ids c = .ok c') :
    ∀ k ∈ Ctx.keys c', k ∈ Ctx.keys c ∨ k ∈ ids.flatMap N := by
  induction ids generalizing c with
  | nil =>
    simp only [foldCtx] at h
    cases h
    intro k hk
    exact Or.inl hk
  | cons id ids ih =>
    simp only [foldCtx] at h
    cases h1 : f id c with
    | ok c1 =>
      rw [h1] at h
      intro k hk
      rcases ih c1 h k hk with h2 | h2
      · rcases hf id c c1 h1 k h2 with h3 | h3
        · exact Or.inl h3
        · exact Or.inr (List.mem_flatMap.mpr ⟨id, List.mem_cons_self, h3⟩)
      · obtain ⟨x, hx, hk'⟩ := List.mem_flatMap.mp h2
        exact Or.inr (List.mem_flatMap.mpr ⟨x, List.mem_cons_of_mem _ hx, hk'⟩)
    | panic p => rw [h1] at h; cases h
    | diverge => rw [h1] at h; cases h

theorem serviceFns_keys (g : Drg) (ids : List String) (acc : Ctx) :
    ∀ k ∈ Ctx.keys (g.serviceFns ids acc), k ∈ Ctx.keys acc ∨ k ∈ g.serviceVarNames ids := by
  unfold serviceFns
  induction ids generalizing acc with
  | nil => intro k hk; exact Or.inl hk
  | cons id ids ih =>
    intro k hk
    simp only [List.foldl_cons] at hk
    have lift : ∀ k, k ∈ g.serviceVarNames ids → k ∈ g.serviceVarNames (id :: ids) := by
      intro k hk
      unfold serviceVarNames at hk ⊢
      obtain ⟨x, hx, hk⟩ := List.mem_filterMap.mp hk
      exact List.mem_filterMap.mpr ⟨x, List.mem_cons_of_mem _ hx, hk⟩
    cases hf : g.findService id with
    | none =>
      rw [hf] at hk
      rcases ih _ k hk with h | h
      · exact Or.inl h
      · exact Or.inr (lift k h)
    | some s =>
      rw [hf] at hk
      rcases ih _ k hk with h | h
      · rcases keys_set h with h | h
        · exact Or.inr (h ▸ mem_serviceVarNames List.mem_cons_self hf)
        · exact Or.inl h
      · exact Or.inr (lift k h)

theorem dropName_ok {o : Outcome (Option String × Ctx)} {c : Ctx} (h : dropName o = .ok c) :
    ∃ n, o = .ok (n, c) := by
  cases o with
  | ok p => obtain ⟨n, c'⟩ := p; simp only [dropName] at h; cases h; exact ⟨n, rfl⟩
  | panic p => simp [dropName] at h
  | diverge => simp [dropName] at h

/-! ## the invariant -/

structure Sound (g : Drg) (gr : Graph) (dp : Deps) : Prop where
  dec : ∀ id c1 c2 out, AgreeOn (dp.decision id) c1 c2 → gr.decision id c1 out = gr.decision id c2 out
  bkm : ∀ id c1 c2 out, AgreeOn (dp.bkm id) c1 c2 → gr.bkm id c1 out = gr.bkm id c2 out
  svc : ∀ id c1 c2 out, AgreeOn (dp.service id) c1 c2 → gr.service id c1 out = gr.service id c2 out
  decKeys : ∀ id input out n out', gr.decision id input out = .ok (n, out') →
    ∀ k ∈ Ctx.keys out', k ∈ Ctx.keys out ∨ k ∈ g.decisionVarNames [id]
  svcKeys : ∀ id input out n out', gr.service id input out = .ok (n, out') →
    ∀ k ∈ Ctx.keys out', k ∈ Ctx.keys out ∨ k ∈ g.serviceVarNames [id]
  bkmKeys : ∀ id input out out', gr.bkm id input out = .ok out' →
    ∀ k ∈ Ctx.keys out', k ∈ Ctx.keys out ∨ k ∈ dp.bkmOut id

theorem sound_diverge (g : Drg) : Sound g divergeGraph Deps.bot where
  dec := fun _ _ _ _ _ => rfl
  bkm := fun _ _ _ _ _ => rfl
  svc := fun _ _ _ _ _ => rfl
  decKeys := fun _ _ _ _ _ h => by simp [divergeGraph] at h
  svcKeys := fun _ _ _ _ _ h => by simp [divergeGraph] at h
  bkmKeys := fun _ _ _ _ h => by simp [divergeGraph] at h

section step
variable {g : Drg} {gr : Graph} {dp : Deps} (hs : Sound g gr dp)
include hs

theorem callBkm_congr (id : String) (c1 c2 c : Ctx) (h : AgreeOn (dp.bkm id) c1 c2) :
    callBkm g gr id c1 c = callBkm g gr id c2 c := by
  unfold callBkm
  cases g.findBkm id with
  | none => rfl
  | some _ => exact hs.bkm id c1 c2 c h

theorem callDecision_congr (id : String) (c1 c2 c : Ctx) (h : AgreeOn (dp.decision id) c1 c2) :
    callDecision g gr id c1 c = callDecision g gr id c2 c := by
  unfold callDecision
  cases g.findDecision id with
  | none => rfl
  | some _ => exact hs.dec id c1 c2 c h

theorem callService_congr (id : String) (c1 c2 c : Ctx) (h : AgreeOn (dp.service id) c1 c2) :
    callService g gr id c1 c = callService g gr id c2 c := by
  unfold callService
  cases g.findService id with
  | none => rfl
  | some _ => exact hs.svc id c1 c2 c h

theorem callBkm_keys (id : String) (input c c' : Ctx) (h : callBkm g gr id input c = .ok c') :
    ∀ k ∈ Ctx.keys c', k ∈ Ctx.keys c ∨ k ∈ dp.bkmOut id := by
  unfold callBkm at h
  cases hf : g.findBkm id with
  | none => rw [hf] at h; cases h; exact fun k hk => Or.inl hk
  | some _ => rw [hf] at h; exact hs.bkmKeys id input c c' h

theorem callDecision_keys (id : String) (input c : Ctx) (n : Option String) (c' : Ctx)
    (h : callDecision g gr id input c = .ok (n, c')) :
    ∀ k ∈ Ctx.keys c', k ∈ Ctx.keys c ∨ k ∈ g.decisionVarNames [id] := by
  unfold callDecision at h
  cases hf : g.findDecision id with
  | none => rw [hf] at h; cases h; exact fun k hk => Or.inl hk
  | some _ => rw [hf] at h; exact hs.decKeys id input c n c' h

theorem callService_keys (id : String) (input c : Ctx) (n : Option String) (c' : Ctx)
    (h : callService g gr id input c = .ok (n, c')) :
    ∀ k ∈ Ctx.keys c', k ∈ Ctx.keys c ∨ k ∈ g.serviceVarNames [id] := by
  unfold callService at h
  cases hf : g.findService id with
  | none => rw [hf] at h; cases h; exact fun k hk => Or.inl hk
  | some _ => rw [hf] at h; exact hs.svcKeys id input c n c' h

end step

theorem decisionVarNames_flatMap (g : Drg) (ids : List String) (k : String)
    (h : k ∈ ids.flatMap (fun id => g.decisionVarNames [id])) : k ∈ g.decisionVarNames ids := by
  obtain ⟨id, hid, hk1⟩ := List.mem_flatMap.mp h
  unfold decisionVarNames at hk1 ⊢
  obtain ⟨x, hx, hk2⟩ := List.mem_filterMap.mp hk1
  simp only [List.mem_singleton] at hx
  subst hx
  exact List.mem_filterMap.mpr ⟨x, hid, hk2⟩

theorem serviceVarNames_flatMap (g : Drg) (ids : List String) (k : String)
    (h : k ∈ ids.flatMap (fun id => g.serviceVarNames [id])) : k ∈ g.serviceVarNames ids := by
  obtain ⟨id, hid, hk1⟩ := List.mem_flatMap.mp h
  unfold serviceVarNames at hk1 ⊢
  obtain ⟨x, hx, hk2⟩ := List.mem_filterMap.mp hk1
  simp only [List.mem_singleton] at hx
  subst hx
  exact List.mem_filterMap.mpr ⟨x, hid, hk2⟩

/-- The decision closure reads the input data only at the names `depsStep` lists. -/
theorem decisionClosure_congr {g : Drg} {gr : Graph} {dp : Deps} (hs : Sound g gr dp) (env : Env)
    (d : Decision) (c1 c2 out : Ctx)
    (h : AgreeOn (d.reqKnowledge.flatMap dp.bkm ++ d.reqDecisions.flatMap dp.decision ++
      knowledgeNames g dp d ++ g.inputNames d.reqInputs) c1 c2) :
    decisionClosure g env gr d c1 out = decisionClosure g env gr d c2 out := by
  have hk : AgreeOn (d.reqKnowledge.flatMap dp.bkm) c1 c2 := h.left.left.left
  have hd : AgreeOn (d.reqDecisions.flatMap dp.decision) c1 c2 := h.left.left.right
  have hn : AgreeOn (knowledgeNames g dp d) c1 c2 := h.left.right
  have hi : AgreeOn (g.inputNames d.reqInputs) c1 c2 := h.right
  unfold decisionClosure
  have e1 : foldCtx (fun id c => callBkm g gr id c1 c) d.reqKnowledge [] =
      foldCtx (fun id c => callBkm g gr id c2 c) d.reqKnowledge [] :=
    foldCtx_congr _ _ _ _ (fun id hid c => callBkm_congr hs id c1 c2 c (hk.flatMap hid))
  rw [e1]
  cases hk1 : foldCtx (fun id c => callBkm g gr id c2 c) d.reqKnowledge [] with
  | panic p => rfl
  | diverge => rfl
  | ok k1 =>
    simp only []
    have e2 : foldCtx (fun id c => dropName (callDecision g gr id c1 c)) d.reqDecisions
          (g.serviceFns d.reqKnowledge k1) =
        foldCtx (fun id c => dropName (callDecision g gr id c2 c)) d.reqDecisions
          (g.serviceFns d.reqKnowledge k1) :=
      foldCtx_congr _ _ _ _ (fun id hid c => by
        simp only [callDecision_congr hs id c1 c2 c (hd.flatMap hid)])
    rw [e2]
    cases hk3 : foldCtx (fun id c => dropName (callDecision g gr id c2 c)) d.reqDecisions
        (g.serviceFns d.reqKnowledge k1) with
    | panic p => rfl
    | diverge => rfl
    | ok k3 =>
      simp only []
      -- the keys of `required_knowledge_ctx` are among `knowledgeNames`
      have hkeys : ∀ k ∈ Ctx.keys k3, k ∈ knowledgeNames g dp d := by
        intro k hk
        have h3 := foldCtx_keys _ (fun id => g.decisionVarNames [id])
          (fun id c c' hc => by
            obtain ⟨n, hn⟩ := dropName_ok hc
            exact callDecision_keys hs id c2 c n c' hn)
          d.reqDecisions _ k3 hk3 k hk
        unfold knowledgeNames
        rcases h3 with h3 | h3
        · rcases serviceFns_keys g d.reqKnowledge k1 k h3 with h2 | h2
          · have h1 := foldCtx_keys _ dp.bkmOut
              (fun id c c' hc => callBkm_keys hs id c2 c c' hc) d.reqKnowledge [] k1 hk1 k h2
            rcases h1 with h1 | h1
            · simp [Ctx.keys] at h1
            · exact List.mem_append_left _ (List.mem_append_left _ h1)
          · exact List.mem_append_left _ (List.mem_append_right _ h2)
        · exact List.mem_append_right _ (decisionVarNames_flatMap g _ k h3)
      rw [overwrite_congr k3 c1 c2 (fun k hk => hn k (hkeys k hk)),
        typedInputs_congr g d.reqInputs c1 c2 [] hi]

/-- The keys a knowledge model closure writes. -/
theorem bkmClosure_keys {g : Drg} {gr : Graph} {dp : Deps} (hs : Sound g gr dp) (b : Bkm)
    (input out out' : Ctx) (h : bkmClosure g gr b input out = .ok out') :
    ∀ k ∈ Ctx.keys out', k ∈ Ctx.keys out ∨
      k ∈ b.reqKnowledge.flatMap dp.bkmOut ++ g.serviceVarNames b.reqKnowledge ++ [b.var] := by
  unfold bkmClosure at h
  split at h
  · rename_i out1 hfold
    cases h
    intro k hk
    rcases keys_set hk with hk | hk
    · exact Or.inr (List.mem_append_right _ (by simp [hk]))
    · have := foldCtx_keys _ (fun id => dp.bkmOut id ++ g.serviceVarNames [id])
        (fun id c c' hc => by
          intro k hk
          unfold bkmRequirement at hc
          cases h1 : callBkm g gr id input c with
          | ok c1 =>
            rw [h1] at hc
            obtain ⟨n, hn⟩ := dropName_ok hc
            rcases callService_keys hs id input c1 n c' hn k hk with h2 | h2
            · rcases callBkm_keys hs id input c c1 h1 k h2 with h3 | h3
              · exact Or.inl h3
              · exact Or.inr (List.mem_append_left _ h3)
            · exact Or.inr (List.mem_append_right _ h2)
          | panic p => rw [h1] at hc; cases hc
          | diverge => rw [h1] at hc; cases hc)
        b.reqKnowledge out out1 hfold k hk
      rcases this with h1 | h1
      · exact Or.inl h1
      · obtain ⟨id, hid, hk'⟩ := List.mem_flatMap.mp h1
        rcases List.mem_append.mp hk' with h2 | h2
        · exact Or.inr (List.mem_append_left _ (List.mem_append_left _ (List.mem_flatMap.mpr ⟨id, hid, h2⟩)))
        · exact Or.inr (List.mem_append_left _ (List.mem_append_right _
            (serviceVarNames_flatMap g _ k (List.mem_flatMap.mpr ⟨id, hid, h2⟩))))
  · cases h
  · cases h

theorem bkmClosure_congr {g : Drg} {gr : Graph} {dp : Deps} (hs : Sound g gr dp) (b : Bkm)
    (c1 c2 out : Ctx) (h : AgreeOn (b.reqKnowledge.flatMap (fun k => dp.bkm k ++ dp.service k)) c1 c2) :
    bkmClosure g gr b c1 out = bkmClosure g gr b c2 out := by
  unfold bkmClosure
  have e : foldCtx (bkmRequirement g gr c1) b.reqKnowledge out =
      foldCtx (bkmRequirement g gr c2) b.reqKnowledge out :=
    foldCtx_congr _ _ _ _ (fun id hid c => by
      have ha := h.flatMap hid
      unfold bkmRequirement
      simp only [callBkm_congr hs id c1 c2 c ha.left]
      cases callBkm g gr id c2 c with
      | ok c1' => simp only [callService_congr hs id c1 c2 c1' ha.right]
      | panic p => rfl
      | diverge => rfl)
  rw [e]

theorem outputLoop_congr (f f' : String → Ctx → Outcome (Option String × Ctx)) (ids names : List String)
    (c : Ctx) (h : ∀ id c, f id c = f' id c) : outputLoop f ids names c = outputLoop f' ids names c := by
  have : f = f' := funext (fun id => funext (fun c => h id c))
  rw [this]

theorem serviceInputs_congr (g : Drg) (s : Service) (results c1 c2 : Ctx)
    (hv : AgreeOn (g.decisionVarNames s.inputDecisions) c1 c2)
    (hi : AgreeOn (g.inputNames s.inputData) c1 c2) :
    g.serviceInputs s results c1 = g.serviceInputs s results c2 := by
  unfold serviceInputs
  simp only []
  have e : ∀ (vars : List (String × VarTy)) (acc : Ctx), (∀ v ∈ vars, v.1 ∈ g.decisionVarNames s.inputDecisions) →
      vars.foldl (fun c v => Ctx.set c v.1 (v.2.check v.1 c1)) acc =
      vars.foldl (fun c v => Ctx.set c v.1 (v.2.check v.1 c2)) acc := by
    intro vars
    induction vars with
    | nil => intro _ _; rfl
    | cons v vars ih =>
      intro acc hm
      simp only [List.foldl_cons]
      rw [check_congr v.2 v.1 c1 c2 (hv _ (hm v List.mem_cons_self))]
      exact ih _ (fun v' hv' => hm v' (List.mem_cons_of_mem _ hv'))
  have hm : ∀ v ∈ g.inputDecisionVars s, v.1 ∈ g.decisionVarNames s.inputDecisions := by
    intro v hv'
    unfold inputDecisionVars at hv'
    obtain ⟨id, hid, hd⟩ := List.mem_filterMap.mp hv'
    cases hf : g.findDecision id with
    | none => simp [hf] at hd
    | some d =>
      simp [hf] at hd
      subst hd
      exact mem_decisionVarNames hid hf
  rw [e _ _ hm, typedInputs_congr g s.inputData c1 c2 _ hi]

theorem serviceClosure_congr {g : Drg} {gr : Graph} {dp : Deps} (hs : Sound g gr dp) (s : Service)
    (c1 c2 out : Ctx)
    (h : AgreeOn (s.inputDecisions.flatMap dp.decision ++ g.decisionVarNames s.inputDecisions ++
      g.inputNames s.inputData) c1 c2) :
    serviceClosure g gr s c1 out = serviceClosure g gr s c2 out := by
  unfold serviceClosure
  have e1 : foldCtx (fun id c => dropName (callDecision g gr id c1 c)) s.inputDecisions [] =
      foldCtx (fun id c => dropName (callDecision g gr id c2 c)) s.inputDecisions [] :=
    foldCtx_congr _ _ _ _ (fun id hid c => by
      simp only [callDecision_congr hs id c1 c2 c (h.left.left.flatMap hid)])
  rw [e1]
  cases foldCtx (fun id c => dropName (callDecision g gr id c2 c)) s.inputDecisions [] with
  | panic p => rfl
  | diverge => rfl
  | ok results =>
    simp only []
    rw [serviceInputs_congr g s results c1 c2 h.left.right h.right]

theorem serviceResult_keys (ty : FType) (names : List String) (evaluated : Ctx) (var : String) (out : Ctx) :
    ∀ k ∈ Ctx.keys (serviceResult ty names evaluated var out), k ∈ Ctx.keys out ∨ k = var := by
  intro k hk
  unfold serviceResult at hk
  split at hk
  · split at hk
    · rcases keys_set hk with h | h
      · exact Or.inr h
      · exact Or.inl h
    · exact Or.inl hk
  · rcases keys_set hk with h | h
    · exact Or.inr h
    · exact Or.inl h

/-- One level of closures keeps the invariant. -/
theorem sound_step {g : Drg} {gr : Graph} {dp : Deps} (hs : Sound g gr dp) (env : Env) :
    Sound g (graphStep g env gr) (depsStep g dp) where
  dec := by
    intro id c1 c2 out h
    simp only [graphStep, depsStep] at h ⊢
    cases hf : g.findDecision id with
    | none => rfl
    | some d =>
      rw [hf] at h
      exact decisionClosure_congr hs env d c1 c2 out h
  bkm := by
    intro id c1 c2 out h
    simp only [graphStep, depsStep] at h ⊢
    cases hf : g.findBkm id with
    | none => rfl
    | some b =>
      rw [hf] at h
      exact bkmClosure_congr hs b c1 c2 out h
  svc := by
    intro id c1 c2 out h
    simp only [graphStep, depsStep] at h ⊢
    cases hf : g.findService id with
    | none => rfl
    | some s =>
      rw [hf] at h
      exact serviceClosure_congr hs s c1 c2 out h
  decKeys := by
    intro id input out n out' h k hk
    simp only [graphStep] at h
    cases hf : g.findDecision id with
    | none => rw [hf] at h; cases h; exact Or.inl hk
    | some d =>
      rw [hf] at h
      simp only [decisionClosure] at h
      split at h
      · split at h
        · split at h
          · cases h
            rcases keys_set hk with hk | hk
            · exact Or.inr (hk ▸ mem_decisionVarNames List.mem_cons_self hf)
            · exact Or.inl hk
          · cases h
          · cases h
        · cases h
        · cases h
      · cases h
      · cases h
  svcKeys := by
    intro id input out n out' h k hk
    simp only [graphStep] at h
    cases hf : g.findService id with
    | none => rw [hf] at h; cases h; exact Or.inl hk
    | some s =>
      rw [hf] at h
      simp only [serviceClosure] at h
      split at h
      · split at h
        · split at h
          · cases h
            rcases serviceResult_keys _ _ _ _ _ k hk with hk | hk
            · exact Or.inl hk
            · exact Or.inr (hk ▸ mem_serviceVarNames List.mem_cons_self hf)
          · cases h
          · cases h
        · cases h
        · cases h
      · cases h
      · cases h
  bkmKeys := by
    intro id input out out' h
    simp only [graphStep, depsStep] at h ⊢
    cases hf : g.findBkm id with
    | none => rw [hf] at h; cases h; exact fun k hk => Or.inl hk
    | some b =>
      rw [hf] at h
      exact bkmClosure_keys hs b input out out' h

theorem sound_graphAt (g : Drg) (env : Env) (n : Nat) :
    Sound g (graphAt g env divergeGraph n) (depsAt g n) := by
  induction n with
  | zero => exact sound_step (sound_diverge g) env
  | succ n ih => exact sound_step ih env

theorem level_graph' (base : Env) (g : Drg) (G ff : Nat) :
    (level base g G ff).graph = graphAt g (level base g G ff).env divergeGraph := by
  cases ff <;> rfl

theorem level_graph (base : Env) (g : Drg) (G ff : Nat) :
    (level base g G ff).graph = graphAt g (level base g G ff).env divergeGraph := by
  cases ff <;> rfl


theorem findLast?_mem {α : Type} (p : α → Bool) (xs : List α) (x : α) (h : findLast? p xs = some x) :
    x ∈ xs := by
  induction xs with
  | nil => simp [findLast?] at h
  | cons y ys ih =>
    simp only [findLast?] at h
    cases hr : findLast? p ys with
    | some z =>
      rw [hr] at h
      cases h
      exact List.mem_cons_of_mem _ (ih hr)
    | none =>
      rw [hr] at h
      by_cases hp : p y = true
      · rw [if_pos hp] at h
        cases h
        exact List.mem_cons_self
      · rw [if_neg hp] at h
        cases h

theorem bkmArgs_congr (params : List (String × FType)) (c1 c2 : Ctx)
    (h : AgreeOn (params.map Prod.fst) c1 c2) : bkmArgs params c1 = bkmArgs params c2 := by
  unfold bkmArgs
  generalize ([] : Ctx) = acc
  induction params generalizing acc with
  | nil => rfl
  | cons p ps ih =>
    simp only [List.foldl_cons]
    rw [h p.1 (by simp)]
    exact ih (h.mono (fun k hk => by simp at hk ⊢; exact Or.inr hk)) _

/-- What a knowledge model closure leaves under its own variable. -/
theorem bkm_own_entry (g : Drg) (env : Env) (gf : Nat) (id : String) (b : Bkm) (input evaluated : Ctx)
    (hf : g.findBkm id = some b)
    (h : (graphAt g env divergeGraph gf).bkm id input [] = .ok evaluated) :
    Ctx.get evaluated b.var = some (.fn b.params b.body b.ty.ftype) := by
  have key : ∀ prev : Graph, (graphStep g env prev).bkm id input [] = .ok evaluated →
      Ctx.get evaluated b.var = some (.fn b.params b.body b.ty.ftype) := by
    intro prev h
    simp only [graphStep, hf, bkmClosure] at h
    split at h
    · cases h
      rw [Ctx.get_set, if_pos rfl]
    · cases h
    · cases h
  cases gf with
  | zero => exact key _ h
  | succ n => exact key _ h


end Dmn.Drg
