import Dmn.Lemmas.CanvasCorners

/-!
# The regions of a sheet in reading order

`RectSheet s`: every grid cell lies in a rectangular region (`IsRegion`).  Then the keys in order
of first appearance (`keysInOrder`) are the keys of the origins of the regions (the grid cells with
a line above and to the left) in reading order, `locate` finds the origin, `lastCol` / `lastRow`
the extent: `regionRect` is the rectangle `recognize_region` returns.
-/

namespace Dmn.Recog
open Scan (ok error)

/-- every grid cell lies in a rectangular region -/
def RectSheet (s : Sheet) : Prop :=
  ∀ r c, r < s.nrows → c < s.ncols → ∃ r0 c0 r1 c1, IsRegion s (s.key r c) r0 c0 r1 c1

namespace Sheet

/-- the grid cells in reading order -/
def cells (s : Sheet) : List (Nat × Nat) :=
  (List.range s.nrows).flatMap fun r => (List.range s.ncols).map fun c => (r, c)

/-- a grid cell with a line above and to the left: the origin of its region -/
def isOrigin (s : Sheet) (p : Nat × Nat) : Bool := s.vSeg p.1 p.2 && s.hSeg p.1 p.2

/-- the origins of the regions in reading order -/
def origins (s : Sheet) : List (Nat × Nat) := s.cells.filter s.isOrigin

theorem mem_cells (s : Sheet) (p : Nat × Nat) : p ∈ s.cells ↔ p.1 < s.nrows ∧ p.2 < s.ncols := by
  unfold cells
  simp only [List.mem_flatMap, List.mem_range, List.mem_map]
  constructor
  · rintro ⟨r, hr, c, hc, rfl⟩; exact ⟨hr, hc⟩
  · rintro ⟨hr, hc⟩; exact ⟨p.1, hr, p.2, hc, rfl⟩

end Sheet

/-- reading order -/
def lexLt (a b : Nat × Nat) : Prop := a.1 < b.1 ∨ (a.1 = b.1 ∧ a.2 < b.2)

theorem cellsUpTo_pairwise (ncols : Nat) : ∀ n,
    List.Pairwise lexLt ((List.range n).flatMap fun r => (List.range ncols).map fun c => (r, c))
  | 0 => by simp
  | n + 1 => by
    rw [List.range_succ, List.flatMap_append, List.pairwise_append]
    refine ⟨cellsUpTo_pairwise ncols n, ?_, ?_⟩
    · simp only [List.flatMap_cons, List.flatMap_nil, List.append_nil]
      rw [List.pairwise_map]
      have := List.pairwise_lt_range (n := ncols)
      exact this.imp (fun h => Or.inr ⟨rfl, h⟩)
    · intro a ha b hb
      simp only [List.mem_flatMap, List.mem_range, List.mem_map] at ha
      simp only [List.flatMap_cons, List.flatMap_nil, List.append_nil, List.mem_map, List.mem_range] at hb
      obtain ⟨r, hr, c, _, rfl⟩ := ha
      obtain ⟨c', _, rfl⟩ := hb
      exact Or.inl hr

/-- what comes before a cell in reading order -/
theorem cells_split (s : Sheet) {p1 p2 : List (Nat × Nat)} {a : Nat × Nat}
    (h : s.cells = p1 ++ a :: p2) :
    (a.1 < s.nrows ∧ a.2 < s.ncols) ∧
    ∀ b, b ∈ p1 ↔ (b.1 < s.nrows ∧ b.2 < s.ncols ∧ lexLt b a) := by
  have hpw : List.Pairwise lexLt (p1 ++ a :: p2) := by
    rw [← h]; exact cellsUpTo_pairwise s.ncols s.nrows
  rw [List.pairwise_append, List.pairwise_cons] at hpw
  obtain ⟨_, ⟨hap2, _⟩, hp1⟩ := hpw
  have ha : a ∈ s.cells := by rw [h]; simp
  refine ⟨(s.mem_cells a).mp ha, ?_⟩
  intro b
  constructor
  · intro hb
    have hbc : b ∈ s.cells := by rw [h]; simp [hb]
    have := (s.mem_cells b).mp hbc
    exact ⟨this.1, this.2, hp1 b hb a (by simp)⟩
  · rintro ⟨h1, h2, hlt⟩
    have hbc : b ∈ s.cells := (s.mem_cells b).mpr ⟨h1, h2⟩
    rw [h] at hbc
    rcases List.mem_append.mp hbc with hb | hb
    · exact hb
    · exfalso
      rcases List.mem_cons.mp hb with rfl | hb
      · unfold lexLt at hlt; omega
      · have := hap2 b hb
        unfold lexLt at hlt this; omega

section
variable {s : Sheet}

/-- the origin of a region is its top left cell -/
theorem IsRegion.origin_eq {k : Key} {r0 c0 r1 c1 r c : Nat} (reg : IsRegion s k r0 c0 r1 c1)
    (hin : r0 ≤ r ∧ r ≤ r1 ∧ c0 ≤ c ∧ c ≤ c1) (ho : s.isOrigin (r, c) = true) : r = r0 ∧ c = c0 := by
  simp only [Sheet.isOrigin, Bool.and_eq_true] at ho
  constructor
  · by_cases h : r0 < r
    · have := reg.hSeg_inner h hin.2.1 hin.2.2.1 hin.2.2.2
      rw [this] at ho; exact absurd ho.2 (by decide)
    · omega
  · by_cases h : c0 < c
    · have := reg.vSeg_inner hin.1 hin.2.1 h hin.2.2.2
      rw [this] at ho; exact absurd ho.1 (by decide)
    · omega

/-- no cell before the origin of a region has the key of the region -/
theorem IsRegion.none_before {k : Key} {r0 c0 r1 c1 : Nat} (reg : IsRegion s k r0 c0 r1 c1)
    {b : Nat × Nat} (hb : b.1 < s.nrows ∧ b.2 < s.ncols) (hlt : lexLt b (r0, c0)) :
    s.key b.1 b.2 ≠ k := by
  intro e
  have := (reg.cells b.1 b.2 hb.1 hb.2).mp e
  unfold lexLt at hlt
  simp only at hlt
  omega

theorem first_iff (hrect : RectSheet s) {p1 p2 : List (Nat × Nat)} {a : Nat × Nat}
    (h : s.cells = p1 ++ a :: p2) :
    s.isOrigin a = false ↔ ∃ b ∈ [] ++ p1, s.key b.1 b.2 = s.key a.1 a.2 := by
  obtain ⟨⟨ha1, ha2⟩, hp1⟩ := cells_split s h
  obtain ⟨r, c⟩ := a
  simp only at ha1 ha2
  simp only [List.nil_append]
  obtain ⟨r0, c0, r1, c1, reg⟩ := hrect r c ha1 ha2
  have hin := (reg.cells r c ha1 ha2).mp rfl
  constructor
  · intro hf
    simp only [Sheet.isOrigin, Bool.and_eq_false_iff] at hf
    rcases hf with hv | hh
    · simp only [Sheet.vSeg, Bool.or_eq_false_iff, beq_eq_false_iff_ne, ne_eq, bne_eq_false_iff_eq] at hv
      obtain ⟨⟨hc0, _⟩, hk⟩ := hv
      exact ⟨(r, c - 1), (hp1 _).mpr ⟨ha1, by simp only; omega, Or.inr ⟨rfl, by simp only; omega⟩⟩, hk⟩
    · simp only [Sheet.hSeg, Bool.or_eq_false_iff, beq_eq_false_iff_ne, ne_eq, bne_eq_false_iff_eq] at hh
      obtain ⟨⟨hr0, _⟩, hk⟩ := hh
      exact ⟨(r - 1, c), (hp1 _).mpr ⟨by simp only; omega, ha2, Or.inl (by simp only; omega)⟩, hk⟩
  · rintro ⟨b, hb, hk⟩
    cases hf : s.isOrigin (r, c) with
    | false => rfl
    | true =>
      exfalso
      obtain ⟨e1, e2⟩ := reg.origin_eq hin hf
      subst e1; subst e2
      obtain ⟨hb1, hb2, hlt⟩ := (hp1 b).mp hb
      exact reg.none_before ⟨hb1, hb2⟩ hlt hk

/-- **The keys in order of first appearance are the keys of the origins in reading order.** -/
theorem keysInOrder_eq (hrect : RectSheet s) :
    s.keysInOrder = s.origins.map (fun p => s.key p.1 p.2) := by
  have hlist : ((List.range s.nrows).flatMap fun r => (List.range s.ncols).map fun c => s.key r c) =
      s.cells.map (fun p => s.key p.1 p.2) := by
    unfold Sheet.cells
    rw [List.map_flatMap]
    apply flatMap_congr'
    intro r _
    rw [List.map_map]; rfl
  unfold Sheet.keysInOrder
  rw [hlist]
  have := keepFirst_eq (fun p : Nat × Nat => s.key p.1 p.2) s.isOrigin s.cells [] [] (by simp)
    (fun p1 p2 a h => first_iff hrect h)
  rw [this]; rfl

theorem lastCol_eq {k : Key} {r0 c0 r1 c1 : Nat} (reg : IsRegion s k r0 c0 r1 c1) :
    ∀ (fuel c : Nat), c0 ≤ c → c ≤ c1 → c1 - c < fuel → s.lastCol r0 fuel c = c1
  | 0, _, _, _, h => by omega
  | fuel + 1, c, h1, h2, h3 => by
    obtain ⟨hr01, hr1⟩ := reg.hr
    obtain ⟨hc01, hc1⟩ := reg.hc
    simp only [Sheet.lastCol]
    by_cases hc : c = c1
    · subst hc
      have : s.endCol r0 c = true := by
        simp only [Sheet.endCol, Bool.or_eq_true, beq_iff_eq, bne_iff_ne, ne_eq]
        by_cases hl : c + 1 = s.ncols
        · exact Or.inl hl
        · right
          rw [reg.key_in (Nat.le_refl _) hr01 h1 (Nat.le_refl _)]
          exact fun e => reg.key_out (r := r0) (c := c + 1) (by omega) (by omega) (by omega) e.symm
      rw [if_pos this]
    · have : s.endCol r0 c = false := by
        have e1 : (c + 1 == s.ncols) = false := by simp; omega
        simp only [Sheet.endCol, e1, Bool.false_or]
        rw [reg.key_in (Nat.le_refl _) hr01 h1 h2, reg.key_in (c := c + 1) (Nat.le_refl _) hr01 (by omega) (by omega)]
        simp
      rw [if_neg (by rw [this]; decide)]
      exact lastCol_eq reg fuel (c + 1) (by omega) (by omega) (by omega)

theorem lastRow_eq {k : Key} {r0 c0 r1 c1 : Nat} (reg : IsRegion s k r0 c0 r1 c1) :
    ∀ (fuel r : Nat), r0 ≤ r → r ≤ r1 → r1 - r < fuel → s.lastRow c0 fuel r = r1
  | 0, _, _, _, h => by omega
  | fuel + 1, r, h1, h2, h3 => by
    obtain ⟨hr01, hr1⟩ := reg.hr
    obtain ⟨hc01, hc1⟩ := reg.hc
    simp only [Sheet.lastRow]
    by_cases hr : r = r1
    · subst hr
      have : s.endRow r c0 = true := by
        simp only [Sheet.endRow, Bool.or_eq_true, beq_iff_eq, bne_iff_ne, ne_eq]
        by_cases hl : r + 1 = s.nrows
        · exact Or.inl hl
        · right
          rw [reg.key_in h1 (Nat.le_refl _) (Nat.le_refl _) hc01]
          exact fun e => reg.key_out (r := r + 1) (c := c0) (by omega) (by omega) (by omega) e.symm
      rw [if_pos this]
    · have : s.endRow r c0 = false := by
        have e1 : (r + 1 == s.nrows) = false := by simp; omega
        simp only [Sheet.endRow, e1, Bool.false_or]
        rw [reg.key_in h1 h2 (Nat.le_refl _) hc01, reg.key_in (r := r + 1) (by omega) (by omega) (Nat.le_refl _) hc01]
        simp
      rw [if_neg (by rw [this]; decide)]
      exact lastRow_eq reg fuel (r + 1) (by omega) (by omega) (by omega)

/-- `locate` finds the origin of a region -/
theorem locate_eq {k : Key} {r0 c0 r1 c1 : Nat} (reg : IsRegion s k r0 c0 r1 c1) :
    s.locate k = some (r0, c0) := by
  obtain ⟨hr01, hr1⟩ := reg.hr
  obtain ⟨hc01, hc1⟩ := reg.hc
  have hmem : (r0, c0) ∈ s.cells := (s.mem_cells _).mpr ⟨by simp only; omega, by simp only; omega⟩
  obtain ⟨p1, p2, hsplit⟩ := List.append_of_mem hmem
  obtain ⟨_, hp1⟩ := cells_split s hsplit
  unfold Sheet.locate
  show s.cells.find? _ = _
  rw [hsplit, List.find?_append]
  have hnone : p1.find? (fun p => s.key p.1 p.2 == k) = none := by
    rw [List.find?_eq_none]
    intro b hb
    obtain ⟨hb1, hb2, hlt⟩ := (hp1 b).mp hb
    have := reg.none_before ⟨hb1, hb2⟩ hlt
    simpa using this
  rw [hnone]
  have hk : s.key r0 c0 = k := reg.key_in (Nat.le_refl _) hr01 (Nat.le_refl _) hc01
  simp [hk]

/-- the rectangle of the region of an origin, in pixel coordinates -/
theorem regionRect_eq {k : Key} {r0 c0 r1 c1 : Nat} (reg : IsRegion s k r0 c0 r1 c1) (o : Nat) :
    s.regionRect o k =
      ⟨s.xPos c0, o + s.yPos r0, s.xPos (c1 + 1) + 1, o + s.yPos (r1 + 1) + 1⟩ := by
  obtain ⟨hr01, hr1⟩ := reg.hr
  obtain ⟨hc01, hc1⟩ := reg.hc
  unfold Sheet.regionRect
  rw [locate_eq reg]
  simp only
  rw [lastCol_eq reg s.ncols c0 (Nat.le_refl _) hc01 (by omega),
    lastRow_eq reg s.nrows r0 (Nat.le_refl _) hr01 (by omega)]

/-- the region of an origin starts there -/
theorem region_of_origin (hrect : RectSheet s) {p : Nat × Nat} (hp : p ∈ s.origins) :
    ∃ r1 c1, IsRegion s (s.key p.1 p.2) p.1 p.2 r1 c1 := by
  obtain ⟨hc, ho⟩ := List.mem_filter.mp hp
  obtain ⟨h1, h2⟩ := (s.mem_cells p).mp hc
  obtain ⟨r0, c0, r1, c1, reg⟩ := hrect p.1 p.2 h1 h2
  have hin := (reg.cells p.1 p.2 h1 h2).mp rfl
  obtain ⟨e1, e2⟩ := reg.origin_eq hin ho
  exact ⟨r1, c1, by rw [← e1, ← e2] at reg; exact reg⟩

theorem originPts_eq (s : Sheet) (o : Nat) :
    originPts s o = s.origins.map (fun p => (⟨s.xPos p.2, o + s.yPos p.1⟩ : Point)) := by
  unfold originPts Sheet.origins Sheet.cells
  induction (List.range s.nrows) with
  | nil => rfl
  | cons r rs ih =>
    rw [List.flatMap_cons, List.flatMap_cons, List.filter_append, List.map_append, ih]
    congr 1
    induction (List.range s.ncols) with
    | nil => rfl
    | cons c cs ih2 =>
      rw [List.flatMap_cons, List.map_cons, ih2]
      by_cases hb : s.isOrigin (r, c) = true
      · rw [List.filter_cons_of_pos hb]
        have hb' : (s.vSeg r c && s.hSeg r c) = true := hb
        rw [if_pos hb']; rfl
      · rw [List.filter_cons_of_neg hb]
        have hb' : ¬ (s.vSeg r c && s.hSeg r c) = true := hb
        rw [if_neg hb']; rfl

end

end Dmn.Recog
